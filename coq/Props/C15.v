(* C15 — Health score is bounded, monotone and consistently graded.
   This file contains only the property theorems; each is closed by [exact] of a lemma
   proved in Score/*.v about the model Score/ScoreQ.v (tied to domain/analyze.go and
   app/analyze_usecase.go:calculateSummary by Gen/DomainConst.v and the correspondence check). *)
From Coq Require Import ZArith QArith List.
From PV Require Import Gen.DomainConst Gen.ScoreGen Score.ScoreQ Score.ScoreProofs Score.ScoreMono Score.ScoreSkip Score.ScoreTie Score.ScoreGrade.
Open Scope Q_scope.

(* the model the theorems below are about is, function by function, the Gallina text generated from
   domain/analyze.go on this run (translator/gen_score.go -> Gen/ScoreGen.v) *)
Theorem C15_model_is_the_translated_source :
  (forall s, go_calculateComplexityPenalty s = complexity_penalty s) /\
  (forall s nf, go_calculateDeadCodePenalty s nf = dead_code_penalty nf s) /\
  (forall s, go_calculateDuplicationPenalty s = duplication_penalty s) /\
  (forall s, go_calculateCouplingPenalty s = coupling_penalty s) /\
  (forall s, go_calculateCohesionPenalty s = cohesion_penalty s) /\
  (forall s, go_calculateDependencyPenalty s = dependency_penalty s) /\
  (forall s, go_calculateArchitecturePenalty s = architecture_penalty s) /\
  (forall p m, go_normalizeToScoreBase p m = normalize_to_score_base p m) /\
  (forall p m, go_penaltyToScore p m = penalty_to_score p m) /\
  (forall sc, go_GetGradeFromScore sc = grade_of sc).
Proof.
  exact (conj tie_complexity (conj tie_dead_code (conj tie_duplication (conj tie_coupling (conj tie_cohesion
        (conj tie_dependency (conj tie_architecture (conj tie_normalize (conj tie_penalty_to_score tie_grade))))))))).
Qed.

Section C15.
Variable log10 : Q -> Q.   (* math.Log10: only non-negativity on [1,oo) is used *)
Hypothesis log10_nonneg : forall x, 1 <= x -> 0 <= log10 x.

(* the health score lies in [0,100] *)
Theorem C15_score_range : forall s, counts_nonneg s ->
  (0 <= r_health (calculate_health_score log10 s) <= 100)%Z.
Proof. exact (score_range log10 log10_nonneg). Qed.

(* every category score lies in [0,100] *)
Theorem C15_category_range : forall s, 0 <= arch_compliance s <= 1 ->
  let r := calculate_health_score log10 s in
  in_0_100 (r_complexity r) /\ in_0_100 (r_deadcode r) /\ in_0_100 (r_duplication r) /\
  in_0_100 (r_coupling r) /\ in_0_100 (r_cohesion r) /\ in_0_100 (r_dependency r) /\ in_0_100 (r_architecture r).
Proof. exact (category_range log10). Qed.

(* score = 100 - sum of the category penalties, floored at 0 *)
Theorem C15_score_formula : forall s, validate s = true ->
  r_health (calculate_health_score log10 s) =
  Z.max 0 (100 - fold_right Z.add 0%Z (penalties (norm_factor log10 (total_files s)) s)).
Proof. exact (health_is_formula log10). Qed.

(* each penalty is capped at its documented maximum *)
Theorem C15_penalty_caps : forall nf s, counts_nonneg s -> 0 < nf ->
  Forall2 (fun p cap => 0 <= p <= cap)%Z (penalties nf s) (20 :: 20 :: 20 :: 20 :: 20 :: 16 :: 12 :: nil)%Z.
Proof. exact penalty_caps. Qed.

(* the grade is A/B/C/D/F exactly by 90/75/60/45 *)
Theorem C15_grade_of_score : forall s, validate s = true ->
  r_grade (calculate_health_score log10 s) = grade_of (r_health (calculate_health_score log10 s)).
Proof. exact (grade_is_table log10). Qed.
Theorem C15_grade_table : forall sc,
  (grade_of sc = GA <-> 90 <= sc)%Z /\ (grade_of sc = GB <-> 75 <= sc < 90)%Z /\
  (grade_of sc = GC <-> 60 <= sc < 75)%Z /\ (grade_of sc = GD <-> 45 <= sc < 60)%Z /\
  (grade_of sc = GF <-> sc < 45)%Z.
Proof. exact grade_table. Qed.

(* making any measured quantities worse, totals fixed, never raises the score *)
Theorem C15_monotone : forall nf s s', 0 < nf -> counts_nonneg s -> worse s s' ->
  (raw_score nf s' <= raw_score nf s)%Z.
Proof. exact score_monotone. Qed.

(* skipping an analysis never lowers the score *)
Theorem C15_skip_never_lowers : forall sel sel' a, analyses_ok a -> sel_le sel sel' ->
  (score_of log10 sel' a <= score_of log10 sel a)%Z.
Proof. exact (skip_never_lowers log10 log10_nonneg). Qed.
(* consistently graded: the grade is monotone in the score (a higher score never gets a worse letter),
   grades are intervals of scores, worse measurements never improve the letter, and N/A is exactly
   the invalid summaries *)
Theorem C15_grade_rank_mono : forall sc sc', (sc <= sc')%Z ->
  (grade_rank (grade_of sc) <= grade_rank (grade_of sc'))%Z.
Proof. exact grade_rank_mono. Qed.
Theorem C15_grade_convex : forall a b c, (a <= b <= c)%Z -> grade_of a = grade_of c -> grade_of b = grade_of a.
Proof. exact grade_convex. Qed.
Theorem C15_grade_monotone : forall nf s s', 0 < nf -> counts_nonneg s -> worse s s' ->
  (grade_rank (grade_of (raw_score nf s')) <= grade_rank (grade_of (raw_score nf s)))%Z.
Proof. exact grade_monotone. Qed.
Theorem C15_valid_grade_not_na : forall s, validate s = true -> r_grade (calculate_health_score log10 s) <> GNA.
Proof. exact (valid_grade_not_na log10). Qed.
Theorem C15_invalid_is_na : forall s, validate s = false ->
  r_grade (calculate_health_score log10 s) = GNA /\ r_health (calculate_health_score log10 s) = 0%Z.
Proof. exact (invalid_is_na log10). Qed.
End C15.

Print Assumptions C15_model_is_the_translated_source.
Print Assumptions C15_score_range.
Print Assumptions C15_category_range.
Print Assumptions C15_score_formula.
Print Assumptions C15_penalty_caps.
Print Assumptions C15_grade_of_score.
Print Assumptions C15_grade_table.
Print Assumptions C15_monotone.
Print Assumptions C15_skip_never_lowers.
Print Assumptions C15_grade_rank_mono.
Print Assumptions C15_grade_convex.
Print Assumptions C15_grade_monotone.
Print Assumptions C15_valid_grade_not_na.
Print Assumptions C15_invalid_is_na.
