(* C20 — Analyses are independent: running them together or apart gives the same results.
   Theorems about the pipeline model (Service/Pipeline.v, Service/Isolation.v) and the two front ends (Cli/Frontends.v).
   The data-race clause is not a theorem: the Go memory model and scheduler are not modelled; it is decided by running a
   -race build of the real binary (thorough tier) — a test.  MCP transport is not modelled: handlers are called in-process. *)
From Coq Require Import ZArith QArith List String Bool Permutation.
From PV Require Import Gen.McpConst Service.Isolation Service.Pipeline Cli.Frontends.
Import ListNotations.

(* every interleaving of the analysis goroutines yields the same response *)
Theorem C20_interleaving : forall (result : Type) (completed completed' : list (nat * result)),
  NoDup (map fst completed) -> Permutation completed completed' ->
  forall s, assemble result completed s = assemble result completed' s.
Proof. exact interleave_indep. Qed.

(* each section of a combined report is the section obtained by running that analysis alone *)
Theorem C20_combined_eq_separate : forall (result : Type) (tasks : list (nat * result)) slot v,
  NoDup (map fst tasks) -> In (slot, v) tasks -> assemble result tasks slot = assemble result [(slot, v)] slot.
Proof. exact combined_eq_separate. Qed.

Theorem C20_unselected_empty : forall (result : Type) (tasks : list (nat * result)) slot,
  ~ In slot (map fst tasks) -> assemble result tasks slot = None.
Proof. exact unselected_empty. Qed.

(* per-file results do not depend on which other files are analysed, nor on their order *)
Theorem C20_per_file_independent :
  forall (file item err : Type) (analyze : file -> list item + err) (file_eqb : file -> file -> bool),
  (forall a b, file_eqb a b = true <-> a = b) ->
  forall (file_of : item -> file), (forall f x, In x (ok_items _ _ _ analyze f) -> file_of x = f) ->
  forall fs1 fs2 f, ~ In f fs1 -> ~ In f fs2 ->
  filter (fun x => file_eqb (file_of x) f) (items _ _ (run _ _ _ analyze (fs1 ++ f :: fs2))) = ok_items _ _ _ analyze f.
Proof. exact per_file_independent. Qed.

Theorem C20_order_only_permutes :
  forall (file item err : Type) (analyze : file -> list item + err) fs fs',
  Permutation fs fs' -> Permutation (items _ _ (run _ _ _ analyze fs)) (items _ _ (run _ _ _ analyze fs')).
Proof. exact order_only_permutes. Qed.

(* the MCP analyze_code tool and the command line build the same use-case configuration when given the same options
   (same analyses under the two spellings, same thresholds, no --skip-* flag) *)
Theorem C20_mcp_eq_cli : forall minc sev sim,
  (sev = "critical" \/ sev = "warning" \/ sev = "info")%string ->
  forallb (fun sel => let c := cli_cfg sel (repeat false 6) minc sev sim in
                      let m := mcp_cfg (map to_mcp sel) minc sev sim in
                      forallb (fun p => Bool.eqb (fst p) (snd p)) (combine (skip c) (skip m))
                      && Nat.eqb (List.length (skip c)) (List.length (skip m))
                      && String.eqb (min_severity c) (min_severity m))
          [[]; ["complexity"]; ["deadcode"]; ["clones"]; ["cbo"]; ["lcom"]; ["deps"]; ["complexity"; "deadcode"];
           ["deadcode"; "clones"; "deps"]; ["complexity"; "deadcode"; "clones"; "cbo"; "lcom"; "deps"]]%string = true
  /\ min_complexity (cli_cfg [] (repeat false 6) minc sev sim) = min_complexity (mcp_cfg [] minc sev sim)
  /\ clone_similarity (cli_cfg [] (repeat false 6) minc sev sim) = clone_similarity (mcp_cfg [] minc sev sim).
Proof.
  intros minc sev sim H. destruct H as [H|[H|H]]; subst sev; (split; [vm_compute; reflexivity | split; reflexivity]).
Qed.

(* every single-analysis tool reads its include / exclude patterns from the [analysis] section only, the section the
   command line selects the files with (was finding F70: detect_clones read [clones] include_patterns / exclude_patterns,
   so `[analysis] exclude_patterns` did not reach it) *)
Theorem C20_tools_select_files_like_cli : tools_select_files_like_cli = true.
Proof. vm_compute. reflexivity. Qed.

Print Assumptions C20_interleaving.
Print Assumptions C20_combined_eq_separate.
Print Assumptions C20_unselected_empty.
Print Assumptions C20_per_file_independent.
Print Assumptions C20_order_only_permutes.
Print Assumptions C20_mcp_eq_cli.
Print Assumptions C20_tools_select_files_like_cli.
