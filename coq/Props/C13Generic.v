(* C13 — CBO, subscripted forms next to Class/Syntax.v (parametrised base class, module-qualified generic
   container).  Only property theorems, each closed by [exact] of a lemma of Class/CBOGenericProofs.v.

   FULL statement for these forms: the dependency set contains the base class of  class K(Base[T])  and the
   classes named inside  x: mod.Container[T].  Proved: C13_generic_base_counted, C13_qualified_generic_exact.
   (Before fix: commits aa7c715 and b2f1993 it was false, finding F41: both readers of a Subscript node in
   cbo.go looked at node.Right / Children[1], buildSubscript fills Value / Children[0..]; and the parser kept
   only the first subscript argument.) *)
From Coq Require Import ZArith NArith List String.
From PV Require Import Class.Syntax Class.SetK Class.CBO Class.CBOProofs Class.CBOGeneric Class.CBOGenericProofs.
Import ListNotations.

(* class K(Base[A1, ..., An]): Base is counted (unless a built-in), for every argument list; and what is
   counted is within what the class names *)
Theorem C13_generic_base_counted : forall g, ref_ok (gb_base g) ->
  generic_base_deps default_options g = generic_base_required g /\
  (forall z, In z (generic_base_deps default_options g) -> In z (generic_base_allowed g)).
Proof. exact generic_base_counted_within. Qed.

(* x: mod.Container[T1, ..., Tn]: exactly the classes named as type arguments, built-ins excluded *)
Theorem C13_qualified_generic_exact : forall c args, Forall ref_ok args ->
  set_of (qualified_generic_deps default_options c args) = qualified_generic_spec args.
Proof. exact qualified_generic_exact. Qed.

(* the former counterexamples *)
Theorem C13_generic_base_witness_counted :
  generic_base_deps default_options w_gbase = [Plain (nm "Repository")] /\ generic_base_required w_gbase = [Plain (nm "Repository")].
Proof. exact cbo_generic_base_counted. Qed.

Theorem C13_qualified_generic_witness_counted :
  qualified_generic_deps default_options (Qual (nm "typing") (nm "Dict")) [Plain (nm "str"); Plain (nm "User")] = [Plain (nm "User")] /\
  qualified_generic_spec [Plain (nm "str"); Plain (nm "User")] = [Plain (nm "User")].
Proof. exact cbo_qualified_generic_counted. Qed.

Print Assumptions C13_generic_base_counted.
Print Assumptions C13_qualified_generic_exact.
Print Assumptions C13_generic_base_witness_counted.
Print Assumptions C13_qualified_generic_witness_counted.
