(* C13 — CBO, subscripted forms outside Class/Syntax.v (parametrised base class, module-qualified generic
   container).  Only property theorems, each closed by [exact] of a lemma of Class/CBOGenericProofs.v.

   FULL statement for these forms: the dependency set contains the base class of  class K(Base[T])  and the
   classes named inside  x: mod.Container[T].  It is FALSE of the current code (finding F41): both readers of a
   Subscript node in cbo.go look at node.Right / Children[1], buildSubscript fills Value / Children[0]. *)
From Coq Require Import ZArith NArith List String.
From PV Require Import Class.Syntax Class.SetK Class.CBO Class.CBOGeneric Class.CBOGenericProofs.
Import ListNotations.

Theorem C13_generic_base_refuted :
  generic_base_deps default_options w_gbase = [] /\ generic_base_required w_gbase = [Plain (nm "Repository")].
Proof. exact cbo_generic_base_refuted. Qed.

Theorem C13_qualified_generic_refuted :
  qualified_generic_deps default_options (Qual (nm "typing") (nm "List")) [Plain (nm "User")] = [] /\
  qualified_generic_spec [Plain (nm "User")] = [Plain (nm "User")].
Proof. exact cbo_qualified_generic_refuted. Qed.

(* ... and for every base / container / argument list: a Subscript node never contributes *)
Theorem C13_subscript_never_counted : forall o g c args,
  generic_base_deps o g = [] /\ qualified_generic_deps o c args = [].
Proof. exact subscript_never_counted. Qed.

Print Assumptions C13_generic_base_refuted.
Print Assumptions C13_qualified_generic_refuted.
Print Assumptions C13_subscript_never_counted.
