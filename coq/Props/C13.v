(* C13 — CBO counts each coupled class once.
   Only the property theorems; each is closed by [exact] of a lemma of Class/CBOProofs.v about the
   model Class/CBO.v of internal/analyzer/cbo.go (tied to the code by Gen/ClassConst.v,
   Gen/DomainConst.v and the correspondence check harness/c13.py).

   FULL statement:  forall f c, cbo_deps default_options f c = cbo_spec f c
   (the dependency set is exactly the set of distinct other classes named as base, in annotations,
   or instantiated -- imported or same-file -- in any position, built-ins excluded).
   Proved: C13_exact, for every class of the syntax Class/Syntax.v whose identifiers are not empty
   and whose calls stand in expression positions (both are well-formedness conditions of the
   syntax, not restrictions on the forms): every reference form (X, mod.X -- listed as "mod.X"),
   every annotation shape (generics, unions, generics inside unions and unions inside generics),
   every position, every import form.
   Before the fix: commits it was false for classes referenced through their module (F29, fix
   aa7c715), for a generic written on a side of a union (F31, fix aa7c715 + b2f1993), for
   instantiations under else/except/finally/conditions/operands/... (F15), for `from m import X`
   (F14), for self-references (F10) and for the sub-expressions ast_builder.go dropped (F13); the
   former witnesses are now C13_qualified_counted and C13_generic_in_union_counted.
   Parametrised base classes and module-qualified generic containers: Props/C13Generic.v. *)
From Coq Require Import ZArith NArith List String Permutation.
From PV Require Import Gen.ClassConst Class.Syntax Class.SetK Class.CBO Class.CBOProofs Class.RiskSpec Class.RiskMonoCBO.
Import ListNotations.
Open Scope string_scope.
Open Scope list_scope.

(* every expression position of the quantifier is visited by cbo.go's walk (walkNode field list
   from Gen/ClassConst.v, parser paths from Class/Syntax.v:pos_path) *)
Theorem C13_positions_all_visited : forall p, is_store_target p = false ->
  reached cbo_walk_fields 0 p [] = true.
Proof. exact expr_positions_reached. Qed.

(* ... and so is a mention hidden inside another mention's call, to any nesting depth and through
   any chain of argument slots (positional, keyword, *, **, list literal), in every such position;
   and no visitor of cbo.go ever cuts the walk below a node it has handled *)
Theorem C13_nested_positions_all_visited : forall p slots, is_store_target p = false ->
  reached_at cbo_walk_fields 0 p slots [] = true.
Proof. exact expr_positions_reached_at. Qed.
Theorem C13_walk_never_pruned : cbo_walk_never_pruned = true.
Proof. exact (proj2 (proj2 (proj2 code_flags))). Qed.

(* model = spec: all positions, all import forms, all reference forms, all annotation shapes *)
Theorem C13_exact : forall f c, named_class c -> inst_positions_ok c ->
  cbo_deps default_options f c = cbo_spec f c.
Proof. exact cbo_exact. Qed.

(* the former counterexamples.  List[X] | None, Y | Dict[str, Z]: the type arguments of a generic on
   either side of a union are counted *)
Theorem C13_generic_in_union_counted :
  cbo_deps default_options (File [ImpFrom (nm "X")] [nm "K"]) w_union = [Plain (nm "X"); Plain (nm "Y"); Plain (nm "Z")] /\
  cbo_spec (File [ImpFrom (nm "X")] [nm "K"]) w_union = [Plain (nm "X"); Plain (nm "Y"); Plain (nm "Z")].
Proof. exact cbo_generic_in_union_counted. Qed.

(* class K(pkg.Base), x: pkg.T, pkg.C() after `import pkg`: counted, under the dotted name; pkg.C()
   without the import is not an instantiation of an imported class *)
Theorem C13_qualified_counted :
  cbo_deps default_options w_file w_base = [Qual (nm "pkg") (nm "Base")] /\ cbo_spec w_file w_base = [Qual (nm "pkg") (nm "Base")] /\
  cbo_deps default_options w_file w_annot = [Qual (nm "pkg") (nm "T")] /\ cbo_spec w_file w_annot = [Qual (nm "pkg") (nm "T")] /\
  cbo_deps default_options w_file w_inst = [Qual (nm "pkg") (nm "C")] /\ cbo_spec w_file w_inst = [Qual (nm "pkg") (nm "C")] /\
  cbo_deps default_options (File [] [nm "K"]) w_inst = [] /\ cbo_spec (File [] [nm "K"]) w_inst = [].
Proof. exact cbo_qualified_counted. Qed.

(* the count is the number of listed dependencies, each listed once, never the class itself *)
Theorem C13_count_distinct_not_self : forall o f c,
  r_count (cbo_model o f c) = Z.of_nat (List.length (r_deps (cbo_model o f c))) /\
  NoDup (r_deps (cbo_model o f c)) /\ ~ In (Plain (c_name c)) (r_deps (cbo_model o f c)).
Proof. exact cbo_count_distinct. Qed.

(* laws, unconditional: every option setting, every position, every form *)
Theorem C13_perm_invariant : forall o f n bs bs' ms ms',
  Permutation bs bs' -> Permutation ms ms' ->
  cbo_model o f (Class n bs ms) = cbo_model o f (Class n bs' ms').
Proof. exact cbo_perm_invariant. Qed.

Theorem C13_repeat_member : forall o f n bs ms m, In m ms ->
  cbo_model o f (Class n bs (m :: ms)) = cbo_model o f (Class n bs ms).
Proof. exact cbo_repeat_member. Qed.

Theorem C13_mentions_as_set : forall o f n bs l1 l2 md body',
  (forall x, In x (md_body md) <-> In x body') ->
  cbo_model o f (Class n bs (l1 ++ MMethod md :: l2)) =
  cbo_model o f (Class n bs (l1 ++ MMethod (Method (md_name md) (md_decos md) (md_params md) (md_ret md) body') :: l2)).
Proof. exact cbo_mentions_as_set. Qed.

Theorem C13_idempotent : forall o f n bs l1 l2 md x, In x (md_body md) ->
  cbo_model o f (Class n bs (l1 ++ MMethod md :: l2)) =
  cbo_model o f (Class n bs (l1 ++ MMethod (Method (md_name md) (md_decos md) (md_params md) (md_ret md) (x :: md_body md)) :: l2)).
Proof. exact cbo_idempotent. Qed.

Theorem C13_add_unrelated : forall o imps classes c n,
  ~ In n (instantiated_names c) ->
  cbo_model o (File imps (n :: classes)) c = cbo_model o (File imps classes) c.
Proof. exact cbo_add_unrelated. Qed.

Theorem C13_rename_self_partial : forall o imps others n n' bs ms,
  ~ In n (instantiated_names (Class n bs ms)) -> ~ In n' (instantiated_names (Class n bs ms)) ->
  ~ In (Plain n) (raw_deps o (File imps others) (Class n bs ms)) ->
  ~ In (Plain n') (raw_deps o (File imps others) (Class n bs ms)) ->
  cbo_model o (File imps (n' :: others)) (Class n' bs ms) = cbo_model o (File imps (n :: others)) (Class n bs ms).
Proof. exact cbo_rename_self_partial. Qed.

Theorem C13_additive : forall o f c f' c' r, c_name c = c_name c' ->
  (forall z, In z (raw_deps o f' c') <-> z = r \/ In z (raw_deps o f c)) ->
  not_self c r = true -> ~ In r (cbo_deps o f c) ->
  r_count (cbo_model o f' c') = (r_count (cbo_model o f c) + 1)%Z /\
  r_deps (cbo_model o f' c') = insert r (r_deps (cbo_model o f c)).
Proof. exact cbo_additive. Qed.

Theorem C13_additive_base : forall o f n bs ms r,
  dep_of_name o r = [r] -> not_self (Class n bs ms) r = true -> ~ In r (cbo_deps o f (Class n bs ms)) ->
  r_count (cbo_model o f (Class n (r :: bs) ms)) = (r_count (cbo_model o f (Class n bs ms)) + 1)%Z.
Proof. exact cbo_additive_base. Qed.

Theorem C13_additive_instantiation : forall o f n bs ms r p sl md,
  reached_at cbo_walk_fields 0 p sl [] = true -> call_dep o (collect_imports f) (f_classes f) r = [r] ->
  md_body md = [MentionAt (KInst r) p sl] -> md_params md = [] -> md_ret md = None ->
  not_self (Class n bs ms) r = true -> ~ In r (cbo_deps o f (Class n bs ms)) ->
  r_count (cbo_model o f (Class n bs (MMethod md :: ms))) = (r_count (cbo_model o f (Class n bs ms)) + 1)%Z.
Proof. exact cbo_additive_instantiation. Qed.

(* risk level: low iff n <= low, medium iff low < n <= medium, high otherwise; defaults 3 / 7 *)
Theorem C13_risk_table : forall o n,
  assess_risk o n = spec_risk (o_low o) (o_medium o) n /\
  (spec_risk (o_low o) (o_medium o) n = Low <-> (n <= o_low o)%Z) /\
  (spec_risk (o_low o) (o_medium o) n = Medium <-> (o_low o < n <= o_medium o)%Z) /\
  (spec_risk (o_low o) (o_medium o) n = High <-> (o_low o < n /\ o_medium o < n)%Z).
Proof. exact cbo_risk_table. Qed.
Theorem C13_default_thresholds : o_low default_options = 3%Z /\ o_medium default_options = 7%Z.
Proof. exact default_thresholds. Qed.
(* the risk level is monotone: a smaller CBO never has a higher level (any thresholds), and raising
   the thresholds never raises a level *)
Theorem C13_risk_monotone : forall o n n', (n <= n')%Z ->
  (risk_rank (assess_risk o n) <= risk_rank (assess_risk o n'))%Z.
Proof. exact cbo_risk_mono. Qed.
Theorem C13_risk_threshold_monotone : forall o o' n, (o_low o <= o_low o')%Z -> (o_medium o <= o_medium o')%Z ->
  (risk_rank (assess_risk o' n) <= risk_rank (assess_risk o n))%Z.
Proof. exact cbo_risk_threshold_mono. Qed.

Print Assumptions C13_positions_all_visited.
Print Assumptions C13_nested_positions_all_visited.
Print Assumptions C13_walk_never_pruned.
Print Assumptions C13_exact.
Print Assumptions C13_qualified_counted.
Print Assumptions C13_generic_in_union_counted.
Print Assumptions C13_count_distinct_not_self.
Print Assumptions C13_perm_invariant.
Print Assumptions C13_repeat_member.
Print Assumptions C13_mentions_as_set.
Print Assumptions C13_idempotent.
Print Assumptions C13_add_unrelated.
Print Assumptions C13_rename_self_partial.
Print Assumptions C13_additive.
Print Assumptions C13_additive_base.
Print Assumptions C13_additive_instantiation.
Print Assumptions C13_risk_table.
Print Assumptions C13_default_thresholds.
Print Assumptions C13_risk_monotone.
Print Assumptions C13_risk_threshold_monotone.
