(* C18 (continued) — symbolic links and [analysis] follow_symlinks.  Theorems only; proofs are [exact] of lemmas of
   Cli/FileSelLinksProofs.v about Cli/FileSelLinks.v, which reduces trees with links to the model Cli/FileSel.v.

   Full statement wanted: forall follow w cwd ts r inc exc,
     analyzed_code w cwd ts r inc exc = Some l -> l lists exactly analyzed_spec follow w cwd ts r inc exc
   (links are not part of the tree unless follow_symlinks = true, then they stand for what they point to).  It is FALSE of
   the code in two ways (the _refuted theorems: links to files and to directories; [analysis] follow_symlinks is not read
   by the file reader).  It holds on trees whose only links are dangling ones (C18_links_dangling_partial; before the
   repair of finding C18-G3 one such link made every analysis fail), where it reduces to the C18 theorems of Props/C18.v. *)
From Coq Require Import NArith List Bool.
From PV Require Import Gen.FileSelConst Cli.Glob Cli.FileSel Cli.FileSelLinks Cli.FileSelLinksProofs.
Import ListNotations.
Open Scope N_scope.

Theorem C18_links_spec_without_links_is_C18_spec : forall follow w cwd ts r inc exc, no_links w = true ->
  analyzed_spec follow w cwd ts r inc exc = spec_list (code_world w) cwd ts r inc exc.
Proof. exact analyzed_spec_no_links. Qed.
Print Assumptions C18_links_spec_without_links_is_C18_spec.

Theorem C18_links_code_without_links_is_C18_model : forall w cwd ts r inc exc,
  analyzed_code w cwd ts r inc exc =
  option_map (fun ps => filter (readable_at w) (map (fun p => segs (abs cwd p)) ps))
             (collect_python_files (code_world w) cwd ts r inc exc).
Proof. exact analyzed_code_collects. Qed.
Print Assumptions C18_links_code_without_links_is_C18_model.

(* dangling links: the tree the code walks and the tree the property talks about are the same one (the links are in
   neither), for both values of follow_symlinks: code and specification are those of Props/C18.v on that tree *)
Theorem C18_links_dangling_partial : forall follow w cwd ts r inc exc, only_dangling_links w = true ->
  analyzed_spec follow w cwd ts r inc exc = spec_list (code_world w) cwd ts r inc exc /\
  analyzed_code w cwd ts r inc exc =
  option_map (fun ps => filter (readable_at w) (map (fun p => segs (abs cwd p)) ps))
             (collect_python_files (code_world w) cwd ts r inc exc).
Proof. exact (fun follow w cwd ts r inc exc H => conj (analyzed_spec_only_dangling follow w cwd ts r inc exc H) (analyzed_code_collects w cwd ts r inc exc)). Qed.
Print Assumptions C18_links_dangling_partial.

(* a link to a file is analysed as a file of its own although follow_symlinks is false *)
Theorem C18_links_file_link_refuted :
  analyzed_code w_file_link [n_p] [mkpath false []] true inc_all [] = Some [[n_p; n_a]; [n_p; n_l]] /\
  analyzed_spec false w_file_link [n_p] [mkpath false []] true inc_all [] = [[n_p; n_a]].
Proof. exact file_link_followed_by_default. Qed.
Print Assumptions C18_links_file_link_refuted.

(* a link to a directory is never entered although follow_symlinks is true *)
Theorem C18_links_dir_link_refuted :
  analyzed_code w_dir_link [n_p] [mkpath false []] true inc_all [] = Some [[n_p; n_a]] /\
  analyzed_spec true w_dir_link [n_p] [mkpath false []] true inc_all [] = [[n_p; n_a]; [n_p; n_d; n_l]].
Proof. exact dir_link_never_followed. Qed.
Print Assumptions C18_links_dir_link_refuted.

(* one dangling link with a Python name next to a.py: a.py is analysed, which is what the property asks for (was
   C18_links_dangling_refuted: no file was analysed at all) *)
Theorem C18_links_dangling_skipped :
  forall follow, analyzed_code w_dangling [n_p] [mkpath false []] true inc_all [] =
                 Some (analyzed_spec follow w_dangling [n_p] [mkpath false []] true inc_all []) /\
                 analyzed_spec follow w_dangling [n_p] [mkpath false []] true inc_all [] = [[n_p; n_a]].
Proof. exact dangling_link_skipped. Qed.
Print Assumptions C18_links_dangling_skipped.

(* naming the dangling link as a target is an error *)
Theorem C18_links_dangling_target_fails :
  analyzed_code w_dangling [n_p] [mkpath false [n_l]] true inc_all [] = None.
Proof. exact dangling_link_as_target_fails. Qed.
Print Assumptions C18_links_dangling_target_fails.
