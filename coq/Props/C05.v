(* C05 — Reports are reproducible: same tree and options give the same report.

   FULL per emission site: the emitted list/value is the same for every order in which the Go map yields its
   entries (Permutation), given that the map keys are unique (NoDup).  The comparison keys and the
   "sorted before ranging" flags are generated from the Go source (Gen/DetConst.v); [eq_refl] below is the
   check that the key covers the identity fields / the flag is true, so it stops type-checking when a
   tie-breaker or a key sort is removed from the code.
   C05_pipeline: the response assembled after wg.Wait() is independent of the interleaving of the analyses,
   ASSUMING they share no mutable state (each step touches its own slot only) — that premise is tested by
   race-detector and GOMAXPROCS runs, not proved.
   C05_orig_*_refuted: the same statements are FALSE of the models of the original code (two map orders,
   different output): the record of the defects repaired by the `fix:` commits.
   Not covered by a theorem: Tarjan's SCC partition is order-independent (property C11), float arithmetic
   beyond the order of additions, sort comparators using almostEqual (modelled as exact comparison). *)
From Coq Require Import List Permutation Sorted Bool Arith ZArith.
From PV Require Import Det.SortDet Det.Keys Det.Sites Det.Chains Det.SitesProofs Det.Orig Det.Pipeline Gen.DetConst.
Import ListNotations.

Theorem C05_complexity_by_complexity_det :
  forall l l', NoDup (map (idproj fn_ident) l) -> Permutation l l' -> complexity_functions key_complexity_by_complexity l = complexity_functions key_complexity_by_complexity l'.
Proof. exact (fun l l' => complexity_functions_det key_complexity_by_complexity l l' eq_refl). Qed.
Print Assumptions C05_complexity_by_complexity_det.

Theorem C05_complexity_by_name_det :
  forall l l', NoDup (map (idproj fn_ident) l) -> Permutation l l' -> complexity_functions key_complexity_by_name l = complexity_functions key_complexity_by_name l'.
Proof. exact (fun l l' => complexity_functions_det key_complexity_by_name l l' eq_refl). Qed.
Print Assumptions C05_complexity_by_name_det.

Theorem C05_complexity_by_risk_det :
  forall l l', NoDup (map (idproj fn_ident) l) -> Permutation l l' -> complexity_functions key_complexity_by_risk l = complexity_functions key_complexity_by_risk l'.
Proof. exact (fun l l' => complexity_functions_det key_complexity_by_risk l l' eq_refl). Qed.
Print Assumptions C05_complexity_by_risk_det.

Theorem C05_dead_functions_det :
  forall l l', NoDup (map (idproj [0%nat]) l) -> Permutation l l' -> dead_functions l = dead_functions l'.
Proof. exact (dead_functions_det). Qed.
Print Assumptions C05_dead_functions_det.

Theorem C05_dead_findings_det :
  forall l l', NoDup (map (idproj finding_ident) l) -> Permutation l l' -> dead_findings l = dead_findings l'.
Proof. exact (dead_findings_det). Qed.
Print Assumptions C05_dead_findings_det.

Theorem C05_dead_reason_det :
  forall start l l', NoDup (map (idproj block_ident) l) -> Permutation l l' -> dead_reason start l = dead_reason start l'.
Proof. exact (dead_reason_det). Qed.
Print Assumptions C05_dead_reason_det.

Theorem C05_cbo_by_coupling_det :
  forall l l', NoDup (map (idproj class_ident) l) -> Permutation l l' -> cbo_classes key_cbo_by_coupling l = cbo_classes key_cbo_by_coupling l'.
Proof. exact (fun l l' => cbo_classes_det key_cbo_by_coupling l l' eq_refl). Qed.
Print Assumptions C05_cbo_by_coupling_det.

Theorem C05_cbo_by_name_det :
  forall l l', NoDup (map (idproj class_ident) l) -> Permutation l l' -> cbo_classes key_cbo_by_name l = cbo_classes key_cbo_by_name l'.
Proof. exact (fun l l' => cbo_classes_det key_cbo_by_name l l' eq_refl). Qed.
Print Assumptions C05_cbo_by_name_det.

Theorem C05_cbo_by_risk_det :
  forall l l', NoDup (map (idproj class_ident) l) -> Permutation l l' -> cbo_classes key_cbo_by_risk l = cbo_classes key_cbo_by_risk l'.
Proof. exact (fun l l' => cbo_classes_det key_cbo_by_risk l l' eq_refl). Qed.
Print Assumptions C05_cbo_by_risk_det.

Theorem C05_cbo_by_location_det :
  forall l l', NoDup (map (idproj class_ident) l) -> Permutation l l' -> cbo_classes key_cbo_by_location l = cbo_classes key_cbo_by_location l'.
Proof. exact (fun l l' => cbo_classes_det key_cbo_by_location l l' eq_refl). Qed.
Print Assumptions C05_cbo_by_location_det.

Theorem C05_cbo_default_det :
  forall l l', NoDup (map (idproj class_ident) l) -> Permutation l l' -> cbo_classes key_cbo_default l = cbo_classes key_cbo_default l'.
Proof. exact (fun l l' => cbo_classes_det key_cbo_default l l' eq_refl). Qed.
Print Assumptions C05_cbo_default_det.

Theorem C05_cbo_most_coupled_det :
  forall l l', NoDup (map (idproj class_ident) l) -> Permutation l l' -> cbo_most_coupled l = cbo_most_coupled l'.
Proof. exact (cbo_most_coupled_det). Qed.
Print Assumptions C05_cbo_most_coupled_det.

Theorem C05_cbo_dependents_det :
  forall l l', Permutation l l' -> cbo_dependents l = cbo_dependents l'.
Proof. exact (cbo_dependents_det). Qed.
Print Assumptions C05_cbo_dependents_det.

Theorem C05_cycles_det :
  forall l l', NoDup (map (idproj cycle_ident) l) -> Permutation l l' -> cycles l = cycles l'.
Proof. exact (cycles_det). Qed.
Print Assumptions C05_cycles_det.

Theorem C05_cycle_chain_targets_det :
  forall l l', Permutation l l' -> cycle_chain_targets l = cycle_chain_targets l'.
Proof. exact (cycle_chain_targets_det). Qed.
Print Assumptions C05_cycle_chain_targets_det.

Theorem C05_refactoring_priority_det :
  forall l l', NoDup (map (idproj cand_ident) l) -> Permutation l l' -> refactoring_priority l = refactoring_priority l'.
Proof. exact (refactoring_priority_det). Qed.
Print Assumptions C05_refactoring_priority_det.

Theorem C05_zone_of_pain_det :
  forall l l', NoDup (map (idproj cand_ident) l) -> Permutation l l' -> zone_of_pain l = zone_of_pain l'.
Proof. exact (zone_of_pain_det). Qed.
Print Assumptions C05_zone_of_pain_det.

Theorem C05_system_sum_det :
  forall (F : Type) (fadd : F -> F -> F) (f0 : F) (val : item -> F) l l', NoDup (map (idproj [0%nat]) l) -> Permutation l l' -> system_sum F fadd f0 val l = system_sum F fadd f0 val l'.
Proof. exact (system_sum_det). Qed.
Print Assumptions C05_system_sum_det.

Theorem C05_system_variance_sum_det :
  forall (F : Type) (fadd : F -> F -> F) (f0 : F) (val : item -> F) l l', NoDup (map (idproj [0%nat]) l) -> Permutation l l' -> system_variance_sum F fadd f0 val l = system_variance_sum F fadd f0 val l'.
Proof. exact (system_variance_sum_det). Qed.
Print Assumptions C05_system_variance_sum_det.

Theorem C05_service_sum_det :
  forall (F : Type) (fadd : F -> F -> F) (f0 : F) (val : item -> F) l l', NoDup (map (idproj [0%nat]) l) -> Permutation l l' -> service_sum F fadd f0 val l = service_sum F fadd f0 val l'.
Proof. exact (service_sum_det). Qed.
Print Assumptions C05_service_sum_det.

Theorem C05_clone_pairs_det :
  forall n l l', NoDup (map (idproj pair_ident) l) -> Permutation l l' -> clone_pairs n l = clone_pairs n l'.
Proof. exact (clone_pairs_det). Qed.
Print Assumptions C05_clone_pairs_det.

Theorem C05_clone_groups_connected_det :
  forall l l', NoDup (map (idproj group_ident) l) -> Permutation l l' -> clone_groups ids_after_sort_connected key_groups_connected l = clone_groups ids_after_sort_connected key_groups_connected l'.
Proof. exact (fun l l' => clone_groups_det ids_after_sort_connected key_groups_connected l l' eq_refl eq_refl). Qed.
Print Assumptions C05_clone_groups_connected_det.

Theorem C05_clone_groups_complete_linkage_det :
  forall l l', NoDup (map (idproj group_ident) l) -> Permutation l l' -> clone_groups ids_after_sort_complete_linkage key_groups_connected l = clone_groups ids_after_sort_complete_linkage key_groups_connected l'.
Proof. exact (fun l l' => clone_groups_det ids_after_sort_complete_linkage key_groups_connected l l' eq_refl eq_refl). Qed.
Print Assumptions C05_clone_groups_complete_linkage_det.

Theorem C05_clone_groups_star_det :
  forall l l', NoDup (map (idproj group_ident) l) -> Permutation l l' -> clone_groups ids_after_sort_star key_groups_connected l = clone_groups ids_after_sort_star key_groups_connected l'.
Proof. exact (fun l l' => clone_groups_det ids_after_sort_star key_groups_connected l l' eq_refl eq_refl). Qed.
Print Assumptions C05_clone_groups_star_det.

Theorem C05_clone_groups_centroid_det :
  forall l l', NoDup (map (idproj group_ident) l) -> Permutation l l' -> clone_groups ids_after_sort_centroid key_groups_centroid l = clone_groups ids_after_sort_centroid key_groups_centroid l'.
Proof. exact (fun l l' => clone_groups_det ids_after_sort_centroid key_groups_centroid l l' eq_refl eq_refl). Qed.
Print Assumptions C05_clone_groups_centroid_det.

Theorem C05_majority_type_det :
  forall l l', NoDup (map (idproj count_ident) l) -> Permutation l l' -> majority_type l = majority_type l'.
Proof. exact (majority_type_det). Qed.
Print Assumptions C05_majority_type_det.

Theorem C05_longest_chains_det :
  forall g g', graph_perm g g' -> NoDup (map fst g) -> longest_chains g = longest_chains g'.
Proof. exact (longest_chains_det). Qed.
Print Assumptions C05_longest_chains_det.

Theorem C05_sort_total_order_det :
  forall ks ident l l', covers ks ident = true -> NoDup (map (idproj ident) l) -> Permutation l l' -> sort_by ks l = sort_by ks l'.
Proof. exact (sort_by_det). Qed.
Print Assumptions C05_sort_total_order_det.

Theorem C05_any_sort_algorithm :
  forall ks ident l r, covers ks ident = true -> NoDup (map (idproj ident) l) -> Permutation r l -> StronglySorted (fun a b => leb_keys ks a b = true) r -> r = sort_by ks l.
Proof. exact (any_sort_by). Qed.
Print Assumptions C05_any_sort_algorithm.

Theorem C05_interleave_indep :
  forall (slot : Type) (step : nat -> slot -> slot) sched sched', interleave_eq sched sched' -> forall s, eqst slot (exec slot step sched s) (exec slot step sched' s).
Proof. exact (interleave_indep). Qed.
Print Assumptions C05_interleave_indep.

Theorem C05_pipeline :
  forall (slot : Type) (step : nat -> slot -> slot) tasks sched sched' s0, interleave_eq sched sched' -> build slot tasks (exec slot step sched s0) = build slot tasks (exec slot step sched' s0).
Proof. exact (pipeline_det). Qed.
Print Assumptions C05_pipeline.

Theorem C05_pipeline_completion_order :
  forall (slot : Type) (step : nat -> slot -> slot) tasks order order' s0, NoDup order -> Permutation order order' -> build slot tasks (exec slot step order s0) = build slot tasks (exec slot step order' s0).
Proof. exact (pipeline_completion_det). Qed.
Print Assumptions C05_pipeline_completion_order.

Theorem C05_orig_complexity_order_refuted :
  exists l l', Permutation l l' /\ NoDup (map (idproj fn_ident) l) /\ complexity_functions_orig l <> complexity_functions_orig l'.
Proof. exact (complexity_order_refuted). Qed.
Print Assumptions C05_orig_complexity_order_refuted.

Theorem C05_orig_dead_reason_refuted :
  exists start l l', Permutation l l' /\ NoDup (map (idproj block_ident) l) /\ dead_reason_orig start l <> dead_reason_orig start l'.
Proof. exact (dead_reason_refuted). Qed.
Print Assumptions C05_orig_dead_reason_refuted.

Theorem C05_orig_unsorted_range_refuted :
  exists l l', Permutation l l' /\ NoDup l /\ range_keys false l <> range_keys false l'.
Proof. exact (unsorted_range_refuted). Qed.
Print Assumptions C05_orig_unsorted_range_refuted.

Theorem C05_orig_cbo_top_refuted :
  exists l l', Permutation l l' /\ NoDup (map (idproj class_ident) l) /\ cbo_most_coupled_orig 1 l <> cbo_most_coupled_orig 1 l'.
Proof. exact (cbo_top_refuted). Qed.
Print Assumptions C05_orig_cbo_top_refuted.

Theorem C05_orig_cycles_order_refuted :
  exists l l', Permutation l l' /\ NoDup (map (idproj cycle_ident) l) /\ cycles_orig l <> cycles_orig l'.
Proof. exact (cycles_order_refuted). Qed.
Print Assumptions C05_orig_cycles_order_refuted.

Theorem C05_orig_refactoring_priority_refuted :
  exists l l', Permutation l l' /\ NoDup (map (idproj cand_ident) l) /\ refactoring_priority_orig 1 l <> refactoring_priority_orig 1 l'.
Proof. exact (refactoring_priority_refuted). Qed.
Print Assumptions C05_orig_refactoring_priority_refuted.

Theorem C05_orig_float_sum_refuted :
  exists l l', Permutation l l' /\ NoDup (map (idproj [0%nat]) l) /\ float_sum_orig l <> float_sum_orig l'.
Proof. exact (float_sum_refuted). Qed.
Print Assumptions C05_orig_float_sum_refuted.

Theorem C05_orig_group_ids_refuted :
  exists key l l', Permutation l l' /\ NoDup (map (idproj group_ident) l) /\ covers key group_ident = true /\ clone_groups false key l <> clone_groups false key l'.
Proof. exact (group_ids_refuted). Qed.
Print Assumptions C05_orig_group_ids_refuted.

Theorem C05_orig_majority_type_refuted :
  exists l l', Permutation l l' /\ NoDup (map (idproj count_ident) l) /\ majority_type_orig l <> majority_type_orig l'.
Proof. exact (majority_type_refuted). Qed.
Print Assumptions C05_orig_majority_type_refuted.

Theorem C05_orig_longest_chains_refuted :
  exists limit g g', Forall2 (fun a b => fst a = fst b /\ Permutation (snd a) (snd b)) g g' /\ NoDup (map fst g) /\ longest_chains_orig limit g <> longest_chains_orig limit g' /\ map (@length Z) (longest_chains_orig limit g) <> map (@length Z) (longest_chains_orig limit g').
Proof. exact (longest_chains_refuted). Qed.
Print Assumptions C05_orig_longest_chains_refuted.

Theorem C05_fragment_less_total :
  fragment_less_ascending = true /\ covers key_fragment_less [0; 1; 2; 3; 4]%nat = true.
Proof. exact (fragment_less_total). Qed.
Print Assumptions C05_fragment_less_total.

(* the hypotheses are satisfiable: two functions of equal complexity in one file *)
Example C05_hypotheses_satisfiable :
  let l := [[[2]; [1]; [1]; [10]; [1]]; [[2]; [1]; [5]; [11]; [1]]]%Z in
  NoDup (map (idproj fn_ident) l) /\ Permutation l (rev l) /\
  complexity_functions key_complexity_by_complexity l = complexity_functions key_complexity_by_complexity (rev l).
Proof.
  split; [repeat constructor; simpl; intuition discriminate|]. split; [apply Permutation_rev|]. vm_compute. reflexivity.
Qed.
