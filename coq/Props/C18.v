(* C18 — File selection depends on the files, not on how the path is spelled.
   Only the property theorems; each is closed by [exact] of a lemma proved in Cli/*.v about
   the model Cli/FileSel.v + Cli/Glob.v (tied to service/file_reader.go and
   app/analyze_usecase.go:getFilePatterns by Gen/FileSelConst.v and harness/c18.py).

   The theorems are about the code *after* the three fix: commits of this property
   (F7 patterns matched on the spelled path, F7b walk root skipped by its own name,
   F18 overlapping targets counted twice); before them each of the three statements
   below was false (see known_findings.d/C18.json for the witnesses on the binary).

   Patterns are read in the full doublestar syntax the code accepts (Cli/GlobX.v [xglob]:
   * ? ** [abc] [a-c] [!a] [^a] {a,b} nested, \c); malformed patterns match nothing.

   Quantification: every directory tree [w] (well-formed: ordinary names, no two entries
   of a directory with the same name), every working directory, every list of targets in
   every spelling, every include/exclude pattern list, recursive or not. *)
From Coq Require Import NArith List Bool.
From PV Require Import Gen.FileSelConst Cli.Glob Cli.GlobX Cli.GlobXProofs Cli.FileSel Cli.PathProofs Cli.FileSelProofs Cli.FileSelXProofs Cli.FileSelExamples Cli.FileSelPinned.
Import ListNotations.

(* The set of files analysed is exactly the Python files under the given targets that match
   an include pattern and no exclude pattern ([sel_spec]: by path inside the target, a pattern
   without slash by file name at any depth; hidden and vendor-like directories below a target
   are not entered). Files are identified by their absolute location. *)
Theorem C18_sel_model_eq_spec : forall w cwd ts rec inc exc out,
  wf_world w -> Forall (file_target_ok w cwd) ts ->
  collect_python_files w cwd ts rec inc exc = Some out ->
  forall f, In f (map (fun p => segs (abs cwd p)) out) <-> sel_spec w cwd ts rec inc exc f.
Proof. exact sel_model_eq_spec. Qed.

(* ... and the run fails as a whole exactly when some target does not exist *)
Theorem C18_fails_iff_missing : forall w cwd ts rec inc exc,
  wf_world w -> Forall (file_target_ok w cwd) ts ->
  (collect_python_files w cwd ts rec inc exc = None <->
   exists t, In t ts /\ lookup w (segs (abs cwd t)) = None).
Proof. exact fails_iff_missing. Qed.

(* each file once — also with overlapping or repeated targets; no hypothesis at all *)
Theorem C18_each_once : forall w cwd ts rec inc exc out,
  collect_python_files w cwd ts rec inc exc = Some out ->
  NoDup (map (fun p => segs (abs cwd p)) out).
Proof. exact each_once. Qed.

(* the same places named in any spelling ('.', relative, absolute, trailing slash, through
   '..'), from any working directory: the same files, in the same order *)
Theorem C18_spelling_invariant : forall w cwd cwd' ts ts' rec inc exc,
  wf_world w ->
  Forall2 (fun t t' => abs cwd t = abs cwd' t') ts ts' ->
  Forall (file_target_ok w cwd) ts -> Forall (file_target_ok w cwd') ts' ->
  option_map (map (abs cwd)) (collect_python_files w cwd ts rec inc exc) =
  option_map (map (abs cwd')) (collect_python_files w cwd' ts' rec inc exc).
Proof. exact spelling_invariant. Qed.

(* the executable form of the specification that the harness evaluates is the specification *)
Theorem C18_spec_list_correct : forall w cwd ts rec inc exc f,
  In f (spec_list w cwd ts rec inc exc) <-> sel_spec w cwd ts rec inc exc f.
Proof. exact spec_list_correct. Qed.

(* a default exclude such as test_*.py applies to matching files at any depth *)
Theorem C18_exclude_by_name_any_depth : forall inc exc p d b,
  In p exc -> has_slash p = false -> xglob p [b] = true -> ~ selected inc exc (d ++ [b]).
Proof. exact exclude_by_name_any_depth. Qed.
Theorem C18_default_exclude_any_depth : forall inc p d b,
  In p filesel_default_exclude -> xglob p [b] = true -> ~ selected inc filesel_default_exclude (d ++ [b]).
Proof. exact default_exclude_any_depth. Qed.

(* ---- the full pattern language (Cli/GlobX.v) ---------------------------------------------------- *)
(* a pattern without '/' — whatever it is made of: classes, negated classes, alternatives, escapes,
   malformed — gives a file d/b the verdict it gives the bare name b: the depth of the file below
   the target does not matter *)
Theorem C18_slashless_pattern_depth_independent : forall p d b, has_slash p = false ->
  matches_pattern p (d ++ [b]) = matches_pattern p [b].
Proof. exact matches_pattern_slashless_depth. Qed.

(* ... hence with include/exclude lists of such patterns a file gets the same verdict seen from the
   project root (d/b) and from its own directory (b) *)
Theorem C18_slashless_lists_same_verdict_at_every_depth : forall inc exc d b,
  forallb (fun p => negb (has_slash p)) (inc ++ exc) = true ->
  should_include_file (d ++ [b]) inc exc = should_include_file [b] inc exc.
Proof. exact should_include_slashless_depth. Qed.

(* the matcher for the full syntax is Cli/Glob.v's matcher on patterns without [ ] { } \ *)
Theorem C18_xglob_conservative : forall p path, forallb meta_free p = true -> xglob p path = glob p path.
Proof. exact xglob_conservative. Qed.

(* {test,spec}_*.py, [!a-z]*.py, [^a-z]*.py select by file name at depth 0, 1 and 2 *)
Theorem C18_example_brace_any_depth :
  matches_pattern p_brace [n_spec_core] = true /\
  matches_pattern p_brace [n_pkg; n_spec_core] = true /\
  matches_pattern p_brace [n_pkg; n_deep; n_spec_core] = true /\
  matches_pattern p_brace [n_pkg; n_core] = false.
Proof. exact ex_brace_any_depth. Qed.
Theorem C18_example_negated_class_any_depth :
  matches_pattern p_negcls [n_Core] = true /\ matches_pattern p_negcls [n_pkg; n_deep; n_Core] = true /\
  matches_pattern p_negcls [n_pkg; n_core] = false /\
  matches_pattern p_negcls2 [n_pkg; n_Core] = true /\ matches_pattern p_negcls2 [n_pkg; n_core] = false.
Proof. exact ex_negated_class_any_depth. Qed.
Theorem C18_example_brace_in_path :
  matches_pattern p_brace_path [n_tests; n_core] = true /\
  matches_pattern p_brace_path [n_pkg; n_tests; n_deep; n_core] = true /\
  matches_pattern p_brace_path [n_pkg; n_core] = false.
Proof. exact ex_brace_in_path. Qed.

(* the model of filepath.Abs/Join agrees with "location of the directory, then the name" *)
Theorem C18_abs_join : forall cwd p n, plain n = true ->
  segs (abs cwd (join p n)) = segs (abs cwd p) ++ [n].
Proof. exact abs_join. Qed.

(* the side condition on file arguments holds for every spelling that ends in the file's name *)
Theorem C18_file_target_ok_plain : forall w cwd t d n,
  segs t = d ++ [n] -> plain n = true -> file_target_ok w cwd t.
Proof. exact file_target_ok_plain. Qed.

(* the hypotheses are satisfiable and the model does what the property says on a small project *)
Theorem C18_example_world_wf : wf_world ex_world.
Proof. exact ex_world_wf. Qed.
Theorem C18_example_overlapping_targets :
  analyze_default ex_world [s_w] [rel_path [dot]; rel_path [s_sub; []]] =
  Some [rel_path [s_a_py]; rel_path [s_sub; s_b_py]; rel_path [s_sub; s_deep; s_c_py]].
Proof. exact ex_overlapping_targets. Qed.
Theorem C18_example_targets_ok : Forall (file_target_ok ex_world [s_w]) [rel_path [dot]; rel_path [s_sub; []]].
Proof. exact ex_targets_ok. Qed.
Theorem C18_example_target_named_build :
  analyze_default ex_world [s_w] [rel_path [s_build]] = Some [rel_path [s_build; s_x_py]] /\
  analyze_default ex_world [s_w; s_build] [rel_path [dot]] = Some [rel_path [s_x_py]].
Proof. exact ex_target_named_build. Qed.

(* ---- historical: the pinned tree (Cli/FileSelPinned.v) violated each statement ------------- *)
(* F7: the same directory as "." and as "/w" selected different files *)
Theorem C18_pinned_spelling_refuted :
  abs [s_w] (rel_path [dot]) = abs [s_w] (mkpath true [s_w]) /\
  locs [s_w] (analyze_pinned ex_world [s_w] [rel_path [dot]]) <>
  locs [s_w] (analyze_pinned ex_world [s_w] [mkpath true [s_w]]).
Proof. exact pinned_spelling_refuted. Qed.
(* F7: a nested test_*.py file was analysed, against the specification *)
Theorem C18_pinned_spec_refuted :
  exists out f, locs [s_w] (analyze_pinned ex_world [s_w] [rel_path [dot]]) = Some out /\
    In f out /\ ~ sel_spec ex_world [s_w] [rel_path [dot]] filesel_default_recursive
                           filesel_default_include filesel_default_exclude f.
Proof. exact pinned_spec_refuted. Qed.
(* F7b: a target called "build" gave no file, the same directory as "." gave its files *)
Theorem C18_pinned_root_name_refuted :
  abs [s_w] (rel_path [s_build]) = abs [s_w; s_build] (rel_path [dot]) /\
  locs [s_w] (analyze_pinned ex_world [s_w] [rel_path [s_build]]) = Some [] /\
  locs [s_w; s_build] (analyze_pinned ex_world [s_w; s_build] [rel_path [dot]]) = Some [[s_w; s_build; s_x_py]].
Proof. exact pinned_root_name_refuted. Qed.
(* F18: `analyze . sub` listed files twice *)
Theorem C18_pinned_each_once_refuted :
  exists out, locs [s_w] (analyze_pinned ex_world [s_w] [rel_path [dot]; rel_path [s_sub]]) = Some out /\ ~ NoDup out.
Proof. exact pinned_each_once_refuted. Qed.

Print Assumptions C18_sel_model_eq_spec.
Print Assumptions C18_fails_iff_missing.
Print Assumptions C18_each_once.
Print Assumptions C18_spelling_invariant.
Print Assumptions C18_spec_list_correct.
Print Assumptions C18_exclude_by_name_any_depth.
Print Assumptions C18_default_exclude_any_depth.
Print Assumptions C18_slashless_pattern_depth_independent.
Print Assumptions C18_slashless_lists_same_verdict_at_every_depth.
Print Assumptions C18_xglob_conservative.
Print Assumptions C18_example_brace_any_depth.
Print Assumptions C18_example_negated_class_any_depth.
Print Assumptions C18_example_brace_in_path.
Print Assumptions C18_abs_join.
Print Assumptions C18_file_target_ok_plain.
Print Assumptions C18_example_world_wf.
Print Assumptions C18_example_overlapping_targets.
Print Assumptions C18_example_targets_ok.
Print Assumptions C18_example_target_named_build.
Print Assumptions C18_pinned_spelling_refuted.
Print Assumptions C18_pinned_spec_refuted.
Print Assumptions C18_pinned_root_name_refuted.
Print Assumptions C18_pinned_each_once_refuted.
