(* C10 — Clone groups satisfy the contract of the selected grouping mode.
   Only the property theorems; each is closed by [exact] of a lemma proved in Clone/*.v about the
   models Clone/Group{Connected,Complete,KCore,Star}.v (tied to internal/analyzer/*_grouping.go by
   Gen/GroupConst.v and by the correspondence check harness/c10.py).
   Spec (Clone/GroupSpec.v): pair graph = list of (fragment, fragment, similarity); G_t joins two
   distinct fragments when some pair between them has similarity >= t; [contract m k t G gs] is the
   property text for mode m: every group has >= 2 distinct members, no fragment is in two groups,
   every group is connected inside itself through G_t, and
     connected: the groups are exactly the components of G_t with >= 2 members,
     complete : every two members are adjacent in G_t,
     k-core   : every member has >= k G_t-neighbours inside its group,
     star     : some member is adjacent to every other member. *)
From Coq Require Import NArith ZArith QArith List Bool Permutation.
From PV Require Import Gen.GroupConst Clone.GroupSpec Clone.GroupSpecProofs Clone.GroupSpecKCore Clone.GroupCommon
  Clone.GroupConnected Clone.GroupComplete Clone.GroupKCore Clone.GroupStar Clone.GroupLattice Clone.GroupRun
  Clone.GroupConnectedProofs Clone.GroupCompleteProofs Clone.GroupKCoreProofs Clone.GroupStarProofs
  Clone.GroupAll Clone.GroupBounded.
Import ListNotations.

(* Every mode, every pair list (any length, duplicates, any order/orientation), every threshold > 0,
   every k, every map iteration order: the groups of the code model satisfy the mode's contract.
   (t > 0: at t <= 0 an unreported pair counts as similarity 0 >= t in complete/star mode; the
   service layer never passes t <= 0. No self pairs: the detector only compares i < j.) *)
Theorem C10_all_modes : forall m k t G ord gs,
  (0 < t)%Q ->
  (forall a b s, In (a, b, s) G -> a <> b) ->
  Permutation ord (collect_fragments G) ->
  run_model m k t G ord = Some gs ->
  contract m (contract_k k) t G gs.
Proof. exact run_model_contract. Qed.

(* connected mode, no side conditions: exactly the components of G_t with >= 2 members *)
Theorem C10_connected : forall t G, contract_connected t G (group_connected t G).
Proof. exact group_connected_contract. Qed.

(* complete linkage: cliques; and the merge loop never runs out of fuel *)
Theorem C10_complete : forall t G gs, (0 < t)%Q ->
  group_complete t G = Some gs -> contract_complete t G gs.
Proof. exact group_complete_contract. Qed.
Theorem C10_complete_total : forall t G, group_complete t G <> None.
Proof. exact group_complete_total. Qed.

(* k-core: minimum degree k inside the group, for every map iteration order *)
Theorem C10_kcore : forall t kk G ord gs,
  Permutation ord (collect_fragments G) ->
  (forall a b s, In (a, b, s) G -> a <> b) ->
  group_kcore_ord t kk G ord = Some gs ->
  contract_kcore (Z.to_N (effective_k kk)) t G gs.
Proof. exact group_kcore_contract. Qed.

(* star: a medoid at or above the threshold with every other member *)
Theorem C10_star : forall t G, (0 < t)%Q -> contract_star t G (group_star t G).
Proof. exact group_star_contract. Qed.

(* The computable checker the harness runs on the groups returned by the implementation decides
   exactly the contract (every graph, threshold, k and list of groups). *)
Theorem C10_checker_decides_contract : forall m k t G gs,
  check_contract m k t G gs = true <-> contract m k t G gs.
Proof. exact check_contract_spec. Qed.

(* the closure inside the checker decides connectivity within a vertex set *)
Theorem C10_reach_decides_connectivity : forall (R : N -> N -> bool) V a b,
  reachb R V a b = true <-> In a V /\ conn (Rin R V) a b.
Proof. exact reachb_spec. Qed.

(* BOUNDED (vm_compute): on every graph on 4 fragments with weights in {absent, t-1/64, t}, t = 3/4,
   both pair orders, k in {2,3} and EVERY map iteration order, the k-core model terminates and its
   groups are exactly the components (>= 2 members) of the k-core (GroupSpecKCore.spec_kcore_groups).
   Full statement not proved: "forall G ord, group_kcore_ord t k G ord = Some (components of the k-core)"
   (C10_kcore gives the contract for all inputs; exactness and fuel sufficiency are bounded). *)
Theorem C10_kcore_exact_bounded :
  forallb (fun G => kcore_ok 2 G && kcore_ok 3 G) graphs4_3 = true.
Proof. exact kcore_bounded_all. Qed.

(* BOUNDED cross-check of the two formulations of "components": on the same domain the connected
   model equals the executable component function (C10_connected is the unbounded statement). *)
Theorem C10_connected_spec_bounded : forallb connected_ok graphs4_3 = true.
Proof. exact connected_bounded. Qed.

Print Assumptions C10_all_modes.
Print Assumptions C10_connected.
Print Assumptions C10_complete.
Print Assumptions C10_complete_total.
Print Assumptions C10_kcore.
Print Assumptions C10_star.
Print Assumptions C10_checker_decides_contract.
Print Assumptions C10_reach_decides_connectivity.
Print Assumptions C10_kcore_exact_bounded.
Print Assumptions C10_connected_spec_bounded.
