(* C10 — Clone groups satisfy the contract of the selected grouping mode.
   Only the property theorems; each is closed by [exact] of a lemma proved in Clone/*.v about the
   models Clone/Group{Connected,Complete,KCore,Star}.v (tied to internal/analyzer/*_grouping.go by
   Gen/GroupConst.v and by the correspondence check harness/c10.py).
   Spec (Clone/GroupSpec.v): pair graph = list of (fragment, fragment, similarity); G_t joins two
   distinct fragments when some pair between them has similarity >= t; [contract m k t G gs] is the
   property text for mode m: every group has >= 2 distinct members, no fragment is in two groups,
   every group is connected inside itself through G_t, and
     connected: the groups are exactly the components of G_t with >= 2 members,
     complete : every two members are adjacent in G_t,
     k-core   : every member has >= k G_t-neighbours inside its group,
     star     : some member is adjacent to every other member.
   Exactness (UNBOUNDED, Clone/GroupExact.v): C10_kcore_exact — for every pair list without self
   pairs, every t, k and map iteration order the k-core model never runs out of fuel and returns
   exactly the components (>= 2 members) of THE maximal k-core of G_t; C10_connected_spec — the
   connected model equals the executable component function on every input. The earlier
   vm_compute theorems over 4 fragments (…_bounded) are kept; they are now instances. *)
From Coq Require Import NArith ZArith QArith List Bool Permutation.
From PV Require Import Gen.GroupConst Clone.GroupSpec Clone.GroupSpecProofs Clone.GroupSpecKCore Clone.GroupCommon
  Clone.GroupConnected Clone.GroupComplete Clone.GroupKCore Clone.GroupStar Clone.GroupLattice Clone.GroupRun
  Clone.GroupConnectedProofs Clone.GroupCompleteProofs Clone.GroupKCoreProofs Clone.GroupStarProofs
  Clone.GroupAll Clone.GroupBounded Clone.GroupSpecKCoreProofs Clone.GroupKCoreExact Clone.GroupExact
  Clone.GroupNorm Clone.GroupNormProofs.
Import ListNotations.

(* Every mode, every pair list (any length, duplicates, any order/orientation), every threshold > 0,
   every k, every map iteration order: the groups of the code model satisfy the mode's contract.
   (t > 0: at t <= 0 an unreported pair counts as similarity 0 >= t in complete/star mode; the
   service layer never passes t <= 0. No self pairs: the detector only compares i < j.) *)
Theorem C10_all_modes : forall m k t G ord gs,
  (0 < t)%Q ->
  (forall a b s, In (a, b, s) G -> a <> b) ->
  Permutation ord (collect_fragments G) ->
  run_model m k t G ord = Some gs ->
  contract m (contract_k k) t G gs.
Proof. exact run_model_contract. Qed.

(* connected mode, no side conditions: exactly the components of G_t with >= 2 members *)
Theorem C10_connected : forall t G, contract_connected t G (group_connected t G).
Proof. exact group_connected_contract. Qed.

(* complete linkage: cliques; and the merge loop never runs out of fuel *)
Theorem C10_complete : forall t G gs, (0 < t)%Q ->
  group_complete t G = Some gs -> contract_complete t G gs.
Proof. exact group_complete_contract. Qed.
Theorem C10_complete_total : forall t G, group_complete t G <> None.
Proof. exact group_complete_total. Qed.

(* k-core: minimum degree k inside the group, for every map iteration order *)
Theorem C10_kcore : forall t kk G ord gs,
  Permutation ord (collect_fragments G) ->
  (forall a b s, In (a, b, s) G -> a <> b) ->
  group_kcore_ord t kk G ord = Some gs ->
  contract_kcore (Z.to_N (effective_k kk)) t G gs.
Proof. exact group_kcore_contract. Qed.

(* star: a medoid at or above the threshold with every other member *)
Theorem C10_star : forall t G, (0 < t)%Q -> contract_star t G (group_star t G).
Proof. exact group_star_contract. Qed.

(* The computable checker the harness runs on the groups returned by the implementation decides
   exactly the contract (every graph, threshold, k and list of groups). *)
Theorem C10_checker_decides_contract : forall m k t G gs,
  check_contract m k t G gs = true <-> contract m k t G gs.
Proof. exact check_contract_spec. Qed.

(* the closure inside the checker decides connectivity within a vertex set *)
Theorem C10_reach_decides_connectivity : forall (R : N -> N -> bool) V a b,
  reachb R V a b = true <-> In a V /\ conn (Rin R V) a b.
Proof. exact reachb_spec. Qed.

(* ---------------------------------------------------------------- exactness, all inputs *)
(* Input condition of the k-core exactness theorem: no pair joins a fragment with itself (decidable;
   the detector only compares fragment i with fragments j > i, so real inputs satisfy it). *)
Example C10_no_self_pairs_sat :
  no_self_pairs [(0, 1, (3 # 4)%Q); (2, 1, (1 # 2)%Q); (0, 2, 1%Q)]%N = true.
Proof. exact no_self_pairs_sat. Qed.

(* k-core, UNBOUNDED: every pair list without self pairs (any length, duplicates, any order and
   orientation), every threshold, every k, every map iteration order (any permutation of the
   fragments): the pruning loop and the component search never run out of fuel, and the groups are,
   up to the order of the groups (members are sorted on both sides), exactly
   [spec_kcore_groups]: the connected components with >= 2 members of the maximal k-core of G_t. *)
Theorem C10_kcore_exact : forall t kk G ord,
  Permutation ord (collect_fragments G) ->
  no_self_pairs G = true ->
  exists gs, group_kcore_ord t kk G ord = Some gs /\
    Permutation gs (map sort_frags (spec_kcore_groups (contract_k kk) t G)).
Proof. exact group_kcore_exact. Qed.

(* what [spec_kcore_groups] is, in terms of the specification predicates only: P (computed by
   [prune]) is THE k-core of G_t — duplicate-free, vertices of G, every member has >= k
   G_t-neighbours in P, and P contains every vertex set with that property (greatest fixpoint, so
   independent of any removal order); each listed group is one whole connected component with >= 2
   members of G_t restricted to P; every vertex of P that has a neighbour in P is listed; no
   fragment is listed twice. *)
Theorem C10_kcore_spec_sound : forall k t G,
  let P := prune k t G (length (vertices G)) (vertices G) in
  max_kcore k t G P /\
  (forall c, In c (spec_kcore_groups k t G) ->
     NoDup c /\ (2 <= length c)%nat /\
     exists v, In v P /\ forall b, In b c <-> conn (adj_in t G P) v b) /\
  (forall v b, b <> v -> conn (adj_in t G P) v b -> exists c, In c (spec_kcore_groups k t G) /\ In v c) /\
  NoDup (concat (spec_kcore_groups k t G)).
Proof. exact spec_kcore_groups_sound. Qed.

(* fuel sufficiency alone *)
Theorem C10_kcore_total : forall t kk G ord,
  Permutation ord (collect_fragments G) -> no_self_pairs G = true ->
  group_kcore_ord t kk G ord <> None.
Proof. exact group_kcore_total. Qed.

(* the check that the bounded theorem below evaluates on 4 fragments holds for EVERY graph and k
   (all permutations [perms] of the fragments as map order; contract and equality with the spec) *)
Theorem C10_kcore_ok_all : forall k G, no_self_pairs G = true -> kcore_ok k G = true.
Proof. exact kcore_ok_all. Qed.

(* the input condition cannot be dropped: the code counts a self pair >= t as a neighbour
   (adj[a][a]), the specification does not; smallest instance: two fragments, k = 2 *)
Theorem C10_kcore_selfpair_refuted :
  let G := [(0, 0, 1%Q); (0, 1, 1%Q); (1, 1, 1%Q)]%N in
  no_self_pairs G = false /\
  group_kcore_ord T 2 G (collect_fragments G) = Some [[0; 1]]%N /\
  spec_kcore_groups (contract_k 2) T G = [].
Proof. exact group_kcore_selfpair_refuted. Qed.

(* connected, UNBOUNDED, no side conditions: the model equals the executable component function
   used by the bounded cross-check (up to the order of the groups; members sorted on both sides) *)
Theorem C10_connected_spec : forall t G,
  Permutation (group_connected t G) (map sort_frags (spec_connected_groups t G)).
Proof. exact group_connected_exact. Qed.

Theorem C10_connected_ok_all : forall G, connected_ok G = true.
Proof. exact connected_ok_all. Qed.

(* BOUNDED (vm_compute), kept as a regression check; superseded by C10_kcore_exact /
   C10_kcore_ok_all: on every graph on 4 fragments with weights in {absent, t-1/64, t}, t = 3/4,
   both pair orders, k in {2,3} and EVERY map iteration order, the k-core model terminates and its
   groups are exactly the components (>= 2 members) of the k-core (GroupSpecKCore.spec_kcore_groups). *)
Theorem C10_kcore_exact_bounded :
  forallb (fun G => kcore_ok 2 G && kcore_ok 3 G) graphs4_3 = true.
Proof. exact kcore_bounded_all. Qed.

(* BOUNDED cross-check of the two formulations of "components" (superseded by C10_connected_spec /
   C10_connected_ok_all): on the same domain the connected model equals the executable component
   function. *)
Theorem C10_connected_spec_bounded : forallb connected_ok graphs4_3 = true.
Proof. exact connected_bounded. Qed.

(* ---------------------------------------------------------------- float similarities *)
(* Pair lists of real detector runs and CLI reports carry arbitrary float64 similarities. The checker
   looks at them only through [t <= s]; deciding that once per pair (keep the pairs >= t, give them
   similarity 1, threshold 1) does not change its verdict - every mode, graph, threshold, k, groups. *)
Theorem C10_checker_normalised : forall m k t G gs,
  check_contract m k 1%Q (norm_graph t G) gs = check_contract m k t G gs.
Proof. exact check_contract_norm. Qed.

(* the harness entry point for such cases returns exactly what GroupRun.verdict returns *)
Theorem C10_verdict_normalised : forall idx mn k t G ord impl,
  verdict_norm idx mn k t G ord impl = verdict idx mn k t G ord impl.
Proof. exact verdict_norm_eq. Qed.

Print Assumptions C10_all_modes.
Print Assumptions C10_connected.
Print Assumptions C10_complete.
Print Assumptions C10_complete_total.
Print Assumptions C10_kcore.
Print Assumptions C10_star.
Print Assumptions C10_checker_decides_contract.
Print Assumptions C10_reach_decides_connectivity.
Print Assumptions C10_kcore_exact_bounded.
Print Assumptions C10_connected_spec_bounded.
Print Assumptions C10_kcore_exact.
Print Assumptions C10_kcore_spec_sound.
Print Assumptions C10_kcore_total.
Print Assumptions C10_kcore_ok_all.
Print Assumptions C10_kcore_selfpair_refuted.
Print Assumptions C10_connected_spec.
Print Assumptions C10_connected_ok_all.
Print Assumptions C10_checker_normalised.
Print Assumptions C10_verdict_normalised.
