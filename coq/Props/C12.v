(* C12 — the import graph and the module metrics reflect Python's import semantics.
   Only the property theorems; each is closed by [exact] of a lemma of Deps/*.v about the model
   Deps/Imports.v, Deps/Metrics.v (tied to internal/analyzer/module_analyzer.go, reexport_resolver.go,
   dependency_graph.go, coupling_metrics.go and service/system_analysis_service.go by Gen/ImportsConst.v
   and the correspondence check harness/c12.py) and the specification Deps/PyImport.v (tied to CPython by
   the same check).

   FULL STATEMENT (false of the code, see the _refuted theorems):
     C12_edges : forall pr, project_shape pr = true -> same_edges (edges_model pr) (edges_py pr) = true.
   Proved instead:
   - four refuting witnesses, one per recorded deviation (F31-F34);
   - repaired since: F63 (TYPE_CHECKING conditions), F65 (m.py next to a package m/: C12_edges_wf_shadowed drops the
     "one file per module name" exclusion), F62 (namespace packages and include_third_party:
     C12_include_third_party_irrelevant holds for every project; project_shape, the shape part of wf_project, no longer
     demands an __init__.py in every directory: C12_wf_admits_namespace_packages, C12_check_edges_wf);
   - UNBOUNDED (Deps/ImportsAgree.v, no enumeration):
       C12_edges_wf      : forall pr, wf_project pr = true -> same_edges (edges_model pr) (edges_py pr) = true
       C12_edges_wf_own  : forall pr, wf_mod_own_strong pr = true ->
                             same_edges (edges_model pr) (drop_own pr (edges_py pr)) = true
     i.e. outside the four deviation classes the analyser's graph IS the specification's graph, for every project,
     and when only the __init__ -> own submodule class (F32) is present it is the specification's graph minus exactly
     those edges.  The per-form lemmas they are built from are unconditional or carry only the hypothesis they use:
       C12_relative_import_agrees (every module, level, name), C12_absolute_import_agrees (under abs_ok),
       C12_reexport_agrees (ResolveReExport against the last binding of the name in the __init__),
       C12_statement_agrees, C12_edges_model_spec (the model graph as a set comprehension);
   - wf_mod_own alone is NOT enough for the F32 variant on all projects (C12_wf_mod_own_insufficient: an __init__
     with "from .impl import fa" followed by "from . import fa" where a.fa is also a submodule; the bounded domain
     does not contain it).  wf_mod_own_strong adds the absence of that class; note that in this situation CPython
     itself agrees with the analyser (a.fa stays the function of a.impl, the submodule is never imported), i.e. the
     deviation is one of the SPECIFICATION Deps/PyImport.v (binding_source lets "from . import n" rebind n);
   - the agreement on a bounded domain of 19 068 projects (C12_edges_bounded), kept as a regression;
   - independence of a file's resolution from the other files for all inputs (C12_per_file_independent).
   The metric theorems are unconditional. *)
From Coq Require Import NArith ZArith QArith Qabs List Bool Arith.
From PV Require Import Deps.PyImport Deps.Imports Deps.ImportsWf Deps.Metrics Deps.MetricsProofs Deps.DepthProofs
  Deps.ImportsProofs Deps.ImportsAgree Deps.ImportsShadow.
Import ListNotations.

(* ---- module metrics --------------------------------------------------------------------------- *)
(* fan-in (AfferentCoupling) is the in-degree of the module in the reported graph, for every project
   and every order in which the files are analysed *)
Theorem C12_fan_in_is_in_degree : forall pr order m,
  fan_in (AnalyzeFiles pr order) m = in_degree (g_edges (AnalyzeFiles pr order)) m.
Proof. exact fan_in_is_in_degree. Qed.

Theorem C12_fan_out_is_out_degree : forall pr order m,
  fan_out (AnalyzeFiles pr order) m = out_degree (g_edges (AnalyzeFiles pr order)) m.
Proof. exact fan_out_is_out_degree. Qed.

(* instability = Ce / (Ca + Ce), 0 when both are 0 *)
Theorem C12_instability_formula : forall ca ce, (instability ca ce == instability_spec ca ce)%Q.
Proof. exact instability_formula. Qed.

(* distance = |A + I - 1| and lies in [0,1] *)
Theorem C12_distance_formula : forall a i, distance a i = Qabs (a + i - 1)%Q.
Proof. exact distance_is_spec. Qed.

Theorem C12_distance_range : forall ca ce abstract_count public_count, (abstract_count <= public_count)%nat ->
  (0 <= distance (abstractness abstract_count public_count) (instability ca ce) <= 1)%Q.
Proof. exact distance_range. Qed.

(* maximum depth = number of edges of the longest import chain, on every acyclic graph (modules numbered
   so that every import goes to a smaller number); the fuel of the model is never exhausted there *)
Theorem C12_max_depth_is_longest_chain : forall nodes es rank, ranked nodes es rank ->
  calculateMaxDepth nodes es = Some (longest_chain nodes es).
Proof. intros nodes es rank H. exact (max_depth_ranked es rank (proj1 H) nodes (proj2 H)). Qed.

(* ... where longest_from is what its name says: no chain from m is longer, and some chain is as long *)
Theorem C12_longest_chain_is_longest : forall nodes es rank, ranked nodes es rank -> forall m,
  (forall l, chain es m l -> (length l <= longest_from (length nodes) es m)%nat) /\
  (exists l, chain es m l /\ length l = longest_from (length nodes) es m).
Proof.
  intros nodes es rank H m. split.
  - intros l Hc. exact (chain_le_longest es rank (proj1 H) l (length nodes) m (proj2 H m) Hc).
  - exact (longest_attained es (length nodes) m).
Qed.

(* on a cyclic graph the reported depth is not the longest chain of distinct modules: a <-> b gives 2 *)
Theorem C12_max_depth_cycle_observation :
  calculateMaxDepth [[1%N]; [2%N]] [([1%N], [2%N]); ([2%N], [1%N])] = Some 2%nat.
Proof. vm_compute. reflexivity. Qed.

(* ---- import graph ----------------------------------------------------------------------------- *)
(* F31: an absolute import is looked up relative to the importing file's directory *)
Theorem C12_edges_refuted_implicit_relative : exists pr, project_shape pr = true /\
  same_edges (edges_model pr) (edges_py pr) = false /\ edges_py pr = [] /\ edges_model pr = [([1; 4], [1; 3])]%N.
Proof. exact refuted_implicit_relative. Qed.

(* F32: edges from a package's __init__ to modules below the package are dropped *)
Theorem C12_edges_refuted_init_own_submodule : exists pr, project_shape pr = true /\
  same_edges (edges_model pr) (edges_py pr) = false /\ edges_py pr = [([1], [1; 3])]%N /\ edges_model pr = [].
Proof. exact refuted_init_own_submodule. Qed.

(* F33: a re-exported name missing from a non-empty __all__ is not followed *)
Theorem C12_edges_refuted_all_hides : exists pr, project_shape pr = true /\
  same_edges (edges_model pr) (edges_py pr) = false /\ has_edge (edges_py pr) ([8], [1; 5])%N = true /\
  edges_model pr = [([8], [1])]%N.
Proof. exact refuted_all_hides. Qed.

(* F34: a name an __init__ takes from another package is not followed *)
Theorem C12_edges_refuted_cross_package_reexport : exists pr, project_shape pr = true /\
  same_edges (edges_model pr) (edges_py pr) = false /\ has_edge (edges_py pr) ([8], [2; 5])%N = true /\
  has_edge (edges_model pr) ([8], [1])%N = true.
Proof. exact refuted_cross_package_reexport. Qed.

(* the witnesses of the repaired defects (F5 cache, F17 position, F29 relative level) now agree *)
Theorem C12_repaired_witnesses_agree :
  forallb (fun pr => wf_project pr && same_edges (edges_model pr) (edges_py pr)) [w_cache; w_position; w_level] = true /\
  edges_model w_cache = [([1; 4], [1; 3]); ([2; 4], [2; 3])]%N /\
  edges_model w_position = [([8], [3]); ([8], [4]); ([8], [5])]%N /\
  edges_model w_level = [([1; 9; 10], [1; 3]); ([1; 9; 10], [1; 5])]%N.
Proof. exact repaired_witnesses_agree. Qed.

(* resolution of one file is never influenced by another file: whatever files were analysed before,
   in whatever order, an import of module m resolves to the same modules *)
Theorem C12_per_file_independent : forall pr before before' m ii,
  resolved_modules pr (fold_left (analyzeModuleDependencies pr) before (empty_graph pr)) m ii =
  resolved_modules pr (fold_left (analyzeModuleDependencies pr) before' (empty_graph pr)) m ii.
Proof. exact per_file_independent. Qed.

(* on the bounded domain: wf_project -> model graph = specification graph, and without the implicit-relative,
   __all__ and irregular re-export classes -> model graph = specification graph minus the __init__ -> own
   submodule edges (F32) *)
Theorem C12_edges_bounded : bounded_domain_ok = true.
Proof. exact edges_bounded. Qed.

(* the hypotheses are satisfiable: 4 650 of the 6 356 module-level runtime projects of the domain satisfy
   wf_mod_own, the F5 witness satisfies wf_project *)
Theorem C12_wf_inhabited : Nat.leb 1000 bounded_domain_wf = true /\ wf_project w_cache = true /\ wf_mod_own layout = true.
Proof. exact bounded_domain_inhabited. Qed.

(* ---- the unbounded agreement --------------------------------------------------------------------- *)
(* the model graph as a set: A -> B iff a runtime import of the file of A (not a file A.py next to a package A/) resolves
   (resolved_modules) to a project module B <> A that is not below the package A *)
Theorem C12_edges_model_spec : forall pr e, In e (edges_model pr) <->
  exists m ii r, In m pr /\ shadowed pr m = false /\ In ii (collectModuleImports m) /\ ii_tc ii = false /\
    In r (resolved_modules pr (empty_graph pr) m ii) /\
    (m_is_pkg m && strict_prefixb (m_path m) r) = false /\
    e = (m_path m, r) /\ is_module pr r = true /\ m_path m <> r.
Proof. exact edges_model_spec. Qed.

(* relative imports: resolveRelativeImport is importlib's _resolve_name, for every module, level and name *)
Theorem C12_relative_import_agrees : forall m lv p,
  resolveRelativeImport m lv p = match rel_base (package_of m) lv with Some b => Some (b ++ p) | None => None end.
Proof. exact relative_import_agrees. Qed.

(* absolute imports: without a same-named module beside or one directory above the importing file (abs_ok, the
   negation of F31) the import resolves to the module of that name (a project module, a namespace directory of the
   project or a third-party name), or - a standard-library name - to nothing *)
Theorem C12_absolute_import_agrees : forall pr m p, p <> [] -> abs_ok pr m p = true ->
  resolveAbsoluteImportWithProject pr m p = Some p \/
  (is_module pr p = false /\ isStandardLibrary p = true /\ resolveAbsoluteImportWithProject pr m p = None).
Proof. exact absolute_import_agrees. Qed.

(* re-exports: "from t import n" is resolved like CPython binds it, for every t and n, except when the __init__ of t
   holds "from . import n" for a submodule n and the specification lets that binding win *)
Theorem C12_reexport_agrees : forall pr, project_shape pr = true -> class_all_hides pr = false ->
  class_irregular_reexport pr = false -> forall t n,
  name_model pr t n = resolve_name_py pr t n \/
  (exists init, In init pr /\ m_is_pkg init = true /\ m_path init = t /\ In n (self_names init) /\
     is_module pr (t ++ [n]) = true /\ resolve_name_py pr t n = t ++ [n]).
Proof. exact reexport_agrees. Qed.

(* one statement: the project modules it resolves to are the same *)
Theorem C12_statement_agrees : forall pr, project_shape pr = true -> class_implicit_relative pr = false ->
  class_all_hides pr = false -> class_irregular_reexport pr = false -> no_bad pr ->
  forall m s, In m pr -> In s (m_imports m) -> forall r,
  In r (resolve_py pr m s) <->
  is_module pr r = true /\ exists ii, In ii (collect_one s) /\ In r (resolved_modules pr (empty_graph pr) m ii).
Proof. exact stmt_agrees. Qed.

(* THE UNBOUNDED THEOREM: outside the four deviation classes the import graph is the specification's, for all projects *)
Theorem C12_edges_wf : forall pr, wf_project pr = true -> same_edges (edges_model pr) (edges_py pr) = true.
Proof. exact edges_wf. Qed.

(* F65 repaired (21fe01e): a file m.py next to a package m/ is never imported by Python, so the specification's graph
   of such a project is the graph of the project without these files (drop_shadowed).  The analyser's graph does not
   change when they are removed, for every project, and the unbounded theorem holds under wf_project_sh, which no
   longer demands one file per module name: wf_project_sh pr = wf_project (drop_shadowed pr), implied by wf_project *)
Theorem C12_edges_model_ignores_shadowed : forall pr e, In e (edges_model pr) <-> In e (edges_model (drop_shadowed pr)).
Proof. exact edges_model_drop_shadowed. Qed.

Theorem C12_edges_wf_shadowed : forall pr, wf_project_sh pr = true ->
  same_edges (edges_model pr) (edges_py (drop_shadowed pr)) = true.
Proof. exact edges_wf_sh. Qed.

Theorem C12_wf_project_sh_weaker : forall pr, wf_project pr = true -> wf_project_sh pr = true /\ drop_shadowed pr = pr.
Proof. exact wf_project_sh_weaker. Qed.

(* the former witness of F65 (dup.py "import user" next to dup/__init__.py): rejected by wf_project, accepted by
   wf_project_sh, the same graph in both file orders, without the edge dup -> user the specification would give if
   the shadowed file counted *)
Theorem C12_shadowed_file_witness :
  wf_project w_shadow = false /\ wf_project_sh w_shadow = true /\
  edges_model w_shadow = [([1], [4]); ([3], [1]); ([3], [1; 2]); ([5], [1; 2])]%N /\
  edges_model (rev w_shadow) = [([5], [1; 2]); ([3], [1]); ([3], [1; 2]); ([1], [4])]%N /\
  same_edges (edges_model w_shadow) (edges_py (drop_shadowed w_shadow)) = true /\
  has_edge (edges_py w_shadow) ([1], [3])%N = true.
Proof. exact shadow_witness. Qed.

(* with F32 present: the specification's graph minus the __init__ -> own submodule edges, for all projects *)
Theorem C12_edges_wf_own : forall pr, wf_mod_own_strong pr = true ->
  same_edges (edges_model pr) (drop_own pr (edges_py pr)) = true.
Proof. exact edges_wf_own. Qed.

(* wf_mod_own (what the bounded theorem assumes) does not suffice for all projects *)
Theorem C12_wf_mod_own_insufficient : exists pr, wf_mod_own pr = true /\
  same_edges (edges_model pr) (drop_own pr (edges_py pr)) = false /\
  edges_model pr = [([8], [1; 5])]%N /\ drop_own pr (edges_py pr) = [([8], [1; 6])]%N.
Proof. exact wf_mod_own_insufficient. Qed.

(* wf_mod_own_strong is satisfiable: the layout, the F32 and F5 witnesses, and every wf_mod_own project of the
   module-level runtime part of the bounded domain *)
Theorem C12_wf_strong_inhabited :
  wf_mod_own_strong layout = true /\ wf_mod_own_strong w_init_own = true /\ wf_mod_own_strong w_cache = true /\
  forallb (fun imp => forallb (fun f =>
     let pr := with_stmt imp (Build_import_stmt f false PModule) in implb (wf_mod_own pr) (wf_mod_own_strong pr)) forms)
    (module_names layout) = true.
Proof. exact wf_mod_own_strong_inhabited. Qed.

(* wf_project allows re-exports (a/sub/__init__.py "from ..impl import fa", top.py "from a.sub import fa") *)
Theorem C12_wf_project_reexport_example :
  wf_project w_reexp = true /\ edges_model w_reexp = [([1; 9], [1; 5]); ([8], [1; 5])]%N.
Proof. exact wf_project_reexport_example. Qed.

Print Assumptions C12_fan_in_is_in_degree.
Print Assumptions C12_fan_out_is_out_degree.
Print Assumptions C12_instability_formula.
Print Assumptions C12_distance_formula.
Print Assumptions C12_distance_range.
Print Assumptions C12_max_depth_is_longest_chain.
Print Assumptions C12_longest_chain_is_longest.
Print Assumptions C12_max_depth_cycle_observation.
Print Assumptions C12_edges_refuted_implicit_relative.
Print Assumptions C12_edges_refuted_init_own_submodule.
Print Assumptions C12_edges_refuted_all_hides.
Print Assumptions C12_edges_refuted_cross_package_reexport.
Print Assumptions C12_repaired_witnesses_agree.
Print Assumptions C12_per_file_independent.
Print Assumptions C12_edges_bounded.
Print Assumptions C12_wf_inhabited.
Print Assumptions C12_edges_model_spec.
Print Assumptions C12_relative_import_agrees.
Print Assumptions C12_absolute_import_agrees.
Print Assumptions C12_reexport_agrees.
Print Assumptions C12_statement_agrees.
Print Assumptions C12_edges_wf.
Print Assumptions C12_edges_model_ignores_shadowed.
Print Assumptions C12_edges_wf_shadowed.
Print Assumptions C12_wf_project_sh_weaker.
Print Assumptions C12_shadowed_file_witness.
Print Assumptions C12_edges_wf_own.
Print Assumptions C12_wf_mod_own_insufficient.
Print Assumptions C12_wf_strong_inhabited.
Print Assumptions C12_wf_project_reexport_example.

(* ---- second part: analysis options, TYPE_CHECKING conditions, layouts (Deps/ImportsOpt.v, Deps/TcGuard.v) --------
   The option-parametrised model is tied to the code by the correspondence check (harness/c12x.py, hook op imports_x). *)
From PV Require Import Deps.ImportsOpt Deps.ImportsOptRun Deps.ImportsOptProofs Deps.TcGuard Gen.ImportsConst.

(* for the default options (and no wildcard re-export, which Deps/Imports.v does not distinguish) the parametrised
   model is the model of the first part, so every theorem above speaks about it too *)
Theorem C12_options_default_is_model : forall pr order, star_free pr = true ->
  AnalyzeFiles_o default_opts pr order = AnalyzeFiles pr order.
Proof. exact AnalyzeFiles_o_default. Qed.

(* follow_relative = false: exactly the relative import statements of the analysed files stop contributing *)
Theorem C12_follow_relative_off : forall o pr order, o_rel o = false ->
  AnalyzeFiles_o o pr order = AnalyzeFiles_o (set_rel o) pr (map strip_rel order).
Proof. exact follow_relative_off. Qed.

(* F62 repaired (8ba1334): include_third_party never changes the graph, for EVERY project (namespace packages included),
   every file order and every value of the other options: the option concerns modules outside the project, and a
   directory of the project is resolved before an import is classified as third-party.  (Formerly only under
   dirs_have_init, with the refuting witness C12_include_third_party_refuted_namespace.) *)
Theorem C12_include_third_party_irrelevant : forall o o' pr order,
  o_stdlib o = o_stdlib o' -> o_rel o = o_rel o' -> o_excl o = o_excl o' ->
  AnalyzeFiles_o o pr order = AnalyzeFiles_o o' pr order.
Proof. exact include_third_party_irrelevant. Qed.

(* include_stdlib does not change the graph of a project whose module directories all have an __init__.py either ... *)
Theorem C12_include_options_irrelevant : forall o o' pr order,
  o_rel o = o_rel o' -> o_excl o = o_excl o' -> dirs_have_init pr = true ->
  AnalyzeFiles_o o pr order = AnalyzeFiles_o o' pr order.
Proof. exact include_options_irrelevant. Qed.

(* ... without the hypothesis it can: a namespace directory named like a standard-library package (xml/mod.py without
   xml/__init__.py).  This follows Python, where the standard library's regular package wins over a namespace package *)
Theorem C12_include_stdlib_matters_for_stdlib_named_namespace :
  dirs_have_init w_stdlib_namespace = false /\
  edges_model_o (Build_opts true false true []) w_stdlib_namespace = [([5], [stdlib_code_base; 2])]%N /\
  edges_model_o (Build_opts false true true []) w_stdlib_namespace = [].
Proof. exact include_stdlib_matters. Qed.

(* the graph `pyscn check --select deps` builds is the graph of `pyscn analyze` (every project, every file order), and so
   Python's graph for every well-formed project: the unbounded theorem speaks about `check` too (C11 F66) *)
Theorem C12_check_graph_is_analyze_graph : forall pr order,
  AnalyzeFiles_o check_opts pr order = AnalyzeFiles_o default_opts pr order.
Proof. exact check_graph_is_analyze_graph. Qed.

Theorem C12_check_edges_wf : forall pr, star_free pr = true -> wf_project pr = true ->
  same_edges (edges_model_o check_opts pr) (edges_py pr) = true.
Proof. exact check_edges_wf. Qed.

(* project_shape (hence wf_project and every theorem above) no longer demands an __init__.py in every directory that
   holds a module: namespace packages are allowed unless they are named like a standard-library module.  The former
   shape is project_shape_strict *)
Theorem C12_wf_admits_namespace_packages :
  (wf_project w_namespace = true /\ project_shape_strict w_namespace = false /\ star_free w_namespace = true) /\
  (forall pr, project_shape_strict pr = true -> project_shape pr = true).
Proof. exact (conj wf_admits_namespace project_shape_strict_shape). Qed.

(* the former witness of F62 / C11 F66 (two modules of a namespace package that import each other): the cycle is in the
   graph with the default options and with the options of `pyscn check --select deps` *)
Theorem C12_namespace_cycle_found :
  dirs_have_init w_namespace = false /\
  edges_model_o default_opts w_namespace = [([1; 2], [1; 3]); ([1; 3], [1; 2])]%N /\
  edges_py w_namespace = [([1; 2], [1; 3]); ([1; 3], [1; 2])]%N /\
  edges_model_o check_opts w_namespace = edges_py w_namespace.
Proof. exact namespace_cycle_found. Qed.

(* src layout (F64) and wildcard re-export (F61): refuting witnesses *)
Theorem C12_edges_refuted_src_layout :
  edges_py w_src = [([1; 3; 4], [1; 2]); ([1; 5], [1; 2])]%N /\
  edges_model_o default_opts w_src = edges_py w_src /\
  edges_model_o default_opts (add_prefix [9%N] w_src) = [([9; 1; 5], [9; 1; 2])]%N /\
  prefix_edges [9%N] (edges_py (drop_deep_abs w_src)) = [([9; 1; 5], [9; 1; 2])]%N.
Proof. exact src_layout_loses_edges. Qed.

Theorem C12_edges_refuted_wildcard_reexport :
  let written_out := w_star [Build_iname 7%N 7%N; Build_iname 8%N 8%N] in
  let wildcard := w_star [Build_iname star star] in
  (In ([5], [1; 2])%N (edges_py written_out)) /\
  (edges_model_o default_opts written_out = [([5], [1; 2])]%N) /\
  (edges_model_o default_opts wildcard = [([5], [1])]%N) /\
  (class_wildcard_reexport wildcard = true) /\ (star_free wildcard = false).
Proof. exact wildcard_reexport_not_followed. Qed.

(* ---- conditions that mention TYPE_CHECKING (Deps/TcGuard.v; F63 repaired by baf3931) ------------------------------
   FULL STATEMENT "model_tc e = spec_tc e for every condition" cannot hold of any static analysis: the value of
   `TYPE_CHECKING or X` depends on X.  Proved instead, for every condition over TYPE_CHECKING, typing.TYPE_CHECKING,
   True / False, other names, not / and / or / == / != / is / is not:
   - soundness for every value of the other names (no runtime import is ever lost): a body / an else branch the
     analyser takes for type-checking-only is not executed;
   - exactness when no other name occurs: the analyser's reading is Python's;
   - the reading does not depend on the values of the other names (it is the three-valued evaluation runtimeValue
     with TYPE_CHECKING = False), so a branch counted as runtime code although it is dead is one that runs for other values. *)
Theorem C12_tc_guard_sound : forall e,
  (model_tc e = true -> spec_tc e = true) /\ (model_tc_else e = true -> spec_tc_else e = true).
Proof. exact guard_sound. Qed.

Theorem C12_tc_guard_exact : forall e, flag_free e = true -> containsTypeChecking e = true ->
  model_tc e = spec_tc e /\ model_tc_else e = spec_tc_else e.
Proof. exact guard_exact. Qed.

Theorem C12_tc_guard_value_sound : forall e v, runtimeValue e = Some v -> eval_guard e = v.
Proof. exact runtimeValue_sound. Qed.

Theorem C12_tc_guard_independent_of_other_names : forall e f, same_shape e f = true ->
  model_tc e = model_tc f /\ model_tc_else e = model_tc_else f.
Proof. exact guard_shape. Qed.

(* `if TYPE_CHECKING:`, `if typing.TYPE_CHECKING:` and every conjunction with one of them on either side is recognised
   as type-checking-only, and Python never runs its body *)
Theorem C12_tc_guard_conjunction_agrees : forall e, tc_conjunction e = true -> model_tc e = true /\ spec_tc e = true.
Proof. exact tc_conjunction_agrees. Qed.

(* a condition that does not mention TYPE_CHECKING is runtime code for the analyser, body and else branch *)
Theorem C12_tc_guard_only_if_mentioned : forall e, containsTypeChecking e = false ->
  model_tc e = false /\ model_tc_else e = false.
Proof. exact no_tc_not_guard. Qed.

(* the inputs that exposed F63 (formerly C12_tc_guard_refuted_or / _refuted_compare): `TYPE_CHECKING or X`,
   `not TYPE_CHECKING and X`, `TYPE_CHECKING == False`, `typing.TYPE_CHECKING is not True` are runtime code;
   `not TYPE_CHECKING` makes the else branch type-checking-only, `not not TYPE_CHECKING` the body *)
Theorem C12_tc_guard_repaired_witnesses :
  (forall x, model_tc (GOr GTc (GFlag x)) = false /\ model_tc_else (GOr GTc (GFlag x)) = false) /\
  (forall x, model_tc (GAnd (GNot GTc) (GFlag x)) = false /\ model_tc_else (GAnd (GNot GTc) (GFlag x)) = false) /\
  (model_tc (GEq GTc (GConst false)) = false /\ spec_tc (GEq GTc (GConst false)) = false /\ model_tc_else (GEq GTc (GConst false)) = true) /\
  (model_tc (GNe GTcAttr (GConst true)) = false /\ spec_tc (GNe GTcAttr (GConst true)) = false) /\
  (model_tc (GNot GTc) = false /\ model_tc_else (GNot GTc) = true /\ spec_tc_else (GNot GTc) = true) /\
  (model_tc (GNot (GNot GTc)) = true /\ spec_tc (GNot (GNot GTc)) = true) /\
  (model_tc (GOr GTc (GConst true)) = false /\ model_tc_else (GOr GTc (GConst true)) = true).
Proof. exact guard_repaired_witnesses. Qed.

Print Assumptions C12_options_default_is_model.
Print Assumptions C12_follow_relative_off.
Print Assumptions C12_include_third_party_irrelevant.
Print Assumptions C12_include_options_irrelevant.
Print Assumptions C12_include_stdlib_matters_for_stdlib_named_namespace.
Print Assumptions C12_check_graph_is_analyze_graph.
Print Assumptions C12_check_edges_wf.
Print Assumptions C12_wf_admits_namespace_packages.
Print Assumptions C12_namespace_cycle_found.
Print Assumptions C12_edges_refuted_src_layout.
Print Assumptions C12_edges_refuted_wildcard_reexport.
Print Assumptions C12_tc_guard_sound.
Print Assumptions C12_tc_guard_exact.
Print Assumptions C12_tc_guard_value_sound.
Print Assumptions C12_tc_guard_independent_of_other_names.
Print Assumptions C12_tc_guard_conjunction_agrees.
Print Assumptions C12_tc_guard_only_if_mentioned.
Print Assumptions C12_tc_guard_repaired_witnesses.
