(* C12 — the import graph and the module metrics reflect Python's import semantics.
   Only the property theorems; each is closed by [exact] of a lemma of Deps/*.v about the model
   Deps/Imports.v, Deps/Metrics.v (tied to internal/analyzer/module_analyzer.go, reexport_resolver.go,
   dependency_graph.go, coupling_metrics.go and service/system_analysis_service.go by Gen/ImportsConst.v
   and the correspondence check harness/c12.py) and the specification Deps/PyImport.v (tied to CPython by
   the same check).

   FULL STATEMENT (false of the code, see the _refuted theorems):
     C12_edges : forall pr, project_shape pr = true -> same_edges (edges_model pr) (edges_py pr) = true.
   Proved instead: four refuting witnesses, one per recorded deviation (F31-F34); the agreement on a bounded
   domain of 19 068 projects (every import form of a catalogue x every importing module of a layout with
   same-named modules in different packages, nested packages and re-exports x three positions/guards) under
   the decidable predicates wf_project / wf_mod_own (C12_edges_bounded); independence of a file's resolution
   from the other files for all inputs (C12_per_file_independent).  Missing: the agreement under wf_project
   for all projects (an induction over resolveAbsoluteImportWithProject / ResolveReExport against
   resolve_py; not attempted in this round).  The metric theorems are unconditional. *)
From Coq Require Import NArith ZArith QArith Qabs List Bool Arith.
From PV Require Import Deps.PyImport Deps.Imports Deps.ImportsWf Deps.Metrics Deps.MetricsProofs Deps.DepthProofs
  Deps.ImportsProofs.
Import ListNotations.

(* ---- module metrics --------------------------------------------------------------------------- *)
(* fan-in (AfferentCoupling) is the in-degree of the module in the reported graph, for every project
   and every order in which the files are analysed *)
Theorem C12_fan_in_is_in_degree : forall pr order m,
  fan_in (AnalyzeFiles pr order) m = in_degree (g_edges (AnalyzeFiles pr order)) m.
Proof. exact fan_in_is_in_degree. Qed.

Theorem C12_fan_out_is_out_degree : forall pr order m,
  fan_out (AnalyzeFiles pr order) m = out_degree (g_edges (AnalyzeFiles pr order)) m.
Proof. exact fan_out_is_out_degree. Qed.

(* instability = Ce / (Ca + Ce), 0 when both are 0 *)
Theorem C12_instability_formula : forall ca ce, (instability ca ce == instability_spec ca ce)%Q.
Proof. exact instability_formula. Qed.

(* distance = |A + I - 1| and lies in [0,1] *)
Theorem C12_distance_formula : forall a i, distance a i = Qabs (a + i - 1)%Q.
Proof. exact distance_is_spec. Qed.

Theorem C12_distance_range : forall ca ce abstract_count public_count, (abstract_count <= public_count)%nat ->
  (0 <= distance (abstractness abstract_count public_count) (instability ca ce) <= 1)%Q.
Proof. exact distance_range. Qed.

(* maximum depth = number of edges of the longest import chain, on every acyclic graph (modules numbered
   so that every import goes to a smaller number); the fuel of the model is never exhausted there *)
Theorem C12_max_depth_is_longest_chain : forall nodes es rank, ranked nodes es rank ->
  calculateMaxDepth nodes es = Some (longest_chain nodes es).
Proof. intros nodes es rank H. exact (max_depth_ranked es rank (proj1 H) nodes (proj2 H)). Qed.

(* ... where longest_from is what its name says: no chain from m is longer, and some chain is as long *)
Theorem C12_longest_chain_is_longest : forall nodes es rank, ranked nodes es rank -> forall m,
  (forall l, chain es m l -> (length l <= longest_from (length nodes) es m)%nat) /\
  (exists l, chain es m l /\ length l = longest_from (length nodes) es m).
Proof.
  intros nodes es rank H m. split.
  - intros l Hc. exact (chain_le_longest es rank (proj1 H) l (length nodes) m (proj2 H m) Hc).
  - exact (longest_attained es (length nodes) m).
Qed.

(* on a cyclic graph the reported depth is not the longest chain of distinct modules: a <-> b gives 2 *)
Theorem C12_max_depth_cycle_observation :
  calculateMaxDepth [[1%N]; [2%N]] [([1%N], [2%N]); ([2%N], [1%N])] = Some 2%nat.
Proof. vm_compute. reflexivity. Qed.

(* ---- import graph ----------------------------------------------------------------------------- *)
(* F31: an absolute import is looked up relative to the importing file's directory *)
Theorem C12_edges_refuted_implicit_relative : exists pr, project_shape pr = true /\
  same_edges (edges_model pr) (edges_py pr) = false /\ edges_py pr = [] /\ edges_model pr = [([1; 4], [1; 3])]%N.
Proof. exact refuted_implicit_relative. Qed.

(* F32: edges from a package's __init__ to modules below the package are dropped *)
Theorem C12_edges_refuted_init_own_submodule : exists pr, project_shape pr = true /\
  same_edges (edges_model pr) (edges_py pr) = false /\ edges_py pr = [([1], [1; 3])]%N /\ edges_model pr = [].
Proof. exact refuted_init_own_submodule. Qed.

(* F33: a re-exported name missing from a non-empty __all__ is not followed *)
Theorem C12_edges_refuted_all_hides : exists pr, project_shape pr = true /\
  same_edges (edges_model pr) (edges_py pr) = false /\ has_edge (edges_py pr) ([8], [1; 5])%N = true /\
  edges_model pr = [([8], [1])]%N.
Proof. exact refuted_all_hides. Qed.

(* F34: a name an __init__ takes from another package is not followed *)
Theorem C12_edges_refuted_cross_package_reexport : exists pr, project_shape pr = true /\
  same_edges (edges_model pr) (edges_py pr) = false /\ has_edge (edges_py pr) ([8], [2; 5])%N = true /\
  has_edge (edges_model pr) ([8], [1])%N = true.
Proof. exact refuted_cross_package_reexport. Qed.

(* the witnesses of the repaired defects (F5 cache, F17 position, F29 relative level) now agree *)
Theorem C12_repaired_witnesses_agree :
  forallb (fun pr => wf_project pr && same_edges (edges_model pr) (edges_py pr)) [w_cache; w_position; w_level] = true /\
  edges_model w_cache = [([1; 4], [1; 3]); ([2; 4], [2; 3])]%N /\
  edges_model w_position = [([8], [3]); ([8], [4]); ([8], [5])]%N /\
  edges_model w_level = [([1; 9; 10], [1; 3]); ([1; 9; 10], [1; 5])]%N.
Proof. exact repaired_witnesses_agree. Qed.

(* resolution of one file is never influenced by another file: whatever files were analysed before,
   in whatever order, an import of module m resolves to the same modules *)
Theorem C12_per_file_independent : forall pr before before' m ii,
  resolved_modules pr (fold_left (analyzeModuleDependencies pr) before (empty_graph pr)) m ii =
  resolved_modules pr (fold_left (analyzeModuleDependencies pr) before' (empty_graph pr)) m ii.
Proof. exact per_file_independent. Qed.

(* on the bounded domain: wf_project -> model graph = specification graph, and without the implicit-relative,
   __all__ and irregular re-export classes -> model graph = specification graph minus the __init__ -> own
   submodule edges (F32) *)
Theorem C12_edges_bounded : bounded_domain_ok = true.
Proof. exact edges_bounded. Qed.

(* the hypotheses are satisfiable: 4 650 of the 6 356 module-level runtime projects of the domain satisfy
   wf_mod_own, the F5 witness satisfies wf_project *)
Theorem C12_wf_inhabited : Nat.leb 1000 bounded_domain_wf = true /\ wf_project w_cache = true /\ wf_mod_own layout = true.
Proof. exact bounded_domain_inhabited. Qed.

Print Assumptions C12_fan_in_is_in_degree.
Print Assumptions C12_fan_out_is_out_degree.
Print Assumptions C12_instability_formula.
Print Assumptions C12_distance_formula.
Print Assumptions C12_distance_range.
Print Assumptions C12_max_depth_is_longest_chain.
Print Assumptions C12_longest_chain_is_longest.
Print Assumptions C12_max_depth_cycle_observation.
Print Assumptions C12_edges_refuted_implicit_relative.
Print Assumptions C12_edges_refuted_init_own_submodule.
Print Assumptions C12_edges_refuted_all_hides.
Print Assumptions C12_edges_refuted_cross_package_reexport.
Print Assumptions C12_repaired_witnesses_agree.
Print Assumptions C12_per_file_independent.
Print Assumptions C12_edges_bounded.
Print Assumptions C12_wf_inhabited.
