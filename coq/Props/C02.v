(* C02 — Dead-code completeness for structurally unreachable statements.
   Spec: Cfg/FlowSpec.v [must_dead_block] (every statement after a return/raise/break/continue in the same list,
   or after an if/elif/else all of whose arms contain one, with everything nested in it, at every nesting level).
   Model: Cfg/Flow.v.  Theorem: every such statement is among the model's dead statements, for every definition of
   a module at any depth.  The harness checks on each run that pyscn reports, at default severity and under the
   definition's qualified name, a range covering every must-be-dead statement, and that the model's dead set equals
   the lines covered by pyscn's ranges. *)
From Coq Require Import NArith List.
From PV Require Import Py.PyAST Cfg.Flow Cfg.FlowSpec Cfg.FlowComplete.
Import ListNotations.

Theorem C02_complete : forall body k, In k (must_dead_block body) -> In k (dead_ids body).
Proof. exact must_dead_complete. Qed.

Theorem C02_complete_every_def :
  forall m qn k0 body, In (qn, k0, body) (module_defs m) ->
  forall k, In k (must_dead_block body) -> In k (dead_ids body).
Proof. intros m qn k0 body _. exact (must_dead_complete body). Qed.

(* nested definitions are definitions of the module (dotted name), so the theorem above reaches them *)
Example C02_nested_defs_are_reached :
  let inner := Def 3 2 (BCons (Return 4) (BCons (Simple 5) BNil)) in
  let m := BCons (Def 2 1 (BCons inner BNil)) BNil in
  In ([1; 2]%N, 3%N, BCons (Return 4) (BCons (Simple 5) BNil)) (module_defs m) /\
  must_dead_block (BCons (Return 4) (BCons (Simple 5) BNil)) = [5%N].
Proof. vm_compute. split; [right; left; reflexivity | reflexivity]. Qed.

Print Assumptions C02_complete.
Print Assumptions C02_complete_every_def.
