(* C07 — Tree edit distance is the true minimum edit cost.

   SPEC   Ted/TedSpec.v  [delta]: the textbook forest recurrence; [ted c t1 t2 = delta c [t1] [t2]].
          "Minimum edit cost" is the minimum over edit (Tai) mappings: every node is deleted, inserted
          or relabelled at most once (the definition Zhang–Shasha use; for the Python-aware cost models,
          which are not a metric — [C07_python_cost_not_metric] — chains of operations on one node could be cheaper).
   MODEL  Ted/ZS.v [ComputeDistance]/[ComputeSimilarity]: internal/analyzer/apted.go + apted_tree.go, exact path.
   COSTS  Ted/Cost.v: the three shipped cost models from Gen/TedConst.v, in integer units (1 resp. 2^-120).

   FULL STATEMENT — now PROVED for all trees and EVERY cost model (no hypothesis on the costs at all, so in
   particular for the shipped ones), [C07_ComputeDistance_exact]:
     forall c t1 t2, tsize t1 <= 500 -> tsize t2 <= 500 -> ComputeDistance c (Some t1) (Some t2) = Some (ted c t1 t2),
   from [C07_zs_exact : zs c t1 t2 = ted c t1 t2] (no size bound).  Ingredients, each an unbounded theorem below:
     - the leftmost-root recurrence [delta] also satisfies the rightmost-root recurrence, is sub-additive under
       concatenation, and therefore satisfies the Zhang–Shasha recurrence (section (e));
     - PrepareTreeForAPTED numbers the nodes in post-order, LeftMostLeaf(x) = x + 1 - |subtree(x)|, and the key roots
       are exactly one node per left-most-leaf class, the largest ([C07_prepare_nodes_postorder], [C07_keyroots_spec]);
     - computeForestDistance for positions (i,j): every td cell it writes is the tree distance of the two subtrees,
       provided the td cells it reads are ([C07_forest_table_invariant]); key roots are processed in increasing order,
       so they are.  The zero defaults of the tables are never read except fd[l(i)][l(j)] = 0, which is intended.
   Also proved: (a) every "consequently" clause for the spec, for all forests of any size; (b) the same clauses for
   the MODEL at any size on the exact path ([C07_zs_clauses], [C07_sim_exact], nil cases [C07_nil_cases]);
   (c) the earlier bounded theorems (kept): model = spec = brute-force minimum over all Tai mappings on all pairs of
   trees with <= 4 nodes over 2 labels and <= 3 nodes over 3 labels; (d) the memoised evaluator equals the spec.
   (f) [C07_delta_is_min]: the recurrence equals the brute-force minimum over ALL Tai mappings ([mapping_min] of
   Ted/TedBrute.v) for all forests and all cost models (Tai's theorem; both inequalities), hence
   [C07_zs_is_min]: the model returns the minimum edit cost. *)
From Coq Require Import ZArith NArith QArith String List Lia.
From PV Require Import Gen.TedConst Ted.TedSpec Ted.TedProofs Ted.Cost Ted.CostProofs Ted.ZS Ted.TedSim Ted.TedMemo
  Ted.TedBrute Ted.BoundedDefs Ted.BoundedPython Ted.TedCorollaries Ted.ZSRefine
  Ted.TedRight Ted.ZSPost Ted.ZSPrepare Ted.ZSTable Ted.ZSExact Ted.ZSCorollaries Ted.TaiSteps Ted.TaiUpper Ted.TaiLower Tie.TedTie.
Import ListNotations.

(* tie to the code: the label predicates, multiplier cases and similarity levels of the Python cost model (Ted/Cost.v)
   agree with the decision tables the translator evaluated from internal/analyzer/apted_cost.go (Gen/TedTables.v) *)
Theorem C07_decision_tables : ted_tables_agree = true /\ ted_tables_nonempty = true.
Proof. exact ted_tables_agree_ok. Qed.
Print Assumptions C07_decision_tables.

(* ---------- (a) the spec, unbounded ------------------------------------------------------------------ *)
Theorem C07_delta_nonneg : forall c, cost_nonneg c -> forall F G, (0 <= delta c F G)%Z.
Proof. exact delta_nonneg. Qed.

(* a tree (forest) is at distance 0 from itself *)
Theorem C07_delta_self_zero : forall c, cost_nonneg c -> ren_refl c -> forall F, delta c F F = 0%Z.
Proof. exact delta_self_zero. Qed.

(* symmetric for symmetric cost models *)
Theorem C07_delta_sym : forall c, cost_sym c -> forall F G, delta c F G = delta c G F.
Proof. exact delta_sym. Qed.

(* never exceeds delete-all plus insert-all *)
Theorem C07_delta_upper : forall c F G, (delta c F G <= del_all c F + ins_all c G)%Z.
Proof. exact delta_upper. Qed.

(* the derived similarity lies in [0,1] and is 1 for identical trees of any size *)
Theorem C07_sim_spec_range : forall scale c t1 t2, (0 <= sim_spec scale c t1 t2 <= 1)%Q.
Proof. exact sim_spec_range. Qed.
Theorem C07_sim_spec_self_one : forall scale c, cost_nonneg c -> ren_refl c -> forall t, (sim_spec scale c t t == 1)%Q.
Proof. exact sim_spec_self_one. Qed.

(* the three shipped cost models (any label alphabet, any ignore flags) satisfy the hypotheses above *)
Theorem C07_shipped_costs_ok : forall c, shipped c -> cost_nonneg c /\ ren_refl c /\ cost_sym c.
Proof. exact shipped_ok. Qed.

(* ---------- (b) the model, unbounded ---------------------------------------------------------------- *)
(* ComputeSimilarity is in [0,1] whatever distance the algorithm produced (the clamp) *)
Theorem C07_sim_range : forall scale c o1 o2 s, ComputeSimilarity scale c o1 o2 = Some s -> (0 <= s <= 1)%Q.
Proof. exact ComputeSimilarity_range. Qed.
Theorem C07_sim_of_zero_distance : forall scale s1 s2, (similarity_of scale 0 s1 s2 == 1)%Q.
Proof. exact similarity_zero_dist. Qed.
(* nil trees: exactly the spec against the empty forest *)
Theorem C07_nil_cases_partial : forall c t,
  ComputeDistance c None (Some t) = Some (delta c [] [t]) /\ ComputeDistance c (Some t) None = Some (delta c [t] []) /\
  ComputeDistance c None None = Some (delta c [] []).
Proof. intros; split; [apply ComputeDistance_nil_l | split; [apply ComputeDistance_nil_r | apply ComputeDistance_nil_nil]]. Qed.

(* a closed step of the refinement: after PrepareTreeForAPTED the node array of getPostOrderNodes is exactly the
   tree's labels in post-order (hence has tsize t entries); the remaining steps (left-most leaves, key roots, table
   invariant of computeForestDistance) are covered only by the bounded theorem and the correspondence check *)
Theorem C07_prepare_nodes_postorder_partial : forall t,
  map fst (getPostOrderNodes (fst (PrepareTreeForAPTED t))) = postorder_labels t /\
  length (getPostOrderNodes (fst (PrepareTreeForAPTED t))) = tsize t.
Proof. exact prepare_nodes_postorder. Qed.

(* ---------- (c) bounded: model = spec = brute-force minimum ------------------------------------------ *)
(* domain: a,b both among the 102 trees with <= 4 nodes over labels {0,1}, or both among the 66 trees with
   <= 3 nodes over {0,1,2}; cost: default, python on [Decorator; FunctionDef(f); Name(x)], weighted on [Name(x); If; Name(y)] *)
Theorem C07_zs_exact_bounded : forall c a b, bounded_cost c -> in_domain a b ->
  ComputeDistance c (Some a) (Some b) = Some (ted c a b).
Proof. exact zs_exact_bounded. Qed.
Theorem C07_delta_is_min_bounded : forall c a b, bounded_cost c -> in_domain a b -> ted c a b = mapping_min c [a] [b].
Proof. exact delta_is_min_bounded. Qed.
Theorem C07_zs_clauses_bounded : forall c a b, bounded_cost c -> in_domain a b ->
  exists d d' da, ComputeDistance c (Some a) (Some b) = Some d /\ ComputeDistance c (Some b) (Some a) = Some d' /\
               ComputeDistance c (Some a) (Some a) = Some da /\
               da = 0%Z /\ d = d' /\ (0 <= d <= del_tree c a + ins_tree c b)%Z.
Proof. exact zs_clauses_bounded. Qed.

(* ---------- (d) the evaluator used by the correspondence check is the spec --------------------------- *)
Theorem C07_delta_memo_eq : forall c F G, delta_memo c F G = delta c F G.
Proof. exact delta_memo_eq. Qed.

(* ---------- (e) UNBOUNDED: the model computes exactly the spec ------------------------------------------ *)
(* the spec also satisfies the rightmost-root recurrence ... *)
Theorem C07_delta_right_rec : forall c F0 a F1 G0 b G1,
  delta c (F0 ++ [Node a F1]) (G0 ++ [Node b G1]) =
  min3 (delta c (F0 ++ F1) (G0 ++ [Node b G1]) + del c a)%Z (delta c (F0 ++ [Node a F1]) (G0 ++ G1) + ins c b)%Z
       (delta c F0 G0 + delta c F1 G1 + ren c a b)%Z.
Proof. exact delta_right. Qed.
(* ... is sub-additive under concatenation ... *)
Theorem C07_delta_app_le : forall c B E A C, (delta c (A ++ B) (C ++ E) <= delta c A C + delta c B E)%Z.
Proof. exact delta_app_le. Qed.
(* ... and hence satisfies the recurrence of the forest-distance table (third option: the TREE distance) *)
Theorem C07_delta_zs_rec : forall c F0 a F1 G0 b G1,
  delta c (F0 ++ [Node a F1]) (G0 ++ [Node b G1]) =
  min3 (delta c (F0 ++ F1) (G0 ++ [Node b G1]) + del c a)%Z (delta c (F0 ++ [Node a F1]) (G0 ++ G1) + ins c b)%Z
       (delta c F0 G0 + delta c [Node a F1] [Node b G1])%Z.
Proof. exact delta_zs_rec. Qed.

(* PrepareTreeForAPTED: entry x of the node array is (label of the x-th subtree in post-order, x + 1 - its size) *)
Theorem C07_prepare_nodes_postorder : forall t,
  N.of_nat (length (getPostOrderNodes (fst (PrepareTreeForAPTED t)))) = size t /\
  forall x, (x < size t)%N ->
    node_at (getPostOrderNodes (fst (PrepareTreeForAPTED t))) x = (label_of (sub t x), lmlT t x) /\
    lmlT t x = (x + 1 - size (sub t x))%N /\ (size (sub t x) <= x + 1)%N.
Proof.
  intros t. split; [apply prepare_nodes_length|]. intros x Hx.
  split; [apply prepare_node_at; exact Hx|]. split; [reflexivity | apply sub_size; exact Hx].
Qed.

(* key roots: in range; every node has a key root with the same left-most leaf that is >= it; one per class *)
Theorem C07_keyroots_spec : forall t, let K := snd (PrepareTreeForAPTED t) in
  (forall k, In k K -> (k < size t)%N) /\
  (forall x, (x < size t)%N -> exists k, In k K /\ lmlT t k = lmlT t x /\ (x <= k)%N) /\
  (forall k k', In k K -> In k' K -> lmlT t k = lmlT t k' -> k = k').
Proof. exact keyroots_spec. Qed.

(* computeForestDistance for in-range positions (i,j): if the td cells of the pairs (x,y) in the two spans that are not
   both "tree prefixes" already hold the tree distances ([A0]), then afterwards so do the cells of the tree prefixes *)
Theorem C07_forest_table_invariant : forall c t1 t2 i j (A0 : N -> N -> Prop) td,
  let nodes1 := getPostOrderNodes (fst (PrepareTreeForAPTED t1)) in
  let nodes2 := getPostOrderNodes (fst (PrepareTreeForAPTED t2)) in
  (i < size t1)%N -> (j < size t2)%N ->
  (forall x y, (lmlT t1 i <= x)%N -> (x <= i)%N -> (lmlT t2 j <= y)%N -> (y <= j)%N ->
               ~ (lmlT t1 x = lmlT t1 i /\ lmlT t2 y = lmlT t2 j) -> A0 x y) ->
  (forall x y, A0 x y -> tget td (x + 1) (y + 1) = ted c (sub t1 x) (sub t2 y)) ->
  forall x y, A0 x y \/ ((lmlT t1 i <= x)%N /\ (x <= i)%N /\ (lmlT t2 j <= y)%N /\ (y <= j)%N /\
                         lmlT t1 x = lmlT t1 i /\ lmlT t2 y = lmlT t2 j) ->
    tget (computeForestDistance c nodes1 nodes2 i j td) (x + 1) (y + 1) = ted c (sub t1 x) (sub t2 y).
Proof.
  intros c t1 t2 i j A0 td nodes1 nodes2 Hi Hj HA0 HT.
  exact (cfd_spec c t1 t2 nodes1 nodes2 (prepare_node_at t1) (prepare_node_at t2)
           (prepare_nodes_length t1) (prepare_nodes_length t2) i j Hi Hj A0 HA0 td HT).
Qed.

(* the Zhang–Shasha model = the recursive spec: all trees, all cost models *)
Theorem C07_zs_exact : forall c a b, zs c a b = ted c a b.
Proof. exact zs_exact. Qed.
(* the FULL STATEMENT of the header (for every cost model, hence for the shipped ones) *)
Theorem C07_ComputeDistance_exact : forall c t1 t2, (tsize t1 <= 500)%nat -> (tsize t2 <= 500)%nat ->
  ComputeDistance c (Some t1) (Some t2) = Some (ted c t1 t2).
Proof. exact ComputeDistance_is_ted. Qed.
(* all four nil / non-nil combinations at once; outside the exact path the model gives no value *)
Theorem C07_nil_cases : forall c o1 o2, exact_path o1 o2 ->
  ComputeDistance c o1 o2 = Some (delta c (oforest o1) (oforest o2)).
Proof. exact ComputeDistance_total. Qed.
Theorem C07_large_undefined : forall c t1 t2, (500 < tsize t1)%nat \/ (500 < tsize t2)%nat ->
  ComputeDistance c (Some t1) (Some t2) = None.
Proof. exact ComputeDistance_large. Qed.

(* the "consequently" clauses for the MODEL, any trees on the exact path, any cost model with the three properties *)
Theorem C07_zs_clauses : forall c a b, cost_nonneg c -> ren_refl c -> cost_sym c ->
  (tsize a <= 500)%nat -> (tsize b <= 500)%nat ->
  exists d, ComputeDistance c (Some a) (Some b) = Some d /\ ComputeDistance c (Some b) (Some a) = Some d /\
            ComputeDistance c (Some a) (Some a) = Some 0%Z /\ (0 <= d <= del_tree c a + ins_tree c b)%Z.
Proof. exact zs_clauses. Qed.
Theorem C07_sim_exact : forall scale c t1 t2, (tsize t1 <= 500)%nat -> (tsize t2 <= 500)%nat ->
  ComputeSimilarity scale c (Some t1) (Some t2) = Some (sim_spec scale c t1 t2).
Proof. exact ComputeSimilarity_is_spec. Qed.
Theorem C07_sim_self_one : forall scale c t, cost_nonneg c -> ren_refl c -> (tsize t <= 500)%nat ->
  exists s, ComputeSimilarity scale c (Some t) (Some t) = Some s /\ (s == 1)%Q.
Proof. exact ComputeSimilarity_self. Qed.
(* hypotheses are satisfiable: the shipped default model on two 3-node trees *)
Example C07_exact_example : ComputeDistance default_cost (Some (Node 0 [Node 1 []; Node 2 []])) (Some (Node 0 [Node 1 [Node 2 []]]))
  = Some (ted default_cost (Node 0 [Node 1 []; Node 2 []]) (Node 0 [Node 1 [Node 2 []]])).
Proof. apply C07_ComputeDistance_exact; cbn; lia. Qed.

(* ---------- (f) UNBOUNDED: the spec is the minimum over all Tai mappings ------------------------------- *)
(* some mapping achieves the recurrence ... *)
Theorem C07_mapping_min_le_delta : forall c F G, (mapping_min c F G <= delta c F G)%Z.
Proof. exact mapping_min_le_delta. Qed.
(* ... and no mapping is cheaper *)
Theorem C07_delta_le_mapping_min : forall c F G, (delta c F G <= mapping_min c F G)%Z.
Proof. exact delta_le_mapping_min. Qed.
Theorem C07_delta_is_min : forall c a b, ted c a b = mapping_min c [a] [b].
Proof. intros. apply delta_is_min. Qed.
Theorem C07_delta_is_min_forests : forall c F G, delta c F G = mapping_min c F G.
Proof. exact delta_is_min. Qed.
(* the model returns the minimum edit cost *)
Theorem C07_zs_is_min : forall c t1 t2, (tsize t1 <= 500)%nat -> (tsize t2 <= 500)%nat ->
  ComputeDistance c (Some t1) (Some t2) = Some (mapping_min c [t1] [t2]).
Proof. intros c t1 t2 H1 H2. rewrite ComputeDistance_is_ted by assumption. f_equal. apply delta_is_min. Qed.

(* observation: under the Python-aware costs insert(FunctionDef) > insert(Decorator) + rename(Decorator, FunctionDef) *)
Theorem C07_python_cost_not_metric : (ins c_python 1 > ins c_python 0 + ren c_python 0 1)%Z.
Proof. exact python_cost_not_metric. Qed.

(* hypotheses are satisfiable / domain is what the comment says *)
Example C07_domain_sizes : length T4 = 102%nat /\ length T3 = 66%nat.
Proof. exact BoundedDefault.T4_count. Qed.

Print Assumptions C07_delta_nonneg.
Print Assumptions C07_delta_self_zero.
Print Assumptions C07_delta_sym.
Print Assumptions C07_delta_upper.
Print Assumptions C07_sim_spec_range.
Print Assumptions C07_sim_spec_self_one.
Print Assumptions C07_shipped_costs_ok.
Print Assumptions C07_sim_range.
Print Assumptions C07_sim_of_zero_distance.
Print Assumptions C07_nil_cases_partial.
Print Assumptions C07_prepare_nodes_postorder_partial.
Print Assumptions C07_zs_exact_bounded.
Print Assumptions C07_delta_is_min_bounded.
Print Assumptions C07_zs_clauses_bounded.
Print Assumptions C07_delta_memo_eq.
Print Assumptions C07_python_cost_not_metric.
Print Assumptions C07_delta_right_rec.
Print Assumptions C07_delta_app_le.
Print Assumptions C07_delta_zs_rec.
Print Assumptions C07_prepare_nodes_postorder.
Print Assumptions C07_keyroots_spec.
Print Assumptions C07_forest_table_invariant.
Print Assumptions C07_zs_exact.
Print Assumptions C07_ComputeDistance_exact.
Print Assumptions C07_nil_cases.
Print Assumptions C07_large_undefined.
Print Assumptions C07_zs_clauses.
Print Assumptions C07_sim_exact.
Print Assumptions C07_sim_self_one.
Print Assumptions C07_mapping_min_le_delta.
Print Assumptions C07_delta_le_mapping_min.
Print Assumptions C07_delta_is_min.
Print Assumptions C07_delta_is_min_forests.
Print Assumptions C07_zs_is_min.

(* ---------- (g) the weighted FAMILY: NewWeightedCostModel(insert, delete, rename, base), any weights ------------ *)
From PV Require Import Ted.CostW Ted.CostWProofs.
(* the model NewCloneDetector builds for "weighted" is the member at the generated constants *)
Theorem C07_weighted_is_family_member : forall base,
  weighted_scost base = weighted_scost_w ted_weighted_insert ted_weighted_delete ted_weighted_rename base.
Proof. exact weighted_scost_is_w. Qed.
Theorem C07_cm_weighted_is_family_member : forall l i tbl,
  cm_weighted l i tbl = cm_weighted_w ted_weighted_insert ted_weighted_delete ted_weighted_rename (WPython l i) tbl.
Proof. exact cm_weighted_is_w. Qed.
(* every member, over either base model, any alphabet, any (also asymmetric, zero, negative) weights: the model returns the
   recurrence value, which is the minimum over all Tai mappings *)
Theorem C07_weighted_family_is_min : forall wi wd wr b tbl t1 t2, (tsize t1 <= 500)%nat -> (tsize t2 <= 500)%nat ->
  let c := cm_cost (cm_weighted_w wi wd wr b tbl) in
  ComputeDistance c (Some t1) (Some t2) = Some (ted c t1 t2) /\ ted c t1 t2 = mapping_min c [t1] [t2].
Proof. exact weighted_w_is_min. Qed.
(* non-negative weights give the hypotheses of "distance 0 from itself" / "similarity 1 for identical trees" ... *)
Theorem C07_weighted_family_costs_ok : forall wi wd wr b tbl, (0 <= wi)%Q -> (0 <= wd)%Q -> (0 <= wr)%Q ->
  cost_nonneg (cm_cost (cm_weighted_w wi wd wr b tbl)) /\ ren_refl (cm_cost (cm_weighted_w wi wd wr b tbl)).
Proof. exact cm_weighted_w_ok. Qed.
(* ... insert weight = delete weight gives symmetry ... *)
Theorem C07_weighted_family_sym : forall w wr b tbl, cost_sym (cm_cost (cm_weighted_w w w wr b tbl)).
Proof. exact cm_weighted_w_sym. Qed.
(* ... and with insert <> delete the distance is NOT symmetric: NewWeightedCostModel(2, 1.5, 0.5, Default),
   d(a(b), a) = 1.5 but d(a, a(b)) = 2 (so exchanging the arguments is not a harmless optimisation) *)
Theorem C07_weighted_family_asymmetric :
  ted w_asym (Node 0 [Node 1 []]) (Node 0 []) = to_units (3#2) /\
  ted w_asym (Node 0 []) (Node 0 [Node 1 []]) = to_units 2 /\
  ComputeDistance w_asym (Some (Node 0 [Node 1 []])) (Some (Node 0 [])) = Some (to_units (3#2)).
Proof. exact weighted_w_asym_witness. Qed.

Print Assumptions C07_weighted_is_family_member.
Print Assumptions C07_cm_weighted_is_family_member.
Print Assumptions C07_weighted_family_is_min.
Print Assumptions C07_weighted_family_costs_ok.
Print Assumptions C07_weighted_family_sym.
Print Assumptions C07_weighted_family_asymmetric.
