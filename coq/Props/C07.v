(* C07 — Tree edit distance is the true minimum edit cost.

   SPEC   Ted/TedSpec.v  [delta]: the textbook forest recurrence; [ted c t1 t2 = delta c [t1] [t2]].
          "Minimum edit cost" is the minimum over edit (Tai) mappings: every node is deleted, inserted
          or relabelled at most once (the definition Zhang–Shasha use; for the Python-aware cost models,
          which are not a metric — [C07_python_cost_not_metric] — chains of operations on one node could be cheaper).
   MODEL  Ted/ZS.v [ComputeDistance]/[ComputeSimilarity]: internal/analyzer/apted.go + apted_tree.go, exact path.
   COSTS  Ted/Cost.v: the three shipped cost models from Gen/TedConst.v, in integer units (1 resp. 2^-120).

   FULL STATEMENT (not proved in general; checked below on a bounded domain and sampled by the harness):
     forall c t1 t2, shipped c -> tsize t1 <= 500 -> tsize t2 <= 500 ->
       ComputeDistance c (Some t1) (Some t2) = Some (ted c t1 t2).
   Proved: (a) every "consequently" clause for the spec, for all forests of any size; (b) the clauses that hold by
   construction for the model at any size (similarity range, nil cases); (c) model = spec = brute-force minimum over
   all Tai mappings on all pairs of trees with <= 4 nodes over 2 labels and <= 3 nodes over 3 labels, for the three cost
   models ([_bounded], by vm_compute); (d) the memoised evaluator the check runs equals the spec (all inputs). *)
From Coq Require Import ZArith QArith String List.
From PV Require Import Gen.TedConst Ted.TedSpec Ted.TedProofs Ted.Cost Ted.CostProofs Ted.ZS Ted.TedSim Ted.TedMemo
  Ted.TedBrute Ted.BoundedDefs Ted.BoundedPython Ted.TedCorollaries Ted.ZSRefine.
Import ListNotations.

(* ---------- (a) the spec, unbounded ------------------------------------------------------------------ *)
Theorem C07_delta_nonneg : forall c, cost_nonneg c -> forall F G, (0 <= delta c F G)%Z.
Proof. exact delta_nonneg. Qed.

(* a tree (forest) is at distance 0 from itself *)
Theorem C07_delta_self_zero : forall c, cost_nonneg c -> ren_refl c -> forall F, delta c F F = 0%Z.
Proof. exact delta_self_zero. Qed.

(* symmetric for symmetric cost models *)
Theorem C07_delta_sym : forall c, cost_sym c -> forall F G, delta c F G = delta c G F.
Proof. exact delta_sym. Qed.

(* never exceeds delete-all plus insert-all *)
Theorem C07_delta_upper : forall c F G, (delta c F G <= del_all c F + ins_all c G)%Z.
Proof. exact delta_upper. Qed.

(* the derived similarity lies in [0,1] and is 1 for identical trees of any size *)
Theorem C07_sim_spec_range : forall scale c t1 t2, (0 <= sim_spec scale c t1 t2 <= 1)%Q.
Proof. exact sim_spec_range. Qed.
Theorem C07_sim_spec_self_one : forall scale c, cost_nonneg c -> ren_refl c -> forall t, (sim_spec scale c t t == 1)%Q.
Proof. exact sim_spec_self_one. Qed.

(* the three shipped cost models (any label alphabet, any ignore flags) satisfy the hypotheses above *)
Theorem C07_shipped_costs_ok : forall c, shipped c -> cost_nonneg c /\ ren_refl c /\ cost_sym c.
Proof. exact shipped_ok. Qed.

(* ---------- (b) the model, unbounded ---------------------------------------------------------------- *)
(* ComputeSimilarity is in [0,1] whatever distance the algorithm produced (the clamp) *)
Theorem C07_sim_range : forall scale c o1 o2 s, ComputeSimilarity scale c o1 o2 = Some s -> (0 <= s <= 1)%Q.
Proof. exact ComputeSimilarity_range. Qed.
Theorem C07_sim_of_zero_distance : forall scale s1 s2, (similarity_of scale 0 s1 s2 == 1)%Q.
Proof. exact similarity_zero_dist. Qed.
(* nil trees: exactly the spec against the empty forest *)
Theorem C07_nil_cases_partial : forall c t,
  ComputeDistance c None (Some t) = Some (delta c [] [t]) /\ ComputeDistance c (Some t) None = Some (delta c [t] []) /\
  ComputeDistance c None None = Some (delta c [] []).
Proof. intros; split; [apply ComputeDistance_nil_l | split; [apply ComputeDistance_nil_r | apply ComputeDistance_nil_nil]]. Qed.

(* a closed step of the refinement: after PrepareTreeForAPTED the node array of getPostOrderNodes is exactly the
   tree's labels in post-order (hence has tsize t entries); the remaining steps (left-most leaves, key roots, table
   invariant of computeForestDistance) are covered only by the bounded theorem and the correspondence check *)
Theorem C07_prepare_nodes_postorder_partial : forall t,
  map fst (getPostOrderNodes (fst (PrepareTreeForAPTED t))) = postorder_labels t /\
  length (getPostOrderNodes (fst (PrepareTreeForAPTED t))) = tsize t.
Proof. exact prepare_nodes_postorder. Qed.

(* ---------- (c) bounded: model = spec = brute-force minimum ------------------------------------------ *)
(* domain: a,b both among the 102 trees with <= 4 nodes over labels {0,1}, or both among the 66 trees with
   <= 3 nodes over {0,1,2}; cost: default, python on [Decorator; FunctionDef(f); Name(x)], weighted on [Name(x); If; Name(y)] *)
Theorem C07_zs_exact_bounded : forall c a b, bounded_cost c -> in_domain a b ->
  ComputeDistance c (Some a) (Some b) = Some (ted c a b).
Proof. exact zs_exact_bounded. Qed.
Theorem C07_delta_is_min_bounded : forall c a b, bounded_cost c -> in_domain a b -> ted c a b = mapping_min c [a] [b].
Proof. exact delta_is_min_bounded. Qed.
Theorem C07_zs_clauses_bounded : forall c a b, bounded_cost c -> in_domain a b ->
  exists d d' da, ComputeDistance c (Some a) (Some b) = Some d /\ ComputeDistance c (Some b) (Some a) = Some d' /\
               ComputeDistance c (Some a) (Some a) = Some da /\
               da = 0%Z /\ d = d' /\ (0 <= d <= del_tree c a + ins_tree c b)%Z.
Proof. exact zs_clauses_bounded. Qed.

(* ---------- (d) the evaluator used by the correspondence check is the spec --------------------------- *)
Theorem C07_delta_memo_eq : forall c F G, delta_memo c F G = delta c F G.
Proof. exact delta_memo_eq. Qed.

(* observation: under the Python-aware costs insert(FunctionDef) > insert(Decorator) + rename(Decorator, FunctionDef) *)
Theorem C07_python_cost_not_metric : (ins c_python 1 > ins c_python 0 + ren c_python 0 1)%Z.
Proof. exact python_cost_not_metric. Qed.

(* hypotheses are satisfiable / domain is what the comment says *)
Example C07_domain_sizes : length T4 = 102%nat /\ length T3 = 66%nat.
Proof. exact BoundedDefault.T4_count. Qed.

Print Assumptions C07_delta_nonneg.
Print Assumptions C07_delta_self_zero.
Print Assumptions C07_delta_sym.
Print Assumptions C07_delta_upper.
Print Assumptions C07_sim_spec_range.
Print Assumptions C07_sim_spec_self_one.
Print Assumptions C07_shipped_costs_ok.
Print Assumptions C07_sim_range.
Print Assumptions C07_sim_of_zero_distance.
Print Assumptions C07_nil_cases_partial.
Print Assumptions C07_prepare_nodes_postorder_partial.
Print Assumptions C07_zs_exact_bounded.
Print Assumptions C07_delta_is_min_bounded.
Print Assumptions C07_zs_clauses_bounded.
Print Assumptions C07_delta_memo_eq.
Print Assumptions C07_python_cost_not_metric.
