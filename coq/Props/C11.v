(* C11 — Circular dependencies are exactly the non-trivial strongly connected components.

   Specification: Deps/SccSpec.v (mutual reachability through imports, by closure).
   Code model:    Deps/Tarjan.v  (circular_detector.go, dependency_graph.go), constants from
                  Gen/DepsConst.v.

   Full statement, PROVED for every graph (no size bound) and every map-iteration order:
     C11_tarjan_exact : forall g mg, wf g mg ->
        exists out, tarjan mg = Some out /\ Permutation (map (norm g) out) (scc_spec g) /\
                    Forall (fun c => NoDup c /\ forall x, In x c -> In x (verts g)) out.
   [wf g mg] (Deps/TarjanWf.v, decided by [wfb], C11_wf_decidable) says that the detector's
   graph mg presents the digraph g: distinct module names, the same modules, every import
   the detector follows is an import of g, every import of g between two different modules is
   followed; nothing is assumed about the order of the modules or of the imports of a module.
   The graph built by AddModule/AddDependency satisfies it in every iteration order
   (C11_build_graph_wf, C11_tarjan_exact_orders = the bounded statement without the bound).
   Proof: Deps/TarjanCorrect.v (state invariant relative to the DFS spine, loop invariant of
   the loop over the imports, post-condition of strongConnect, induction on the fuel).
   Readings of the full statement:
     - C11_tarjan_terminates: the fuel |modules|+1 is never exhausted, the code never panics;
     - C11_tarjan_components_strongly_connected: every reported component is strongly connected,
       maximal, duplicate-free, with two or more modules;
     - C11_tarjan_complete: two different modules are reported together iff each reaches the other,
       and no module is reported twice;
     - C11_tarjan_checked: the certificate checker accepts the model's output;
     - C11_detect_exact: DetectCircularDependencies reports the specified cycle count, modules
       in cycles and sizes.
   Also proved (as before):
     - the specification is what the property says, for every graph (theorems C11_spec_...);
     - a certificate checker that accepts only the specification, for every graph and every
       output (theorems C11_certificate...); the correspondence check runs it on the implementation's
       outputs;
     - the full statement for every digraph with at most four modules, six iteration orders, by
       computation (C11_tarjan_exact_bounded; now a special case of C11_tarjan_exact_orders);
     - the statistics follow from the partition (theorems C11_stats_...), for every graph;
     - for every graph, every iteration order and every fuel: the components the Tarjan model
       reports have two or more modules each and are pairwise disjoint
       (C11_tarjan_components_partial, C11_tarjan_disjoint_partial, C11_tarjan_statistics). *)
From Coq Require Import List NArith ZArith Bool Arith Permutation.
From PV Require Import Gen.DepsConst Deps.SccSpec Deps.SccSpecProofs Deps.Tarjan Deps.DepsRun
  Deps.TarjanProofs Deps.TarjanInv Deps.TarjanBounded Deps.TarjanCorrect Deps.TarjanWf Tie.DepsTie Deps.SeverityMono.
Import ListNotations.
Local Open Scope nat_scope.

(* tie to the code: assessCycleSeverity of the model agrees with the decision table the translator evaluated from
   CircularDependencyDetector.assessCycleSeverity of the current Go source (Gen/DepsTables.v) *)
Theorem C11_decision_tables : deps_tables_agree = true /\ deps_tables_nonempty = true.
Proof. exact deps_tables_agree_ok. Qed.
Print Assumptions C11_decision_tables.

(* the closure used by the specification decides "reachable through imports" *)
Theorem C11_spec_reach : forall g v w, In v (verts g) -> (In w (reach_set g v) <-> path g v w).
Proof. exact reach_set_spec. Qed.

(* the specified cycles are exactly the maximal sets of mutually reachable modules with two
   or more members *)
Theorem C11_spec_char : forall g c, In c (scc_spec g) <-> (2 <= length c /\ is_class g c).
Proof. exact scc_spec_char. Qed.

(* two modules are listed in the same cycle iff each can reach the other *)
Theorem C11_spec_same_cycle : forall g a b, In a (verts g) -> In b (verts g) -> a <> b ->
  ((exists c, In c (scc_spec g) /\ In a c /\ In b c) <-> mutual g a b).
Proof. exact scc_spec_same_cycle. Qed.

(* a module is in some cycle iff it is mutually reachable with another module *)
Theorem C11_spec_in_some_cycle : forall g, NoDup (verts g) -> forall a, In a (verts g) ->
  ((exists c, In c (scc_spec g) /\ In a c) <-> exists b, In b (verts g) /\ a <> b /\ mutual g a b).
Proof. exact scc_spec_in_some_cycle. Qed.

(* the cycles form a partition: pairwise disjoint, none listed twice, no module repeated *)
Theorem C11_spec_disjoint : forall g c1 c2 x, In c1 (scc_spec g) -> In c2 (scc_spec g) ->
  In x c1 -> In x c2 -> c1 = c2.
Proof. exact scc_spec_disjoint. Qed.
Theorem C11_spec_nodup : forall g, NoDup (verts g) -> NoDup (scc_spec g) /\ NoDup (concat (scc_spec g)).
Proof. intros g H. split; [apply scc_spec_nodup|apply spec_modules_in_cycles_nodup]; exact H. Qed.

(* certificate: whatever list of cycles the checker accepts is the specification up to order *)
Theorem C11_certificate : forall g out, check_sccs g out = true ->
  Permutation (map (norm g) out) (scc_spec g) /\
  Forall (fun c => NoDup c /\ forall x, In x c -> In x (verts g)) out.
Proof. exact check_sccs_sound. Qed.
Theorem C11_certificate_same_cycle : forall g out, check_sccs g out = true ->
  forall a b, In a (verts g) -> In b (verts g) -> a <> b ->
  ((exists c, In c out /\ In a c /\ In b c) <-> mutual g a b).
Proof. exact check_sccs_same_cycle. Qed.

(* Tarjan model = specification on every digraph with <= 4 modules (all 2^(n*n) import sets,
   self-imports included; six orders of `range Nodes` / `range Dependencies`) *)
Theorem C11_tarjan_exact_bounded : forall n mask, n <= 4 -> (mask < 2 ^ N.of_nat (n * n))%N ->
  let g := graph_of_mask n mask in
  forall mg, In mg (orders (build_graph g)) ->
  exists out, tarjan mg = Some out /\ Permutation (map (norm g) out) (scc_spec g) /\
              Forall (fun c => NoDup c /\ forall x, In x c -> In x (verts g)) out.
Proof. exact tarjan_exact_bounded. Qed.

(* ---------- the unbounded exactness theorem ---------- *)
(* Tarjan model = specification, for every digraph and every presentation of it to the detector
   (any order of `range Nodes`, any order of `range Dependencies`) *)
Theorem C11_tarjan_exact : forall g mg, wf g mg ->
  exists out, tarjan mg = Some out /\ Permutation (map (norm g) out) (scc_spec g) /\
              Forall (fun c => NoDup c /\ forall x, In x c -> In x (verts g)) out.
Proof. exact tarjan_exact. Qed.

(* the hypothesis is decidable ... *)
Theorem C11_wf_decidable : forall g mg, wfb g mg = true <-> wf g mg.
Proof. exact wfb_spec. Qed.
(* ... does not depend on the iteration orders ... *)
Theorem C11_wf_order_independent : forall g mg mg', Permutation mg mg' -> wf g mg -> wf g mg' /\ wf g (rev_deps mg').
Proof. intros g mg mg' P H. split; [|apply wf_rev_deps]; eapply wf_perm; eassumption. Qed.
(* ... and holds of the graph AddModule/AddDependency build from distinct module names *)
Theorem C11_build_graph_wf : forall g, NoDup (verts g) -> wf g (build_graph g).
Proof. exact build_graph_wf. Qed.

(* the bounded statement without the bound *)
Theorem C11_tarjan_exact_orders : forall g, NoDup (verts g) ->
  forall mg, In mg (orders (build_graph g)) ->
  exists out, tarjan mg = Some out /\ Permutation (map (norm g) out) (scc_spec g) /\
              Forall (fun c => NoDup c /\ forall x, In x c -> In x (verts g)) out.
Proof. exact tarjan_exact_orders. Qed.

(* (1) recursion depth: the fuel |modules|+1 is never exhausted; no index-out-of-range panic *)
Theorem C11_tarjan_terminates : forall g mg, wf g mg -> exists out, tarjan mg = Some out.
Proof. exact tarjan_terminates. Qed.

(* (2) every reported component is strongly connected and maximal *)
Theorem C11_tarjan_components_strongly_connected : forall g mg out, wf g mg -> tarjan mg = Some out ->
  forall c, In c out ->
    2 <= length c /\ NoDup c /\ (forall x, In x c -> In x (verts g)) /\
    (forall x y, In x c -> In y c -> mutual g x y) /\
    (forall x w, In x c -> In w (verts g) -> mutual g x w -> In w c).
Proof. exact tarjan_components_sccs. Qed.

(* (3) every class of two or more mutually reachable modules is reported, exactly once *)
Theorem C11_tarjan_complete : forall g mg out, wf g mg -> tarjan mg = Some out ->
  NoDup (concat out) /\
  forall a b, In a (verts g) -> In b (verts g) -> a <> b ->
    ((exists c, In c out /\ In a c /\ In b c) <-> mutual g a b).
Proof. exact tarjan_same_cycle. Qed.

(* the proved checker accepts the model's output (the checker is complete) *)
Theorem C11_tarjan_checked : forall g mg, wf g mg -> exists out, tarjan mg = Some out /\ check_sccs g out = true.
Proof. exact tarjan_checked. Qed.

(* DetectCircularDependencies: cycles, cycle count, modules in cycles and sizes are the specified ones *)
Theorem C11_detect_exact : forall g mg, wf g mg ->
  exists r, DetectCircularDependencies mg = Some r /\
    Permutation (map (norm g) (map c_modules (r_cycles r))) (scc_spec g) /\
    r_total_cycles r = Z.of_nat (spec_cycle_count g) /\
    r_total_modules r = Z.of_nat (spec_modules_in_cycles g) /\
    Permutation (map c_size (r_cycles r)) (map Z.of_nat (spec_sizes g)) /\
    r_has r = negb (spec_cycle_count g =? 0).
Proof. exact detect_exact. Qed.

(* every graph, every order: each reported component has >= 2 modules, no module is reported twice *)
Theorem C11_tarjan_components_partial : forall g out, tarjan g = Some out ->
  Forall (fun c => 2 <= length c) out /\ NoDup (concat out).
Proof. exact tarjan_components_partial. Qed.
Theorem C11_tarjan_disjoint_partial : forall g out, tarjan g = Some out ->
  (forall c, In c out -> NoDup c) /\
  (forall i j c d x, nth_error out i = Some c -> nth_error out j = Some d -> i <> j -> In x c -> ~ In x d).
Proof. exact tarjan_components_disjoint. Qed.

(* every graph, every order: cycle count, modules in cycles, sizes and severities follow from
   the reported partition *)
Theorem C11_tarjan_statistics : forall g r, DetectCircularDependencies g = Some r ->
  exists out, tarjan g = Some out /\ map c_modules (r_cycles r) = out /\
  r_total_cycles r = Z.of_nat (length out) /\
  r_total_modules r = fold_right Z.add 0%Z (map c_size (r_cycles r)) /\
  r_total_modules r = Z.of_nat (length (concat out)) /\
  r_has r = negb (length out =? 0) /\
  Forall (fun c => c_size c = Z.of_nat (length (c_modules c)) /\ (2 <= c_size c)%Z /\
                   c_severity c = assessCycleSeverity g (c_modules c) (c_size c)) (r_cycles r).
Proof. exact tarjan_statistics. Qed.

(* statistics follow from the partition: for any accepted component list, cycle count,
   modules in cycles and the sizes are those of the specification *)
Theorem C11_stats_accepted : forall g mg out, NoDup (verts g) -> check_sccs g out = true ->
  let r := assemble mg out in
  r_total_cycles r = Z.of_nat (spec_cycle_count g) /\
  r_total_modules r = Z.of_nat (spec_modules_in_cycles g) /\
  Permutation (map c_size (r_cycles r)) (map Z.of_nat (spec_sizes g)) /\
  map c_modules (r_cycles r) = out.
Proof. exact accepted_stats. Qed.

(* modules in cycles = sum of the cycle sizes; count = number of components *)
Theorem C11_stats_counts : forall g comps, Forall (fun c => 2 <= length c) comps -> NoDup (concat comps) ->
  let r := assemble g comps in
  r_total_cycles r = Z.of_nat (length comps) /\
  r_total_modules r = Z.of_nat (length (concat comps)) /\
  r_total_modules r = fold_right Z.add 0%Z (map c_size (r_cycles r)) /\
  map c_modules (r_cycles r) = comps /\
  r_has r = negb (length comps =? 0).
Proof. exact assemble_counts. Qed.
Theorem C11_spec_modules_sum : forall g, spec_modules_in_cycles g = list_sum (spec_sizes g).
Proof. exact spec_modules_in_cycles_sum. Qed.

(* severity is the documented function of the size (and of "a member has fan-in > 10") *)
Theorem C11_severity_table : forall hasCore size, (2 <= size)%Z ->
  (circ_assess hasCore size = 4%Z <-> hasCore = true \/ (10 <= size)%Z) /\
  (circ_assess hasCore size = 3%Z <-> hasCore = false /\ (6 <= size <= 9)%Z) /\
  (circ_assess hasCore size = 2%Z <-> hasCore = false /\ (3 <= size <= 5)%Z) /\
  (circ_assess hasCore size = 1%Z <-> hasCore = false /\ size = 2%Z).
Proof. exact severity_iff. Qed.
(* a larger cycle, or one that gains a core member, is never less severe; the level is always 1..4 *)
Theorem C11_severity_monotone : forall hasCore hasCore' size size', core_le hasCore hasCore' -> (size <= size')%Z ->
  (circ_assess hasCore size <= circ_assess hasCore' size')%Z.
Proof. exact severity_mono. Qed.
Theorem C11_severity_range : forall hasCore size, (1 <= circ_assess hasCore size <= 4)%Z.
Proof. exact severity_range. Qed.
Theorem C11_severity_counts_total : forall g comps,
  let r := assemble g comps in (r_low r + r_medium r + r_high r + r_critical r = r_total_cycles r)%Z.
Proof. exact severity_counts_total. Qed.

(* the hypotheses are satisfiable: a 3-cycle with a tail and a self-import *)
Example C11_example :
  let g := Build_digraph [0;1;2;3]%N [(0,1);(1,2);(2,0);(2,3);(3,3)]%N in
  scc_spec g = [[0;1;2]%N] /\ tarjan (build_graph g) = Some [[0;1;2]%N] /\
  check_sccs g [[2;0;1]%N] = true /\ check_sccs g [[0;1]%N] = false.
Proof. vm_compute. repeat split. Qed.

Print Assumptions C11_spec_reach.
Print Assumptions C11_spec_char.
Print Assumptions C11_spec_same_cycle.
Print Assumptions C11_spec_in_some_cycle.
Print Assumptions C11_spec_disjoint.
Print Assumptions C11_spec_nodup.
Print Assumptions C11_certificate.
Print Assumptions C11_certificate_same_cycle.
Print Assumptions C11_tarjan_exact_bounded.
Print Assumptions C11_tarjan_components_partial.
Print Assumptions C11_tarjan_disjoint_partial.
Print Assumptions C11_tarjan_statistics.
Print Assumptions C11_stats_accepted.
Print Assumptions C11_stats_counts.
Print Assumptions C11_spec_modules_sum.
Print Assumptions C11_severity_table.
Print Assumptions C11_severity_counts_total.
Print Assumptions C11_tarjan_exact.
Print Assumptions C11_wf_decidable.
Print Assumptions C11_wf_order_independent.
Print Assumptions C11_build_graph_wf.
Print Assumptions C11_tarjan_exact_orders.
Print Assumptions C11_tarjan_terminates.
Print Assumptions C11_tarjan_components_strongly_connected.
Print Assumptions C11_tarjan_complete.
Print Assumptions C11_tarjan_checked.
Print Assumptions C11_detect_exact.
Print Assumptions C11_severity_monotone.
Print Assumptions C11_severity_range.
