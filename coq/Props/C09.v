(* C09 — LSH and batching never invent pairs and never lose exact duplicates. *)
From Coq Require Import ZArith QArith List Permutation.
From PV Require Import Gen.DomainConst Gen.CloneConst Clone.Pairs Clone.PairsFacts Clone.PairsProofs Clone.PairsBatch Clone.PairsOrder Clone.PairsWitness Tie.CloneTie.
Import ListNotations.
Open Scope Z_scope.

(* tie to the code: classify / overlapping / should_include of the model agree with the decision tables the translator
   evaluated from classifyCloneType / isOverlappingLocation / shouldIncludeFragment of the current Go source *)
Theorem C09_decision_tables : clone_tables_agree = true /\ clone_tables_nonempty = true.
Proof. exact clone_tables_agree_ok. Qed.
Print Assumptions C09_decision_tables.

Section C09.
Variable sim : frag -> frag -> Q.
Variable dist : frag -> frag -> Q.
Variable gate : frag -> frag -> bool.
Variable sig : Z -> list N -> list N.
Variable bandhash : list N -> N.

(* every LSH pair is an exhaustive pair: the same record (fragments in the same order, similarity,
   distance, type), for every bands/rows/hashes/threshold *)
Theorem lsh_subset : forall c fs p,
  In p (lsh_pairs sim dist gate sig bandhash c fs) -> In p (exhaustive sim dist gate c fs).
Proof. exact (lsh_pairs_subset sim dist gate sig bandhash). Qed.

(* the batch loop visits every unordered index pair, exactly one orientation of it, and nothing else,
   for every batch size > 0 *)
Theorem batch_covers : forall bs n, (0 < bs)%nat ->
  (forall i j, In (i, j) (batch_visits bs n) -> (i < n /\ j < n /\ i <> j)%nat) /\
  (forall a b, (a < b < n)%nat -> In (a, b) (batch_visits bs n) \/ In (b, a) (batch_visits bs n)) /\
  (forall i j, In (i, j) (batch_visits bs n) -> ~ In (j, i) (batch_visits bs n)).
Proof. exact batch_visits_spec. Qed.

(* the same through the LSH entry point (sorting and the pair limit only remove pairs) *)
Theorem lsh_detect_subset : forall c fs p, c_use_lsh c = true -> (1 < length fs)%nat ->
  In p (detect_lsh sim dist gate sig bandhash c fs) -> In p (exhaustive sim dist gate c fs).
Proof. exact (detect_lsh_subset sim dist gate sig bandhash). Qed.

(* each unordered index pair is visited exactly once: up to orientation the visit list is a
   permutation of the i<j double loop *)
Theorem batch_covers_once : forall bs n, (0 < bs)%nat ->
  Permutation (map norm (batch_visits bs n)) (pairs_of (seq 0 n)).
Proof. exact batch_visits_perm. Qed.

Hypothesis sig_len : forall h feats, length (sig h feats) = Z.to_nat h.   (* make([]uint64, numHashes) *)

(* there is always at least one band, whatever bands, rows and hash count are (rows > hashes included:
   computeBandKeys clamps the band width to the signature length — the repair of finding F23) *)
Theorem lsh_at_least_one_band : forall c total, 0 < total -> 1 <= bands_eff c total.
Proof. exact bands_eff_pos. Qed.

(* a pair of fragments with identical feature sets that the exhaustive comparison reports is reported
   by LSH, for every bands/rows/hashes/threshold (equal feature sets => equal signatures => a shared
   band and estimate 1 >= the clamped threshold) *)
Theorem lsh_keeps_identical : forall c fs p,
  In p (exhaustive sim dist gate c fs) -> f_lshfeats (p_a p) = f_lshfeats (p_b p) ->
  In p (lsh_pairs sim dist gate sig bandhash c fs).
Proof. exact (PairsOrder.lsh_keeps_identical sim dist gate sig bandhash sig_len). Qed.

Theorem lsh_detect_keeps_identical : forall c fs p, c_use_lsh c = true ->
  Z.of_nat (length (exhaustive sim dist gate c fs)) <= c_max_pairs c ->
  In p (exhaustive sim dist gate c fs) -> f_lshfeats (p_a p) = f_lshfeats (p_b p) ->
  In p (detect_lsh sim dist gate sig bandhash c fs).
Proof. exact (detect_lsh_keeps_identical sim dist gate sig bandhash sig_len). Qed.

Hypothesis sim_sym : forall a b, sim a b = sim b a.
Hypothesis dist_sym : forall a b, dist a b = dist b a.
Hypothesis gate_sym : forall a b, gate a b = gate b a.

(* the batch loop finds exactly as many qualifying pairs as the double loop, for every batch size *)
Theorem batch_count_eq : forall c fs bs, (0 < bs)%nat ->
  length (batch_qualifying sim dist gate c fs bs) = length (exhaustive sim dist gate c fs).
Proof. exact (batch_count sim dist gate sim_sym dist_sym gate_sym). Qed.

(* without truncation by the pair limit, batched detection with any batch size returns the same set
   of pairs (the batch loop lists a pair with an earlier batch in the other orientation) and the same
   number of pairs as unbatched exhaustive detection *)
Theorem batch_eq_unbatched : forall c fs bs, validate c = true -> NoDup fs ->
  no_truncation sim dist gate c fs ->
  same_pair_set (batched sim dist gate c fs (c_max_pairs c) bs) (exhaustive sim dist gate c fs) /\
  length (batched sim dist gate c fs (c_max_pairs c) bs) = length (exhaustive sim dist gate c fs).
Proof. intros c fs bs V. exact (batched_same_set sim dist gate sim_sym dist_sym gate_sym c fs bs (validate_spec c V)). Qed.

(* and so does the public entry point, whatever batch size it picks *)
Theorem detect_eq_exhaustive : forall c fs, validate c = true -> NoDup fs -> no_truncation sim dist gate c fs ->
  same_pair_set (detect_pairs sim dist gate c fs) (exhaustive sim dist gate c fs).
Proof. intros c fs V. exact (detect_pairs_same_set sim dist gate sim_sym dist_sym gate_sym c fs (validate_spec c V)). Qed.
End C09.

Print Assumptions lsh_subset.
Print Assumptions batch_covers.

(* finding F23 (repaired by a fix: commit): before the clamp, rows 200 > hashes 128 gave min 32 (128/200) = 0 bands *)
Example lsh_zero_bands_before_fix : Z.min domain_DefaultLSHBands (domain_DefaultLSHHashes / 200) = 0.
Proof. exact zero_bands_before_fix. Qed.

Print Assumptions lsh_detect_subset.
Print Assumptions batch_covers_once.
Print Assumptions lsh_at_least_one_band.
Print Assumptions lsh_keeps_identical.
Print Assumptions lsh_detect_keeps_identical.
Print Assumptions batch_count_eq.
Print Assumptions batch_eq_unbatched.
Print Assumptions detect_eq_exhaustive.
