(* C14 — LCOM4 is the number of connected components of the method graph.
   Only the property theorems; each is closed by [exact] of a lemma of Class/UF.v or
   Class/LCOMProofs.v about the model Class/LCOM.v of internal/analyzer/lcom.go.

   FULL statement:  forall c, (l_lcom4 (lcom_model o c), l_groups (lcom_model o c)) =
                              (lcom4_spec c, spec_groups c).
   It is FALSE of the current code for a method name defined both as instance method and as
   static/class method (C14_mixed_duplicate_refuted; known finding F30).
   Proved (unbounded):
     - C14_union_find: after any sequence of unions two vertices carry the same label iff a path
       of united pairs joins them (the labelling abstraction of lcom.go's union-find);
     - C14_components: the model's partition = the connected components of its own method graph
       (common self attribute, or self-call to a collected method);
     - C14_spec_decides_connectivity: the spec's computable closure decides connectivity (inductive
       paths) in the spec's method graph;
     - C14_access_collection_exact: per method, the attributes / calls the model collects through
       the walked fields and parser paths = the attributes / calls written in the method in ANY
       position (every position of Class/Syntax.v is reached); decorator exclusion agrees.
   NOT proved (C14_exact is therefore partial): that collectMethods' map of non-excluded
   definitions equals the spec's "last definition per name, instance methods only" when no name is
   defined in both kinds; the correspondence check compares model, spec and implementation on
   every generated class instead. *)
From Coq Require Import ZArith NArith List String.
From PV Require Import Gen.ClassConst Class.Syntax Class.SetK Class.UF Class.CBO Class.LCOM Class.LCOMProofs Class.RiskSpec Class.RiskMonoLCOM.
Import ListNotations.
Open Scope string_scope.
Open Scope list_scope.

Theorem C14_union_find : forall vs es a b, endpoints_in vs es -> In a vs -> In b vs ->
  (same (uf_run vs es) a b = true <-> conn es a b).
Proof. exact uf_run_conn. Qed.

Theorem C14_components : forall methods a b,
  In a (model_vertices methods) -> In b (model_vertices methods) ->
  (same (model_labels methods) a b = true <-> gconn methods a b).
Proof. exact model_components. Qed.

Theorem C14_spec_decides_connectivity : forall c a b, In a (spec_vertices c) -> In b (spec_vertices c) ->
  (spec_same c a b = true <-> conn (spec_edges c) a b).
Proof. exact spec_decides_connectivity. Qed.
Theorem C14_spec_graph : forall c a b,
  In (a, b) (spec_edges c) <->
  In a (spec_vertices c) /\ In b (spec_vertices c) /\ spec_edge (instance_methods c) a b = true.
Proof. exact spec_edges_iff. Qed.

Theorem C14_positions_all_reached : forall p, class_level p = false ->
  reached lcom_walk_fields 1 p [] = true /\ reached lcom_walk_fields 1 p [FValue] = true.
Proof. exact method_positions_reached. Qed.
Theorem C14_nested_positions_all_reached : forall p slots, class_level p = false ->
  reached_at lcom_walk_fields 1 p slots [] = true /\ reached_at lcom_walk_fields 1 p slots [FValue] = true.
Proof. exact method_positions_reached_at. Qed.

Theorem C14_access_collection_exact_partial : forall md,
  flat_map mention_vars (method_mentions md) = spec_attrs md /\
  flat_map mention_calls (method_mentions md) = spec_calls md /\
  is_class_or_static md = spec_excluded md.
Proof. intros md. exact (conj (vars_exact md) (conj (calls_exact md) (excluded_same md))). Qed.

(* a method name defined as instance method and later as static method *)
Definition w_mixed : class :=
  Class (nm "K") []
    [MMethod (Method (nm "a") [] [] None [Mention (KAttr (nm "self") (nm "x")) PBody]);
     MMethod (Method (nm "b") [] [] None [Mention (KAttr (nm "self") (nm "x")) PBody]);
     MMethod (Method (nm "c") [] [] None []);
     MMethod (Method (nm "a") [nm "staticmethod"] [] None [])].
Theorem C14_mixed_duplicate_refuted :
  l_groups (lcom_model lcom_default_options w_mixed) = [[nm "a"; nm "b"]; [nm "c"]] /\
  spec_groups w_mixed = [[nm "b"]; [nm "c"]].
Proof. vm_compute. split; reflexivity. Qed.

(* the hypotheses are satisfiable: a class where model and spec give two components *)
Definition ex_lcom : class :=
  Class (nm "K") []
    [MMethod (Method (nm "a") [] [] None [Mention (KAttr (nm "self") (nm "x")) PFString; Mention (KCall (nm "self") (nm "b")) PFinally]);
     MMethod (Method (nm "b") [] [] None [Mention (KAttr (nm "other") (nm "y")) PBody]);
     MMethod (Method (nm "c") [] [] None [Mention (KAttr (nm "self") (nm "y")) PNegOperand]);
     MMethod (Method (nm "d") [] [] None [Mention (KAttr (nm "self") (nm "y")) PWithItem]);
     MMethod (Method (nm "s") [nm "staticmethod"] [] None [Mention (KAttr (nm "self") (nm "x")) PBody])].
Example C14_example :
  l_lcom4 (lcom_model lcom_default_options ex_lcom) = 2%Z /\ lcom4_spec ex_lcom = 2%Z /\
  l_groups (lcom_model lcom_default_options ex_lcom) = spec_groups ex_lcom /\
  spec_groups ex_lcom = [[nm "a"; nm "b"]; [nm "c"; nm "d"]].
Proof. vm_compute. repeat split; reflexivity. Qed.

(* at most one instance method: LCOM4 = 1 *)
Theorem C14_single_method : forall o c,
  (List.length (fst (collect_methods (c_members c) [] 0%Z)) <= 1)%nat -> l_lcom4 (lcom_model o c) = 1%Z.
Proof. exact model_single_method. Qed.
Theorem C14_single_method_spec : forall c, (List.length (spec_vertices c) <= 1)%nat -> lcom4_spec c = 1%Z.
Proof. exact spec_single_method. Qed.
Theorem C14_count_is_number_of_groups : forall o c,
  (1 < List.length (fst (collect_methods (c_members c) [] 0%Z)))%nat ->
  l_lcom4 (lcom_model o c) = Z.of_nat (List.length (l_groups (lcom_model o c))).
Proof. exact model_count_is_groups. Qed.

Theorem C14_risk_table : forall o n,
  lcom_assess_risk o n = spec_risk (lo_low o) (lo_medium o) n /\
  (spec_risk (lo_low o) (lo_medium o) n = Low <-> (n <= lo_low o)%Z) /\
  (spec_risk (lo_low o) (lo_medium o) n = Medium <-> (lo_low o < n <= lo_medium o)%Z) /\
  (spec_risk (lo_low o) (lo_medium o) n = High <-> (lo_low o < n /\ lo_medium o < n)%Z).
Proof. exact lcom_risk_table. Qed.
Theorem C14_default_thresholds : lo_low lcom_default_options = 2%Z /\ lo_medium lcom_default_options = 5%Z.
Proof. exact lcom_default_thresholds. Qed.
(* the risk level is monotone: fewer components never give a higher level (any thresholds), and raising
   the thresholds never raises a level *)
Theorem C14_risk_monotone : forall o n n', (n <= n')%Z ->
  (risk_rank (lcom_assess_risk o n) <= risk_rank (lcom_assess_risk o n'))%Z.
Proof. exact lcom_risk_mono. Qed.
Theorem C14_risk_threshold_monotone : forall o o' n, (lo_low o <= lo_low o')%Z -> (lo_medium o <= lo_medium o')%Z ->
  (risk_rank (lcom_assess_risk o' n) <= risk_rank (lcom_assess_risk o n))%Z.
Proof. exact lcom_risk_threshold_mono. Qed.

Print Assumptions C14_union_find.
Print Assumptions C14_components.
Print Assumptions C14_spec_decides_connectivity.
Print Assumptions C14_spec_graph.
Print Assumptions C14_positions_all_reached.
Print Assumptions C14_nested_positions_all_reached.
Print Assumptions C14_access_collection_exact_partial.
Print Assumptions C14_mixed_duplicate_refuted.
Print Assumptions C14_single_method.
Print Assumptions C14_single_method_spec.
Print Assumptions C14_count_is_number_of_groups.
Print Assumptions C14_risk_table.
Print Assumptions C14_default_thresholds.
Print Assumptions C14_risk_monotone.
Print Assumptions C14_risk_threshold_monotone.
