(* C16 — A report is internally consistent and all formats say the same thing.
   Only the property theorems; each is closed by [exact] of a lemma proved in Report/*.v about the
   models Report/Summary.v, Report/Filters.v and Score/ScoreQ.v:assemble, which are tied to
   service/{complexity,dead_code,cbo,lcom,clone}_service.go, domain/dead_code.go and
   app/analyze_usecase.go:calculateSummary by Gen/ReportConst.v, Gen/CheckConst.v and the correspondence check.

   NOT modelled (decided by differential runs in harness/c16.py, labelled as a test in the evidence):
   encoding/json, yaml.v3, encoding/csv, html/template, i.e. "JSON = YAML as data", "CSV / text / HTML headline
   numbers = JSON" and "every format is written for every analysis result". *)
From Coq Require Import ZArith QArith List Bool Permutation Sorted.
From PV Require Import Gen.ReportConst Gen.CheckConst Score.ScoreQ Report.Summary Report.Filters
  Report.SummaryProofs Report.FiltersProofs Report.UnifiedProofs Tie.ReportTie Report.Formats Report.FormatsProofs.
Import ListNotations.
Open Scope Z_scope.

(* tie to the code: the filters and risk levels of Report/Filters.v agree with the decision tables the translator obtained by
   running filterFunctions / filterClasses / filterClonePairs / filterCloneGroups / calculateRiskLevel / assessRiskLevel of the
   current Go source (Gen/ReportTables.v) *)
Theorem C16_decision_tables : report_tables_agree = true /\ report_tables_nonempty = true.
Proof. exact report_tables_agree_ok. Qed.
Print Assumptions C16_decision_tables.

(* ---- summary = recomputation from the items, per section (all item lists, all lengths) *)
(* complexity: total, average, max, min, risk counts, distribution. The hypothesis is McCabe >= 0
   (the code starts the maximum at 0; see cx_max_starts_at_zero) *)
Theorem C16_complexity_summary_exact : forall fs files, Forall (fun f => 0 <= v_val f) fs ->
  cx_generate_summary fs files = vsummary_spec report_cx_bucket report_cx_nbuckets [] fs files.
Proof. exact cx_summary_exact_lemma. Qed.
Theorem C16_cbo_summary_exact : forall cs files,
  cbo_generate_summary cs files = vsummary_spec report_cbo_bucket report_cbo_nbuckets (top_values report_cbo_topn cs) cs files.
Proof. exact (class_summary_exact_gen report_cbo_bucket report_cbo_nbuckets report_cbo_topn). Qed.
Theorem C16_lcom_summary_exact : forall cs files,
  lcom_generate_summary cs files = vsummary_spec report_lcom_bucket report_lcom_nbuckets (top_values report_lcom_topn cs) cs files.
Proof. exact (class_summary_exact_gen report_lcom_bucket report_lcom_nbuckets report_lcom_topn). Qed.
(* the spec's extrema are the extrema: attained and bounding *)
Theorem C16_max_min_meaning : forall l, l <> [] ->
  (In (max_of l) l /\ Forall (fun x => x <= max_of l) l) /\ (In (min_of l) l /\ Forall (fun x => min_of l <= x) l).
Proof. exact (fun l H => conj (max_of_spec l H) (min_of_spec l H)). Qed.
(* top-N lists hold the N largest values, largest first *)
Theorem C16_top_lists : forall n cs, top_spec n (map v_val cs) (top_values n cs).
Proof. exact top_values_spec. Qed.
(* dead code: totals, severity counts, reason counts, block totals, ratio — for items whose per-function
   severity counts are the counts of their own findings ... *)
Theorem C16_deadcode_summary_exact : forall reasons files processed, Forall dfile_wf files ->
  dc_generate_summary reasons files processed = dc_summary_spec reasons files processed.
Proof. exact deadcode_summary_exact_lemma. Qed.
(* ... which is what analyzeFile (as repaired) followed by filterFiles produces *)
Theorem C16_deadcode_pipeline_wf : forall (inputs : list (list dfunc * Z)) m,
  Forall dfile_wf (filter_files (map (fun i => analyze_file true (fst i) (snd i) m) inputs) m).
Proof.
  exact (fun inputs m => filter_files_wf _ m (proj2 (Forall_forall _ _) (fun f H =>
    match proj1 (in_map_iff _ _ _) H with ex_intro _ i (conj E _) => eq_ind _ dfile_wf (analyze_file_wf (fst i) (snd i) m) _ E end))).
Qed.
(* before the fix (severity counted before the severity filter) the statement was false:
   one function with a critical and a warning finding, minimum severity critical *)
Theorem C16_deadcode_counts_prefix_refuted :
  let files := filter_files [analyze_file false [prefix_witness_raw] 2 SCrit] SCrit in
  ds_warn (dc_generate_summary [] files 1) = 1 /\ ds_warn (dc_summary_spec [] files 1) = 0 /\
  ds_total_findings (dc_generate_summary [] files 1) = 1.
Proof. exact deadcode_counts_prefix_refuted_lemma. Qed.
Theorem C16_clone_stats_exact : forall n pairs groups, create_statistics n pairs groups = clone_stats_spec n pairs groups.
Proof. exact clone_stats_exact_lemma. Qed.

(* ---- distributions: the bucket counts sum to the total; a value lies in the interval its label denotes and in no other *)
Theorem C16_distribution_partitions : forall fs files,
  sumZ (s_dist (vsummary_spec report_cx_bucket report_cx_nbuckets [] fs files)) = zlen fs /\
  sumZ (s_dist (vsummary_spec report_cbo_bucket report_cbo_nbuckets [] fs files)) = zlen fs /\
  sumZ (s_dist (vsummary_spec report_lcom_bucket report_lcom_nbuckets [] fs files)) = zlen fs.
Proof.
  exact (fun fs files => conj
    (dist_sums_to_total (fun f => report_cx_bucket (v_val f)) _ fs (proj2 (Forall_forall _ _) (fun f _ => cx_bucket_bound (v_val f)))) (conj
    (dist_sums_to_total (fun f => report_cbo_bucket (v_val f)) _ fs (proj2 (Forall_forall _ _) (fun f _ => cbo_bucket_bound (v_val f))))
    (dist_sums_to_total (fun f => report_lcom_bucket (v_val f)) _ fs (proj2 (Forall_forall _ _) (fun f _ => lcom_bucket_bound (v_val f)))))).
Qed.
Theorem C16_bucket_labels : bucket_ok report_cx_bucket report_cx_ranges 1 /\ bucket_ok report_cbo_bucket report_cbo_ranges 0 /\
                            bucket_ok report_lcom_bucket report_lcom_ranges 1.
Proof. exact (conj cx_bucket_ok (conj cbo_bucket_ok lcom_bucket_ok)). Qed.

(* ---- risk *)
Theorem C16_risk_counts_sum : forall fs, Forall (fun f => v_risk f <> ROther) fs ->
  count (fun f => risk_eqb (v_risk f) RLow) fs + count (fun f => risk_eqb (v_risk f) RMedium) fs +
  count (fun f => risk_eqb (v_risk f) RHigh) fs = zlen fs.
Proof. exact risk_counts_sum_lemma. Qed.
Theorem C16_risk_matches_thresholds : forall low medium x,
  (let r := cx_risk low medium x in
   (r = RLow <-> x <= low) /\ (r = RMedium <-> low < x <= medium) /\ (r = RHigh <-> low < x /\ medium < x) /\ r <> ROther) /\
  (let r := cbo_risk low medium x in
   (r = RLow <-> x <= low) /\ (r = RMedium <-> low < x <= medium) /\ (r = RHigh <-> low < x /\ medium < x) /\ r <> ROther) /\
  (let r := lcom_risk low medium x in
   (r = RLow <-> x <= low) /\ (r = RMedium <-> low < x <= medium) /\ (r = RHigh <-> low < x /\ medium < x) /\ r <> ROther).
Proof. exact (fun low medium x => conj (risk_of_le low medium x) (conj (risk_of_le low medium x) (risk_of_le low medium x))). Qed.

(* ---- filters: output = the input items satisfying the echoed filter, in order (sound and complete) *)
Theorem C16_filters_sound_complete_complexity : forall fs min, filter_functions fs min = filter (fun f => min <=? v_val f) fs.
Proof. exact filter_functions_is_filter. Qed.
Theorem C16_filters_sound_complete_cbo : forall cs min max zeros,
  cbo_filter_classes cs min max zeros =
  filter (fun c => (min <=? v_val c) && ((max <=? 0) || (v_val c <=? max)) && (zeros || negb (v_val c =? 0))) cs.
Proof. exact cbo_filter_is_filter. Qed.
Theorem C16_filters_sound_complete_lcom : forall cs min max,
  lcom_filter_classes cs min max = filter (fun c => (min <=? v_val c) && ((max <=? 0) || (v_val c <=? max))) cs.
Proof. exact lcom_filter_is_filter. Qed.
Theorem C16_filters_sound_complete_clones : forall ps lo hi types p,
  (In p (filter_clone_pairs ps lo hi types) <-> In p ps /\ (lo <= p_sim p)%Q /\ (p_sim p <= hi)%Q /\ In (p_type p) types) /\
  (In p (filter_clone_groups ps lo hi types) <-> In p ps /\ (lo <= p_sim p)%Q /\ (p_sim p <= hi)%Q /\ In (p_type p) types).
Proof. exact (fun ps lo hi types p => conj (clone_filter_pairs_in ps lo hi types p) (clone_filter_groups_in ps lo hi types p)). Qed.
(* minimum severity: order critical > warning > info; a reported function carries exactly the findings at or above it *)
Theorem C16_filters_sound_complete_severity :
  (sev_level SOther < sev_level SInfo < sev_level SWarn /\ sev_level SWarn < sev_level SCrit) /\
  (forall s m, is_at_least s m = true <-> sev_level m <= sev_level s) /\
  (forall raw m f, analyze_function true raw m = Some f ->
     fn_findings f = filter (fun x => is_at_least (fd_sev x) m) (fn_findings raw)) /\
  (forall raw m, analyze_function true raw m = None -> filter (fun x => is_at_least (fd_sev x) m) (fn_findings raw) = []).
Proof.
  exact (conj severity_order (conj is_at_least_level (conj (analyze_function_findings true) (analyze_function_none true)))).
Qed.

(* ---- the unified summary is a projection of the section summaries, hence of the items of the same report *)
Theorem C16_unified_summary_is_projection : forall reasons sel r,
  Forall (fun f => 0 <= v_val f) (i_cx r) -> Forall dfile_wf (i_dc r) ->
  let s := fst (unified sel (sections_of reasons r)) in
  let e := snd (unified sel (sections_of reasons r)) in
  total_files s = sel_if (sel_cx sel) (i_cx_files r) (sel_if (sel_dead sel) (i_dc_processed r) 0) /\
  average_complexity s = sel_if (sel_cx sel) (mean (i_cx r)) 0%Q /\
  high_complexity_count s = sel_if (sel_cx sel) (high (i_cx r)) 0 /\
  u_total_functions e = sel_if (sel_cx sel) (zlen (i_cx r)) 0 /\
  dead_code_count s = sel_if (sel_dead sel) (zlen (all_findings (i_dc r))) 0 /\
  critical_dead s = sel_if (sel_dead sel) (nsev SCrit (i_dc r)) 0 /\
  warning_dead s = sel_if (sel_dead sel) (nsev SWarn (i_dc r)) 0 /\
  info_dead s = sel_if (sel_dead sel) (nsev SInfo (i_dc r)) 0 /\
  u_total_clones e = sel_if (sel_clone sel) (i_nclones r) 0 /\
  u_clone_pairs e = sel_if (sel_clone sel) (zlen (i_pairs r)) 0 /\
  u_clone_groups e = sel_if (sel_clone sel) (zlen (i_groups r)) 0 /\
  code_duplication s = sel_if (sel_clone sel) (code_duplication_of (i_lines r) (zlen (i_groups r))) 0%Q /\
  cbo_classes s = sel_if (sel_cbo sel) (zlen (i_cbo r)) 0 /\
  high_coupling s = sel_if (sel_cbo sel) (high (i_cbo r)) 0 /\
  medium_coupling s = sel_if (sel_cbo sel) (medium (i_cbo r)) 0 /\
  u_avg_coupling e = sel_if (sel_cbo sel) (mean (i_cbo r)) 0%Q /\
  lcom_classes s = sel_if (sel_lcom sel) (zlen (i_lcom r)) 0 /\
  high_lcom s = sel_if (sel_lcom sel) (high (i_lcom r)) 0 /\
  medium_lcom s = sel_if (sel_lcom sel) (medium (i_lcom r)) 0 /\
  u_avg_lcom e = sel_if (sel_lcom sel) (mean (i_lcom r)) 0%Q.
Proof. exact unified_projection. Qed.

(* ---- the output format flags of `pyscn analyze` (Report/Formats.v; was finding C16-G1: two format flags gave a warning,
   no report and exit status 0).  The model of determineOutputFormat agrees with the function run on all sixteen settings *)
Theorem C16_format_flags_table : format_table_agrees = true.
Proof. exact format_table_agrees_ok. Qed.
(* two or more format flags: exit status 1, before any analysis, nothing written *)
Theorem C16_conflicting_format_flags_rejected : forall f e, (2 <= format_count f)%nat ->
  run_analyze f e = Build_outcome true false None.
Proof. exact conflicting_flags_rejected. Qed.
(* at most one: the analyses run and one report is written, in that format (HTML without a flag) *)
Theorem C16_single_format_written : forall f e, (format_count f <= 1)%nat ->
  exists x, run_analyze f e = Build_outcome e true (Some x) /\
            ((format_count f = 0%nat /\ x = FHtml) \/
             (format_count f = 1%nat /\ match x with FHtml => ff_html f | FJson => ff_json f | FCsv => ff_csv f | FYaml => ff_yaml f end = true)).
Proof.
  exact (fun f e H => match single_format_written f e H with
                      | ex_intro _ x (conj R D) => ex_intro _ x (conj R (determine_some f x D)) end).
Qed.
(* a run that exits 0 has written its report *)
Theorem C16_no_success_without_report : forall f,
  oc_fails (run_analyze f false) = false -> oc_written (run_analyze f false) <> None.
Proof. exact no_silent_success. Qed.

(* the hypotheses are satisfiable: a report with items in every section *)
Example C16_example :
  let f := mkfn_example in
  Forall dfile_wf [analyze_file true [f] 3 SWarn] /\
  ds_total_findings (dc_generate_summary [] [analyze_file true [f] 3 SWarn] 1) = 2.
Proof. vm_compute. split; [repeat constructor|reflexivity]. Qed.

Print Assumptions C16_complexity_summary_exact.
Print Assumptions C16_cbo_summary_exact.
Print Assumptions C16_lcom_summary_exact.
Print Assumptions C16_max_min_meaning.
Print Assumptions C16_top_lists.
Print Assumptions C16_deadcode_summary_exact.
Print Assumptions C16_deadcode_pipeline_wf.
Print Assumptions C16_deadcode_counts_prefix_refuted.
Print Assumptions C16_clone_stats_exact.
Print Assumptions C16_distribution_partitions.
Print Assumptions C16_bucket_labels.
Print Assumptions C16_risk_counts_sum.
Print Assumptions C16_risk_matches_thresholds.
Print Assumptions C16_filters_sound_complete_complexity.
Print Assumptions C16_filters_sound_complete_cbo.
Print Assumptions C16_filters_sound_complete_lcom.
Print Assumptions C16_filters_sound_complete_clones.
Print Assumptions C16_filters_sound_complete_severity.
Print Assumptions C16_unified_summary_is_projection.
Print Assumptions C16_format_flags_table.
Print Assumptions C16_conflicting_format_flags_rejected.
Print Assumptions C16_single_format_written.
Print Assumptions C16_no_success_without_report.
