(* C19 — the check gate fails exactly when a gated violation exists.
   Theorems only; every proof is [exact] of a lemma proved in Cli/Gate*.v about the model Cli/Gate.v of
   cmd/pyscn/check.go:runCheck (tied to the code by Gen/CheckConst.v — flag defaults, request literals,
   comparison operators, merge sentinels, severity tables, exit code — and by the CLI correspondence check).

   Domain assumptions of the main theorem: cyclomatic complexities are >= 1 (results_wf) and the cycle limit
   in force is not negative (0 <= eff_max_cycles); C19_negative_max_cycles shows what happens below 0. *)
From Coq Require Import ZArith List.
From PV Require Import Gen.DomainConst Gen.CheckConst Cli.Gate Cli.GateProofs Cli.GateMono Cli.GateLines Cli.GateRun Cli.GateSpecB Tie.GateTie.
From PV Require Import Cli.GateRoots Cli.GateRootsProofs Cli.FileSel Cli.FileResolve Cli.FileResolveProofs.
Import ListNotations.
Open Scope Z_scope.

(* tie to the code: check_complexity and run_check of the model agree with the decision tables the translator obtained by
   running checkComplexity / runCheck of the current cmd/pyscn/check.go with the analyses stubbed out (Gen/CheckTables.v) *)
Theorem C19_decision_tables : gate_tables_agree = true /\ gate_tables_nonempty = true.
Proof. exact gate_tables_agree_ok. Qed.
Print Assumptions C19_decision_tables.

(* exit status 0 <-> --select valid /\ (complexity selected -> it ran /\ no function exceeds the effective maximum)
   /\ (dead code selected -> it ran /\ (--allow-dead-code \/ no finding at the gate severity))
   /\ (deps selected -> it ran /\ (--allow-circular-deps \/ cycles <= max cycles))
   /\ (mockdata selected -> it ran /\ no finding at warning level or above) *)
Theorem gate_exact : forall i, results_wf (i_res i) -> 0 <= eff_max_cycles i ->
  (o_exit (run_check i) = 0 <-> gate_spec i).
Proof. exact gate_exact_lemma. Qed.

(* the full text also says "non-zero when an analysis could not run"; read literally that includes the clone
   analysis, and then the statement
     forall i, results_wf (i_res i) -> 0 <= eff_max_cycles i -> (o_exit (run_check i) = 0 <-> gate_spec_literal i)
   is false of the code: a failed clone analysis is reported and ignored (check.go:183-188) *)
Theorem gate_exact_literal_refuted :
  exists i, results_wf (i_res i) /\ 0 <= eff_max_cycles i /\ sel_clones (i_flags i) /\ r_clone_err (i_res i) = true /\
            o_exit (run_check i) = 0 /\ ~ gate_spec_literal i.
Proof. exact clone_error_passes_lemma. Qed.

(* ... and holds whenever the clone analysis, if selected, ran *)
Theorem gate_exact_literal_partial : forall i, results_wf (i_res i) -> 0 <= eff_max_cycles i ->
  (sel_clones (i_flags i) -> r_clone_err (i_res i) = false) ->
  (o_exit (run_check i) = 0 <-> gate_spec_literal i).
Proof. exact gate_exact_literal_lemma. Qed.

(* outside the domain: with a negative --max-cycles zero cycles "exceed" the limit but add zero issues *)
Theorem C19_negative_max_cycles :
  exists i, results_wf (i_res i) /\ eff_max_cycles i < 0 /\ o_exit (run_check i) = 0 /\ ~ gate_spec i.
Proof. exact negative_max_cycles_lemma. Qed.

(* the exit status is 0 or the failure code of main.go, which is not 0 *)
Theorem exit_zero_or_failure : forall i, o_exit (run_check i) = 0 \/ o_exit (run_check i) = check_exit_failure.
Proof. exact GateMono.exit_zero_or_failure. Qed.

(* the issueCount arithmetic of runCheck *)
Theorem issue_count : forall i, select_invalid (i_flags i) = false -> o_issues (run_check i) = total_issues i.
Proof. exact issue_count_formula. Qed.

(* clone findings (and clone failures) change neither the exit status nor the issue count *)
Theorem clones_never_fail : forall i cl ce,
  o_exit (run_check (set_clones i cl ce)) = o_exit (run_check i) /\
  o_issues (run_check (set_clones i cl ce)) = o_issues (run_check i).
Proof. exact clones_never_fail_lemma. Qed.

(* the printed per-violation lines are exactly the violations *)
Theorem issue_lines_match_complexity : forall i,
  results_wf (i_res i) -> ~ In SInvalid (f_select (i_flags i)) -> f_quiet (i_flags i) = false ->
  forall id cx m,
    In (LComplex id cx m) (o_lines (run_check i)) <->
    (sel_cx (i_flags i) /\ r_cx_err (i_res i) = false /\ In (id, cx) (r_functions (i_res i)) /\
     eff_max_complexity i < cx /\ m = eff_max_complexity i).
Proof. exact complexity_lines_lemma. Qed.

Theorem issue_lines_match_dead_code : forall i,
  ~ In SInvalid (f_select (i_flags i)) -> f_quiet (i_flags i) = false ->
  forall id lv,
    In (LDead id lv) (o_lines (run_check i)) <->
    (sel_dead (i_flags i) /\ r_dead_err (i_res i) = false /\
     exists sv, In (id, sv) (r_findings (i_res i)) /\ lv = dead_level sv /\ dead_level gate_severity <= lv).
Proof. exact dead_lines_lemma. Qed.

Theorem issue_lines_match_cycles : forall i,
  ~ In SInvalid (f_select (i_flags i)) -> f_quiet (i_flags i) = false ->
  forall id,
    In (LCycle id) (o_lines (run_check i)) <->
    (sel_deps (i_flags i) /\ r_deps_err (i_res i) = false /\ In (id, true) (r_cycles (i_res i))).
Proof. exact cycle_lines_lemma. Qed.

Theorem issue_lines_match_clones : forall i,
  ~ In SInvalid (f_select (i_flags i)) -> f_quiet (i_flags i) = false ->
  forall id,
    In (LClone id) (o_lines (run_check i)) <->
    (sel_clones (i_flags i) /\ r_clone_err (i_res i) = false /\ In id (r_clones (i_res i))).
Proof. exact clone_lines_lemma. Qed.

Theorem quiet_prints_no_lines : forall i, f_quiet (i_flags i) = true -> o_lines (run_check i) = [].
Proof. exact quiet_no_lines_lemma. Qed.

Theorem quiet_same_exit : forall i b, o_exit (run_check (set_flags i (with_quiet (i_flags i) b))) = o_exit (run_check i).
Proof. exact quiet_same_exit_lemma. Qed.

(* monotonicity: loosening a threshold or allowing a class never turns pass into fail *)
Theorem raise_max_complexity_keeps_pass : forall i m m',
  results_wf (i_res i) -> 0 <= eff_max_cycles i -> m <= m' ->
  o_exit (run_check (set_flags i (with_max_complexity (i_flags i) (Some m)))) = 0 ->
  o_exit (run_check (set_flags i (with_max_complexity (i_flags i) (Some m')))) = 0.
Proof. exact raise_max_complexity_lemma. Qed.

Theorem raise_max_cycles_keeps_pass : forall i m m',
  results_wf (i_res i) -> 0 <= m -> m <= m' ->
  o_exit (run_check (set_flags i (with_max_cycles (i_flags i) (Some m)))) = 0 ->
  o_exit (run_check (set_flags i (with_max_cycles (i_flags i) (Some m')))) = 0.
Proof. exact raise_max_cycles_lemma. Qed.

Theorem allow_dead_code_keeps_pass : forall i,
  results_wf (i_res i) -> 0 <= eff_max_cycles i -> o_exit (run_check i) = 0 ->
  o_exit (run_check (set_flags i (with_allow_dead (i_flags i) true))) = 0.
Proof. exact allow_dead_code_lemma. Qed.

Theorem allow_circular_deps_keeps_pass : forall i,
  results_wf (i_res i) -> 0 <= eff_max_cycles i -> o_exit (run_check i) = 0 ->
  o_exit (run_check (set_flags i (with_allow_circular (i_flags i) true))) = 0.
Proof. exact allow_circular_deps_lemma. Qed.

(* configuration: a config file found from the analysed path decides, whatever the working directory holds (F16) *)
Theorem target_config_wins : forall i c cwd',
  i_cfg_target i = Some c -> run_check (set_cwd_config i cwd') = run_check i.
Proof. exact target_config_wins_lemma. Qed.

(* of the config keys only [complexity] max_complexity can move the verdict: [dead_code] min_severity cannot lower
   the gate below critical and [output] min_complexity cannot hide a function from it *)
Theorem gate_only_max_complexity_key : forall i j,
  results_wf (i_res i) -> 0 <= eff_max_cycles i ->
  i_flags i = i_flags j -> i_res i = i_res j -> cfg_gate_equiv (spec_config i) (spec_config j) ->
  o_exit (run_check i) = o_exit (run_check j).
Proof. exact gate_only_max_complexity_key_lemma. Qed.

(* several targets, dependency step (cmd/pyscn/check.go checkCircularDependencies; was finding C19-G1: only the first
   target was looked at).  Every target lies in (or is) one of the project roots the cycles are looked for in ... *)
Theorem deps_every_target_covered : forall cwd ts t, In t ts ->
  exists r, In r (dependency_project_roots cwd ts) /\ is_prefix r t = true.
Proof. exact roots_cover. Qed.

(* ... the roots are targets ... *)
Theorem deps_roots_are_targets : forall cwd ts r, ts <> [] -> In r (dependency_project_roots cwd ts) -> In r ts.
Proof. exact roots_are_targets. Qed.

(* ... and no root is named twice or lies inside another root: no cycle is counted through two roots *)
Theorem deps_roots_disjoint : forall cwd ts,
  NoDup (dependency_project_roots cwd ts) /\
  forall r r', In r (dependency_project_roots cwd ts) -> In r' (dependency_project_roots cwd ts) ->
               is_prefix r r' = true -> r = r'.
Proof. exact roots_antichain. Qed.

(* the step over the roots is the dependency step of the model above on the merged results: the cycles of all roots
   together, an error as soon as one root cannot be analysed *)
Theorem deps_roots_merged : forall f rs, existsb r_deps_err rs = false ->
  match check_circular f (merge_deps rs) with
  | Some (n, ls) => check_circular_roots f rs = (Some n, ls)
  | None => False
  end.
Proof. exact check_circular_roots_merged. Qed.

Theorem deps_roots_failed : forall f rs, existsb r_deps_err rs = true ->
  fst (check_circular_roots f rs) = None /\ check_circular f (merge_deps rs) = None.
Proof. exact check_circular_roots_failed. Qed.

(* several targets, every analysis (app.ResolveFilePaths; was finding C19-G2: a plain file named twice among plain-file
   targets was analysed once per mention): whichever way the targets are turned into files, each file is there once *)
Theorem targets_each_file_once : forall w cwd ts rec inc exc v out,
  resolve_file_paths w cwd ts rec inc exc v = Some out ->
  NoDup (map (fun p => segs (abs cwd p)) out).
Proof. exact resolve_each_once. Qed.

(* the boolean specification the harness evaluates is gate_spec *)
Theorem gate_spec_b_correct : forall i, gate_spec_b i = true <-> gate_spec i.
Proof. exact gate_spec_b_iff. Qed.

(* the hypotheses are satisfiable and both verdicts occur *)
Example gate_examples :
  (results_wf (i_res example_pass) /\ 0 <= eff_max_cycles example_pass /\ o_exit (run_check example_pass) = 0) /\
  (results_wf (i_res example_fail) /\ 0 <= eff_max_cycles example_fail /\ o_exit (run_check example_fail) = 1).
Proof. exact examples_lemma. Qed.

Print Assumptions gate_exact.
Print Assumptions gate_exact_literal_refuted.
Print Assumptions gate_exact_literal_partial.
Print Assumptions C19_negative_max_cycles.
Print Assumptions exit_zero_or_failure.
Print Assumptions issue_count.
Print Assumptions clones_never_fail.
Print Assumptions issue_lines_match_complexity.
Print Assumptions issue_lines_match_dead_code.
Print Assumptions issue_lines_match_cycles.
Print Assumptions issue_lines_match_clones.
Print Assumptions quiet_prints_no_lines.
Print Assumptions quiet_same_exit.
Print Assumptions raise_max_complexity_keeps_pass.
Print Assumptions raise_max_cycles_keeps_pass.
Print Assumptions allow_dead_code_keeps_pass.
Print Assumptions allow_circular_deps_keeps_pass.
Print Assumptions target_config_wins.
Print Assumptions gate_only_max_complexity_key.
Print Assumptions gate_spec_b_correct.
Print Assumptions gate_examples.
Print Assumptions deps_every_target_covered.
Print Assumptions deps_roots_are_targets.
Print Assumptions deps_roots_disjoint.
Print Assumptions deps_roots_merged.
Print Assumptions deps_roots_failed.
Print Assumptions targets_each_file_once.
