(* C08 — Clone reports: verbatim copies are found and every reported pair is justified.
   Only the property theorems; each is closed by [exact] of a lemma proved in Clone/*.v about the
   model Clone/Pairs.v (tied to clone_detector.go / clone_service.go / domain/clone.go by
   Gen/CloneConst.v and the correspondence check harness/c08.py).

   The similarity function (APTED tree edit distance, property C07) is a Section variable; the only
   facts used about it are the hypotheses below, each of which the check tests on every fragment pair
   of every run. *)
From Coq Require Import ZArith QArith List Permutation.
From PV Require Import Gen.DomainConst Gen.CloneConst Clone.Pairs Clone.PairsFacts Clone.PairsProofs Clone.PairsBatch Clone.PairsOrder Clone.PairsWitness Clone.Walk Clone.WalkFacts Tie.CloneTie.
Import ListNotations.
Open Scope Z_scope.

(* tie to the code: classify / overlapping / should_include of the model agree with the decision tables the translator
   evaluated from classifyCloneType / isOverlappingLocation / shouldIncludeFragment of the current Go source *)
Theorem C08_decision_tables : clone_tables_agree = true /\ clone_tables_nonempty = true.
Proof. exact clone_tables_agree_ok. Qed.
Print Assumptions C08_decision_tables.

(* which nodes are fragments at all (the candidate lists [cands] of the theorems below): every function, class or compound
   statement in the tree that ConvertAST builds from a file for the comparison - through Children, Body, Orelse, Handlers and
   Finalbody, i.e. also a definition inside an except handler or a finally block - is listed by the fragment walk
   (extractFragmentsRecursive and its WithSource twin), and the walk lists only such nodes. The lists followed by the walk
   and by ConvertAST are read from the Go source (Gen.CloneConst). Finding F36 (repaired): the walk did not follow
   Handlers and Finalbody. *)
Theorem C08_candidates_complete : forall root l sub, reach clone_tree_fields root (WNode l true sub) ->
  In l (walk clone_walk_fields root) /\ In l (walk clone_walk_src_fields root).
Proof. exact candidates_complete. Qed.
Theorem C08_candidates_sound : forall root l, In l (walk clone_walk_fields root) ->
  exists sub, reach clone_walk_fields root (WNode l true sub).
Proof. exact candidates_sound. Qed.
Example C08_candidates_example :
  walk clone_walk_fields w_try = [(1, 20); (4, 10); (12, 20)] /\ walk [0; 1; 2]%nat w_try = [(1, 20)].
Proof. exact handler_finally_example. Qed.
Print Assumptions C08_candidates_complete.
Print Assumptions C08_candidates_sound.

Section C08.
Variable sim : frag -> frag -> Q.        (* APTEDAnalyzer.ComputeSimilarity on the fragments' trees *)
Variable dist : frag -> frag -> Q.       (* APTEDAnalyzer.ComputeDistance *)
Variable gate : frag -> frag -> bool.    (* CloneClassifier.ClassifyClone <> nil *)
Variable sig : Z -> list N -> list N.    (* MinHasher.ComputeSignature *)
Variable bandhash : list N -> N.         (* FNV-64a of a band slice *)

(* every reported pair: both fragments are extracted candidates, similarity/distance are the tree
   comparison's, similarity is at or above the reporting threshold (SimilarityThreshold, or Type4 when
   unset), above Type4 and inside the service filter range; the type is the band of the similarity
   and is enabled; both fragments have the minimum size; they never share a line of one file. *)
Theorem C08_justified : forall c mode auto cands p, validate c = true ->
  In p (report sim dist gate sig bandhash c mode auto cands) ->
  let a := p_a p in let b := p_b p in
  In a cands /\ In b cands /\
  p_sim p = sim a b /\ p_dist p = dist a b /\
  (effective_threshold c <= p_sim p)%Q /\ (c_t4 c <= p_sim p)%Q /\
  (c_min_sim c <= p_sim p <= c_max_sim c)%Q /\
  (0 < c_max_dist c -> p_dist p <= c_max_dist c)%Q /\
  in_band c (p_sim p) (p_type p) /\ In (p_type p) (c_enabled c) /\
  (c_min_nodes c <= f_size a /\ c_min_lines c <= f_lines a) /\
  (c_min_nodes c <= f_size b /\ c_min_lines c <= f_lines b) /\
  ~ overlap_spec a b.
Proof. exact (report_justified sim dist gate sig bandhash). Qed.

(* the band of a similarity is unique: "type matches its similarity band" determines the type *)
Theorem C08_band_unique : forall c s t t', validate c = true -> in_band c s t -> in_band c s t' -> t = t'.
Proof. intros c s t t' V. exact (in_band_unique c s t t' (validate_spec c V)). Qed.

(* ---- hypotheses about the similarity function (the trusted link to C07), each tested by the check
   on every fragment pair of every run, in both orientations ---- *)
Hypothesis sim_sym : forall a b, sim a b = sim b a.
Hypothesis dist_sym : forall a b, dist a b = dist b a.
Hypothesis gate_sym : forall a b, gate a b = gate b a.
Hypothesis sim_same : forall a b, f_tree a = f_tree b -> sim a b = 1%Q.
Hypothesis dist_same : forall a b, f_tree a = f_tree b -> dist a b = 0%Q.
Hypothesis gate_same : forall a b, f_tree a = f_tree b -> gate a b = true.
Hypothesis sig_len : forall h feats, length (sig h feats) = Z.to_nat h.

(* FULL STATEMENT (false on the current tree, see C08_verbatim_refuted):
     forall c mode auto cands a b, validate c = true -> NoDup cands -> In a cands -> In b cands -> a <> b ->
       verbatim a b -> overlapping a b = false -> should_include c a = true -> should_include c b = true ->
       no_truncation c (extract c cands) -> (c_min_sim c <= 1 <= c_max_sim c) -> In Type1 (c_enabled c) ->
       In_sym (Build_cpair a b 1 0 Type1) (report c mode auto cands).
   PROVED: the same with the extra hypothesis [line_filter_passes a b]
   (2*|lines a - lines b| <= lines a or <= lines b), for every detection path the service can take
   (exhaustive, batched, LSH with any bands/rows/hashes/threshold). *)
Theorem C08_verbatim_partial : forall c mode auto cands a b, validate c = true -> NoDup cands ->
  In a cands -> In b cands -> a <> b -> verbatim a b -> overlapping a b = false ->
  should_include c a = true -> should_include c b = true -> line_filter_passes a b ->
  no_truncation sim dist gate c (extract c cands) ->
  (c_min_sim c <= 1 <= c_max_sim c)%Q -> In Type1 (c_enabled c) ->
  In_sym (Build_cpair a b 1 0 Type1) (report sim dist gate sig bandhash c mode auto cands).
Proof. exact (report_verbatim sim dist gate sig bandhash sig_len sim_sym dist_sym gate_sym sim_same dist_same gate_same). Qed.

(* the reported set does not depend on the order of the files/fragments nor on which fragment of a
   pair comes first (stated without truncation: with more than MaxClonePairs qualifying pairs the
   unstable sort decides which pairs survive) *)
Theorem C08_order : forall c mode auto cands cands', validate c = true ->
  NoDup cands -> Permutation cands cands' ->
  no_truncation sim dist gate c (extract c cands) -> no_truncation sim dist gate c (extract c cands') ->
  same_pair_set (report sim dist gate sig bandhash c mode auto cands) (report sim dist gate sig bandhash c mode auto cands').
Proof. exact (report_order sim dist gate sig bandhash sim_sym dist_sym gate_sym). Qed.
End C08.

Print Assumptions C08_justified.
Print Assumptions C08_band_unique.

(* the full verbatim statement is false: a copy whose layout changes the line count from 10 to 27 is
   not reported although every other hypothesis holds (finding F19, replayed on the binary by the check) *)
Theorem C08_verbatim_refuted :
  exists c cands a b, validate c = true /\ NoDup cands /\ In a cands /\ In b cands /\ a <> b /\
    verbatim a b /\ overlapping a b = false /\ should_include c a = true /\ should_include c b = true /\
    no_truncation w_sim w_dist w_gate c (extract c cands) /\
    (c_min_sim c <= 1 <= c_max_sim c)%Q /\ In Type1 (c_enabled c) /\
    report w_sim w_dist w_gate w_sig w_bandhash c 2 0 cands = [].
Proof. exact verbatim_refuted. Qed.

(* the hypotheses are satisfiable: a similarity function with all assumed properties, and a copy
   with 4 extra lines that is reported as (1, 0, Type1) *)
Example C08_hypotheses_satisfiable :
  (forall a b, w_sim a b = w_sim b a) /\ (forall a b, w_dist a b = w_dist b a) /\ (forall a b, w_gate a b = w_gate b a) /\
  (forall a b, f_tree a = f_tree b -> w_sim a b = 1%Q) /\ (forall a b, f_tree a = f_tree b -> w_dist a b = 0%Q) /\
  (forall a b, f_tree a = f_tree b -> w_gate a b = true) /\ (forall h feats, length (w_sig h feats) = Z.to_nat h).
Proof. exact w_hyps. Qed.
Example C08_verbatim_example :
  report w_sim w_dist w_gate w_sig w_bandhash w_cfg 2 0 [w_a; w_b'] = [Build_cpair w_a w_b' 1 0 Type1] /\
  line_filter_passes w_a w_b' /\ ~ line_filter_passes w_a w_b.
Proof. exact verbatim_example. Qed.

Print Assumptions C08_verbatim_partial.
Print Assumptions C08_order.
Print Assumptions C08_verbatim_refuted.
