(* C01 — Dead-code soundness: nothing that can execute is ever reported dead.

   Model: Cfg/Flow.v (which statements cfg_builder.go + the depth-first walk consider reachable),
   semantics: Py/PySem.v (CPython control flow; every choice of condition values, raising calls,
   matching handlers, swallowing context managers and iterator lengths is an oracle).
   For every function body, every oracle and every fuel: a statement whose marker executes is
   marked reachable, hence is not among the statements the model reports dead.  The harness ties
   (a) Flow.v to pyscn (reported dead ranges = lines of the model's dead statements) and
   (b) PySem.v to CPython (same traces under the same oracles) on generated programs each run.

   Link between the abstraction Cfg/Flow.v and the graph-level model Cfg/Builder.v (blocks, typed edges, loop and
   exception stacks, DFS, findings):
   - PROVED FOR ALL BODIES (no size bound): same dead statements (C01_flow_agrees_with_builder,
     C01_flow_dead_iff_unreachable) and every reported line range contains only dead statements
     (C01_ranges_cover_only_dead, bodies whose ids are source-order line numbers);
   - the complexity component of [check_one] is now also proved for all bodies (Props/C03.v:
     C03_builder_complexity_agrees, C03_check_one_all; Cfg/BuilderReg.v, Cfg/BuilderCx.v); the two bounded theorems
     (<= 4 statement nodes, vm_compute) are kept as regression checks. *)
From Coq Require Import NArith List.
From PV Require Import Py.PyAST Py.PySem Cfg.Flow Cfg.FlowSound Cfg.Builder Cfg.BuilderBounded Cfg.BuilderAgree Cfg.BuilderRanges.

Theorem C01_executed_is_marked_reachable :
  forall body fuel o out t, run fuel o body = (out, t) -> forall k, In k t -> In (k, true) (fn_marks body).
Proof. exact flow_sound. Qed.

Theorem C01_sound :
  forall body fuel o out t, NoDup (map fst (fn_marks body)) ->
  run fuel o body = (out, t) -> forall k, In k t -> ~ In k (dead_ids body).
Proof. exact executed_not_dead. Qed.

(* holds for every definition of a module at any depth, each analysed as its own function *)
Theorem C01_sound_every_def :
  forall m qn k0 body, In (qn, k0, body) (module_defs m) ->
  forall fuel o out t, NoDup (map fst (fn_marks body)) ->
  run fuel o body = (out, t) -> forall k, In k t -> ~ In k (dead_ids body).
Proof. intros m qn k0 body _. exact (executed_not_dead body). Qed.

(* the abstraction the theorems are about agrees with the graph-level model of cfg_builder.go (Cfg/Builder.v: blocks,
   typed edges, loop/exception stacks, DFS, findings, complexity) on every body with at most 4 statement nodes, all
   constructs, plain and wrapped in a loop with an else clause (bounded: exhaustive enumeration by vm_compute) *)
Theorem C01_flow_agrees_with_builder_bounded : forallb check_one all_bodies = true.
Proof. exact flow_agrees_with_builder_bounded. Qed.

(* the reported line ranges (first statement start .. last statement end of each unreachable block of the graph-level
   model) contain only statements the abstraction marks dead, on the same bounded domain: together with C01_sound no
   statement on a reported line executes *)
Theorem C01_ranges_cover_only_dead_bounded : forallb check_ranges all_bodies = true.
Proof. exact ranges_cover_only_dead_bounded. Qed.

(* UNBOUNDED: the abstraction agrees with the graph-level model on EVERY function body, all constructs (if/elif/else,
   while/for/else, try/except/else/finally, with, match, comprehensions, nested def/class), plain and wrapped in a loop
   with an else clause: a statement is marked dead by Cfg/Flow.v iff Cfg/Builder.v puts it into a block the depth-first
   walk from ENTRY does not reach.  [check_dead] is [check_one] without its complexity component (the complexity part of
   [check_one] is proved for all bodies in Props/C03.v, C03_builder_complexity_agrees).  Proof: Cfg/BuilderReach.v (DFS = path reachability),
   Cfg/BuilderFrame*.v (the hasSuccessor(EXIT) guards of the builder never fire), Cfg/BuilderSim.v (simulation by
   mutual induction over the syntax), Cfg/BuilderAgree.v. *)
Theorem C01_flow_agrees_with_builder : forall b, check_dead b = true.
Proof. exact flow_agrees_with_builder. Qed.

(* the same statement at the level of propositions, for every body whose break/continue statements are inside loops *)
Theorem C01_flow_dead_iff_unreachable : forall body, lok_block false body = true ->
  (forall k, In k (dead_stmt_lines (build body)) -> k = 0%N \/ In k (dead_ids body)) /\
  (forall k, In k (dead_ids body) -> In k (dead_stmt_lines (build body)) \/ In k (elif_block body)).
Proof. exact flow_dead_iff_unreachable. Qed.

(* UNBOUNDED: every reported line range (first statement start .. last statement end of an unreachable block of the
   graph-level model) contains only statements the abstraction marks dead, for EVERY body whose ids are the source-order
   line numbers ([renumber]; every member of the bounded domain [all_bodies] has this form).  Proof: Cfg/BuilderChain.v
   (inside one block consecutive statements leave no gap), Cfg/FlowRanges.v (a dead header makes everything up to its
   last line dead), Cfg/BuilderRanges.v. *)
Theorem C01_ranges_cover_only_dead : forall b0, check_ranges (renumber b0) = true.
Proof. exact ranges_cover_only_dead. Qed.

Print Assumptions C01_executed_is_marked_reachable.
Print Assumptions C01_ranges_cover_only_dead.
Print Assumptions C01_flow_agrees_with_builder.
Print Assumptions C01_flow_dead_iff_unreachable.
Print Assumptions C01_flow_agrees_with_builder_bounded.
Print Assumptions C01_ranges_cover_only_dead_bounded.
Print Assumptions C01_sound.
Print Assumptions C01_sound_every_def.
