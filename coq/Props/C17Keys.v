(* C17 (continued) — the keys of the configuration file that have no command-line flag of `pyscn analyze`:
   "otherwise the value in the configuration file when the key is present (even if it is 0 or false), otherwise the
   documented default".  Theorems only; proofs are [exact] of lemmas of Cli/ConfigKeysProofs.v about the generic model
   Cli/ConfigKeys.v (hand-written; bound to the code by the key sweep of harness/c17keys.py).

   SPEC  spec_ok k file o: with the key absent the default is in force; with the key present the file's value is in
   force, and the run may be refused only for a value outside the validated range.
   Full statement wanted for every key k:  forall file, spec_ok k file (key_model k file) = true. *)
From Coq Require Import ZArith Bool List.
From PV Require Import Cli.ConfigKeys Cli.ConfigKeysProofs.
Open Scope Z_scope.

(* pointer-typed keys whose value reaches the request: full, 0 and false included *)
Theorem C17_key_pointer : forall k file,
  k_presence k = PPointer -> k_plumbing k = UsesFile -> in_range k (k_default k) = true ->
  spec_ok k file (key_model k file) = true.
Proof. exact key_pointer_full. Qed.
Print Assumptions C17_key_pointer.

(* `> 0` keys: FALSE at 0 (the value reads as an absent key) *)
Theorem C17_key_positive_refuted :
  exists k v, k_presence k = PPositive /\ k_plumbing k = UsesFile /\ in_range k v = true /\ in_range k (k_default k) = true /\
              spec_ok k (Some v) (key_model k (Some v)) = false.
Proof. exact key_positive_zero_refuted. Qed.
Print Assumptions C17_key_positive_refuted.

Theorem C17_key_positive_partial : forall k v, k_presence k = PPositive -> k_plumbing k = UsesFile -> 0 < v ->
  spec_ok k (Some v) (key_model k (Some v)) = true.
Proof. exact key_positive_full. Qed.
Print Assumptions C17_key_positive_partial.

Theorem C17_key_nonnegative_partial : forall k v, k_presence k = PNonNegative -> k_plumbing k = UsesFile -> 0 <= v ->
  spec_ok k (Some v) (key_model k (Some v)) = true.
Proof. exact key_nonnegative_full. Qed.
Print Assumptions C17_key_nonnegative_partial.

Theorem C17_key_nonempty_partial : forall k v, k_presence k = PNonEmpty -> k_plumbing k = UsesFile -> v <> 0 ->
  spec_ok k (Some v) (key_model k (Some v)) = true.
Proof. exact key_nonempty_full. Qed.
Print Assumptions C17_key_nonempty_partial.

Theorem C17_key_unaccepted_value_is_absent : forall k v,
  present (k_presence k) v = false -> key_model k (Some v) = key_model k None.
Proof. exact key_not_present_is_absent. Qed.
Print Assumptions C17_key_unaccepted_value_is_absent.

Theorem C17_key_absent : forall k,
  k_plumbing k = UsesFile -> in_range k (k_default k) = true -> key_model k None = InForce (k_default k).
Proof. exact key_absent_full. Qed.
Print Assumptions C17_key_absent.

(* keys that analyze's request literal replaces, or that are never copied into the request: FALSE — the file's value is
   in force only when it happens to equal the literal *)
Theorem C17_key_overridden_refuted :
  exists k v, literal_of k <> None /\ in_range k v = true /\ spec_ok k (Some v) (key_model k (Some v)) = false.
Proof. exact key_overridden_refuted. Qed.
Print Assumptions C17_key_overridden_refuted.

Theorem C17_key_overridden_characterised : forall k lit v,
  literal_of k = Some lit -> in_range k (loaded k (Some v)) = true ->
  spec_ok k (Some v) (key_model k (Some v)) = (lit =? v).
Proof. exact key_overridden. Qed.
Print Assumptions C17_key_overridden_characterised.

(* a run is refused only for a value outside the validated range *)
Theorem C17_key_rejected_only_invalid : forall k v,
  present (k_presence k) v = true -> key_model k (Some v) = Rejected -> in_range k v = false.
Proof. exact key_rejected_only_invalid. Qed.
Print Assumptions C17_key_rejected_only_invalid.

Example C17_key_hypotheses_satisfiable :
  let k := mk_key PPointer UsesFile 3 0 20 in
  k_presence k = PPointer /\ k_plumbing k = UsesFile /\ in_range k (k_default k) = true /\
  key_model k (Some 0) = InForce 0 /\ key_model k (Some 21) = Rejected /\ key_model k None = InForce 3.
Proof. vm_compute. repeat split; reflexivity. Qed.
