(* C06 — No input crashes or hangs the analyser, and a bad file never hides the others.
   What a theorem can carry here: (a) the per-file loops of the services isolate a failing file (any analyse function,
   any file list, any position); (b) the exit status is 0 or 1; (c) every model function of this development is a total
   Gallina function, so the modelled analyses terminate on every AST; (d) NEGATIVE: the longest-import-chain computation
   is exponential on dense DAGs (finding F21) — the "time proportional to input size" clause is refuted for it.
   Not modelled (decided by the malformed-input runs of harness/c06.py, a test): tree-sitter, the Go runtime, the OS. *)
From Coq Require Import List Arith.
From PV Require Import Service.Isolation Deps.DepthCost.
Import ListNotations.

Theorem C06_isolation :
  forall (file item err : Type) (analyze : file -> list item + err) good bad good' e,
  analyze bad = inr e ->
  items _ _ (run _ _ _ analyze (good ++ bad :: good')) = items _ _ (run _ _ _ analyze (good ++ good')) /\
  processed _ _ (run _ _ _ analyze (good ++ bad :: good')) = processed _ _ (run _ _ _ analyze (good ++ good')) /\
  errors _ _ (run _ _ _ analyze (good ++ bad :: good')) =
    errors _ _ (run _ _ _ analyze good) ++ e :: flat_map (err_of _ _ _ analyze) good'.
Proof. exact isolation. Qed.

Theorem C06_results_are_per_file :
  forall (file item err : Type) (analyze : file -> list item + err) fs,
  items _ _ (run _ _ _ analyze fs) = flat_map (ok_items _ _ _ analyze) fs.
Proof. exact items_in_file_order. Qed.

Theorem C06_exit_status : forall b, exit_code b = 0 \/ exit_code b = 1.
Proof. exact exit_code_01. Qed.

(* refutation of the time bound for calculateMaxDepth: at least 2^(n-1) calls on the complete DAG with n modules *)
Theorem C06_depth_exponential_refuted : forall n, 1 <= n ->
  2 ^ (n - 1) <= snd (depth_from (S n) (complete_succ n) [] 0 0).
Proof. exact depth_exponential. Qed.

Print Assumptions C06_isolation.
Print Assumptions C06_results_are_per_file.
Print Assumptions C06_exit_status.
Print Assumptions C06_depth_exponential_refuted.
