(* C06 — No input crashes or hangs the analyser, and a bad file never hides the others.
   What a theorem can carry here: (a) the per-file loops of the services isolate a failing file (any analyse function,
   any file list, any position); (b) the exit status is 0 or 1; (c) every model function of this development is a total
   Gallina function, so the modelled analyses terminate on every AST; (d) the longest-import-chain computation
   (calculateMaxDepth): finding F21 (2^(n-1) calls on a dense DAG) is repaired — the value is unchanged on every graph, the
   height pass is linear on every graph, the whole computation is linear on every acyclic graph; what is still enumerated
   path by path are the modules from which an import cycle can be reached (stated below, not hidden).
   Not modelled (decided by the malformed-input runs of harness/c06.py, a test): tree-sitter, the Go runtime, the OS. *)
From Coq Require Import List Arith NArith.
From PV Require Import Service.Isolation Deps.DepthCost Deps.DepthCostProofs.
Import ListNotations.

Theorem C06_isolation :
  forall (file item err : Type) (analyze : file -> list item + err) good bad good' e,
  analyze bad = inr e ->
  items _ _ (run _ _ _ analyze (good ++ bad :: good')) = items _ _ (run _ _ _ analyze (good ++ good')) /\
  processed _ _ (run _ _ _ analyze (good ++ bad :: good')) = processed _ _ (run _ _ _ analyze (good ++ good')) /\
  errors _ _ (run _ _ _ analyze (good ++ bad :: good')) =
    errors _ _ (run _ _ _ analyze good) ++ e :: flat_map (err_of _ _ _ analyze) good'.
Proof. exact isolation. Qed.

Theorem C06_results_are_per_file :
  forall (file item err : Type) (analyze : file -> list item + err) fs,
  items _ _ (run _ _ _ analyze fs) = flat_map (ok_items _ _ _ analyze) fs.
Proof. exact items_in_file_order. Qed.

Theorem C06_exit_status : forall b, exit_code b = 0 \/ exit_code b = 1.
Proof. exact exit_code_01. Qed.

(* ---- calculateMaxDepth (service/system_analysis_service.go), after the repair of finding F21 ----
   [succ m] = dependencies of module m, [nodes] = the modules, both in ANY order (Go maps); [closed]: the dependencies of a
   module of the graph are modules of the graph (DependencyGraph.AddDependency guarantees it). *)

(* the repair does not change the result: with the height table calculateMaxDepth returns what the enumeration of simple
   paths returned, on EVERY graph — import cycles included (C12 and C05 are about this value) *)
Theorem C06_max_depth_value_unchanged : forall succ nodes, closed succ nodes ->
  max_depth_new succ nodes = max_depth succ nodes.
Proof. exact max_depth_value_unchanged. Qed.

(* acyclicChainHeights: at most modules + imports calls of visit, on EVERY graph *)
Theorem C06_height_pass_linear : forall succ nodes, closed succ nodes ->
  snd (acyclic_chain_heights succ nodes) <= length nodes + edge_count succ nodes.
Proof. exact visit_all_cost. Qed.

(* FULL statement wanted: the number of steps of calculateMaxDepth is bounded by a constant times modules + imports on every
   graph.  Proved for every ACYCLIC graph (every module then has a height and calculateDepthFromModule is called once per
   module); false in general, see C06_depth_cyclic_enumeration_observation. *)
Theorem C06_depth_linear_on_acyclic_partial : forall succ nodes rank, ranked succ nodes rank ->
  max_depth_steps succ nodes <= 2 * length nodes + edge_count succ nodes.
Proof. exact ranked_steps_linear. Qed.

(* the input that exposed F21, the complete DAG with n modules and n(n-1)/2 imports: at most 2n + n(n-1)/2 steps now ... *)
Theorem C06_depth_complete_dag_linear : forall n,
  2 * max_depth_steps (complete_succ n) (seq 0 n) <= 4 * n + n * (n - 1).
Proof. exact complete_dag_steps. Qed.

(* ... where the enumeration alone (the code before the repair) made at least 2^(n-1) calls from module 0 *)
Theorem C06_depth_enumeration_alone_exponential : forall n, 1 <= n ->
  2 ^ (n - 1) <= snd (depth_from (S n) (complete_succ n) [] 0 0).
Proof. exact depth_exponential. Qed.

(* on every graph the new code makes no more calls of calculateDepthFromModule than the enumeration did *)
Theorem C06_depth_never_more_calls : forall succ nodes,
  max_depth_steps succ nodes <= snd (acyclic_chain_heights succ nodes) + max_depth_steps_enum succ nodes.
Proof. exact new_calls_le_enum. Qed.

(* STILL TRUE of the repaired code: modules from which an import cycle can be reached are enumerated path by path.
   n modules that all import each other (n(n-1) imports), n = 4, 5, 6, 7: *)
Theorem C06_depth_cyclic_enumeration_observation :
  map (fun n => N.of_nat (max_depth_steps (clique_succ n) (seq 0 n))) [4; 5; 6; 7] = [212; 1330; 9822; 82250]%N.
Proof. exact clique_steps. Qed.

(* which modules get a height: exactly those that reach no import cycle, with the length of the longest chain below them —
   by computation on all 4096 graphs with 4 modules (unbounded: only the acyclic case, inside C06_depth_linear_on_acyclic_partial) *)
Theorem C06_heights_exact_bounded : forallb (fun k => heights_exact_on 4 (N.of_nat k)) (seq 0 4096) = true.
Proof. exact heights_exact_bounded4. Qed.

(* the hypotheses are satisfiable: the complete DAG is closed and ranked *)
Example C06_ranked_satisfiable : forall n, ranked (complete_succ n) (seq 0 n) (fun i => n - 1 - i).
Proof. exact complete_ranked. Qed.

Print Assumptions C06_isolation.
Print Assumptions C06_results_are_per_file.
Print Assumptions C06_exit_status.
Print Assumptions C06_max_depth_value_unchanged.
Print Assumptions C06_height_pass_linear.
Print Assumptions C06_depth_linear_on_acyclic_partial.
Print Assumptions C06_depth_complete_dag_linear.
Print Assumptions C06_depth_enumeration_alone_exponential.
Print Assumptions C06_depth_never_more_calls.
Print Assumptions C06_depth_cyclic_enumeration_observation.
Print Assumptions C06_heights_exact_bounded.
