(* C03 — Cyclomatic complexity equals the McCabe decision count.

   FULL STATEMENT (properties.jsonl): the complexity reported for a function is one plus its number of decision points,
   where each if and elif test, each for/while loop, each except handler and EACH for or if clause of a statement-level
   comprehension contributes exactly one; else/break/continue/return contribute nothing; decision points inside code
   that pyscn itself reports as dead are not counted.  Independent of names, literals, comments, layout; risk level by
   the configured thresholds.  As a formula:
       forall body, c03_block body = true -> NoDup (map fst (fn_marks body)) ->
                    complexity body = mccabe (dead_ids body) body.                                   (C03_mccabe)

   Spec (Cfg/FlowSpec.v): decision points [dec_block] = each if and elif test, each for/while, each except handler (weight 1)
   and, for a statement-level comprehension, [comp_weight] = 1 for each for clause + 1 for EACH if clause;
   mccabe dead body = 1 + weights of the decision points that are not among the statements reported dead.
   (Until finding F8 was recorded, comp_weight had been written as "1 per for clause + 1 if the clause has any if",
   i.e. it encoded the code's behaviour; it now is the property's reading.)
   Model (Cfg/Flow.v): [complexity] mirrors complexity.go on the CFG the builder produces; for a comprehension
   [comp_cx] = 1 per for clause + 1 per for clause that has at least one if, because processComprehension
   (internal/analyzer/cfg_builder.go) creates ONE filter block per for clause whatever the number of its ifs.
   The property's construct list excludes with / match / raise / finally: [c03_block].

   REFUTED (finding F8, open): C03_mccabe is FALSE of the faithful model.  C03_comp_if_refuted: the one-statement body
   `_ = [x for x in xs if a if b]` (Comp 1 [2]) has complexity 3 and McCabe number 4; pyscn itself prints 3 for
   `def f(xs): return_ = [x for x in xs if x if x > 1]` (and for three ifs).  C03_builder_comp_if_refuted: the same
   for the graph-level model.

   PROVED, for ALL bodies of the construct list (no size bound):
   - C03_mccabe_up_to_extra_ifs: complexity body + surplus_ifs dead body = mccabe dead body, where
     surplus_ifs (Cfg/FlowMcCabe.v) = sum over the comprehensions NOT in dead code and over their for clauses of
     (number of ifs - 1, when >= 2): the code misses exactly the second and further if clauses, nothing else;
   - C03_mccabe_iff_no_extra_ifs: complexity = mccabe exactly when that surplus is 0;
   - C03_mccabe_partial: complexity = mccabe when every for clause of every statement-level comprehension of the
     function has at most one if ([comps_single_if], decidable, syntactic; nested defs are functions of their own
     exactly as in the spec); what is missing for the full statement is precisely F8;
   - C03_mccabe_every_def_up_to_extra_ifs / _partial: the same for every definition of a module;
   - C03_invariant, C03_risk: unchanged (they do not mention the spec).

   Link to the graph-level model Cfg/Builder.v (blocks, typed edges, loop/exception stacks, depth-first walk, the count
   of complexity.go: distinct reachable blocks with a conditional out-edge + exception edges out of reachable blocks + 1):
   PROVED FOR ALL BODIES of the construct list, no size bound (C03_builder_complexity_agrees,
   C03_builder_complexity_eq): [complexity_g (build body) = complexity body] (model against model, not affected by F8),
   hence C03_builder_mccabe_up_to_extra_ifs / C03_builder_mccabe_partial: the graph-level count + surplus_ifs = 1 + live
   decision points.  Proof: Cfg/BuilderSim.v (the simulation carries a counting invariant: counted
   edges out of blocks labelled reachable = Flow's decision count of the processed prefix), Cfg/BuilderReg.v (on the
   construct list every block gets at most one ECondTrue edge and never an ECondFalse edge alone; needs the
   "current block has no out-edge yet" invariant of Cfg/BuilderFrame.v), Cfg/BuilderCx.v (DFS visits every block once;
   glue).  The <= 4-node vm_compute theorem of Cfg/BuilderBounded.v is recovered as an instance (C03_check_one_all). *)
From Coq Require Import NArith List.
From PV Require Import Py.PyAST Cfg.Flow Cfg.FlowSpec Cfg.FlowMcCabe Cfg.Builder Cfg.BuilderBounded Cfg.BuilderCx Cfg.RiskMonoCx.
Import ListNotations.

(* the exact relation: the code misses the second and further if clauses of each for clause of a live comprehension *)
Theorem C03_mccabe_up_to_extra_ifs : forall body,
  c03_block body = true -> NoDup (map fst (fn_marks body)) ->
  complexity body + surplus_ifs (dead_ids body) body = mccabe (dead_ids body) body.
Proof. exact complexity_plus_surplus_is_mccabe. Qed.

Theorem C03_mccabe_iff_no_extra_ifs : forall body,
  c03_block body = true -> NoDup (map fst (fn_marks body)) ->
  (complexity body = mccabe (dead_ids body) body <-> surplus_ifs (dead_ids body) body = 0).
Proof. exact complexity_is_mccabe_iff. Qed.

(* the full equation C03_mccabe under the hypothesis that no for clause of a comprehension carries two ifs *)
Theorem C03_mccabe_partial : forall body,
  c03_block body = true -> NoDup (map fst (fn_marks body)) -> comps_single_if body = true ->
  complexity body = mccabe (dead_ids body) body.
Proof. exact complexity_is_mccabe_single_if. Qed.

(* the full statement is false: `_ = [x for x in xs if a if b]` (finding F8) *)
Theorem C03_comp_if_refuted :
  exists body, c03_block body = true /\ NoDup (map fst (fn_marks body)) /\
               complexity body = 3 /\ mccabe (dead_ids body) body = 4 /\
               complexity body <> mccabe (dead_ids body) body.
Proof. exact complexity_is_mccabe_refuted. Qed.

Theorem C03_mccabe_every_def_up_to_extra_ifs : forall m qn k0 body, In (qn, k0, body) (module_defs m) ->
  c03_block body = true -> NoDup (map fst (fn_marks body)) ->
  complexity body + surplus_ifs (dead_ids body) body = mccabe (dead_ids body) body.
Proof. intros m qn k0 body _. exact (complexity_plus_surplus_is_mccabe body). Qed.

Theorem C03_mccabe_every_def_partial : forall m qn k0 body, In (qn, k0, body) (module_defs m) ->
  c03_block body = true -> NoDup (map fst (fn_marks body)) -> comps_single_if body = true ->
  complexity body = mccabe (dead_ids body) body.
Proof. intros m qn k0 body _. exact (complexity_is_mccabe_single_if body). Qed.

(* independent of identifier names and of the lines the statements sit on *)
Theorem C03_invariant : forall (f g : N -> N) body, complexity (rl_block f g body) = complexity body.
Proof. exact complexity_relabel. Qed.

(* risk level exactly by the configured thresholds *)
Theorem C03_risk : forall c lo med,
  (risk_of c lo med = Low <-> c <= lo) /\
  (risk_of c lo med = Medium <-> lo < c /\ c <= med) /\
  (risk_of c lo med = High <-> lo < c /\ med < c).
Proof. exact risk_table. Qed.

(* the risk level is monotone in the complexity (any thresholds) and never rises when thresholds are raised *)
Theorem C03_risk_monotone : forall c c' lo med, c <= c' ->
  cx_risk_rank (risk_of c lo med) <= cx_risk_rank (risk_of c' lo med).
Proof. exact cx_risk_mono. Qed.
Theorem C03_risk_threshold_monotone : forall c lo lo' med med', lo <= lo' -> med <= med' ->
  cx_risk_rank (risk_of c lo' med') <= cx_risk_rank (risk_of c lo med).
Proof. exact cx_risk_threshold_mono. Qed.

(* else / break / continue / return contribute nothing; a decision inside dead code is not counted *)
Example C03_example :
  let body := BCons (If 2 (BCons (Return 3) BNil) (ACons 4 (BCons (Break 5) BNil) ANil) (OSome (BCons (Continue 7) BNil)))
             (BCons (While 8 (BCons (Simple 9) BNil) ONone) BNil) in
  c03_block body = true /\ complexity body = 3 /\ mccabe (dead_ids body) body = 3 /\ dead_ids body = [8; 9]%N.
Proof. vm_compute. repeat split; reflexivity. Qed.

(* the hypotheses of C03_mccabe_partial are satisfiable, with comprehensions: for clauses with no and with one if *)
Example C03_partial_example :
  let body := BCons (Comp 1 [1; 0]) (BCons (If 2 (BCons (Comp 3 [0; 1; 1]) BNil) ANil ONone) BNil) in
  c03_block body = true /\ NoDup (map fst (fn_marks body)) /\ comps_single_if body = true /\
  complexity body = 10 /\ mccabe (dead_ids body) body = 10.
Proof. cbv zeta. split; [reflexivity|]. split; [repeat constructor; cbn; intuition discriminate|]. vm_compute. repeat split; reflexivity. Qed.

(* a comprehension with surplus ifs in DEAD code does not disturb the equation (C03_mccabe_iff_no_extra_ifs is about live ones) *)
Example C03_dead_surplus_example :
  let body := BCons (Comp 1 [1; 0]) (BCons (Return 2) (BCons (Comp 3 [2; 3]) BNil)) in
  c03_block body = true /\ NoDup (map fst (fn_marks body)) /\ comps_single_if body = false /\
  surplus_ifs (dead_ids body) body = 0 /\ complexity body = 4 /\ mccabe (dead_ids body) body = 4.
Proof. cbv zeta. split; [reflexivity|]. split; [repeat constructor; cbn; intuition discriminate|]. vm_compute. repeat split; reflexivity. Qed.

(* three for clauses with 0, 2 and 3 ifs: the code counts 3 + 2, the property 3 + 5 *)
Example C03_surplus_example :
  let body := BCons (Comp 1 [0; 2; 3]) BNil in
  comps_single_if body = false /\ complexity body = 6 /\ surplus_ifs (dead_ids body) body = 3 /\ mccabe (dead_ids body) body = 9.
Proof. vm_compute. repeat split; reflexivity. Qed.

(* UNBOUNDED: the complexity the graph-level model of cfg_builder.go + reachability.go + complexity.go computes equals the
   abstraction's decision count, for EVERY body of the construct list (if/elif/else, for/while with else,
   break/continue/return, try/except/else, statement-level comprehensions, nested defs/classes) whose break/continue
   statements are inside loops, plain and wrapped in a loop with an else clause ([agree_cx_all] is the complexity
   component of BuilderBounded.check_one) *)
Theorem C03_builder_complexity_agrees : forall b, agree_cx_all b = true.
Proof. exact builder_complexity_agrees. Qed.

(* the same statement as an equation *)
Theorem C03_builder_complexity_eq : forall body,
  lok_block false body = true -> c03_block body = true -> complexity_g (build body) = complexity body.
Proof. exact complexity_agrees. Qed.

(* with C03_mccabe_up_to_extra_ifs: the graph-level count is 1 + the live decision points, minus the surplus if clauses *)
Theorem C03_builder_mccabe_up_to_extra_ifs : forall body,
  lok_block false body = true -> c03_block body = true -> NoDup (map fst (fn_marks body)) ->
  complexity_g (build body) + surplus_ifs (dead_ids body) body = mccabe (dead_ids body) body.
Proof.
  intros body Hlok Hc3 ND. rewrite (complexity_agrees body Hlok Hc3). exact (complexity_plus_surplus_is_mccabe body Hc3 ND).
Qed.

Theorem C03_builder_mccabe_partial : forall body,
  lok_block false body = true -> c03_block body = true -> NoDup (map fst (fn_marks body)) -> comps_single_if body = true ->
  complexity_g (build body) = mccabe (dead_ids body) body.
Proof.
  intros body Hlok Hc3 ND S1. rewrite (complexity_agrees body Hlok Hc3). exact (complexity_is_mccabe_single_if body Hc3 ND S1).
Qed.

(* the graph-level model on the F8 witness: one filter block for both ifs *)
Theorem C03_builder_comp_if_refuted :
  exists body, lok_block false body = true /\ c03_block body = true /\ NoDup (map fst (fn_marks body)) /\
               complexity_g (build body) = 3 /\ mccabe (dead_ids body) body = 4.
Proof.
  exists comp_if_witness. split; [reflexivity|]. split; [reflexivity|]. split; [repeat constructor; intros []|].
  split; vm_compute; reflexivity.
Qed.

(* both components of BuilderBounded.check_one (dead statements, complexity) for every body; the bounded theorem
   flow_agrees_with_builder_bounded is the instance on [all_bodies] *)
Theorem C03_check_one_all : forall b, check_one b = true.
Proof. exact check_one_all. Qed.

Print Assumptions C03_mccabe_up_to_extra_ifs.
Print Assumptions C03_mccabe_iff_no_extra_ifs.
Print Assumptions C03_mccabe_partial.
Print Assumptions C03_comp_if_refuted.
Print Assumptions C03_builder_complexity_agrees.
Print Assumptions C03_builder_complexity_eq.
Print Assumptions C03_builder_mccabe_up_to_extra_ifs.
Print Assumptions C03_builder_mccabe_partial.
Print Assumptions C03_builder_comp_if_refuted.
Print Assumptions C03_check_one_all.
Print Assumptions C03_mccabe_every_def_up_to_extra_ifs.
Print Assumptions C03_mccabe_every_def_partial.
Print Assumptions C03_invariant.
Print Assumptions C03_risk.
Print Assumptions C03_risk_monotone.
Print Assumptions C03_risk_threshold_monotone.
