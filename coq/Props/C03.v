(* C03 — Cyclomatic complexity equals the McCabe decision count.
   Spec (Cfg/FlowSpec.v): decision points [dec_block] = each if and elif test, each for/while, each except handler,
   each for clause and each for clause with at least one if of a statement-level comprehension (weight) ;
   mccabe dead body = 1 + weights of the decision points that are not among the statements reported dead.
   Model (Cfg/Flow.v): [complexity] mirrors complexity.go on the CFG the builder produces.
   The property's construct list excludes with / match / raise / finally: [c03_block].

   Link to the graph-level model Cfg/Builder.v (blocks, typed edges, loop/exception stacks, depth-first walk, the count
   of complexity.go: distinct reachable blocks with a conditional out-edge + exception edges out of reachable blocks + 1):
   PROVED FOR ALL BODIES of the construct list, no size bound (C03_builder_complexity_agrees,
   C03_builder_complexity_eq, C03_builder_mccabe): [complexity_g (build body) = complexity body], hence the graph-level
   count = 1 + live decision points.  Proof: Cfg/BuilderSim.v (the simulation carries a counting invariant: counted
   edges out of blocks labelled reachable = Flow's decision count of the processed prefix), Cfg/BuilderReg.v (on the
   construct list every block gets at most one ECondTrue edge and never an ECondFalse edge alone; needs the
   "current block has no out-edge yet" invariant of Cfg/BuilderFrame.v), Cfg/BuilderCx.v (DFS visits every block once;
   glue).  The <= 4-node vm_compute theorem of Cfg/BuilderBounded.v is recovered as an instance (C03_check_one_all). *)
From Coq Require Import NArith List.
From PV Require Import Py.PyAST Cfg.Flow Cfg.FlowSpec Cfg.FlowMcCabe Cfg.Builder Cfg.BuilderBounded Cfg.BuilderCx.
Import ListNotations.

Theorem C03_mccabe : forall body,
  c03_block body = true -> NoDup (map fst (fn_marks body)) ->
  complexity body = mccabe (dead_ids body) body.
Proof. exact complexity_is_mccabe. Qed.

Theorem C03_mccabe_every_def : forall m qn k0 body, In (qn, k0, body) (module_defs m) ->
  c03_block body = true -> NoDup (map fst (fn_marks body)) ->
  complexity body = mccabe (dead_ids body) body.
Proof. intros m qn k0 body _. exact (complexity_is_mccabe body). Qed.

(* independent of identifier names and of the lines the statements sit on *)
Theorem C03_invariant : forall (f g : N -> N) body, complexity (rl_block f g body) = complexity body.
Proof. exact complexity_relabel. Qed.

(* risk level exactly by the configured thresholds *)
Theorem C03_risk : forall c lo med,
  (risk_of c lo med = Low <-> c <= lo) /\
  (risk_of c lo med = Medium <-> lo < c /\ c <= med) /\
  (risk_of c lo med = High <-> lo < c /\ med < c).
Proof. exact risk_table. Qed.

(* else / break / continue / return contribute nothing; a decision inside dead code is not counted *)
Example C03_example :
  let body := BCons (If 2 (BCons (Return 3) BNil) (ACons 4 (BCons (Break 5) BNil) ANil) (OSome (BCons (Continue 7) BNil)))
             (BCons (While 8 (BCons (Simple 9) BNil) ONone) BNil) in
  c03_block body = true /\ complexity body = 3 /\ mccabe (dead_ids body) body = 3 /\ dead_ids body = [8; 9]%N.
Proof. vm_compute. repeat split; reflexivity. Qed.

(* UNBOUNDED: the complexity the graph-level model of cfg_builder.go + reachability.go + complexity.go computes equals the
   abstraction's decision count, for EVERY body of the construct list (if/elif/else, for/while with else,
   break/continue/return, try/except/else, statement-level comprehensions, nested defs/classes) whose break/continue
   statements are inside loops, plain and wrapped in a loop with an else clause ([agree_cx_all] is the complexity
   component of BuilderBounded.check_one) *)
Theorem C03_builder_complexity_agrees : forall b, agree_cx_all b = true.
Proof. exact builder_complexity_agrees. Qed.

(* the same statement as an equation *)
Theorem C03_builder_complexity_eq : forall body,
  lok_block false body = true -> c03_block body = true -> complexity_g (build body) = complexity body.
Proof. exact complexity_agrees. Qed.

(* with C03_mccabe: the graph-level count is 1 + the live decision points *)
Theorem C03_builder_mccabe : forall body,
  lok_block false body = true -> c03_block body = true -> NoDup (map fst (fn_marks body)) ->
  complexity_g (build body) = mccabe (dead_ids body) body.
Proof.
  intros body Hlok Hc3 ND. rewrite (complexity_agrees body Hlok Hc3). exact (complexity_is_mccabe body Hc3 ND).
Qed.

(* both components of BuilderBounded.check_one (dead statements, complexity) for every body; the bounded theorem
   flow_agrees_with_builder_bounded is the instance on [all_bodies] *)
Theorem C03_check_one_all : forall b, check_one b = true.
Proof. exact check_one_all. Qed.

Print Assumptions C03_mccabe.
Print Assumptions C03_builder_complexity_agrees.
Print Assumptions C03_builder_complexity_eq.
Print Assumptions C03_builder_mccabe.
Print Assumptions C03_check_one_all.
Print Assumptions C03_mccabe_every_def.
Print Assumptions C03_invariant.
Print Assumptions C03_risk.
