(* C03 — Cyclomatic complexity equals the McCabe decision count.
   Spec (Cfg/FlowSpec.v): decision points [dec_block] = each if and elif test, each for/while, each except handler,
   each for clause and each for clause with at least one if of a statement-level comprehension (weight) ;
   mccabe dead body = 1 + weights of the decision points that are not among the statements reported dead.
   Model (Cfg/Flow.v): [complexity] mirrors complexity.go on the CFG the builder produces.
   The property's construct list excludes with / match / raise / finally: [c03_block]. *)
From Coq Require Import NArith List.
From PV Require Import Py.PyAST Cfg.Flow Cfg.FlowSpec Cfg.FlowMcCabe.
Import ListNotations.

Theorem C03_mccabe : forall body,
  c03_block body = true -> NoDup (map fst (fn_marks body)) ->
  complexity body = mccabe (dead_ids body) body.
Proof. exact complexity_is_mccabe. Qed.

Theorem C03_mccabe_every_def : forall m qn k0 body, In (qn, k0, body) (module_defs m) ->
  c03_block body = true -> NoDup (map fst (fn_marks body)) ->
  complexity body = mccabe (dead_ids body) body.
Proof. intros m qn k0 body _. exact (complexity_is_mccabe body). Qed.

(* independent of identifier names and of the lines the statements sit on *)
Theorem C03_invariant : forall (f g : N -> N) body, complexity (rl_block f g body) = complexity body.
Proof. exact complexity_relabel. Qed.

(* risk level exactly by the configured thresholds *)
Theorem C03_risk : forall c lo med,
  (risk_of c lo med = Low <-> c <= lo) /\
  (risk_of c lo med = Medium <-> lo < c /\ c <= med) /\
  (risk_of c lo med = High <-> lo < c /\ med < c).
Proof. exact risk_table. Qed.

(* else / break / continue / return contribute nothing; a decision inside dead code is not counted *)
Example C03_example :
  let body := BCons (If 2 (BCons (Return 3) BNil) (ACons 4 (BCons (Break 5) BNil) ANil) (OSome (BCons (Continue 7) BNil)))
             (BCons (While 8 (BCons (Simple 9) BNil) ONone) BNil) in
  c03_block body = true /\ complexity body = 3 /\ mccabe (dead_ids body) body = 3 /\ dead_ids body = [8; 9]%N.
Proof. vm_compute. repeat split; reflexivity. Qed.

Print Assumptions C03_mccabe.
Print Assumptions C03_mccabe_every_def.
Print Assumptions C03_invariant.
Print Assumptions C03_risk.
