(* C04 — Every definition is analysed exactly once, under its real name and line span.
   Spec: [all_defs] / [all_classes] = every def / class statement of the module at any depth with its dotted name and
   header line.  Model: [registry] (BuildAll's functionCFGs map: a later definition with the same qualified name replaces
   the earlier one) and [lcom_class_rows] (lcom.go collectClasses: bare names).
   Full statement: registry m = all_defs m and lcom_class_rows m = all_classes m for every module m.
   It is false of the faithful model for same-named definitions (finding F3) and nested classes (finding F20):
   the _refuted theorems give the witnesses, the _partial theorems the classes of modules on which it holds.
   End lines are not part of the model: the harness compares StartLine and EndLine of every row with the layout. *)
From Coq Require Import NArith List.
From PV Require Import Py.PyAST Cfg.Flow Cfg.Defs.
Import ListNotations.

Theorem C04_functions_partial : forall m, NoDup (map fst (all_defs m)) -> registry m = all_defs m.
Proof. exact registry_all_defs. Qed.

Theorem C04_functions_refuted_same_name : exists m, registry m <> all_defs m.
Proof. exact registry_same_name_refuted. Qed.

Theorem C04_classes_lines : forall m, map snd (lcom_class_rows m) = map snd (all_classes m).
Proof. exact class_rows_lines. Qed.

Theorem C04_classes_names_partial : forall m, top_level_classes_only m -> lcom_class_rows m = all_classes m.
Proof. exact class_rows_names_partial. Qed.

Theorem C04_classes_names_refuted_nested : exists m, lcom_class_rows m <> all_classes m.
Proof. exact class_rows_names_refuted. Qed.

(* the hypotheses are satisfiable by a module with nested defs, a method and a def inside a method *)
Example C04_example :
  let m := BCons (Def 2 1 (BCons (Def 3 2 (BCons (Pass 4) BNil)) BNil))
          (BCons (Class 6 3 (BCons (Def 7 4 (BCons (Def 8 5 (BCons (Pass 9) BNil)) BNil)) BNil)) BNil) in
  NoDup (map fst (all_defs m)) /\
  registry m = [([1], 2); ([1; 2], 3); ([3; 4], 7); ([3; 4; 5], 8)]%N.
Proof. vm_compute. split; [repeat constructor; simpl; intuition discriminate | reflexivity]. Qed.

Print Assumptions C04_functions_partial.
Print Assumptions C04_functions_refuted_same_name.
Print Assumptions C04_classes_lines.
Print Assumptions C04_classes_names_partial.
Print Assumptions C04_classes_names_refuted_nested.
