(* C17 — configuration precedence: explicit flag over config file over default; which file is used.
   Theorems only; every proof is [exact] of a lemma proved in Cli/ConfigProofs.v / Cli/DiscoveryProofs.v about the
   models Cli/Config.v and Cli/Discovery.v (tied to the code by Gen/ConfigConst.v + Gen/CheckConst.v — flag defaults,
   Flags().Changed wrappers, request literals, merge sentinels, key-present tests, file-side defaults, discovery
   order — and by the CLI matrix of harness/c17.py).

   SPEC  eff flag file dflt = match flag with Some v => v | None => match file with Some v => v | None => dflt end end.
   Full statement wanted for every option o:  forall flag file, model_o flag file = eff flag file default_o. *)
From Coq Require Import ZArith QArith List Bool.
From PV Require Import Gen.DomainConst Gen.CheckConst Gen.ConfigConst Cli.Gate Cli.Config Cli.ConfigProofs
  Cli.Discovery Cli.DiscoveryProofs Cli.ConfigKeys Cli.ConfigKeysWiring Cli.ConfigKeysWiringProofs.
Import ListNotations.
Open Scope Z_scope.

(* ---- analyze --min-severity / [dead_code] min_severity: full, over the three severities ---------------------- *)
Theorem C17_analyze_min_severity : forall flag file, valid_opt flag -> valid_opt file ->
  analyze_min_severity flag file = eff flag file default_min_severity.
Proof. exact min_severity_full. Qed.

(* ---- analyze --min-cbo / [cbo] min_cbo: full, every integer (0 in the file is a value: pointer-typed key) ---- *)
Theorem C17_analyze_min_cbo : forall flag file, analyze_min_cbo flag file = eff flag file analyze_flag_default_min_cbo.
Proof. exact min_cbo_full. Qed.

(* ---- analyze --clone-threshold / [clones] similarity_threshold ------------------------------------------------
   full statement  forall flag file, analyze_clone_threshold flag file = eff flag file 0.65  is FALSE of the code for a
   file value of 0 (a non-pointer float tested with `> 0`): *)
Theorem C17_analyze_clone_threshold_refuted :
  exists v, (v == 0)%Q /\
    ~ (analyze_clone_threshold None (Some v) == eff None (Some v) analyze_flag_default_clone_threshold)%Q.
Proof. exact clone_threshold_zero_file_refuted. Qed.

(* it holds for every flag value and every positive file value *)
Theorem C17_analyze_clone_threshold_partial : forall flag file, positive_file file ->
  analyze_clone_threshold flag file = eff flag file analyze_flag_default_clone_threshold.
Proof. exact clone_threshold_full. Qed.

(* and a file value <= 0 behaves exactly like an absent key *)
Theorem C17_analyze_clone_threshold_nonpositive_file : forall flag v, (v <= 0)%Q ->
  analyze_clone_threshold flag (Some v) = analyze_clone_threshold flag None.
Proof. exact clone_threshold_nonpositive_file_is_absent. Qed.

(* ---- analyze --min-complexity / [output] min_complexity, [complexity] min_complexity -------------------------
   full statement is FALSE: the flag variable (5 when the flag is absent) always counts as given (F6) *)
Theorem C17_analyze_min_complexity_refuted :
  (exists v, analyze_min_complexity None None (Some v) <> eff None (Some v) analyze_flag_default_min_complexity) /\
  (exists v, analyze_min_complexity None (Some v) None <> eff None (Some v) analyze_flag_default_min_complexity).
Proof. exact min_complexity_refuted. Qed.

(* it holds in every cell except {flag absent, key present, value <> default}, whichever key is "the" key *)
Theorem C17_analyze_min_complexity_partial : forall flag fcx fout key,
  (flag = None -> forall v, key = Some v -> v = analyze_flag_default_min_complexity) ->
  analyze_min_complexity flag fcx fout = eff flag key analyze_flag_default_min_complexity.
Proof. exact min_complexity_partial. Qed.

Theorem C17_analyze_min_complexity_file_never_read : forall flag fcx fout fcx' fout',
  analyze_min_complexity flag fcx fout = analyze_min_complexity flag fcx' fout'.
Proof. exact min_complexity_file_never_read. Qed.

(* ---- analyze, options that exist only in the file ------------------------------------------------------------ *)
Theorem C17_analyze_complexity_low_threshold : forall file,
  analyze_complexity_low_threshold file = eff None file domain_DefaultComplexityLowThreshold.
Proof. exact complexity_low_threshold_full. Qed.

Theorem C17_analyze_complexity_medium_threshold : forall file,
  analyze_complexity_medium_threshold file = eff None file domain_DefaultComplexityMediumThreshold.
Proof. exact complexity_medium_threshold_full. Qed.

Theorem C17_analyze_lcom_low_threshold : forall file,
  analyze_lcom_low_threshold file = eff None file domain_DefaultLCOMLowThreshold.
Proof. exact lcom_low_threshold_full. Qed.

Theorem C17_analyze_lcom_medium_threshold : forall file,
  analyze_lcom_medium_threshold file = eff None file domain_DefaultLCOMMediumThreshold.
Proof. exact lcom_medium_threshold_full. Qed.

(* [cbo] low_threshold / medium_threshold: the request carries the defaults, which the merge does not count as
   given (before fix: f36bff9 `> 0` counted them as given and the file was never read: F6) *)
Theorem C17_analyze_cbo_low_threshold : forall file,
  analyze_cbo_low_threshold file = eff None file domain_DefaultCBOLowThreshold.
Proof. exact cbo_low_threshold_full. Qed.

Theorem C17_analyze_cbo_medium_threshold : forall file,
  analyze_cbo_medium_threshold file = eff None file domain_DefaultCBOMediumThreshold.
Proof. exact cbo_medium_threshold_full. Qed.

(* ---- check --max-complexity / [complexity] max_complexity -----------------------------------------------------
   full for positive file values; 0 is the documented "no limit" marker (it is what `pyscn init` writes) and, like a
   negative value, reads as an absent key — the same reading as eff_max_complexity of C19 *)
Theorem C17_check_max_complexity : forall flag file, (forall v, file = Some v -> 0 < v) ->
  check_max_complexity flag file = eff flag file check_flag_default_max_complexity.
Proof. exact check_max_complexity_full. Qed.

Theorem C17_check_max_complexity_nonpositive_file : forall flag v, v <= 0 ->
  check_max_complexity flag (Some v) = eff flag None check_flag_default_max_complexity.
Proof. exact check_max_complexity_nonpositive_file. Qed.

(* ---- why Flags().Changed is needed: with the default-comparison merges alone an explicit flag equal to the
   sentinel loses to the file (F26, repaired in the repo; these are about the model with tracking switched off) ---- *)
Theorem C17_min_severity_needs_explicit_tracking :
  exists flag file, valid_opt flag /\ valid_opt file /\
    analyze_min_severity_with false flag file <> eff flag file default_min_severity.
Proof. exact min_severity_without_tracking_refuted. Qed.

Theorem C17_min_cbo_needs_explicit_tracking :
  exists flag file, analyze_min_cbo_with false flag file <> eff flag file analyze_flag_default_min_cbo.
Proof. exact min_cbo_without_tracking_refuted. Qed.

Theorem C17_clone_threshold_needs_explicit_tracking :
  exists flag file, positive_file file /\
    ~ (analyze_clone_threshold_with false flag file == eff flag file analyze_flag_default_clone_threshold)%Q.
Proof. exact clone_threshold_without_tracking_refuted. Qed.

Theorem C17_min_complexity_needs_explicit_tracking :
  exists v w, analyze_min_complexity_with false (Some v) None (Some w) <> v.
Proof. exact min_complexity_without_tracking_refuted. Qed.

(* ---- keys without a flag whose way into the analysis was repaired in the repo (generic statements: Props/C17Keys.v;
   the instances are built from what the translator reads off the code, Cli/ConfigKeysWiring.v) ------------------------
   SPEC  spec_ok k file o (Cli/ConfigKeys.v): key absent -> the default is in force; key present -> its value is. *)

(* [clones] skip_docstrings: full, `false` included (before fix: 6cc2757 the converter never copied the key and clone
   detection ran with false whatever the file said, the documented default true included) *)
Theorem C17_clones_skip_docstrings : forall file,
  spec_ok key_clones_skip_docstrings file (key_model key_clones_skip_docstrings file) = true.
Proof. exact skip_docstrings_full. Qed.

(* [clones] max_edit_distance (before fix: 5ba3d34 analyze's request carried 0, which the merge counted as given: no limit
   was ever in force).  Full statement  forall file, spec_ok k file (key_model k file) = true  holds for every positive
   value and for the absent key; the presence test of the loader is `> 0`, so 0 in the file still reads as absent
   (generic: C17_key_positive_refuted) *)
Theorem C17_clones_max_edit_distance_partial : forall v, 0 < v ->
  spec_ok key_clones_max_edit_distance (Some v) (key_model key_clones_max_edit_distance (Some v)) = true.
Proof. exact max_edit_distance_positive. Qed.

Theorem C17_clones_max_edit_distance_default :
  key_model key_clones_max_edit_distance None = InForce default_clones_max_edit_distance /\ default_clones_max_edit_distance = 500000.
Proof. exact max_edit_distance_default. Qed.

Theorem C17_clones_max_edit_distance_zero_is_absent :
  key_model key_clones_max_edit_distance (Some 0) = key_model key_clones_max_edit_distance None.
Proof. exact max_edit_distance_zero_is_absent. Qed.

(* [output] format, no format flag (before fix: 853da19 the report was always HTML): json / yaml / csv / html of the file
   are in force, without the key analyze's HTML.  "text" (index 1), the value DefaultPyscnConfig and `pyscn init` carry,
   is no format of analyze (HTML is kept): not covered, hence _partial *)
Theorem C17_output_format_partial : forall v, fmt_json <= v <= fmt_html ->
  spec_ok key_output_format (Some v) (key_model key_output_format (Some v)) = true.
Proof. exact output_format_full. Qed.

Theorem C17_output_format_absent : key_model key_output_format None = InForce fmt_html.
Proof. exact output_format_absent. Qed.

(* [dead_code] enabled (before fix: 90fe013 nothing read the key, dead code detection ran whatever the file said): full as a
   key, `false` included; with the flags: an analysis named by --select runs, --skip-deadcode skips, else the file decides *)
Theorem C17_dead_code_enabled : forall file,
  spec_ok key_dead_code_enabled file (key_model key_dead_code_enabled file) = true.
Proof. exact dead_code_enabled_full. Qed.

Theorem C17_dead_code_enabled_precedence : forall select skip file,
  dead_code_runs select skip file = dead_code_runs_spec select skip file.
Proof. exact dead_code_runs_full. Qed.

(* [dead_code] detect_after_return / _break / _continue / _raise / detect_unreachable_branches: a kind of finding is
   reported exactly when its switch is on (before fix: 5b73f6c the switches were echoed but never consulted) *)
Theorem C17_dead_code_detect_switches : forall d findings, reported d findings = filter (switch_of d) findings.
Proof. exact reported_spec. Qed.

Theorem C17_dead_code_detect_switches_iff : forall d findings r,
  In r (reported d findings) <-> In r findings /\ switch_of d r = true.
Proof. exact reported_iff. Qed.

(* the include / exclude patterns analyze falls back to without a configuration file are the defaults a configuration
   file comes with (before fix: 587b6d8 the fallback had an extra "*.pyi") *)
Theorem C17_patterns_same_with_and_without_file : fallback_patterns = config_default_patterns.
Proof. exact fallback_patterns_are_config_defaults. Qed.

(* ---- which file ---------------------------------------------------------------------------------------------- *)
Theorem explicit_config_wins : forall id target cwd, resolve (ExFile id) target cwd = SExplicit id.
Proof. exact explicit_file_wins. Qed.

Theorem explicit_config_missing_is_an_error : forall target cwd, resolve ExMissing target cwd = SError.
Proof. exact explicit_missing_errors. Qed.

(* within the nearest directory that has a configuration, .pyscn.toml is the one used *)
Theorem pyscn_over_pyproject_same_dir : forall chain i,
  first_index has_any chain = Some i -> has_pyscn (nth i chain dir0) = true -> find_config chain = Some (i, KPyscn).
Proof. exact same_dir_pyscn_wins. Qed.

(* the full statement  forall chain, find_config chain = nearest chain  is FALSE exactly on the F24 layout (nearest
   configuration is a pyproject.toml, a .pyscn.toml sits further up: the code takes the far .pyscn.toml) *)
Theorem discovery_nearest_iff : forall chain, find_config chain = nearest chain <-> f24_layout chain = false.
Proof. exact find_nearest_iff. Qed.

Theorem discovery_nearest : forall chain, only_pyscn chain = true \/ only_pyproject chain = true ->
  find_config chain = nearest chain.
Proof. exact discovery_single_kind. Qed.

Theorem discovery_f24_witness :
  let chain := [Build_dir false PPTool; Build_dir true PPNone] in
  f24_layout chain = true /\ find_config chain = Some (1%nat, KPyscn) /\ nearest chain = Some (0%nat, KPyproject).
Proof. exact f24_witness. Qed.

(* a pyproject.toml without [tool.pyscn] does not stop the search *)
Theorem discovery_plain_pyproject_invisible : forall d r, has_pyscn d = false -> pp d = PPPlain ->
  find_config (d :: r) = shift (find_config r).
Proof. exact plain_pyproject_invisible. Qed.

(* --config, else nearest from the analysed path, else (nothing there) nearest from the working directory *)
Theorem resolve_matches_spec : forall ex target cwd,
  explicit_chain_ok ex -> f24_layout target = false -> f24_layout cwd = false ->
  resolve ex target cwd = spec_resolve ex target cwd.
Proof. exact resolve_spec. Qed.

Theorem target_config_over_cwd : forall target cwd cwd', find_config target <> None ->
  resolve ExNone target cwd = resolve ExNone target cwd'.
Proof. exact target_over_cwd. Qed.

(* hypotheses are satisfiable, both outcomes occur *)
Example C17_examples :
  analyze_min_severity (Some SevWarning) (Some SevCritical) = SevWarning /\
  analyze_min_severity None (Some SevCritical) = SevCritical /\
  analyze_min_cbo (Some 0) (Some 3) = 0 /\ analyze_min_cbo None (Some 3) = 3 /\
  analyze_min_complexity None None (Some 4) = 5 /\
  check_max_complexity None (Some 12) = 12 /\ check_max_complexity (Some 10) (Some 12) = 10.
Proof. exact config_examples. Qed.

Example C17_discovery_examples :
  find_config [Build_dir false PPPlain; Build_dir true PPTool; Build_dir true PPNone] = Some (1%nat, KPyscn) /\
  f24_layout [Build_dir false PPPlain; Build_dir true PPTool; Build_dir true PPNone] = false /\
  resolve ExNone [Build_dir false PPNone] [Build_dir false PPTool] = SFromCwd 0 KPyproject.
Proof. exact discovery_examples. Qed.

Print Assumptions C17_analyze_min_severity.
Print Assumptions C17_analyze_min_cbo.
Print Assumptions C17_analyze_clone_threshold_refuted.
Print Assumptions C17_analyze_clone_threshold_partial.
Print Assumptions C17_analyze_clone_threshold_nonpositive_file.
Print Assumptions C17_analyze_min_complexity_refuted.
Print Assumptions C17_analyze_min_complexity_partial.
Print Assumptions C17_analyze_min_complexity_file_never_read.
Print Assumptions C17_analyze_complexity_low_threshold.
Print Assumptions C17_analyze_complexity_medium_threshold.
Print Assumptions C17_analyze_lcom_low_threshold.
Print Assumptions C17_analyze_lcom_medium_threshold.
Print Assumptions C17_analyze_cbo_low_threshold.
Print Assumptions C17_analyze_cbo_medium_threshold.
Print Assumptions C17_check_max_complexity.
Print Assumptions C17_check_max_complexity_nonpositive_file.
Print Assumptions C17_min_severity_needs_explicit_tracking.
Print Assumptions C17_min_cbo_needs_explicit_tracking.
Print Assumptions C17_clone_threshold_needs_explicit_tracking.
Print Assumptions C17_min_complexity_needs_explicit_tracking.
Print Assumptions C17_clones_skip_docstrings.
Print Assumptions C17_clones_max_edit_distance_partial.
Print Assumptions C17_clones_max_edit_distance_default.
Print Assumptions C17_clones_max_edit_distance_zero_is_absent.
Print Assumptions C17_output_format_partial.
Print Assumptions C17_output_format_absent.
Print Assumptions C17_dead_code_enabled.
Print Assumptions C17_dead_code_enabled_precedence.
Print Assumptions C17_dead_code_detect_switches.
Print Assumptions C17_dead_code_detect_switches_iff.
Print Assumptions C17_patterns_same_with_and_without_file.
Print Assumptions explicit_config_wins.
Print Assumptions explicit_config_missing_is_an_error.
Print Assumptions pyscn_over_pyproject_same_dir.
Print Assumptions discovery_nearest_iff.
Print Assumptions discovery_nearest.
Print Assumptions discovery_f24_witness.
Print Assumptions discovery_plain_pyproject_invisible.
Print Assumptions resolve_matches_spec.
Print Assumptions target_config_over_cwd.
Print Assumptions C17_examples.
Print Assumptions C17_discovery_examples.
