(* C07 — unbounded facts about the spec [delta] (any forests, any sizes). *)
From Coq Require Import ZArith List Lia Bool.
From PV Require Import Ted.TedSpec.
Import ListNotations.
Open Scope Z_scope.

Lemma zsum_app : forall a b, zsum (a ++ b) = zsum a + zsum b.
Proof. induction a as [|x a IH]; intros b; [reflexivity|]. cbn [app]. change (zsum (x :: a ++ b)) with (x + zsum (a ++ b)). change (zsum (x :: a)) with (x + zsum a). rewrite IH. lia. Qed.
Lemma del_all_app : forall c f g, del_all c (f ++ g) = del_all c f + del_all c g.
Proof. intros. unfold del_all. rewrite map_app. apply zsum_app. Qed.
Lemma ins_all_app : forall c f g, ins_all c (f ++ g) = ins_all c f + ins_all c g.
Proof. intros. unfold ins_all. rewrite map_app. apply zsum_app. Qed.
Lemma del_all_cons : forall c a F1 F, del_all c (Node a F1 :: F) = del c a + del_all c F1 + del_all c F.
Proof. intros. change (del_all c (Node a F1 :: F)) with ((del c a + del_all c F1) + del_all c F). lia. Qed.
Lemma ins_all_cons : forall c a F1 F, ins_all c (Node a F1 :: F) = ins c a + ins_all c F1 + ins_all c F.
Proof. intros. change (ins_all c (Node a F1 :: F)) with ((ins c a + ins_all c F1) + ins_all c F). lia. Qed.

(* --- the fuel handed out by [delta] is never exhausted -------------------------------- *)
Lemma delta_fuel_enough : forall c n m F G,
  (fsize F + fsize G < n)%nat -> (fsize F + fsize G < m)%nat -> delta_fuel c n F G = delta_fuel c m F G.
Proof.
  intros c. induction n as [|n IH]; intros m F G Hn Hm; [lia|].
  destruct m as [|m]; [lia|].
  destruct F as [|[a F1] F']; destruct G as [|[b G1] G']; cbn [delta_fuel]; try reflexivity.
  - rewrite (IH m); [reflexivity| |]; rewrite fsize_cons, tsize_node in *; rewrite fsize_app; cbn [fsize list_sum map] in *; lia.
  - rewrite (IH m); [reflexivity| |]; rewrite fsize_cons, tsize_node in *; rewrite fsize_app; cbn [fsize list_sum map] in *; lia.
  - rewrite !fsize_cons, !tsize_node in *.
    rewrite (IH m (F1 ++ F')), (IH m (Node a F1 :: F')), (IH m F1), (IH m F'); try reflexivity;
      rewrite ?fsize_app, ?fsize_cons, ?tsize_node; lia.
Qed.

Lemma delta_fuel_delta : forall c n F G, (fsize F + fsize G < n)%nat -> delta_fuel c n F G = delta c F G.
Proof. intros. unfold delta. apply delta_fuel_enough; lia. Qed.

(* --- the recurrence, as equations on [delta] itself ----------------------------------- *)
Lemma delta_nil_nil : forall c, delta c [] [] = 0.
Proof. reflexivity. Qed.
Lemma delta_cons_nil : forall c a F1 F, delta c (Node a F1 :: F) [] = delta c (F1 ++ F) [] + del c a.
Proof.
  intros. unfold delta at 1. cbn [delta_fuel]. rewrite delta_fuel_delta; [reflexivity|].
  rewrite fsize_cons, tsize_node, fsize_app. cbn [fsize map list_sum]. lia.
Qed.
Lemma delta_nil_cons : forall c b G1 G, delta c [] (Node b G1 :: G) = delta c [] (G1 ++ G) + ins c b.
Proof.
  intros. unfold delta at 1. cbn [delta_fuel]. rewrite delta_fuel_delta; [reflexivity|].
  rewrite fsize_cons, tsize_node, fsize_app. cbn [fsize map list_sum]. lia.
Qed.
Lemma delta_cons_cons : forall c a F1 F b G1 G,
  delta c (Node a F1 :: F) (Node b G1 :: G) =
  min3 (delta c (F1 ++ F) (Node b G1 :: G) + del c a)
       (delta c (Node a F1 :: F) (G1 ++ G) + ins c b)
       (delta c F1 G1 + delta c F G + ren c a b).
Proof.
  intros. unfold delta at 1. cbn [delta_fuel].
  rewrite !delta_fuel_delta; try reflexivity; rewrite ?fsize_app, ?fsize_cons, ?tsize_node; lia.
Qed.

(* induction on the total number of nodes *)
Lemma forest_pair_ind (P : forest -> forest -> Prop) :
  (forall F G, (forall F' G', (fsize F' + fsize G' < fsize F + fsize G)%nat -> P F' G') -> P F G) -> forall F G, P F G.
Proof.
  intros H F G. remember (fsize F + fsize G)%nat as n eqn:E. revert F G E.
  induction n as [n IH] using lt_wf_ind. intros F G E. apply H. intros F' G' Hlt. eapply IH; [|reflexivity]. lia.
Qed.

Ltac sizes := rewrite ?fsize_app, ?fsize_cons, ?tsize_node; cbn [fsize map list_sum]; lia.

(* --- delta is non-negative ------------------------------------------------------------- *)
Lemma delta_nonneg : forall c, cost_nonneg c -> forall F G, 0 <= delta c F G.
Proof.
  intros c (Hd & Hi & Hr). apply (forest_pair_ind (fun F G => 0 <= delta c F G)). intros F G IH.
  destruct F as [|[a F1] F']; destruct G as [|[b G1] G'].
  - rewrite delta_nil_nil. lia.
  - rewrite delta_nil_cons. specialize (IH [] (G1 ++ G')). specialize (Hi b). assert (0 <= delta c [] (G1 ++ G')) by (apply IH; sizes). lia.
  - rewrite delta_cons_nil. specialize (Hd a). assert (0 <= delta c (F1 ++ F') []) by (apply IH; sizes). lia.
  - rewrite delta_cons_cons. unfold min3.
    assert (0 <= delta c (F1 ++ F') (Node b G1 :: G')) by (apply IH; sizes).
    assert (0 <= delta c (Node a F1 :: F') (G1 ++ G')) by (apply IH; sizes).
    assert (0 <= delta c F1 G1) by (apply IH; sizes).
    assert (0 <= delta c F' G') by (apply IH; sizes).
    specialize (Hd a). specialize (Hi b). specialize (Hr a b). lia.
Qed.

(* --- never more than delete-all plus insert-all ---------------------------------------- *)
Lemma delta_upper : forall c F G, delta c F G <= del_all c F + ins_all c G.
Proof.
  intros c. apply (forest_pair_ind (fun F G => delta c F G <= del_all c F + ins_all c G)). intros F G IH.
  destruct F as [|[a F1] F']; destruct G as [|[b G1] G'].
  - rewrite delta_nil_nil. cbn. lia.
  - rewrite delta_nil_cons, ins_all_cons. assert (H : delta c [] (G1 ++ G') <= del_all c [] + ins_all c (G1 ++ G')) by (apply IH; sizes).
    rewrite ins_all_app in H. lia.
  - rewrite delta_cons_nil, del_all_cons. assert (H : delta c (F1 ++ F') [] <= del_all c (F1 ++ F') + ins_all c []) by (apply IH; sizes).
    rewrite del_all_app in H. lia.
  - rewrite delta_cons_cons, del_all_cons. unfold min3.
    assert (H : delta c (F1 ++ F') (Node b G1 :: G') <= del_all c (F1 ++ F') + ins_all c (Node b G1 :: G')) by (apply IH; sizes).
    rewrite del_all_app in H. lia.
Qed.

(* --- a forest is at distance 0 from itself -------------------------------------------- *)
Lemma delta_self_zero : forall c, cost_nonneg c -> ren_refl c -> forall F, delta c F F = 0.
Proof.
  intros c Hnn Hrr.
  assert (H : forall F G, F = G -> delta c F G = 0).
  { apply (forest_pair_ind (fun F G => F = G -> delta c F G = 0)). intros F G IH E. subst G.
    destruct F as [|[a F1] F']; [reflexivity|].
    pose proof (delta_nonneg c Hnn (Node a F1 :: F') (Node a F1 :: F')) as Hge.
    rewrite delta_cons_cons in *. unfold min3 in *.
    assert (delta c F1 F1 = 0) by (apply IH; [sizes | reflexivity]).
    assert (delta c F' F' = 0) by (apply IH; [sizes | reflexivity]).
    specialize (Hrr a). lia. }
  intros F. apply H. reflexivity.
Qed.

(* --- symmetric for symmetric cost models ---------------------------------------------- *)
Definition cost_swap (c : cost) : cost := Build_cost (ins c) (del c) (fun a b => ren c b a).

Lemma delta_swap : forall c F G, delta c F G = delta (cost_swap c) G F.
Proof.
  intros c. apply (forest_pair_ind (fun F G => delta c F G = delta (cost_swap c) G F)). intros F G IH.
  destruct F as [|[a F1] F']; destruct G as [|[b G1] G'].
  - reflexivity.
  - rewrite delta_nil_cons, delta_cons_nil. rewrite (IH [] (G1 ++ G')) by sizes. reflexivity.
  - rewrite delta_nil_cons, delta_cons_nil. rewrite (IH (F1 ++ F') []) by sizes. reflexivity.
  - rewrite !delta_cons_cons.
    rewrite (IH (F1 ++ F') (Node b G1 :: G')) by sizes. rewrite (IH (Node a F1 :: F') (G1 ++ G')) by sizes.
    rewrite (IH F1 G1) by sizes. rewrite (IH F' G') by sizes. unfold min3. cbn [cost_swap del ins ren]. lia.
Qed.

Lemma delta_ext : forall c c', (forall a, del c a = del c' a) -> (forall a, ins c a = ins c' a) ->
  (forall a b, ren c a b = ren c' a b) -> forall F G, delta c F G = delta c' F G.
Proof.
  intros c c' Hd Hi Hr. apply (forest_pair_ind (fun F G => delta c F G = delta c' F G)). intros F G IH.
  destruct F as [|[a F1] F']; destruct G as [|[b G1] G'].
  - reflexivity.
  - rewrite !delta_nil_cons. rewrite IH by sizes. rewrite Hi. reflexivity.
  - rewrite !delta_cons_nil. rewrite IH by sizes. rewrite Hd. reflexivity.
  - rewrite !delta_cons_cons. rewrite (IH (F1 ++ F')), (IH (Node a F1 :: F')), (IH F1), (IH F') by sizes.
    rewrite Hd, Hi, Hr. reflexivity.
Qed.

Lemma delta_sym : forall c, cost_sym c -> forall F G, delta c F G = delta c G F.
Proof.
  intros c (Hdi & Hr) F G. rewrite delta_swap. apply delta_ext; intros; cbn [cost_swap del ins ren]; auto.
Qed.

(* delete-all of a single tree / forest is what the recurrence gives against the empty forest *)
Lemma delta_to_empty : forall c F, delta c F [] = del_all c F.
Proof.
  intros c F. remember (fsize F) as n eqn:E. revert F E. induction n as [n IH] using lt_wf_ind. intros F E.
  destruct F as [|[a F1] F']; [reflexivity|]. rewrite delta_cons_nil, del_all_cons.
  rewrite (IH (fsize (F1 ++ F'))); [rewrite del_all_app; lia | subst; sizes | reflexivity].
Qed.
Lemma delta_from_empty : forall c G, delta c [] G = ins_all c G.
Proof.
  intros c G. remember (fsize G) as n eqn:E. revert G E. induction n as [n IH] using lt_wf_ind. intros G E.
  destruct G as [|[b G1] G']; [reflexivity|]. rewrite delta_nil_cons, ins_all_cons.
  rewrite (IH (fsize (G1 ++ G'))); [rewrite ins_all_app; lia | subst; sizes | reflexivity].
Qed.
