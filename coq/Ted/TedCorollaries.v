(* C07 — statements assembled for Props/C07.v. *)
From Coq Require Import ZArith QArith String List Bool Lia.
From PV Require Import Gen.TedConst Ted.TedSpec Ted.TedProofs Ted.Cost Ted.CostProofs Ted.ZS Ted.TedSim Ted.TedBrute
  Ted.BoundedDefs Ted.BoundedDefault Ted.BoundedPython Ted.BoundedWeighted.
Import ListNotations.
Open Scope Z_scope.

Definition in_domain (a b : tree) : Prop := (In a T4 /\ In b T4) \/ (In a T3 /\ In b T3).
Definition bounded_cost (c : cost) : Prop := c = default_cost \/ c = c_python \/ c = c_weighted.

Lemma bounded_cost_shipped : forall c, bounded_cost c -> shipped c.
Proof.
  intros c [->|[->| ->]]; [left; reflexivity | right; left | right; right]; do 3 eexists; reflexivity.
Qed.

Lemma zs_exact_bounded : forall c a b, bounded_cost c -> in_domain a b ->
  ComputeDistance c (Some a) (Some b) = Some (ted c a b).
Proof.
  intros c a b [->|[->| ->]] [[Ha Hb]|[Ha Hb]].
  - apply (exact_check_sound _ _ exact_default_T4 a b Ha Hb).
  - apply (exact_check_sound _ _ exact_default_T3 a b Ha Hb).
  - apply (exact_check_sound _ _ exact_python_T4 a b Ha Hb).
  - apply (exact_check_sound _ _ exact_python_T3 a b Ha Hb).
  - apply (exact_check_sound _ _ exact_weighted_T4 a b Ha Hb).
  - apply (exact_check_sound _ _ exact_weighted_T3 a b Ha Hb).
Qed.

Lemma delta_is_min_bounded : forall c a b, bounded_cost c -> in_domain a b -> ted c a b = mapping_min c [a] [b].
Proof.
  intros c a b [->|[->| ->]] [[Ha Hb]|[Ha Hb]]; symmetry.
  - apply (exact_check_sound _ _ exact_default_T4 a b Ha Hb).
  - apply (exact_check_sound _ _ exact_default_T3 a b Ha Hb).
  - apply (exact_check_sound _ _ exact_python_T4 a b Ha Hb).
  - apply (exact_check_sound _ _ exact_python_T3 a b Ha Hb).
  - apply (exact_check_sound _ _ exact_weighted_T4 a b Ha Hb).
  - apply (exact_check_sound _ _ exact_weighted_T3 a b Ha Hb).
Qed.

(* the "consequently" clauses for the MODEL on the bounded domain *)
Lemma zs_clauses_bounded : forall c a b, bounded_cost c -> in_domain a b ->
  exists d d' da, ComputeDistance c (Some a) (Some b) = Some d /\ ComputeDistance c (Some b) (Some a) = Some d' /\
               ComputeDistance c (Some a) (Some a) = Some da /\
               da = 0 /\ d = d' /\ 0 <= d <= del_tree c a + ins_tree c b.
Proof.
  intros c a b Hc Hd. destruct (shipped_ok c (bounded_cost_shipped c Hc)) as (Hn & Hr & Hs).
  assert (Hd' : in_domain b a) by (destruct Hd as [[? ?]|[? ?]]; [left|right]; split; assumption).
  assert (Hda : in_domain a a) by (destruct Hd as [[? ?]|[? ?]]; [left|right]; split; assumption).
  exists (ted c a b), (ted c b a), (ted c a a).
  rewrite (zs_exact_bounded c a b Hc Hd), (zs_exact_bounded c b a Hc Hd'), (zs_exact_bounded c a a Hc Hda).
  repeat split; unfold ted.
  - apply delta_self_zero; assumption.
  - apply delta_sym; assumption.
  - apply delta_nonneg; assumption.
  - pose proof (delta_upper c [a] [b]) as H. unfold del_all, ins_all in H. cbn [map zsum fold_right] in H. lia.
Qed.
