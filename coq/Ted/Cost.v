(* C07 — the three shipped cost models (internal/analyzer/apted_cost.go, framework_patterns.go,
   the switch in clone_detector.go:274-295), over label strings, with every constant taken
   from Gen/TedConst.v (the float64 values of the Go literals, as exact rationals).
   [mk_cost] tabulates a string-level cost model on a label alphabet (codes = positions) and
   converts to integer units of 2^-120 (exact for the shipped constants: [units_exact]). *)
From Coq Require Import ZArith QArith Qround List String Ascii Bool.
From PV Require Import Gen.TedConst Ted.TedSpec.
Import ListNotations.
Open Scope Q_scope.

(* --- the few string functions the Go code uses (byte strings; labels are ASCII) --------- *)
Definition has_prefix (s pre : string) : bool := String.prefix pre s.          (* strings.HasPrefix(s, pre) *)
Fixpoint contains (s sub : string) : bool :=                                     (* strings.Contains(s, sub) *)
  String.prefix sub s || match s with EmptyString => false | String _ r => contains r sub end.
Definition lower_ascii (c : ascii) : ascii :=
  let n := nat_of_ascii c in if (Nat.leb 65 n && Nat.leb n 90)%bool then ascii_of_nat (n + 32) else c.
Fixpoint to_lower (s : string) : string :=                                       (* strings.ToLower, ASCII *)
  match s with EmptyString => EmptyString | String c r => String (lower_ascii c) (to_lower r) end.
Fixpoint index_of (c : ascii) (s : string) : option nat :=                       (* strings.Index(s, "c") *)
  match s with EmptyString => None | String d r => if Ascii.eqb c d then Some O else option_map S (index_of c r) end.
Fixpoint last_index_of (c : ascii) (s : string) : option nat :=                  (* strings.LastIndex(s, "c") *)
  match s with
  | EmptyString => None
  | String d r => match last_index_of c r with Some k => Some (S k) | None => if Ascii.eqb c d then Some O else None end
  end.

Record scost : Type := Build_scost { sdel : string -> Q; sins : string -> Q; sren : string -> string -> Q }.

(* --- DefaultCostModel (apted_cost.go:19-49) --------------------------------------------- *)
Definition default_scost : scost :=
  Build_scost (fun _ => ted_default_delete) (fun _ => ted_default_insert)
              (fun a b => if String.eqb a b then ted_default_rename_same else ted_default_rename_diff).

(* --- PythonCostModel (apted_cost.go:51-367) --------------------------------------------- *)
Record pycfg : Type := Build_pycfg {
  BaseInsertCost : Q; BaseDeleteCost : Q; BaseRenameCost : Q;
  IgnoreLiterals : bool; IgnoreIdentifiers : bool; ReduceBoilerplateWeight : bool; BoilerplateMultiplier : Q }.

(* NewPythonCostModel / NewPythonCostModelWithBoilerplateConfig(ignL, ignI, true, 0.1) *)
Definition py_default_cfg (ignL ignI : bool) : pycfg :=
  Build_pycfg ted_py_BaseInsertCost ted_py_BaseDeleteCost ted_py_BaseRenameCost ignL ignI
              ted_py_ReduceBoilerplateWeight ted_py_BoilerplateMultiplier.

(* framework_patterns.go:11-47 *)
Definition IsBoilerplateLabel (label : string) : bool :=
  existsb (has_prefix label) ted_bp_prefixes
  || existsb (contains (to_lower label)) ted_bp_lower_contains
  || existsb (contains label) ted_bp_contains.

Definition isStructuralNode (l : string) := existsb (has_prefix l) ted_py_structuralNodes.
Definition isControlFlowNode (l : string) := existsb (has_prefix l) ted_py_controlFlowNodes.
Definition isExpressionNode (l : string) := existsb (has_prefix l) ted_py_expressionNodes.
Definition isLiteralNode (l : string) := has_prefix l ted_py_literal_prefix.
Definition isIdentifierNode (l : string) := has_prefix l ted_py_identifier_prefix.

(* apted_cost.go:158-192 *)
Definition getNodeTypeMultiplier (c : pycfg) (label : string) : Q :=
  if (ReduceBoilerplateWeight c && IsBoilerplateLabel label)%bool then BoilerplateMultiplier c
  else if isStructuralNode label then ted_py_mult_structural
  else if isControlFlowNode label then ted_py_mult_controlflow
  else if isExpressionNode label then ted_py_mult_expression
  else if (isLiteralNode label && IgnoreLiterals c)%bool then ted_py_mult_literal_ignored
  else if (isIdentifierNode label && IgnoreIdentifiers c)%bool then ted_py_mult_identifier_ignored
  else ted_py_mult_other.

Definition lparen : ascii := "("%char.
Definition rparen : ascii := ")"%char.

(* apted_cost.go:305-311 *)
Definition extractBaseNodeType (label : string) : string :=
  match index_of lparen label with Some idx => String.substring 0 idx label | None => label end.
(* apted_cost.go:321-329 *)
Definition extractNameFromLabel (label : string) : string :=
  match index_of lparen label, last_index_of rparen label with
  | Some st, Some en => if Nat.ltb st en then String.substring (S st) (en - S st) label else EmptyString
  | _, _ => EmptyString
  end.
Definition isTopLevelDefinition (b : string) : bool := existsb (String.eqb b) ted_py_toplevel.
Definition areRelatedNodeTypes (t1 t2 : string) : bool :=
  existsb (fun p => (String.eqb t1 (fst p) && String.eqb t2 (snd p)) || (String.eqb t1 (snd p) && String.eqb t2 (fst p)))%bool
          ted_py_relatedPairs.
Definition areSameCategory (t1 t2 : string) : bool :=
  (isStructuralNode t1 && isStructuralNode t2) || (isControlFlowNode t1 && isControlFlowNode t2)
  || (isExpressionNode t1 && isExpressionNode t2).
Definition shouldIgnoreDifference (c : pycfg) (l1 l2 : string) : bool :=
  (IgnoreLiterals c && isLiteralNode l1 && isLiteralNode l2) || (IgnoreIdentifiers c && isIdentifierNode l1 && isIdentifierNode l2).

(* apted_cost.go:272-303 *)
Definition calculateLabelSimilarity (l1 l2 : string) : Q :=
  let b1 := extractBaseNodeType l1 in
  let b2 := extractBaseNodeType l2 in
  if String.eqb b1 b2 then
    if (isTopLevelDefinition b1 && negb (String.eqb (extractNameFromLabel l1) (extractNameFromLabel l2)))%bool
    then ted_py_sim_toplevel_other_name else ted_py_sim_same_base
  else if areRelatedNodeTypes b1 b2 then ted_py_sim_related
  else if areSameCategory b1 b2 then ted_py_sim_same_category
  else ted_py_sim_none.

Definition python_scost (c : pycfg) : scost :=
  Build_scost (fun l => BaseDeleteCost c * getNodeTypeMultiplier c l)
              (fun l => BaseInsertCost c * getNodeTypeMultiplier c l)
              (fun l1 l2 => if String.eqb l1 l2 then 0
                            else if shouldIgnoreDifference c l1 l2 then 0
                            else BaseRenameCost c * (1 - calculateLabelSimilarity l1 l2)).

(* --- WeightedCostModel as NewCloneDetector builds it (clone_detector.go:285-292) ------- *)
Definition weighted_scost (base : scost) : scost :=
  Build_scost (fun l => ted_weighted_delete * sdel base l) (fun l => ted_weighted_insert * sins base l)
              (fun a b => ted_weighted_rename * sren base a b).

(* --- integer units ------------------------------------------------------------------------ *)
Definition ted_scale : positive := (2 ^ 120)%positive.
Definition to_units (q : Q) : Z := Qfloor (q * inject_Z (Zpos ted_scale)).
Definition units_exact (q : Q) : bool := Qeq_bool (inject_Z (to_units q)) (q * inject_Z (Zpos ted_scale)).

Definition nthZ (l : list Z) (i : N) : Z := match nth_error l (N.to_nat i) with Some v => v | None => 0%Z end.

(* tabulated cost model on the alphabet [tbl]: label code = position in [tbl] *)
Definition mk_cost (sc : scost) (tbl : list string) : cost :=
  let d := map (fun s => to_units (sdel sc s)) tbl in
  let i := map (fun s => to_units (sins sc s)) tbl in
  let r := map (fun s1 => map (fun s2 => to_units (sren sc s1 s2)) tbl) tbl in
  Build_cost (nthZ d) (nthZ i)
             (fun a b => match nth_error r (N.to_nat a) with Some row => nthZ row b | None => 0%Z end).

Definition mk_cost_exact (sc : scost) (tbl : list string) : bool :=
  forallb (fun s => units_exact (sdel sc s) && units_exact (sins sc s) && forallb (fun s2 => units_exact (sren sc s s2)) tbl)%bool tbl.

(* default model directly on label codes, unit 1 (distinct codes = distinct label strings) *)
Definition default_cost : cost :=
  Build_cost (fun _ => Qfloor ted_default_delete) (fun _ => Qfloor ted_default_insert)
             (fun a b => if N.eqb a b then Qfloor ted_default_rename_same else Qfloor ted_default_rename_diff).

(* a cost model together with the number of units per 1.0 *)
Record cmodel : Type := Build_cmodel { cm_cost : cost; cm_scale : positive }.
Definition cm_default : cmodel := Build_cmodel default_cost 1.
Definition cm_python (ignL ignI : bool) (tbl : list string) : cmodel :=
  Build_cmodel (mk_cost (python_scost (py_default_cfg ignL ignI)) tbl) ted_scale.
Definition cm_weighted (ignL ignI : bool) (tbl : list string) : cmodel :=
  Build_cmodel (mk_cost (weighted_scost (python_scost (py_default_cfg ignL ignI))) tbl) ted_scale.

(* float view of a tabulated cost model, for the comparison with the implementation's tables *)
Definition cost_table_Q (sc : scost) (tbl : list string) : list Q * list Q * list (list Q) :=
  (map (fun s => Qred (sdel sc s)) tbl, map (fun s => Qred (sins sc s)) tbl,
   map (fun s1 => map (fun s2 => Qred (sren sc s1 s2)) tbl) tbl).
