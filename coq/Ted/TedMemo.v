(* C07 — a memoised evaluator for the spec [delta], PROVED equal to it ([delta_memo_eq]).
   [delta] itself takes exponential time; the correspondence check evaluates [delta_memo].
   The memo table is keyed by pre-order positions (only a hash: a hit is accepted only after
   comparing the stored forests with the queried ones, so correctness does not depend on keys). *)
From Coq Require Import ZArith List Lia Bool FMapPositive.
From PV Require Import Ted.TedSpec Ted.TedProofs.
Import ListNotations.
Open Scope Z_scope.

Fixpoint tree_eqb (s t : tree) : bool :=
  match s, t with
  | Node a cs, Node b ds =>
    N.eqb a b && (fix go (cs ds : list tree) : bool :=
                    match cs, ds with
                    | [], [] => true
                    | c :: cr, d :: dr => tree_eqb c d && go cr dr
                    | _, _ => false
                    end) cs ds
  end.
Fixpoint forest_eqb (f g : forest) : bool :=
  match f, g with [], [] => true | s :: f', t :: g' => tree_eqb s t && forest_eqb f' g' | _, _ => false end.

Lemma tree_eqb_node : forall a cs b ds, tree_eqb (Node a cs) (Node b ds) = N.eqb a b && forest_eqb cs ds.
Proof. intros. cbn [tree_eqb]. f_equal. Qed.

Lemma eqb_eq_both : (forall s t, tree_eqb s t = true -> s = t) /\ (forall f g, forest_eqb f g = true -> f = g).
Proof.
  apply tree_forest_ind.
  - intros l cs IH [b ds] H. rewrite tree_eqb_node in H. apply andb_prop in H. destruct H as [H1 H2].
    apply N.eqb_eq in H1. apply IH in H2. subst. reflexivity.
  - intros [|t g] H; [reflexivity | discriminate].
  - intros t r IHt IHr [|s g] H; [discriminate|]. cbn [forest_eqb] in H. apply andb_prop in H. destruct H as [H1 H2].
    apply IHt in H1. apply IHr in H2. subst. reflexivity.
Qed.
Definition forest_eqb_eq := proj2 eqb_eq_both.

Definition memo := PositiveMap.t (list (forest * forest * Z)).
Definition mkkey (p e q f : N) : positive := N.succ_pos (((p * 1024 + e) * 1024 + q) * 1024 + f).
Definition bucket (k : positive) (m : memo) := match PositiveMap.find k m with Some l => l | None => [] end.
Fixpoint find_entry (F G : forest) (l : list (forest * forest * Z)) : option Z :=
  match l with
  | [] => None
  | (F', G', v) :: r => if forest_eqb F F' && forest_eqb G G' then Some v else find_entry F G r
  end.
Definition lookup (k : positive) (F G : forest) (m : memo) : option Z := find_entry F G (bucket k m).
Definition insert (k : positive) (F G : forest) (v : Z) (m : memo) : memo := PositiveMap.add k ((F, G, v) :: bucket k m) m.

Fixpoint dm (c : cost) (fuel : nat) (F G : forest) (pF eF pG eG : N) (m : memo) {struct fuel} : Z * memo :=
  match fuel with
  | O => (0, m)
  | S fuel =>
    let k := mkkey pF eF pG eG in
    match lookup k F G m with
    | Some v => (v, m)
    | None =>
      let '(v, m') :=
        match F, G with
        | [], [] => (0, m)
        | Node a F1 :: F', [] =>
            let '(x, m1) := dm c fuel (F1 ++ F') [] (pF + 1) eF pG eG m in (x + del c a, m1)
        | [], Node b G1 :: G' =>
            let '(x, m1) := dm c fuel [] (G1 ++ G') pF eF (pG + 1) eG m in (x + ins c b, m1)
        | Node a F1 :: F', Node b G1 :: G' =>
            let sa := N.of_nat (S (fsize F1)) in
            let sb := N.of_nat (S (fsize G1)) in
            let '(x, m1) := dm c fuel (F1 ++ F') G (pF + 1) eF pG eG m in
            let '(y, m2) := dm c fuel F (G1 ++ G') pF eF (pG + 1) eG m1 in
            let '(z1, m3) := dm c fuel F1 G1 (pF + 1) (pF + sa) (pG + 1) (pG + sb) m2 in
            let '(z2, m4) := dm c fuel F' G' (pF + sa) eF (pG + sb) eG m3 in
            (min3 (x + del c a) (y + ins c b) (z1 + z2 + ren c a b), m4)
        end in
      (v, insert k F G v m')
    end
  end.

Definition delta_memo (c : cost) (F G : forest) : Z :=
  fst (dm c (S (fsize F + fsize G)) F G 0 (N.of_nat (fsize F)) 0 (N.of_nat (fsize G)) (PositiveMap.empty _)).

(* --- correctness ------------------------------------------------------------------------- *)
Definition memo_ok (c : cost) (m : memo) : Prop := forall k F G v, In (F, G, v) (bucket k m) -> v = delta c F G.

Lemma find_entry_ok : forall c l F G v, (forall F' G' v', In (F', G', v') l -> v' = delta c F' G') ->
  find_entry F G l = Some v -> v = delta c F G.
Proof.
  intros c. induction l as [|[[F' G'] v'] r IH]; intros F G v Hok H; [discriminate|]. cbn [find_entry] in H.
  destruct (forest_eqb F F' && forest_eqb G G') eqn:E.
  - apply andb_prop in E. destruct E as [E1 E2]. apply forest_eqb_eq in E1. apply forest_eqb_eq in E2. subst.
    injection H as <-. apply Hok. left. reflexivity.
  - apply IH; [|exact H]. intros. apply Hok. right. assumption.
Qed.

Lemma lookup_ok : forall c m k F G v, memo_ok c m -> lookup k F G m = Some v -> v = delta c F G.
Proof. intros c m k F G v Hok H. unfold lookup in H. eapply find_entry_ok; [|exact H]. intros. eapply Hok. eassumption. Qed.

Lemma insert_ok : forall c m k F G v, memo_ok c m -> v = delta c F G -> memo_ok c (insert k F G v m).
Proof.
  intros c m k F G v Hok Hv k' F' G' v' Hin. unfold insert, bucket in Hin.
  destruct (Pos.eq_dec k k') as [->|Hne].
  - rewrite PositiveMap.gss in Hin. destruct Hin as [E|Hin]; [injection E as <- <- <-; exact Hv|]. eapply Hok. exact Hin.
  - rewrite PositiveMap.gso in Hin by congruence. eapply Hok. exact Hin.
Qed.

Lemma empty_ok : forall c, memo_ok c (PositiveMap.empty _).
Proof. intros c k F G v H. unfold bucket in H. rewrite PositiveMap.gempty in H. destruct H. Qed.

Lemma dm_correct : forall c fuel F G pF eF pG eG m, memo_ok c m -> (fsize F + fsize G < fuel)%nat ->
  fst (dm c fuel F G pF eF pG eG m) = delta c F G /\ memo_ok c (snd (dm c fuel F G pF eF pG eG m)).
Proof.
  intros c. induction fuel as [|fuel IH]; intros F G pF eF pG eG m Hok Hf; [lia|].
  cbn [dm]. destruct (lookup (mkkey pF eF pG eG) F G m) as [v|] eqn:EL.
  - cbn [fst snd]. split; [eapply lookup_ok; eassumption | exact Hok].
  - destruct F as [|[a F1] F']; destruct G as [|[b G1] G'].
    + cbn [fst snd]. split; [reflexivity | apply insert_ok; [exact Hok | reflexivity]].
    + destruct (IH [] (G1 ++ G') pF eF (pG + 1)%N eG m Hok) as [H1 H2].
      { rewrite fsize_cons, tsize_node in Hf. rewrite fsize_app. cbn [fsize map list_sum] in *. lia. }
      destruct (dm c fuel [] (G1 ++ G') pF eF (pG + 1)%N eG m) as [x m1]. cbn [fst snd] in *.
      assert (E : x + ins c b = delta c [] (Node b G1 :: G')) by (rewrite delta_nil_cons; congruence).
      split; [exact E | apply insert_ok; [exact H2 | exact E]].
    + destruct (IH (F1 ++ F') [] (pF + 1)%N eF pG eG m Hok) as [H1 H2].
      { rewrite fsize_cons, tsize_node in Hf. rewrite fsize_app. cbn [fsize map list_sum] in *. lia. }
      destruct (dm c fuel (F1 ++ F') [] (pF + 1)%N eF pG eG m) as [x m1]. cbn [fst snd] in *.
      assert (E : x + del c a = delta c (Node a F1 :: F') []) by (rewrite delta_cons_nil; congruence).
      split; [exact E | apply insert_ok; [exact H2 | exact E]].
    + rewrite !fsize_cons, !tsize_node in Hf.
      set (sa := N.of_nat (S (fsize F1))). set (sb := N.of_nat (S (fsize G1))).
      destruct (IH (F1 ++ F') (Node b G1 :: G') (pF + 1)%N eF pG eG m Hok) as [H1 K1].
      { rewrite fsize_app, fsize_cons, tsize_node. lia. }
      destruct (dm c fuel (F1 ++ F') (Node b G1 :: G') (pF + 1)%N eF pG eG m) as [x m1]. cbn [fst snd] in H1, K1.
      destruct (IH (Node a F1 :: F') (G1 ++ G') pF eF (pG + 1)%N eG m1 K1) as [H2 K2].
      { rewrite fsize_app, fsize_cons, tsize_node. lia. }
      destruct (dm c fuel (Node a F1 :: F') (G1 ++ G') pF eF (pG + 1)%N eG m1) as [y m2]. cbn [fst snd] in H2, K2.
      destruct (IH F1 G1 (pF + 1)%N (pF + sa)%N (pG + 1)%N (pG + sb)%N m2 K2) as [H3 K3]; [lia|].
      destruct (dm c fuel F1 G1 (pF + 1)%N (pF + sa)%N (pG + 1)%N (pG + sb)%N m2) as [z1 m3]. cbn [fst snd] in H3, K3.
      destruct (IH F' G' (pF + sa)%N eF (pG + sb)%N eG m3 K3) as [H4 K4]; [lia|].
      destruct (dm c fuel F' G' (pF + sa)%N eF (pG + sb)%N eG m3) as [z2 m4]. cbn [fst snd] in H4, K4.
      cbn [fst snd].
      assert (E : min3 (x + del c a) (y + ins c b) (z1 + z2 + ren c a b) = delta c (Node a F1 :: F') (Node b G1 :: G'))
        by (rewrite delta_cons_cons; congruence).
      split; [exact E | apply insert_ok; [exact K4 | exact E]].
Qed.

Theorem delta_memo_eq : forall c F G, delta_memo c F G = delta c F G.
Proof. intros. unfold delta_memo. apply dm_correct; [apply empty_ok | lia]. Qed.
