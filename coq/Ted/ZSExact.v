(* C07 — the Zhang–Shasha model computes exactly the spec, for ALL trees and ALL cost models:
   [zs_exact : zs c t1 t2 = ted c t1 t2], hence ComputeDistance on the exact path (both trees
   at most 500 nodes) returns [Some (ted c t1 t2)].
   Key roots are processed in increasing order; the td entries read by computeForestDistance
   for the pair (i, j) were written while an earlier pair of key roots was processed. *)
From Coq Require Import ZArith NArith Nnat List Lia Bool Arith FMapPositive Sorting.Mergesort Sorted Permutation ZifyBool ZifyNat ZifyN.
From PV Require Import Gen.TedConst Ted.TedSpec Ted.TedProofs Ted.TedRight Ted.ZS Ted.ZSPost Ted.ZSPrepare Ted.ZSTable.
Import ListNotations.
Open Scope N_scope.

Lemma fold_left_prefix_inv : forall (A St : Type) (f : St -> A -> St) (I : list A -> St -> Prop) l s,
  I [] s -> (forall pre x post s, l = pre ++ x :: post -> I pre s -> I (pre ++ [x]) (f s x)) -> I l (fold_left f l s).
Proof.
  intros A St f I l s H0 Hstep.
  assert (G : forall rest pre s, l = pre ++ rest -> I pre s -> I l (fold_left f rest s)).
  { induction rest as [|x rest IH]; intros pre s0 E Hs.
    - rewrite app_nil_r in E. subst. exact Hs.
    - cbn [fold_left]. apply (IH (pre ++ [x])); [rewrite <- app_assoc; exact E | apply (Hstep pre x rest); assumption]. }
  apply (G l [] s); [reflexivity | exact H0].
Qed.

Lemma sorted_split : forall pre i post k, StronglySorted (fun x y => is_true (N.leb x y)) (pre ++ i :: post) ->
  In k (pre ++ i :: post) -> k < i -> In k pre.
Proof.
  induction pre as [|p pre IH]; intros i post k HS Hin Hlt.
  - cbn [app] in *. inversion HS as [|? ? _ Hall]; subst. destruct Hin as [E|Hin]; [lia|].
    rewrite Forall_forall in Hall. specialize (Hall k Hin). apply N.leb_le in Hall. lia.
  - cbn [app] in *. inversion HS as [|? ? HS' _]; subst. destruct Hin as [E|Hin]; [left; exact E|].
    right. apply (IH i post k HS' Hin Hlt).
Qed.

Lemma keyroots_ok_perm : forall t K K', Permutation K K' -> keyroots_ok t K -> keyroots_ok t K'.
Proof.
  intros t K K' HP (H1 & H2 & H3). assert (HP' : Permutation K' K) by (apply Permutation_sym; exact HP). split; [|split].
  - intros k Hk. apply H1. apply (Permutation_in _ HP' Hk).
  - intros x Hx. destruct (H2 x Hx) as (k & Hk & Hr). exists k. split; [apply (Permutation_in _ HP Hk) | exact Hr].
  - intros k k' Hk Hk'. apply H3; [apply (Permutation_in _ HP' Hk) | apply (Permutation_in _ HP' Hk')].
Qed.

Lemma sort_Ints_sorted : forall l, StronglySorted (fun x y => is_true (N.leb x y)) (sort_Ints l).
Proof.
  intros l. apply NSort.StronglySorted_sort. intros x y z Hxy Hyz. unfold is_true in *.
  apply N.leb_le in Hxy. apply N.leb_le in Hyz. apply N.leb_le. lia.
Qed.

(* nesting of left-most leaves: a node inside the span of i has its left-most leaf inside it too *)
Lemma lmlT_nest : forall t i x, i < size t -> lmlT t i <= x -> x <= i -> lmlT t i <= lmlT t x.
Proof. intros t i x Hi H1 H2. exact (proj1 (pf_step t i x Hi H1 H2)). Qed.

Section Apted.
Variable c : cost.
Variables t1 t2 : tree.
Variables K1 K2 : list N.
Hypothesis HK1 : keyroots_ok t1 K1.
Hypothesis HK2 : keyroots_ok t2 K2.
Hypothesis HS1 : StronglySorted (fun x y => is_true (N.leb x y)) K1.
Hypothesis HS2 : StronglySorted (fun x y => is_true (N.leb x y)) K2.

Notation nodes1 := (getPostOrderNodes (fst (PrepareTreeForAPTED t1))).
Notation nodes2 := (getPostOrderNodes (fst (PrepareTreeForAPTED t2))).

(* the td entry for (x, y) is written while the key roots of x and y are processed *)
Definition avail (P : N -> N -> Prop) (x y : N) : Prop :=
  exists k1 k2, In k1 K1 /\ In k2 K2 /\ lmlT t1 k1 = lmlT t1 x /\ x <= k1 /\ lmlT t2 k2 = lmlT t2 y /\ y <= k2 /\ P k1 k2.

(* the key root of a node strictly inside the span of key root i, with another left-most leaf, comes before i *)
Lemma keyroot_before : forall t K pre i post x k, keyroots_ok t K -> StronglySorted (fun x y => is_true (N.leb x y)) K ->
  K = pre ++ i :: post -> lmlT t i <= x -> x <= i -> In k K -> lmlT t k = lmlT t x -> x <= k ->
  (lmlT t x = lmlT t i -> k = i) /\ (lmlT t x <> lmlT t i -> In k pre).
Proof.
  intros t K pre i post x k (H1 & H2 & H3) HS EK Hx1 Hx2 Hk El Hle.
  assert (HiK : In i K) by (rewrite EK; apply in_or_app; right; left; reflexivity).
  pose proof (H1 i HiK) as Hi. pose proof (H1 k Hk) as Hks. split.
  - intros E. apply H3; [exact Hk | exact HiK | congruence].
  - intros Hne. rewrite EK in HS, Hk. apply (sorted_split pre i post k HS Hk).
    destruct (N.lt_ge_cases k i) as [Hlt|Hge]; [exact Hlt|exfalso].
    pose proof (lmlT_nest t i x Hi Hx1 Hx2) as N1.
    assert (Hxs : x < size t) by lia. pose proof (lmlT_le t x Hxs) as Lx.
    pose proof (lmlT_nest t k i Hks ltac:(lia) Hge) as N2. lia.
Qed.

Lemma cfd_step : forall pre1 i post1 pre2 j post2 td, K1 = pre1 ++ i :: post1 -> K2 = pre2 ++ j :: post2 ->
  TDok c t1 t2 td (avail (fun k1 k2 => In k1 pre1 \/ (k1 = i /\ In k2 pre2))) ->
  TDok c t1 t2 (computeForestDistance c nodes1 nodes2 i j td) (avail (fun k1 k2 => In k1 pre1 \/ (k1 = i /\ In k2 (pre2 ++ [j])))).
Proof.
  intros pre1 i post1 pre2 j post2 td E1 E2 HT.
  assert (HiK : In i K1) by (rewrite E1; apply in_or_app; right; left; reflexivity).
  assert (HjK : In j K2) by (rewrite E2; apply in_or_app; right; left; reflexivity).
  pose proof (proj1 HK1 i HiK) as Hi. pose proof (proj1 HK2 j HjK) as Hj.
  pose proof (cfd_spec c t1 t2 nodes1 nodes2 (prepare_node_at t1) (prepare_node_at t2)
                (prepare_nodes_length t1) (prepare_nodes_length t2) i j Hi Hj
                (avail (fun k1 k2 => In k1 pre1 \/ (k1 = i /\ In k2 pre2)))) as Hspec.
  assert (HA0 : forall x y, lmlT t1 i <= x -> x <= i -> lmlT t2 j <= y -> y <= j ->
            ~ (lmlT t1 x = lmlT t1 i /\ lmlT t2 y = lmlT t2 j) -> avail (fun k1 k2 => In k1 pre1 \/ (k1 = i /\ In k2 pre2)) x y).
  { intros x y Hx1 Hx2 Hy1 Hy2 Hne.
    destruct (proj1 (proj2 HK1) x ltac:(lia)) as (k1 & Hk1 & El1 & Hle1).
    destruct (proj1 (proj2 HK2) y ltac:(lia)) as (k2 & Hk2 & El2 & Hle2).
    destruct (keyroot_before t1 K1 pre1 i post1 x k1 HK1 HS1 E1 Hx1 Hx2 Hk1 El1 Hle1) as [A1 A2].
    destruct (keyroot_before t2 K2 pre2 j post2 y k2 HK2 HS2 E2 Hy1 Hy2 Hk2 El2 Hle2) as [B1 B2].
    exists k1, k2. repeat (split; [assumption|]).
    destruct (N.eq_dec (lmlT t1 x) (lmlT t1 i)) as [Ex|Ex]; [|left; apply A2; exact Ex].
    right. split; [apply A1; exact Ex|]. apply B2. intros Ey. apply Hne. split; assumption. }
  specialize (Hspec HA0 td HT). intros x y (k1 & k2 & Hk1 & Hk2 & El1 & Hle1 & El2 & Hle2 & HP). apply Hspec.
  destruct HP as [HP|[Ek1 HP]]; [left; exists k1, k2; repeat (split; [assumption|]); left; exact HP|].
  apply in_app_or in HP. destruct HP as [HP|HP].
  - left. exists k1, k2. repeat (split; [assumption|]). right. split; assumption.
  - cbn in HP. destruct HP as [Ek2|[]]. subst k1 k2. right.
    assert (Hxs : x < size t1) by lia. assert (Hys : y < size t2) by lia.
    pose proof (lmlT_le t1 x Hxs). pose proof (lmlT_le t2 y Hys). lia.
Qed.

Lemma apted_td : TDok c t1 t2
  (fold_left (fun td i => fold_left (fun td j => computeForestDistance c nodes1 nodes2 i j td) K2 td) K1 (PositiveMap.empty _))
  (avail (fun _ _ => True)).
Proof.
  assert (H : TDok c t1 t2
    (fold_left (fun td i => fold_left (fun td j => computeForestDistance c nodes1 nodes2 i j td) K2 td) K1 (PositiveMap.empty _))
    (avail (fun k1 _ => In k1 K1))).
  { apply (fold_left_prefix_inv _ _ (fun td i => fold_left (fun td j => computeForestDistance c nodes1 nodes2 i j td) K2 td)
             (fun pre1 td => TDok c t1 t2 td (avail (fun k1 _ => In k1 pre1)))).
    - intros x y (k1 & k2 & _ & _ & _ & _ & _ & _ & []).
    - intros pre1 i post1 td E1 HT.
      assert (H : TDok c t1 t2 (fold_left (fun td j => computeForestDistance c nodes1 nodes2 i j td) K2 td)
                    (avail (fun k1 k2 => In k1 pre1 \/ (k1 = i /\ In k2 K2)))).
      { apply (fold_left_prefix_inv _ _ (fun td j => computeForestDistance c nodes1 nodes2 i j td)
                 (fun pre2 td => TDok c t1 t2 td (avail (fun k1 k2 => In k1 pre1 \/ (k1 = i /\ In k2 pre2))))).
        - intros x y (k1 & k2 & Hk1 & Hk2 & El1 & Hle1 & El2 & Hle2 & HP). apply HT.
          exists k1, k2. repeat (split; [assumption|]). destruct HP as [HP|[_ []]]. exact HP.
        - intros pre2 j post2 td' E2 HT'. apply (cfd_step pre1 i post1 pre2 j post2 td' E1 E2 HT'). }
      intros x y (k1 & k2 & Hk1 & Hk2 & El1 & Hle1 & El2 & Hle2 & HP). apply H.
      exists k1, k2. repeat (split; [assumption|]). apply in_app_or in HP. destruct HP as [HP|HP]; [left; exact HP|].
      cbn in HP. destruct HP as [E|[]]. right. split; [symmetry; exact E | exact Hk2]. }
  intros x y (k1 & k2 & Hk1 & Hk2 & Hr). apply H. exists k1, k2. tauto.
Qed.
End Apted.

Lemma sub_root : forall t, sub t (size t - 1) = t.
Proof. intros t. unfold sub, size. replace (N.to_nat (N.of_nat (tsize t) - 1)) with (tsize t - 1)%nat by lia. apply post_last. Qed.

(* the exact path of the model = the spec *)
Theorem zs_exact : forall c t1 t2, zs c t1 t2 = ted c t1 t2.
Proof.
  intros c t1 t2. unfold zs.
  destruct (PrepareTreeForAPTED t1) as [a1 kr1] eqn:E1. destruct (PrepareTreeForAPTED t2) as [a2 kr2] eqn:E2.
  pose proof (keyroots_spec t1) as HK1. pose proof (keyroots_spec t2) as HK2. rewrite E1 in HK1. rewrite E2 in HK2. cbn [snd] in HK1, HK2.
  pose proof (keyroots_ok_perm t1 _ _ (NSort.Permuted_sort kr1) HK1) as HK1'.
  pose proof (keyroots_ok_perm t2 _ _ (NSort.Permuted_sort kr2) HK2) as HK2'.
  pose proof (apted_td c t1 t2 (sort_Ints kr1) (sort_Ints kr2) HK1' HK2' (sort_Ints_sorted kr1) (sort_Ints_sorted kr2)) as HT.
  rewrite E1, E2 in HT. cbn [fst] in HT.
  unfold apted.
  pose proof (prepare_nodes_length t1) as L1. pose proof (prepare_nodes_length t2) as L2. rewrite E1 in L1. rewrite E2 in L2. cbn [fst] in L1, L2.
  rewrite L1, L2. pose proof (size_pos t1) as P1. pose proof (size_pos t2) as P2.
  pose proof (HT (size t1 - 1) (size t2 - 1)) as HH.
  replace (size t1 - 1 + 1) with (size t1) in HH by lia. replace (size t2 - 1 + 1) with (size t2) in HH by lia.
  rewrite HH.
  - unfold TD, ted. rewrite !sub_root. reflexivity.
  - destruct (proj1 (proj2 HK1') (size t1 - 1) ltac:(lia)) as (k1 & Hk1 & El1 & Hle1).
    destruct (proj1 (proj2 HK2') (size t2 - 1) ltac:(lia)) as (k2 & Hk2 & El2 & Hle2).
    exists k1, k2. repeat (split; [assumption|]). exact I.
Qed.

Theorem ComputeDistance_is_ted : forall c t1 t2, (tsize t1 <= 500)%nat -> (tsize t2 <= 500)%nat ->
  ComputeDistance c (Some t1) (Some t2) = Some (ted c t1 t2).
Proof.
  intros c t1 t2 H1 H2. unfold ComputeDistance.
  replace ((Z.of_N (Size t1) >? ted_exact_limit)%Z || (Z.of_N (Size t2) >? ted_exact_limit)%Z)%bool with false.
  - pose proof (zs_exact c t1 t2) as H. unfold zs in H.
    destruct (PrepareTreeForAPTED t1) as [a1 kr1]. destruct (PrepareTreeForAPTED t2) as [a2 kr2]. rewrite H. reflexivity.
  - unfold Size, ted_exact_limit. rewrite !Z.gtb_ltb. symmetry. apply orb_false_intro; apply Z.ltb_ge; lia.
Qed.

(* outside the exact path the model is undefined (computeDistanceOptimized is not modelled) *)
Lemma ComputeDistance_large : forall c t1 t2, (500 < tsize t1)%nat \/ (500 < tsize t2)%nat ->
  ComputeDistance c (Some t1) (Some t2) = None.
Proof.
  intros c t1 t2 H. unfold ComputeDistance.
  replace ((Z.of_N (Size t1) >? ted_exact_limit)%Z || (Z.of_N (Size t2) >? ted_exact_limit)%Z)%bool with true; [reflexivity|].
  unfold Size, ted_exact_limit. symmetry. apply orb_true_iff. rewrite !Z.gtb_ltb, !Z.ltb_lt. lia.
Qed.
