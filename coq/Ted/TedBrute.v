(* C07 — an independent definition of "minimum edit cost" for validation of the spec:
   the minimum, over ALL Tai mappings between the node sets of two forests, of
   (renames of mapped pairs + deletions of unmapped left nodes + insertions of unmapped right nodes).
   A Tai mapping is a one-to-one partial map that preserves the ancestor relation and the
   left-to-right order, i.e. that preserves both the pre-order and the post-order comparison
   of every two mapped nodes.  Enumerated by brute force; usable for tiny forests only.
   Also: enumeration of all trees of a given size over a label alphabet. *)
From Coq Require Import ZArith List Bool.
From PV Require Import Ted.TedSpec.
Import ListNotations.
Open Scope Z_scope.

(* node = (pre-order index, post-order index, label) within its forest *)
Definition pnode := (N * N * N)%type.
Fixpoint pp_tree (t : tree) (pre post : N) : list pnode * (N * N) :=
  match t with
  | Node l cs =>
    let '(ns, (pre', post')) :=
      (fix go (cs : list tree) (pre post : N) : list pnode * (N * N) :=
         match cs with
         | [] => ([], (pre, post))
         | c :: r => let '(n1, (p1, q1)) := pp_tree c pre post in
                     let '(n2, pq) := go r p1 q1 in (n1 ++ n2, pq)
         end) cs (pre + 1)%N post in
    ((pre, post', l) :: ns, (pre', (post' + 1)%N))
  end.
Fixpoint pp_forest (f : forest) (pre post : N) : list pnode :=
  match f with
  | [] => []
  | t :: r => let '(n1, (p1, q1)) := pp_tree t pre post in n1 ++ pp_forest r p1 q1
  end.

Definition pre_of (x : pnode) := fst (fst x).
Definition post_of (x : pnode) := snd (fst x).
Definition lab_of (x : pnode) := snd x.

(* (u,v) may be added to a mapping containing (u',v') *)
Definition compatible (u v u' v' : pnode) : bool :=
  negb (pre_of v =? pre_of v')%N
  && Bool.eqb (pre_of u' <? pre_of u)%N (pre_of v' <? pre_of v)%N
  && Bool.eqb (post_of u' <? post_of u)%N (post_of v' <? post_of v)%N.

Definition minl (d : Z) (l : list Z) : Z := fold_left Z.min l d.

(* remaining left nodes [us] (distinct, each considered once), current mapping [m] *)
Fixpoint best (c : cost) (vs : list pnode) (us : list pnode) (m : list (pnode * pnode)) : Z :=
  match us with
  | [] => fold_left (fun acc v => if existsb (fun p => (pre_of (snd p) =? pre_of v)%N) m then acc else acc + ins c (lab_of v)) vs 0
  | u :: us' =>
      minl (del c (lab_of u) + best c vs us' m)
           (map (fun v => ren c (lab_of u) (lab_of v) + best c vs us' ((u, v) :: m))
                (filter (fun v => forallb (fun p => compatible u v (fst p) (snd p)) m) vs))
  end.

Definition mapping_min (c : cost) (F G : forest) : Z := best c (pp_forest G 0 0) (pp_forest F 0 0) [].

(* --- all trees with exactly n nodes over a label alphabet ----------------------------- *)
Fixpoint trees_f (fuel : nat) (labels : list N) (n : nat) : list tree :=
  match fuel with
  | O => []
  | S fuel => match n with
              | O => []
              | S n' => flat_map (fun f => map (fun l => Node l f) labels) (forests_f fuel labels n')
              end
  end
with forests_f (fuel : nat) (labels : list N) (n : nat) : list forest :=
  match fuel with
  | O => []
  | S fuel => match n with
              | O => [[]]
              | S _ => flat_map (fun k => flat_map (fun t => map (cons t) (forests_f fuel labels (n - k))) (trees_f fuel labels k)) (seq 1 n)
              end
  end.
Definition trees_of_size (labels : list N) (n : nat) : list tree := trees_f (2 * n + 2) labels n.
Definition trees_upto (labels : list N) (n : nat) : list tree := flat_map (trees_of_size labels) (seq 1 n).

Definition all_pairs {A} (l : list A) (p : A -> A -> bool) : bool := forallb (fun a => forallb (p a) l) l.
