(* C07 — the preparation passes of the model (apted_tree.go), unbounded:
   after PostOrderTraversal + computeLeftMostLeaves the annotated tree is well-numbered ([WN]):
   ids are the post-order positions, LeftMostLeaf(x) = x + 1 - |subtree(x)|; the node array of
   getPostOrderNodes is [gen3 (post t) 0]; ComputeKeyRoots returns exactly one node per
   left-most-leaf class, the largest one ([keyroots_spec]). *)
From Coq Require Import ZArith NArith Nnat List Lia Bool Arith ZifyBool ZifyNat ZifyN.
From PV Require Import Ted.TedSpec Ted.ZS Ted.ZSRefine Ted.ZSPost.
Import ListNotations.
Open Scope N_scope.

Definition size (t : tree) : N := N.of_nat (tsize t).
Definition fsizeN (f : forest) : N := N.of_nat (fsize f).

Inductive WN : anode -> N -> tree -> Prop :=
| WN_node : forall l id m cs n ts, WNs cs n ts -> id = n + fsizeN ts -> m = n -> WN (ANode l id m cs) n (Node l ts)
with WNs : list anode -> N -> forest -> Prop :=
| WNs_nil : forall n, WNs [] n []
| WNs_cons : forall c cs n t ts, WN c n t -> WNs cs (n + size t) ts -> WNs (c :: cs) n (t :: ts).
Scheme WN_mut := Minimality for WN Sort Prop with WNs_mut := Minimality for WNs Sort Prop.
Combined Scheme WN_WNs_ind from WN_mut, WNs_mut.

Lemma size_node : forall l cs, size (Node l cs) = 1 + fsizeN cs.
Proof. intros. unfold size, fsizeN. rewrite tsize_node. lia. Qed.
Lemma fsizeN_cons : forall t r, fsizeN (t :: r) = size t + fsizeN r.
Proof. intros. unfold size, fsizeN. rewrite fsize_cons. lia. Qed.
Lemma size_pos : forall t, 1 <= size t.
Proof. intros. unfold size. pose proof (tsize_pos t). lia. Qed.

Lemma WN_lml : forall a n t, WN a n t -> a_lml a = n.
Proof. intros a n t H. inversion H; subst. reflexivity. Qed.

(* --- pass 1 + 2 : numbering and left-most leaves -------------------------------------------- *)
Lemma number_WN : forall t n,
  snd (postOrderTraversalRecursive t n) = n + size t /\
  WN (computeLeftMostLeavesRecursive (fst (postOrderTraversalRecursive t n))) n t.
Proof.
  assert (H : (forall t, forall n, snd (postOrderTraversalRecursive t n) = n + size t /\
                 WN (computeLeftMostLeavesRecursive (fst (postOrderTraversalRecursive t n))) n t) /\
              (forall cs, forall n,
                 let r := (fix go (cs : list tree) (next : N) : list anode * N :=
                   match cs with
                   | [] => ([], next)
                   | c :: r => let '(c', n1) := postOrderTraversalRecursive c next in
                               let '(r', n2) := go r n1 in (c' :: r', n2)
                   end) cs n in
                 snd r = n + fsizeN cs /\ WNs (map computeLeftMostLeavesRecursive (fst r)) n cs)).
  { apply tree_forest_ind.
    - intros l cs IH n. cbn [postOrderTraversalRecursive]. specialize (IH n). cbv zeta in IH.
      destruct ((fix go (cs : list tree) (next : N) : list anode * N := _) cs n) as [cs' nx].
      cbn [fst snd] in *. destruct IH as [E W]. subst nx. split; [rewrite size_node; lia|].
      destruct cs' as [|c' r'].
      + cbn [map] in W. inversion W; subst. cbn [computeLeftMostLeavesRecursive].
        apply WN_node; [constructor | reflexivity | unfold fsizeN; cbn; lia].
      + cbn [computeLeftMostLeavesRecursive]. cbn [map] in W.
        apply WN_node; [exact W | reflexivity |].
        inversion W as [|? ? ? ? ? Wc Wr]; subst. apply (WN_lml _ _ _ Wc).
    - intros n. cbn. split; [unfold fsizeN; cbn; lia | constructor].
    - intros t r IHt IHr n. cbv zeta. specialize (IHt n).
      destruct (postOrderTraversalRecursive t n) as [c' n1]. cbn [fst snd] in IHt. destruct IHt as [E1 W1].
      specialize (IHr n1). cbv zeta in IHr.
      destruct ((fix go (cs : list tree) (next : N) : list anode * N := _) r n1) as [r' n2].
      cbn [fst snd map] in *. destruct IHr as [E2 W2]. subst n1 n2. split; [rewrite fsizeN_cons; lia|].
      constructor; assumption. }
  exact (proj1 H).
Qed.

Lemma prepare_WN : forall t, WN (fst (PrepareTreeForAPTED t)) 0 t.
Proof. intros t. unfold PrepareTreeForAPTED, PostOrderTraversal. cbn [fst]. apply number_WN. Qed.

(* --- the flat view of an annotated tree ------------------------------------------------------ *)
Fixpoint aflat3 (a : anode) : list (N * N * N) :=
  match a with ANode l id m cs => flat_map aflat3 cs ++ [(l, id, m)] end.
Definition aflat (a : anode) : list (N * N) := map (fun p => (snd (fst p), snd p)) (aflat3 a).
Definition aflats (cs : list anode) : list (N * N) := flat_map aflat cs.

Lemma map_flat_map : forall A B C (f : B -> C) (g : A -> list B) l, map f (flat_map g l) = flat_map (fun x => map f (g x)) l.
Proof. intros. induction l as [|x l IH]; [reflexivity|]. cbn [flat_map]. rewrite map_app, IH. reflexivity. Qed.

Lemma aflat_node : forall l id m cs, aflat (ANode l id m cs) = aflats cs ++ [(id, m)].
Proof. intros. unfold aflat, aflats. cbn [aflat3]. rewrite map_app, map_flat_map. reflexivity. Qed.
Lemma aflats_cons : forall c cs, aflats (c :: cs) = aflat c ++ aflats cs.
Proof. reflexivity. Qed.

Lemma nodes_aflat3 : forall a, getPostOrderNodes a = map (fun p => (fst (fst p), snd p)) (aflat3 a).
Proof.
  apply anode_ind'. intros l i m cs H. cbn [getPostOrderNodes aflat3]. rewrite map_app. cbn [map fst snd]. f_equal.
  induction H as [|c r Hc Hr IH]; [reflexivity|]. cbn [flat_map]. rewrite map_app, Hc, IH. reflexivity.
Qed.

(* what the flat view must be: position p carries (label, p, p + 1 - |subtree|) *)
Fixpoint gen3 (l : list tree) (p : N) : list (N * N * N) :=
  match l with [] => [] | s :: r => (label_of s, p, p + 1 - size s) :: gen3 r (p + 1) end.

Lemma gen3_app : forall a b p, gen3 (a ++ b) p = gen3 a p ++ gen3 b (p + N.of_nat (length a)).
Proof.
  induction a as [|s a IH]; intros b p.
  - cbn [app gen3 length]. f_equal. lia.
  - cbn [app gen3 length]. rewrite IH. do 3 f_equal. lia.
Qed.
Lemma gen3_length : forall l p, length (gen3 l p) = length l.
Proof. induction l as [|s l IH]; intros p; [reflexivity|]. cbn [gen3 length]. rewrite IH. reflexivity. Qed.
Lemma gen3_nth : forall l p k d, (k < length l)%nat ->
  nth k (gen3 l p) d = (label_of (nth k l dflt), p + N.of_nat k, p + N.of_nat k + 1 - size (nth k l dflt)).
Proof.
  induction l as [|s l IH]; intros p k d Hk; [cbn in Hk; lia|].
  destruct k as [|k]; cbn [gen3 nth].
  - change (N.of_nat 0) with 0. rewrite N.add_0_r. reflexivity.
  - cbn [length] in Hk. rewrite IH by lia. replace (p + N.of_nat (S k)) with (p + 1 + N.of_nat k) by lia. reflexivity.
Qed.

Lemma WN_aflat3 : (forall a n t, WN a n t -> aflat3 a = gen3 (post t) n) /\
                  (forall cs n ts, WNs cs n ts -> flat_map aflat3 cs = gen3 (fpost ts) n).
Proof.
  apply WN_WNs_ind.
  - intros l id m cs n ts _ IH Eid Em. cbn [aflat3]. rewrite post_node, gen3_app, IH. cbn [gen3 label_of]. subst.
    rewrite fpost_length, size_node. unfold fsizeN. repeat f_equal. lia.
  - intros n. reflexivity.
  - intros c cs n t ts _ IHc _ IHcs. cbn [flat_map]. rewrite fpost_cons, gen3_app, IHc, IHcs, post_length. reflexivity.
Qed.

(* the node array handed to apted *)
Theorem prepare_nodes : forall t, getPostOrderNodes (fst (PrepareTreeForAPTED t)) =
  map (fun p => (fst (fst p), snd p)) (gen3 (post t) 0).
Proof. intros t. rewrite nodes_aflat3, (proj1 WN_aflat3 _ _ _ (prepare_WN t)). reflexivity. Qed.

(* left-most leaf of post-order position x, as a function of the tree alone *)
Definition sub (t : tree) (x : N) : tree := nth (N.to_nat x) (post t) dflt.
Definition lmlT (t : tree) (x : N) : N := x + 1 - size (sub t x).

Lemma sub_size : forall t x, x < size t -> size (sub t x) <= x + 1.
Proof. intros t x Hx. unfold sub, size in *. pose proof (sub_size_le t (N.to_nat x) ltac:(lia)). lia. Qed.

Lemma prepare_node_at : forall t x, x < size t ->
  node_at (getPostOrderNodes (fst (PrepareTreeForAPTED t))) x = (label_of (sub t x), lmlT t x).
Proof.
  intros t x Hx. unfold node_at. rewrite prepare_nodes.
  change (0%N, 0%N) with ((fun p : N * N * N => (fst (fst p), snd p)) (0, 0, 0)). rewrite map_nth.
  rewrite gen3_nth by (rewrite post_length; unfold size in Hx; lia). cbn [fst snd]. unfold lmlT, sub. repeat f_equal; lia.
Qed.
Lemma prepare_nodes_length : forall t, N.of_nat (length (getPostOrderNodes (fst (PrepareTreeForAPTED t)))) = size t.
Proof. intros. rewrite prepare_nodes, map_length, gen3_length, post_length. reflexivity. Qed.

Lemma In_aflat : forall a t x m, WN a 0 t -> (In (x, m) (aflat a) <-> x < size t /\ m = lmlT t x).
Proof.
  intros a t x m W. unfold aflat. rewrite (proj1 WN_aflat3 _ _ _ W). split.
  - intros H. apply in_map_iff in H. destruct H as (p & E & Hp).
    apply (In_nth _ _ (0, 0, 0)) in Hp. destruct Hp as (k & Hk & Ek). rewrite gen3_length in Hk.
    rewrite gen3_nth in Ek by exact Hk. subst p. cbn [fst snd] in E. inversion E; subst. clear E.
    rewrite post_length in Hk. unfold size, lmlT, sub. rewrite ?N.add_0_l, Nat2N.id. split; [lia|reflexivity].
  - intros [Hx Em]. apply in_map_iff. exists (label_of (sub t x), x, m). split; [reflexivity|].
    assert (Hk : (N.to_nat x < length (post t))%nat) by (rewrite post_length; unfold size in Hx; lia).
    replace (label_of (sub t x), x, m) with (nth (N.to_nat x) (gen3 (post t) 0) (0, 0, 0)).
    + apply nth_In. rewrite gen3_length. exact Hk.
    + rewrite gen3_nth by exact Hk. subst m. unfold lmlT, sub. repeat f_equal; lia.
Qed.

(* ranges of ids and left-most leaves inside a well-numbered (sub)tree *)
Lemma WN_range : (forall a n t, WN a n t -> forall x m, In (x, m) (aflat a) -> n <= m /\ m <= x /\ x < n + size t) /\
                 (forall cs n ts, WNs cs n ts -> forall x m, In (x, m) (aflats cs) -> n <= m /\ m <= x /\ x < n + fsizeN ts).
Proof.
  apply WN_WNs_ind.
  - intros l id m cs n ts _ IH Eid Em x m' Hin. rewrite aflat_node in Hin. apply in_app_or in Hin.
    rewrite size_node. destruct Hin as [Hin|Hin].
    + specialize (IH x m' Hin). lia.
    + cbn in Hin. destruct Hin as [E|[]]. inversion E; subst. lia.
  - intros n x m [].
  - intros c cs n t ts _ IHc _ IHcs x m Hin. rewrite aflats_cons in Hin. apply in_app_or in Hin.
    rewrite fsizeN_cons. pose proof (size_pos t). destruct Hin as [Hin|Hin].
    + specialize (IHc x m Hin). lia.
    + specialize (IHcs x m Hin). lia.
Qed.

(* --- pass 3 : key roots ------------------------------------------------------------------------ *)
Definition Vfacts (n sz : N) (V V' : list N) : Prop :=
  (forall v, In v V' -> In v V \/ (n <= v /\ v < n + sz)) /\ (forall v, In v V -> In v V').
Definition Lfacts (A : list (N * N)) (n : N) (b : bool) (L : list N) : Prop :=
  (forall k, In k L -> (exists m, In (k, m) A) /\ (forall m, In (k, m) A -> b = true -> m <> n)) /\
  (forall x m, In (x, m) A -> (m <> n \/ b = false) -> exists k, In k L /\ In (k, m) A /\ x <= k) /\
  (forall k k' m, In k L -> In k' L -> In (k, m) A -> In (k', m) A -> k = k').

Lemma mem_N_In : forall x l, mem_N x l = true <-> In x l.
Proof.
  intros x l. unfold mem_N. rewrite existsb_exists. split.
  - intros (y & Hy & E). apply N.eqb_eq in E. subst. exact Hy.
  - intros H. exists x. split; [exact H | apply N.eqb_refl].
Qed.

Definition kr_step := (fun (s : list N * list N) (c : anode) => computeKeyRootsRecursive c s).

Lemma computeKR_node : forall l id m cs K V,
  computeKeyRootsRecursive (ANode l id m cs) (K, V) =
  fold_left kr_step cs (if mem_N m V then (K, V) else (K ++ [id], m :: V)).
Proof. reflexivity. Qed.

Lemma keyroots_inv :
  (forall a n t, WN a n t -> forall K V, (forall v, In v V -> ~ (n < v /\ v < n + size t)) ->
     exists L V', computeKeyRootsRecursive a (K, V) = (K ++ L, V') /\ Vfacts n (size t) V V' /\ In n V' /\
                  Lfacts (aflat a) n (mem_N n V) L) /\
  (forall cs n ts, WNs cs n ts -> forall K V, (forall v, In v V -> ~ (n < v /\ v < n + fsizeN ts)) ->
     exists L V', fold_left kr_step cs (K, V) = (K ++ L, V') /\ Vfacts n (fsizeN ts) V V' /\
                  Lfacts (aflats cs) n (mem_N n V) L).
Proof.
  apply WN_WNs_ind.
  - (* node *)
    intros l id m cs n ts W IH Eid Em K V Hfresh. subst m. rewrite computeKR_node, aflat_node.
    pose proof (proj2 WN_range _ _ _ W) as Rng.
    destruct (mem_N n V) eqn:Eb.
    + destruct (IH K V) as (L & V' & E & (HV1 & HV2) & (La & Lb & Lc)).
      { intros v Hv. specialize (Hfresh v Hv). rewrite size_node in Hfresh. lia. }
      rewrite Eb in *. exists L, V'. split; [exact E|]. split; [|split].
      * split; [|exact HV2]. intros v Hv. destruct (HV1 v Hv) as [?|?]; [left; assumption|right; rewrite size_node; lia].
      * apply HV2. apply mem_N_In. exact Eb.
      * split; [|split].
        -- intros k Hk. destruct (La k Hk) as ((m0 & Hm0) & Hne). split.
           ++ exists m0. apply in_or_app. left. exact Hm0.
           ++ intros m1 Hm1 _. apply in_app_or in Hm1. destruct Hm1 as [Hm1|Hm1]; [apply (Hne m1 Hm1 eq_refl)|].
              cbn in Hm1. destruct Hm1 as [E1|[]]. inversion E1; subst. specialize (Rng _ _ Hm0). lia.
        -- intros x m1 Hin Hc. destruct Hc as [Hc|Hc]; [|discriminate].
           apply in_app_or in Hin. destruct Hin as [Hin|Hin].
           ++ destruct (Lb x m1 Hin (or_introl Hc)) as (k & Hk & Hkm & Hle). exists k. split; [exact Hk|]. split; [apply in_or_app; left; exact Hkm | exact Hle].
           ++ cbn in Hin. destruct Hin as [E1|[]]. inversion E1; subst. contradiction.
        -- intros k k' m1 Hk Hk' Hin Hin'.
           destruct (La k Hk) as ((m0 & Hm0) & _). destruct (La k' Hk') as ((m0' & Hm0') & _).
           pose proof (Rng _ _ Hm0). pose proof (Rng _ _ Hm0').
           apply in_app_or in Hin. apply in_app_or in Hin'.
           destruct Hin as [Hin|Hin]; [|cbn in Hin; destruct Hin as [E1|[]]; inversion E1; subst; lia].
           destruct Hin' as [Hin'|Hin']; [|cbn in Hin'; destruct Hin' as [E1|[]]; inversion E1; subst; lia].
           apply (Lc k k' m1 Hk Hk' Hin Hin').
    + destruct (IH (K ++ [id]) (n :: V)) as (L & V' & E & (HV1 & HV2) & (La & Lb & Lc)).
      { intros v Hv. destruct Hv as [Hv|Hv]; [subst; lia|]. specialize (Hfresh v Hv). rewrite size_node in Hfresh. lia. }
      assert (Eb' : mem_N n (n :: V) = true) by (apply mem_N_In; left; reflexivity). rewrite Eb' in *.
      exists (id :: L), V'. split; [rewrite E, <- app_assoc; reflexivity|]. split; [|split].
      * split.
        -- intros v Hv. destruct (HV1 v Hv) as [[?|?]|?]; [right; subst; rewrite size_node; lia | left; assumption | right; rewrite size_node; lia].
        -- intros v Hv. apply HV2. right. exact Hv.
      * apply HV2. left. reflexivity.
      * split; [|split].
        -- intros k Hk. split; [|intros ? ? ?; discriminate]. destruct Hk as [Hk|Hk].
           ++ subst k. exists n. apply in_or_app. right. left. reflexivity.
           ++ destruct (La k Hk) as ((m0 & Hm0) & _). exists m0. apply in_or_app. left. exact Hm0.
        -- intros x m1 Hin _. destruct (N.eq_dec m1 n) as [Em|Em].
           ++ subst m1. exists id. split; [left; reflexivity|]. split; [apply in_or_app; right; left; reflexivity|].
              apply in_app_or in Hin. destruct Hin as [Hin|Hin].
              ** specialize (Rng _ _ Hin). lia.
              ** cbn in Hin. destruct Hin as [E1|[]]. inversion E1; subst. lia.
           ++ apply in_app_or in Hin. destruct Hin as [Hin|Hin].
              ** destruct (Lb x m1 Hin (or_introl Em)) as (k & Hk & Hkm & Hle). exists k. split; [right; exact Hk|].
                 split; [apply in_or_app; left; exact Hkm | exact Hle].
              ** cbn in Hin. destruct Hin as [E1|[]]. inversion E1; subst. contradiction.
        -- intros k k' m1 Hk Hk' Hin Hin'.
           assert (Hroot : forall k0, In k0 L -> In (k0, m1) (aflats cs ++ [(id, n)]) -> In (k0, m1) (aflats cs) /\ m1 <> n /\ k0 < id).
           { intros k0 Hk0 Hin0. destruct (La k0 Hk0) as ((m0 & Hm0) & Hne). pose proof (Rng _ _ Hm0) as R0.
             apply in_app_or in Hin0. destruct Hin0 as [Hin0|Hin0].
             - split; [exact Hin0|]. split; [apply (Hne m1 Hin0 eq_refl) | lia].
             - cbn in Hin0. destruct Hin0 as [E1|[]]. inversion E1; subst. lia. }
           assert (Hid : forall m0, In (id, m0) (aflats cs ++ [(id, n)]) -> m0 = n).
           { intros m0 Hin0. apply in_app_or in Hin0. destruct Hin0 as [Hin0|Hin0].
             - specialize (Rng _ _ Hin0). lia.
             - cbn in Hin0. destruct Hin0 as [E1|[]]. inversion E1; subst. reflexivity. }
           destruct Hk as [Hk|Hk]; destruct Hk' as [Hk'|Hk'].
           ++ subst; reflexivity.
           ++ subst k. pose proof (Hid _ Hin). destruct (Hroot k' Hk' Hin') as (_ & ? & _). contradiction.
           ++ subst k'. pose proof (Hid _ Hin'). destruct (Hroot k Hk Hin) as (_ & ? & _). contradiction.
           ++ destruct (Hroot k Hk Hin) as (? & _ & _). destruct (Hroot k' Hk' Hin') as (? & _ & _).
              apply (Lc k k' m1); assumption.
  - (* nil *)
    intros n K V _. exists [], V. cbn [fold_left]. rewrite app_nil_r. split; [reflexivity|]. split.
    + split; [intros v Hv; left; exact Hv | intros v Hv; exact Hv].
    + split; [|split]; [intros k [] | intros x m [] | intros k k' m []].
  - (* cons *)
    intros c cs n t ts Wc IHc Wcs IHcs K V Hfresh. cbn [fold_left]. unfold kr_step at 2.
    pose proof (proj1 WN_range _ _ _ Wc) as Rc. pose proof (proj2 WN_range _ _ _ Wcs) as Rr.
    pose proof (size_pos t) as Hpos. rewrite fsizeN_cons in Hfresh.
    destruct (IHc K V) as (Lc & V1 & Ec & (HV1 & HV2) & Hn1 & (Ca & Cb & Cc)).
    { intros v Hv. specialize (Hfresh v Hv). lia. }
    rewrite Ec.
    destruct (IHcs (K ++ Lc) V1) as (Lr & V2 & Er & (HV3 & HV4) & (Ra & Rb & Rc')).
    { intros v Hv. destruct (HV1 v Hv) as [Hv'|Hv']; [specialize (Hfresh v Hv')|]; lia. }
    exists (Lc ++ Lr), V2. split; [rewrite Er, app_assoc; reflexivity|]. split; [|split; [|split]].
    + split.
      * intros v Hv. rewrite fsizeN_cons. destruct (HV3 v Hv) as [Hv'|Hv']; [|right; lia].
        destruct (HV1 v Hv') as [?|?]; [left; assumption | right; lia].
      * intros v Hv. apply HV4, HV2, Hv.
    + (* a *)
      intros k Hk. apply in_app_or in Hk. rewrite aflats_cons. destruct Hk as [Hk|Hk].
      * destruct (Ca k Hk) as ((m0 & Hm0) & Hne). pose proof (Rc _ _ Hm0) as R0. split.
        -- exists m0. apply in_or_app. left. exact Hm0.
        -- intros m1 Hm1 Hb. apply in_app_or in Hm1. destruct Hm1 as [Hm1|Hm1]; [apply (Hne m1 Hm1 Hb)|].
           specialize (Rr _ _ Hm1). lia.
      * destruct (Ra k Hk) as ((m0 & Hm0) & _). pose proof (Rr _ _ Hm0) as R0. split.
        -- exists m0. apply in_or_app. right. exact Hm0.
        -- intros m1 Hm1 _. apply in_app_or in Hm1. destruct Hm1 as [Hm1|Hm1].
           ++ specialize (Rc _ _ Hm1). lia.
           ++ specialize (Rr _ _ Hm1). lia.
    + (* b *)
      intros x m1 Hin Hc. rewrite aflats_cons in *. apply in_app_or in Hin. destruct Hin as [Hin|Hin].
      * destruct (Cb x m1 Hin Hc) as (k & Hk & Hkm & Hle). exists k.
        split; [apply in_or_app; left; exact Hk|]. split; [apply in_or_app; left; exact Hkm | exact Hle].
      * assert (Eb2 : mem_N (n + size t) V1 = false).
        { destruct (mem_N (n + size t) V1) eqn:Eb2; [|reflexivity]. apply mem_N_In in Eb2. pose proof (Rr _ _ Hin) as R0.
          destruct (HV1 _ Eb2) as [Hv'|Hv']; [specialize (Hfresh _ Hv')|]; lia. }
        destruct (Rb x m1 Hin (or_intror Eb2)) as (k & Hk & Hkm & Hle). exists k.
        split; [apply in_or_app; right; exact Hk|]. split; [apply in_or_app; right; exact Hkm | exact Hle].
    + (* c *)
      intros k k' m1 Hk Hk' Hin Hin'. rewrite aflats_cons in *.
      assert (Hl : forall k0, In k0 Lc -> In (k0, m1) (aflat c ++ aflats cs) -> In (k0, m1) (aflat c) /\ m1 < n + size t).
      { intros k0 Hk0 Hin0. destruct (Ca k0 Hk0) as ((m0 & Hm0) & _). pose proof (Rc _ _ Hm0) as R0.
        apply in_app_or in Hin0. destruct Hin0 as [Hin0|Hin0].
        - split; [exact Hin0|]. specialize (Rc _ _ Hin0). lia.
        - specialize (Rr _ _ Hin0). lia. }
      assert (Hr : forall k0, In k0 Lr -> In (k0, m1) (aflat c ++ aflats cs) -> In (k0, m1) (aflats cs) /\ n + size t <= m1).
      { intros k0 Hk0 Hin0. destruct (Ra k0 Hk0) as ((m0 & Hm0) & _). pose proof (Rr _ _ Hm0) as R0.
        apply in_app_or in Hin0. destruct Hin0 as [Hin0|Hin0].
        - specialize (Rc _ _ Hin0). lia.
        - split; [exact Hin0|]. specialize (Rr _ _ Hin0). lia. }
      apply in_app_or in Hk. apply in_app_or in Hk'. destruct Hk as [Hk|Hk]; destruct Hk' as [Hk'|Hk'].
      * destruct (Hl k Hk Hin) as (? & _). destruct (Hl k' Hk' Hin') as (? & _). apply (Cc k k' m1); assumption.
      * destruct (Hl k Hk Hin) as (_ & ?). destruct (Hr k' Hk' Hin') as (_ & ?). lia.
      * destruct (Hr k Hk Hin) as (_ & ?). destruct (Hl k' Hk' Hin') as (_ & ?). lia.
      * destruct (Hr k Hk Hin) as (? & _). destruct (Hr k' Hk' Hin') as (? & _). apply (Rc' k k' m1); assumption.
Qed.

(* key roots of a prepared tree: in range; one per left-most-leaf class; the class maximum *)
Definition keyroots_ok (t : tree) (K : list N) : Prop :=
  (forall k, In k K -> k < size t) /\
  (forall x, x < size t -> exists k, In k K /\ lmlT t k = lmlT t x /\ x <= k) /\
  (forall k k', In k K -> In k' K -> lmlT t k = lmlT t k' -> k = k').

Theorem keyroots_spec : forall t, keyroots_ok t (snd (PrepareTreeForAPTED t)).
Proof.
  intros t. pose proof (prepare_WN t) as W. unfold PrepareTreeForAPTED in *. cbn [fst snd] in *.
  set (a := computeLeftMostLeavesRecursive (PostOrderTraversal t)) in *.
  destruct (proj1 keyroots_inv a 0 t W [] []) as (L & V' & E & _ & _ & (La & Lb & Lc)); [intros v []|].
  unfold ComputeKeyRoots. rewrite E. cbn [fst app]. cbn [mem_N existsb] in *.
  split; [|split].
  - intros k Hk. destruct (La k Hk) as ((m0 & Hm0) & _). apply (In_aflat a t k m0 W) in Hm0. tauto.
  - intros x Hx. assert (Hin : In (x, lmlT t x) (aflat a)) by (apply (In_aflat a t x _ W); tauto).
    destruct (Lb x _ Hin (or_intror eq_refl)) as (k & Hk & Hkm & Hle). exists k. split; [exact Hk|].
    apply (In_aflat a t k _ W) in Hkm. split; [symmetry; tauto | exact Hle].
  - intros k k' Hk Hk' Em.
    destruct (La k Hk) as ((m0 & Hm0) & _). destruct (La k' Hk') as ((m0' & Hm0') & _).
    pose proof (proj1 (In_aflat a t k m0 W) Hm0) as [? E0]. pose proof (proj1 (In_aflat a t k' m0' W) Hm0') as [? E0'].
    apply (Lc k k' m0 Hk Hk' Hm0). rewrite E0, Em, <- E0'. exact Hm0'.
Qed.
