From Coq Require Import ZArith List.
From PV Require Import Ted.TedSpec Ted.Cost Ted.ZS Ted.TedBrute Ted.BoundedDefs.
Lemma exact_python_T4 : exact_check c_python T4 = true. Proof. vm_compute. reflexivity. Qed.
Lemma exact_python_T3 : exact_check c_python T3 = true. Proof. vm_compute. reflexivity. Qed.
(* the Python-aware costs are not a metric: inserting FunctionDef(f) costs more than
   inserting a Decorator and renaming it (1.5 > 0.1 + 0.9) *)
Lemma python_cost_not_metric : (ins c_python 1 > ins c_python 0 + ren c_python 0 1)%Z. Proof. vm_compute. reflexivity. Qed.
