(* C07 — the finite domains and boolean checks of the bounded theorems. *)
From Coq Require Import ZArith QArith String List Bool.
From PV Require Import Ted.TedSpec Ted.Cost Ted.ZS Ted.TedBrute.
Import ListNotations.
Open Scope Z_scope.

(* all 102 trees with at most 4 nodes over 2 labels; all 66 trees with at most 3 nodes over 3 labels *)
Definition T4 : list tree := trees_upto [0%N; 1%N] 4.
Definition T3 : list tree := trees_upto [0%N; 1%N; 2%N] 3.

(* model = spec, and spec = brute-force minimum over all Tai mappings *)
Definition exact_check (c : cost) (ts : list tree) : bool :=
  all_pairs ts (fun a b =>
    let d := ted c a b in
    match ComputeDistance c (Some a) (Some b) with Some z => Z.eqb z d | None => false end
    && Z.eqb (mapping_min c [a] [b]) d).

Lemma all_pairs_In : forall A (l : list A) p, all_pairs l p = true -> forall a b, In a l -> In b l -> p a b = true.
Proof.
  intros A l p H a b Ha Hb. unfold all_pairs in H. rewrite forallb_forall in H. specialize (H a Ha).
  rewrite forallb_forall in H. apply H. exact Hb.
Qed.

Lemma exact_check_sound : forall c ts, exact_check c ts = true -> forall a b, In a ts -> In b ts ->
  ComputeDistance c (Some a) (Some b) = Some (ted c a b) /\ mapping_min c [a] [b] = ted c a b.
Proof.
  intros c ts H a b Ha Hb. pose proof (all_pairs_In _ _ _ H a b Ha Hb) as K. cbv beta zeta in K.
  apply andb_prop in K. destruct K as [K1 K2]. split.
  - destruct (ComputeDistance c (Some a) (Some b)); [|discriminate]. apply Z.eqb_eq in K1. congruence.
  - apply Z.eqb_eq. exact K2.
Qed.

(* label alphabets of the bounded theorems for the Python-aware models *)
Definition tbl_py : list string := ["Decorator"; "FunctionDef(f)"; "Name(x)"]%string.
Definition tbl_w : list string := ["Name(x)"; "If"; "Name(y)"]%string.
Definition c_python : cost := cm_cost (cm_python false false tbl_py).
Definition c_weighted : cost := cm_cost (cm_weighted false false tbl_w).
