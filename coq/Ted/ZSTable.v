(* C07 — the forest-distance table of computeForestDistance (apted.go:261-328), unbounded.
   For a pair of post-order positions (i, j), after the three loops
     fd[x][y] = delta (nodes l(i)..x-1 of tree 1) (nodes l(j)..y-1 of tree 2)      ([Good], region [Reg])
   and every td cell written holds the tree distance of the two subtrees ([cfd_spec]).
   No default value of a table is ever read as a meaningful entry except fd[l(i)][l(j)] = 0. *)
From Coq Require Import ZArith NArith Nnat List Lia Bool Arith FMapPositive ZifyBool ZifyNat ZifyN.
From PV Require Import Ted.TedSpec Ted.TedProofs Ted.TedRight Ted.ZS Ted.ZSPost Ted.ZSPrepare.
Import ListNotations.
Open Scope N_scope.

(* --- tables ---------------------------------------------------------------------------------- *)
Lemma succ_pos_inj : forall x y, N.succ_pos x = N.succ_pos y -> x = y.
Proof. intros x y H. apply N.succ_inj. rewrite <- !N.succ_pos_spec. rewrite H. reflexivity. Qed.

Lemma tget_empty : forall x y, tget (PositiveMap.empty _) x y = 0%Z.
Proof. intros. unfold tget. rewrite PositiveMap.gempty. reflexivity. Qed.
Lemma tget_tset_same : forall m x y v, tget (tset m x y v) x y = v.
Proof. intros. unfold tget, tset. rewrite PositiveMap.gss, PositiveMap.gss. reflexivity. Qed.
Lemma tget_tset_other : forall m x y v x' y', (x <> x' \/ y <> y') -> tget (tset m x y v) x' y' = tget m x' y'.
Proof.
  intros m x y v x' y' H. unfold tget, tset. destruct (N.eq_dec x x') as [E|E].
  - subst x'. destruct H as [H|H]; [contradiction|]. rewrite PositiveMap.gss.
    rewrite PositiveMap.gso by (intros E; apply succ_pos_inj in E; congruence).
    destruct (PositiveMap.find (N.succ_pos x) m); [reflexivity|]. rewrite PositiveMap.gempty. reflexivity.
  - rewrite PositiveMap.gso by (intros E'; apply succ_pos_inj in E'; congruence). reflexivity.
Qed.

(* --- for x := lo; x <= hi; x++ ------------------------------------------------------------- *)
Lemma range_incl_nil : forall lo hi, hi < lo -> range_incl lo hi = [].
Proof. intros lo hi H. unfold range_incl. destruct (N.leb_spec lo hi); [lia|reflexivity]. Qed.
Lemma range_incl_cons : forall lo hi, lo <= hi -> range_incl lo hi = lo :: range_incl (lo + 1) hi.
Proof.
  intros lo hi H. unfold range_incl at 1. destruct (N.leb_spec lo hi) as [_|?]; [|lia].
  rewrite <- cons_seq. cbn [map]. f_equal; [lia|]. unfold range_incl. destruct (N.leb_spec (lo + 1) hi) as [H1|H1].
  - replace (N.to_nat (hi - lo)) with (S (N.to_nat (hi - (lo + 1)))) by lia.
    rewrite <- seq_shift, map_map. apply map_ext. intros k. lia.
  - replace (N.to_nat (hi - lo)) with 0%nat by lia. reflexivity.
Qed.

Lemma fold_range_inv : forall (St : Type) (f : St -> N -> St) (I : N -> St -> Prop) lo0 hi,
  (forall x s, lo0 <= x -> x <= hi -> I x s -> I (x + 1) (f s x)) ->
  forall n lo s, N.to_nat (hi + 1 - lo) = n -> lo0 <= lo -> lo <= hi + 1 -> I lo s ->
  I (hi + 1) (fold_left f (range_incl lo hi) s).
Proof.
  intros St f I lo0 hi Hstep. induction n as [|n IH]; intros lo s En Hlo0 Hlo HI.
  - assert (lo = hi + 1) by lia. subst lo. rewrite range_incl_nil by lia. exact HI.
  - rewrite range_incl_cons by lia. cbn [fold_left]. apply IH; [lia | lia | lia |]. apply Hstep; [lia | lia | exact HI].
Qed.

(* --- prefix forests of a subtree, addressed by global post-order positions --------------------- *)
Definition pf (t : tree) (i x : N) : forest := pfx (sub t i) (N.to_nat (x - lmlT t i)).

Lemma lmlT_le : forall t i, i < size t -> lmlT t i <= i.
Proof. intros t i Hi. unfold lmlT. pose proof (size_pos (sub t i)). lia. Qed.
Lemma pf_nil : forall t i, pf t i (lmlT t i) = [].
Proof. intros. unfold pf. rewrite N.sub_diag. reflexivity. Qed.
Lemma pf_all : forall t i, i < size t -> pf t i (i + 1) = [sub t i].
Proof.
  intros t i Hi. unfold pf. pose proof (sub_size t i Hi). pose proof (size_pos (sub t i)).
  replace (N.to_nat (i + 1 - lmlT t i)) with (tsize (sub t i)) by (unfold lmlT, size in *; lia). apply pfx_all.
Qed.

Lemma pf_step : forall t i x, i < size t -> lmlT t i <= x -> x <= i ->
  lmlT t i <= lmlT t x /\ lmlT t x <= x /\
  pf t i (x + 1) = pf t i (lmlT t x) ++ [sub t x] /\
  exists a F1, sub t x = Node a F1 /\ pf t i x = pf t i (lmlT t x) ++ F1.
Proof.
  intros t i x Hi Hlo Hhi. pose proof (sub_size t i Hi) as Hs. pose proof (size_pos (sub t i)) as Hp.
  set (k := N.to_nat (x - lmlT t i)).
  assert (Hk : (k < tsize (sub t i))%nat) by (unfold k, lmlT, size in *; lia).
  assert (Esub : nth k (post (sub t i)) dflt = sub t x).
  { unfold sub at 1 2. rewrite sub_sub; [|unfold size in Hi; lia | exact Hk]. unfold sub. f_equal.
    fold (sub t i). unfold k, lmlT, size in *. lia. }
  pose proof (sub_size_le (sub t i) k Hk) as Hle. rewrite Esub in Hle.
  destruct (sub t x) as [a F1] eqn:Es.
  destruct (pfx_step (sub t i) k a F1 Hk Esub) as [P1 P2].
  assert (Elx : lmlT t x = x + 1 - size (Node a F1)) by (unfold lmlT; rewrite Es; reflexivity).
  assert (E1 : N.to_nat (x + 1 - lmlT t i) = S k) by (unfold k; lia).
  assert (E2 : N.to_nat (lmlT t x - lmlT t i) = (S k - tsize (Node a F1))%nat) by (rewrite Elx; unfold k, size; lia).
  split; [rewrite Elx; unfold size, k in *; lia|]. split; [rewrite Elx; pose proof (size_pos (Node a F1)); lia|].
  unfold pf. rewrite E1, E2. fold k. split; [exact P1|]. exists a, F1. split; [reflexivity | exact P2].
Qed.

(* --- the three loops of computeForestDistance ---------------------------------------------------- *)
Definition fd_row (c : cost) (nodes1 : list (N * N)) (lml_j : N) (fd : tbl) (x : N) : tbl :=
  tset fd (x + 1) lml_j (tget fd x lml_j + del c (lbl nodes1 x)).
Definition fd_col (c : cost) (nodes2 : list (N * N)) (lml_i : N) (fd : tbl) (y : N) : tbl :=
  tset fd lml_i (y + 1) (tget fd lml_i y + ins c (lbl nodes2 y)).
Definition cell (c : cost) (nodes1 nodes2 : list (N * N)) (lml_i lml_j x : N) (st : tbl * tbl) (y : N) : tbl * tbl :=
  let '(fd, td) := st in
  let lml_x := lml nodes1 x in
  let lml_y := lml nodes2 y in
  let deleteCost := (tget fd x (y + 1) + del c (lbl nodes1 x))%Z in
  let insertCost := (tget fd (x + 1) y + ins c (lbl nodes2 y))%Z in
  if ((lml_x =? lml_i) && (lml_y =? lml_j))%bool then
    let renameCost := (tget fd x y + ren c (lbl nodes1 x) (lbl nodes2 y))%Z in
    let v := Z.min deleteCost (Z.min insertCost renameCost) in
    (tset fd (x + 1) (y + 1) v, tset td (x + 1) (y + 1) v)
  else
    let subtreeCost := (tget fd lml_x lml_y + tget td (x + 1) (y + 1))%Z in
    (tset fd (x + 1) (y + 1) (Z.min deleteCost (Z.min insertCost subtreeCost)), td).

Lemma cfd_unfold : forall c nodes1 nodes2 i j td,
  computeForestDistance c nodes1 nodes2 i j td =
  if ((N.of_nat (length nodes1) <=? i) || (N.of_nat (length nodes2) <=? j))%bool then td else
  snd (fold_left (fun st x => fold_left (cell c nodes1 nodes2 (lml nodes1 i) (lml nodes2 j) x) (range_incl (lml nodes2 j) j) st)
         (range_incl (lml nodes1 i) i)
         (fold_left (fd_col c nodes2 (lml nodes1 i)) (range_incl (lml nodes2 j) j)
            (fold_left (fd_row c nodes1 (lml nodes2 j)) (range_incl (lml nodes1 i) i) (PositiveMap.empty _)), td)).
Proof. reflexivity. Qed.

Section CFD.
Variable c : cost.
Variables t1 t2 : tree.
Variables nodes1 nodes2 : list (N * N).
Hypothesis Hn1 : forall x, x < size t1 -> node_at nodes1 x = (label_of (sub t1 x), lmlT t1 x).
Hypothesis Hn2 : forall y, y < size t2 -> node_at nodes2 y = (label_of (sub t2 y), lmlT t2 y).
Hypothesis Hl1 : N.of_nat (length nodes1) = size t1.
Hypothesis Hl2 : N.of_nat (length nodes2) = size t2.
Variables i j : N.
Hypothesis Hi : i < size t1.
Hypothesis Hj : j < size t2.

Notation li := (lmlT t1 i).
Notation lj := (lmlT t2 j).

Definition FD (x y : N) : Z := delta c (pf t1 i x) (pf t2 j y).
Definition TD (x y : N) : Z := delta c [sub t1 x] [sub t2 y].
Definition Good (fd : tbl) (R : N -> N -> Prop) : Prop := forall x y, R x y -> tget fd x y = FD x y.
Definition TDok (td : tbl) (A : N -> N -> Prop) : Prop := forall x y, A x y -> tget td (x + 1) (y + 1) = TD x y.

Lemma lml1 : forall x, x < size t1 -> lml nodes1 x = lmlT t1 x.
Proof. intros x Hx. unfold lml. rewrite Hn1 by exact Hx. reflexivity. Qed.
Lemma lml2 : forall y, y < size t2 -> lml nodes2 y = lmlT t2 y.
Proof. intros y Hy. unfold lml. rewrite Hn2 by exact Hy. reflexivity. Qed.
Lemma lbl1 : forall x, x < size t1 -> lbl nodes1 x = label_of (sub t1 x).
Proof. intros x Hx. unfold lbl. rewrite Hn1 by exact Hx. reflexivity. Qed.
Lemma lbl2 : forall y, y < size t2 -> lbl nodes2 y = label_of (sub t2 y).
Proof. intros y Hy. unfold lbl. rewrite Hn2 by exact Hy. reflexivity. Qed.

Lemma Good_tset : forall fd (R R' : N -> N -> Prop) x y v, Good fd R -> v = FD x y ->
  (forall x' y', R' x' y' -> R x' y' \/ (x' = x /\ y' = y)) -> Good (tset fd x y v) R'.
Proof.
  intros fd R R' x y v HG Ev HR x' y' H'. destruct (HR x' y' H') as [H|[Ex Ey]].
  - destruct (N.eq_dec x x') as [Ex|Ex]; [destruct (N.eq_dec y y') as [Ey|Ey]|].
    + subst. apply tget_tset_same.
    + rewrite tget_tset_other by (right; exact Ey). apply HG, H.
    + rewrite tget_tset_other by (left; exact Ex). apply HG, H.
  - subst. apply tget_tset_same.
Qed.
Lemma TDok_tset : forall td (A A' : N -> N -> Prop) x y v, TDok td A -> v = TD x y ->
  (forall x' y', A' x' y' -> A x' y' \/ (x' = x /\ y' = y)) -> TDok (tset td (x + 1) (y + 1) v) A'.
Proof.
  intros td A A' x y v HT Ev HA x' y' H'. destruct (HA x' y' H') as [H|[Ex Ey]].
  - destruct (N.eq_dec x x') as [Ex|Ex]; [destruct (N.eq_dec y y') as [Ey|Ey]|].
    + subst. apply tget_tset_same.
    + rewrite tget_tset_other by (right; lia). apply HT, H.
    + rewrite tget_tset_other by (left; lia). apply HT, H.
  - subst. apply tget_tset_same.
Qed.

(* the recurrences satisfied by the intended table contents *)
Lemma FD_00 : FD li lj = 0%Z.
Proof. unfold FD. rewrite !pf_nil. reflexivity. Qed.
Lemma FD_row : forall x, li <= x -> x <= i -> FD (x + 1) lj = (FD x lj + del c (label_of (sub t1 x)))%Z.
Proof.
  intros x Hlo Hhi. unfold FD. rewrite pf_nil, !delta_to_empty.
  destruct (pf_step t1 i x Hi Hlo Hhi) as (_ & _ & E1 & a & F1 & Es & E2). rewrite E1, E2, Es. apply del_all_snoc.
Qed.
Lemma FD_col : forall y, lj <= y -> y <= j -> FD li (y + 1) = (FD li y + ins c (label_of (sub t2 y)))%Z.
Proof.
  intros y Hlo Hhi. unfold FD. rewrite pf_nil, !delta_from_empty.
  destruct (pf_step t2 j y Hj Hlo Hhi) as (_ & _ & E1 & b & G1 & Es & E2). rewrite E1, E2, Es. apply ins_all_snoc.
Qed.
Lemma FD_cell : forall x y, li <= x -> x <= i -> lj <= y -> y <= j ->
  FD (x + 1) (y + 1) = min3 (FD x (y + 1) + del c (label_of (sub t1 x))) (FD (x + 1) y + ins c (label_of (sub t2 y)))
                            (FD (lmlT t1 x) (lmlT t2 y) + TD x y).
Proof.
  intros x y Hx1 Hx2 Hy1 Hy2. unfold FD, TD.
  destruct (pf_step t1 i x Hi Hx1 Hx2) as (_ & _ & E1 & a & F1 & Es1 & E2).
  destruct (pf_step t2 j y Hj Hy1 Hy2) as (_ & _ & E3 & b & G1 & Es2 & E4).
  rewrite E1, E2, E3, E4, Es1, Es2. cbn [label_of]. apply delta_zs_rec.
Qed.
Lemma FD_cell_tree : forall x y, li <= x -> x <= i -> lj <= y -> y <= j -> lmlT t1 x = li -> lmlT t2 y = lj ->
  FD (x + 1) (y + 1) = TD x y /\
  FD (x + 1) (y + 1) = min3 (FD x (y + 1) + del c (label_of (sub t1 x))) (FD (x + 1) y + ins c (label_of (sub t2 y)))
                            (FD x y + ren c (label_of (sub t1 x)) (label_of (sub t2 y))).
Proof.
  intros x y Hx1 Hx2 Hy1 Hy2 Ex Ey. unfold FD, TD.
  destruct (pf_step t1 i x Hi Hx1 Hx2) as (_ & _ & E1 & a & F1 & Es1 & E2).
  destruct (pf_step t2 j y Hj Hy1 Hy2) as (_ & _ & E3 & b & G1 & Es2 & E4).
  rewrite E1, E2, E3, E4, Es1, Es2, Ex, Ey, !pf_nil. cbn [label_of app]. split; [reflexivity | apply delta_tree_tree].
Qed.

(* filled region before cell (x, y) is processed *)
Definition Reg (x y x' y' : N) : Prop :=
  li <= x' /\ x' <= i + 1 /\ lj <= y' /\ y' <= j + 1 /\ (x' = li \/ y' = lj \/ x' <= x \/ (x' = x + 1 /\ y' <= y)).
(* td cells written before cell (x, y) is processed *)
Definition Wr (x y x' y' : N) : Prop :=
  li <= x' /\ lj <= y' /\ y' <= j /\ lmlT t1 x' = li /\ lmlT t2 y' = lj /\ (x' < x \/ (x' = x /\ y' < y)).

Section Cells.
Variable A0 : N -> N -> Prop.
Hypothesis HA0 : forall x y, li <= x -> x <= i -> lj <= y -> y <= j -> ~ (lmlT t1 x = li /\ lmlT t2 y = lj) -> A0 x y.

Definition Inv (x y : N) (st : tbl * tbl) : Prop :=
  Good (fst st) (Reg x y) /\ TDok (snd st) (fun x' y' => A0 x' y' \/ Wr x y x' y').

Lemma cell_step : forall x y st, li <= x -> x <= i -> lj <= y -> y <= j -> Inv x y st ->
  Inv x (y + 1) (cell c nodes1 nodes2 li lj x st y).
Proof.
  intros x y [fd td] Hx1 Hx2 Hy1 Hy2 [HG HT]. cbn [fst snd] in HG, HT.
  pose proof (lmlT_le t1 i Hi) as Hli. pose proof (lmlT_le t2 j Hj) as Hlj.
  assert (Hxs : x < size t1) by lia. assert (Hys : y < size t2) by lia.
  destruct (pf_step t1 i x Hi Hx1 Hx2) as (Lx1 & Lx2 & _). destruct (pf_step t2 j y Hj Hy1 Hy2) as (Ly1 & Ly2 & _).
  unfold cell. rewrite (lml1 x Hxs), (lml2 y Hys), (lbl1 x Hxs), (lbl2 y Hys).
  assert (G1 : tget fd x (y + 1) = FD x (y + 1)) by (apply HG; unfold Reg; lia).
  assert (G2 : tget fd (x + 1) y = FD (x + 1) y) by (apply HG; unfold Reg; lia).
  assert (G3 : tget fd x y = FD x y) by (apply HG; unfold Reg; lia).
  assert (G4 : tget fd (lmlT t1 x) (lmlT t2 y) = FD (lmlT t1 x) (lmlT t2 y)) by (apply HG; unfold Reg; lia).
  rewrite G1, G2, G3, G4.
  assert (HR : forall x' y', Reg x (y + 1) x' y' -> Reg x y x' y' \/ (x' = x + 1 /\ y' = y + 1)) by (unfold Reg; intros; lia).
  destruct ((lmlT t1 x =? li) && (lmlT t2 y =? lj))%bool eqn:Eb.
  - assert (Ex : lmlT t1 x = li) by lia. assert (Ey : lmlT t2 y = lj) by lia.
    destruct (FD_cell_tree x y Hx1 Hx2 Hy1 Hy2 Ex Ey) as [T1 T2]. split; cbn [fst snd].
    + apply (Good_tset fd (Reg x y)); [exact HG | symmetry; exact T2 | exact HR].
    + apply (TDok_tset td (fun x' y' => A0 x' y' \/ Wr x y x' y')); [exact HT | rewrite <- T1; symmetry; exact T2 |].
      unfold Wr. intros x' y' [H|H]; [left; left; exact H|].
      destruct (N.eq_dec x' x) as [E1|E1]; [destruct (N.eq_dec y' y) as [E2|E2]|]; [right; split; assumption | left; right; lia | left; right; lia].
  - assert (Hne : ~ (lmlT t1 x = li /\ lmlT t2 y = lj)) by lia.
    assert (T3 : tget td (x + 1) (y + 1) = TD x y) by (apply HT; left; apply HA0; assumption).
    rewrite T3. split; cbn [fst snd].
    + apply (Good_tset fd (Reg x y)); [exact HG | symmetry; apply FD_cell; assumption | exact HR].
    + intros x' y' [H|H]; [apply HT; left; exact H|]. apply HT. right. unfold Wr in *.
      assert (~ (x' = x /\ y' = y)) by (intros [? ?]; subst; apply Hne; tauto). lia.
Qed.

Lemma row_step : forall x st, li <= x -> x <= i -> Inv x lj st ->
  Inv (x + 1) lj (fold_left (cell c nodes1 nodes2 li lj x) (range_incl lj j) st).
Proof.
  intros x st Hx1 Hx2 HI. pose proof (lmlT_le t2 j Hj) as Hlj.
  assert (H : Inv x (j + 1) (fold_left (cell c nodes1 nodes2 li lj x) (range_incl lj j) st)).
  { apply (fold_range_inv _ (cell c nodes1 nodes2 li lj x) (Inv x) lj j) with (n := N.to_nat (j + 1 - lj)); [|reflexivity|lia|lia|exact HI].
    intros y s Hy1 Hy2 Hs. apply cell_step; assumption. }
  destruct H as [HG HT]. split.
  - intros x' y' HR. apply HG. unfold Reg in *. lia.
  - intros x' y' [HA|HW]; apply HT; [left; exact HA | right; unfold Wr in *; lia].
Qed.

Lemma init_Good : Good (fold_left (fd_col c nodes2 li) (range_incl lj j)
                          (fold_left (fd_row c nodes1 lj) (range_incl li i) (PositiveMap.empty _))) (Reg li lj).
Proof.
  pose proof (lmlT_le t1 i Hi) as Hli. pose proof (lmlT_le t2 j Hj) as Hlj.
  assert (H1 : Good (fold_left (fd_row c nodes1 lj) (range_incl li i) (PositiveMap.empty _))
                    (fun x' y' => y' = lj /\ li <= x' /\ x' <= i + 1)).
  { apply (fold_range_inv _ (fd_row c nodes1 lj) (fun x fd => Good fd (fun x' y' => y' = lj /\ li <= x' /\ x' <= x)) li i)
      with (n := N.to_nat (i + 1 - li)); [|reflexivity|lia|lia|].
    - intros x fd Hx1 Hx2 HG. unfold fd_row. rewrite (lbl1 x) by lia.
      apply (Good_tset fd (fun x' y' => y' = lj /\ li <= x' /\ x' <= x)); [exact HG | | intros; lia].
      rewrite (HG x lj) by lia. symmetry. apply FD_row; assumption.
    - intros x' y' (Ey & Hx1 & Hx2). assert (x' = li) by lia. subst. rewrite tget_empty, FD_00. reflexivity. }
  assert (H2 : Good (fold_left (fd_col c nodes2 li) (range_incl lj j)
                          (fold_left (fd_row c nodes1 lj) (range_incl li i) (PositiveMap.empty _)))
                    (fun x' y' => (y' = lj /\ li <= x' /\ x' <= i + 1) \/ (x' = li /\ lj <= y' /\ y' <= j + 1))).
  { apply (fold_range_inv _ (fd_col c nodes2 li)
             (fun y fd => Good fd (fun x' y' => (y' = lj /\ li <= x' /\ x' <= i + 1) \/ (x' = li /\ lj <= y' /\ y' <= y))) lj j)
      with (n := N.to_nat (j + 1 - lj)); [|reflexivity|lia|lia|].
    - intros y fd Hy1 Hy2 HG. unfold fd_col. rewrite (lbl2 y) by lia.
      apply (Good_tset fd (fun x' y' => (y' = lj /\ li <= x' /\ x' <= i + 1) \/ (x' = li /\ lj <= y' /\ y' <= y))); [exact HG | | intros; lia].
      rewrite (HG li y) by lia. symmetry. apply FD_col; assumption.
    - intros x' y' H. apply H1. lia. }
  intros x' y' HR. apply H2. unfold Reg in HR. lia.
Qed.

Lemma cfd_spec : forall td, TDok td A0 ->
  TDok (computeForestDistance c nodes1 nodes2 i j td)
       (fun x y => A0 x y \/ (li <= x /\ x <= i /\ lj <= y /\ y <= j /\ lmlT t1 x = li /\ lmlT t2 y = lj)).
Proof.
  intros td HT. rewrite cfd_unfold. rewrite Hl1, Hl2.
  destruct (N.leb_spec (size t1) i) as [?|_]; [lia|]. destruct (N.leb_spec (size t2) j) as [?|_]; [lia|]. cbn [orb].
  rewrite (lml1 i Hi), (lml2 j Hj).
  pose proof (lmlT_le t1 i Hi) as Hli.
  set (st0 := (fold_left (fd_col c nodes2 li) (range_incl lj j)
                 (fold_left (fd_row c nodes1 lj) (range_incl li i) (PositiveMap.empty _)), td)).
  assert (H0 : Inv li lj st0).
  { split; cbn [fst snd]; [apply init_Good|]. intros x y [H|H]; [apply HT, H | unfold Wr in H; lia]. }
  assert (H : Inv (i + 1) lj (fold_left (fun st x => fold_left (cell c nodes1 nodes2 li lj x) (range_incl lj j) st) (range_incl li i) st0)).
  { apply (fold_range_inv _ (fun st x => fold_left (cell c nodes1 nodes2 li lj x) (range_incl lj j) st) (fun x st => Inv x lj st) li i)
      with (n := N.to_nat (i + 1 - li)); [|reflexivity|lia|lia|exact H0].
    intros x s Hx1 Hx2 Hs. apply row_step; assumption. }
  destruct H as [_ HT']. intros x y [HA|HW]; apply HT'; [left; exact HA | right; unfold Wr; lia].
Qed.
End Cells.
End CFD.
