(* C07 — similarity clauses and the nil cases of ComputeDistance (unbounded). *)
From Coq Require Import ZArith QArith Qminmax Lqa Lia List Bool.
From PV Require Import Gen.TedConst Ted.TedSpec Ted.TedProofs Ted.ZS.
Import ListNotations.
Open Scope Q_scope.

Lemma similarity_range : forall scale d s1 s2, 0 <= similarity_of scale d s1 s2 <= 1.
Proof.
  intros. unfold similarity_of. destruct (N.max s1 s2 =? 0)%N; [split; discriminate|].
  split; [apply Q.le_max_l|]. apply Q.max_lub; [discriminate | apply Q.le_min_l].
Qed.

Lemma similarity_zero_dist : forall scale s1 s2, similarity_of scale 0 s1 s2 == 1.
Proof.
  intros. unfold similarity_of. destruct (N.max s1 s2 =? 0)%N eqn:E; [reflexivity|].
  apply N.eqb_neq in E. remember (inject_Z (Z.of_N (N.max s1 s2))) as m eqn:Em.
  assert (Hm : 0 < m). { subst m. change 0 with (inject_Z 0). rewrite <- Zlt_Qlt. lia. }
  assert (H0 : Qmin (0 # scale) m == 0).
  { assert (Hz : 0 # scale == 0) by reflexivity. rewrite Q.min_l; [exact Hz|]. rewrite Hz. apply Qlt_le_weak. exact Hm. }
  rewrite H0. assert (H1 : 1 - 0 / m == 1) by (field; intro K; rewrite K in Hm; discriminate).
  rewrite H1. rewrite Q.min_l by apply Qle_refl. rewrite Q.max_r by discriminate. reflexivity.
Qed.

(* similarity as the specification defines it: from the true distance *)
Definition sim_spec (scale : positive) (c : cost) (t1 t2 : tree) : Q :=
  similarity_of scale (ted c t1 t2) (Size t1) (Size t2).

Lemma sim_spec_range : forall scale c t1 t2, 0 <= sim_spec scale c t1 t2 <= 1.
Proof. intros. apply similarity_range. Qed.

Lemma sim_spec_self_one : forall scale c, cost_nonneg c -> ren_refl c -> forall t, sim_spec scale c t t == 1.
Proof. intros scale c Hn Hr t. unfold sim_spec, ted. rewrite (delta_self_zero c Hn Hr). apply similarity_zero_dist. Qed.

(* the model's ComputeSimilarity, whatever distance it is given, stays in [0,1] *)
Lemma ComputeSimilarity_range : forall scale c o1 o2 s, ComputeSimilarity scale c o1 o2 = Some s -> 0 <= s <= 1.
Proof.
  intros scale c [t1|] [t2|] s H; cbn [ComputeSimilarity] in H.
  - destruct (ComputeDistance c (Some t1) (Some t2)); [|discriminate]. injection H as <-. apply similarity_range.
  - injection H as <-. split; discriminate.
  - injection H as <-. split; discriminate.
  - injection H as <-. split; discriminate.
Qed.

(* nil cases: exactly the spec against the empty forest *)
Lemma ComputeDistance_nil_l : forall c t, ComputeDistance c None (Some t) = Some (delta c [] [t]).
Proof. intros. cbn [ComputeDistance]. rewrite delta_from_empty. unfold ins_all. cbn [map zsum fold_right]. f_equal. lia. Qed.
Lemma ComputeDistance_nil_r : forall c t, ComputeDistance c (Some t) None = Some (delta c [t] []).
Proof. intros. cbn [ComputeDistance]. rewrite delta_to_empty. unfold del_all. cbn [map zsum fold_right]. f_equal. lia. Qed.
Lemma ComputeDistance_nil_nil : forall c, ComputeDistance c None None = Some (delta c [] []).
Proof. reflexivity. Qed.

(* on the exact path ComputeDistance is [zs] *)
Lemma ComputeDistance_exact : forall c t1 t2, (Z.of_N (Size t1) <= ted_exact_limit)%Z -> (Z.of_N (Size t2) <= ted_exact_limit)%Z ->
  ComputeDistance c (Some t1) (Some t2) = Some (zs c t1 t2).
Proof.
  intros c t1 t2 H1 H2. cbn [ComputeDistance]. unfold zs.
  destruct (Z.gtb_spec (Z.of_N (Size t1)) ted_exact_limit); [lia|].
  destruct (Z.gtb_spec (Z.of_N (Size t2)) ted_exact_limit); [lia|]. cbn [orb].
  destruct (PrepareTreeForAPTED t1), (PrepareTreeForAPTED t2). reflexivity.
Qed.
