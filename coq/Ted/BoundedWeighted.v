From Coq Require Import ZArith List.
From PV Require Import Ted.TedSpec Ted.Cost Ted.ZS Ted.TedBrute Ted.BoundedDefs.
Lemma exact_weighted_T4 : exact_check c_weighted T4 = true. Proof. vm_compute. reflexivity. Qed.
Lemma exact_weighted_T3 : exact_check c_weighted T3 = true. Proof. vm_compute. reflexivity. Qed.
