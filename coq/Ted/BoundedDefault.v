From Coq Require Import ZArith List.
From PV Require Import Ted.TedSpec Ted.Cost Ted.ZS Ted.TedBrute Ted.BoundedDefs.
Lemma exact_default_T4 : exact_check default_cost T4 = true. Proof. vm_compute. reflexivity. Qed.
Lemma exact_default_T3 : exact_check default_cost T3 = true. Proof. vm_compute. reflexivity. Qed.
Lemma T4_count : length T4 = 102%nat /\ length T3 = 66%nat. Proof. vm_compute. split; reflexivity. Qed.
