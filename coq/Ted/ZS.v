(* C07 — executable MODEL of internal/analyzer/apted.go and apted_tree.go (the exact path,
   i.e. both trees have at most [ted_exact_limit] = 500 nodes), one Gallina function per Go
   function.  Despite its name the Go code is the Zhang–Shasha algorithm: post-order ids,
   left-most-leaf array, key roots, and a forest-distance table per pair of key roots.

   Go slices/2-D arrays are zero-initialised; tables are nested [PositiveMap]s with default 0.
   The recursion-depth limits (1000) in Size/getPostOrderNodes cannot trigger for trees of at
   most 500 nodes and are not modelled. float64 arithmetic is modelled by exact integers
   (cost units, see TedSpec.v); the correspondence check compares with a tolerance. *)
From Coq Require Import ZArith QArith Qminmax List Bool FMapPositive Sorting.Mergesort Orders.
From PV Require Import Gen.TedConst Ted.TedSpec.
Import ListNotations.
Open Scope Z_scope.

(* --- apted_tree.go ------------------------------------------------------------------------ *)
(* TreeNode with the APTED fields filled in *)
Inductive anode : Type := ANode (label : N) (PostOrderID : N) (LeftMostLeaf : N) (children : list anode).
Definition a_id (a : anode) := match a with ANode _ i _ _ => i end.
Definition a_lml (a : anode) := match a with ANode _ _ l _ => l end.

(* postOrderTraversalRecursive (apted_tree.go:269-282): children first, then node.PostOrderID = *postOrderID; *postOrderID++ .
   LeftMostLeaf is not known yet (0, as in the zero-initialised struct). *)
Fixpoint postOrderTraversalRecursive (t : tree) (postOrderID : N) : anode * N :=
  match t with
  | Node l cs =>
    let '(cs', next) :=
      (fix go (cs : list tree) (next : N) : list anode * N :=
         match cs with
         | [] => ([], next)
         | c :: r => let '(c', n1) := postOrderTraversalRecursive c next in
                     let '(r', n2) := go r n1 in (c' :: r', n2)
         end) cs postOrderID in
    (ANode l next 0%N cs', N.succ next)
  end.
Definition PostOrderTraversal (t : tree) : anode := fst (postOrderTraversalRecursive t 0%N).

(* computeLeftMostLeavesRecursive (apted_tree.go:293-309) *)
Fixpoint computeLeftMostLeavesRecursive (a : anode) : anode :=
  match a with
  | ANode l id _ [] => ANode l id id []
  | ANode l id _ (c :: r) =>
      let c' := computeLeftMostLeavesRecursive c in
      ANode l id (a_lml c') (c' :: map computeLeftMostLeavesRecursive r)
  end.

(* computeKeyRootsRecursive (apted_tree.go:326-342): pre-order; a node is a key root iff its
   left-most leaf has not been seen yet.  visited = list of left-most-leaf ids. *)
Definition mem_N (x : N) (l : list N) : bool := existsb (N.eqb x) l.
Fixpoint computeKeyRootsRecursive (a : anode) (st : list N * list N) : list N * list N :=
  match a with
  | ANode _ id lml cs =>
    let '(keyRoots, visited) := st in
    let st1 := if mem_N lml visited then (keyRoots, visited) else (keyRoots ++ [id], lml :: visited) in
    fold_left (fun s c => computeKeyRootsRecursive c s) cs st1
  end.
Definition ComputeKeyRoots (a : anode) : list N := fst (computeKeyRootsRecursive a ([], [])).

(* PrepareTreeForAPTED (apted_tree.go:345-360) *)
Definition PrepareTreeForAPTED (t : tree) : anode * list N :=
  let a := computeLeftMostLeavesRecursive (PostOrderTraversal t) in (a, ComputeKeyRoots a).

(* sort.Ints *)
Module NOrder <: TotalLeBool.
  Definition t := N.
  Definition leb := N.leb.
  Lemma leb_total : forall a b, leb a b = true \/ leb b a = true.
  Proof. intros a b. unfold leb. destruct (N.leb_spec a b); [left; reflexivity|right]. apply N.leb_le. apply N.lt_le_incl. assumption. Qed.
End NOrder.
Module NSort := Sort NOrder.
Definition sort_Ints (l : list N) : list N := NSort.sort l.

(* --- apted.go ----------------------------------------------------------------------------- *)
(* postOrderTraversalWithDepthLimit (apted.go:353-365) / getPostOrderNodes (331-345):
   the nodes in post-order (already sorted by PostOrderID); a node = (label, LeftMostLeaf). *)
Fixpoint getPostOrderNodes (a : anode) : list (N * N) :=
  match a with ANode l _ lml cs => flat_map getPostOrderNodes cs ++ [(l, lml)] end.

(* zero-initialised 2-D float64 tables *)
Definition tbl := PositiveMap.t (PositiveMap.t Z).
Definition tget (m : tbl) (x y : N) : Z :=
  match PositiveMap.find (N.succ_pos x) m with
  | Some row => match PositiveMap.find (N.succ_pos y) row with Some v => v | None => 0 end
  | None => 0
  end.
Definition tset (m : tbl) (x y : N) (v : Z) : tbl :=
  let row := match PositiveMap.find (N.succ_pos x) m with Some r => r | None => PositiveMap.empty Z end in
  PositiveMap.add (N.succ_pos x) (PositiveMap.add (N.succ_pos y) v row) m.

(* for x := lo; x <= hi; x++ *)
Definition range_incl (lo hi : N) : list N :=
  if (lo <=? hi)%N then map (fun k => (lo + N.of_nat k)%N) (seq 0 (S (N.to_nat (hi - lo)))) else [].

Definition node_at (nodes : list (N * N)) (i : N) : N * N := nth (N.to_nat i) nodes (0%N, 0%N).
Definition lbl (nodes : list (N * N)) (i : N) : N := fst (node_at nodes i).
Definition lml (nodes : list (N * N)) (i : N) : N := snd (node_at nodes i).

(* computeForestDistance (apted.go:261-328) *)
Definition computeForestDistance (c : cost) (nodes1 nodes2 : list (N * N)) (i j : N) (td : tbl) : tbl :=
  if ((N.of_nat (length nodes1) <=? i) || (N.of_nat (length nodes2) <=? j))%N%bool then td else
  let lml_i := lml nodes1 i in
  let lml_j := lml nodes2 j in
  let fd0 : tbl := PositiveMap.empty _ in
  (* fd[x+1][lml_j] = fd[x][lml_j] + Delete(nodes1[x]) *)
  let fd1 := fold_left (fun fd x => tset fd (x + 1) lml_j (tget fd x lml_j + del c (lbl nodes1 x))) (range_incl lml_i i) fd0 in
  (* fd[lml_i][y+1] = fd[lml_i][y] + Insert(nodes2[y]) *)
  let fd2 := fold_left (fun fd y => tset fd lml_i (y + 1) (tget fd lml_i y + ins c (lbl nodes2 y))) (range_incl lml_j j) fd1 in
  let ys := range_incl lml_j j in
  snd (fold_left (fun st x =>
    fold_left (fun (st : tbl * tbl) y =>
      let '(fd, td) := st in
      let lml_x := lml nodes1 x in
      let lml_y := lml nodes2 y in
      let deleteCost := tget fd x (y + 1) + del c (lbl nodes1 x) in
      let insertCost := tget fd (x + 1) y + ins c (lbl nodes2 y) in
      if ((lml_x =? lml_i) && (lml_y =? lml_j))%N%bool then
        let renameCost := tget fd x y + ren c (lbl nodes1 x) (lbl nodes2 y) in
        let v := Z.min deleteCost (Z.min insertCost renameCost) in
        (tset fd (x + 1) (y + 1) v, tset td (x + 1) (y + 1) v)
      else
        let subtreeCost := tget fd lml_x lml_y + tget td (x + 1) (y + 1) in
        (tset fd (x + 1) (y + 1) (Z.min deleteCost (Z.min insertCost subtreeCost)), td)) ys st)
    (range_incl lml_i i) (fd2, td)).

(* apted (apted.go:153-175) *)
Definition apted (c : cost) (a1 a2 : anode) (keyRoots1 keyRoots2 : list N) : Z :=
  let nodes1 := getPostOrderNodes a1 in
  let nodes2 := getPostOrderNodes a2 in
  let size1 := N.of_nat (length nodes1) in
  let size2 := N.of_nat (length nodes2) in
  let td := fold_left (fun td i => fold_left (fun td j => computeForestDistance c nodes1 nodes2 i j td) keyRoots2 td)
                      keyRoots1 (PositiveMap.empty _) in
  tget td size1 size2.

(* computeInsertCost / computeDeleteCost (apted.go:367-403) = TedSpec.ins_tree / del_tree *)

(* TreeNode.Size (apted_tree.go:52-67) *)
Definition Size (t : tree) : N := N.of_nat (tsize t).

(* ComputeDistance (apted.go:24-55). [None] = nil tree.  Result: [Some d] on the exact path,
   [None] when a tree has more than 500 nodes (computeDistanceOptimized: outside the range the
   property quantifies over; not modelled). *)
Definition ComputeDistance (c : cost) (tree1 tree2 : option tree) : option Z :=
  match tree1, tree2 with
  | None, None => Some 0
  | None, Some t2 => Some (ins_tree c t2)
  | Some t1, None => Some (del_tree c t1)
  | Some t1, Some t2 =>
    if ((Z.of_N (Size t1) >? ted_exact_limit) || (Z.of_N (Size t2) >? ted_exact_limit))%bool then None else
    let '(a1, keyRoots1) := PrepareTreeForAPTED t1 in
    let '(a2, keyRoots2) := PrepareTreeForAPTED t2 in
    Some (apted c a1 a2 (sort_Ints keyRoots1) (sort_Ints keyRoots2))
  end.

(* the exact path alone, on two trees *)
Definition zs (c : cost) (t1 t2 : tree) : Z :=
  let '(a1, keyRoots1) := PrepareTreeForAPTED t1 in
  let '(a2, keyRoots2) := PrepareTreeForAPTED t2 in
  apted c a1 a2 (sort_Ints keyRoots1) (sort_Ints keyRoots2).

(* ComputeSimilarity (apted.go:406-442) given the distance [d] in units of 1/scale:
   1 - min(distance, maxSize)/maxSize, clamped to [0,1]. *)
Open Scope Q_scope.
Definition similarity_of (scale : positive) (d : Z) (size1 size2 : N) : Q :=
  let maxSize := inject_Z (Z.of_N (N.max size1 size2)) in
  if (N.max size1 size2 =? 0)%N then 1 else
  let normalizedDistance := Qmin (d # scale) maxSize / maxSize in
  Qmax 0 (Qmin 1 (1 - normalizedDistance)).

Definition ComputeSimilarity (scale : positive) (c : cost) (tree1 tree2 : option tree) : option Q :=
  match tree1, tree2 with
  | None, None => Some 1
  | None, Some _ | Some _, None => Some 0
  | Some t1, Some t2 =>
      match ComputeDistance c tree1 tree2 with
      | Some d => Some (similarity_of scale d (Size t1) (Size t2))
      | None => None
      end
  end.
