(* C07 — post-order structure of a tree, independent of the model:
   [post t] = the subtrees of [t] in post-order; every post-order position k carries a subtree
   whose own post-order list is the segment ending at k ([post_seg]); the "prefix forests"
   [pfx t k] (forest induced by the first k post-order nodes), with the decomposition on the
   rightmost root that the Zhang–Shasha table uses ([pfx_step]). *)
From Coq Require Import ZArith List Lia Bool Arith.
From PV Require Import Ted.TedSpec.
Import ListNotations.

Fixpoint post (t : tree) : list tree := match t with Node l cs => flat_map post cs ++ [t] end.
Definition fpost (f : forest) : list tree := flat_map post f.
Definition dflt : tree := Node 0%N [].

Lemma post_node : forall l cs, post (Node l cs) = fpost cs ++ [Node l cs].
Proof. reflexivity. Qed.
Lemma fpost_cons : forall t r, fpost (t :: r) = post t ++ fpost r.
Proof. reflexivity. Qed.

Lemma post_fpost_length : (forall t, length (post t) = tsize t) /\ (forall f, length (fpost f) = fsize f).
Proof.
  apply tree_forest_ind.
  - intros l cs IH. rewrite post_node, app_length, IH, tsize_node. cbn [length]. lia.
  - reflexivity.
  - intros t r IHt IHr. rewrite fpost_cons, app_length, IHt, IHr, fsize_cons. reflexivity.
Qed.
Lemma post_length : forall t, length (post t) = tsize t.
Proof. exact (proj1 post_fpost_length). Qed.
Lemma fpost_length : forall f, length (fpost f) = fsize f.
Proof. exact (proj2 post_fpost_length). Qed.

Lemma tsize_pos : forall t, (1 <= tsize t)%nat.
Proof. intros [l cs]. rewrite tsize_node. lia. Qed.

(* the subtree at post-order position k occupies the segment of positions ending at k *)
Definition seg_at (l : list tree) (k : nat) : Prop :=
  exists pre suf, l = pre ++ post (nth k l dflt) ++ suf /\ (length pre + tsize (nth k l dflt) = S k)%nat.

Lemma post_seg_both : (forall t k, (k < tsize t)%nat -> seg_at (post t) k) /\
                      (forall f k, (k < fsize f)%nat -> seg_at (fpost f) k).
Proof.
  apply tree_forest_ind.
  - intros l cs IH k Hk. rewrite tsize_node in Hk. rewrite post_node.
    destruct (Nat.lt_ge_cases k (fsize cs)) as [Hlt|Hge].
    + destruct (IH k Hlt) as (pre & suf & E & Hl). exists pre, (suf ++ [Node l cs]).
      rewrite app_nth1 by (rewrite fpost_length; exact Hlt). split; [|exact Hl].
      rewrite E at 1. rewrite <- !app_assoc. reflexivity.
    + assert (k = fsize cs) by lia. subst k. exists [], [].
      rewrite app_nth2 by (rewrite fpost_length; lia). rewrite fpost_length, Nat.sub_diag. cbn [nth].
      split; [rewrite app_nil_r; reflexivity | rewrite tsize_node; cbn [length]; lia].
  - intros k Hk. cbn in Hk. lia.
  - intros t r IHt IHr k Hk. rewrite fsize_cons in Hk. rewrite fpost_cons.
    destruct (Nat.lt_ge_cases k (tsize t)) as [Hlt|Hge].
    + destruct (IHt k Hlt) as (pre & suf & E & Hl). exists pre, (suf ++ fpost r).
      rewrite app_nth1 by (rewrite post_length; exact Hlt). split; [|exact Hl].
      rewrite E at 1. rewrite <- !app_assoc. reflexivity.
    + destruct (IHr (k - tsize t)%nat ltac:(lia)) as (pre & suf & E & Hl). exists (post t ++ pre), suf.
      rewrite app_nth2 by (rewrite post_length; lia). rewrite post_length. split.
      * rewrite E at 1. rewrite <- !app_assoc. reflexivity.
      * rewrite app_length, post_length. lia.
Qed.
Lemma post_seg : forall t k, (k < tsize t)%nat -> seg_at (post t) k.
Proof. exact (proj1 post_seg_both). Qed.

(* consequences: the subtree at k is small enough, and the subtrees of a subtree are the global ones *)
Lemma sub_size_le : forall t k, (k < tsize t)%nat -> (tsize (nth k (post t) dflt) <= S k)%nat.
Proof. intros t k Hk. destruct (post_seg t k Hk) as (pre & suf & _ & Hl). lia. Qed.

Lemma sub_sub : forall t i k, (i < tsize t)%nat -> (k < tsize (nth i (post t) dflt))%nat ->
  nth k (post (nth i (post t) dflt)) dflt = nth (S i - tsize (nth i (post t) dflt) + k) (post t) dflt.
Proof.
  intros t i k Hi Hk. destruct (post_seg t i Hi) as (pre & suf & E & Hl).
  set (s := nth i (post t) dflt) in *. rewrite E.
  replace (S i - tsize s + k)%nat with (length pre + k)%nat by lia.
  rewrite app_nth2_plus. rewrite app_nth1 by (rewrite post_length; exact Hk). reflexivity.
Qed.

Lemma post_last : forall t, nth (tsize t - 1) (post t) dflt = t.
Proof.
  intros [l cs]. rewrite post_node, tsize_node. rewrite app_nth2 by (rewrite fpost_length; lia).
  rewrite fpost_length. replace (S (fsize cs) - 1 - fsize cs)%nat with 0%nat by lia. reflexivity.
Qed.

(* --- prefix forests, by the obvious stack machine ------------------------------------------- *)
Definition step (st : forest) (t : tree) : forest := firstn (length st - length (children_of t)) st ++ [t].
Definition run (l : list tree) (st : forest) : forest := fold_left step l st.

Lemma run_app : forall a b st, run (a ++ b) st = run b (run a st).
Proof. intros. unfold run. apply fold_left_app. Qed.

Lemma firstn_len_app : forall A (a b : list A), firstn (length a) (a ++ b) = a.
Proof. intros. rewrite firstn_app, Nat.sub_diag, firstn_all, firstn_O, app_nil_r. reflexivity. Qed.

Lemma run_post_both : (forall t st, run (post t) st = st ++ [t]) /\ (forall f st, run (fpost f) st = st ++ f).
Proof.
  apply tree_forest_ind.
  - intros l cs IH st. rewrite post_node, run_app, IH. cbn [run fold_left]. unfold step. cbn [children_of].
    rewrite app_length, Nat.add_sub, firstn_len_app. reflexivity.
  - intros st. cbn. rewrite app_nil_r. reflexivity.
  - intros t r IHt IHr st. rewrite fpost_cons, run_app, IHt, IHr, <- app_assoc. reflexivity.
Qed.
Lemma run_post : forall t st, run (post t) st = st ++ [t].
Proof. exact (proj1 run_post_both). Qed.
Lemma run_fpost : forall f st, run (fpost f) st = st ++ f.
Proof. exact (proj2 run_post_both). Qed.

Definition pfx (t : tree) (k : nat) : forest := run (firstn k (post t)) [].

Lemma pfx_0 : forall t, pfx t 0 = [].
Proof. reflexivity. Qed.
Lemma pfx_all : forall t, pfx t (tsize t) = [t].
Proof. intros t. unfold pfx. rewrite <- post_length, firstn_all, run_post. reflexivity. Qed.

(* removing the rightmost root: node k = a(F1); before it come F0 = pfx (k+1-|a(F1)|), then F1 *)
Lemma pfx_step : forall t k a F1, (k < tsize t)%nat -> nth k (post t) dflt = Node a F1 ->
  pfx t (S k) = pfx t (S k - tsize (Node a F1)) ++ [Node a F1] /\
  pfx t k = pfx t (S k - tsize (Node a F1)) ++ F1.
Proof.
  intros t k a F1 Hk Hs. destruct (post_seg t k Hk) as (pre & suf & E & Hl). rewrite Hs in E, Hl.
  assert (Ep : (S k - tsize (Node a F1) = length pre)%nat) by lia. rewrite Ep.
  unfold pfx. rewrite E.
  rewrite firstn_len_app. split.
  - replace (S k) with (length (pre ++ post (Node a F1))) by (rewrite app_length, post_length; lia).
    rewrite app_assoc, firstn_len_app, run_app, run_post. reflexivity.
  - rewrite post_node, <- !app_assoc.
    replace k with (length (pre ++ fpost F1)) at 1 by (rewrite app_length, fpost_length; rewrite tsize_node in Hl; lia).
    rewrite app_assoc, firstn_len_app, run_app, run_fpost. reflexivity.
Qed.
