(* Entry points used by the correspondence check (harness/c07.py).
   Big integers are returned as little-endian base-2^32 limb lists (printing 120-bit numerals is slow);
   [] encodes "no value". *)
From Coq Require Import ZArith QArith String List Bool.
From PV Require Import Ted.TedSpec Ted.Cost Ted.ZS Ted.TedMemo Ted.TedBrute.
Import ListNotations.
Open Scope Z_scope.

Fixpoint limbs_fuel (n : nat) (z : Z) : list Z :=
  match n with
  | O => []
  | S n => if z <? 4294967296 then [z] else (z mod 4294967296) :: limbs_fuel n (z / 4294967296)
  end.
Definition limbs (z : Z) : list Z := if z <? 0 then [] else limbs_fuel 64 z.
Definition qpair (q : Q) : list (list Z) := let r := Qred q in [limbs (Qnum r); limbs (Zpos (Qden r))].

(* [spec d(a,b); model d(a,b) or []; delete-all a; insert-all b;
    [1] iff the model's ComputeSimilarity equals the formula applied to the spec distance; [size a]; [size b]] *)
Definition run_ted (cm : cmodel) (a b : tree) : list (list Z) :=
  let c := cm_cost cm in
  let d := delta_memo c [a] [b] in
  [limbs d;
   match ComputeDistance c (Some a) (Some b) with Some z => limbs z | None => [] end;
   limbs (del_all c [a]); limbs (ins_all c [b]);
   match ComputeSimilarity (cm_scale cm) c (Some a) (Some b) with
   | Some s => [if Qeq_bool s (similarity_of (cm_scale cm) d (Size a) (Size b)) then 1 else 0]
   | None => []
   end;
   [Z.of_N (Size a)]; [Z.of_N (Size b)]].

(* additionally the brute-force minimum over all Tai mappings (tiny trees only) *)
Definition run_ted_brute (cm : cmodel) (a b : tree) : list (list Z) :=
  run_ted cm a b ++ [limbs (mapping_min (cm_cost cm) [a] [b])].

(* cost tables of a string-level cost model on an alphabet, as (num, den) limb pairs *)
Definition run_costs (sc : scost) (tbl : list string) :=
  (map (fun s => qpair (sdel sc s)) tbl, map (fun s => qpair (sins sc s)) tbl,
   map (fun s1 => map (fun s2 => qpair (sren sc s1 s2)) tbl) tbl, mk_cost_exact sc tbl).
