(* C07 — the shipped cost models are non-negative, have rename(l,l) = 0 and are symmetric
   (delete = insert, rename(a,b) = rename(b,a)), for every label string and every alphabet. *)
From Coq Require Import ZArith QArith Qround List String Ascii Bool Lia.
From PV Require Import Gen.TedConst Ted.TedSpec Ted.Cost.
Import ListNotations.

Definition scost_nonneg (sc : scost) := (forall s, 0 <= sdel sc s)%Q /\ (forall s, 0 <= sins sc s)%Q /\ (forall a b, 0 <= sren sc a b)%Q.
Definition scost_refl (sc : scost) := forall s, (sren sc s s == 0)%Q.
Definition scost_sym (sc : scost) := (forall s, sdel sc s = sins sc s) /\ (forall a b, sren sc a b = sren sc b a).

Lemma nth_error_map' : forall A B (f : A -> B) l n, nth_error (map f l) n = option_map f (nth_error l n).
Proof. induction l as [|x l IH]; intros [|n]; cbn; auto. Qed.

Lemma to_units_nonneg : forall q, (0 <= q)%Q -> (0 <= to_units q)%Z.
Proof.
  intros q H. unfold to_units. change 0%Z with (Qfloor 0). apply Qfloor_resp_le.
  apply Qmult_le_0_compat; [exact H | discriminate].
Qed.
Lemma to_units_0 : to_units 0 = 0%Z.
Proof. reflexivity. Qed.

Lemma mk_cost_nonneg : forall sc tbl, scost_nonneg sc -> cost_nonneg (mk_cost sc tbl).
Proof.
  intros sc tbl (Hd & Hi & Hr). unfold mk_cost. repeat split; cbn [del ins ren]; intros.
  - unfold nthZ. rewrite nth_error_map'. destruct (nth_error tbl _); cbn; [apply to_units_nonneg, Hd | lia].
  - unfold nthZ. rewrite nth_error_map'. destruct (nth_error tbl _); cbn; [apply to_units_nonneg, Hi | lia].
  - rewrite nth_error_map'. destruct (nth_error tbl (N.to_nat a)); cbn; [|lia].
    unfold nthZ. rewrite nth_error_map'. destruct (nth_error tbl _); cbn; [apply to_units_nonneg, Hr | lia].
Qed.

Lemma mk_cost_refl : forall sc tbl, scost_refl sc -> ren_refl (mk_cost sc tbl).
Proof.
  intros sc tbl H a. unfold mk_cost. cbn [ren]. rewrite nth_error_map'. destruct (nth_error tbl (N.to_nat a)) eqn:E; cbn [option_map]; [|reflexivity].
  unfold nthZ. rewrite nth_error_map', E. cbn [option_map]. unfold to_units.
  assert (E0 : (sren sc s s * inject_Z (Z.pos ted_scale) == 0)%Q) by (rewrite (H s); apply Qmult_0_l).
  transitivity (Qfloor 0); [apply Qfloor_comp; exact E0 | reflexivity].
Qed.

Lemma mk_cost_sym : forall sc tbl, scost_sym sc -> cost_sym (mk_cost sc tbl).
Proof.
  intros sc tbl (Hdi & Hr). unfold mk_cost. split; cbn [del ins ren]; intros.
  - unfold nthZ. rewrite !nth_error_map'. destruct (nth_error tbl _); cbn; [rewrite Hdi|]; reflexivity.
  - rewrite !nth_error_map'. unfold nthZ.
    destruct (nth_error tbl (N.to_nat a)) eqn:Ea; destruct (nth_error tbl (N.to_nat b)) eqn:Eb; cbn;
      rewrite ?nth_error_map', ?Ea, ?Eb; cbn; [rewrite Hr|..]; reflexivity.
Qed.

(* --- default model ----------------------------------------------------------------------- *)
Lemma default_cost_nonneg : cost_nonneg default_cost.
Proof. repeat split; intros; cbn [default_cost del ins ren]; try destruct (N.eqb a b); vm_compute; discriminate. Qed.
Lemma default_cost_refl : ren_refl default_cost.
Proof. intros a. cbn [default_cost ren]. rewrite N.eqb_refl. reflexivity. Qed.
Lemma default_cost_sym : cost_sym default_cost.
Proof. split; intros; cbn [default_cost del ins ren]; [reflexivity | rewrite N.eqb_sym; reflexivity]. Qed.

(* --- python model ------------------------------------------------------------------------ *)
Lemma existsb_ext' : forall A (f g : A -> bool) l, (forall x, f x = g x) -> existsb f l = existsb g l.
Proof. induction l as [|x l IH]; intros H; cbn; [reflexivity | rewrite H, IH by exact H; reflexivity]. Qed.

Lemma areRelated_sym : forall a b, areRelatedNodeTypes a b = areRelatedNodeTypes b a.
Proof. intros. unfold areRelatedNodeTypes. apply existsb_ext'. intros [x y]. cbn [fst snd]. rewrite (andb_comm (String.eqb b x)), (andb_comm (String.eqb b y)). apply orb_comm. Qed.
Lemma areSameCategory_sym : forall a b, areSameCategory a b = areSameCategory b a.
Proof. intros. unfold areSameCategory. rewrite (andb_comm (isStructuralNode a)), (andb_comm (isControlFlowNode a)), (andb_comm (isExpressionNode a)). reflexivity. Qed.

Lemma similarity_sym : forall l1 l2, calculateLabelSimilarity l1 l2 = calculateLabelSimilarity l2 l1.
Proof.
  intros. unfold calculateLabelSimilarity. cbv zeta.
  rewrite (String.eqb_sym (extractBaseNodeType l2)).
  destruct (String.eqb (extractBaseNodeType l1) (extractBaseNodeType l2)) eqn:E.
  - apply String.eqb_eq in E. rewrite E. rewrite (String.eqb_sym (extractNameFromLabel l2)). reflexivity.
  - rewrite areRelated_sym, areSameCategory_sym. reflexivity.
Qed.
Lemma shouldIgnore_sym : forall c a b, shouldIgnoreDifference c a b = shouldIgnoreDifference c b a.
Proof.
  intros. unfold shouldIgnoreDifference.
  rewrite <- !andb_assoc. rewrite (andb_comm (isLiteralNode a)), (andb_comm (isIdentifierNode a)). reflexivity.
Qed.

Lemma python_sym : forall ignL ignI, scost_sym (python_scost (py_default_cfg ignL ignI)).
Proof.
  intros. split; intros; cbn [python_scost sdel sins sren].
  - reflexivity.
  - rewrite (String.eqb_sym b a), (shouldIgnore_sym _ b a), (similarity_sym b a). reflexivity.
Qed.
Lemma python_refl : forall c, scost_refl (python_scost c).
Proof. intros c s. cbn [python_scost sren]. rewrite String.eqb_refl. reflexivity. Qed.

Lemma multiplier_nonneg : forall ignL ignI l, (0 <= getNodeTypeMultiplier (py_default_cfg ignL ignI) l)%Q.
Proof.
  intros. unfold getNodeTypeMultiplier.
  repeat match goal with |- context [if ?b then _ else _] => destruct b end; vm_compute; discriminate.
Qed.
Lemma similarity_le_1 : forall a b, (0 <= 1 - calculateLabelSimilarity a b)%Q.
Proof.
  intros. unfold calculateLabelSimilarity. cbv zeta.
  repeat match goal with |- context [if ?b then _ else _] => destruct b end; vm_compute; discriminate.
Qed.
Lemma python_nonneg : forall ignL ignI, scost_nonneg (python_scost (py_default_cfg ignL ignI)).
Proof.
  intros. repeat split; intros; cbn [python_scost sdel sins sren].
  - apply Qmult_le_0_compat; [vm_compute; discriminate | apply multiplier_nonneg].
  - apply Qmult_le_0_compat; [vm_compute; discriminate | apply multiplier_nonneg].
  - destruct (String.eqb a b); [discriminate|]. destruct (shouldIgnoreDifference _ a b); [discriminate|].
    apply Qmult_le_0_compat; [vm_compute; discriminate | apply similarity_le_1].
Qed.

(* --- weighted model ---------------------------------------------------------------------- *)
Lemma weighted_sym : forall base, scost_sym base -> scost_sym (weighted_scost base).
Proof. intros base (H1 & H2). split; intros; cbn [weighted_scost sdel sins sren]; [rewrite H1 | rewrite H2]; reflexivity. Qed.
Lemma weighted_refl : forall base, scost_refl base -> scost_refl (weighted_scost base).
Proof. intros base H s. cbn [weighted_scost sren]. rewrite (H s). apply Qmult_0_r. Qed.
Lemma weighted_nonneg : forall base, scost_nonneg base -> scost_nonneg (weighted_scost base).
Proof.
  intros base (H1 & H2 & H3). repeat split; intros; cbn [weighted_scost sdel sins sren];
    (apply Qmult_le_0_compat; [vm_compute; discriminate | auto]).
Qed.

(* --- all three, as the harness instantiates them ------------------------------------------ *)
Definition shipped (c : cost) : Prop :=
  c = default_cost \/ (exists l i tbl, c = cm_cost (cm_python l i tbl)) \/ (exists l i tbl, c = cm_cost (cm_weighted l i tbl)).

Lemma shipped_ok : forall c, shipped c -> cost_nonneg c /\ ren_refl c /\ cost_sym c.
Proof.
  intros c [->|[(l & i & tbl & ->)|(l & i & tbl & ->)]].
  - split; [apply default_cost_nonneg | split; [apply default_cost_refl | apply default_cost_sym]].
  - cbn [cm_python cm_cost]. split; [apply mk_cost_nonneg, python_nonneg | split; [apply mk_cost_refl, python_refl | apply mk_cost_sym, python_sym]].
  - cbn [cm_weighted cm_cost]. split; [apply mk_cost_nonneg, weighted_nonneg, python_nonneg |
      split; [apply mk_cost_refl, weighted_refl, python_refl | apply mk_cost_sym, weighted_sym, python_sym]].
Qed.
