(* C07 — WeightedCostModel with ARBITRARY weights (internal/analyzer/apted_cost.go:369-399):
     NewWeightedCostModel(insertWeight, deleteWeight, renameWeight, base)
     Insert(n) = InsertWeight * base.Insert(n)   Delete(n) = DeleteWeight * base.Delete(n)
     Rename(a,b) = RenameWeight * base.Rename(a,b)
   The property quantifies over "each of the default, Python and weighted cost models"; the weighted model is a
   family.  Ted/Cost.v [weighted_scost] is the member NewCloneDetector builds (clone_detector.go:285-292, weights from
   Gen/TedConst.v); [weighted_scost_w] is the whole family, over either base model, and [weighted_scost_is_w] says the
   former is the instance at the generated constants.  Weights with insert <> delete give an ASYMMETRIC cost model:
   d(a,b) and d(b,a) differ ([weighted_w_asym_witness]), so an implementation that exchanges the two trees is wrong
   there although it is right for the three shipped instances. *)
From Coq Require Import ZArith QArith Qround List String Bool.
From PV Require Import Gen.TedConst Ted.TedSpec Ted.Cost.
Import ListNotations.
Open Scope Q_scope.

(* apted_cost.go:386-399; argument order of NewWeightedCostModel: insert, delete, rename, base *)
Definition weighted_scost_w (wi wd wr : Q) (base : scost) : scost :=
  Build_scost (fun l => wd * sdel base l) (fun l => wi * sins base l) (fun a b => wr * sren base a b).

(* the shipped weighted model is the instance at the constants of clone_detector.go *)
Lemma weighted_scost_is_w : forall base,
  weighted_scost base = weighted_scost_w ted_weighted_insert ted_weighted_delete ted_weighted_rename base.
Proof. reflexivity. Qed.

(* the two base models the hook offers: NewDefaultCostModel() and the Python model NewCloneDetector builds *)
Inductive wbase : Type := WDefault | WPython (ignL ignI : bool).
Definition wbase_scost (b : wbase) : scost :=
  match b with WDefault => default_scost | WPython l i => python_scost (py_default_cfg l i) end.

(* tabulated on a label alphabet, in units of 2^-120 (exact whenever weights and base costs are dyadic with
   denominators whose product divides 2^120: [mk_cost_exact], checked per instance by the harness) *)
Definition cm_weighted_w (wi wd wr : Q) (b : wbase) (tbl : list string) : cmodel :=
  Build_cmodel (mk_cost (weighted_scost_w wi wd wr (wbase_scost b)) tbl) ted_scale.
