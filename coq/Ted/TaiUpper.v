(* C07 — the recurrence [delta] is ACHIEVED by a Tai mapping: [mapping_min c F G <= delta c F G] for all forests.
   The mapping is built along the recurrence (delete the leftmost root / insert it / map root to root and
   recurse on the children forests and on the remaining forests). No hypothesis on the cost model. *)
From Coq Require Import ZArith NArith List Lia Bool ZifyBool ZifyN ZifyNat.
From PV Require Import Ted.TedSpec Ted.TedProofs Ted.TedBrute Ted.TaiSteps.
Import ListNotations.
Open Scope Z_scope.

(* insertion cost of the right nodes not hit by [m], as a sum *)
Definition ins_sum (c : cost) (m : mapping) (vs : list pnode) : Z :=
  zsum (map (fun v => if mapped_r m v then 0 else ins c (lab_of v)) vs).

Lemma ins_rest_sum : forall c vs m, ins_rest c vs m = ins_sum c m vs.
Proof.
  intros c vs m. unfold ins_rest, ins_sum.
  assert (H : forall l a, fold_left (fun acc v => if mapped_r m v then acc else acc + ins c (lab_of v)) l a =
                          a + zsum (map (fun v => if mapped_r m v then 0 else ins c (lab_of v)) l)).
  { induction l as [|v l IH]; intros a; cbn [fold_left map]; [cbn; lia|]. rewrite IH.
    change (zsum (?x :: ?r)) with (x + zsum r). destruct (mapped_r m v); lia. }
  rewrite H. lia.
Qed.
Lemma ins_sum_app : forall c m a b, ins_sum c m (a ++ b) = ins_sum c m a + ins_sum c m b.
Proof. intros. unfold ins_sum. rewrite map_app, zsum_app. reflexivity. Qed.
Lemma ins_sum_cons : forall c m v r, ins_sum c m (v :: r) = (if mapped_r m v then 0 else ins c (lab_of v)) + ins_sum c m r.
Proof. reflexivity. Qed.
Lemma ins_sum_ext : forall c m m' vs, (forall v, In v vs -> mapped_r m v = mapped_r m' v) -> ins_sum c m vs = ins_sum c m' vs.
Proof.
  intros c m m' vs H. unfold ins_sum. f_equal. apply map_ext_in. intros v Hv. rewrite (H v Hv). reflexivity.
Qed.

Lemma mapped_r_app : forall m1 m2 v, mapped_r (m1 ++ m2) v = mapped_r m1 v || mapped_r m2 v.
Proof. intros. unfold mapped_r. apply existsb_app. Qed.
Lemma mapped_r_false : forall m v, (forall p, In p m -> pre_of (snd p) <> pre_of v) -> mapped_r m v = false.
Proof.
  intros m v H. unfold mapped_r. destruct (existsb _ m) eqn:E; [|reflexivity].
  apply existsb_exists in E. destruct E as (p & Hp & Ep). apply N.eqb_eq in Ep. exfalso. apply (H p Hp Ep).
Qed.

(* label sums of node lists *)
Definition lab_sum (f : N -> Z) (us : list pnode) : Z := zsum (map (fun u => f (lab_of u)) us).
Lemma lab_sum_app : forall f a b, lab_sum f (a ++ b) = lab_sum f a + lab_sum f b.
Proof. intros. unfold lab_sum. rewrite map_app, zsum_app. reflexivity. Qed.
Lemma NF_ins_sum : forall c G vs, NF G vs -> lab_sum (ins c) vs = ins_all c G.
Proof.
  intros c G vs H. induction H as [|a F1 F' u us1 us2 El _ IH1 _ IH2 _ _ _]; [reflexivity|].
  change (lab_sum (ins c) (u :: us1 ++ us2)) with (ins c (lab_of u) + lab_sum (ins c) (us1 ++ us2)).
  rewrite lab_sum_app, IH1, IH2, ins_all_cons, El. lia.
Qed.
Lemma NF_del_sum : forall c F us, NF F us -> lab_sum (del c) us = del_all c F.
Proof.
  intros c F us H. induction H as [|a F1 F' u us1 us2 El _ IH1 _ IH2 _ _ _]; [reflexivity|].
  change (lab_sum (del c) (u :: us1 ++ us2)) with (del c (lab_of u) + lab_sum (del c) (us1 ++ us2)).
  rewrite lab_sum_app, IH1, IH2, del_all_cons, El. lia.
Qed.
Lemma ins_sum_nil : forall c vs, ins_sum c [] vs = lab_sum (ins c) vs.
Proof. reflexivity. Qed.

Lemma steps_del_all : forall c vs us m, steps c vs us m m (lab_sum (del c) us).
Proof.
  intros c vs us m. induction us as [|u us IH]; [constructor|].
  change (lab_sum (del c) (u :: us)) with (del c (lab_of u) + lab_sum (del c) us). constructor. exact IH.
Qed.

(* compatibility from the order relations *)
Lemma compat_lft : forall u v x y, lft x u -> lft y v -> compatible u v x y = true.
Proof. intros u v x y [H1 H2] [H3 H4]. unfold compatible. lia. Qed.
Lemma compat_anc : forall u v x y, anc x u -> anc y v -> compatible u v x y = true.
Proof. intros u v x y [H1 H2] [H3 H4]. unfold compatible. lia. Qed.

Definition rect_ok (m : mapping) (us vs : list pnode) : Prop :=
  forall u v, In u us -> In v vs -> compat_all u v m = true.

Lemma min3_cases : forall a b d, min3 a b d = a \/ min3 a b d = b \/ min3 a b d = d.
Proof. intros. unfold min3. lia. Qed.

Lemma upper_gen : forall c vs F G us vs' m, NF F us -> NF G vs' -> (forall v, In v vs' -> In v vs) -> rect_ok m us vs' ->
  exists new z, steps c vs us m (new ++ m) z /\ (forall p, In p new -> In (fst p) us /\ In (snd p) vs') /\
                z + ins_sum c new vs' <= delta c F G.
Proof.
  intros c vs. apply (forest_pair_ind (fun F G => forall us vs' m, NF F us -> NF G vs' -> (forall v, In v vs' -> In v vs) -> rect_ok m us vs' ->
     exists new z, steps c vs us m (new ++ m) z /\ (forall p, In p new -> In (fst p) us /\ In (snd p) vs') /\
                   z + ins_sum c new vs' <= delta c F G)).
  intros F G IH us vs' m HF HG Hsub Hrect.
  destruct F as [|[a F1] F'].
  - (* nothing on the left: insert everything *)
    inversion HF; subst. exists [], 0. split; [constructor|]. split; [intros p []|].
    rewrite delta_from_empty, ins_sum_nil, (NF_ins_sum c G vs' HG). lia.
  - destruct G as [|[b G1] G'].
    + (* nothing on the right: delete everything *)
      inversion HG; subst. exists [], (lab_sum (del c) us). split; [apply steps_del_all|]. split; [intros p []|].
      rewrite delta_to_empty, (NF_del_sum c _ us HF). cbn. lia.
    + inversion HF as [|a0 F10 F'0 u us1 us2 Elu HF1 HF' Hau Hlu Hxu]; subst a0 F10 F'0 us.
      inversion HG as [|b0 G10 G'0 v vs1 vs2 Elv HG1 HG' Hav Hlv Hxv]; subst b0 G10 G'0 vs'.
      rewrite delta_cons_cons.
      destruct (min3_cases (delta c (F1 ++ F') (Node b G1 :: G') + del c a) (delta c (Node a F1 :: F') (G1 ++ G') + ins c b)
                           (delta c F1 G1 + delta c F' G' + ren c a b)) as [E|[E|E]]; rewrite E; clear E.
      * (* delete a *)
        destruct (IH (F1 ++ F') (Node b G1 :: G') ltac:(sizes) (us1 ++ us2) (v :: vs1 ++ vs2) m) as (new & z & Hs & Hnew & Hz).
        { apply NF_app; assumption. } { exact HG. } { exact Hsub. }
        { intros x y Hx Hy. apply Hrect; [right; exact Hx | exact Hy]. }
        exists new, (del c (lab_of u) + z). split; [constructor; exact Hs|]. split.
        -- intros p Hp. destruct (Hnew p Hp) as [H1 H2]. split; [right; exact H1 | exact H2].
        -- rewrite Elu. lia.
      * (* insert b *)
        destruct (IH (Node a F1 :: F') (G1 ++ G') ltac:(sizes) (u :: us1 ++ us2) (vs1 ++ vs2) m) as (new & z & Hs & Hnew & Hz).
        { exact HF. } { apply NF_app; assumption. } { intros y Hy. apply Hsub. right. exact Hy. }
        { intros x y Hx Hy. apply Hrect; [exact Hx | right; exact Hy]. }
        exists new, z. split; [exact Hs|]. split.
        -- intros p Hp. destruct (Hnew p Hp) as [H1 H2]. split; [exact H1 | right; exact H2].
        -- rewrite ins_sum_cons. rewrite mapped_r_false; [rewrite Elv; lia|].
           intros p Hp. destruct (Hnew p Hp) as [_ H2]. apply in_app_or in H2.
           destruct H2 as [H2|H2]; [destruct (Hav _ H2) | destruct (Hlv _ H2)]; lia.
      * (* map a to b *)
        assert (Hv : In v vs) by (apply Hsub; left; reflexivity).
        assert (Hcuv : compat_all u v m = true) by (apply Hrect; left; reflexivity).
        destruct (IH F1 G1 ltac:(sizes) us1 vs1 ((u, v) :: m)) as (new1 & z1 & Hs1 & Hnew1 & Hz1).
        { exact HF1. } { exact HG1. } { intros y Hy. apply Hsub. right. apply in_or_app. left. exact Hy. }
        { intros x y Hx Hy. unfold compat_all. cbn [forallb fst snd]. apply andb_true_intro. split.
          - apply compat_anc; [apply Hau, Hx | apply Hav, Hy].
          - apply Hrect; right; apply in_or_app; left; assumption. }
        destruct (IH F' G' ltac:(sizes) us2 vs2 (new1 ++ (u, v) :: m)) as (new2 & z2 & Hs2 & Hnew2 & Hz2).
        { exact HF'. } { exact HG'. } { intros y Hy. apply Hsub. right. apply in_or_app. right. exact Hy. }
        { intros x y Hx Hy. unfold compat_all. rewrite forallb_app. cbn [forallb fst snd]. apply andb_true_intro. split.
          - apply forallb_forall. intros p Hp. destruct (Hnew1 p Hp) as [H1 H2].
            apply compat_lft; [apply Hxu; assumption | apply Hxv; assumption].
          - apply andb_true_intro. split.
            + apply compat_lft; [apply Hlu, Hx | apply Hlv, Hy].
            + apply Hrect; right; apply in_or_app; right; assumption. }
        exists (new2 ++ new1 ++ [(u, v)]), (ren c (lab_of u) (lab_of v) + (z1 + z2)). split; [|split].
        -- apply s_map; [exact Hv | exact Hcuv|].
           replace ((new2 ++ new1 ++ [(u, v)]) ++ m) with (new2 ++ new1 ++ (u, v) :: m) by (rewrite <- !app_assoc; reflexivity).
           apply (steps_app c vs us1 us2 _ _ _ z1 z2 Hs1 Hs2).
        -- intros p Hp. apply in_app_or in Hp. destruct Hp as [Hp|Hp]; [|apply in_app_or in Hp; destruct Hp as [Hp|Hp]].
           ++ destruct (Hnew2 p Hp) as [H1 H2]. split; right; apply in_or_app; right; assumption.
           ++ destruct (Hnew1 p Hp) as [H1 H2]. split; right; apply in_or_app; left; assumption.
           ++ cbn in Hp. destruct Hp as [Ep|[]]. subst p. split; left; reflexivity.
        -- rewrite ins_sum_cons, ins_sum_app.
           assert (Mv : mapped_r (new2 ++ new1 ++ [(u, v)]) v = true).
           { rewrite !mapped_r_app. cbn [mapped_r existsb snd]. rewrite N.eqb_refl. rewrite !orb_true_r. reflexivity. }
           rewrite Mv.
           assert (M1 : ins_sum c (new2 ++ new1 ++ [(u, v)]) vs1 = ins_sum c new1 vs1).
           { apply ins_sum_ext. intros y Hy. rewrite !mapped_r_app.
             rewrite (mapped_r_false new2); [|intros p Hp; destruct (Hnew2 p Hp) as [_ H2]; destruct (Hxv _ _ Hy H2); lia].
             rewrite (mapped_r_false [(u, v)]); [|intros p [Ep|[]]; subst p; cbn [snd]; destruct (Hav _ Hy); lia].
             rewrite orb_false_r. reflexivity. }
           assert (M2 : ins_sum c (new2 ++ new1 ++ [(u, v)]) vs2 = ins_sum c new2 vs2).
           { apply ins_sum_ext. intros y Hy. rewrite !mapped_r_app.
             rewrite (mapped_r_false new1); [|intros p Hp; destruct (Hnew1 p Hp) as [_ H2]; destruct (Hxv _ _ H2 Hy); lia].
             rewrite (mapped_r_false [(u, v)]); [|intros p [Ep|[]]; subst p; cbn [snd]; destruct (Hlv _ Hy); lia].
             rewrite !orb_false_r. reflexivity. }
           rewrite M1, M2, Elu, Elv. lia.
Qed.

(* some Tai mapping costs no more than the recurrence *)
Theorem mapping_min_le_delta : forall c F G, mapping_min c F G <= delta c F G.
Proof.
  intros c F G. unfold mapping_min.
  destruct (upper_gen c (pp_forest G 0 0) F G (pp_forest F 0 0) (pp_forest G 0 0) [])
    as (new & z & Hs & _ & Hz).
  - apply pp_forest_NF.
  - apply pp_forest_NF.
  - intros v Hv. exact Hv.
  - intros u v _ _. reflexivity.
  - rewrite app_nil_r in Hs. pose proof (best_le_steps c _ _ _ _ _ Hs) as H. rewrite ins_rest_sum in H. lia.
Qed.
