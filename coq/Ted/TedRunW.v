(* Entry points of the correspondence check (harness/c07.py) for the weighted family Ted/CostW.v.
   Same conventions as Ted/TedRun.v (little-endian base-2^32 limbs, [] = no value). *)
From Coq Require Import ZArith QArith String List Bool.
From PV Require Import Ted.TedSpec Ted.Cost Ted.CostW Ted.ZS Ted.TedMemo Ted.TedBrute Ted.TedRun.
Import ListNotations.
Open Scope Z_scope.

(* [run_ted cm a b] followed by the OPPOSITE direction: [spec d(b,a); model d(b,a) or []; delete-all b; insert-all a].
   With insert weight <> delete weight the two directions differ, so both are decided separately. *)
Definition run_ted_w (cm : cmodel) (a b : tree) : list (list Z) :=
  let c := cm_cost cm in
  run_ted cm a b ++
  [limbs (delta_memo c [b] [a]);
   match ComputeDistance c (Some b) (Some a) with Some z => limbs z | None => [] end;
   limbs (del_all c [b]); limbs (ins_all c [a])].

(* additionally the brute-force minimum over all Tai mappings in both directions (tiny trees only) *)
Definition run_ted_w_brute (cm : cmodel) (a b : tree) : list (list Z) :=
  run_ted_w cm a b ++ [limbs (mapping_min (cm_cost cm) [a] [b]); limbs (mapping_min (cm_cost cm) [b] [a])].

(* cost tables of a member of the family on an alphabet *)
Definition run_costs_w (wi wd wr : Q) (b : wbase) (tbl : list string) :=
  run_costs (weighted_scost_w wi wd wr (wbase_scost b)) tbl.
