(* C07 — the spec [delta] (leftmost-root recurrence) also satisfies the RIGHTMOST-root recurrence,
   is sub-additive under concatenation, and hence satisfies the Zhang–Shasha recurrence
   (the one the forest-distance table of computeForestDistance implements).
   All statements are for arbitrary forests and arbitrary cost models (no hypothesis on costs). *)
From Coq Require Import ZArith List Lia Bool.
From PV Require Import Ted.TedSpec Ted.TedProofs.
Import ListNotations.
Open Scope Z_scope.

(* deleting / inserting the leftmost root is always one of the options *)
Lemma delta_del_le : forall c a F1 F G, delta c (Node a F1 :: F) G <= delta c (F1 ++ F) G + del c a.
Proof.
  intros c a F1 F G. destruct G as [|[b G1] G'].
  - rewrite delta_cons_nil. lia.
  - rewrite delta_cons_cons. unfold min3. lia.
Qed.
Lemma delta_ins_le : forall c b G1 G F, delta c F (Node b G1 :: G) <= delta c F (G1 ++ G) + ins c b.
Proof.
  intros c b G1 G F. destruct F as [|[a F1] F'].
  - rewrite delta_nil_cons. lia.
  - rewrite delta_cons_cons. unfold min3. lia.
Qed.

Lemma del_all_snoc : forall c F0 a F1, del_all c (F0 ++ [Node a F1]) = del_all c (F0 ++ F1) + del c a.
Proof. intros. rewrite !del_all_app, del_all_cons. change (del_all c []) with 0. lia. Qed.
Lemma ins_all_snoc : forall c G0 b G1, ins_all c (G0 ++ [Node b G1]) = ins_all c (G0 ++ G1) + ins c b.
Proof. intros. rewrite !ins_all_app, ins_all_cons. change (ins_all c []) with 0. lia. Qed.

Ltac minle := solve [apply Z.le_refl | eapply Z.le_trans; [apply Z.le_min_l|]; minle | eapply Z.le_trans; [apply Z.le_min_r|]; minle].
Lemma min3_grid : forall a b c d e f g h i : Z,
  min3 (min3 a b c) (min3 d e f) (min3 g h i) = min3 (min3 a d g) (min3 b e h) (min3 c f i).
Proof.
  intros. unfold min3. apply Z.le_antisymm; repeat apply Z.min_glb; minle.
Qed.
Lemma min3_plus : forall a b c d : Z, min3 a b c + d = min3 (a + d) (b + d) (c + d).
Proof. intros. unfold min3. lia. Qed.

(* the rightmost-root recurrence, as a property of a pair of forests *)
Definition right_rec (c : cost) (F G : forest) : Prop :=
  forall F0 a F1 G0 b G1, F = F0 ++ [Node a F1] -> G = G0 ++ [Node b G1] ->
  delta c F G = min3 (delta c (F0 ++ F1) G + del c a) (delta c F (G0 ++ G1) + ins c b)
                     (delta c F0 G0 + delta c F1 G1 + ren c a b).

Lemma right_del_le_of : forall c F0 a F1 G, right_rec c (F0 ++ [Node a F1]) G ->
  delta c (F0 ++ [Node a F1]) G <= delta c (F0 ++ F1) G + del c a.
Proof.
  intros c F0 a F1 G H. induction G as [|[b G1] G0 _] using rev_ind.
  - rewrite !delta_to_empty, del_all_snoc. lia.
  - rewrite (H F0 a F1 G0 b G1 eq_refl eq_refl). unfold min3. lia.
Qed.
Lemma right_ins_le_of : forall c G0 b G1 F, right_rec c F (G0 ++ [Node b G1]) ->
  delta c F (G0 ++ [Node b G1]) <= delta c F (G0 ++ G1) + ins c b.
Proof.
  intros c G0 b G1 F H. induction F as [|[a F1] F0 _] using rev_ind.
  - rewrite !delta_from_empty, ins_all_snoc. lia.
  - rewrite (H F0 a F1 G0 b G1 eq_refl eq_refl). unfold min3. lia.
Qed.

Lemma delta_right_rec : forall c F G, right_rec c F G.
Proof.
  intros c. apply (forest_pair_ind (right_rec c)). intros F G IH F0 a F1 G0 b G1 EF EG. subst F G.
  destruct F0 as [|[a' F1'] F0']; destruct G0 as [|[b' G1'] G0'].
  - cbn [app]. rewrite delta_cons_cons, !app_nil_r, delta_nil_nil. unfold min3. lia.
  - (* F0 = [], G0 nonempty *)
    cbn [app]. rewrite (delta_cons_cons c a F1 [] b' G1' (G0' ++ [Node b G1])). rewrite !app_nil_r.
    assert (E1 : right_rec c F1 ((Node b' G1' :: G0') ++ [Node b G1])) by (apply IH; sizes).
    assert (E2 : right_rec c [Node a F1] ((G1' ++ G0') ++ [Node b G1])) by (apply IH; sizes).
    specialize (E2 [] a F1 (G1' ++ G0') b G1 eq_refl eq_refl).
    rewrite <- !app_assoc in E2. cbn [app] in *. rewrite E2.
    rewrite (delta_cons_cons c a F1 [] b' G1' (G0' ++ G1)), !app_nil_r.
    pose proof (right_ins_le_of c (Node b' G1' :: G0') b G1 F1 E1) as I1. cbn [app] in I1.
    pose proof (delta_ins_le c b' G1' (G0' ++ [Node b G1]) F1) as I2.
    rewrite !delta_from_empty. rewrite ins_all_snoc, !ins_all_cons, !ins_all_app. unfold min3. lia.
  - (* F0 nonempty, G0 = [] *)
    cbn [app]. rewrite (delta_cons_cons c a' F1' (F0' ++ [Node a F1]) b G1 []). rewrite !app_nil_r.
    assert (E1 : right_rec c ((Node a' F1' :: F0') ++ [Node a F1]) G1) by (apply IH; sizes).
    assert (E2 : right_rec c ((F1' ++ F0') ++ [Node a F1]) [Node b G1]) by (apply IH; sizes).
    specialize (E2 (F1' ++ F0') a F1 [] b G1 eq_refl eq_refl).
    rewrite <- !app_assoc in E2. cbn [app] in *. rewrite E2.
    rewrite (delta_cons_cons c a' F1' (F0' ++ F1) b G1 []), !app_nil_r.
    pose proof (right_del_le_of c (Node a' F1' :: F0') a F1 G1 E1) as I1. cbn [app] in I1.
    pose proof (delta_del_le c a' F1' (F0' ++ [Node a F1]) G1) as I2.
    rewrite !delta_to_empty. rewrite del_all_snoc, !del_all_cons, !del_all_app. unfold min3. lia.
  - (* both nonempty *)
    cbn [app]. rewrite (delta_cons_cons c a' F1' (F0' ++ [Node a F1]) b' G1' (G0' ++ [Node b G1])).
    assert (E1 : right_rec c ((F1' ++ F0') ++ [Node a F1]) ((Node b' G1' :: G0') ++ [Node b G1])) by (apply IH; sizes).
    specialize (E1 _ _ _ _ _ _ eq_refl eq_refl).
    assert (E2 : right_rec c ((Node a' F1' :: F0') ++ [Node a F1]) ((G1' ++ G0') ++ [Node b G1])) by (apply IH; sizes).
    specialize (E2 _ _ _ _ _ _ eq_refl eq_refl).
    assert (E3 : right_rec c (F0' ++ [Node a F1]) (G0' ++ [Node b G1])) by (apply IH; sizes).
    specialize (E3 _ _ _ _ _ _ eq_refl eq_refl).
    rewrite <- !app_assoc in E1, E2. cbn [app] in E1, E2. rewrite E1, E2, E3.
    rewrite (delta_cons_cons c a' F1' (F0' ++ F1) b' G1' (G0' ++ [Node b G1])).
    rewrite (delta_cons_cons c a' F1' (F0' ++ [Node a F1]) b' G1' (G0' ++ G1)).
    rewrite (delta_cons_cons c a' F1' F0' b' G1' G0').
    rewrite <- ?app_assoc.
    rewrite !min3_plus.
    replace (delta c F1' G1' + min3 (delta c (F0' ++ F1) (G0' ++ [Node b G1]) + del c a)
               (delta c (F0' ++ [Node a F1]) (G0' ++ G1) + ins c b) (delta c F0' G0' + delta c F1 G1 + ren c a b) + ren c a' b')
      with (min3 (delta c F1' G1' + delta c (F0' ++ F1) (G0' ++ [Node b G1]) + ren c a' b' + del c a)
                 (delta c F1' G1' + delta c (F0' ++ [Node a F1]) (G0' ++ G1) + ren c a' b' + ins c b)
                 (delta c F1' G1' + delta c F0' G0' + ren c a' b' + (delta c F1 G1 + ren c a b)))
      by (unfold min3; lia).
    rewrite min3_grid. f_equal; unfold min3; lia.
Qed.

(* the rightmost-root recurrence *)
Theorem delta_right : forall c F0 a F1 G0 b G1,
  delta c (F0 ++ [Node a F1]) (G0 ++ [Node b G1]) =
  min3 (delta c (F0 ++ F1) (G0 ++ [Node b G1]) + del c a)
       (delta c (F0 ++ [Node a F1]) (G0 ++ G1) + ins c b)
       (delta c F0 G0 + delta c F1 G1 + ren c a b).
Proof. intros. apply delta_right_rec; reflexivity. Qed.

(* sub-additivity under concatenation *)
Lemma delta_app_le : forall c B E A C, delta c (A ++ B) (C ++ E) <= delta c A C + delta c B E.
Proof.
  intros c B E. apply (forest_pair_ind (fun A C => delta c (A ++ B) (C ++ E) <= delta c A C + delta c B E)).
  intros A C IH. destruct A as [|[a F1] A']; destruct C as [|[b G1] C'].
  - cbn [app]. rewrite delta_nil_nil. lia.
  - cbn [app]. rewrite delta_nil_cons.
    pose proof (delta_ins_le c b G1 (C' ++ E) B) as I1.
    assert (I2 : delta c ([] ++ B) ((G1 ++ C') ++ E) <= delta c [] (G1 ++ C') + delta c B E) by (apply IH; sizes).
    rewrite <- app_assoc in I2. cbn [app] in I2. lia.
  - cbn [app]. rewrite delta_cons_nil.
    pose proof (delta_del_le c a F1 (A' ++ B) E) as I1.
    assert (I2 : delta c ((F1 ++ A') ++ B) ([] ++ E) <= delta c (F1 ++ A') [] + delta c B E) by (apply IH; sizes).
    rewrite <- app_assoc in I2. cbn [app] in I2. lia.
  - cbn [app]. rewrite !delta_cons_cons.
    assert (I1 : delta c ((F1 ++ A') ++ B) ((Node b G1 :: C') ++ E) <= delta c (F1 ++ A') (Node b G1 :: C') + delta c B E) by (apply IH; sizes).
    assert (I2 : delta c ((Node a F1 :: A') ++ B) ((G1 ++ C') ++ E) <= delta c (Node a F1 :: A') (G1 ++ C') + delta c B E) by (apply IH; sizes).
    assert (I3 : delta c (A' ++ B) (C' ++ E) <= delta c A' C' + delta c B E) by (apply IH; sizes).
    rewrite <- !app_assoc in I1, I2. cbn [app] in I1, I2. unfold min3. lia.
Qed.

(* two trees: the three options on the roots *)
Lemma delta_tree_tree : forall c a F1 b G1,
  delta c [Node a F1] [Node b G1] =
  min3 (delta c F1 [Node b G1] + del c a) (delta c [Node a F1] G1 + ins c b) (delta c F1 G1 + ren c a b).
Proof. intros. rewrite delta_cons_cons, !app_nil_r, delta_nil_nil. unfold min3. lia. Qed.

(* the Zhang–Shasha recurrence (Zhang & Shasha 1989, Lemma 4 (3)): the third option uses the TREE distance *)
Theorem delta_zs_rec : forall c F0 a F1 G0 b G1,
  delta c (F0 ++ [Node a F1]) (G0 ++ [Node b G1]) =
  min3 (delta c (F0 ++ F1) (G0 ++ [Node b G1]) + del c a)
       (delta c (F0 ++ [Node a F1]) (G0 ++ G1) + ins c b)
       (delta c F0 G0 + delta c [Node a F1] [Node b G1]).
Proof.
  intros. rewrite delta_right, delta_tree_tree.
  pose proof (delta_app_le c F1 [Node b G1] F0 G0) as I1.
  pose proof (delta_app_le c [Node a F1] G1 F0 G0) as I2.
  unfold min3. lia.
Qed.
