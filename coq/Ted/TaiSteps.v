(* C07 — the brute-force minimum [mapping_min] of Ted/TedBrute.v, flattened:
   [best] is the minimum, over all runs ([steps]) that delete or compatibly map each left node in turn,
   of (cost of the left nodes + insertion of the right nodes left unmapped).
   Also: an order-theoretic description ([NF]) of the (pre, post, label) node lists of a forest that is
   stable under taking sub-forests, and the proof that [pp_forest] produces such lists. *)
From Coq Require Import ZArith NArith List Lia Bool ZifyBool ZifyN ZifyNat.
From PV Require Import Ted.TedSpec Ted.TedProofs Ted.TedBrute.
Import ListNotations.
Open Scope Z_scope.

(* --- minl ------------------------------------------------------------------------------------- *)
Lemma minl_le_d : forall l d, minl d l <= d.
Proof. induction l as [|x l IH]; intros d; unfold minl in *; cbn [fold_left]; [lia|]. specialize (IH (Z.min d x)). lia. Qed.
Lemma minl_le_in : forall l d x, In x l -> minl d l <= x.
Proof.
  induction l as [|y l IH]; intros d x Hin; [destruct Hin|]. unfold minl in *. cbn [fold_left]. destruct Hin as [E|Hin].
  - subst. pose proof (minl_le_d l (Z.min d x)) as H. unfold minl in H. lia.
  - apply IH. exact Hin.
Qed.
Lemma minl_in : forall l d, minl d l = d \/ In (minl d l) l.
Proof.
  induction l as [|y l IH]; intros d; [left; reflexivity|]. unfold minl in *. cbn [fold_left].
  destruct (IH (Z.min d y)) as [E|Hin]; [|right; right; exact Hin].
  rewrite E. destruct (Z.min_spec d y) as [[_ E']|[_ E']]; rewrite E'; [left; reflexivity | right; left; reflexivity].
Qed.

(* --- runs of [best] ----------------------------------------------------------------------------- *)
Definition mapping := list (pnode * pnode).
Definition compat_all (u v : pnode) (m : mapping) : bool := forallb (fun p => compatible u v (fst p) (snd p)) m.
Definition mapped_r (m : mapping) (v : pnode) : bool := existsb (fun p => (pre_of (snd p) =? pre_of v)%N) m.
Definition ins_rest (c : cost) (vs : list pnode) (m : mapping) : Z :=
  fold_left (fun acc v => if mapped_r m v then acc else acc + ins c (lab_of v)) vs 0.

Inductive steps (c : cost) (vs : list pnode) : list pnode -> mapping -> mapping -> Z -> Prop :=
| s_nil : forall m, steps c vs [] m m 0
| s_del : forall u us m m' z, steps c vs us m m' z -> steps c vs (u :: us) m m' (del c (lab_of u) + z)
| s_map : forall u us m m' z v, In v vs -> compat_all u v m = true -> steps c vs us ((u, v) :: m) m' z ->
    steps c vs (u :: us) m m' (ren c (lab_of u) (lab_of v) + z).

Lemma best_unfold : forall c vs u us m,
  best c vs (u :: us) m =
  minl (del c (lab_of u) + best c vs us m)
       (map (fun v => ren c (lab_of u) (lab_of v) + best c vs us ((u, v) :: m)) (filter (fun v => compat_all u v m) vs)).
Proof. reflexivity. Qed.
Lemma best_nil : forall c vs m, best c vs [] m = ins_rest c vs m.
Proof. reflexivity. Qed.

Lemma best_le_steps : forall c vs us m m' z, steps c vs us m m' z -> best c vs us m <= z + ins_rest c vs m'.
Proof.
  intros c vs us m m' z H. induction H as [m | u us m m' z _ IH | u us m m' z v Hv Hc _ IH].
  - rewrite best_nil. lia.
  - rewrite best_unfold. pose proof (minl_le_d (map (fun v => ren c (lab_of u) (lab_of v) + best c vs us ((u, v) :: m)) (filter (fun v => compat_all u v m) vs))
                                       (del c (lab_of u) + best c vs us m)). lia.
  - rewrite best_unfold.
    assert (Hin : In (ren c (lab_of u) (lab_of v) + best c vs us ((u, v) :: m))
                     (map (fun v => ren c (lab_of u) (lab_of v) + best c vs us ((u, v) :: m)) (filter (fun v => compat_all u v m) vs))).
    { apply in_map_iff. exists v. split; [reflexivity|]. apply filter_In. split; assumption. }
    pose proof (minl_le_in _ (del c (lab_of u) + best c vs us m) _ Hin). lia.
Qed.

Lemma best_steps : forall c vs us m, exists m' z, steps c vs us m m' z /\ best c vs us m = z + ins_rest c vs m'.
Proof.
  intros c vs. induction us as [|u us IH]; intros m.
  - exists m, 0. split; [constructor | rewrite best_nil; lia].
  - rewrite best_unfold.
    destruct (minl_in (map (fun v => ren c (lab_of u) (lab_of v) + best c vs us ((u, v) :: m)) (filter (fun v => compat_all u v m) vs))
                      (del c (lab_of u) + best c vs us m)) as [E|Hin].
    + destruct (IH m) as (m' & z & Hs & Ez). exists m', (del c (lab_of u) + z). split; [constructor; exact Hs | rewrite E; lia].
    + apply in_map_iff in Hin. destruct Hin as (v & Ev & Hv). apply filter_In in Hv. destruct Hv as [Hv Hc].
      destruct (IH ((u, v) :: m)) as (m' & z & Hs & Ez). exists m', (ren c (lab_of u) (lab_of v) + z).
      split; [apply s_map; assumption | rewrite <- Ev; lia].
Qed.

Lemma steps_app : forall c vs us1 us2 m m1 m2 z1 z2, steps c vs us1 m m1 z1 -> steps c vs us2 m1 m2 z2 ->
  steps c vs (us1 ++ us2) m m2 (z1 + z2).
Proof.
  intros c vs us1 us2 m m1 m2 z1 z2 H1 H2. induction H1 as [m | u us m m' z _ IH | u us m m' z v Hv Hc _ IH]; cbn [app].
  - exact H2.
  - replace (del c (lab_of u) + z + z2) with (del c (lab_of u) + (z + z2)) by lia. constructor. apply IH, H2.
  - replace (ren c (lab_of u) (lab_of v) + z + z2) with (ren c (lab_of u) (lab_of v) + (z + z2)) by lia.
    apply s_map; [assumption | assumption | apply IH, H2].
Qed.

(* --- node lists of forests, order-theoretically -------------------------------------------------- *)
Definition anc (u x : pnode) : Prop := (pre_of u < pre_of x)%N /\ (post_of x < post_of u)%N.
Definition lft (x y : pnode) : Prop := (pre_of x < pre_of y)%N /\ (post_of x < post_of y)%N.

Inductive NF : forest -> list pnode -> Prop :=
| NF_nil : NF [] []
| NF_cons : forall a F1 F' u us1 us2, lab_of u = a -> NF F1 us1 -> NF F' us2 ->
    (forall x, In x us1 -> anc u x) -> (forall y, In y us2 -> lft u y) ->
    (forall x y, In x us1 -> In y us2 -> lft x y) -> NF (Node a F1 :: F') (u :: us1 ++ us2).

Lemma NF_app : forall A usA, NF A usA -> forall B usB, NF B usB -> (forall x y, In x usA -> In y usB -> lft x y) ->
  NF (A ++ B) (usA ++ usB).
Proof.
  intros A usA HA. induction HA as [|a F1 F' u us1 us2 El H1 _ H2 IH2 Ha Hl Hx]; intros B usB HB Hlr.
  - exact HB.
  - cbn [app]. rewrite <- app_assoc. apply NF_cons; [exact El | exact H1 | | exact Ha | |].
    + apply IH2; [exact HB|]. intros x y Hx' Hy. apply Hlr; [right; apply in_or_app; right; exact Hx' | exact Hy].
    + intros y Hy. apply in_app_or in Hy. destruct Hy as [Hy|Hy]; [apply Hl, Hy | apply Hlr; [left; reflexivity | exact Hy]].
    + intros x y Hx' Hy. apply in_app_or in Hy. destruct Hy as [Hy|Hy]; [apply Hx; assumption|].
      apply Hlr; [right; apply in_or_app; left; exact Hx' | exact Hy].
Qed.

Definition sizeN (t : tree) : N := N.of_nat (tsize t).
Definition fsizeN' (f : forest) : N := N.of_nat (fsize f).
Definition in_box (p q s : N) (x : pnode) : Prop :=
  (p <= pre_of x)%N /\ (pre_of x < p + s)%N /\ (q <= post_of x)%N /\ (post_of x < q + s)%N.

Lemma pp_tree_spec :
  (forall t p q, exists us1, pp_tree t p q = ((p, (q + fsizeN' (children_of t))%N, label_of t) :: us1, ((p + sizeN t)%N, (q + sizeN t)%N)) /\
     NF (children_of t) us1 /\ forall x, In x us1 -> in_box (p + 1) q (fsizeN' (children_of t)) x) /\
  (forall cs p q, exists us,
     (fix go (cs : list tree) (pre post : N) : list pnode * (N * N) :=
         match cs with
         | [] => ([], (pre, post))
         | c :: r => let '(n1, (p1, q1)) := pp_tree c pre post in
                     let '(n2, pq) := go r p1 q1 in (n1 ++ n2, pq)
         end) cs p q = (us, ((p + fsizeN' cs)%N, (q + fsizeN' cs)%N)) /\
     NF cs us /\ forall x, In x us -> in_box p q (fsizeN' cs) x).
Proof.
  apply tree_forest_ind.
  - intros l cs IH p q. cbn [pp_tree children_of label_of]. destruct (IH (p + 1)%N q) as (us & E & HNF & Hbox).
    rewrite E. exists us. split; [|split; assumption]. unfold sizeN, fsizeN'. rewrite tsize_node. do 2 f_equal; lia.
  - intros p q. exists []. split; [|split; [constructor | intros x []]]. unfold fsizeN'. cbn [fsize map list_sum]. change (fsize []) with 0%nat. do 2 f_equal; lia.
  - intros [l cs] r IHt IHr p q. destruct (IHt p q) as (us1 & Et & HNF1 & Hbox1). rewrite Et.
    destruct (IHr (p + sizeN (Node l cs))%N (q + sizeN (Node l cs))%N) as (us2 & Er & HNF2 & Hbox2). rewrite Er.
    cbn [children_of label_of] in *.
    assert (Es : sizeN (Node l cs) = (1 + fsizeN' cs)%N) by (unfold sizeN, fsizeN'; rewrite tsize_node; lia).
    assert (Ef : fsizeN' (Node l cs :: r) = (sizeN (Node l cs) + fsizeN' r)%N) by (unfold sizeN, fsizeN'; rewrite fsize_cons; lia).
    eexists. split; [|split].
    + rewrite Ef. do 2 f_equal; lia.
    + cbn [app]. apply NF_cons; [reflexivity | exact HNF1 | exact HNF2 | | |].
      * intros x Hx. specialize (Hbox1 x Hx). unfold in_box, anc in *. cbn [pre_of post_of fst snd]. lia.
      * intros y Hy. specialize (Hbox2 y Hy). unfold in_box, lft in *. cbn [pre_of post_of fst snd]. lia.
      * intros x y Hx Hy. specialize (Hbox1 x Hx). specialize (Hbox2 y Hy). unfold in_box, lft in *. lia.
    + intros x Hx. cbn [app] in Hx. rewrite Ef. destruct Hx as [E|Hx].
      * subst x. unfold in_box. cbn [pre_of post_of fst snd]. lia.
      * apply in_app_or in Hx. destruct Hx as [Hx|Hx]; [specialize (Hbox1 x Hx)|specialize (Hbox2 x Hx)]; unfold in_box in *; lia.
Qed.

Lemma pp_forest_NF : forall f p q, NF f (pp_forest f p q) /\ forall x, In x (pp_forest f p q) -> in_box p q (fsizeN' f) x.
Proof.
  induction f as [|[l cs] r IH]; intros p q.
  - split; [constructor | intros x []].
  - cbn [pp_forest]. destruct (proj1 pp_tree_spec (Node l cs) p q) as (us1 & Et & HNF1 & Hbox1). rewrite Et.
    destruct (IH (p + sizeN (Node l cs))%N (q + sizeN (Node l cs))%N) as [HNF2 Hbox2].
    cbn [children_of label_of] in *.
    assert (Es : sizeN (Node l cs) = (1 + fsizeN' cs)%N) by (unfold sizeN, fsizeN'; rewrite tsize_node; lia).
    assert (Ef : fsizeN' (Node l cs :: r) = (sizeN (Node l cs) + fsizeN' r)%N) by (unfold sizeN, fsizeN'; rewrite fsize_cons; lia).
    split.
    + cbn [app]. apply NF_cons; [reflexivity | exact HNF1 | exact HNF2 | | |].
      * intros x Hx. specialize (Hbox1 x Hx). unfold in_box, anc in *. cbn [pre_of post_of fst snd]. lia.
      * intros y Hy. specialize (Hbox2 y Hy). unfold in_box, lft in *. cbn [pre_of post_of fst snd]. lia.
      * intros x y Hx Hy. specialize (Hbox1 x Hx). specialize (Hbox2 y Hy). unfold in_box, lft in *. lia.
    + intros x Hx. cbn [app] in Hx. rewrite Ef. destruct Hx as [E|Hx].
      * subst x. unfold in_box. cbn [pre_of post_of fst snd]. lia.
      * apply in_app_or in Hx. destruct Hx as [Hx|Hx]; [specialize (Hbox1 x Hx)|specialize (Hbox2 x Hx)]; unfold in_box in *; lia.
Qed.
