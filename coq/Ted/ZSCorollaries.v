(* C07 — consequences of [zs_exact] for the model entry points, unbounded:
   ComputeDistance on every input of the exact path (nil trees included) is the spec [delta];
   the "consequently" clauses (identity, symmetry, bounds) and the similarity hold for the MODEL. *)
From Coq Require Import ZArith QArith List Bool Lia.
From PV Require Import Gen.TedConst Ted.TedSpec Ted.TedProofs Ted.ZS Ted.TedSim Ted.ZSExact.
Import ListNotations.
Open Scope Z_scope.

Definition oforest (o : option tree) : forest := match o with Some t => [t] | None => [] end.
(* both trees present => both within the exact-path limit (nil cases have no limit) *)
Definition exact_path (o1 o2 : option tree) : Prop :=
  match o1, o2 with Some t1, Some t2 => (tsize t1 <= 500)%nat /\ (tsize t2 <= 500)%nat | _, _ => True end.

Theorem ComputeDistance_total : forall c o1 o2, exact_path o1 o2 ->
  ComputeDistance c o1 o2 = Some (delta c (oforest o1) (oforest o2)).
Proof.
  intros c [t1|] [t2|] H; cbn [oforest].
  - destruct H as [H1 H2]. apply ComputeDistance_is_ted; assumption.
  - apply ComputeDistance_nil_r.
  - apply ComputeDistance_nil_l.
  - apply ComputeDistance_nil_nil.
Qed.

Theorem zs_clauses : forall c a b, cost_nonneg c -> ren_refl c -> cost_sym c ->
  (tsize a <= 500)%nat -> (tsize b <= 500)%nat ->
  exists d, ComputeDistance c (Some a) (Some b) = Some d /\ ComputeDistance c (Some b) (Some a) = Some d /\
            ComputeDistance c (Some a) (Some a) = Some 0 /\ 0 <= d <= del_tree c a + ins_tree c b.
Proof.
  intros c a b Hn Hr Hs Ha Hb. exists (ted c a b).
  rewrite !ComputeDistance_is_ted by assumption. unfold ted. repeat split.
  - f_equal. apply delta_sym; assumption.
  - f_equal. apply delta_self_zero; assumption.
  - apply delta_nonneg; assumption.
  - pose proof (delta_upper c [a] [b]) as H. unfold del_all, ins_all in H. cbn [map zsum fold_right] in H. lia.
Qed.

Theorem ComputeSimilarity_is_spec : forall scale c t1 t2, (tsize t1 <= 500)%nat -> (tsize t2 <= 500)%nat ->
  ComputeSimilarity scale c (Some t1) (Some t2) = Some (sim_spec scale c t1 t2).
Proof.
  intros scale c t1 t2 H1 H2. cbn [ComputeSimilarity]. rewrite ComputeDistance_is_ted by assumption. reflexivity.
Qed.

Theorem ComputeSimilarity_self : forall scale c t, cost_nonneg c -> ren_refl c -> (tsize t <= 500)%nat ->
  exists s, ComputeSimilarity scale c (Some t) (Some t) = Some s /\ (s == 1)%Q.
Proof.
  intros scale c t Hn Hr Ht. exists (sim_spec scale c t t). split; [apply ComputeSimilarity_is_spec; assumption|].
  apply sim_spec_self_one; assumption.
Qed.
