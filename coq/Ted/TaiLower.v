(* C07 — no Tai mapping is cheaper than the recurrence: [delta c F G <= mapping_min c F G] for all forests,
   hence [delta_is_min : delta c F G = mapping_min c F G].  No hypothesis on the cost model.
   Part 1: for a fixed order-preserving relation M, by induction along the recurrence ([lower_gen]).
   Part 2: every run of the brute-force search yields such an M, and its cost is the cost of M ([steps_inv]). *)
From Coq Require Import ZArith NArith List Lia Bool ZifyBool ZifyN ZifyNat.
From PV Require Import Ted.TedSpec Ted.TedProofs Ted.TedBrute Ted.TaiSteps Ted.TaiUpper.
Import ListNotations.
Open Scope Z_scope.

Definition lookupL (M : mapping) (u : pnode) : option pnode :=
  option_map snd (find (fun p => (pre_of (fst p) =? pre_of u)%N) M).
Definition costL (c : cost) (M : mapping) (us : list pnode) : Z :=
  zsum (map (fun u => match lookupL M u with Some v => ren c (lab_of u) (lab_of v) | None => del c (lab_of u) end) us).

Lemma costL_app : forall c M a b, costL c M (a ++ b) = costL c M a + costL c M b.
Proof. intros. unfold costL. rewrite map_app, zsum_app. reflexivity. Qed.
Lemma costL_cons : forall c M u r, costL c M (u :: r) =
  match lookupL M u with Some v => ren c (lab_of u) (lab_of v) | None => del c (lab_of u) end + costL c M r.
Proof. reflexivity. Qed.

Definition ord_pres (p p' : pnode * pnode) : Prop :=
  ((pre_of (fst p) < pre_of (fst p'))%N <-> (pre_of (snd p) < pre_of (snd p'))%N) /\
  ((post_of (fst p) < post_of (fst p'))%N <-> (post_of (snd p) < post_of (snd p'))%N).

(* ---------- part 1 ------------------------------------------------------------------------------------ *)
Section Lower.
Variable c : cost.
Variable M : mapping.
Hypothesis HO : forall p p', In p M -> In p' M -> ord_pres p p'.

Definition good (us vs : list pnode) : Prop :=
  (forall u, In u us -> forall v, lookupL M u = Some v <-> In (u, v) M) /\
  (forall v, In v vs -> (mapped_r M v = true <-> exists x, In (x, v) M)) /\
  (forall x y, In (x, y) M -> (In x us <-> In y vs)).

Lemma costL_unmapped : forall us, (forall u, In u us -> lookupL M u = None) -> costL c M us = lab_sum (del c) us.
Proof.
  intros us H. unfold costL, lab_sum. f_equal. apply map_ext_in. intros u Hu. rewrite (H u Hu). reflexivity.
Qed.
Lemma ins_sum_unmapped : forall vs, (forall v, In v vs -> mapped_r M v = false) -> ins_sum c M vs = lab_sum (ins c) vs.
Proof.
  intros vs H. unfold ins_sum, lab_sum. f_equal. apply map_ext_in. intros v Hv. rewrite (H v Hv). reflexivity.
Qed.

Lemma lower_gen : forall F G us vs, NF F us -> NF G vs -> good us vs -> delta c F G <= costL c M us + ins_sum c M vs.
Proof.
  apply (forest_pair_ind (fun F G => forall us vs, NF F us -> NF G vs -> good us vs -> delta c F G <= costL c M us + ins_sum c M vs)).
  intros F G IH us vs HF HG (HL & HR & HC).
  destruct F as [|[a F1] F'].
  - inversion HF; subst. rewrite delta_from_empty, <- (NF_ins_sum c G vs HG).
    rewrite ins_sum_unmapped; [cbn; lia|]. intros v Hv. destruct (mapped_r M v) eqn:E; [|reflexivity].
    apply (HR v Hv) in E. destruct E as (x & Hx). apply (HC x v Hx) in Hv. destruct Hv.
  - destruct G as [|[b G1] G'].
    + inversion HG; subst. rewrite delta_to_empty, <- (NF_del_sum c _ us HF).
      rewrite costL_unmapped; [cbn; lia|]. intros u Hu. destruct (lookupL M u) as [v|] eqn:E; [|reflexivity].
      apply (HL u Hu) in E. apply (HC u v E) in Hu. destruct Hu.
    + inversion HF as [|a0 F10 F'0 u us1 us2 Elu HF1 HF' Hau Hlu Hxu]; subst a0 F10 F'0 us.
      inversion HG as [|b0 G10 G'0 v vs1 vs2 Elv HG1 HG' Hav Hlv Hxv]; subst b0 G10 G'0 vs.
      assert (Hu_first : forall x, In x (us1 ++ us2) -> (pre_of u < pre_of x)%N).
      { intros x Hx. apply in_app_or in Hx. destruct Hx as [Hx|Hx]; [apply (Hau x Hx) | apply (Hlu x Hx)]. }
      assert (Hv_first : forall y, In y (vs1 ++ vs2) -> (pre_of v < pre_of y)%N).
      { intros y Hy. apply in_app_or in Hy. destruct Hy as [Hy|Hy]; [apply (Hav y Hy) | apply (Hlv y Hy)]. }
      rewrite delta_cons_cons. rewrite costL_cons, ins_sum_cons.
      destruct (lookupL M u) as [v'|] eqn:EL.
      * destruct (mapped_r M v) eqn:ER.
        -- (* both roots mapped: to each other *)
           assert (Huv' : In (u, v') M) by (apply (HL u (or_introl eq_refl)); exact EL).
           destruct (proj1 (HR v (or_introl eq_refl)) ER) as (x & Hxv').
           assert (Hx : In x (u :: us1 ++ us2)) by (apply (HC x v Hxv'); left; reflexivity).
           assert (Hv' : In v' (v :: vs1 ++ vs2)) by (apply (HC u v' Huv'); left; reflexivity).
           assert (Exu : x = u).
           { destruct Hx as [E|Hx]; [symmetry; exact E|exfalso]. pose proof (Hu_first x Hx) as P1.
             destruct (HO _ _ Huv' Hxv') as [O1 _]. cbn [fst snd] in O1. apply O1 in P1.
             destruct Hv' as [E|Hv']; [subst; lia|]. pose proof (Hv_first v' Hv'). lia. }
           subst x. assert (Ev : v' = v).
           { apply (HL u (or_introl eq_refl)) in Hxv'. congruence. }
           subst v'. clear Hv' Hx Huv'. rename Hxv' into Huv.
           assert (G1ok : good us1 vs1).
           { split; [|split].
             - intros x Hx. apply HL. right. apply in_or_app. left. exact Hx.
             - intros y Hy. apply HR. right. apply in_or_app. left. exact Hy.
             - intros x y Hxy. destruct (HO _ _ Huv Hxy) as [O1 O2]. destruct (HO _ _ Hxy Huv) as [O3 O4]. cbn [fst snd] in *.
               split.
               + intros Hx. destruct (Hau x Hx) as [A1 A2].
                 assert (Hy : In y (v :: vs1 ++ vs2)) by (apply (HC x y Hxy); right; apply in_or_app; left; exact Hx).
                 apply O4 in A2. destruct Hy as [E|Hy]; [subst; lia|]. apply in_app_or in Hy. destruct Hy as [Hy|Hy]; [exact Hy|].
                 destruct (Hlv y Hy). lia.
               + intros Hy. destruct (Hav y Hy) as [A1 A2].
                 assert (Hx : In x (u :: us1 ++ us2)) by (apply (HC x y Hxy); right; apply in_or_app; left; exact Hy).
                 destruct Hx as [E|Hx]; [subst; lia|]. apply in_app_or in Hx. destruct Hx as [Hx|Hx]; [exact Hx|].
                 destruct (Hlu x Hx). lia. }
           assert (G2ok : good us2 vs2).
           { split; [|split].
             - intros x Hx. apply HL. right. apply in_or_app. right. exact Hx.
             - intros y Hy. apply HR. right. apply in_or_app. right. exact Hy.
             - intros x y Hxy. destruct (HO _ _ Huv Hxy) as [O1 O2]. destruct (HO _ _ Hxy Huv) as [O3 O4]. cbn [fst snd] in *.
               split.
               + intros Hx. destruct (Hlu x Hx) as [A1 A2].
                 assert (Hy : In y (v :: vs1 ++ vs2)) by (apply (HC x y Hxy); right; apply in_or_app; right; exact Hx).
                 apply O2 in A2. destruct Hy as [E|Hy]; [subst; lia|]. apply in_app_or in Hy. destruct Hy as [Hy|Hy]; [|exact Hy].
                 destruct (Hav y Hy). lia.
               + intros Hy. destruct (Hlv y Hy) as [A1 A2].
                 assert (Hx : In x (u :: us1 ++ us2)) by (apply (HC x y Hxy); right; apply in_or_app; right; exact Hy).
                 destruct Hx as [E|Hx]; [subst; lia|]. apply in_app_or in Hx. destruct Hx as [Hx|Hx]; [|exact Hx].
                 destruct (Hau x Hx). lia. }
           pose proof (IH F1 G1 ltac:(sizes) us1 vs1 HF1 HG1 G1ok) as I1.
           pose proof (IH F' G' ltac:(sizes) us2 vs2 HF' HG' G2ok) as I2.
           rewrite costL_app, ins_sum_app, Elu, Elv. unfold min3. lia.
        -- (* b is not hit: it is inserted *)
           assert (Gok : good (u :: us1 ++ us2) (vs1 ++ vs2)).
           { split; [exact HL|]. split.
             - intros y Hy. apply HR. right. exact Hy.
             - intros x y Hxy. split.
               + intros Hx. apply (HC x y Hxy) in Hx. destruct Hx as [E|Hx]; [|exact Hx]. subst y.
                 assert (mapped_r M v = true) by (apply (HR v (or_introl eq_refl)); exists x; exact Hxy). congruence.
               + intros Hy. apply (HC x y Hxy). right. exact Hy. }
           pose proof (IH (Node a F1 :: F') (G1 ++ G') ltac:(sizes) (u :: us1 ++ us2) (vs1 ++ vs2) HF (NF_app _ _ HG1 _ _ HG' Hxv) Gok) as I1.
           rewrite costL_cons, EL in I1. rewrite Elv. unfold min3. lia.
      * (* a is not mapped: it is deleted *)
        assert (Gok : good (us1 ++ us2) (v :: vs1 ++ vs2)).
        { split; [|split; [exact HR|]].
          - intros x Hx. apply HL. right. exact Hx.
          - intros x y Hxy. split.
            + intros Hx. apply (HC x y Hxy). right. exact Hx.
            + intros Hy. apply (HC x y Hxy) in Hy. destruct Hy as [E|Hx]; [|exact Hx]. subst x.
              apply (HL u (or_introl eq_refl)) in Hxy. congruence. }
        pose proof (IH (F1 ++ F') (Node b G1 :: G') ltac:(sizes) (us1 ++ us2) (v :: vs1 ++ vs2) (NF_app _ _ HF1 _ _ HF' Hxu) HG Gok) as I1.
        rewrite ins_sum_cons in I1. rewrite Elu. unfold min3. lia.
Qed.
End Lower.

(* ---------- part 2 ------------------------------------------------------------------------------------ *)
Fixpoint Inc (us : list pnode) : Prop :=
  match us with [] => True | u :: r => (forall x, In x r -> (pre_of u < pre_of x)%N) /\ Inc r end.
Fixpoint Compat' (M : mapping) : Prop :=
  match M with
  | [] => True
  | p :: r => compat_all (fst p) (snd p) r = true /\ (forall p', In p' r -> pre_of (fst p') <> pre_of (fst p)) /\ Compat' r
  end.

Lemma Inc_app : forall a b, Inc a -> Inc b -> (forall x y, In x a -> In y b -> (pre_of x < pre_of y)%N) -> Inc (a ++ b).
Proof.
  induction a as [|u a IH]; intros b Ha Hb Hab; [exact Hb|]. cbn [app Inc] in *. destruct Ha as [Ha1 Ha2]. split.
  - intros x Hx. apply in_app_or in Hx. destruct Hx as [Hx|Hx]; [apply Ha1, Hx | apply Hab; [left; reflexivity | exact Hx]].
  - apply IH; [exact Ha2 | exact Hb|]. intros x y Hx Hy. apply Hab; [right; exact Hx | exact Hy].
Qed.
Lemma NF_Inc : forall F us, NF F us -> Inc us.
Proof.
  intros F us H. induction H as [|a F1 F' u us1 us2 El _ IH1 _ IH2 Ha Hl Hx]; [exact I|]. cbn [Inc]. split.
  - intros x Hx'. apply in_app_or in Hx'. destruct Hx' as [Hx'|Hx']; [apply (Ha x Hx') | apply (Hl x Hx')].
  - apply Inc_app; [exact IH1 | exact IH2|]. intros x y Hx' Hy. apply (Hx x y Hx' Hy).
Qed.

(* in the node list of a forest, pre and post numbers identify the node *)
Lemma NF_keys : forall F us, NF F us -> forall x y, In x us -> In y us ->
  ((pre_of x = pre_of y -> x = y) /\ (post_of x = post_of y -> x = y)).
Proof.
  intros F us H. induction H as [|a F1 F' u us1 us2 El _ IH1 _ IH2 Ha Hl Hx]; intros x y Hx' Hy; [destruct Hx'|].
  destruct Hx' as [Ex|Hx']; destruct Hy as [Ey|Hy].
  - subst. split; reflexivity.
  - subst x. apply in_app_or in Hy. destruct Hy as [Hy|Hy]; [destruct (Ha y Hy) | destruct (Hl y Hy)]; split; intros; lia.
  - subst y. apply in_app_or in Hx'. destruct Hx' as [Hx'|Hx']; [destruct (Ha x Hx') | destruct (Hl x Hx')]; split; intros; lia.
  - apply in_app_or in Hx'. apply in_app_or in Hy. destruct Hx' as [Hx'|Hx']; destruct Hy as [Hy|Hy].
    + apply IH1; assumption.
    + destruct (Hx x y Hx' Hy). split; intros; lia.
    + destruct (Hx y x Hy Hx'). split; intros; lia.
    + apply IH2; assumption.
Qed.

Lemma lookupL_skip : forall A B u, (forall p, In p A -> pre_of (fst p) <> pre_of u) -> lookupL (A ++ B) u = lookupL B u.
Proof.
  induction A as [|p A IH]; intros B u H; [reflexivity|]. unfold lookupL in *. cbn [app find].
  destruct (N.eqb_spec (pre_of (fst p)) (pre_of u)) as [E|_]; [exfalso; apply (H p (or_introl eq_refl) E)|].
  apply IH. intros p' Hp'. apply H. right. exact Hp'.
Qed.
Lemma lookupL_none : forall A u, (forall p, In p A -> pre_of (fst p) <> pre_of u) -> lookupL A u = None.
Proof. intros A u H. rewrite <- (app_nil_r A). rewrite lookupL_skip by exact H. reflexivity. Qed.
Lemma lookupL_In : forall A u v, lookupL A u = Some v -> exists p, In p A /\ pre_of (fst p) = pre_of u /\ snd p = v.
Proof.
  intros A u v H. unfold lookupL in H. destruct (find _ A) as [p|] eqn:E; [|discriminate]. cbn in H. injection H as H.
  apply find_some in E. destruct E as [Hp Ek]. apply N.eqb_eq in Ek. exists p. tauto.
Qed.

Lemma steps_inv : forall c vs us m m' z, steps c vs us m m' z ->
  Inc us -> (forall p u, In p m -> In u us -> pre_of (fst p) <> pre_of u) -> Compat' m ->
  Compat' m' /\ z = costL c m' us /\ exists new, m' = new ++ m /\ forall p, In p new -> In (fst p) us /\ In (snd p) vs.
Proof.
  intros c vs us m m' z H. induction H as [m | u us m m' z _ IH | u us m m' z v Hv Hc _ IH]; intros Hinc Hdis HC.
  - split; [exact HC|]. split; [reflexivity|]. exists []. split; [reflexivity | intros p []].
  - cbn [Inc] in Hinc. destruct Hinc as [Hu Hinc].
    destruct (IH Hinc) as (HC' & Ez & new & Em & Hnew); [intros p x Hp Hx; apply Hdis; [exact Hp | right; exact Hx] | exact HC|].
    split; [exact HC'|]. split.
    + rewrite costL_cons. rewrite lookupL_none; [rewrite Ez; reflexivity|]. subst m'. intros p Hp. apply in_app_or in Hp.
      destruct Hp as [Hp|Hp]; [destruct (Hnew p Hp) as [H1 _]; specialize (Hu _ H1); lia | apply Hdis; [exact Hp | left; reflexivity]].
    + exists new. split; [exact Em|]. intros p Hp. destruct (Hnew p Hp) as [H1 H2]. split; [right; exact H1 | exact H2].
  - cbn [Inc] in Hinc. destruct Hinc as [Hu Hinc].
    destruct (IH Hinc) as (HC' & Ez & new & Em & Hnew).
    { intros p x Hp Hx. destruct Hp as [Ep|Hp]; [subst p; cbn [fst]; specialize (Hu x Hx); lia | apply Hdis; [exact Hp | right; exact Hx]]. }
    { cbn [Compat' fst snd]. split; [exact Hc|]. split; [|exact HC]. intros p' Hp'. apply Hdis; [exact Hp' | left; reflexivity]. }
    split; [exact HC'|]. split.
    + rewrite costL_cons. subst m'. rewrite lookupL_skip.
      * unfold lookupL at 1. cbn [find fst]. rewrite N.eqb_refl. cbn [option_map snd]. rewrite Ez. reflexivity.
      * intros p Hp. destruct (Hnew p Hp) as [H1 _]. specialize (Hu _ H1). lia.
    + exists (new ++ [(u, v)]). split; [rewrite <- app_assoc; exact Em|]. intros p Hp. apply in_app_or in Hp. destruct Hp as [Hp|Hp].
      * destruct (Hnew p Hp) as [H1 H2]. split; [right; exact H1 | exact H2].
      * cbn in Hp. destruct Hp as [Ep|[]]. subst p. split; [left; reflexivity | exact Hv].
Qed.

Lemma Compat'_func : forall M, Compat' M -> forall p p', In p M -> In p' M -> pre_of (fst p) = pre_of (fst p') -> p = p'.
Proof.
  induction M as [|q M IH]; intros HC p p' Hp Hp' E; [destruct Hp|]. cbn [Compat'] in HC. destruct HC as (_ & Hq & HC).
  destruct Hp as [Ep|Hp]; destruct Hp' as [Ep'|Hp'].
  - congruence.
  - subst q. exfalso. apply (Hq p' Hp'). symmetry. exact E.
  - subst q. exfalso. apply (Hq p Hp). exact E.
  - apply IH; assumption.
Qed.

Lemma compatible_spec : forall u v u' v', compatible u v u' v' = true ->
  pre_of v <> pre_of v' /\ ((pre_of u' < pre_of u)%N <-> (pre_of v' < pre_of v)%N) /\
  ((post_of u' < post_of u)%N <-> (post_of v' < post_of v)%N).
Proof. intros u v u' v' H. unfold compatible in H. lia. Qed.

(* any two pairs of a run are order-preserving, given that the nodes come from forests *)
Lemma Compat'_ord : forall F G us vs M, NF F us -> NF G vs -> Compat' M ->
  (forall p, In p M -> In (fst p) us /\ In (snd p) vs) -> forall p p', In p M -> In p' M -> ord_pres p p'.
Proof.
  intros F G us vs M HF HG. induction M as [|q M IH]; intros HC Hin p p' Hp Hp'; [destruct Hp|].
  cbn [Compat'] in HC. destruct HC as (Hcq & Hq & HC).
  assert (Hin' : forall p, In p M -> In (fst p) us /\ In (snd p) vs) by (intros p0 Hp0; apply Hin; right; exact Hp0).
  assert (Hpair : forall r, In r M -> ord_pres q r /\ ord_pres r q).
  { intros r Hr. unfold compat_all in Hcq. rewrite forallb_forall in Hcq. specialize (Hcq r Hr).
    apply compatible_spec in Hcq. destruct Hcq as (K1 & K2 & K3). specialize (Hq r Hr).
    destruct (Hin q (or_introl eq_refl)) as [Q1 Q2]. destruct (Hin' r Hr) as [R1 R2].
    pose proof (NF_keys F us HF (fst q) (fst r) Q1 R1) as [U1 U2]. pose proof (NF_keys G vs HG (snd q) (snd r) Q2 R2) as [V1 V2].
    assert (post_of (fst q) <> post_of (fst r)) by (intros E; apply U2 in E; rewrite E in Hq; apply Hq; reflexivity).
    assert (post_of (snd q) <> post_of (snd r)) by (intros E; apply V2 in E; rewrite E in K1; apply K1; reflexivity).
    unfold ord_pres. lia. }
  destruct Hp as [Ep|Hp]; destruct Hp' as [Ep'|Hp'].
  - subst. unfold ord_pres. lia.
  - subst q. apply (Hpair p' Hp').
  - subst q. apply (Hpair p Hp).
  - apply IH; assumption.
Qed.

Theorem delta_le_mapping_min : forall c F G, delta c F G <= mapping_min c F G.
Proof.
  intros c F G. unfold mapping_min.
  set (us := pp_forest F 0 0). set (vs := pp_forest G 0 0).
  pose proof (proj1 (pp_forest_NF F 0 0)) as HF. pose proof (proj1 (pp_forest_NF G 0 0)) as HG. fold us in HF. fold vs in HG.
  destruct (best_steps c vs us []) as (M & z & Hs & Eb). rewrite Eb, ins_rest_sum.
  destruct (steps_inv c vs us [] M z Hs (NF_Inc F us HF)) as (HC & Ez & new & Em & Hnew); [intros p u [] | exact I|].
  rewrite app_nil_r in Em. subst new. rewrite Ez.
  apply (lower_gen c M (Compat'_ord F G us vs M HF HG HC Hnew) F G us vs HF HG).
  split; [|split].
  - intros u Hu v. split.
    + intros HLk. apply lookupL_In in HLk. destruct HLk as (p & Hp & Ek & Ev). destruct (Hnew p Hp) as [P1 _].
      apply (proj1 (NF_keys F us HF (fst p) u P1 Hu)) in Ek. destruct p as [pu pv]. cbn [fst snd] in *. subst. exact Hp.
    + intros Huv. destruct (lookupL M u) as [v'|] eqn:E.
      * apply lookupL_In in E. destruct E as (p & Hp & Ek & Ev).
        pose proof (Compat'_func M HC p (u, v) Hp Huv Ek) as Ep. subst p. cbn [snd] in Ev. congruence.
      * exfalso. unfold lookupL in E. destruct (find _ M) as [p|] eqn:Ef; [discriminate|].
        apply (find_none _ _ Ef) in Huv. cbn [fst] in Huv. rewrite N.eqb_refl in Huv. discriminate.
  - intros v Hv. unfold mapped_r. rewrite existsb_exists. split.
    + intros (p & Hp & Ek). apply N.eqb_eq in Ek. destruct (Hnew p Hp) as [_ P2].
      apply (proj1 (NF_keys G vs HG (snd p) v P2 Hv)) in Ek. destruct p as [pu pv]. cbn [fst snd] in *. subst. exists pu. exact Hp.
    + intros (x & Hx). exists (x, v). split; [exact Hx | cbn [snd]; apply N.eqb_refl].
  - intros x y Hxy. destruct (Hnew (x, y) Hxy) as [P1 P2]. cbn [fst snd] in *. tauto.
Qed.

(* Tai: the recurrence is the minimum over all edit mappings — all forests, all cost models *)
Theorem delta_is_min : forall c F G, delta c F G = mapping_min c F G.
Proof. intros. pose proof (delta_le_mapping_min c F G). pose proof (mapping_min_le_delta c F G). lia. Qed.
