(* C07 — SPEC of the tree edit distance.

   Ordered labelled trees, forests, cost models, and [delta]: the textbook forest
   recurrence (leftmost-root form; Tai 1979 / Zhang–Shasha 1989, Lemma 3 mirrored
   left-to-right).  Nothing here looks at how pyscn computes the distance.

   Costs are integers: a cost model gives every cost as a multiple of a fixed unit
   (1 for the default model, 2^-120 for the Python/weighted models whose float64
   constants are dyadic rationals; see Ted/Cost.v).  Every finite set of float64
   costs is of this form, so no generality is lost, and [Z.min]/[lia] replace [Q]. *)
From Coq Require Import ZArith List Lia Bool.
Import ListNotations.
Open Scope Z_scope.

Inductive tree : Type := Node (label : N) (children : list tree).
Definition forest := list tree.

Definition label_of (t : tree) : N := match t with Node l _ => l end.
Definition children_of (t : tree) : forest := match t with Node _ cs => cs end.

Fixpoint tsize (t : tree) : nat := match t with Node _ cs => S (list_sum (map tsize cs)) end.
Definition fsize (f : forest) : nat := list_sum (map tsize f).

Lemma tsize_node : forall l cs, tsize (Node l cs) = S (fsize cs).
Proof. reflexivity. Qed.
Lemma fsize_cons : forall t r, fsize (t :: r) = (tsize t + fsize r)%nat.
Proof. reflexivity. Qed.
Lemma fsize_app : forall f g, fsize (f ++ g) = (fsize f + fsize g)%nat.
Proof. intros. unfold fsize. rewrite map_app, list_sum_app. reflexivity. Qed.

(* a strong induction principle for trees (children are a list of trees) *)
Lemma tree_forest_ind (P : tree -> Prop) (Q : forest -> Prop) :
  (forall l cs, Q cs -> P (Node l cs)) -> Q [] -> (forall t r, P t -> Q r -> Q (t :: r)) ->
  (forall t, P t) /\ (forall f, Q f).
Proof.
  intros HN Hnil Hcons.
  assert (HP : forall t, P t).
  { fix IH 1. intros [l cs]. apply HN. induction cs as [|t r IHr]; [exact Hnil | apply Hcons; [apply IH | exact IHr]]. }
  split; [exact HP | induction f as [|t r IHr]; [exact Hnil | apply Hcons; [apply HP | exact IHr]]].
Qed.

(* --- cost models ------------------------------------------------------------------- *)
Record cost : Type := Build_cost { del : N -> Z; ins : N -> Z; ren : N -> N -> Z }.

Definition cost_nonneg (c : cost) : Prop :=
  (forall a, 0 <= del c a) /\ (forall a, 0 <= ins c a) /\ (forall a b, 0 <= ren c a b).
Definition ren_refl (c : cost) : Prop := forall a, ren c a a = 0.
Definition cost_sym (c : cost) : Prop := (forall a, del c a = ins c a) /\ (forall a b, ren c a b = ren c b a).

Definition min3 (a b d : Z) : Z := Z.min a (Z.min b d).

(* cost of deleting / inserting every node of a forest *)
Definition zsum (l : list Z) : Z := fold_right Z.add 0 l.
Fixpoint del_tree (c : cost) (t : tree) : Z := match t with Node l cs => del c l + zsum (map (del_tree c) cs) end.
Definition del_all (c : cost) (f : forest) : Z := zsum (map (del_tree c) f).
Fixpoint ins_tree (c : cost) (t : tree) : Z := match t with Node l cs => ins c l + zsum (map (ins_tree c) cs) end.
Definition ins_all (c : cost) (f : forest) : Z := zsum (map (ins_tree c) f).

(* --- the forest recurrence ------------------------------------------------------------
   delta(0,0)           = 0
   delta(a(F1) F, 0)    = delta(F1 F, 0) + del a
   delta(0, b(G1) G)    = delta(0, G1 G) + ins b
   delta(a(F1) F, b(G1) G) = min { delta(F1 F, b(G1) G) + del a,          -- delete the leftmost root a
                                   delta(a(F1) F, G1 G) + ins b,          -- insert the leftmost root b
                                   delta(F1, G1) + delta(F, G) + ren a b } -- map a to b
   Fuel = total number of nodes + 1 ([delta_fuel_enough] shows it is never exhausted). *)
Fixpoint delta_fuel (c : cost) (n : nat) (F G : forest) {struct n} : Z :=
  match n with
  | O => 0
  | S n =>
    match F, G with
    | [], [] => 0
    | Node a F1 :: F', [] => delta_fuel c n (F1 ++ F') [] + del c a
    | [], Node b G1 :: G' => delta_fuel c n [] (G1 ++ G') + ins c b
    | Node a F1 :: F', Node b G1 :: G' =>
        min3 (delta_fuel c n (F1 ++ F') G + del c a)
             (delta_fuel c n F (G1 ++ G') + ins c b)
             (delta_fuel c n F1 G1 + delta_fuel c n F' G' + ren c a b)
    end
  end.

Definition delta (c : cost) (F G : forest) : Z := delta_fuel c (S (fsize F + fsize G)) F G.

(* tree edit distance of two trees *)
Definition ted (c : cost) (t1 t2 : tree) : Z := delta c [t1] [t2].
