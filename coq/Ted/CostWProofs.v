(* C07 — the weighted family [weighted_scost_w]: which members satisfy the hypotheses of the "consequently" clauses
   (non-negative weights: distance 0 to itself, similarity 1 for identical trees; insert weight = delete weight:
   symmetry), exactness of the model for every member, and a witness that symmetry fails when insert <> delete. *)
From Coq Require Import ZArith QArith Qround List String Bool Lia.
From PV Require Import Gen.TedConst Ted.TedSpec Ted.Cost Ted.CostProofs Ted.CostW Ted.ZS Ted.ZSExact Ted.ZSCorollaries
  Ted.TedBrute Ted.TaiLower.
Import ListNotations.

(* --- the default model on label strings ------------------------------------------------------------- *)
Lemma default_scost_nonneg : scost_nonneg default_scost.
Proof. repeat split; intros; cbn [default_scost sdel sins sren]; try destruct (String.eqb a b); vm_compute; discriminate. Qed.
Lemma default_scost_refl : scost_refl default_scost.
Proof. intros s. cbn [default_scost sren]. rewrite String.eqb_refl. reflexivity. Qed.
Lemma default_scost_sym : scost_sym default_scost.
Proof. split; intros; cbn [default_scost sdel sins sren]; [reflexivity | rewrite String.eqb_sym; reflexivity]. Qed.

Lemma wbase_nonneg : forall b, scost_nonneg (wbase_scost b).
Proof. intros [|l i]; [apply default_scost_nonneg | apply python_nonneg]. Qed.
Lemma wbase_refl : forall b, scost_refl (wbase_scost b).
Proof. intros [|l i]; [apply default_scost_refl | apply python_refl]. Qed.
Lemma wbase_sym : forall b, scost_sym (wbase_scost b).
Proof. intros [|l i]; [apply default_scost_sym | apply python_sym]. Qed.

(* --- the family ---------------------------------------------------------------------------------------- *)
Lemma weighted_w_nonneg : forall wi wd wr base, (0 <= wi)%Q -> (0 <= wd)%Q -> (0 <= wr)%Q ->
  scost_nonneg base -> scost_nonneg (weighted_scost_w wi wd wr base).
Proof.
  intros wi wd wr base Hi Hd Hr (H1 & H2 & H3). repeat split; intros; cbn [weighted_scost_w sdel sins sren];
    apply Qmult_le_0_compat; auto.
Qed.
Lemma weighted_w_refl : forall wi wd wr base, scost_refl base -> scost_refl (weighted_scost_w wi wd wr base).
Proof. intros wi wd wr base H s. cbn [weighted_scost_w sren]. rewrite (H s). apply Qmult_0_r. Qed.
Lemma weighted_w_sym : forall w wr base, scost_sym base -> scost_sym (weighted_scost_w w w wr base).
Proof. intros w wr base (H1 & H2). split; intros; cbn [weighted_scost_w sdel sins sren]; [rewrite H1 | rewrite H2]; reflexivity. Qed.

(* non-negative weights: the hypotheses of "distance 0 from itself" / "similarity 1 for identical trees" hold *)
Lemma cm_weighted_w_ok : forall wi wd wr b tbl, (0 <= wi)%Q -> (0 <= wd)%Q -> (0 <= wr)%Q ->
  cost_nonneg (cm_cost (cm_weighted_w wi wd wr b tbl)) /\ ren_refl (cm_cost (cm_weighted_w wi wd wr b tbl)).
Proof.
  intros. cbn [cm_weighted_w cm_cost]. split.
  - apply mk_cost_nonneg, weighted_w_nonneg; auto using wbase_nonneg.
  - apply mk_cost_refl, weighted_w_refl, wbase_refl.
Qed.
(* insert weight = delete weight: the cost model is symmetric *)
Lemma cm_weighted_w_sym : forall w wr b tbl, cost_sym (cm_cost (cm_weighted_w w w wr b tbl)).
Proof. intros. cbn [cm_weighted_w cm_cost]. apply mk_cost_sym, weighted_w_sym, wbase_sym. Qed.

(* the shipped weighted model is a member (same tabulated costs) *)
Lemma cm_weighted_is_w : forall l i tbl,
  cm_weighted l i tbl = cm_weighted_w ted_weighted_insert ted_weighted_delete ted_weighted_rename (WPython l i) tbl.
Proof. reflexivity. Qed.

(* exactness for every member: the model returns the minimum over all Tai mappings *)
Lemma weighted_w_is_min : forall wi wd wr b tbl t1 t2, (tsize t1 <= 500)%nat -> (tsize t2 <= 500)%nat ->
  let c := cm_cost (cm_weighted_w wi wd wr b tbl) in
  ComputeDistance c (Some t1) (Some t2) = Some (ted c t1 t2) /\ ted c t1 t2 = mapping_min c [t1] [t2].
Proof. intros. split; [apply ComputeDistance_is_ted; assumption | apply delta_is_min]. Qed.

(* insert <> delete: NOT symmetric.  NewWeightedCostModel(2.0, 1.5, 0.5, Default), a(b) vs a:
   deleting b costs 1.5, inserting it costs 2.0 *)
Definition w_asym : cost := cm_cost (cm_weighted_w 2 (3#2) (1#2) WDefault ["a"; "b"]%string).
Lemma weighted_w_asym_witness :
  ted w_asym (Node 0 [Node 1 []]) (Node 0 []) = to_units (3#2) /\
  ted w_asym (Node 0 []) (Node 0 [Node 1 []]) = to_units 2 /\
  ComputeDistance w_asym (Some (Node 0 [Node 1 []])) (Some (Node 0 [])) = Some (to_units (3#2)).
Proof. vm_compute. repeat split. Qed.
