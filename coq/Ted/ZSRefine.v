(* C07 — unbounded steps of the refinement ZS -> delta that are closed:
   the preparation passes keep the tree (labels and shape), and getPostOrderNodes lists
   exactly the labels of the tree in post-order (so its length is the number of nodes). *)
From Coq Require Import ZArith List Lia Bool.
From PV Require Import Ted.TedSpec Ted.ZS.
Import ListNotations.

Fixpoint erase (a : anode) : tree := match a with ANode l _ _ cs => Node l (map erase cs) end.
Fixpoint postorder_labels (t : tree) : list N := match t with Node l cs => flat_map postorder_labels cs ++ [l] end.

Lemma erase_number : forall t n, erase (fst (postOrderTraversalRecursive t n)) = t.
Proof.
  assert (H : (forall t, forall n, erase (fst (postOrderTraversalRecursive t n)) = t) /\
              (forall cs, forall n, map erase (fst ((fix go (cs : list tree) (next : N) : list anode * N :=
                 match cs with
                 | [] => ([], next)
                 | c :: r => let '(c', n1) := postOrderTraversalRecursive c next in
                             let '(r', n2) := go r n1 in (c' :: r', n2)
                 end) cs n)) = cs)).
  { apply tree_forest_ind.
    - intros l cs IH n. cbn [postOrderTraversalRecursive]. specialize (IH n).
      destruct ((fix go (cs : list tree) (next : N) : list anode * N := _) cs n) as [cs' nx]. cbn [fst erase] in *. rewrite IH. reflexivity.
    - intros n. reflexivity.
    - intros t r IHt IHr n. specialize (IHt n). destruct (postOrderTraversalRecursive t n) as [c' n1]. specialize (IHr n1).
      destruct ((fix go (cs : list tree) (next : N) : list anode * N := _) r n1) as [r' n2]. cbn [fst map] in *. rewrite IHt, IHr. reflexivity. }
  exact (proj1 H).
Qed.

Lemma anode_ind' (P : anode -> Prop) :
  (forall l i m cs, Forall P cs -> P (ANode l i m cs)) -> forall a, P a.
Proof.
  intros H. fix IH 1. intros [l i m cs]. apply H. induction cs as [|c r IHr]; constructor; [apply IH | exact IHr].
Qed.

Lemma erase_lml : forall a, erase (computeLeftMostLeavesRecursive a) = erase a.
Proof.
  apply anode_ind'. intros l i m cs H. destruct cs as [|c r]; [reflexivity|].
  cbn [computeLeftMostLeavesRecursive erase map]. inversion H as [|? ? Hc Hr]; subst. rewrite Hc. f_equal. f_equal.
  rewrite map_map. apply map_ext_Forall. exact Hr.
Qed.

Lemma nodes_labels : forall a, map fst (getPostOrderNodes a) = postorder_labels (erase a).
Proof.
  apply anode_ind'. intros l i m cs H. cbn [getPostOrderNodes erase postorder_labels]. rewrite map_app. cbn [map fst]. f_equal.
  induction H as [|c r Hc Hr IH]; [reflexivity|]. cbn [flat_map map]. rewrite map_app, Hc, IH. reflexivity.
Qed.

Lemma postorder_labels_length : forall t, length (postorder_labels t) = tsize t.
Proof.
  assert (H : (forall t, length (postorder_labels t) = tsize t) /\ (forall f, length (flat_map postorder_labels f) = fsize f)).
  { apply tree_forest_ind.
    - intros l cs IH. cbn [postorder_labels]. rewrite app_length, IH, tsize_node. cbn. lia.
    - reflexivity.
    - intros t r IHt IHr. cbn [flat_map]. rewrite app_length, IHt, IHr, fsize_cons. reflexivity. }
  exact (proj1 H).
Qed.

(* PrepareTreeForAPTED + getPostOrderNodes: the node array is the tree's labels in post-order *)
Theorem prepare_nodes_postorder : forall t,
  map fst (getPostOrderNodes (fst (PrepareTreeForAPTED t))) = postorder_labels t /\
  length (getPostOrderNodes (fst (PrepareTreeForAPTED t))) = tsize t.
Proof.
  intros t. unfold PrepareTreeForAPTED, PostOrderTraversal. cbn [fst].
  assert (E : map fst (getPostOrderNodes (computeLeftMostLeavesRecursive (fst (postOrderTraversalRecursive t 0)))) = postorder_labels t).
  { rewrite nodes_labels, erase_lml, erase_number. reflexivity. }
  split; [exact E|]. rewrite <- (map_length fst), E. apply postorder_labels_length.
Qed.
