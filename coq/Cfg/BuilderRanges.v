(* The reported line ranges of the graph-level model (first statement start .. last statement end of every
   unreachable non-empty block) contain only statements the abstraction marks dead — for EVERY renumbered body
   (ids = source-order line numbers).  Lifts BuilderBounded.ranges_cover_only_dead_bounded. *)
From Coq Require Import NArith List Bool Arith Lia ZifyBool ZifyNat ZifyN.
From PV Require Import Py.PyAST Cfg.Flow Cfg.FlowSpec Cfg.FlowComplete Cfg.Builder Cfg.BuilderReach Cfg.BuilderFrame
  Cfg.BuilderTryNS Cfg.BuilderTrySS Cfg.BuilderFrameAll Cfg.BuilderBounded Cfg.BuilderSim Cfg.BuilderAgree Cfg.FlowRanges Cfg.BuilderChain.
Import ListNotations.
Local Open Scope N_scope.

Definition G_block_all := proj1 (proj2 G_all).
Definition P_block_all := proj1 (proj2 ranges_flow).

Lemma ginv_start : ginv b_start0 1.
Proof.
  split; [|split].
  - split.
    + cbv. repeat constructor; cbv; intuition discriminate.
    + exact (i_klt _ inv_start).
    + exact (wb_keys _ (i_wfb _ inv_start)).
    + intro b. assert (E : sl b_start0 b = []) by (unfold sl, b_start0, build_s2; cbn; repeat match goal with |- context [if ?c then _ else _] => destruct c end; reflexivity). rewrite E. exact I.
  - reflexivity.
  - intros y Hy. cbv in Hy. discriminate.
Qed.

Theorem ranges_all b0 : lok_block false (renumber b0) = true -> ranges_ok (renumber b0) = true.
Proof.
  intro Hlok. set (b := renumber b0) in *. unfold ranges_ok. rewrite build_resolved.
  destruct (build_sim b (fun _ => true) Hlok eq_refl) as (l' & A & So & Co & Da & Db).
  set (g := build' b) in *.
  (* block structure *)
  pose proof (G_block_all b0 1 b_start0 ginv_start) as (Gi & N3 & C3 & F3).
  change (fst (rn_block 1 b0)) with b in Gi, N3, C3, F3. set (s3 := process_block' b_start0 b) in *.
  destruct Gi as (G3 & _).
  assert (Bg : blocks g = blocks s3) by reflexivity.
  assert (Sg : forall c, sl g c = sl s3 c) by (intro c; apply sl_blocks_eq; exact Bg).
  assert (Sx : sl g 1 = []) by (rewrite Sg, F3; [reflexivity|reflexivity|discriminate]).
  (* flow on renumbered bodies *)
  destruct (P_block_all b0 1 true ltac:(lia)) as (_ & _ & (R1 & R2 & R3)). change (fst (rn_block 1 b0)) with b in R1, R2, R3.
  fold (fn_marks b) in R1, R2, R3.
  apply forallb_forall. intros [lo hi] Hr. apply forallb_forall. intros k Hk.
  cbn [fst snd]. destruct (N.leb lo k && N.leb k hi) eqn:Ein; [|reflexivity]. apply andb_true_iff in Ein. destruct Ein as (E1 & E2).
  apply N.leb_le in E1. apply N.leb_le in E2. cbn [fst snd] in *.
  unfold dead_ranges in Hr. apply in_flat_map in Hr. destruct Hr as ([c lst] & Hin & Hr). apply in_rev in Hin.
  destruct lst as [|x xs]; [destruct Hr|]. destruct (is_reach (reachable g) c) eqn:Er; [destruct Hr|].
  destruct Hr as [Hr|[]]. inversion Hr; subst lo hi. clear Hr.
  assert (Hsl : sl g c = x :: xs).
  { unfold sl. apply in_blocks_lookup; [rewrite Bg; apply G3|exact Hin]. }
  assert (Hc1 : c <> 1) by (intros ->; rewrite Sx in Hsl; discriminate).
  assert (Hgap : gapfree (x :: xs)) by (rewrite <- Hsl, Sg; apply G3).
  destruct (gapfree_cover xs x k Hgap E1 E2) as (y & Hy & Q1 & Q2).
  assert (Hp : placed g (b_start y) (b_end y) c) by (exists (x :: xs), y; repeat split; assumption).
  destruct (Da _ _ _ Hp) as (Hlt & [(H0 & H0')|(Hm & Hs)]).
  - (* a location-less elif node: no real id lies in [0, 0] *)
    exfalso. unfold all_ids in Hk. destruct marks_ids as (_ & Hmi & _). rewrite <- (Hmi b true) in Hk.
    apply in_map_iff in Hk. destruct Hk as ([k' m] & Hf & Hk). cbn in Hf. subst k'. destruct (R1 k m Hk). lia.
  - assert (Hl : l' c = false).
    { destruct (l' c) eqn:El; [|reflexivity]. exfalso. assert (R : reach (edges g) c) by (apply Co; assumption).
      apply reachable_spec in R. congruence. }
    rewrite Hl in Hm. apply orb_true_iff. left. apply mem_In. apply in_dead_ids.
    unfold all_ids in Hk. destruct marks_ids as (_ & Hmi & _). rewrite <- (Hmi b true) in Hk.
    apply in_map_iff in Hk. destruct Hk as ([k' m] & Hf & Hk). cbn in Hf. subst k'.
    rewrite (R3 _ _ Hs Hm k m Hk Q1 Q2) in Hk. exact Hk.
Qed.

(* [check_ranges] of BuilderBounded on renumbered bodies *)
Theorem ranges_cover_only_dead : forall b0, check_ranges (renumber b0) = true.
Proof.
  intro b0. unfold check_ranges. apply andb_true_iff. split.
  - destruct (lok_block false (renumber b0)) eqn:E; [apply ranges_all; exact E|reflexivity].
  - destruct (lok_block true (renumber b0)) eqn:E; [|reflexivity]. unfold in_loop.
    apply ranges_all. fold (in_loop (renumber b0)). rewrite lok_in_loop. exact E.
Qed.

(* the bounded theorem of BuilderBounded is an instance (every enumerated body is a renumbered body) *)
Lemma all_bodies_renumbered b : In b all_bodies -> exists b0, b = renumber b0.
Proof.
  unfold all_bodies. intro H. apply in_flat_map in H. destruct H as (n & _ & H). unfold bodies in H.
  apply in_map_iff in H. destruct H as (b0 & <- & _). exists b0. reflexivity.
Qed.

Corollary ranges_cover_only_dead_all_bodies : forallb check_ranges all_bodies = true.
Proof. apply forallb_forall. intros b Hb. destruct (all_bodies_renumbered b Hb) as (b0 & ->). apply ranges_cover_only_dead. Qed.

Print Assumptions ranges_cover_only_dead.
