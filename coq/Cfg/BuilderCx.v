(* The complexity complexity.go computes on the graph-level model (Cfg/Builder.v: distinct reachable blocks with a
   conditional out-edge + exception edges out of reachable blocks + 1) equals the decision count of the abstraction
   Cfg/Flow.v, for EVERY body of the C03 construct list (no size bound).  This lifts the complexity component of
   BuilderBounded.check_one.  Ingredients: the counting invariant carried by the simulation (Cfg/BuilderSim.v, last
   conjunct of [S_out]), the regularity of the conditional edges (Cfg/BuilderReg.v), DFS correctness (Cfg/BuilderReach.v). *)
From Coq Require Import NArith List Bool Arith Lia ZifyBool ZifyNat ZifyN Permutation.
From PV Require Import Py.PyAST Cfg.Flow Cfg.FlowSpec Cfg.FlowComplete Cfg.Builder Cfg.BuilderReach Cfg.BuilderFrame
  Cfg.BuilderTryNS Cfg.BuilderTrySS Cfg.BuilderFrameAll Cfg.BuilderBounded Cfg.BuilderSim Cfg.BuilderAgree Cfg.BuilderReg.
Import ListNotations.
Local Open Scope N_scope.

(* ---- the depth-first walk visits every block once ---- *)
Lemma dfs_nodup s fuel : forall stack vis, NoDup vis -> NoDup (dfs fuel s stack vis).
Proof.
  induction fuel as [|f IH]; intros stack vis ND; [exact ND|]. cbn [dfs]. destruct stack as [|b r]; [exact ND|].
  destruct (existsb (N.eqb b) vis) eqn:E; [apply IH; exact ND|]. apply IH. constructor; [|exact ND].
  intro Hin. apply memb_In in Hin. unfold memb in Hin. congruence.
Qed.

Lemma reachable_nodup s : NoDup (reachable s).
Proof. unfold reachable. apply dfs_nodup. constructor. Qed.

(* ---- complexity_g as an edge count ---- *)
Definition hascond (E : list (N * N * ety)) (b : N) : bool :=
  existsb (fun e => match e with (f, _, ECondTrue) | (f, _, ECondFalse) => N.eqb f b | _ => false end) E.

Lemma hascond_spec E b : hascond E b = true <-> exists v, In (b, v, ECondTrue) E \/ In (b, v, ECondFalse) E.
Proof.
  unfold hascond. rewrite existsb_exists. split.
  - intros ([[f v] t] & Hin & Hm). destruct t; try discriminate; apply N.eqb_eq in Hm; subst f; exists v; [left|right]; exact Hin.
  - intros (v & [Hin|Hin]); [exists (b, v, ECondTrue)|exists (b, v, ECondFalse)]; (split; [exact Hin|apply N.eqb_refl]).
Qed.

Lemma NoDup_map_filter {A B} (f : A -> B) (p : A -> bool) l : NoDup (map f l) -> NoDup (map f (filter p l)).
Proof.
  induction l as [|a l IH]; intro ND; [constructor|]. cbn [map] in ND. inversion ND as [|? ? Hn ND']; subst. cbn [filter].
  destruct (p a); [|apply IH; exact ND']. cbn [map]. constructor; [|apply IH; exact ND'].
  intro Hin. apply Hn. apply in_map_iff in Hin. destruct Hin as (x & Hx & Hf). apply filter_In in Hf. apply in_map_iff. exists x. tauto.
Qed.

Lemma filter_andb {A} (f g : A -> bool) l : filter (fun x => f x && g x) l = filter g (filter f l).
Proof.
  induction l as [|a l IH]; [reflexivity|]. cbn [filter]. destruct (f a); cbn [andb filter]; [destruct (g a)|]; rewrite IH; reflexivity.
Qed.

Lemma cond_blocks_count E r (R : N -> bool) :
  creg E -> NoDup r -> (forall b, In b r <-> R b = true) ->
  length (filter (hascond E) r) = length (filter (fun e => isT e && R (esrc e)) E).
Proof.
  intros (ND & HF) NDr Hr. rewrite <- (map_length esrc (filter _ E)). apply Permutation_length. apply NoDup_Permutation.
  - apply NoDup_filter. exact NDr.
  - rewrite filter_andb. apply NoDup_map_filter. exact ND.
  - intro b. rewrite filter_In, in_map_iff, hascond_spec. split.
    + intros (Hb & v & [Hin|Hin]).
      * exists (b, v, ECondTrue). split; [reflexivity|]. apply filter_In. split; [exact Hin|]. cbn. apply Hr. exact Hb.
      * destruct (HF b v Hin) as (v' & Hin'). exists (b, v', ECondTrue). split; [reflexivity|]. apply filter_In. split; [exact Hin'|].
        cbn. apply Hr. exact Hb.
    + intros ([[u v] t] & Hu & Hf). cbn in Hu. subst u. apply filter_In in Hf. destruct Hf as (Hin & Hm). apply andb_true_iff in Hm.
      destruct Hm as (Ht & HR). destruct t; try discriminate. cbn in HR. split; [apply Hr; exact HR|]. exists v. left. exact Hin.
Qed.

Lemma cntE_split (R : N -> bool) E :
  cntE R E = (length (filter (fun e => isT e && R (esrc e)) E) +
              length (filter (fun e => match e with (f, _, EException) => R f | _ => false end) E))%nat.
Proof.
  induction E as [|[[u v] t] E IH]; [reflexivity|].
  change (cntE R ((u, v, t) :: E)) with (cw R (u, v, t) + cntE R E)%nat. rewrite IH. clear IH. cbn [filter].
  destruct t; cbn [cw counted isT esrc fst andb]; destruct (R u); cbn [length]; lia.
Qed.

Theorem complexity_g_count s :
  creg (edges s) -> complexity_g s = S (cntE (is_reach (reachable s)) (edges s)).
Proof.
  intro Cr. unfold complexity_g. f_equal. rewrite cntE_split. f_equal.
  apply (cond_blocks_count (edges s) (reachable s) (is_reach (reachable s)) Cr (reachable_nodup s)).
  intro b. symmetry. apply memb_In.
Qed.

Lemma cntE_ext (l l' : lam) E : (forall u v t, In (u, v, t) E -> l' u = l u) -> cntE l' E = cntE l E.
Proof.
  intro H. unfold cntE. f_equal. apply map_ext_in. intros [[u v] t] Hin. cbn [cw]. rewrite (H u v t Hin). reflexivity.
Qed.

(* ---- the whole function ---- *)
Theorem complexity_agrees body :
  lok_block false body = true -> c03_block body = true -> complexity_g (build body) = complexity body.
Proof.
  intros Hlok Hc3. rewrite build_resolved. set (g := build' body).
  rewrite (complexity_g_count g (build_regular body Hc3)). unfold complexity. f_equal.
  set (l0 := fun _ : N => true).
  destruct (S_block_all body b_start0 l0 false inv_start Hlok) as (l' & A & F & C & So & Co & Da & Db & Dc & Cn); [discriminate|].
  change (cur b_start0) with 2 in *. change (l0 2) with true in *. change (next b_start0) with 3 in *.
  set (s3 := process_block' b_start0 body) in *.
  assert (Eg : g = connect s3 (cur s3) exit_id ENormal) by reflexivity.
  pose proof (inv_lframe _ _ inv_start F) as I3.
  pose proof (m_next _ _ _ (lf_mid _ _ F)) as N3. change (next b_start0) with 3 in N3.
  assert (Hinc : incl (edges s3) (edges g)) by (rewrite Eg; cbn [connect edges]; apply incl_appl, incl_refl).
  assert (Hr2 : reach (edges g) 2).
  { eapply reach_step; [apply reach_entry|]. apply Hinc. apply (lframe_incl _ _ F). left. reflexivity. }
  (* the labelling is the reachability of the final graph (except on the exit block) *)
  assert (Hsound : forall b, reach (edges g) b -> l' b = true).
  { intros b Hb. apply (reach_closed (edges g) (fun c => l' c = true)); [change (l' 0 = true); rewrite (A 0) by lia; reflexivity| |exact Hb].
    change (closed l' (edges g)). rewrite Eg. cbn [connect edges]. apply closed_snoc. split.
    - apply So.
      + intros _. split; [reflexivity|]. split; [intros x f []|]. split; [intros x h []|intros lp []].
      + intros _ lp Hlp. discriminate.
      + intros u v t [Heq|[]]. inversion Heq; subst. intros _. reflexivity.
    - intros _. change (l' 1 = true). rewrite (A 1) by lia. reflexivity. }
  assert (Hcompl : forall b, b <> 1 -> b < next g -> l' b = true -> reach (edges g) b).
  { intros b Hb1 Hb2 Hb3. destruct (Co (edges g) Hinc (fun _ => Hr2)) as (P4 & _).
    destruct (N.lt_ge_cases b 3) as [Hlt|Hge].
    - assert (b = 0 \/ b = 2) as [->| ->] by lia; [apply reach_entry|exact Hr2].
    - apply P4; [exact Hge|rewrite Eg in Hb2; exact Hb2|exact Hb3]. }
  (* no edge leaves the exit block *)
  destruct (frame_block body _ wf_build_start) as (Fr & Q). change (set_cur build_s2 2) with b_start0 in Fr, Q.
  rewrite Q in Fr. fold s3 in Fr.
  assert (Hsrc : forall u v t, In (u, v, t) (edges g) -> u <> 1 /\ u < next g).
  { intros u v t Hin. rewrite Eg in Hin. cbn [connect edges] in Hin. apply in_app_or in Hin. destruct Hin as [Hin|[Heq|[]]].
    - split; [|rewrite Eg; cbn [connect next]; apply (wb_bnd _ (i_wfb _ I3) u v t Hin)].
      destruct (m_edges _ _ _ (fr_mid _ _ Fr)) as (D & ED & HD). rewrite ED in Hin. apply in_app_or in Hin. destruct Hin as [Hin|Hin].
      + cbn in Hin. destruct Hin as [Heq|[]]. inversion Heq. discriminate.
      + destruct (HD u v t Hin) as [<-|Hge]; [cbn; discriminate|]. change (next b_start0) with 3 in Hge. lia.
    - inversion Heq; subst. rewrite Eg. cbn [connect next]. split; [|apply (i_cur _ I3)].
      destruct (fr_cur _ _ Fr) as [(K & _)|(K & _)]; [rewrite K; cbn; discriminate|change (next b_start0) with 3 in K; lia]. }
  assert (Hlab : forall u v t, In (u, v, t) (edges g) -> is_reach (reachable g) u = l' u).
  { intros u v t Hin. destruct (Hsrc u v t Hin) as (H1 & H2).
    destruct (l' u) eqn:El.
    - apply reachable_spec. apply Hcompl; assumption.
    - apply not_true_iff_false. intro Hr. apply reachable_spec in Hr. rewrite (Hsound u Hr) in El. discriminate. }
  rewrite (cntE_ext l' (is_reach (reachable g)) (edges g) Hlab).
  rewrite Eg. cbn [connect edges]. rewrite cntE_snoc. cbn [counted]. rewrite Nat.add_0_r.
  rewrite (Cn Hc3). reflexivity.
Qed.

(* the statement of BuilderBounded, complexity component, for all bodies *)
Definition agree_cx_all (b : block) : bool :=
  (if lok_block false b then agree_cx b else true) && (if lok_block true b then agree_cx (in_loop b) else true).

Lemma agree_cx_lok body : lok_block false body = true -> agree_cx body = true.
Proof.
  intro Hlok. unfold agree_cx. destruct (c03_block body) eqn:Hc3; [|reflexivity].
  apply Nat.eqb_eq. apply complexity_agrees; assumption.
Qed.

Theorem builder_complexity_agrees : forall b, agree_cx_all b = true.
Proof.
  intro b. unfold agree_cx_all. apply andb_true_iff. split.
  - destruct (lok_block false b) eqn:E; [apply agree_cx_lok; exact E|reflexivity].
  - destruct (lok_block true b) eqn:E; [|reflexivity]. apply agree_cx_lok. rewrite lok_in_loop. exact E.
Qed.

(* the full [check_one] of BuilderBounded (dead statements and complexity), for all bodies *)
Theorem check_one_all : forall b, check_one b = true.
Proof.
  intro b. pose proof (flow_agrees_with_builder b) as Hd. pose proof (builder_complexity_agrees b) as Hc.
  unfold check_dead in Hd. unfold agree_cx_all in Hc. unfold check_one.
  apply andb_true_iff in Hd. destruct Hd as (Hd1 & Hd2). apply andb_true_iff in Hc. destruct Hc as (Hc1 & Hc2).
  destruct (lok_block false b); destruct (lok_block true b); cbn [andb]; rewrite ?Hd1, ?Hd2, ?Hc1, ?Hc2; reflexivity.
Qed.

(* the bounded theorem as an instance *)
Corollary flow_agrees_with_builder_bounded_again : forallb check_one all_bodies = true.
Proof. apply forallb_forall. intros b _. apply check_one_all. Qed.

Print Assumptions builder_complexity_agrees.
Print Assumptions check_one_all.
