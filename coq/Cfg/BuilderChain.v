(* Block contents of the graph builder on renumbered bodies (ids = source order): inside one block consecutive
   statements leave no gap (the next statement starts at most one line after the end of the previous one), so the
   reported range [first start .. last end] of a block is covered by the spans of its statements. *)
From Coq Require Import NArith List Bool Arith Lia ZifyBool ZifyNat ZifyN.
From PV Require Import Py.PyAST Cfg.Builder Cfg.BuilderReach Cfg.BuilderFrame Cfg.BuilderBounded Cfg.BuilderSim.
Import ListNotations.
Local Open Scope N_scope.

Fixpoint lookup (bs : list (N * list bstmt)) (b : N) : list bstmt :=
  match bs with [] => [] | (k, l) :: r => if N.eqb k b then l else lookup r b end.
Definition sl (s : st) (b : N) : list bstmt := lookup (blocks s) b.

Fixpoint gapfree (l : list bstmt) : Prop :=
  match l with
  | y :: ((x :: _) as r) => b_start x <= b_end y + 1 /\ gapfree r
  | _ => True
  end.
(* the last statement of a non-empty list *)
Definition lastb (l : list bstmt) : option bstmt := match l with [] => None | x :: r => Some (last r x) end.
Lemma lastb_snoc l x : lastb (l ++ [x]) = Some x.
Proof. destruct l as [|a r]; [reflexivity|]. cbn [app lastb]. rewrite last_last. reflexivity. Qed.

Lemma last_cons (r : list bstmt) : forall a b, last (b :: r) a = last r b.
Proof.
  induction r as [|c r IH]; intros a b; [reflexivity|]. change (last (b :: c :: r) a) with (last (c :: r) a).
  rewrite (IH a c), (IH b c). reflexivity.
Qed.

Lemma gapfree_snoc l x : gapfree l -> (forall y, lastb l = Some y -> b_start x <= b_end y + 1) -> gapfree (l ++ [x]).
Proof.
  induction l as [|a r IH]; intros G H; [exact I|]. destruct r as [|b r].
  - cbn. split; [apply H; reflexivity|exact I].
  - cbn [app gapfree] in *. destruct G as (G1 & G2). split; [exact G1|]. apply IH; [exact G2|]. intros y Hy. apply H. cbn [lastb] in *. rewrite last_cons. exact Hy.
Qed.

Lemma lookup_add_to bs b x c :
  lookup (add_to bs b x) c = if N.eqb c b then (if existsb (N.eqb b) (map fst bs) then lookup bs b ++ [x] else []) else lookup bs c.
Proof.
  induction bs as [|[k l] r IH]; cbn [add_to lookup map fst existsb].
  - destruct (N.eqb c b); reflexivity.
  - destruct (N.eqb k b) eqn:Ekb.
    + apply N.eqb_eq in Ekb. subst k. cbn [lookup]. rewrite N.eqb_refl. cbn [orb]. rewrite (N.eqb_sym b c).
      destruct (N.eqb c b) eqn:Ecb; [reflexivity|reflexivity].
    + cbn [lookup]. rewrite (N.eqb_sym b k), Ekb. cbn [orb]. destruct (N.eqb k c) eqn:Ekc.
      * apply N.eqb_eq in Ekc. subst c. rewrite Ekb. reflexivity.
      * exact IH.
Qed.

Lemma lookup_nokey bs b : ~ In b (map fst bs) -> lookup bs b = [].
Proof.
  induction bs as [|[k l] r IH]; intro H; [reflexivity|]. cbn [lookup]. destruct (N.eqb k b) eqn:E.
  - apply N.eqb_eq in E. subst. exfalso. apply H. left. reflexivity.
  - apply IH. intro Hin. apply H. right. exact Hin.
Qed.

Lemma in_blocks_lookup bs b l : NoDup (map fst bs) -> In (b, l) bs -> lookup bs b = l.
Proof.
  induction bs as [|[k l0] r IH]; intros ND Hin; [destruct Hin|]. cbn [lookup]. inversion ND as [|? ? Hnin ND']; subst.
  destruct Hin as [Heq|Hin].
  - inversion Heq; subst. rewrite N.eqb_refl. reflexivity.
  - destruct (N.eqb k b) eqn:E; [|apply IH; assumption]. apply N.eqb_eq in E. subst. exfalso. apply Hnin. apply in_map_iff. exists (b, l). split; [reflexivity|exact Hin].
Qed.

(* ---- the invariant ---- *)
Record gb (s : st) : Prop := {
  g_nodup : NoDup (map fst (blocks s));
  g_klt : klt s;
  g_keys : forall b, b < next s -> haskey s b;
  g_gap : forall b, gapfree (sl s b)
}.
Definition ginv (s : st) (n : N) : Prop :=
  gb s /\ cur s < next s /\ forall y, lastb (sl s (cur s)) = Some y -> n <= b_end y + 1.

Lemma sl_nb s b : gb s -> sl (nb s) b = if N.eqb b (next s) then [] else sl s b.
Proof.
  intro G. unfold sl. cbn [nb new_block snd blocks lookup]. rewrite (N.eqb_sym (next s) b). destruct (N.eqb b (next s)) eqn:E; reflexivity.
Qed.
Lemma sl_fresh s b : gb s -> next s <= b -> sl s b = [].
Proof. intros G H. apply lookup_nokey. intro Hin. pose proof (g_klt _ G b Hin). lia. Qed.
Lemma sl_add s b x c : gb s -> b < next s -> sl (add_stmt s b x) c = if N.eqb c b then sl s b ++ [x] else sl s c.
Proof.
  intros G Hb. unfold sl. cbn [add_stmt blocks]. rewrite lookup_add_to. destruct (N.eqb c b); [|reflexivity].
  assert (H : existsb (N.eqb b) (map fst (blocks s)) = true).
  { apply existsb_exists. exists b. split; [apply (g_keys _ G b Hb)|apply N.eqb_refl]. }
  rewrite H. reflexivity.
Qed.

Lemma gb_nb s : gb s -> gb (nb s).
Proof.
  intros G. split.
  - cbn [nb new_block snd blocks map fst]. constructor; [|apply G]. intro Hin. pose proof (g_klt _ G _ Hin). lia.
  - apply klt_nb. apply G.
  - intros b Hb. unfold haskey. cbn [nb new_block snd blocks map fst next] in *. destruct (N.eq_dec b (next s)) as [->|Hne]; [left; reflexivity|right; apply (g_keys _ G); lia].
  - intro b. rewrite (sl_nb s b G). destruct (N.eqb b (next s)); [exact I|apply G].
Qed.
Lemma gb_eq s s' : blocks s' = blocks s -> next s' = next s -> gb s -> gb s'.
Proof.
  intros B N [G1 G2 G3 G4]. split.
  - rewrite B. exact G1.
  - intros b Hb. unfold haskey in Hb. rewrite B in Hb. rewrite N. apply G2. exact Hb.
  - intros b Hb. unfold haskey. rewrite B. apply G3. rewrite <- N. exact Hb.
  - intro b. unfold sl. rewrite B. apply G4.
Qed.
Lemma gb_connect s a b t : gb s -> gb (connect s a b t).
Proof. apply gb_eq; reflexivity. Qed.
Lemma gb_set_cur s a : gb s -> gb (set_cur s a).
Proof. apply gb_eq; reflexivity. Qed.
Lemma gb_set_loops s a : gb s -> gb (set_loops s a).
Proof. apply gb_eq; reflexivity. Qed.
Lemma gb_set_excs s a : gb s -> gb (set_excs s a).
Proof. apply gb_eq; reflexivity. Qed.
Lemma gb_connect_all s a l t : gb s -> gb (connect_all s a l t).
Proof. apply gb_eq; [apply ca_blocks|apply ca_next]. Qed.
Lemma gb_set_processing s p : gb s -> gb (set_processing s p).
Proof. unfold set_processing. destruct (excs s); [exact (fun H => H)|apply gb_set_excs]. Qed.
Lemma fin_prop_next t4 f : next (fin_prop t4 f) = next t4.
Proof.
  unfold fin_prop. cbv zeta.
  set (t5 := match first_finally (tl (excs t4)) with
             | Some o => connect_unless t4 f o EReturn
             | None => connect_unless t4 f exit_id EReturn
             end).
  assert (B5 : next t5 = next t4) by (unfold t5; destruct (first_finally _); apply cu_next).
  match goal with |- context [connect_unless ?t f _ EException] => set (t6 := t) end.
  assert (B6 : next t6 = next t4).
  { unfold t6. destruct (loops t5); [exact B5|]. destruct (Nat.leb _ _); [|exact B5].
    destruct (first_finally (firstn _ _)); rewrite !cu_next; exact B5. }
  clearbody t6. destruct (first_finally (tl (excs t4))).
  - rewrite cu_next. exact B6.
  - destruct (tl (excs t4)); [rewrite cu_next; exact B6|]. destruct (cau_proj t6 f (x_handlers e) EException) as (Q & _).
    rewrite Q. exact B6.
Qed.
Lemma gb_fin_prop s f : gb s -> gb (fin_prop s f).
Proof. apply gb_eq; [apply fin_prop_blocks|apply fin_prop_next]. Qed.

Lemma gb_add s b x : gb s -> b < next s -> (forall y, lastb (sl s b) = Some y -> b_start x <= b_end y + 1) -> gb (add_stmt s b x).
Proof.
  intros G Hb Hl. split.
  - cbn [add_stmt blocks]. rewrite add_to_keys. apply G.
  - apply klt_add_stmt. apply G.
  - intros c Hc. unfold haskey. cbn [add_stmt blocks]. rewrite add_to_keys. apply (g_keys _ G). exact Hc.
  - intro c. rewrite (sl_add s b x c G Hb). destruct (N.eqb c b); [|apply G]. apply gapfree_snoc; [apply G|exact Hl].
Qed.

Lemma sl_blocks_eq s s' b : blocks s' = blocks s -> sl s' b = sl s b.
Proof. intro E. unfold sl. rewrite E. reflexivity. Qed.

Lemma sl_nb' s b : sl (nb s) b = if N.eqb b (next s) then [] else sl s b.
Proof. unfold sl. cbn [nb new_block snd blocks lookup]. rewrite (N.eqb_sym (next s) b). reflexivity. Qed.
Lemma sl_connect s a b t c : sl (connect s a b t) c = sl s c. Proof. reflexivity. Qed.
Lemma sl_set_cur s a c : sl (set_cur s a) c = sl s c. Proof. reflexivity. Qed.
Lemma sl_set_loops s a c : sl (set_loops s a) c = sl s c. Proof. reflexivity. Qed.
Lemma sl_set_excs s a c : sl (set_excs s a) c = sl s c. Proof. reflexivity. Qed.
Lemma sl_connect_all s a l t c : sl (connect_all s a l t) c = sl s c. Proof. apply sl_blocks_eq, ca_blocks. Qed.
Lemma sl_set_processing s p c : sl (set_processing s p) c = sl s c.
Proof. unfold set_processing. destruct (excs s); reflexivity. Qed.
Lemma sl_fin_prop s f c : sl (fin_prop s f) c = sl s c. Proof. apply sl_blocks_eq, fin_prop_blocks. Qed.
Global Hint Rewrite sl_nb' sl_connect sl_set_cur sl_set_loops sl_set_excs sl_connect_all sl_set_processing sl_fin_prop : slr.
Global Hint Rewrite fin_prop_next : bst.

Lemma eqb_lt_false a b : a < b -> N.eqb a b = false.
Proof. intro H. apply N.eqb_neq. lia. Qed.
Lemma eqb_gt_false a b : b < a -> N.eqb a b = false.
Proof. intro H. apply N.eqb_neq. lia. Qed.

(* ---- the specification ---- *)
Definition G_out (s s' : st) (n' : N) : Prop :=
  ginv s' n' /\ next s <= next s' /\ (cur s' = cur s \/ next s <= cur s') /\
  (forall b, b < next s -> b <> cur s -> sl s' b = sl s b).

Definition G_stmt (x0 : stmt) : Prop := forall n s, ginv s n ->
  G_out s (process_stmt' s (fst (rn_stmt n x0))) (snd (rn_stmt n x0)).
Definition G_block (b0 : block) : Prop := forall n s, ginv s n ->
  G_out s (process_block' s (fst (rn_block n b0))) (snd (rn_block n b0)).
Definition G_oblock (o0 : oblock) : Prop := match o0 with OSome b => G_block b | ONone => True end.

(* a sub-block processed from block [c] of a state reached by primitives *)
Lemma G_sub t c m b0 :
  G_block b0 -> gb t -> c < next t -> (forall y, lastb (sl t c) = Some y -> m <= b_end y + 1) ->
  let s' := process_block' (set_cur t c) (fst (rn_block m b0)) in
  ginv s' (snd (rn_block m b0)) /\ next t <= next s' /\ (cur s' = c \/ next t <= cur s') /\
  (forall b, b < next t -> b <> c -> sl s' b = sl t b).
Proof.
  intros Gb G Hc Hl s'. destruct (Gb m (set_cur t c)) as (H1 & H2 & H3 & H4).
  - split; [apply gb_set_cur; exact G|]. split; [exact Hc|exact Hl].
  - split; [exact H1|split; [exact H2|split; [exact H3|exact H4]]].
Qed.

Lemma ginv_empty s c n : gb s -> c < next s -> sl s c = [] -> ginv (set_cur s c) n.
Proof. intros G Hc He. split; [apply gb_set_cur; exact G|]. split; [exact Hc|]. cbn [set_cur cur]. rewrite sl_set_cur, He. discriminate. Qed.

Lemma G_add s n e kd n' : ginv s n -> n' <= e + 1 -> G_out s (add_stmt s (cur s) (mk n e kd)) n'.
Proof.
  intros (G & Hc & Hl) He. assert (G' : gb (add_stmt s (cur s) (mk n e kd))).
  { apply gb_add; [exact G|exact Hc|]. intros y Hy. specialize (Hl y Hy). cbn [mk b_start]. lia. }
  split; [|split; [reflexivity|split; [left; reflexivity|]]].
  - split; [exact G'|]. split; [exact Hc|]. cbn [add_stmt cur]. rewrite (sl_add s (cur s) _ _ G Hc), N.eqb_refl, lastb_snoc.
    intros y Hy. inversion Hy; subst. cbn [mk b_end]. lia.
  - intros b Hb Hne. rewrite (sl_add s (cur s) _ _ G Hc). rewrite (proj2 (N.eqb_neq b (cur s)) Hne). reflexivity.
Qed.

(* a jump: own line, then a fresh empty block *)
Lemma G_jump s n kd s2 n' :
  ginv s n -> blocks s2 = blocks (add_stmt s (cur s) (mk n n kd)) -> next s2 = next s ->
  G_out s (after_terminator s2) n'.
Proof.
  intros (G & Hc & Hl) B2 N2. unfold after_terminator. rewrite new_block_eq.
  assert (G2 : gb s2).
  { apply (gb_eq (add_stmt s (cur s) (mk n n kd))); [exact B2|exact N2|]. apply gb_add; [exact G|exact Hc|].
    intros y Hy. specialize (Hl y Hy). cbn [mk b_start]. lia. }
  split; [|split; [autorewrite with bst; lia|split; [right; autorewrite with bst; lia|]]].
  - apply ginv_empty; [apply gb_nb; exact G2|autorewrite with bst; lia|]. autorewrite with slr. rewrite N.eqb_refl. reflexivity.
  - intros b Hb Hne. autorewrite with slr. rewrite eqb_lt_false by lia. rewrite (sl_blocks_eq _ _ b B2).
    rewrite (sl_add s (cur s) _ _ G Hc). rewrite (proj2 (N.eqb_neq b (cur s)) Hne). reflexivity.
Qed.

(* the renumbering leaves no unused id: the end of a statement is the last id it consumed *)
Lemma rn_end_ge :
  (forall x n, snd (rn_stmt n x) <= N.succ (end_stmt (fst (rn_stmt n x)))) /\
  (forall b n, snd (rn_block n b) <= N.max n (N.succ (end_block (fst (rn_block n b))))) /\
  (forall a n, snd (rn_arms n a) <= N.max n (N.succ (end_arms (fst (rn_arms n a))))) /\
  (forall o n, snd (rn_oblock n o) <= N.max n (N.succ (end_oblock (fst (rn_oblock n o))))).
Proof.
  apply ast_mutind; intros; cbn [rn_stmt rn_block rn_arms rn_oblock];
    repeat match goal with
    | |- context [rn_block ?n ?b] => let E := fresh "E" in
        match goal with H : forall n, snd (rn_block n b) <= _ |- _ => pose proof (H n) as E end; destruct (rn_block n b) as [? ?]; cbn [fst snd] in E
    | |- context [rn_arms ?n ?a] => let E := fresh "E" in
        match goal with H : forall n, snd (rn_arms n a) <= _ |- _ => pose proof (H n) as E end; destruct (rn_arms n a) as [? ?]; cbn [fst snd] in E
    | |- context [rn_oblock ?n ?o] => let E := fresh "E" in
        match goal with H : forall n, snd (rn_oblock n o) <= _ |- _ => pose proof (H n) as E end; destruct (rn_oblock n o) as [? ?]; cbn [fst snd] in E
    | |- context [rn_stmt ?n ?s] => let E := fresh "E" in
        match goal with H : forall n, snd (rn_stmt n s) <= _ |- _ => pose proof (H n) as E end; destruct (rn_stmt n s) as [? ?]; cbn [fst snd] in E
    end; cbn [fst snd end_stmt end_block end_arms end_oblock]; lia.
Qed.

Lemma G_simple k : G_stmt (Simple k).
Proof. intros n s Gi. cbn. apply G_add; [exact Gi|lia]. Qed.
Lemma G_pass k : G_stmt (Pass k).
Proof. intros n s Gi. cbn. apply G_add; [exact Gi|lia]. Qed.
Lemma G_def k nm b : G_stmt (Def k nm b).
Proof.
  intros n s Gi. cbn [rn_stmt]. destruct rn_end_ge as (_ & Hb & _). pose proof (Hb b (N.succ n)) as E.
  destruct (rn_block (N.succ n) b) as [b' n1]. cbn [fst snd process_stmt' end_stmt] in *. apply G_add; [exact Gi|lia].
Qed.
Lemma G_return k : G_stmt (Return k).
Proof.
  intros n s Gi. cbn [rn_stmt fst snd process_stmt']. apply (G_jump s n KReturn); [exact Gi| |].
  - autorewrite with bst. destruct (return_target _ _); reflexivity.
  - autorewrite with bst. destruct (return_target _ _); reflexivity.
Qed.
Lemma G_raise k : G_stmt (Raise k).
Proof.
  intros n s Gi. cbn [rn_stmt fst snd process_stmt']. apply (G_jump s n KRaise); [exact Gi| |]; autorewrite with bst.
  - destruct (raise_target _ _) as [[f|] [fb|]]; try reflexivity. destruct (x_handlers fb); [reflexivity|rewrite ca_blocks; reflexivity].
  - destruct (raise_target _ _) as [[f|] [fb|]]; try reflexivity. destruct (x_handlers fb); [reflexivity|rewrite ca_next; reflexivity].
Qed.
Lemma G_break k : G_stmt (Break k).
Proof.
  intros n s Gi. cbn [rn_stmt fst snd process_stmt']. autorewrite with bst. destruct (loops s).
  - apply G_add; [exact Gi|lia].
  - apply (G_jump s n KBreak); [exact Gi| |]; autorewrite with bst; destruct (jump_target _); reflexivity.
Qed.
Lemma G_continue k : G_stmt (Continue k).
Proof.
  intros n s Gi. cbn [rn_stmt fst snd process_stmt']. autorewrite with bst. destruct (loops s).
  - apply G_add; [exact Gi|lia].
  - apply (G_jump s n KContinue); [exact Gi| |]; autorewrite with bst; destruct (jump_target _); reflexivity.
Qed.

Lemma G_block_nil : G_block BNil.
Proof. intros n s Gi. cbn. split; [exact Gi|]. split; [lia|]. split; [left; reflexivity|]. reflexivity. Qed.

Lemma G_block_cons x b : G_stmt x -> G_block b -> G_block (BCons x b).
Proof.
  intros Gx Gb n s Gi. cbn [rn_block]. specialize (Gx n s Gi). destruct (rn_stmt n x) as [x' n1]. cbn [fst snd] in Gx.
  destruct Gx as (G1 & N1 & C1 & F1). specialize (Gb n1 _ G1). destruct (rn_block n1 b) as [b' n2]. cbn [fst snd process_block'] in *.
  destruct Gb as (G2 & N2 & C2 & F2). split; [exact G2|]. split; [lia|]. split; [destruct C2 as [->|C2]; [exact C1|right; lia]|].
  intros c Hc Hne. destruct G1 as (_ & Hc1 & _). rewrite F2; [apply F1; assumption|lia|]. destruct C1 as [->|C1]; [exact Hne|lia].
Qed.

Ltac slsimp :=
  autorewrite with slr bst;
  repeat first [rewrite N.eqb_refl | rewrite eqb_lt_false by lia | rewrite eqb_gt_false by lia].
Ltac slsimp_in H :=
  autorewrite with slr bst in H;
  repeat first [rewrite N.eqb_refl in H | rewrite eqb_lt_false in H by lia | rewrite eqb_gt_false in H by lia].

Lemma G_fin s sf c n' :
  gb sf -> next s <= c -> c < next sf -> next s <= next sf -> sl sf c = [] ->
  (forall b, b < next s -> b <> cur s -> sl sf b = sl s b) -> G_out s (set_cur sf c) n'.
Proof.
  intros G H1 H2 H3 He Hf. split; [apply ginv_empty; assumption|]. split; [exact H3|]. split; [right; exact H1|exact Hf].
Qed.

(* the header statement of a compound statement, added to the current block *)
Lemma G_hdr s n e kd : ginv s n ->
  let t := add_stmt s (cur s) (mk n e kd) in
  gb t /\ (forall b, b <> cur s -> sl t b = sl s b) /\ next t = next s.
Proof.
  intros (G & Hc & Hl) t. split; [|split; [|reflexivity]].
  - apply gb_add; [exact G|exact Hc|]. intros y Hy. specialize (Hl y Hy). cbn [mk b_start]. lia.
  - intros b Hne. unfold t. rewrite (sl_add s (cur s) _ _ G Hc). rewrite (proj2 (N.eqb_neq b (cur s)) Hne). reflexivity.
Qed.

Lemma G_sub' t c m b' n1 :
  (forall s, ginv s m -> G_out s (process_block' s b') n1) -> gb t -> c < next t ->
  (forall y, lastb (sl t c) = Some y -> m <= b_end y + 1) ->
  let s' := process_block' (set_cur t c) b' in
  ginv s' n1 /\ next t <= next s' /\ (cur s' = c \/ next t <= cur s') /\
  (forall b, b < next t -> b <> c -> sl s' b = sl t b).
Proof.
  intros Gb G Hc Hl s'. destruct (Gb (set_cur t c)) as (H1 & H2 & H3 & H4).
  - split; [apply gb_set_cur; exact G|]. split; [exact Hc|exact Hl].
  - split; [exact H1|split; [exact H2|split; [exact H3|exact H4]]].
Qed.

Lemma G_if_nil_none k b : G_block b -> G_stmt (If k b ANil ONone).
Proof.
  intros Gb n s Gi. cbn [rn_stmt rn_arms rn_oblock]. pose proof (Gb (N.succ n)) as Gb'. destruct (rn_block (N.succ n) b) as [b' n1].
  cbn [fst snd] in *. pose proof Gi as (G & Hc & Hl).
  cbn beta iota delta [process_stmt'] fix match. peel_all ident:(p). bsimp.
  set (e := end_stmt (If n b' ANil ONone)) in *.
  destruct (G_hdr s n e KOther Gi) as (G1 & F1 & N1). set (t1 := add_stmt s (cur s) (mk n e KOther)) in *.
  set (s4 := connect (nb (nb t1)) (cur s) (next s) ECondTrue) in *.
  assert (G4 : gb s4) by (apply gb_connect, gb_nb, gb_nb; exact G1).
  assert (N4 : next s4 = N.succ (N.succ (next s))) by reflexivity.
  destruct (G_sub' s4 (next s) (N.succ n) b' n1 Gb' G4) as (Gi5 & N5 & C5 & F5); [lia|unfold s4; slsimp; discriminate|].
  rewrite <- Es5p in *. rewrite N4 in *. destruct Gi5 as (G5 & Hc5 & _).
  apply G_fin; autorewrite with bst; try lia.
  - apply gb_connect, gb_connect. exact G5.
  - slsimp. rewrite F5 by lia. unfold s4. slsimp. reflexivity.
  - intros c Hc' Hne. slsimp. rewrite F5 by lia. unfold s4. slsimp. apply F1. exact Hne.
Qed.

Lemma G_if_nil_some k b eb : G_block b -> G_block eb -> G_stmt (If k b ANil (OSome eb)).
Proof.
  intros Gb Ge n s Gi. cbn [rn_stmt rn_arms rn_oblock]. pose proof (Gb (N.succ n)) as Gb'. destruct (rn_block (N.succ n) b) as [b' n1].
  pose proof (Ge n1) as Ge'. destruct (rn_block n1 eb) as [eb' n2].
  cbn [fst snd] in *. pose proof Gi as (G & Hc & Hl).
  cbn beta iota delta [process_stmt'] fix match. peel_all ident:(p). bsimp.
  set (e := end_stmt (If n b' ANil (OSome eb'))) in *.
  destruct (G_hdr s n e KOther Gi) as (G1 & F1 & N1). set (t1 := add_stmt s (cur s) (mk n e KOther)) in *.
  set (s4 := connect (nb (nb t1)) (cur s) (next s) ECondTrue) in *.
  assert (G4 : gb s4) by (apply gb_connect, gb_nb, gb_nb; exact G1).
  assert (N4 : next s4 = N.succ (N.succ (next s))) by reflexivity.
  destruct (G_sub' s4 (next s) (N.succ n) b' n1 Gb' G4) as (Gi5 & N5 & C5 & F5); [lia|unfold s4; slsimp; discriminate|].
  rewrite <- Es5p in *. rewrite N4 in *. destruct Gi5 as (G5 & Hc5 & _).
  set (s7 := connect (nb s5p) (cur s) (next s5p) ECondFalse) in *.
  assert (G7 : gb s7) by (apply gb_connect, gb_nb; exact G5).
  assert (N7 : next s7 = N.succ (next s5p)) by reflexivity.
  destruct (G_sub' s7 (next s5p) n1 eb' n2 Ge' G7) as (Gi8 & N8 & C8 & F8); [lia|unfold s7; slsimp; discriminate|].
  rewrite <- Es8p in *. rewrite N7 in *. destruct Gi8 as (G8 & Hc8 & _).
  apply G_fin; autorewrite with bst; try lia.
  - apply gb_connect, gb_connect. exact G8.
  - slsimp. rewrite F8 by lia. unfold s7. slsimp. rewrite F5 by lia. unfold s4. slsimp. reflexivity.
  - intros c Hc' Hne. slsimp. rewrite F8 by lia. unfold s7. slsimp. rewrite F5 by lia. unfold s4. slsimp. apply F1. exact Hne.
Qed.

(* the final else of an elif chain *)
Lemma G_kelse els0 merge t c n1 :
  G_oblock els0 -> gb t -> c < next t -> merge < next t ->
  let t' := kelse_of' (fst (rn_oblock n1 els0)) merge t c in
  gb t' /\ next t <= next t' /\ (forall b, b < next t -> sl t' b = sl t b).
Proof.
  intros Ge G Hc Hm. destruct els0 as [|eb]; cbn [rn_oblock].
  - cbn. split; [apply gb_connect; exact G|]. split; [lia|reflexivity].
  - cbn [G_oblock] in Ge. pose proof (Ge n1) as Ge'. destruct (rn_block n1 eb) as [eb' n2]. cbn [fst snd kelse_of'] in *.
    rewrite new_block_eq. cbv zeta.
    set (t2 := connect (nb t) c (next t) ECondFalse).
    assert (G2 : gb t2) by (apply gb_connect, gb_nb; exact G).
    destruct (G_sub' t2 (next t) n1 eb' n2 Ge' G2) as (Gi3 & N3 & C3 & F3); [unfold t2; autorewrite with bst; lia|unfold t2; slsimp; discriminate|].
    set (t3 := process_block' (set_cur t2 (next t)) eb') in *. destruct Gi3 as (G3 & _).
    assert (N2 : next t2 = N.succ (next t)) by reflexivity. rewrite N2 in *.
    split; [apply gb_connect; exact G3|]. split; [autorewrite with bst; lia|].
    intros b Hb. slsimp. rewrite F3 by lia. unfold t2. slsimp. reflexivity.
Qed.

Definition G_elif (a0 : arms) : Prop := forall els0 n merge s,
  G_oblock els0 -> ginv s n -> merge < next s -> merge <> cur s -> a0 <> ANil ->
  let p := rn_arms n a0 in
  let s' := process_elif' s (fst p) (kelse_of' (fst (rn_oblock (snd p) els0)) merge) merge in
  gb s' /\ next s <= next s' /\ (forall b, b < next s -> b <> cur s -> sl s' b = sl s b).

Lemma G_elif_cons k1 b1 rest : G_block b1 -> G_elif rest -> G_elif (ACons k1 b1 rest).
Proof.
  intros Gb Gr els0 n merge s Ge Gi Hm Hmc _. cbn [rn_arms]. pose proof (Gb (N.succ n)) as Gb'. destruct (rn_block (N.succ n) b1) as [b1' n1].
  pose proof (Gr els0 n1 merge) as Gr'. pose proof (G_kelse els0 merge) as Gk. destruct (rn_arms n1 rest) as [rest' n2] eqn:Er.
  cbn [fst snd] in *. cbv zeta. pose proof Gi as (G & Hc & Hl).
  cbn beta iota delta [process_elif'] fix match. peel_all ident:(p). bsimp.
  destruct (G_hdr s 0 0 KOther) as (G1 & F1 & N1); [split; [exact G|split; [exact Hc|intros; lia]]|].
  set (t1 := add_stmt s (cur s) (mk 0 0 KOther)) in *.
  set (s3 := connect (nb t1) (cur s) (next s) ECondTrue) in *.
  assert (G3 : gb s3) by (apply gb_connect, gb_nb; exact G1).
  assert (N3 : next s3 = N.succ (next s)) by reflexivity.
  destruct (G_sub' s3 (next s) (N.succ n) b1' n1 Gb' G3) as (Gi4 & N4 & C4 & F4); [lia|unfold s3; slsimp; discriminate|].
  rewrite <- Es4p in *. rewrite N3 in *. pose proof Gi4 as (G4 & Hc4 & _).
  set (s5 := match rest' with
             | ANil => kelse_of' (fst (rn_oblock n2 els0)) merge s4p (cur s)
             | ACons _ _ _ => process_elif' (set_cur (connect (nb s4p) (cur s) (next s4p) ECondFalse) (next s4p)) rest' (kelse_of' (fst (rn_oblock n2 els0)) merge) merge
             end).
  assert (H5 : gb s5 /\ next s4p <= next s5 /\ (forall b, b < next s4p -> sl s5 b = sl s4p b)).
  { unfold s5. destruct rest as [|k2 b2 rest0].
    - cbn [rn_arms] in Er. inversion Er; subst rest' n2. apply Gk; [exact Ge|exact G4|lia|lia].
    - assert (Hr' : exists k2' b2' r', rest' = ACons k2' b2' r').
      { cbn [rn_arms] in Er. destruct (rn_block (N.succ n1) b2) as [? ?]. destruct (rn_arms n0 rest0) as [? ?]. inversion Er. eauto. }
      destruct Hr' as (k2' & b2' & r' & ->).
      set (t2 := connect (nb s4p) (cur s) (next s4p) ECondFalse).
      assert (G2 : gb t2) by (apply gb_connect, gb_nb; exact G4).
      destruct (Gr' (set_cur t2 (next s4p))) as (G5 & N5 & F5); try assumption; try discriminate.
      { apply ginv_empty; [exact G2|unfold t2; autorewrite with bst; lia|unfold t2; slsimp; reflexivity]. }
      { unfold t2. autorewrite with bst. lia. }
      { autorewrite with bst. lia. }
      autorewrite with bst in *. assert (Nt2 : next t2 = N.succ (next s4p)) by reflexivity. rewrite Nt2 in *.
      split; [exact G5|]. split; [lia|].
      intros b Hb. rewrite F5; [unfold t2; slsimp; reflexivity|lia|lia]. }
  destruct H5 as (G5 & N5 & F5). fold s5. clearbody s5.
  split; [apply gb_set_cur, gb_connect; exact G5|]. split; [autorewrite with bst; lia|].
  intros c Hc' Hne. slsimp. rewrite F5 by lia. rewrite F4 by lia. unfold s3. slsimp. apply F1. exact Hne.
Qed.

Lemma G_if_elif k b k1 b1 rest els0 :
  G_block b -> G_elif (ACons k1 b1 rest) -> G_oblock els0 -> G_stmt (If k b (ACons k1 b1 rest) els0).
Proof.
  intros Gb Ga Ge n s Gi. cbn [rn_stmt]. pose proof (Gb (N.succ n)) as Gb'. destruct (rn_block (N.succ n) b) as [b' n1].
  pose proof (Ga els0 n1) as Ga'. cbv zeta in Ga'.
  assert (Ha' : exists k1' b1' r', fst (rn_arms n1 (ACons k1 b1 rest)) = ACons k1' b1' r').
  { cbn [rn_arms]. destruct (rn_block (N.succ n1) b1) as [? ?]. destruct (rn_arms n0 rest) as [? ?]. cbn. eauto. }
  destruct (rn_arms n1 (ACons k1 b1 rest)) as [a' n2]. destruct (rn_oblock n2 els0) as [els' n3] eqn:Eo.
  cbn [fst snd] in *. destruct Ha' as (k1' & b1' & r' & ->). pose proof Gi as (G & Hc & Hl).
  cbn beta iota delta [process_stmt'] fix match. peel_all ident:(p). bsimp.
  set (e := end_stmt (If n b' (ACons k1' b1' r') els')) in *.
  destruct (G_hdr s n e KOther Gi) as (G1 & F1 & N1). set (t1 := add_stmt s (cur s) (mk n e KOther)) in *.
  set (s4 := connect (nb (nb t1)) (cur s) (next s) ECondTrue) in *.
  assert (G4 : gb s4) by (apply gb_connect, gb_nb, gb_nb; exact G1).
  assert (N4 : next s4 = N.succ (N.succ (next s))) by reflexivity.
  destruct (G_sub' s4 (next s) (N.succ n) b' n1 Gb' G4) as (Gi5 & N5 & C5 & F5); [lia|unfold s4; slsimp; discriminate|].
  rewrite <- Es5p in *. rewrite N4 in *. destruct Gi5 as (G5 & Hc5 & _).
  set (s7 := connect (nb s5p) (cur s) (next s5p) ECondFalse) in *.
  assert (G7 : gb s7) by (apply gb_connect, gb_nb; exact G5).
  assert (N7 : next s7 = N.succ (next s5p)) by reflexivity.
  change (s8p = process_elif' (set_cur s7 (next s5p)) (ACons k1' b1' r') (kelse_of' els' (N.succ (next s))) (N.succ (next s))) in Es8p.
  destruct (Ga' (N.succ (next s)) (set_cur s7 (next s5p)) Ge) as (G8 & N8 & F8); try discriminate.
  { apply ginv_empty; [exact G7|lia|unfold s7; slsimp; reflexivity]. }
  { autorewrite with bst. lia. }
  { autorewrite with bst. lia. }
  rewrite Eo in G8, N8, F8. cbn [fst] in G8, N8, F8. rewrite <- Es8p in *. autorewrite with bst in *. rewrite N7 in *.
  apply G_fin; autorewrite with bst; try lia.
  - apply gb_connect. exact G8.
  - slsimp. rewrite F8 by lia. unfold s7. slsimp. rewrite F5 by lia. unfold s4. slsimp. reflexivity.
  - intros c Hc' Hne. slsimp. rewrite F8 by lia. unfold s7. slsimp. rewrite F5 by lia. unfold s4. slsimp. apply F1. exact Hne.
Qed.

Lemma G_while_none k b : G_block b -> G_stmt (While k b ONone).
Proof.
  intros Gb n s Gi. cbn [rn_stmt rn_oblock]. pose proof (Gb (N.succ n)) as Gb'. destruct (rn_block (N.succ n) b) as [b' n1].
  cbn [fst snd] in *. pose proof Gi as (G & Hc & Hl).
  cbn beta iota delta [process_stmt'] fix match. peel_all ident:(p). bsimp.
  set (e := end_stmt (While n b' ONone)) in *.
  set (t3 := add_stmt (connect (nb s) (cur s) (next s) ENormal) (next s) (mk n e KOther)) in *.
  assert (G3 : gb t3).
  { apply gb_add; [apply gb_connect, gb_nb; exact G|autorewrite with bst; lia|]. slsimp. discriminate. }
  assert (N3 : next t3 = N.succ (next s)) by reflexivity.
  assert (S3 : forall c, c <> next s -> sl t3 c = sl (nb s) c).
  { intros c Hne. unfold t3. rewrite (sl_add _ (next s) _ _ (gb_connect _ _ _ _ (gb_nb _ G))) by (autorewrite with bst; lia).
    rewrite (proj2 (N.eqb_neq c (next s)) Hne). reflexivity. }
  match type of Es10p with _ = process_block' (set_cur ?t _) _ => set (t9 := t) in * end.
  assert (G9 : gb t9) by (unfold t9; apply gb_connect, gb_connect, gb_set_loops, gb_nb, gb_nb; exact G3).
  assert (N9 : next t9 = N.succ (N.succ (N.succ (next s)))) by reflexivity.
  destruct (G_sub' t9 (N.succ (next s)) (N.succ n) b' n1 Gb' G9) as (Gi10 & N10 & C10 & F10); [lia|unfold t9; slsimp; rewrite ?N3; slsimp; rewrite ?S3 by lia; slsimp; discriminate|].
  rewrite <- Es10p in *. rewrite N9 in *. destruct Gi10 as (G10 & Hc10 & _).
  apply G_fin; autorewrite with bst; try lia.
  - apply gb_set_loops, gb_connect. exact G10.
  - slsimp. rewrite F10 by lia. unfold t9. slsimp. rewrite ?N3. slsimp. rewrite ?S3 by lia. slsimp. reflexivity.
  - intros c Hc' Hne. slsimp. rewrite F10 by lia. unfold t9. slsimp. rewrite ?N3. slsimp. rewrite ?S3 by lia. slsimp. reflexivity.
Qed.

Lemma G_while_some k b eb : G_block b -> G_block eb -> G_stmt (While k b (OSome eb)).
Proof.
  intros Gb Ge n s Gi. cbn [rn_stmt rn_oblock]. pose proof (Gb (N.succ n)) as Gb'. destruct (rn_block (N.succ n) b) as [b' n1].
  pose proof (Ge n1) as Ge'. destruct (rn_block n1 eb) as [eb' n2].
  cbn [fst snd] in *. pose proof Gi as (G & Hc & Hl).
  cbn beta iota delta [process_stmt'] fix match. peel_all ident:(p). bsimp.
  set (e := end_stmt (While n b' (OSome eb'))) in *.
  set (t3 := add_stmt (connect (nb s) (cur s) (next s) ENormal) (next s) (mk n e KOther)) in *.
  assert (G3 : gb t3).
  { apply gb_add; [apply gb_connect, gb_nb; exact G|autorewrite with bst; lia|]. slsimp. discriminate. }
  assert (N3 : next t3 = N.succ (next s)) by reflexivity.
  assert (S3 : forall c, c <> next s -> sl t3 c = sl (nb s) c).
  { intros c Hne. unfold t3. rewrite (sl_add _ (next s) _ _ (gb_connect _ _ _ _ (gb_nb _ G))) by (autorewrite with bst; lia).
    rewrite (proj2 (N.eqb_neq c (next s)) Hne). reflexivity. }
  match type of Es10p with _ = process_block' (set_cur ?t _) _ => set (t9 := t) in * end.
  assert (G9 : gb t9) by (unfold t9; apply gb_connect, gb_connect, gb_set_loops, gb_nb, gb_nb, gb_nb; exact G3).
  assert (N9 : next t9 = N.succ (N.succ (N.succ (N.succ (next s))))) by reflexivity.
  destruct (G_sub' t9 (N.succ (next s)) (N.succ n) b' n1 Gb' G9) as (Gi10 & N10 & C10 & F10); [lia|unfold t9; slsimp; rewrite ?N3; slsimp; rewrite ?S3 by lia; slsimp; discriminate|].
  rewrite <- Es10p in *. rewrite N9 in *. destruct Gi10 as (G10 & Hc10 & _).
  match type of Et1p with _ = process_block' (set_cur ?t _) _ => set (s12 := t) in * end.
  assert (G12 : gb s12) by (unfold s12; apply gb_set_loops, gb_connect; exact G10).
  assert (N12 : next s12 = next s10p) by reflexivity.
  destruct (G_sub' s12 (N.succ (N.succ (N.succ (next s)))) n1 eb' n2 Ge' G12) as (Gi1 & N1 & C1 & F1); [lia| |].
  { unfold s12. slsimp. rewrite F10 by lia. unfold t9. slsimp. rewrite ?N3. slsimp. rewrite ?S3 by lia. slsimp. discriminate. }
  rewrite <- Et1p in *. rewrite N12 in *. destruct Gi1 as (G1 & Hc1 & _).
  apply G_fin; autorewrite with bst; try lia.
  - apply gb_connect. exact G1.
  - slsimp. rewrite F1 by lia. unfold s12. slsimp. rewrite F10 by lia. unfold t9. slsimp. rewrite ?N3. slsimp. rewrite ?S3 by lia. slsimp. reflexivity.
  - intros c Hc' Hne. slsimp. rewrite F1 by lia. unfold s12. slsimp. rewrite F10 by lia. unfold t9. slsimp. rewrite ?N3. slsimp. rewrite ?S3 by lia. slsimp. reflexivity.
Qed.

Lemma G_for_none k b : G_block b -> G_stmt (For k b ONone).
Proof.
  intros Gb n s Gi. cbn [rn_stmt rn_oblock]. pose proof (Gb (N.succ n)) as Gb'. destruct (rn_block (N.succ n) b) as [b' n1].
  cbn [fst snd] in *. pose proof Gi as (G & Hc & Hl).
  cbn beta iota delta [process_stmt'] fix match. peel_all ident:(p). bsimp.
  set (e := end_stmt (For n b' ONone)) in *.
  set (t3 := add_stmt (connect (nb s) (cur s) (next s) ENormal) (next s) (mk n e KOther)) in *.
  assert (G3 : gb t3).
  { apply gb_add; [apply gb_connect, gb_nb; exact G|autorewrite with bst; lia|]. slsimp. discriminate. }
  assert (N3 : next t3 = N.succ (next s)) by reflexivity.
  assert (S3 : forall c, c <> next s -> sl t3 c = sl (nb s) c).
  { intros c Hne. unfold t3. rewrite (sl_add _ (next s) _ _ (gb_connect _ _ _ _ (gb_nb _ G))) by (autorewrite with bst; lia).
    rewrite (proj2 (N.eqb_neq c (next s)) Hne). reflexivity. }
  match type of Es10p with _ = process_block' (set_cur ?t _) _ => set (t9 := t) in * end.
  assert (G9 : gb t9) by (unfold t9; apply gb_connect, gb_connect, gb_set_loops, gb_nb, gb_nb; exact G3).
  assert (N9 : next t9 = N.succ (N.succ (N.succ (next s)))) by reflexivity.
  destruct (G_sub' t9 (N.succ (next s)) (N.succ n) b' n1 Gb' G9) as (Gi10 & N10 & C10 & F10); [lia|unfold t9; slsimp; rewrite ?N3; slsimp; rewrite ?S3 by lia; slsimp; discriminate|].
  rewrite <- Es10p in *. rewrite N9 in *. destruct Gi10 as (G10 & Hc10 & _).
  apply G_fin; autorewrite with bst; try lia.
  - apply gb_set_loops, gb_connect. exact G10.
  - slsimp. rewrite F10 by lia. unfold t9. slsimp. rewrite ?N3. slsimp. rewrite ?S3 by lia. slsimp. reflexivity.
  - intros c Hc' Hne. slsimp. rewrite F10 by lia. unfold t9. slsimp. rewrite ?N3. slsimp. rewrite ?S3 by lia. slsimp. reflexivity.
Qed.

Lemma G_for_some k b eb : G_block b -> G_block eb -> G_stmt (For k b (OSome eb)).
Proof.
  intros Gb Ge n s Gi. cbn [rn_stmt rn_oblock]. pose proof (Gb (N.succ n)) as Gb'. destruct (rn_block (N.succ n) b) as [b' n1].
  pose proof (Ge n1) as Ge'. destruct (rn_block n1 eb) as [eb' n2].
  cbn [fst snd] in *. pose proof Gi as (G & Hc & Hl).
  cbn beta iota delta [process_stmt'] fix match. peel_all ident:(p). bsimp.
  set (e := end_stmt (For n b' (OSome eb'))) in *.
  set (t3 := add_stmt (connect (nb s) (cur s) (next s) ENormal) (next s) (mk n e KOther)) in *.
  assert (G3 : gb t3).
  { apply gb_add; [apply gb_connect, gb_nb; exact G|autorewrite with bst; lia|]. slsimp. discriminate. }
  assert (N3 : next t3 = N.succ (next s)) by reflexivity.
  assert (S3 : forall c, c <> next s -> sl t3 c = sl (nb s) c).
  { intros c Hne. unfold t3. rewrite (sl_add _ (next s) _ _ (gb_connect _ _ _ _ (gb_nb _ G))) by (autorewrite with bst; lia).
    rewrite (proj2 (N.eqb_neq c (next s)) Hne). reflexivity. }
  match type of Es10p with _ = process_block' (set_cur ?t _) _ => set (t9 := t) in * end.
  assert (G9 : gb t9) by (unfold t9; apply gb_connect, gb_connect, gb_set_loops, gb_nb, gb_nb, gb_nb; exact G3).
  assert (N9 : next t9 = N.succ (N.succ (N.succ (N.succ (next s))))) by reflexivity.
  destruct (G_sub' t9 (N.succ (next s)) (N.succ n) b' n1 Gb' G9) as (Gi10 & N10 & C10 & F10); [lia|unfold t9; slsimp; rewrite ?N3; slsimp; rewrite ?S3 by lia; slsimp; discriminate|].
  rewrite <- Es10p in *. rewrite N9 in *. destruct Gi10 as (G10 & Hc10 & _).
  match type of Et1p with _ = process_block' (set_cur ?t _) _ => set (s12 := t) in * end.
  assert (G12 : gb s12) by (unfold s12; apply gb_set_loops, gb_connect; exact G10).
  assert (N12 : next s12 = next s10p) by reflexivity.
  destruct (G_sub' s12 (N.succ (N.succ (N.succ (next s)))) n1 eb' n2 Ge' G12) as (Gi1 & N1 & C1 & F1); [lia| |].
  { unfold s12. slsimp. rewrite F10 by lia. unfold t9. slsimp. rewrite ?N3. slsimp. rewrite ?S3 by lia. slsimp. discriminate. }
  rewrite <- Et1p in *. rewrite N12 in *. destruct Gi1 as (G1 & Hc1 & _).
  apply G_fin; autorewrite with bst; try lia.
  - apply gb_connect. exact G1.
  - slsimp. rewrite F1 by lia. unfold s12. slsimp. rewrite F10 by lia. unfold t9. slsimp. rewrite ?N3. slsimp. rewrite ?S3 by lia. slsimp. reflexivity.
  - intros c Hc' Hne. slsimp. rewrite F1 by lia. unfold s12. slsimp. rewrite F10 by lia. unfold t9. slsimp. rewrite ?N3. slsimp. rewrite ?S3 by lia. slsimp. reflexivity.
Qed.


(* a statement whose header goes to a fresh block [next s] entered from the current block *)
Lemma G_entry s n e : gb s ->
  let t3 := add_stmt (connect (nb s) (cur s) (next s) ENormal) (next s) (mk n e KOther) in
  gb t3 /\ next t3 = N.succ (next s) /\ (forall c, c <> next s -> sl t3 c = sl (nb s) c) /\ sl t3 (next s) = [mk n e KOther].
Proof.
  intros G t3. assert (Gc : gb (connect (nb s) (cur s) (next s) ENormal)) by (apply gb_connect, gb_nb; exact G).
  split; [|split; [reflexivity|split]].
  - apply gb_add; [exact Gc|autorewrite with bst; lia|]. slsimp. discriminate.
  - intros c Hne. unfold t3. rewrite (sl_add _ (next s) _ _ Gc) by (autorewrite with bst; lia). rewrite (proj2 (N.eqb_neq c (next s)) Hne). reflexivity.
  - unfold t3. rewrite (sl_add _ (next s) _ _ Gc) by (autorewrite with bst; lia). slsimp. reflexivity.
Qed.

Lemma G_with k b : G_block b -> G_stmt (With k b).
Proof.
  intros Gb n s Gi. cbn [rn_stmt]. pose proof (Gb (N.succ n)) as Gb'. destruct (rn_block (N.succ n) b) as [b' n1].
  cbn [fst snd] in *. pose proof Gi as (G & Hc & Hl).
  cbn beta iota delta [process_stmt'] fix match. peel_all ident:(p). bsimp.
  set (e := end_stmt (With n b')) in *.
  destruct (G_entry s n e G) as (G3 & N3 & S3 & _). set (t3 := add_stmt (connect (nb s) (cur s) (next s) ENormal) (next s) (mk n e KOther)) in *.
  match type of Es8p with _ = process_block' (set_cur ?t _) _ => set (t7 := t) in * end.
  assert (G7 : gb t7) by (unfold t7; apply gb_connect, gb_nb, gb_nb, gb_nb; exact G3).
  assert (N7 : next t7 = N.succ (N.succ (N.succ (N.succ (next s))))) by reflexivity.
  destruct (G_sub' t7 (N.succ (next s)) (N.succ n) b' n1 Gb' G7) as (Gi8 & N8 & C8 & F8); [lia|unfold t7; slsimp; rewrite ?N3; slsimp; rewrite ?S3 by lia; slsimp; discriminate|].
  rewrite <- Es8p in *. rewrite N7 in *. destruct Gi8 as (G8 & Hc8 & _).
  apply G_fin; autorewrite with bst; try lia.
  - repeat apply gb_connect. exact G8.
  - slsimp. rewrite F8 by lia. unfold t7. slsimp. rewrite ?N3. slsimp. rewrite ?S3 by lia. slsimp. reflexivity.
  - intros c Hc' Hne. slsimp. rewrite F8 by lia. unfold t7. slsimp. rewrite ?N3. slsimp. rewrite ?S3 by lia. slsimp. reflexivity.
Qed.

Lemma G_class k nm b : G_block b -> G_stmt (Class k nm b).
Proof.
  intros Gb n s Gi. cbn [rn_stmt]. pose proof (Gb (N.succ n)) as Gb'. destruct (rn_block (N.succ n) b) as [b' n1].
  cbn [fst snd] in *. pose proof Gi as (G & Hc & Hl).
  cbn beta iota delta [process_stmt'] fix match. peel_all ident:(p). bsimp.
  set (e := end_stmt (Class n nm b')) in *.
  destruct (G_entry s n e G) as (G3 & N3 & S3 & S3').
  set (t3 := add_stmt (connect (nb s) (cur s) (next s) ENormal) (next s) (mk n e KOther)) in *.
  change (add_stmt (set_cur (connect (nb s) (cur s) (next s) ENormal) (next s)) (next s) (mk n e KOther)) with (set_cur t3 (next s)).
  destruct (G_sub' t3 (next s) (N.succ n) b' n1 Gb' G3) as (Gi' & N' & C' & F'); [lia| |].
  { rewrite S3'. cbn [lastb last]. intros y Hy. inversion Hy; subst. cbn [mk b_end]. unfold e. cbn [end_stmt]. lia. }
  rewrite N3 in *. split; [exact Gi'|]. split; [lia|]. split; [right; destruct C' as [->|C']; lia|].
  intros c Hc' Hne. rewrite F' by lia. rewrite S3 by lia. slsimp. reflexivity.
Qed.

Definition G_cases (a0 : arms) : Prop := forall n s mb merge, gb s ->
  let s' := process_cases' s (fst (rn_arms n a0)) mb merge in
  gb s' /\ next s <= next s' /\ (forall b, b < next s -> sl s' b = sl s b).

Lemma G_cases_nil : G_cases ANil.
Proof. intros n s mb merge G. cbn. split; [exact G|]. split; [lia|reflexivity]. Qed.

Lemma G_cases_cons k b r : G_block b -> G_cases r -> G_cases (ACons k b r).
Proof.
  intros Gb Gr n s mb merge G. cbn [rn_arms]. pose proof (Gb (N.succ n)) as Gb'. destruct (rn_block (N.succ n) b) as [b' n1].
  pose proof (Gr n1) as Gr'. destruct (rn_arms n1 r) as [r' n2]. cbn [fst snd] in *. cbv zeta.
  cbn beta iota delta [process_cases'] fix match. peel_all ident:(p). bsimp.
  set (X := mk n (N.max n (end_block b')) KOther) in *.
  set (t := add_stmt (connect (nb s) mb (next s) ECondTrue) (next s) X).
  change (s4p = process_block' (set_cur t (next s)) b') in Es4p.
  assert (Gc : gb (connect (nb s) mb (next s) ECondTrue)) by (apply gb_connect, gb_nb; exact G).
  assert (Gt : gb t) by (apply gb_add; [exact Gc|autorewrite with bst; lia|slsimp; discriminate]).
  assert (Nt : next t = N.succ (next s)) by reflexivity.
  destruct (G_sub' t (next s) (N.succ n) b' n1 Gb' Gt) as (Gi4 & N4 & C4 & F4); [lia| |].
  { unfold t. rewrite (sl_add _ (next s) _ _ Gc) by (autorewrite with bst; lia). slsimp. cbn [lastb last].
    intros y Hy. inversion Hy; subst. cbn [X mk b_end]. lia. }
  rewrite <- Es4p in *. rewrite Nt in *. destruct Gi4 as (G4 & Hc4 & _).
  destruct (Gr' (connect s4p (cur s4p) merge ENormal) mb merge) as (G' & N' & F'); [apply gb_connect; exact G4|].
  autorewrite with bst in *. split; [exact G'|]. split; [lia|].
  intros c Hc. rewrite F' by lia. slsimp. rewrite F4 by lia. unfold t. rewrite (sl_add _ (next s) _ _ Gc) by (autorewrite with bst; lia). slsimp. reflexivity.
Qed.

Lemma G_match k a : G_cases a -> G_stmt (Match k a).
Proof.
  intros Ga n s Gi. cbn [rn_stmt]. pose proof (Ga (N.succ n)) as Ga'. destruct (rn_arms (N.succ n) a) as [a' n1] eqn:Ea.
  cbn [fst snd] in *. pose proof Gi as (G & Hc & Hl).
  set (e := end_stmt (Match n a')).
  destruct (G_entry s n e G) as (G3 & N3 & S3 & _). set (t3 := add_stmt (connect (nb s) (cur s) (next s) ENormal) (next s) (mk n e KOther)) in *.
  set (ety0 := match a' with ANil => ENormal | _ => ECondFalse end).
  assert (Es : process_stmt' s (Match n a') =
               set_cur (connect (process_cases' (nb t3) a' (next s) (N.succ (next s))) (next s) (N.succ (next s)) ety0) (N.succ (next s))).
  { unfold ety0, t3, e. destruct a'; reflexivity. }
  rewrite Es. clear Es.
  destruct (Ga' (nb t3) (next s) (N.succ (next s))) as (G' & N' & F'); [apply gb_nb; exact G3|].
  autorewrite with bst in *. rewrite N3 in *.
  apply G_fin; autorewrite with bst; try lia.
  - apply gb_connect. exact G'.
  - slsimp. rewrite F' by lia. slsimp. rewrite ?N3. slsimp. reflexivity.
  - intros c Hc' Hne. slsimp. rewrite F' by lia. slsimp. rewrite ?N3. slsimp. rewrite S3 by lia. slsimp. reflexivity.
Qed.

(* a statement added to an empty block *)
Lemma gb_add_empty s b x : gb s -> b < next s -> sl s b = [] -> gb (add_stmt s b x).
Proof. intros G Hb He. apply gb_add; [exact G|exact Hb|]. rewrite He. discriminate. Qed.

Lemma sl_add_other s b x c : gb s -> b < next s -> c <> b -> sl (add_stmt s b x) c = sl s c.
Proof. intros G Hb Hne. rewrite (sl_add s b x c G Hb). rewrite (proj2 (N.eqb_neq c b) Hne). reflexivity. Qed.

Lemma G_comp_clauses k cl : forall s prev, gb s ->
  let r := comp_clauses s k cl prev in
  gb (snd r) /\ next s <= next (snd r) /\ (forall c, c < next s -> sl (snd r) c = sl s c).
Proof.
  induction cl as [|nifs cl IH]; intros s prev G.
  - cbn. split; [exact G|]. split; [lia|reflexivity].
  - cbn [comp_clauses]. nbs. cbv zeta.
    set (X := mk k k KOther).
    assert (G1 : gb (add_stmt (connect (nb s) prev (next s) ENormal) (next s) X)).
    { apply gb_add_empty; [apply gb_connect, gb_nb; exact G|autorewrite with bst; lia|slsimp; reflexivity]. }
    set (s5 := connect (nb (add_stmt (connect (nb s) prev (next s) ENormal) (next s) X)) (next s) (N.succ (next s)) ECondTrue).
    assert (G5 : gb s5) by (apply gb_connect, gb_nb; exact G1).
    assert (N5 : next s5 = N.succ (N.succ (next s))) by reflexivity.
    assert (S5 : forall c, c < next s -> sl s5 c = sl s c).
    { intros c Hc. unfold s5. slsimp. rewrite sl_add_other; [slsimp; reflexivity|apply gb_connect, gb_nb; exact G|autorewrite with bst; lia|lia]. }
    assert (S5b : sl s5 (N.succ (next s)) = []).
    { unfold s5. slsimp. reflexivity. }
    set (s6 := if Nat.ltb 0 nifs
               then connect (add_stmt (connect (connect (nb (add_stmt (connect (nb s5) (N.succ (next s)) (next s5) ENormal) (next s5) X))
                                   (next s5) (N.succ (next s5)) ECondTrue) (next s5) (next s) ECondFalse) (N.succ (next s5)) X)
                            (N.succ (next s5)) (next s) ELoop
               else connect (connect (nb (add_stmt s5 (N.succ (next s)) X)) (N.succ (next s)) (next s5) ENormal) (next s5) (next s) ELoop).
    match goal with |- context [comp_clauses ?t k cl (next s)] => replace t with s6 by (unfold s6, s5; destruct (Nat.ltb 0 nifs); reflexivity) end.
    assert (H6 : gb s6 /\ next s5 <= next s6 /\ (forall c, c < next s -> sl s6 c = sl s c)).
    { unfold s6. destruct (Nat.ltb 0 nifs).
      - rewrite N5.
        assert (Ga : gb (add_stmt (connect (nb s5) (N.succ (next s)) (N.succ (N.succ (next s))) ENormal) (N.succ (N.succ (next s))) X)).
        { apply gb_add_empty; [apply gb_connect, gb_nb; exact G5|autorewrite with bst; lia|slsimp; rewrite ?N5; slsimp; reflexivity]. }
        split; [|split].
        + apply gb_connect. apply gb_add_empty; [apply gb_connect, gb_connect, gb_nb; exact Ga|autorewrite with bst; lia|].
          slsimp. rewrite ?N5. slsimp. try reflexivity.
        + autorewrite with bst. lia.
        + intros c Hc. slsimp. rewrite sl_add_other; [|apply gb_connect, gb_connect, gb_nb; exact Ga|autorewrite with bst; lia|lia].
          slsimp. rewrite sl_add_other; [|apply gb_connect, gb_nb; exact G5|autorewrite with bst; lia|lia]. slsimp. rewrite ?N5. slsimp. apply S5. exact Hc.
      - assert (Ga : gb (add_stmt s5 (N.succ (next s)) X)) by (apply gb_add_empty; [exact G5|lia|exact S5b]).
        split; [|split].
        + apply gb_connect, gb_connect, gb_nb. exact Ga.
        + autorewrite with bst. lia.
        + intros c Hc. slsimp. rewrite ?N5. slsimp. rewrite sl_add_other; [apply S5; exact Hc|exact G5|lia|lia]. }
    destruct H6 as (G6 & N6 & S6). clearbody s6.
    destruct (IH s6 (next s) G6) as (G' & N' & S'). split; [exact G'|]. split; [lia|].
    intros c Hc. rewrite S' by lia. apply S6. exact Hc.
Qed.

Lemma G_comp k cl : G_stmt (Comp k cl).
Proof.
  intros n s Gi. cbn [rn_stmt fst snd process_stmt']. unfold process_comp. nbs. cbv zeta. autorewrite with bst.
  pose proof Gi as (G & Hc & Hl). set (X := mk n n KOther).
  destruct (G_entry s n n G) as (G3 & N3 & S3 & _). fold X in G3, N3, S3.
  set (t3 := add_stmt (connect (nb s) (cur s) (next s) ENormal) (next s) X) in *.
  destruct (G_comp_clauses n cl (nb t3) (next s)) as (G5 & N5 & S5); [apply gb_nb; exact G3|].
  destruct (comp_clauses (nb t3) n cl (next s)) as [lastc s5]. cbn [fst snd] in *. autorewrite with bst in N5, S5. rewrite N3 in *.
  match goal with |- G_out _ (add_stmt (set_cur ?t _) _ _) _ => set (s6 := t) end.
  assert (G6 : gb s6) by (unfold s6; destruct (N.eqb lastc (next s)); apply gb_connect; exact G5).
  assert (N6 : next s6 = next s5) by (unfold s6; destruct (N.eqb lastc (next s)); reflexivity).
  assert (S6 : forall c, sl s6 c = sl s5 c) by (intro c; unfold s6; destruct (N.eqb lastc (next s)); reflexivity).
  assert (Sex : sl s6 (N.succ (next s)) = []) by (rewrite S6, S5 by lia; slsimp; rewrite ?N3; slsimp; reflexivity).
  assert (G7 : gb (add_stmt (set_cur s6 (N.succ (next s))) (N.succ (next s)) X)).
  { apply gb_add_empty; [apply gb_set_cur; exact G6|autorewrite with bst; lia|slsimp; exact Sex]. }
  split; [|split; [autorewrite with bst; lia|split; [right; autorewrite with bst; lia|]]].
  - split; [exact G7|]. split; [autorewrite with bst; lia|]. autorewrite with bst.
    rewrite (sl_add (set_cur s6 (N.succ (next s))) _ _ _ (gb_set_cur _ _ G6)) by (autorewrite with bst; lia). slsimp. rewrite Sex. cbn [app lastb last].
    intros y Hy. inversion Hy; subst. cbn [X mk b_end]. lia.
  - intros c Hc' Hne. rewrite sl_add_other; [|apply gb_set_cur; exact G6|autorewrite with bst; lia|lia]. slsimp. rewrite S6, S5 by lia.
    slsimp. rewrite ?N3. slsimp. rewrite S3 by lia. slsimp. reflexivity.
Qed.

Lemma sp_next s p : next (set_processing s p) = next s.
Proof. unfold set_processing. destruct (excs s); reflexivity. Qed.
Lemma sp_cur s p : cur (set_processing s p) = cur s.
Proof. unfold set_processing. destruct (excs s); reflexivity. Qed.
Global Hint Rewrite sp_next sp_cur : bst.

Lemma sl_nb_gb s c : gb s -> sl (nb s) c = sl s c.
Proof. intro G. rewrite sl_nb'. destruct (N.eqb_spec c (next s)) as [->|Hne]; [symmetry; apply sl_fresh; [exact G|lia]|reflexivity]. Qed.

Lemma G_new_blocks n : forall s, gb s ->
  let r := new_blocks s n in
  gb (snd r) /\ next (snd r) = next s + N.of_nat n /\ NoDup (fst r) /\
  (forall h, In h (fst r) <-> next s <= h < next s + N.of_nat n) /\ (forall c, sl (snd r) c = sl s c).
Proof.
  induction n as [|n IH]; intros s G.
  - cbn. split; [exact G|]. split; [lia|]. split; [constructor|]. split; [intro h; lia|reflexivity].
  - cbn [new_blocks]. rewrite new_block_eq. destruct (IH (nb s) (gb_nb _ G)) as (I1 & I2 & I3 & I4 & I5).
    destruct (new_blocks (nb s) n) as [l s2]. cbn [fst snd] in *. autorewrite with bst in *.
    split; [exact I1|]. split; [lia|]. split; [constructor; [intro Hin; apply I4 in Hin; lia|exact I3]|]. split.
    + intro h. split; [intros [<-|Hin]; [lia|apply I4 in Hin; lia]|].
      intros (H1 & H2). destruct (N.eq_dec h (next s)) as [->|Hne]; [left; reflexivity|right; apply I4; lia].
    + intro c. rewrite I5. apply sl_nb_gb. exact G.
Qed.

Definition G_handlers (a0 : arms) : Prop := forall n s hbs nxt, gb s -> NoDup hbs ->
  (forall h, In h hbs -> h < next s /\ sl s h = []) ->
  let s' := process_handlers' s (fst (rn_arms n a0)) hbs nxt in
  gb s' /\ next s <= next s' /\ (forall c, c < next s -> ~ In c hbs -> sl s' c = sl s c).

Lemma G_handlers_nil : G_handlers ANil.
Proof. intros n s hbs nxt G _ _. cbn. split; [exact G|]. split; [lia|reflexivity]. Qed.

Lemma G_handlers_cons k b r : G_block b -> G_handlers r -> G_handlers (ACons k b r).
Proof.
  intros Gb Gr n s hbs nxt G ND Hh. cbn [rn_arms]. pose proof (Gb (N.succ n)) as Gb'. destruct (rn_block (N.succ n) b) as [b' n1].
  pose proof (Gr n1) as Gr'. destruct (rn_arms n1 r) as [r' n2]. cbn [fst snd] in *. cbv zeta.
  destruct hbs as [|hb hbr]; [cbn; split; [exact G|split; [lia|reflexivity]]|].
  destruct (Hh hb (or_introl eq_refl)) as (Hb1 & Hb2). inversion ND as [|? ? Hnin ND']; subst.
  cbn beta iota delta [process_handlers'] fix match. peel_all ident:(p). bsimp.
  set (X := mk n (N.max n (end_block b')) KOther) in *.
  set (t := add_stmt s hb X).
  change (s2p = process_block' (set_cur t hb) b') in Es2p.
  assert (Gt : gb t) by (apply gb_add_empty; assumption).
  destruct (G_sub' t hb (N.succ n) b' n1 Gb' Gt) as (Gi2 & N2 & C2 & F2); [exact Hb1| |].
  { unfold t. rewrite (sl_add s hb _ _ G Hb1), N.eqb_refl, Hb2. cbn [app lastb last]. intros y Hy. inversion Hy; subst. cbn [X mk b_end]. lia. }
  rewrite <- Es2p in *. assert (Nt : next t = next s) by reflexivity. rewrite Nt in *. destruct Gi2 as (G2 & Hc2 & _).
  destruct (Gr' (connect s2p (cur s2p) nxt ENormal) hbr nxt) as (G' & N' & F'); [apply gb_connect; exact G2|exact ND'| |].
  { intros h Hin. destruct (Hh h (or_intror Hin)) as (Q1 & Q2). autorewrite with bst. split; [lia|]. slsimp. rewrite F2; [|lia|intros ->; exact (Hnin Hin)].
    unfold t. rewrite sl_add_other; [exact Q2|exact G|exact Hb1|intros ->; exact (Hnin Hin)]. }
  autorewrite with bst in *. split; [exact G'|]. split; [lia|].
  intros c Hc Hnc. rewrite F'; [|lia|intro Hin; apply Hnc; right; exact Hin]. slsimp. rewrite F2; [|lia|intros ->; apply Hnc; left; reflexivity].
  unfold t. apply sl_add_other; [exact G|exact Hb1|intros ->; apply Hnc; left; reflexivity].
Qed.

(* ---- try: common parts ---- *)
Lemma G_try_body t7 tryb hbs nat afe m b' n1 hs0 :
  (forall s, ginv s m -> G_out s (process_block' s b') n1) -> G_handlers hs0 -> gb t7 ->
  tryb < next t7 -> sl t7 tryb = [] -> NoDup hbs -> (forall h, In h hbs -> h < next t7 /\ h <> tryb /\ sl t7 h = []) ->
  let s8 := process_block' (set_cur t7 tryb) b' in
  let s11 := process_handlers' (connect_all (connect s8 (cur s8) nat ENormal) tryb hbs EException) (fst (rn_arms n1 hs0)) hbs afe in
  gb s11 /\ next t7 <= next s11 /\ (forall c, c < next t7 -> c <> tryb -> ~ In c hbs -> sl s11 c = sl t7 c).
Proof.
  intros Gb Gh G Ht He ND Hh s8 s11.
  destruct (G_sub' t7 tryb m b' n1 Gb G Ht) as (Gi8 & N8 & C8 & F8); [rewrite He; discriminate|]. fold s8 in Gi8, N8, C8, F8.
  destruct Gi8 as (G8 & _).
  destruct (Gh n1 (connect_all (connect s8 (cur s8) nat ENormal) tryb hbs EException) hbs afe) as (G11 & N11 & F11).
  - apply gb_connect_all, gb_connect. exact G8.
  - exact ND.
  - intros h Hin. destruct (Hh h Hin) as (Q1 & Q2 & Q3). autorewrite with bst. split; [lia|]. slsimp. rewrite F8 by assumption. exact Q3.
  - fold s11 in G11, N11, F11. autorewrite with bst in N11, F11. split; [exact G11|]. split; [lia|].
    intros c Hc Hn1 Hn2. rewrite F11 by (try lia; assumption). slsimp. apply F8; assumption.
Qed.

Lemma G_try_else s11 elseb afe m eb' n1 :
  (forall s, ginv s m -> G_out s (process_block' s eb') n1) -> gb s11 -> elseb < next s11 -> sl s11 elseb = [] ->
  let t1 := process_block' (set_cur s11 elseb) eb' in
  let s12 := connect t1 (cur t1) afe ENormal in
  gb s12 /\ next s11 <= next s12 /\ (forall c, c < next s11 -> c <> elseb -> sl s12 c = sl s11 c).
Proof.
  intros Ge G He Hs t1 s12. destruct (G_sub' s11 elseb m eb' n1 Ge G He) as (Gi & N1 & C1 & F1); [rewrite Hs; discriminate|].
  fold t1 in Gi, N1, C1, F1. destruct Gi as (G1 & _). split; [apply gb_connect; exact G1|]. split; [exact N1|].
  intros c Hc Hne. unfold s12. slsimp. apply F1; assumption.
Qed.

Lemma G_try_fin s12 f exitb m fb' n1 :
  (forall s, ginv s m -> G_out s (process_block' s fb') n1) -> gb s12 -> f < next s12 -> sl s12 f = [] ->
  let t2 := process_block' (set_processing (set_cur s12 f) true) fb' in
  let t3 := set_processing t2 false in
  let sF := fin_prop (connect t3 (cur t2) exitb ENormal) f in
  gb sF /\ next s12 <= next sF /\ (forall c, c < next s12 -> c <> f -> sl sF c = sl s12 c).
Proof.
  intros Gf G Hf Hs t2 t3 sF. destruct (Gf (set_processing (set_cur s12 f) true)) as (Gi & N2 & C2 & F2).
  - split; [apply gb_set_processing, gb_set_cur; exact G|]. autorewrite with bst. split; [exact Hf|]. slsimp. rewrite Hs. discriminate.
  - fold t2 in Gi, N2, C2, F2. autorewrite with bst in N2, F2. destruct Gi as (G2 & _).
    split; [apply gb_fin_prop, gb_connect, gb_set_processing; exact G2|]. split; [unfold sF, t3; autorewrite with bst; exact N2|].
    intros c Hc Hne. unfold sF, t3. slsimp. rewrite F2 by assumption. slsimp. reflexivity.
Qed.

(* the blocks of a try statement: [t5] = after tryb, exitb (and f, elseb), then the handler blocks *)
Lemma G_try_setup s t5 n finb hbs s6 :
  gb s -> gb t5 -> (forall c, sl t5 c = sl s c) -> next s <= next t5 -> new_blocks t5 n = (hbs, s6) ->
  let t7 := set_excs s6 ({| x_finally := finb; x_handlers := hbs; x_processing := false |} :: excs s6) in
  gb t7 /\ next t7 = next t5 + N.of_nat n /\ NoDup hbs /\ (forall h, In h hbs <-> next t5 <= h < next t7) /\
  (forall c, sl t7 c = sl s c) /\ (forall c, next s <= c -> sl t7 c = []).
Proof.
  intros G G5 S5 N5 Enb t7. pose proof (G_new_blocks n t5 G5) as H. rewrite Enb in H. cbn [fst snd] in H.
  destruct H as (I1 & I2 & I3 & I4 & I5). split; [apply gb_set_excs; exact I1|]. split; [exact I2|]. split; [exact I3|].
  split; [intro h; unfold t7; autorewrite with bst; rewrite I2; apply I4|].
  assert (S7 : forall c, sl t7 c = sl s c) by (intro c; unfold t7; slsimp; rewrite I5; apply S5).
  split; [exact S7|]. intros c Hc. rewrite S7. apply sl_fresh; assumption.
Qed.

Lemma G_try_nn k b hs : G_block b -> G_handlers hs -> G_stmt (Try k b hs ONone ONone).
Proof.
  intros Gb Gh n s Gi. cbn [rn_stmt rn_oblock]. pose proof (Gb (N.succ n)) as Gb'. destruct (rn_block (N.succ n) b) as [b' n1].
  pose proof (Gh) as Gh'. destruct (rn_arms n1 hs) as [hs' n2] eqn:Eh.
  cbn [fst snd] in *. pose proof Gi as (G & Hc & Hl).
  open_try'. bsimp.
  set (t5 := nb (connect (nb s) (cur s) (next s) ENormal)) in *.
  assert (G5 : gb t5) by (apply gb_nb, gb_connect, gb_nb; exact G).
  assert (S5 : forall c, sl t5 c = sl s c).
  { intro c. unfold t5. rewrite sl_nb_gb by (apply gb_connect, gb_nb; exact G). rewrite sl_connect. apply sl_nb_gb. exact G. }
  assert (N5 : next t5 = N.succ (N.succ (next s))) by reflexivity.
  destruct (G_try_setup s t5 (arms_length hs') None hbs s6 G G5 S5) as (G7 & N7 & ND & Hh & S7 & S7'); [rewrite N5; lia|exact Enb|].
  set (t7 := set_excs s6 ({| x_finally := None; x_handlers := hbs; x_processing := false |} :: excs s6)) in *. rewrite N5 in *.
  subst s8p. replace hs' with (fst (rn_arms n1 hs)) in Es11p by (rewrite Eh; reflexivity).
  destruct (G_try_body t7 (next s) hbs (N.succ (next s)) (N.succ (next s)) (N.succ n) b' n1 hs Gb' Gh G7) as (G11 & N11 & F11); try assumption; try lia.
  { apply S7'. lia. }
  { intros h Hin. apply Hh in Hin. split; [lia|]. split; [lia|apply S7'; lia]. }
  cbv zeta in G11, N11, F11. rewrite <- Es11p in *.
  apply G_fin; autorewrite with bst; try lia.
  - apply gb_set_excs. exact G11.
  - slsimp. rewrite F11; [apply S7'; lia|lia|lia|]. intro Hin. apply Hh in Hin. lia.
  - intros c Hc' Hne. slsimp. rewrite F11; [apply S7|lia|lia|]. intro Hin. apply Hh in Hin. lia.
Qed.

Lemma G_try_sn k b hs eb : G_block b -> G_handlers hs -> G_block eb -> G_stmt (Try k b hs (OSome eb) ONone).
Proof.
  intros Gb Gh Ge n s Gi. cbn [rn_stmt rn_oblock]. pose proof (Gb (N.succ n)) as Gb'. destruct (rn_block (N.succ n) b) as [b' n1].
  destruct (rn_arms n1 hs) as [hs' n2] eqn:Eh. pose proof (Ge n2) as Ge'. destruct (rn_block n2 eb) as [eb' n3].
  cbn [fst snd] in *. pose proof Gi as (G & Hc & Hl).
  open_try'. bsimp.
  set (t5 := nb (nb (connect (nb s) (cur s) (next s) ENormal))) in *.
  assert (G5 : gb t5) by (apply gb_nb, gb_nb, gb_connect, gb_nb; exact G).
  assert (S5 : forall c, sl t5 c = sl s c).
  { intro c. unfold t5. rewrite !sl_nb_gb by (repeat first [apply gb_nb | apply gb_connect]; exact G). rewrite sl_connect. apply sl_nb_gb. exact G. }
  assert (N5 : next t5 = N.succ (N.succ (N.succ (next s)))) by reflexivity.
  destruct (G_try_setup s t5 (arms_length hs') None hbs s6 G G5 S5) as (G7 & N7 & ND & Hh & S7 & S7'); [rewrite N5; lia|exact Enb|].
  set (t7 := set_excs s6 ({| x_finally := None; x_handlers := hbs; x_processing := false |} :: excs s6)) in *. rewrite N5 in *.
  subst s8p. replace hs' with (fst (rn_arms n1 hs)) in Es11p by (rewrite Eh; reflexivity).
  destruct (G_try_body t7 (next s) hbs (N.succ (N.succ (next s))) (N.succ (next s)) (N.succ n) b' n1 hs Gb' Gh G7) as (G11 & N11 & F11); try assumption; try lia.
  { apply S7'. lia. }
  { intros h Hin. apply Hh in Hin. split; [lia|]. split; [lia|apply S7'; lia]. }
  cbv zeta in G11, N11, F11. rewrite <- Es11p in *.
  destruct (G_try_else s11p (N.succ (N.succ (next s))) (N.succ (next s)) n2 eb' n3 Ge' G11) as (G12 & N12 & F12); [lia| |].
  { rewrite F11; [apply S7'; lia|lia|lia|]. intro Hin. apply Hh in Hin. lia. }
  cbv zeta in G12, N12, F12. rewrite <- Et1p in *. autorewrite with bst in N12.
  assert (F12' : forall c, c < next s11p -> c <> N.succ (N.succ (next s)) -> sl t1p c = sl s11p c) by (intros c Q1 Q2; rewrite <- (F12 c Q1 Q2); reflexivity).
  apply G_fin; autorewrite with bst; try lia.
  - apply gb_set_excs. exact G12.
  - slsimp.
    rewrite F12' by lia. rewrite F11; [apply S7'; lia|lia|lia|]. intro Hin. apply Hh in Hin. lia.
  - intros c Hc' Hne. slsimp.
    rewrite F12' by lia. rewrite F11; [apply S7|lia|lia|]. intro Hin. apply Hh in Hin. lia.
Qed.

Lemma G_try_ns k b hs fb : G_block b -> G_handlers hs -> G_block fb -> G_stmt (Try k b hs ONone (OSome fb)).
Proof.
  intros Gb Gh Gf n s Gi. cbn [rn_stmt rn_oblock]. pose proof (Gb (N.succ n)) as Gb'. destruct (rn_block (N.succ n) b) as [b' n1].
  destruct (rn_arms n1 hs) as [hs' n2] eqn:Eh. pose proof (Gf n2) as Gf'. destruct (rn_block n2 fb) as [fb' n3].
  cbn [fst snd] in *. pose proof Gi as (G & Hc & Hl).
  open_try'. bsimp.
  set (f := N.succ (N.succ (next s))) in *.
  set (t5 := nb (nb (connect (nb s) (cur s) (next s) ENormal))) in *.
  assert (G5 : gb t5) by (apply gb_nb, gb_nb, gb_connect, gb_nb; exact G).
  assert (S5 : forall c, sl t5 c = sl s c).
  { intro c. unfold t5. rewrite !sl_nb_gb by (repeat first [apply gb_nb | apply gb_connect]; exact G). rewrite sl_connect. apply sl_nb_gb. exact G. }
  assert (N5 : next t5 = N.succ (N.succ (N.succ (next s)))) by reflexivity.
  destruct (G_try_setup s t5 (arms_length hs') (Some f) hbs s6 G G5 S5) as (G7 & N7 & ND & Hh & S7 & S7'); [rewrite N5; lia|exact Enb|].
  set (t7 := set_excs s6 ({| x_finally := Some f; x_handlers := hbs; x_processing := false |} :: excs s6)) in *. rewrite N5 in *.
  subst s8p. replace hs' with (fst (rn_arms n1 hs)) in Es11p by (rewrite Eh; reflexivity).
  destruct (G_try_body t7 (next s) hbs f f (N.succ n) b' n1 hs Gb' Gh G7) as (G11 & N11 & F11); try assumption; try lia.
  { apply S7'. lia. }
  { intros h Hin. apply Hh in Hin. split; [lia|]. split; [lia|apply S7'; lia]. }
  cbv zeta in G11, N11, F11. rewrite <- Es11p in *.
  destruct (G_try_fin s11p f (N.succ (next s)) n2 fb' n3 Gf' G11) as (GF & NF & FF); [unfold f; lia| |].
  { rewrite F11; [apply S7'; unfold f; lia|unfold f; lia|unfold f; lia|]. intro Hin. apply Hh in Hin. unfold f in Hin. lia. }
  cbv zeta in GF, NF, FF. rewrite <- Et2p in *. autorewrite with bst in NF.
  assert (FF' : forall c, c < next s11p -> c <> f -> sl t2p c = sl s11p c) by (intros c Q1 Q2; rewrite <- (FF c Q1 Q2); slsimp; reflexivity).
  apply G_fin; autorewrite with bst; try lia.
  - apply gb_set_excs. exact GF.
  - slsimp. rewrite FF' by (unfold f; lia). rewrite F11; [apply S7'; lia|lia|lia|]. intro Hin. apply Hh in Hin. lia.
  - intros c Hc' Hne. slsimp. rewrite FF' by (unfold f; lia). rewrite F11; [apply S7|lia|lia|]. intro Hin. apply Hh in Hin. lia.
Qed.

Lemma G_try_ss k b hs eb fb : G_block b -> G_handlers hs -> G_block eb -> G_block fb -> G_stmt (Try k b hs (OSome eb) (OSome fb)).
Proof.
  intros Gb Gh Ge Gf n s Gi. cbn [rn_stmt rn_oblock]. pose proof (Gb (N.succ n)) as Gb'. destruct (rn_block (N.succ n) b) as [b' n1].
  destruct (rn_arms n1 hs) as [hs' n2] eqn:Eh. pose proof (Ge n2) as Ge'. destruct (rn_block n2 eb) as [eb' n3].
  pose proof (Gf n3) as Gf'. destruct (rn_block n3 fb) as [fb' n4].
  cbn [fst snd] in *. pose proof Gi as (G & Hc & Hl).
  cbn beta iota delta [process_stmt'] fix match. peel_all ident:(p).
  match goal with |- context [new_blocks ?t ?n] => destruct (new_blocks t n) as [hbs s6] eqn:Enb end.
  cbv beta iota. repeat peel_step_fin2 ident:(p) (N.succ (N.succ (next s))). bsimp.
  set (f := N.succ (N.succ (next s))) in *. set (elseb := N.succ f) in *.
  set (t5 := nb (nb (nb (connect (nb s) (cur s) (next s) ENormal)))) in *.
  assert (G5 : gb t5) by (apply gb_nb, gb_nb, gb_nb, gb_connect, gb_nb; exact G).
  assert (S5 : forall c, sl t5 c = sl s c).
  { intro c. unfold t5. rewrite !sl_nb_gb by (repeat first [apply gb_nb | apply gb_connect]; exact G). rewrite sl_connect. apply sl_nb_gb. exact G. }
  assert (N5 : next t5 = N.succ (N.succ (N.succ (N.succ (next s))))) by reflexivity.
  destruct (G_try_setup s t5 (arms_length hs') (Some f) hbs s6 G G5 S5) as (G7 & N7 & ND & Hh & S7 & S7'); [rewrite N5; lia|exact Enb|].
  set (t7 := set_excs s6 ({| x_finally := Some f; x_handlers := hbs; x_processing := false |} :: excs s6)) in *. rewrite N5 in *.
  subst s8p. replace hs' with (fst (rn_arms n1 hs)) in Es11p by (rewrite Eh; reflexivity).
  destruct (G_try_body t7 (next s) hbs elseb f (N.succ n) b' n1 hs Gb' Gh G7) as (G11 & N11 & F11); try assumption; try lia.
  { apply S7'. lia. }
  { intros h Hin. apply Hh in Hin. split; [lia|]. split; [lia|apply S7'; lia]. }
  cbv zeta in G11, N11, F11. rewrite <- Es11p in *.
  destruct (G_try_else s11p elseb f n2 eb' n3 Ge' G11) as (G12 & N12 & F12); [unfold elseb, f; lia| |].
  { rewrite F11; [apply S7'; unfold elseb, f; lia|unfold elseb, f; lia|unfold elseb, f; lia|]. intro Hin. apply Hh in Hin. unfold elseb, f in Hin. lia. }
  cbv zeta in G12, N12, F12. rewrite <- Et1p in *. autorewrite with slr in F12.
  set (s12 := connect t1p (cur t1p) f ENormal) in *.
  destruct (G_try_fin s12 f (N.succ (next s)) n3 fb' n4 Gf' G12) as (GF & NF & FF); [unfold f; lia| |].
  { rewrite F12 by (unfold elseb, f; lia). rewrite F11; [apply S7'; unfold f; lia|unfold f; lia|unfold f; lia|]. intro Hin. apply Hh in Hin. unfold f in Hin. lia. }
  cbv zeta in GF, NF, FF. rewrite <- Et2p in *. autorewrite with bst in NF.
  assert (FF' : forall c, c < next s12 -> c <> f -> sl t2p c = sl s12 c) by (intros c Q1 Q2; rewrite <- (FF c Q1 Q2); slsimp; reflexivity).
  apply G_fin; autorewrite with bst; try lia.
  - apply gb_set_excs. exact GF.
  - slsimp. rewrite FF' by (unfold f; lia). rewrite F12 by (unfold elseb, f; lia). rewrite F11; [apply S7'; lia|lia|lia|]. intro Hin. apply Hh in Hin. lia.
  - intros c Hc' Hne. slsimp. rewrite FF' by (unfold f; lia). rewrite F12 by (unfold elseb, f; lia). rewrite F11; [apply S7|lia|lia|]. intro Hin. apply Hh in Hin. lia.
Qed.

Definition G_arms (a : arms) : Prop := G_elif a /\ G_handlers a /\ G_cases a.

Lemma G_elif_nil : G_elif ANil.
Proof. intros els0 n merge s _ _ _ _ H. exfalso. apply H. reflexivity. Qed.

Theorem G_all :
  (forall x, G_stmt x) /\ (forall b, G_block b) /\ (forall a, G_arms a) /\ (forall o, G_oblock o).
Proof.
  apply ast_mutind.
  - exact G_simple.
  - exact G_pass.
  - exact G_return.
  - exact G_raise.
  - exact G_break.
  - exact G_continue.
  - intros k b Gb elifs Ga els Ge. destruct elifs as [|k1 b1 rest].
    + destruct els as [|eb]; [apply G_if_nil_none; exact Gb|apply G_if_nil_some; [exact Gb|exact Ge]].
    + apply G_if_elif; [exact Gb|apply Ga|exact Ge].
  - intros k b Gb els Ge. destruct els as [|eb]; [apply G_while_none; exact Gb|apply G_while_some; [exact Gb|exact Ge]].
  - intros k b Gb els Ge. destruct els as [|eb]; [apply G_for_none; exact Gb|apply G_for_some; [exact Gb|exact Ge]].
  - intros k b Gb hs Gh els Ge fin Gf. destruct Gh as (_ & Gh & _). destruct els as [|eb]; destruct fin as [|fb].
    + apply G_try_nn; assumption.
    + apply G_try_ns; assumption.
    + apply G_try_sn; assumption.
    + apply G_try_ss; assumption.
  - intros k b Gb. apply G_with; exact Gb.
  - intros k a Ga. apply G_match. apply Ga.
  - intros k cl. apply G_comp.
  - intros k nm b _. apply G_def.
  - intros k nm b Gb. apply G_class; exact Gb.
  - exact G_block_nil.
  - intros x Gx b Gb. apply G_block_cons; assumption.
  - split; [exact G_elif_nil|split; [exact G_handlers_nil|exact G_cases_nil]].
  - intros k b Gb a (Ga1 & Ga2 & Ga3). split; [apply G_elif_cons; assumption|split; [apply G_handlers_cons; assumption|apply G_cases_cons; assumption]].
  - exact I.
  - intros b Gb. exact Gb.
Qed.

(* the range of a gap-free block is covered by the spans of its statements *)
Lemma gapfree_cover xs : forall x k, gapfree (x :: xs) -> b_start x <= k -> k <= b_end (last xs x) ->
  exists y, In y (x :: xs) /\ b_start y <= k /\ k <= b_end y.
Proof.
  induction xs as [|z r IH]; intros x k G H1 H2.
  - exists x. split; [left; reflexivity|]. split; [exact H1|exact H2].
  - cbn [gapfree] in G. destruct G as (G1 & G2). destruct (N.le_gt_cases k (b_end x)) as [Hle|Hgt].
    + exists x. split; [left; reflexivity|]. split; assumption.
    + rewrite last_cons in H2. destruct (IH z k G2) as (y & Hy & Q); [lia|exact H2|]. exists y. split; [right; exact Hy|exact Q].
Qed.
