(* The abstraction Cfg/Flow.v agrees with the graph-level model Cfg/Builder.v on every function body with at most
   [bound] statement nodes (exhaustive enumeration over all constructs, vm_compute):
   same dead statements, and the same complexity on the construct list of property C03. *)
From Coq Require Import NArith List Bool Arith.
From PV Require Import Py.PyAST Cfg.Flow Cfg.FlowSpec Cfg.Builder.
Import ListNotations.

(* ---- renumbering: statement ids 1,2,3,... in source order (arms ids included) ---- *)
Fixpoint rn_stmt (n : N) (s : stmt) {struct s} : stmt * N :=
  match s with
  | Simple _ => (Simple n, N.succ n) | Pass _ => (Pass n, N.succ n) | Return _ => (Return n, N.succ n)
  | Raise _ => (Raise n, N.succ n) | Break _ => (Break n, N.succ n) | Continue _ => (Continue n, N.succ n)
  | Comp _ cl => (Comp n cl, N.succ n)
  | If _ b a e => let (b', n1) := rn_block (N.succ n) b in let (a', n2) := rn_arms n1 a in let (e', n3) := rn_oblock n2 e in
                  (If n b' a' e', n3)
  | While _ b e => let (b', n1) := rn_block (N.succ n) b in let (e', n2) := rn_oblock n1 e in (While n b' e', n2)
  | For _ b e => let (b', n1) := rn_block (N.succ n) b in let (e', n2) := rn_oblock n1 e in (For n b' e', n2)
  | Try _ b h e f => let (b', n1) := rn_block (N.succ n) b in let (h', n2) := rn_arms n1 h in
                     let (e', n3) := rn_oblock n2 e in let (f', n4) := rn_oblock n3 f in (Try n b' h' e' f', n4)
  | With _ b => let (b', n1) := rn_block (N.succ n) b in (With n b', n1)
  | Match _ c => let (c', n1) := rn_arms (N.succ n) c in (Match n c', n1)
  | Def _ nm b => let (b', n1) := rn_block (N.succ n) b in (Def n nm b', n1)
  | Class _ nm b => let (b', n1) := rn_block (N.succ n) b in (Class n nm b', n1)
  end
with rn_block (n : N) (b : block) {struct b} : block * N :=
  match b with
  | BNil => (BNil, n)
  | BCons s b' => let (s', n1) := rn_stmt n s in let (b'', n2) := rn_block n1 b' in (BCons s' b'', n2)
  end
with rn_arms (n : N) (a : arms) {struct a} : arms * N :=
  match a with
  | ANil => (ANil, n)
  | ACons _ b a' => let (b', n1) := rn_block (N.succ n) b in let (a'', n2) := rn_arms n1 a' in (ACons n b' a'', n2)
  end
with rn_oblock (n : N) (o : oblock) {struct o} : oblock * N :=
  match o with ONone => (ONone, n) | OSome b => let (b', n1) := rn_block n b in (OSome b', n1) end.

Definition renumber (b : block) : block := fst (rn_block 1 b).

(* ids of elif tests (the converted If node has no source location in the builder) *)
Fixpoint elif_stmt (s : stmt) {struct s} : list N :=
  match s with
  | If _ b a e => elif_block b ++ map_arms_ids a ++ elif_arms a ++ elif_oblock e
  | While _ b e | For _ b e => elif_block b ++ elif_oblock e
  | Try _ b h e f => elif_block b ++ elif_arms h ++ elif_oblock e ++ elif_oblock f
  | With _ b => elif_block b
  | Match _ c => elif_arms c
  | Class _ _ b => elif_block b
  | _ => []
  end
with elif_block (b : block) {struct b} : list N :=
  match b with BNil => [] | BCons s b' => elif_stmt s ++ elif_block b' end
with elif_arms (a : arms) {struct a} : list N :=
  match a with ANil => [] | ACons _ b a' => elif_block b ++ elif_arms a' end
with map_arms_ids (a : arms) {struct a} : list N :=
  match a with ANil => [] | ACons k _ a' => k :: map_arms_ids a' end
with elif_oblock (o : oblock) {struct o} : list N :=
  match o with ONone => [] | OSome b => elif_block b end.

Definition mem (k : N) (l : list N) : bool := existsb (N.eqb k) l.

Definition agree_dead (b : block) : bool :=
  let g := build b in
  let bl := dead_stmt_lines g in
  let fl := dead_ids b in
  let el := elif_block b in
  forallb (fun k => N.eqb k 0 || mem k fl) bl && forallb (fun k => mem k bl || mem k el) fl.

Definition agree_cx (b : block) : bool :=
  if c03_block b then Nat.eqb (complexity_g (build b)) (complexity b) else true.

(* ---- enumeration of all bodies with a given number of statement nodes ---- *)
Definition splits2 (n : nat) : list (nat * nat) := map (fun i => (S i, n - S i)) (seq 0 (n - 1)).   (* a + b = n, a,b >= 1 *)

Fixpoint stmts_sz (fuel n : nat) {struct fuel} : list stmt :=
  match fuel with
  | O => []
  | S f =>
      match n with
      | O => []
      | 1 => [Simple 0; Return 0; Raise 0; Break 0; Continue 0; Comp 0 [1; 0]]
      | S m =>
          let bl := blocks_sz f in
          let one := bl m in
          let two := flat_map (fun ab => list_prod (bl (fst ab)) (bl (snd ab))) (splits2 m) in
          map (fun b => If 0 b ANil ONone) one ++
          map (fun p => If 0 (fst p) ANil (OSome (snd p))) two ++
          map (fun p => If 0 (fst p) (ACons 0 (snd p) ANil) ONone) two ++
          map (fun b => While 0 b ONone) one ++
          map (fun p => While 0 (fst p) (OSome (snd p))) two ++
          map (fun p => Try 0 (fst p) (ACons 0 (snd p) ANil) ONone ONone) two ++
          map (fun p => Try 0 (fst p) ANil ONone (OSome (snd p))) two ++
          map (fun b => With 0 b) one ++
          map (fun b => Match 0 (ACons 0 b ANil)) one ++
          map (fun b => Class 0 0 b) one
      end
  end
with blocks_sz (fuel : nat) {struct fuel} : nat -> list block :=
  match fuel with
  | O => fun _ => []
  | S f => fun n =>
      match n with
      | O => [BNil]
      | _ => flat_map (fun k => flat_map (fun s => map (fun r => BCons s r) (blocks_sz f (n - k))) (stmts_sz f (k)))
                      (seq 1 n)
      end
  end.

(* break / continue only inside a loop (anything else is a SyntaxError in Python; pyscn then adds no edge at all) *)
Fixpoint lok_stmt (inl : bool) (s : stmt) {struct s} : bool :=
  match s with
  | Break _ | Continue _ => inl
  | If _ b a e => lok_block inl b && lok_arms inl a && lok_oblock inl e
  | While _ b e | For _ b e => lok_block true b && lok_oblock inl e
  | Try _ b h e f => lok_block inl b && lok_arms inl h && lok_oblock inl e && lok_oblock inl f
  | With _ b => lok_block inl b
  | Match _ c => lok_arms inl c
  | Class _ _ b => lok_block false b
  | _ => true
  end
with lok_block (inl : bool) (b : block) {struct b} : bool :=
  match b with BNil => true | BCons s b' => lok_stmt inl s && lok_block inl b' end
with lok_arms (inl : bool) (a : arms) {struct a} : bool :=
  match a with ANil => true | ACons _ b a' => lok_block inl b && lok_arms inl a' end
with lok_oblock (inl : bool) (o : oblock) {struct o} : bool :=
  match o with ONone => true | OSome b => lok_block inl b end.

Definition bodies (n : nat) : list block := map renumber (blocks_sz (2 * n + 2) n).
(* loops make break/continue legal and give the break-out flag something to decide *)
Definition in_loop (b : block) : block := renumber (BCons (While 0 b (OSome (BCons (Return 0) BNil))) (BCons (Simple 0) BNil)).

Definition check_one (b : block) : bool :=
  (if lok_block false b then agree_dead b && agree_cx b else true) &&
  (if lok_block true b then agree_dead (in_loop b) && agree_cx (in_loop b) else true).

Definition check_all (n : nat) : bool := forallb check_one (bodies n).

Definition count_all (n : nat) : nat := length (bodies n).

(* every body with at most 4 statement nodes (26 000+ bodies incl. the loop-wrapped variants, all constructs) *)
Definition bound : nat := 4.
Definition all_bodies : list block := flat_map bodies (seq 1 bound).

Theorem flow_agrees_with_builder_bounded : forallb check_one all_bodies = true.
Proof. vm_compute. reflexivity. Qed.

Corollary flow_agrees_with_builder_bounded_forall :
  forall b, In b all_bodies ->
  (lok_block false b = true -> agree_dead b = true /\ agree_cx b = true) /\
  (lok_block true b = true -> agree_dead (in_loop b) = true /\ agree_cx (in_loop b) = true).
Proof.
  intros b Hb. pose proof (proj1 (forallb_forall _ _) flow_agrees_with_builder_bounded b Hb) as H.
  unfold check_one in H. apply andb_true_iff in H. destruct H as (H1 & H2). split; intro L; rewrite L in *.
  - apply andb_true_iff in H1. exact H1.
  - apply andb_true_iff in H2. exact H2.
Qed.

(* ---- the finding line ranges: every statement whose line lies in a reported range is dead (bounded) ----
   After [renumber] the ids are consecutive in source order, i.e. they are the line numbers of a layout with one
   statement header per line; [end_stmt] is then the last line of a compound statement. *)
Definition all_ids (b : block) : list N := ids_block b.

Definition ranges_ok (b : block) : bool :=
  let g := build b in
  let dead := dead_ids b in
  let el := elif_block b in
  forallb (fun r => forallb (fun k => if N.leb (fst r) k && N.leb k (snd r) then mem k dead || mem k el else true) (all_ids b))
          (dead_ranges g).

Definition check_ranges (b : block) : bool :=
  (if lok_block false b then ranges_ok b else true) && (if lok_block true b then ranges_ok (in_loop b) else true).

Theorem ranges_cover_only_dead_bounded : forallb check_ranges all_bodies = true.
Proof. vm_compute. reflexivity. Qed.
