(* C03: the complexity the model computes against the McCabe number of the property: one plus the decision points
   (if / elif tests, loops, except handlers, EVERY for and EVERY if clause of a statement-level comprehension) that are
   not in dead code.
   The model (Flow.comp_cx, mirroring processComprehension of cfg_builder.go: one filter block per for clause) counts at
   most ONE if per for clause, so the equation "complexity = mccabe" is FALSE as soon as a live comprehension has a for
   clause with two or more ifs (finding F8).  What holds, for every body of the construct list:
     complexity body + surplus_ifs dead body = mccabe dead body              (complexity_plus_surplus_is_mccabe)
   where surplus_ifs counts nifs - 1 for every for clause with nifs >= 2 of the comprehensions outside dead code;
   hence complexity = mccabe exactly when there is no such clause (complexity_is_mccabe_iff), in particular under the
   syntactic condition comps_single_if (complexity_is_mccabe_single_if); the smallest counterexample is
   complexity_is_mccabe_refuted. *)
From Coq Require Import NArith Arith List Bool Lia.
From PV Require Import Py.PyAST Cfg.Flow Cfg.FlowSpec Cfg.FlowSound.
Import ListNotations.

Definition isdead (dead : list N) (k : N) : bool := existsb (N.eqb k) dead.
Definition wsum (dead : list N) (ds : list (N * nat)) : nat :=
  fold_right (fun d acc => (if isdead dead (fst d) then 0 else snd d) + acc) 0 ds.

Lemma wsum_app dead a b : wsum dead (a ++ b) = wsum dead a + wsum dead b.
Proof. induction a as [|d a IH]; simpl; [reflexivity|]. rewrite IH. lia. Qed.

Lemma mccabe_wsum dead body : mccabe dead body = S (wsum dead (dec_block body)).
Proof. reflexivity. Qed.

Definition agree (dead : list N) (m : list (N * bool)) : Prop :=
  forall k b, In (k, b) m -> b = negb (isdead dead k).

Lemma agree_app_l dead a b : agree dead (a ++ b) -> agree dead a.
Proof. intros H k x Hk. apply H. apply in_or_app. left. exact Hk. Qed.
Lemma agree_app_r dead a b : agree dead (a ++ b) -> agree dead b.
Proof. intros H k x Hk. apply H. apply in_or_app. right. exact Hk. Qed.
Lemma agree_cons dead p a : agree dead (p :: a) -> agree dead a.
Proof. intros H k x Hk. apply H. right. exact Hk. Qed.
Lemma agree_head dead k L a w : agree dead ((k, L) :: a) -> gate L w = if isdead dead k then 0 else w.
Proof. intros H. rewrite (H k L (or_introl eq_refl)). destruct (isdead dead k); reflexivity. Qed.

Definition on (o : option res) : list (N * bool) := match o with Some r => rmarks r | None => [] end.
Definition ocx (o : option res) : nat := match o with Some r => rcx r | None => 0 end.

(* ---- what the code does not count: the if clauses after the first one of each for clause ---- *)
Definition comp_extra (clauses : list nat) : nat :=
  fold_right (fun nifs acc => (nifs - 1) + acc) 0 clauses.

Lemma comp_cx_extra cl : comp_cx cl + comp_extra cl = comp_weight cl.
Proof.
  induction cl as [|n cl IH]; [reflexivity|].
  change (comp_cx (n :: cl)) with (1 + (if Nat.ltb 0 n then 1 else 0) + comp_cx cl).
  change (comp_extra (n :: cl)) with ((n - 1) + comp_extra cl).
  change (comp_weight (n :: cl)) with (1 + n + comp_weight cl).
  destruct n as [|n]; cbn [Nat.ltb Nat.leb]; lia.
Qed.

(* every clause has at most one if: then the code's count is the property's *)
Definition clauses_single_if (clauses : list nat) : bool := forallb (fun nifs => Nat.leb nifs 1) clauses.

Lemma comp_extra_single cl : clauses_single_if cl = true -> comp_extra cl = 0.
Proof.
  induction cl as [|n cl IH]; [reflexivity|]. cbn [clauses_single_if forallb comp_extra fold_right]. intro H.
  apply andb_true_iff in H. destruct H as (Hn & Hcl). apply Nat.leb_le in Hn. fold (comp_extra cl).
  rewrite (IH Hcl). lia.
Qed.

Lemma comp_extra_zero cl : comp_extra cl = 0 -> clauses_single_if cl = true.
Proof.
  induction cl as [|n cl IH]; [reflexivity|]. cbn [clauses_single_if forallb comp_extra fold_right]. fold (comp_extra cl).
  intro H. apply andb_true_iff. split; [apply Nat.leb_le; lia|apply IH; lia].
Qed.

(* (comprehension id, surplus if clauses) of one function: same traversal as FlowSpec.dec_stmt (nested defs are functions of
   their own, class bodies belong to the enclosing function) *)
Fixpoint ext_stmt (s : stmt) {struct s} : list (N * nat) :=
  match s with
  | Simple _ | Pass _ | Return _ | Raise _ | Break _ | Continue _ | Def _ _ _ => []
  | Comp k cl => [(k, comp_extra cl)]
  | If _ body elifs els => ext_block body ++ ext_arms elifs ++ ext_oblock els
  | While _ body els | For _ body els => ext_block body ++ ext_oblock els
  | Try _ body handlers els fin => ext_block body ++ ext_arms handlers ++ ext_oblock els ++ ext_oblock fin
  | With _ body => ext_block body
  | Match _ cases => ext_arms cases
  | Class _ _ body => ext_block body
  end
with ext_block (b : block) {struct b} : list (N * nat) :=
  match b with BNil => [] | BCons s b' => ext_stmt s ++ ext_block b' end
with ext_arms (a : arms) {struct a} : list (N * nat) :=
  match a with ANil => [] | ACons _ b a' => ext_block b ++ ext_arms a' end
with ext_oblock (o : oblock) {struct o} : list (N * nat) :=
  match o with ONone => [] | OSome b => ext_block b end.

(* the if clauses the code misses: nifs - 1 for every for clause with nifs >= 2 of the comprehensions that are not
   among the statements reported dead *)
Definition surplus_ifs (dead : list N) (body : block) : nat := wsum dead (ext_block body).

(* syntactic sufficient condition: every for clause of every statement-level comprehension of the function (any nesting
   depth; nested defs excluded exactly as in the spec's dec_stmt) carries at most one if *)
Fixpoint single_stmt (s : stmt) {struct s} : bool :=
  match s with
  | Simple _ | Pass _ | Return _ | Raise _ | Break _ | Continue _ | Def _ _ _ => true
  | Comp _ cl => clauses_single_if cl
  | If _ body elifs els => single_block body && single_arms elifs && single_oblock els
  | While _ body els | For _ body els => single_block body && single_oblock els
  | Try _ body handlers els fin => single_block body && single_arms handlers && single_oblock els && single_oblock fin
  | With _ body => single_block body
  | Match _ cases => single_arms cases
  | Class _ _ body => single_block body
  end
with single_block (b : block) {struct b} : bool :=
  match b with BNil => true | BCons s b' => single_stmt s && single_block b' end
with single_arms (a : arms) {struct a} : bool :=
  match a with ANil => true | ACons _ b a' => single_block b && single_arms a' end
with single_oblock (o : oblock) {struct o} : bool :=
  match o with ONone => true | OSome b => single_block b end.

Definition comps_single_if (body : block) : bool := single_block body.

Lemma single_no_extra dead :
  (forall s, single_stmt s = true -> wsum dead (ext_stmt s) = 0) /\
  (forall b, single_block b = true -> wsum dead (ext_block b) = 0) /\
  (forall a, single_arms a = true -> wsum dead (ext_arms a) = 0) /\
  (forall o, single_oblock o = true -> wsum dead (ext_oblock o) = 0).
Proof.
  apply ast_mutind; intros; cbn [ext_stmt ext_block ext_arms ext_oblock single_stmt single_block single_arms single_oblock] in *;
  try reflexivity;
  repeat match goal with
  | H : _ && _ = true |- _ => apply andb_true_iff in H; destruct H
  end; rewrite ?wsum_app;
  repeat match goal with
  | IH : ?P = true -> _ = 0, H : ?P = true |- _ => rewrite (IH H); clear IH
  end; try reflexivity.
  (* Comp *) cbn [wsum fold_right fst snd]. rewrite comp_extra_single by assumption. destruct (isdead dead k); reflexivity.
Qed.

Lemma surplus_single_if dead body : comps_single_if body = true -> surplus_ifs dead body = 0.
Proof. intro H. destruct (single_no_extra dead) as (_ & Hb & _). exact (Hb body H). Qed.

Section Fix.
Variable dead : list N.

Lemma cx_wsum :
  (forall s L, c03_stmt s = true -> agree dead (rmarks (flow_stmt L s)) ->
               rcx (flow_stmt L s) + wsum dead (ext_stmt s) = wsum dead (dec_stmt s)) /\
  (forall b L, c03_block b = true -> agree dead (rmarks (flow_block L b)) ->
               rcx (flow_block L b) + wsum dead (ext_block b) = wsum dead (dec_block b)) /\
  (forall a L, c03_arms a = true -> agree dead (rmarks (flow_arms L a)) ->
               gate L (arms_length a) + rcx (flow_arms L a) + wsum dead (ext_arms a) = wsum dead (dec_elifs a)) /\
  (forall o L, c03_oblock o = true -> agree dead (on (flow_oblock L o)) ->
               ocx (flow_oblock L o) + wsum dead (ext_oblock o) = wsum dead (dec_oblock o)).
Proof.
  apply ast_mutind; intros; simpl in *; try discriminate; try reflexivity;
  repeat match goal with
  | H : _ && _ = true |- _ => apply andb_true_iff in H; destruct H
  end;
  repeat match goal with
  | H : context [match flow_oblock ?L ?o with Some r => rmarks r | None => [] end] |- _ =>
      change (match flow_oblock L o with Some r => rmarks r | None => [] end) with (on (flow_oblock L o)) in H
  end;
  repeat match goal with
  | |- context [match flow_oblock ?L ?o with Some r => rcx r | None => 0 end] =>
      change (match flow_oblock L o with Some r => rcx r | None => 0 end) with (ocx (flow_oblock L o))
  end.
  all: repeat match goal with
  | H : agree _ (_ :: _) |- _ =>
      let G := fresh "G" in pose proof (fun w => agree_head _ _ _ _ w H) as G; apply agree_cons in H
  | H : agree _ (_ ++ _) |- _ =>
      let A := fresh "A" in pose proof (agree_app_l _ _ _ H) as A; apply agree_app_r in H
  end; rewrite ?wsum_app.
  - (* If *) pose proof (H L ltac:(assumption) ltac:(assumption)). pose proof (H0 L ltac:(assumption) ltac:(assumption)).
    pose proof (H1 L ltac:(assumption) ltac:(assumption)).
    pose proof (G (S (arms_length elifs))). pose proof (G (arms_length elifs)). destruct (isdead dead k); lia.
  - (* While *) pose proof (H L ltac:(assumption) ltac:(assumption)). pose proof (H0 L ltac:(assumption) ltac:(assumption)).
    pose proof (G 1). lia.
  - (* For *) pose proof (H L ltac:(assumption) ltac:(assumption)). pose proof (H0 L ltac:(assumption) ltac:(assumption)).
    pose proof (G 1). lia.
  - (* Try (no finally) *) destruct fin; [|discriminate]. simpl in *. rewrite ?app_nil_r in *.
    pose proof (H L ltac:(assumption) ltac:(assumption)). pose proof (H0 L ltac:(assumption) ltac:(assumption)).
    pose proof (H1 (rn (flow_block L body)) ltac:(assumption) ltac:(assumption)). lia.
  - (* Comp *) pose proof (G (comp_cx clauses)). pose proof (comp_cx_extra clauses). destruct (isdead dead k); lia.
  - (* Class *) apply H; assumption.
  - (* BCons *) pose proof (H L ltac:(assumption) ltac:(assumption)).
    pose proof (H0 (rn (flow_stmt L s)) ltac:(assumption) ltac:(assumption)). lia.
  - (* ANil *) destruct L; reflexivity.
  - (* ACons *) pose proof (H L ltac:(assumption) ltac:(assumption)). pose proof (H0 L ltac:(assumption) ltac:(assumption)).
    pose proof (G 1). destruct L; simpl in *; lia.
  - (* OSome *) apply H; assumption.
Qed.
End Fix.

(* the model's own dead set agrees with its marks when statement ids are unique *)
Lemma agree_dead_ids body : NoDup (map fst (fn_marks body)) -> agree (dead_ids body) (fn_marks body).
Proof.
  intros ND k b Hin. unfold isdead.
  destruct (existsb (N.eqb k) (dead_ids body)) eqn:E; simpl.
  - apply existsb_exists in E. destruct E as (k' & Hk' & Heq). apply N.eqb_eq in Heq. subst k'.
    unfold dead_ids in Hk'. apply in_map_iff in Hk'. destruct Hk' as ([k2 b2] & Hf & Hin2). simpl in Hf. subst k2.
    apply filter_In in Hin2. destruct Hin2 as (Hin2 & Hb2). simpl in Hb2. destruct b2; [discriminate|].
    eapply nodup_fst_unique; eauto.
  - destruct b; [reflexivity|]. exfalso.
    assert (In k (dead_ids body)).
    { unfold dead_ids. apply in_map_iff. exists (k, false). split; [reflexivity|]. apply filter_In. split; [exact Hin|reflexivity]. }
    assert (existsb (N.eqb k) (dead_ids body) = true).
    { apply existsb_exists. exists k. split; [assumption|apply N.eqb_refl]. }
    congruence.
Qed.

(* the exact relation between the model's count and the property's: the code misses the surplus if clauses, nothing else *)
Theorem complexity_plus_surplus_is_mccabe body :
  c03_block body = true -> NoDup (map fst (fn_marks body)) ->
  complexity body + surplus_ifs (dead_ids body) body = mccabe (dead_ids body) body.
Proof.
  intros C ND. unfold complexity, surplus_ifs. rewrite mccabe_wsum.
  destruct (cx_wsum (dead_ids body)) as (_ & Hb & _).
  rewrite <- (Hb body true C (agree_dead_ids body ND)). reflexivity.
Qed.

Corollary complexity_is_mccabe_iff body :
  c03_block body = true -> NoDup (map fst (fn_marks body)) ->
  (complexity body = mccabe (dead_ids body) body <-> surplus_ifs (dead_ids body) body = 0).
Proof. intros C ND. pose proof (complexity_plus_surplus_is_mccabe body C ND). lia. Qed.

(* the old equation, under the condition that no for clause of a comprehension has two ifs *)
Corollary complexity_is_mccabe_single_if body :
  c03_block body = true -> NoDup (map fst (fn_marks body)) -> comps_single_if body = true ->
  complexity body = mccabe (dead_ids body) body.
Proof.
  intros C ND S1. apply (complexity_is_mccabe_iff body C ND). apply surplus_single_if. exact S1.
Qed.

(* without it the equation is false: [_ for _ in xs if a if b] alone in a function *)
Definition comp_if_witness : block := BCons (Comp 1 [2]) BNil.

Theorem complexity_is_mccabe_refuted :
  exists body, c03_block body = true /\ NoDup (map fst (fn_marks body)) /\
               complexity body = 3 /\ mccabe (dead_ids body) body = 4 /\
               complexity body <> mccabe (dead_ids body) body.
Proof.
  exists comp_if_witness. split; [reflexivity|]. split; [repeat constructor; intros []|].
  split; [reflexivity|]. split; [reflexivity|]. vm_compute. discriminate.
Qed.

(* risk level table *)
Theorem risk_table c lo med :
  (risk_of c lo med = Low <-> c <= lo) /\
  (risk_of c lo med = Medium <-> lo < c /\ c <= med) /\
  (risk_of c lo med = High <-> lo < c /\ med < c).
Proof.
  unfold risk_of. destruct (Nat.leb_spec c lo); destruct (Nat.leb_spec c med);
  repeat split; intros; try discriminate; try lia; try reflexivity.
Qed.

(* names, literals, comments and layout are not part of the syntax the count is defined on; what remains of them
   in the model are the statement ids (lines) and the def/class names: any relabelling of both leaves the
   complexity unchanged *)
Section Relabel.
Variables f g : N -> N.
Fixpoint rl_stmt (s : stmt) {struct s} : stmt :=
  match s with
  | Simple k => Simple (f k) | Pass k => Pass (f k) | Return k => Return (f k) | Raise k => Raise (f k)
  | Break k => Break (f k) | Continue k => Continue (f k)
  | If k b a e => If (f k) (rl_block b) (rl_arms a) (rl_oblock e)
  | While k b e => While (f k) (rl_block b) (rl_oblock e)
  | For k b e => For (f k) (rl_block b) (rl_oblock e)
  | Try k b h e fi => Try (f k) (rl_block b) (rl_arms h) (rl_oblock e) (rl_oblock fi)
  | With k b => With (f k) (rl_block b)
  | Match k c => Match (f k) (rl_arms c)
  | Comp k cl => Comp (f k) cl
  | Def k n b => Def (f k) (g n) (rl_block b)
  | Class k n b => Class (f k) (g n) (rl_block b)
  end
with rl_block (b : block) {struct b} : block :=
  match b with BNil => BNil | BCons s b' => BCons (rl_stmt s) (rl_block b') end
with rl_arms (a : arms) {struct a} : arms :=
  match a with ANil => ANil | ACons k b a' => ACons (f k) (rl_block b) (rl_arms a') end
with rl_oblock (o : oblock) {struct o} : oblock :=
  match o with ONone => ONone | OSome b => OSome (rl_block b) end.

Definition same3 (r r' : res) : Prop := rn r = rn r' /\ rk r = rk r' /\ rcx r = rcx r'.
Definition same3o (o o' : option res) : Prop :=
  match o, o' with Some r, Some r' => same3 r r' | None, None => True | _, _ => False end.

Lemma rl_arms_length a : arms_length (rl_arms a) = arms_length a.
Proof. induction a; simpl; congruence. Qed.

Lemma relabel_same :
  (forall s L, same3 (flow_stmt L (rl_stmt s)) (flow_stmt L s)) /\
  (forall b L, same3 (flow_block L (rl_block b)) (flow_block L b)) /\
  (forall a L, same3 (flow_arms L (rl_arms a)) (flow_arms L a)) /\
  (forall o L, same3o (flow_oblock L (rl_oblock o)) (flow_oblock L o)).
Proof.
  apply ast_mutind; intros; unfold same3, same3o in *; simpl; try (repeat split; reflexivity); rewrite ?rl_arms_length;
  repeat match goal with
  | H : forall L : bool, _ /\ _ /\ _ |- _ =>
      let A := fresh in let B := fresh in let C := fresh in
      pose proof (fun L => proj1 (H L)) as A; pose proof (fun L => proj1 (proj2 (H L))) as B;
      pose proof (fun L => proj2 (proj2 (H L))) as C; clear H
  end;
  try solve [ repeat match goal with E : forall L : bool, _ = _ |- _ => rewrite E; clear E end; repeat split; reflexivity ].
  all: try match goal with
  | E : forall L : bool, rn (flow_block L (rl_block ?b)) = _ |- context [flow_oblock (rn (flow_block ?L0 (rl_block ?b)))] =>
      rewrite (E L0)
  end.
  all: repeat match goal with
  | H : forall L : bool, match flow_oblock L (rl_oblock ?o) with _ => _ end |- _ =>
      let HL := fresh in
      match goal with
      | |- context [flow_oblock ?L0 (rl_oblock o)] => pose proof (H L0) as HL;
          destruct (flow_oblock L0 (rl_oblock o)); destruct (flow_oblock L0 o); try contradiction;
          [ destruct HL as (? & ? & ?) | ]
      end; clear H
  end.
  all: unfold opt_n; simpl; repeat match goal with E : forall L : bool, _ = _ |- _ => rewrite E; clear E end;
       repeat match goal with E : _ = _ |- _ => rewrite E; clear E end; repeat split; first [ reflexivity | auto ].
Qed.

Theorem complexity_relabel body : complexity (rl_block body) = complexity body.
Proof. unfold complexity. destruct relabel_same as (_ & Hb & _). destruct (Hb body true) as (_ & _ & E). rewrite E. reflexivity. Qed.
End Relabel.
