(* C03: the complexity the model computes is the McCabe number: one plus the decision points
   (if / elif tests, loops, except handlers, comprehension for/if clauses) that are not in dead code. *)
From Coq Require Import NArith Arith List Bool Lia.
From PV Require Import Py.PyAST Cfg.Flow Cfg.FlowSpec Cfg.FlowSound.
Import ListNotations.

Definition isdead (dead : list N) (k : N) : bool := existsb (N.eqb k) dead.
Definition wsum (dead : list N) (ds : list (N * nat)) : nat :=
  fold_right (fun d acc => (if isdead dead (fst d) then 0 else snd d) + acc) 0 ds.

Lemma wsum_app dead a b : wsum dead (a ++ b) = wsum dead a + wsum dead b.
Proof. induction a as [|d a IH]; simpl; [reflexivity|]. rewrite IH. lia. Qed.

Lemma mccabe_wsum dead body : mccabe dead body = S (wsum dead (dec_block body)).
Proof. reflexivity. Qed.

Definition agree (dead : list N) (m : list (N * bool)) : Prop :=
  forall k b, In (k, b) m -> b = negb (isdead dead k).

Lemma agree_app_l dead a b : agree dead (a ++ b) -> agree dead a.
Proof. intros H k x Hk. apply H. apply in_or_app. left. exact Hk. Qed.
Lemma agree_app_r dead a b : agree dead (a ++ b) -> agree dead b.
Proof. intros H k x Hk. apply H. apply in_or_app. right. exact Hk. Qed.
Lemma agree_cons dead p a : agree dead (p :: a) -> agree dead a.
Proof. intros H k x Hk. apply H. right. exact Hk. Qed.
Lemma agree_head dead k L a w : agree dead ((k, L) :: a) -> gate L w = if isdead dead k then 0 else w.
Proof. intros H. rewrite (H k L (or_introl eq_refl)). destruct (isdead dead k); reflexivity. Qed.

Definition on (o : option res) : list (N * bool) := match o with Some r => rmarks r | None => [] end.
Definition ocx (o : option res) : nat := match o with Some r => rcx r | None => 0 end.

Lemma comp_same cl : comp_cx cl = comp_weight cl.
Proof. reflexivity. Qed.

Section Fix.
Variable dead : list N.

Lemma cx_wsum :
  (forall s L, c03_stmt s = true -> agree dead (rmarks (flow_stmt L s)) -> rcx (flow_stmt L s) = wsum dead (dec_stmt s)) /\
  (forall b L, c03_block b = true -> agree dead (rmarks (flow_block L b)) -> rcx (flow_block L b) = wsum dead (dec_block b)) /\
  (forall a L, c03_arms a = true -> agree dead (rmarks (flow_arms L a)) ->
               gate L (arms_length a) + rcx (flow_arms L a) = wsum dead (dec_elifs a)) /\
  (forall o L, c03_oblock o = true -> agree dead (on (flow_oblock L o)) -> ocx (flow_oblock L o) = wsum dead (dec_oblock o)).
Proof.
  apply ast_mutind; intros; simpl in *; try discriminate; try reflexivity;
  repeat match goal with
  | H : _ && _ = true |- _ => apply andb_true_iff in H; destruct H
  end;
  repeat match goal with
  | H : context [match flow_oblock ?L ?o with Some r => rmarks r | None => [] end] |- _ =>
      change (match flow_oblock L o with Some r => rmarks r | None => [] end) with (on (flow_oblock L o)) in H
  end;
  repeat match goal with
  | |- context [match flow_oblock ?L ?o with Some r => rcx r | None => 0 end] =>
      change (match flow_oblock L o with Some r => rcx r | None => 0 end) with (ocx (flow_oblock L o))
  end.
  all: repeat match goal with
  | H : agree _ (_ :: _) |- _ =>
      let G := fresh "G" in pose proof (fun w => agree_head _ _ _ _ w H) as G; apply agree_cons in H
  | H : agree _ (_ ++ _) |- _ =>
      let A := fresh "A" in pose proof (agree_app_l _ _ _ H) as A; apply agree_app_r in H
  end; rewrite ?wsum_app.
  - (* If *) pose proof (H L ltac:(assumption) ltac:(assumption)). pose proof (H0 L ltac:(assumption) ltac:(assumption)).
    pose proof (H1 L ltac:(assumption) ltac:(assumption)).
    pose proof (G (S (arms_length elifs))). pose proof (G (arms_length elifs)). destruct (isdead dead k); lia.
  - (* While *) pose proof (H L ltac:(assumption) ltac:(assumption)). pose proof (H0 L ltac:(assumption) ltac:(assumption)).
    pose proof (G 1). lia.
  - (* For *) pose proof (H L ltac:(assumption) ltac:(assumption)). pose proof (H0 L ltac:(assumption) ltac:(assumption)).
    pose proof (G 1). lia.
  - (* Try (no finally) *) destruct fin; [|discriminate]. simpl in *. rewrite ?app_nil_r in *.
    pose proof (H L ltac:(assumption) ltac:(assumption)). pose proof (H0 L ltac:(assumption) ltac:(assumption)).
    pose proof (H1 (rn (flow_block L body)) ltac:(assumption) ltac:(assumption)). lia.
  - (* Comp *) pose proof (G (comp_cx clauses)). rewrite comp_same in *. lia.
  - (* Class *) apply H; assumption.
  - (* BCons *) pose proof (H L ltac:(assumption) ltac:(assumption)).
    pose proof (H0 (rn (flow_stmt L s)) ltac:(assumption) ltac:(assumption)). lia.
  - (* ANil *) destruct L; reflexivity.
  - (* ACons *) pose proof (H L ltac:(assumption) ltac:(assumption)). pose proof (H0 L ltac:(assumption) ltac:(assumption)).
    pose proof (G 1). destruct L; simpl in *; lia.
  - (* OSome *) apply H; assumption.
Qed.
End Fix.

(* the model's own dead set agrees with its marks when statement ids are unique *)
Lemma agree_dead_ids body : NoDup (map fst (fn_marks body)) -> agree (dead_ids body) (fn_marks body).
Proof.
  intros ND k b Hin. unfold isdead.
  destruct (existsb (N.eqb k) (dead_ids body)) eqn:E; simpl.
  - apply existsb_exists in E. destruct E as (k' & Hk' & Heq). apply N.eqb_eq in Heq. subst k'.
    unfold dead_ids in Hk'. apply in_map_iff in Hk'. destruct Hk' as ([k2 b2] & Hf & Hin2). simpl in Hf. subst k2.
    apply filter_In in Hin2. destruct Hin2 as (Hin2 & Hb2). simpl in Hb2. destruct b2; [discriminate|].
    eapply nodup_fst_unique; eauto.
  - destruct b; [reflexivity|]. exfalso.
    assert (In k (dead_ids body)).
    { unfold dead_ids. apply in_map_iff. exists (k, false). split; [reflexivity|]. apply filter_In. split; [exact Hin|reflexivity]. }
    assert (existsb (N.eqb k) (dead_ids body) = true).
    { apply existsb_exists. exists k. split; [assumption|apply N.eqb_refl]. }
    congruence.
Qed.

Theorem complexity_is_mccabe body :
  c03_block body = true -> NoDup (map fst (fn_marks body)) ->
  complexity body = mccabe (dead_ids body) body.
Proof.
  intros C ND. unfold complexity. rewrite mccabe_wsum. f_equal.
  destruct (cx_wsum (dead_ids body)) as (_ & Hb & _). apply Hb; [exact C|]. apply agree_dead_ids. exact ND.
Qed.

(* risk level table *)
Theorem risk_table c lo med :
  (risk_of c lo med = Low <-> c <= lo) /\
  (risk_of c lo med = Medium <-> lo < c /\ c <= med) /\
  (risk_of c lo med = High <-> lo < c /\ med < c).
Proof.
  unfold risk_of. destruct (Nat.leb_spec c lo); destruct (Nat.leb_spec c med);
  repeat split; intros; try discriminate; try lia; try reflexivity.
Qed.

(* names, literals, comments and layout are not part of the syntax the count is defined on; what remains of them
   in the model are the statement ids (lines) and the def/class names: any relabelling of both leaves the
   complexity unchanged *)
Section Relabel.
Variables f g : N -> N.
Fixpoint rl_stmt (s : stmt) {struct s} : stmt :=
  match s with
  | Simple k => Simple (f k) | Pass k => Pass (f k) | Return k => Return (f k) | Raise k => Raise (f k)
  | Break k => Break (f k) | Continue k => Continue (f k)
  | If k b a e => If (f k) (rl_block b) (rl_arms a) (rl_oblock e)
  | While k b e => While (f k) (rl_block b) (rl_oblock e)
  | For k b e => For (f k) (rl_block b) (rl_oblock e)
  | Try k b h e fi => Try (f k) (rl_block b) (rl_arms h) (rl_oblock e) (rl_oblock fi)
  | With k b => With (f k) (rl_block b)
  | Match k c => Match (f k) (rl_arms c)
  | Comp k cl => Comp (f k) cl
  | Def k n b => Def (f k) (g n) (rl_block b)
  | Class k n b => Class (f k) (g n) (rl_block b)
  end
with rl_block (b : block) {struct b} : block :=
  match b with BNil => BNil | BCons s b' => BCons (rl_stmt s) (rl_block b') end
with rl_arms (a : arms) {struct a} : arms :=
  match a with ANil => ANil | ACons k b a' => ACons (f k) (rl_block b) (rl_arms a') end
with rl_oblock (o : oblock) {struct o} : oblock :=
  match o with ONone => ONone | OSome b => OSome (rl_block b) end.

Definition same3 (r r' : res) : Prop := rn r = rn r' /\ rk r = rk r' /\ rcx r = rcx r'.
Definition same3o (o o' : option res) : Prop :=
  match o, o' with Some r, Some r' => same3 r r' | None, None => True | _, _ => False end.

Lemma rl_arms_length a : arms_length (rl_arms a) = arms_length a.
Proof. induction a; simpl; congruence. Qed.

Lemma relabel_same :
  (forall s L, same3 (flow_stmt L (rl_stmt s)) (flow_stmt L s)) /\
  (forall b L, same3 (flow_block L (rl_block b)) (flow_block L b)) /\
  (forall a L, same3 (flow_arms L (rl_arms a)) (flow_arms L a)) /\
  (forall o L, same3o (flow_oblock L (rl_oblock o)) (flow_oblock L o)).
Proof.
  apply ast_mutind; intros; unfold same3, same3o in *; simpl; try (repeat split; reflexivity); rewrite ?rl_arms_length;
  repeat match goal with
  | H : forall L : bool, _ /\ _ /\ _ |- _ =>
      let A := fresh in let B := fresh in let C := fresh in
      pose proof (fun L => proj1 (H L)) as A; pose proof (fun L => proj1 (proj2 (H L))) as B;
      pose proof (fun L => proj2 (proj2 (H L))) as C; clear H
  end;
  try solve [ repeat match goal with E : forall L : bool, _ = _ |- _ => rewrite E; clear E end; repeat split; reflexivity ].
  all: try match goal with
  | E : forall L : bool, rn (flow_block L (rl_block ?b)) = _ |- context [flow_oblock (rn (flow_block ?L0 (rl_block ?b)))] =>
      rewrite (E L0)
  end.
  all: repeat match goal with
  | H : forall L : bool, match flow_oblock L (rl_oblock ?o) with _ => _ end |- _ =>
      let HL := fresh in
      match goal with
      | |- context [flow_oblock ?L0 (rl_oblock o)] => pose proof (H L0) as HL;
          destruct (flow_oblock L0 (rl_oblock o)); destruct (flow_oblock L0 o); try contradiction;
          [ destruct HL as (? & ? & ?) | ]
      end; clear H
  end.
  all: unfold opt_n; simpl; repeat match goal with E : forall L : bool, _ = _ |- _ => rewrite E; clear E end;
       repeat match goal with E : _ = _ |- _ => rewrite E; clear E end; repeat split; first [ reflexivity | auto ].
Qed.

Theorem complexity_relabel body : complexity (rl_block body) = complexity body.
Proof. unfold complexity. destruct relabel_same as (_ & Hb & _). destruct (Hb body true) as (_ & _ & E). rewrite E. reflexivity. Qed.
End Relabel.
