(* C02: every structurally unreachable statement (FlowSpec.must_dead_block) is marked dead by the flow abstraction. *)
From Coq Require Import NArith List Bool Lia.
From PV Require Import Py.PyAST Cfg.Flow Cfg.FlowSpec.
Import ListNotations.

Definition all_false (m : list (N * bool)) : Prop := forall p, In p m -> snd p = false.

Lemma all_false_app a b : all_false a -> all_false b -> all_false (a ++ b).
Proof. intros A B p Hp. apply in_app_or in Hp. destruct Hp; auto. Qed.
Lemma all_false_cons k a : all_false a -> all_false ((k, false) :: a).
Proof. intros A p [<-|Hp]; auto. Qed.
Lemma all_false_nil : all_false [].
Proof. intros p []. Qed.

Definition on (o : option res) : list (N * bool) := match o with Some r => rmarks r | None => [] end.
Definition okk (o : option res) : bool := match o with Some r => rk r | None => false end.

(* B: with live-in false nothing is reachable *)
Definition deadres (r : res) : Prop := rn r = false /\ rk r = false /\ all_false (rmarks r).
Definition deadopt (o : option res) : Prop := match o with Some r => deadres r | None => True end.

Ltac dsolve :=
  try match goal with
  | H : deadres (flow_block false ?b) |- context [flow_oblock (rn (flow_block false ?b))] =>
      let Hn := fresh "Hn" in destruct H as (Hn & ? & ?); rewrite Hn in *
  end;
  repeat match goal with
  | H : deadres _ |- _ => destruct H as (? & ? & ?)
  | H : deadopt (flow_oblock false ?o) |- _ =>
      destruct (flow_oblock false o); simpl in H; [ destruct H as (? & ? & ?) | clear H ]
  end;
  unfold deadres, deadopt; simpl;
  repeat match goal with H : _ = false |- _ => rewrite H end; simpl;
  repeat split; try reflexivity;
  repeat first [ apply all_false_nil | assumption | apply all_false_cons | apply all_false_app ].

Lemma dead_in :
  (forall s, deadres (flow_stmt false s)) /\ (forall b, deadres (flow_block false b)) /\
  (forall a, deadres (flow_arms false a)) /\ (forall o, deadopt (flow_oblock false o)).
Proof.
  apply ast_mutind; intros; simpl; dsolve.
Qed.

(* the marker ids do not depend on the live-in *)
Lemma marks_ids :
  (forall s L, map fst (rmarks (flow_stmt L s)) = ids_stmt s) /\
  (forall b L, map fst (rmarks (flow_block L b)) = ids_block b) /\
  (forall a L, map fst (rmarks (flow_arms L a)) = ids_arms a) /\
  (forall o L, map fst (on (flow_oblock L o)) = ids_oblock o).
Proof.
  apply ast_mutind; intros; simpl; try reflexivity;
  repeat rewrite map_app; simpl;
  repeat match goal with
  | |- context [match flow_oblock ?L ?o with Some r => rmarks r | None => [] end] => change (match flow_oblock L o with Some r => rmarks r | None => [] end) with (on (flow_oblock L o))
  end;
  repeat match goal with H : forall L, _ = _ |- _ => rewrite H end; try reflexivity.
Qed.

(* A: a terminating statement list has no reachable end *)
Lemma term_out :
  (forall s L, stmt_term s = true -> rn (flow_stmt L s) = false) /\
  (forall b L, block_term b = true -> rn (flow_block L b) = false) /\
  (forall a L, arms_term a = true -> rn (flow_arms L a) = false) /\
  (forall o L, match o with OSome e => block_term e = true -> rn (flow_block L e) = false | ONone => True end).
Proof.
  apply ast_mutind; intros; simpl in *; try discriminate; try reflexivity; auto.
  - (* If *) destruct els as [|e]; [discriminate|]. simpl.
    apply andb_true_iff in H2. destruct H2 as (H2 & He). apply andb_true_iff in H2. destruct H2 as (Hb & Ha).
    rewrite (H L Hb), (H0 L Ha). simpl. apply (H1 L). exact He.
  - (* BCons *) apply orb_true_iff in H1. destruct H1 as [Hs|Hb].
    + rewrite (H L Hs). destruct dead_in as (_ & Db & _). destruct (Db b) as (Hn & _). exact Hn.
    + apply H0. exact Hb.
  - (* ACons *) apply andb_true_iff in H1. destruct H1 as (Hb & Ha). rewrite (H L Hb), (H0 L Ha). reflexivity.
Qed.

(* C: every must-be-dead statement is marked dead, whatever the live-in of the enclosing list *)
Lemma ids_dead m : all_false m -> forall k, In k (map fst m) -> In (k, false) m.
Proof.
  intros A k Hk. apply in_map_iff in Hk. destruct Hk as ([k' b] & Hf & Hin). simpl in Hf. subst k'.
  specialize (A _ Hin). simpl in A. subst b. exact Hin.
Qed.

Definition mdok (ids : list N) (m : list (N * bool)) : Prop := forall k, In k ids -> In (k, false) m.

Lemma mdok_app_l ids m1 m2 : mdok ids m1 -> mdok ids (m1 ++ m2).
Proof. intros H k Hk. apply in_or_app. left. auto. Qed.
Lemma mdok_app_r ids m1 m2 : mdok ids m2 -> mdok ids (m1 ++ m2).
Proof. intros H k Hk. apply in_or_app. right. auto. Qed.
Lemma mdok_cons ids p m : mdok ids m -> mdok ids (p :: m).
Proof. intros H k Hk. right. auto. Qed.
Lemma mdok_iapp i1 i2 m : mdok i1 m -> mdok i2 m -> mdok (i1 ++ i2) m.
Proof. intros H1 H2 k Hk. apply in_app_or in Hk. destruct Hk; auto. Qed.
Lemma mdok_nil m : mdok [] m.
Proof. intros k []. Qed.

Lemma must_dead_marked :
  (forall s L, mdok (must_dead_stmt s) (rmarks (flow_stmt L s))) /\
  (forall b L, mdok (must_dead_block b) (rmarks (flow_block L b))) /\
  (forall a L, mdok (must_dead_arms a) (rmarks (flow_arms L a))) /\
  (forall o L, mdok (must_dead_oblock o) (on (flow_oblock L o))).
Proof.
  apply ast_mutind; intros; simpl; try apply mdok_nil;
  repeat match goal with
  | |- context [match flow_oblock ?L ?o with Some r => rmarks r | None => [] end] => change (match flow_oblock L o with Some r => rmarks r | None => [] end) with (on (flow_oblock L o))
  end.
  - (* If *) apply mdok_cons. repeat apply mdok_iapp.
    + apply mdok_app_l. apply H.
    + apply mdok_app_r, mdok_app_l. apply H0.
    + apply mdok_app_r, mdok_app_r. apply H1.
  - (* While *) apply mdok_cons. apply mdok_iapp; [apply mdok_app_l, H | apply mdok_app_r, H0].
  - (* For *) apply mdok_cons. apply mdok_iapp; [apply mdok_app_l, H | apply mdok_app_r, H0].
  - (* Try *) repeat apply mdok_iapp.
    + apply mdok_app_l, H.
    + apply mdok_app_r, mdok_app_l, H0.
    + apply mdok_app_r, mdok_app_r, mdok_app_l, H1.
    + apply mdok_app_r, mdok_app_r, mdok_app_r, H2.
  - (* With *) apply mdok_cons, H.
  - (* Match *) apply mdok_cons, H.
  - (* Class *) apply mdok_cons, H.
  - (* BCons *) apply mdok_iapp; [apply mdok_app_l, H|]. apply mdok_app_r.
    destruct (stmt_term s) eqn:T.
    + destruct term_out as (Ts & _). rewrite (Ts s L T).
      destruct dead_in as (_ & Db & _). destruct (Db b) as (_ & _ & AF).
      intros k Hk. apply ids_dead; [exact AF|]. destruct marks_ids as (_ & Mb & _). rewrite Mb. exact Hk.
    + apply H0.
  - (* ACons *) apply mdok_cons. apply mdok_iapp; [apply mdok_app_l, H | apply mdok_app_r, H0].
  - (* OSome *) apply H.
Qed.

Theorem must_dead_complete body k : In k (must_dead_block body) -> In k (dead_ids body).
Proof.
  intro H. destruct must_dead_marked as (_ & Mb & _). specialize (Mb body true k H).
  unfold dead_ids, fn_marks. apply in_map_iff. exists (k, false). split; [reflexivity|].
  apply filter_In. split; [exact Mb | reflexivity].
Qed.
