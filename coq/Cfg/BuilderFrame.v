(* Structural ("frame") facts about the graph builder Cfg/Builder.v, for every statement:
   block ids only grow, the loop / exception stacks are restored, new edges leave only the current block or blocks
   created by the statement, the block that is current afterwards has no outgoing edge yet, every block id below
   [next] has an entry in the block table, edges only mention allocated blocks. *)
From Coq Require Import NArith List Bool Arith Lia ZifyBool ZifyNat ZifyN.
From PV Require Import Py.PyAST Cfg.Builder Cfg.BuilderReach.
Import ListNotations.
Local Open Scope N_scope.

Definition noout (s : st) (p : N) : Prop := forall u v t, In (u, v, t) (edges s) -> u <> p.
Definition haskey (s : st) (b : N) : Prop := In b (map fst (blocks s)).

Definition fin_lt (xs : list excctx) (n : N) : Prop :=
  forall x, In x xs -> (forall f, x_finally x = Some f -> f < n) /\ (forall h, In h (x_handlers x) -> h < n).
Definition loops_lt (ls : list loopctx) (n : N) (d : nat) : Prop :=
  forall l, In l ls -> l_header l < n /\ l_exit l < n /\ (l_excdepth l <= d)%nat.

Record wf (s : st) : Prop := {
  wf_cur : cur s < next s;
  wf_two : 2 <= next s;
  wf_bnd : forall u v t, In (u, v, t) (edges s) -> u < next s /\ v < next s;
  wf_keys : forall b, b < next s -> haskey s b;
  wf_fin : fin_lt (excs s) (next s);
  wf_loops : loops_lt (loops s) (next s) (length (excs s));
  wf_noout : noout s (cur s)
}.

(* [s] is an intermediate state of the processing that started in [s0]; [A] = old blocks that may get out-edges *)
Record mid (A : N -> Prop) (s0 s : st) : Prop := {
  m_next : next s0 <= next s;
  m_edges : exists D, edges s = edges s0 ++ D /\ forall u v t, In (u, v, t) D -> A u \/ next s0 <= u;
  m_bnd : forall u v t, In (u, v, t) (edges s) -> u < next s /\ v < next s;
  m_keys : forall b, b < next s -> haskey s b
}.

Lemma mid_refl A s : wf s -> mid A s s.
Proof.
  intros W. split; [lia| |apply W|apply W].
  exists []. rewrite app_nil_r. split; [reflexivity|]. intros u v t [].
Qed.

(* the part of [wf] that does not depend on the current block *)
Record wfb (s : st) : Prop := {
  wb_two : 2 <= next s;
  wb_bnd : forall u v t, In (u, v, t) (edges s) -> u < next s /\ v < next s;
  wb_keys : forall b, b < next s -> haskey s b;
  wb_fin : fin_lt (excs s) (next s);
  wb_loops : loops_lt (loops s) (next s) (length (excs s))
}.
Lemma wf_wfb s : wf s -> wfb s.
Proof. intros [W1 W2 W3 W4 W5 W6 W7]. split; assumption. Qed.
Lemma wfb_wf s c : wfb s -> c < next s -> noout s c -> wf (set_cur s c).
Proof. intros [W2 W3 W4 W5 W6] Hc No. split; assumption. Qed.
Lemma mid_refl_b A s : wfb s -> mid A s s.
Proof.
  intros W. split; [lia| |apply W|apply W].
  exists []. rewrite app_nil_r. split; [reflexivity|]. intros u v t [].
Qed.

Lemma mid_weaken (A B : N -> Prop) s0 s : (forall u, A u -> B u \/ next s0 <= u) -> mid A s0 s -> mid B s0 s.
Proof.
  intros AB [M1 (D & M2 & M2') M3 M4]. split; try assumption.
  exists D. split; [exact M2|]. intros u v t Hin. destruct (M2' u v t Hin) as [Ha|Hl]; [apply AB; exact Ha|right; exact Hl].
Qed.

(* ---- primitives ---- *)
Definition nb (s : st) : st := snd (new_block s).
Lemma new_block_eq s : new_block s = (next s, nb s).
Proof. reflexivity. Qed.

Lemma add_to_keys bs b x : map fst (add_to bs b x) = map fst bs.
Proof.
  induction bs as [|[k l] r IH]; [reflexivity|]. cbn [add_to]. destruct (N.eqb k b); cbn [map fst]; [reflexivity|].
  rewrite IH. reflexivity.
Qed.

Lemma mid_nb A s0 s : mid A s0 s -> mid A s0 (nb s).
Proof.
  intros [M1 M2 M3 M4]. split; cbn [nb new_block snd next edges blocks].
  - lia.
  - exact M2.
  - intros u v t Hin. specialize (M3 u v t Hin). lia.
  - intros b Hb. unfold haskey. cbn [nb new_block snd blocks map fst].
    destruct (N.eq_dec b (next s)) as [->|Hne]; [left; reflexivity|right; apply M4; lia].
Qed.

Lemma mid_set_cur A s0 s b : mid A s0 s -> mid A s0 (set_cur s b).
Proof. intros [M1 M2 M3 M4]. split; assumption. Qed.
Lemma mid_set_loops A s0 s l : mid A s0 s -> mid A s0 (set_loops s l).
Proof. intros [M1 M2 M3 M4]. split; assumption. Qed.
Lemma mid_set_excs A s0 s l : mid A s0 s -> mid A s0 (set_excs s l).
Proof. intros [M1 M2 M3 M4]. split; assumption. Qed.
Lemma mid_set_processing A s0 s p : mid A s0 s -> mid A s0 (set_processing s p).
Proof. intros M. unfold set_processing. destruct (excs s); [exact M|apply mid_set_excs; exact M]. Qed.

Lemma mid_add_stmt A s0 s b x : mid A s0 s -> mid A s0 (add_stmt s b x).
Proof.
  intros [M1 M2 M3 M4]. split; try assumption.
  intros c Hc. unfold haskey. cbn [add_stmt blocks]. rewrite add_to_keys. apply M4. exact Hc.
Qed.

Lemma mid_connect A s0 s a b t :
  mid A s0 s -> (A a \/ next s0 <= a) -> a < next s -> b < next s -> mid A s0 (connect s a b t).
Proof.
  intros [M1 (D & M2 & M2') M3 M4] Ha Hal Hbl. split; cbn [connect next edges blocks]; try assumption.
  - exists (D ++ [(a, b, t)]). split; [rewrite M2, app_assoc; reflexivity|].
    intros u v t' Hin. apply in_app_or in Hin. destruct Hin as [Hin|[Heq|[]]]; [eapply M2'; exact Hin|].
    inversion Heq; subst. exact Ha.
  - intros u v t' Hin. apply in_app_or in Hin. destruct Hin as [Hin|[Heq|[]]]; [eapply M3; exact Hin|].
    inversion Heq; subst. split; assumption.
Qed.

Lemma mid_connect_unless_exit A s0 s a b t :
  mid A s0 s -> (A a \/ next s0 <= a) -> a < next s -> b < next s -> mid A s0 (connect_unless_exit s a b t).
Proof. intros M Ha Hal Hbl. unfold connect_unless_exit. destruct (has_successor s a exit_id); [exact M|apply mid_connect; assumption]. Qed.

Lemma mid_connect_unless A s0 s a b t :
  mid A s0 s -> (A a \/ next s0 <= a) -> a < next s -> b < next s -> mid A s0 (connect_unless s a b t).
Proof. intros M Ha Hal Hbl. unfold connect_unless. destruct (has_successor s a b); [exact M|apply mid_connect; assumption]. Qed.

Lemma connect_all_next s a l t : next (connect_all s a l t) = next s.
Proof. revert s. induction l as [|x r IH]; intro s; [reflexivity|]. cbn [connect_all]. rewrite IH. reflexivity. Qed.
Lemma connect_all_unless_next s a l t : next (connect_all_unless s a l t) = next s.
Proof.
  revert s. induction l as [|x r IH]; intro s; [reflexivity|]. cbn [connect_all_unless]. rewrite IH.
  unfold connect_unless. destruct (has_successor s a x); reflexivity.
Qed.

Lemma mid_connect_all A s0 s a l t :
  mid A s0 s -> (A a \/ next s0 <= a) -> a < next s -> (forall b, In b l -> b < next s) -> mid A s0 (connect_all s a l t).
Proof.
  revert s. induction l as [|x r IH]; intros s M Ha Hal Hl; [exact M|]. cbn [connect_all].
  apply IH; try assumption.
  - apply mid_connect; try assumption. apply Hl. left. reflexivity.
  - intros b Hb. cbn [connect next]. apply Hl. right. exact Hb.
Qed.

Lemma mid_connect_all_unless A s0 s a l t :
  mid A s0 s -> (A a \/ next s0 <= a) -> a < next s -> (forall b, In b l -> b < next s) -> mid A s0 (connect_all_unless s a l t).
Proof.
  revert s. induction l as [|x r IH]; intros s M Ha Hal Hl; [exact M|]. cbn [connect_all_unless].
  assert (Hn : next (connect_unless s a x t) = next s) by (unfold connect_unless; destruct (has_successor s a x); reflexivity).
  apply IH; try assumption.
  - apply mid_connect_unless; try assumption. apply Hl. left. reflexivity.
  - rewrite Hn. exact Hal.
  - intros b Hb. rewrite Hn. apply Hl. right. exact Hb.
Qed.

(* sub-call: the callee's frame is relative to its own start state *)
Lemma mid_trans A s0 s s' :
  mid A s0 s -> mid (eq (cur s)) s s' -> (A (cur s) \/ next s0 <= cur s) -> mid A s0 s'.
Proof.
  intros [M1 (D & M2 & M2') M3 M4] [N1 (D' & N2 & N2') N3 N4] Hc. split; try assumption; [lia|].
  exists (D ++ D'). split; [rewrite N2, M2, app_assoc; reflexivity|].
  intros u v t Hin. apply in_app_or in Hin. destruct Hin as [Hin|Hin]; [eapply M2'; exact Hin|].
  destruct (N2' u v t Hin) as [<-|Hl]; [exact Hc|right; lia].
Qed.

Lemma mid_transA A B s0 s s' :
  mid A s0 s -> mid B s s' -> (forall u, B u -> A u \/ next s0 <= u) -> mid A s0 s'.
Proof.
  intros [M1 (D & M2 & M2') M3 M4] [N1 (D' & N2 & N2') N3 N4] Hc. split; try assumption; [lia|].
  exists (D ++ D'). split; [rewrite N2, M2, app_assoc; reflexivity|].
  intros u v t Hin. apply in_app_or in Hin. destruct Hin as [Hin|Hin]; [eapply M2'; exact Hin|].
  destruct (N2' u v t Hin) as [Hb|Hl]; [apply Hc; exact Hb|right; lia].
Qed.

(* ---- noout ---- *)
Lemma noout_fresh s p : (forall u v t, In (u, v, t) (edges s) -> u < next s /\ v < next s) -> next s <= p -> noout s p.
Proof. intros B Hp u v t Hin. specialize (B u v t Hin). lia. Qed.

Lemma noout_mid A s0 s p : noout s0 p -> mid A s0 s -> ~ A p -> p < next s0 -> noout s p.
Proof.
  intros No [M1 (D & M2 & M2') M3 M4] HA Hp u v t Hin. rewrite M2 in Hin. apply in_app_or in Hin.
  destruct Hin as [Hin|Hin]; [eapply No; exact Hin|]. destruct (M2' u v t Hin) as [Ha|Hl]; [intros ->; exact (HA Ha)|lia].
Qed.

Lemma noout_connect s p a b t : noout s p -> a <> p -> noout (connect s a b t) p.
Proof.
  intros No Hne u v t' Hin. cbn [connect edges] in Hin. apply in_app_or in Hin.
  destruct Hin as [Hin|[Heq|[]]]; [eapply No; exact Hin|]. inversion Heq; subst. exact Hne.
Qed.

Lemma noout_has_succ s p q : noout s p -> has_successor s p q = false.
Proof.
  intro No. unfold has_successor. apply not_true_iff_false. intro H. apply existsb_exists in H.
  destruct H as ([[f t'] ty] & Hin & Hb). apply andb_true_iff in Hb. destruct Hb as (Hf & _). apply N.eqb_eq in Hf.
  subst. exact (No _ _ _ Hin eq_refl).
Qed.

Lemma cue_noout s p q t : noout s p -> connect_unless_exit s p q t = connect s p q t.
Proof. intro No. unfold connect_unless_exit. rewrite (noout_has_succ s p exit_id No). reflexivity. Qed.

(* ---- the frame of one statement ---- *)
Record frame (s s' : st) : Prop := {
  fr_mid : mid (eq (cur s)) s s';
  fr_loops : loops s' = loops s;
  fr_excs : excs s' = excs s;
  fr_curlt : cur s' < next s';
  fr_cur : (cur s' = cur s /\ edges s' = edges s) \/ (next s <= cur s' /\ noout s' (cur s'))
}.

Lemma fin_lt_mono xs n m : fin_lt xs n -> n <= m -> fin_lt xs m.
Proof. intros H L x Hx. destruct (H x Hx) as (H1 & H2). split; intros; [specialize (H1 _ H0)|specialize (H2 _ H0)]; lia. Qed.
Lemma loops_lt_mono ls n m d : loops_lt ls n d -> n <= m -> loops_lt ls m d.
Proof. intros H L l Hl. destruct (H l Hl) as (H1 & H2 & H3). repeat split; try lia. Qed.

Lemma wf_intro A s0 s :
  mid A s0 s -> 2 <= next s0 -> cur s < next s -> fin_lt (excs s) (next s) ->
  loops_lt (loops s) (next s) (length (excs s)) -> noout s (cur s) -> wf s.
Proof. intros [M1 M2 M3 M4] H2 Hc Hf Hl No. split; try assumption. lia. Qed.

Lemma wf_same A s0 s :
  mid A s0 s -> wf s0 -> cur s < next s -> loops s = loops s0 -> excs s = excs s0 -> noout s (cur s) -> wf s.
Proof.
  intros M W Hc Hl He No. pose proof (m_next _ _ _ M) as Hn. eapply wf_intro; [exact M|apply W|exact Hc| | |exact No].
  - rewrite He. eapply fin_lt_mono; [apply W|exact Hn].
  - rewrite Hl, He. eapply loops_lt_mono; [apply W|exact Hn].
Qed.

Lemma wf_frame s s' : wf s -> frame s s' -> wf s'.
Proof.
  intros W [M Hl He Hc K]. eapply wf_same; eauto. destruct K as [(K1 & K2)|(_ & K)]; [|exact K].
  intros u v t Hin. rewrite K2 in Hin. rewrite K1. eapply wf_noout; eauto.
Qed.

Lemma frame_trans s s' s'' : wf s -> frame s s' -> frame s' s'' -> frame s s''.
Proof.
  intros W F1 F2. pose proof F1 as [M1 L1 E1 C1 K1]. pose proof F2 as [M2 L2 E2 C2 K2].
  pose proof (m_next _ _ _ M1) as Hn1. split.
  - eapply mid_trans; [exact M1|exact M2|]. destruct K1 as [(-> & _)|(Hl & _)]; [left; reflexivity|right; exact Hl].
  - congruence.
  - congruence.
  - exact C2.
  - destruct K2 as [(Hc & He)|(Hl & No)].
    + destruct K1 as [(Hc1 & He1)|(Hl1 & No1)].
      * left. split; congruence.
      * right. rewrite Hc. split; [exact Hl1|]. intros u v t Hin. rewrite He in Hin. eapply No1; exact Hin.
    + right. split; [lia|exact No].
Qed.

Lemma frame_refl s : wf s -> frame s s.
Proof. intro W. split; [apply mid_refl; exact W|reflexivity|reflexivity|apply W|left; split; reflexivity]. Qed.

(* a statement added to the current block *)
Lemma frame_add_stmt s x : wf s -> frame s (add_stmt s (cur s) x).
Proof.
  intro W. split; [apply mid_add_stmt, mid_refl; exact W|reflexivity|reflexivity|apply W|left; split; reflexivity].
Qed.

(* jump statements: one edge (or several, for raise) out of the current block, then a fresh current block *)
Lemma frame_jump s s2 :
  wf s -> mid (eq (cur s)) s s2 -> next s2 = next s -> cur s2 = cur s -> loops s2 = loops s -> excs s2 = excs s ->
  frame s (after_terminator s2).
Proof.
  intros W M Hn Hc Hl He. unfold after_terminator. rewrite new_block_eq.
  split; cbn [set_cur nb new_block snd next cur loops excs edges].
  - apply mid_set_cur, mid_nb. exact M.
  - exact Hl.
  - exact He.
  - lia.
  - right. split; [lia|]. intros u v t Hin. pose proof (m_bnd _ _ _ M u v t Hin). lia.
Qed.

(* ---- targets of jumps are blocks of the exception stack ---- *)
Lemma return_target_in c xs f : return_target c xs = Some f -> exists x, In x xs /\ x_finally x = Some f.
Proof.
  induction xs as [|x r IH]; cbn [return_target]; [discriminate|]. destruct (x_finally x) as [g|] eqn:E.
  - destruct (N.eqb g c).
    + intro H. destruct (IH H) as (y & Hy & Hf). exists y. split; [right; exact Hy|exact Hf].
    + intro H. inversion H; subst. exists x. split; [left; reflexivity|exact E].
  - intro H. destruct (IH H) as (y & Hy & Hf). exists y. split; [right; exact Hy|exact Hf].
Qed.

Lemma jump_target_in xs f : jump_target xs = Some f -> exists x, In x xs /\ x_finally x = Some f.
Proof.
  induction xs as [|x r IH]; cbn [jump_target]; [discriminate|]. destruct (x_processing x).
  - intro H. destruct (IH H) as (y & Hy & Hf). exists y. split; [right; exact Hy|exact Hf].
  - destruct (x_finally x) as [g|] eqn:E.
    + intro H. inversion H; subst. exists x. split; [left; reflexivity|exact E].
    + intro H. destruct (IH H) as (y & Hy & Hf). exists y. split; [right; exact Hy|exact Hf].
Qed.

Lemma first_finally_in xs f : first_finally xs = Some f -> exists x, In x xs /\ x_finally x = Some f.
Proof.
  induction xs as [|x r IH]; cbn [first_finally]; [discriminate|]. destruct (x_finally x) as [g|] eqn:E.
  - intro H. inversion H; subst. exists x. split; [left; reflexivity|exact E].
  - intro H. destruct (IH H) as (y & Hy & Hf). exists y. split; [right; exact Hy|exact Hf].
Qed.

Lemma raise_target_in xs fb0 :
  (forall f, fst (raise_target xs fb0) = Some f -> exists x, In x xs /\ x_finally x = Some f) /\
  (forall fb, snd (raise_target xs fb0) = Some fb -> fb0 = Some fb \/ In fb xs).
Proof.
  revert fb0. induction xs as [|x r IH]; intro fb0; cbn [raise_target].
  - split; cbn [fst snd]; [discriminate|]. intros fb H. left. exact H.
  - destruct (x_processing x).
    + destruct (IH fb0) as (I1 & I2). split.
      * intros f H. destruct (I1 f H) as (y & Hy & Hf). exists y. split; [right; exact Hy|exact Hf].
      * intros fb H. destruct (I2 fb H) as [H'|H']; [left; exact H'|right; right; exact H'].
    + set (fb1 := match fb0 with None => Some x | Some _ => fb0 end).
      assert (Hfb1 : forall fb, fb1 = Some fb -> fb0 = Some fb \/ fb = x).
      { intros fb H. unfold fb1 in H. destruct fb0; [left; exact H|right; inversion H; reflexivity]. }
      destruct (x_finally x) as [g|] eqn:E.
      * split; cbn [fst snd].
        -- intros f H. inversion H; subst. exists x. split; [left; reflexivity|exact E].
        -- intros fb H. destruct (Hfb1 fb H) as [H'| ->]; [left; exact H'|right; left; reflexivity].
      * destruct (IH fb1) as (I1 & I2). split.
        -- intros f H. destruct (I1 f H) as (y & Hy & Hf). exists y. split; [right; exact Hy|exact Hf].
        -- intros fb H. destruct (I2 fb H) as [H'|H'].
           ++ destruct (Hfb1 fb H') as [H''| ->]; [left; exact H''|right; left; reflexivity].
           ++ right. right. exact H'.
Qed.

Lemma firstn_in {A} n (l : list A) x : In x (firstn n l) -> In x l.
Proof.
  revert l. induction n as [|n IH]; intros l H; [destruct H|]. destruct l as [|a l]; [destruct H|].
  cbn [firstn] in H. destruct H as [->|H]; [left; reflexivity|right; apply IH; exact H].
Qed.

Lemma in_loop_frames_in s l x : In x (in_loop_frames s l) -> In x (excs s).
Proof. unfold in_loop_frames. apply firstn_in. Qed.


(* the propagation edges out of a finally block (cfg_builder.go, processTryStatement) *)
Definition fin_prop (t4 : st) (f : N) : st :=
  let outer := tl (excs t4) in
  let next_outer := first_finally outer in
  let t5 := match next_outer with
            | Some o => connect_unless t4 f o EReturn
            | None => connect_unless t4 f exit_id EReturn
            end in
  let t6 := match loops t5 with
            | l :: _ =>
                if Nat.leb (l_excdepth l) (length (excs t5) - 1) then
                  let next_loop := first_finally (firstn (length outer - l_excdepth l) outer) in
                  match next_loop with
                  | Some o => connect_unless (connect_unless t5 f o EBreak) f o EContinue
                  | None => connect_unless (connect_unless t5 f (l_exit l) EBreak) f (l_header l) EContinue
                  end
                else t5
            | [] => t5
            end in
  match next_outer with
  | Some o => connect_unless t6 f o EException
  | None => match outer with
            | oc :: _ => connect_all_unless t6 f (x_handlers oc) EException
            | [] => connect_unless t6 f exit_id EException
            end
  end.

(* ---- the builder with the [hasSuccessor(EXIT)] guards resolved: under [wf] the guarded block never has an
        outgoing edge yet, so [connect_unless_exit] always connects (proved below, [resolved_all]) ---- *)
Fixpoint process_stmt' (s : st) (x : stmt) {struct x} : st :=
  match x with
  | Simple k | Pass k | Def k _ _ => add_stmt s (cur s) (mk k (end_stmt x) KOther)
  | Comp k cl => process_comp s k cl
  | Return k =>
      let s1 := add_stmt s (cur s) (mk k k KReturn) in
      let s2 := match return_target (cur s1) (excs s1) with
                | Some f => connect s1 (cur s1) f EReturn
                | None => connect s1 (cur s1) exit_id EReturn
                end in
      after_terminator s2
  | Raise k =>
      let s1 := add_stmt s (cur s) (mk k k KRaise) in
      let s2 := match raise_target (excs s1) None with
                | (Some f, _) => connect s1 (cur s1) f EException
                | (None, Some fb) => match x_handlers fb with
                                     | [] => connect s1 (cur s1) exit_id EException
                                     | hs => connect_all s1 (cur s1) hs EException
                                     end
                | (None, None) => connect s1 (cur s1) exit_id EException
                end in
      after_terminator s2
  | Break k =>
      let s1 := add_stmt s (cur s) (mk k k KBreak) in
      match loops s1 with
      | [] => s1                                    (* "break statement outside of loop": no edge, no new block *)
      | l :: _ =>
          let s2 := match jump_target (in_loop_frames s1 l) with
                    | Some f => connect s1 (cur s1) f EBreak
                    | None => connect s1 (cur s1) (l_exit l) EBreak
                    end in
          after_terminator s2
      end
  | Continue k =>
      let s1 := add_stmt s (cur s) (mk k k KContinue) in
      match loops s1 with
      | [] => s1
      | l :: _ =>
          let s2 := match jump_target (in_loop_frames s1 l) with
                    | Some f => connect s1 (cur s1) f EContinue
                    | None => connect s1 (cur s1) (l_header l) EContinue
                    end in
          after_terminator s2
      end
  | If k body elifs els =>
      let cond := cur s in
      let s1 := add_stmt s cond (mk k (end_stmt x) KOther) in
      let (thenb, s2) := new_block s1 in
      let (merge, s3) := new_block s2 in
      let s4 := connect s3 cond thenb ECondTrue in
      let s5 := process_block' (set_cur s4 thenb) body in
      let then_end := cur s5 in
      match elifs with
      | ACons _ _ _ =>
          let (elifb, s6) := new_block s5 in
          let s7 := connect s6 cond elifb ECondFalse in
          let kelse := fun (t : st) (c : N) =>
            match els with
            | OSome e =>
                let (elseb, t1) := new_block t in
                let t2 := connect t1 c elseb ECondFalse in
                let t3 := process_block' (set_cur t2 elseb) e in
                connect t3 (cur t3) merge ENormal
            | ONone => connect t c merge ECondFalse
            end in
          let s8 := process_elif' (set_cur s7 elifb) elifs kelse merge in
          let s9 := connect s8 then_end merge ENormal in
          set_cur s9 merge
      | ANil =>
          match els with
          | OSome e =>
              let (elseb, s6) := new_block s5 in
              let s7 := connect s6 cond elseb ECondFalse in
              let s8 := process_block' (set_cur s7 elseb) e in
              let s9 := connect s8 then_end merge ENormal in
              let s10 := connect s9 (cur s9) merge ENormal in
              set_cur s10 merge
          | ONone =>
              let s6 := connect s5 cond merge ECondFalse in
              let s7 := connect s6 then_end merge ENormal in
              set_cur s7 merge
          end
      end
  | While k body els | For k body els =>
      let (header, s1) := new_block s in
      let s2 := connect s1 (cur s) header ENormal in
      let s3 := add_stmt s2 header (mk k (end_stmt x) KOther) in
      let (bodyb, s4) := new_block s3 in
      let (exitb, s5) := new_block s4 in
      let '(elseb, s6) := match els with
                          | OSome _ => let (e, t) := new_block s5 in (Some e, t)
                          | ONone => (None, s5)
                          end in
      let l := {| l_header := header; l_exit := exitb; l_excdepth := length (excs s6) |} in
      let s7 := set_loops s6 (l :: loops s6) in
      let s8 := connect s7 header bodyb ECondTrue in
      let s9 := match elseb with Some e => connect s8 header e ECondFalse | None => connect s8 header exitb ECondFalse end in
      let s10 := process_block' (set_cur s9 bodyb) body in
      let s11 := connect s10 (cur s10) header ELoop in
      let s12 := set_loops s11 (tl (loops s11)) in
      let s13 := match elseb, els with
                 | Some e, OSome eb =>
                     let t1 := process_block' (set_cur s12 e) eb in
                     connect t1 (cur t1) exitb ENormal
                 | _, _ => s12
                 end in
      set_cur s13 exitb
  | Try _ body handlers els fin =>
      let (tryb, s1) := new_block s in
      let s2 := connect s1 (cur s) tryb ENormal in
      let (exitb, s3) := new_block s2 in
      let '(finb, s4) := match fin with OSome _ => let (f, t) := new_block s3 in (Some f, t) | ONone => (None, s3) end in
      let '(elseb, s5) := match els with OSome _ => let (e, t) := new_block s4 in (Some e, t) | ONone => (None, s4) end in
      let (hbs, s6) := new_blocks s5 (arms_length handlers) in
      let ctx := {| x_finally := finb; x_handlers := hbs; x_processing := false |} in
      let s7 := set_excs s6 (ctx :: excs s6) in
      let s8 := process_block' (set_cur s7 tryb) body in
      let try_end := cur s8 in
      let after_fin_or_exit := match finb with Some f => f | None => exitb end in
      let next_after_try := match elseb with Some e => e | None => after_fin_or_exit end in
      let s9 := connect s8 try_end next_after_try ENormal in
      let s10 := connect_all s9 tryb hbs EException in
      let s11 := process_handlers' s10 handlers hbs after_fin_or_exit in
      let s12 := match elseb, els with
                 | Some e, OSome eb =>
                     let t1 := process_block' (set_cur s11 e) eb in
                     connect t1 (cur t1) after_fin_or_exit ENormal
                 | _, _ => s11
                 end in
      let s13 :=
        match finb, fin with
        | Some f, OSome fb =>
            let t1 := set_processing (set_cur s12 f) true in
            let t2 := process_block' t1 fb in
            let t3 := set_processing t2 false in
            let t4 := connect t3 (cur t3) exitb ENormal in
            fin_prop t4 f
        | _, _ => s12
        end in
      set_cur (set_excs s13 (tl (excs s13))) exitb
  | With k body =>
      let (setup, s1) := new_block s in
      let s2 := connect s1 (cur s) setup ENormal in
      let s3 := add_stmt s2 setup (mk k (end_stmt x) KOther) in
      let (bodyb, s4) := new_block s3 in
      let (tear, s5) := new_block s4 in
      let (exitb, s6) := new_block s5 in
      let s7 := connect s6 setup bodyb ENormal in
      let s8 := process_block' (set_cur s7 bodyb) body in
      let s9 := connect s8 (cur s8) tear ENormal in
      let s10 := connect s9 setup tear EException in
      let s11 := connect s10 tear exitb ENormal in
      set_cur s11 exitb
  | Match k cases =>
      let (mb, s1) := new_block s in
      let s2 := connect s1 (cur s) mb ENormal in
      let s3 := add_stmt s2 mb (mk k (end_stmt x) KOther) in
      let (merge, s4) := new_block s3 in
      let s5 := match cases with
                | ANil => connect s4 mb merge ENormal
                | _ => let t := process_cases' s4 cases mb merge in connect t mb merge ECondFalse
                end in
      set_cur s5 merge
  | Class k _ body =>
      (* buildClass: class_body block, the class node as a statement, body inline (methods are Def statements) *)
      let (cb, s1) := new_block s in
      let s2 := connect s1 (cur s) cb ENormal in
      let s3 := add_stmt (set_cur s2 cb) cb (mk k (end_stmt x) KOther) in
      process_block' s3 body
  end
with process_block' (s : st) (b : block) {struct b} : st :=
  match b with BNil => s | BCons x b' => process_block' (process_stmt' s x) b' end
with process_elif' (s : st) (a : arms) (kelse : st -> N -> st) (merge : N) {struct a} : st :=
  (* processIfStatementElif: the current block is the elif block; the converted If node has no location *)
  match a with
  | ANil => s
  | ACons _ body rest =>
      let cond := cur s in
      let s1 := add_stmt s cond (mk 0 0 KOther) in
      let (thenb, s2) := new_block s1 in
      let s3 := connect s2 cond thenb ECondTrue in
      let s4 := process_block' (set_cur s3 thenb) body in
      let then_end := cur s4 in
      let s5 :=
        match rest with
        | ACons _ _ _ =>
            let (elifb, t1) := new_block s4 in
            let t2 := connect t1 cond elifb ECondFalse in
            process_elif' (set_cur t2 elifb) rest kelse merge
        | ANil => kelse s4 cond
        end in
      let s6 := connect s5 then_end merge ENormal in
      set_cur s6 merge
  end
with process_handlers' (s : st) (hs : arms) (hbs : list N) (nxt : N) {struct hs} : st :=
  match hs, hbs with
  | ACons k b r, hb :: hbr =>
      let s1 := add_stmt (set_cur s hb) hb (mk k (N.max k (end_block b)) KOther) in
      let s2 := process_block' s1 b in
      let s3 := connect s2 (cur s2) nxt ENormal in
      process_handlers' s3 r hbr nxt
  | _, _ => s
  end
with process_cases' (s : st) (cs : arms) (mb merge : N) {struct cs} : st :=
  match cs with
  | ANil => s
  | ACons k b r =>
      let (cb, s1) := new_block s in
      let s2 := connect s1 mb cb ECondTrue in
      let s3 := add_stmt (set_cur s2 cb) cb (mk k (N.max k (end_block b)) KOther) in
      let s4 := process_block' s3 b in
      let s5 := connect s4 (cur s4) merge ENormal in
      process_cases' s5 r mb merge
  end.

Definition build' (body : block) : st :=
  let (fb, s1) := new_block init in
  let s2 := connect s1 entry_id fb ENormal in
  let s3 := process_block' (set_cur s2 fb) body in
  connect s3 (cur s3) exit_id ENormal.

(* ---- the specification proved by mutual induction ---- *)
Definition kelse_of (els : oblock) (merge : N) : st -> N -> st := fun t c =>
  match els with
  | OSome e =>
      let (elseb, t1) := new_block t in
      let t2 := connect t1 c elseb ECondFalse in
      let t3 := process_block (set_cur t2 elseb) e in
      connect_unless_exit t3 (cur t3) merge ENormal
  | ONone => connect t c merge ECondFalse
  end.
Definition kelse_of' (els : oblock) (merge : N) : st -> N -> st := fun t c =>
  match els with
  | OSome e =>
      let (elseb, t1) := new_block t in
      let t2 := connect t1 c elseb ECondFalse in
      let t3 := process_block' (set_cur t2 elseb) e in
      connect t3 (cur t3) merge ENormal
  | ONone => connect t c merge ECondFalse
  end.

Definition F_stmt (x : stmt) := forall s, wf s -> frame s (process_stmt s x) /\ process_stmt s x = process_stmt' s x.
Definition F_block (b : block) := forall s, wf s -> frame s (process_block s b) /\ process_block s b = process_block' s b.
Definition F_oblock (o : oblock) := match o with OSome b => F_block b | ONone => True end.
Definition F_elif (a : arms) := forall els merge s, F_oblock els -> wf s -> merge < next s -> a <> ANil ->
  let s' := process_elif s a (kelse_of els merge) merge in
  mid (eq (cur s)) s s' /\ loops s' = loops s /\ excs s' = excs s /\ cur s' = merge /\
  s' = process_elif' s a (kelse_of' els merge) merge.
Definition F_handlers (a : arms) := forall s hbs nxt, wfb s -> NoDup hbs ->
  (forall h, In h hbs -> h < next s /\ noout s h) -> nxt < next s ->
  let s' := process_handlers s a hbs nxt in
  mid (fun u => In u hbs) s s' /\ loops s' = loops s /\ excs s' = excs s /\
  s' = process_handlers' s a hbs nxt.
Definition F_cases (a : arms) := forall s mb merge, wfb s -> mb < next s -> merge < next s ->
  let s' := process_cases s a mb merge in
  mid (eq mb) s s' /\ loops s' = loops s /\ excs s' = excs s /\
  s' = process_cases' s a mb merge.
Definition F_arms (a : arms) := F_elif a /\ F_handlers a /\ F_cases a.

Lemma wfb_mid A s0 s :
  mid A s0 s -> wfb s0 -> loops s = loops s0 -> excs s = excs s0 -> wfb s.
Proof.
  intros M W Hl He. pose proof (m_next _ _ _ M) as Hn. split.
  - pose proof (wb_two _ W). lia.
  - apply M.
  - apply M.
  - rewrite He. eapply fin_lt_mono; [apply W|exact Hn].
  - rewrite Hl, He. eapply loops_lt_mono; [apply W|exact Hn].
Qed.

(* facts about the state a sub-block leaves behind, in the form the callers need *)
Lemma frame_sub A s0 s b (M : mid A s0 s) :
  F_block b -> wf s -> (A (cur s) \/ next s0 <= cur s) ->
  let s' := process_block s b in
  mid A s0 s' /\ loops s' = loops s /\ excs s' = excs s /\ cur s' < next s' /\ next s <= next s' /\
  (cur s' = cur s \/ next s <= cur s') /\
  noout s' (cur s') /\
  (forall p, noout s p -> p < next s -> p <> cur s -> noout s' p) /\
  s' = process_block' s b.
Proof.
  intros Fb W Ha s'. destruct (Fb s W) as (F & E). pose proof F as [M' L' E' C' K']. fold s' in F, E, M', L', E', C', K'.
  split; [eapply mid_trans; eauto|]. split; [congruence|]. split; [congruence|]. split; [exact C'|].
  split; [apply M'|]. split; [destruct K' as [(K1 & _)|(K1 & _)]; [left; exact K1|right; exact K1]|].
  split; [apply (wf_frame _ _ W F)|]. split; [|exact E].
  intros p No Hp Hd. eapply noout_mid; [exact No|exact M'| |exact Hp]. congruence.
Qed.

Lemma F_simple s x : wf s -> frame s (add_stmt s (cur s) x).
Proof. exact (frame_add_stmt s x). Qed.

Lemma connect_all_proj s a l t :
  cur (connect_all s a l t) = cur s /\ loops (connect_all s a l t) = loops s /\ excs (connect_all s a l t) = excs s /\
  blocks (connect_all s a l t) = blocks s.
Proof. revert s. induction l as [|x r IH]; intro s; [repeat split|]. cbn [connect_all]. destruct (IH (connect s a x t)) as (H1 & H2 & H3 & H4). repeat split; assumption. Qed.

Lemma fin_lt_in s x f : wf s -> In x (excs s) -> x_finally x = Some f -> f < next s.
Proof. intros W Hx Hf. destruct (wf_fin _ W x Hx) as (H & _). apply H. exact Hf. Qed.
Lemma hs_lt_in s x h : wf s -> In x (excs s) -> In h (x_handlers x) -> h < next s.
Proof. intros W Hx Hh. destruct (wf_fin _ W x Hx) as (_ & H). apply H. exact Hh. Qed.

Lemma F_return k : F_stmt (Return k).
Proof.
  intros s W. split; [|reflexivity]. cbn [process_stmt].
  pose proof (wf_cur _ W) as Hc. pose proof (wf_two _ W) as H2.
  assert (M1 : mid (eq (cur s)) s (add_stmt s (cur s) (mk k k KReturn))) by (apply mid_add_stmt, mid_refl; exact W).
  apply frame_jump; try exact W.
  - cbn [add_stmt cur excs]. destruct (return_target (cur s) (excs s)) as [f|] eqn:E.
    + apply mid_connect; [exact M1|left; reflexivity|exact Hc|]. destruct (return_target_in _ _ _ E) as (x & Hx & Hf).
      exact (fin_lt_in s x f W Hx Hf).
    + apply mid_connect; [exact M1|left; reflexivity|exact Hc|]. unfold exit_id. cbn [add_stmt next]. lia.
  - destruct (return_target _ _); reflexivity.
  - destruct (return_target _ _); reflexivity.
  - destruct (return_target _ _); reflexivity.
  - destruct (return_target _ _); reflexivity.
Qed.

Lemma F_raise k : F_stmt (Raise k).
Proof.
  intros s W. split; [|reflexivity]. cbn [process_stmt].
  pose proof (wf_cur _ W) as Hc. pose proof (wf_two _ W) as H2.
  assert (M1 : mid (eq (cur s)) s (add_stmt s (cur s) (mk k k KRaise))) by (apply mid_add_stmt, mid_refl; exact W).
  cbn [add_stmt cur excs].
  destruct (raise_target_in (excs s) None) as (R1 & R2).
  destruct (raise_target (excs s) None) as [[f|] [fb|]] eqn:E; cbn [fst snd] in R1, R2.
  - destruct (R1 f eq_refl) as (x & Hx & Hf).
    apply frame_jump; try exact W; try reflexivity.
    apply mid_connect; [exact M1|left; reflexivity|exact Hc|exact (fin_lt_in s x f W Hx Hf)].
  - destruct (R1 f eq_refl) as (x & Hx & Hf).
    apply frame_jump; try exact W; try reflexivity.
    apply mid_connect; [exact M1|left; reflexivity|exact Hc|exact (fin_lt_in s x f W Hx Hf)].
  - destruct (R2 fb eq_refl) as [R|R]; [discriminate|].
    destruct (x_handlers fb) as [|h hs] eqn:Eh.
    + apply frame_jump; try exact W; try reflexivity.
      apply mid_connect; [exact M1|left; reflexivity|exact Hc|]. unfold exit_id. cbn [add_stmt next]. lia.
    + destruct (connect_all_proj (add_stmt s (cur s) (mk k k KRaise)) (cur s) (h :: hs) EException) as (P1 & P2 & P3 & P4).
      apply frame_jump; try exact W; try assumption; [|rewrite connect_all_next; reflexivity].
      apply mid_connect_all; [exact M1|left; reflexivity|exact Hc|].
      intros b Hb. rewrite <- Eh in Hb. exact (hs_lt_in s fb b W R Hb).
  - apply frame_jump; try exact W; try reflexivity.
    apply mid_connect; [exact M1|left; reflexivity|exact Hc|]. unfold exit_id. cbn [add_stmt next]. lia.
Qed.

Lemma F_break k : F_stmt (Break k).
Proof.
  intros s W. split; [|reflexivity]. cbn [process_stmt].
  pose proof (wf_cur _ W) as Hc. pose proof (wf_two _ W) as H2.
  assert (M1 : mid (eq (cur s)) s (add_stmt s (cur s) (mk k k KBreak))) by (apply mid_add_stmt, mid_refl; exact W).
  cbn [add_stmt loops cur]. destruct (loops s) as [|l ls] eqn:El; [apply frame_add_stmt; exact W|].
  destruct (wf_loops _ W l) as (L1 & L2 & L3); [rewrite El; left; reflexivity|].
  apply frame_jump; try exact W.
  - destruct (jump_target _) as [f|] eqn:E.
    + apply mid_connect; [exact M1|left; reflexivity|exact Hc|]. destruct (jump_target_in _ _ E) as (x & Hx & Hf).
      apply in_loop_frames_in in Hx. exact (fin_lt_in s x f W Hx Hf).
    + apply mid_connect; [exact M1|left; reflexivity|exact Hc|exact L2].
  - destruct (jump_target _); reflexivity.
  - destruct (jump_target _); reflexivity.
  - destruct (jump_target _); reflexivity.
  - destruct (jump_target _); reflexivity.
Qed.

Lemma F_continue k : F_stmt (Continue k).
Proof.
  intros s W. split; [|reflexivity]. cbn [process_stmt].
  pose proof (wf_cur _ W) as Hc. pose proof (wf_two _ W) as H2.
  assert (M1 : mid (eq (cur s)) s (add_stmt s (cur s) (mk k k KContinue))) by (apply mid_add_stmt, mid_refl; exact W).
  cbn [add_stmt loops cur]. destruct (loops s) as [|l ls] eqn:El; [apply frame_add_stmt; exact W|].
  destruct (wf_loops _ W l) as (L1 & L2 & L3); [rewrite El; left; reflexivity|].
  apply frame_jump; try exact W.
  - destruct (jump_target _) as [f|] eqn:E.
    + apply mid_connect; [exact M1|left; reflexivity|exact Hc|]. destruct (jump_target_in _ _ E) as (x & Hx & Hf).
      apply in_loop_frames_in in Hx. exact (fin_lt_in s x f W Hx Hf).
    + apply mid_connect; [exact M1|left; reflexivity|exact Hc|exact L1].
  - destruct (jump_target _); reflexivity.
  - destruct (jump_target _); reflexivity.
  - destruct (jump_target _); reflexivity.
  - destruct (jump_target _); reflexivity.
Qed.

Lemma noout_edges_eq s s' p : edges s' = edges s -> noout s p -> noout s' p.
Proof. intros E No u v t Hin. rewrite E in Hin. eapply No; exact Hin. Qed.

Lemma noout_fresh_wf s p : wf s -> next s <= p -> noout s p.
Proof. intros W Hp. apply noout_fresh; [apply W|exact Hp]. Qed.

Lemma noout_cue s p a b t : noout s p -> a <> p -> noout (connect_unless_exit s a b t) p.
Proof. intros No Hne. unfold connect_unless_exit. destruct (has_successor s a exit_id); [exact No|apply noout_connect; assumption]. Qed.

(* ---- projections of the primitives (rewrite database [bst]) ---- *)
Lemma cue_loops s a b t : loops (connect_unless_exit s a b t) = loops s.
Proof. unfold connect_unless_exit. destruct (has_successor _ _ _); reflexivity. Qed.
Lemma cue_excs s a b t : excs (connect_unless_exit s a b t) = excs s.
Proof. unfold connect_unless_exit. destruct (has_successor _ _ _); reflexivity. Qed.
Lemma cue_cur s a b t : cur (connect_unless_exit s a b t) = cur s.
Proof. unfold connect_unless_exit. destruct (has_successor _ _ _); reflexivity. Qed.
Lemma cue_next s a b t : next (connect_unless_exit s a b t) = next s.
Proof. unfold connect_unless_exit. destruct (has_successor _ _ _); reflexivity. Qed.
Lemma cue_blocks s a b t : blocks (connect_unless_exit s a b t) = blocks s.
Proof. unfold connect_unless_exit. destruct (has_successor _ _ _); reflexivity. Qed.
Lemma cu_loops s a b t : loops (connect_unless s a b t) = loops s.
Proof. unfold connect_unless. destruct (has_successor _ _ _); reflexivity. Qed.
Lemma cu_excs s a b t : excs (connect_unless s a b t) = excs s.
Proof. unfold connect_unless. destruct (has_successor _ _ _); reflexivity. Qed.
Lemma cu_cur s a b t : cur (connect_unless s a b t) = cur s.
Proof. unfold connect_unless. destruct (has_successor _ _ _); reflexivity. Qed.
Lemma cu_next s a b t : next (connect_unless s a b t) = next s.
Proof. unfold connect_unless. destruct (has_successor _ _ _); reflexivity. Qed.
Lemma cu_blocks s a b t : blocks (connect_unless s a b t) = blocks s.
Proof. unfold connect_unless. destruct (has_successor _ _ _); reflexivity. Qed.

Lemma nb_next s : next (nb s) = N.succ (next s). Proof. reflexivity. Qed.
Lemma nb_cur s : cur (nb s) = cur s. Proof. reflexivity. Qed.
Lemma nb_loops s : loops (nb s) = loops s. Proof. reflexivity. Qed.
Lemma nb_excs s : excs (nb s) = excs s. Proof. reflexivity. Qed.
Lemma nb_edges s : edges (nb s) = edges s. Proof. reflexivity. Qed.
Lemma nb_blocks s : blocks (nb s) = (next s, []) :: blocks s. Proof. reflexivity. Qed.
Lemma co_next s a b t : next (connect s a b t) = next s. Proof. reflexivity. Qed.
Lemma co_cur s a b t : cur (connect s a b t) = cur s. Proof. reflexivity. Qed.
Lemma co_loops s a b t : loops (connect s a b t) = loops s. Proof. reflexivity. Qed.
Lemma co_excs s a b t : excs (connect s a b t) = excs s. Proof. reflexivity. Qed.
Lemma co_edges s a b t : edges (connect s a b t) = edges s ++ [(a, b, t)]. Proof. reflexivity. Qed.
Lemma co_blocks s a b t : blocks (connect s a b t) = blocks s. Proof. reflexivity. Qed.
Lemma as_next s b x : next (add_stmt s b x) = next s. Proof. reflexivity. Qed.
Lemma as_cur s b x : cur (add_stmt s b x) = cur s. Proof. reflexivity. Qed.
Lemma as_loops s b x : loops (add_stmt s b x) = loops s. Proof. reflexivity. Qed.
Lemma as_excs s b x : excs (add_stmt s b x) = excs s. Proof. reflexivity. Qed.
Lemma as_edges s b x : edges (add_stmt s b x) = edges s. Proof. reflexivity. Qed.
Lemma as_blocks s b x : blocks (add_stmt s b x) = add_to (blocks s) b x. Proof. reflexivity. Qed.
Lemma sc_next s b : next (set_cur s b) = next s. Proof. reflexivity. Qed.
Lemma sc_cur s b : cur (set_cur s b) = b. Proof. reflexivity. Qed.
Lemma sc_loops s b : loops (set_cur s b) = loops s. Proof. reflexivity. Qed.
Lemma sc_excs s b : excs (set_cur s b) = excs s. Proof. reflexivity. Qed.
Lemma sc_edges s b : edges (set_cur s b) = edges s. Proof. reflexivity. Qed.
Lemma sc_blocks s b : blocks (set_cur s b) = blocks s. Proof. reflexivity. Qed.
Lemma sl_next s l : next (set_loops s l) = next s. Proof. reflexivity. Qed.
Lemma sl_cur s l : cur (set_loops s l) = cur s. Proof. reflexivity. Qed.
Lemma sl_loops s l : loops (set_loops s l) = l. Proof. reflexivity. Qed.
Lemma sl_excs s l : excs (set_loops s l) = excs s. Proof. reflexivity. Qed.
Lemma sl_edges s l : edges (set_loops s l) = edges s. Proof. reflexivity. Qed.
Lemma sl_blocks s l : blocks (set_loops s l) = blocks s. Proof. reflexivity. Qed.
Lemma se_next s l : next (set_excs s l) = next s. Proof. reflexivity. Qed.
Lemma se_cur s l : cur (set_excs s l) = cur s. Proof. reflexivity. Qed.
Lemma se_loops s l : loops (set_excs s l) = loops s. Proof. reflexivity. Qed.
Lemma se_excs s l : excs (set_excs s l) = l. Proof. reflexivity. Qed.
Lemma se_edges s l : edges (set_excs s l) = edges s. Proof. reflexivity. Qed.
Lemma se_blocks s l : blocks (set_excs s l) = blocks s. Proof. reflexivity. Qed.
Lemma ca_next s a l t : next (connect_all s a l t) = next s. Proof. apply connect_all_next. Qed.
Lemma ca_cur s a l t : cur (connect_all s a l t) = cur s. Proof. apply connect_all_proj. Qed.
Lemma ca_loops s a l t : loops (connect_all s a l t) = loops s. Proof. apply connect_all_proj. Qed.
Lemma ca_excs s a l t : excs (connect_all s a l t) = excs s. Proof. apply connect_all_proj. Qed.
Lemma ca_blocks s a l t : blocks (connect_all s a l t) = blocks s. Proof. apply connect_all_proj. Qed.

Global Hint Rewrite cue_loops cue_excs cue_cur cue_next cue_blocks cu_loops cu_excs cu_cur cu_next cu_blocks
  nb_next nb_cur nb_loops nb_excs nb_edges nb_blocks co_next co_cur co_loops co_excs co_edges co_blocks
  as_next as_cur as_loops as_excs as_edges as_blocks sc_next sc_cur sc_loops sc_excs sc_edges sc_blocks
  sl_next sl_cur sl_loops sl_excs sl_edges sl_blocks se_next se_cur se_loops se_excs se_edges se_blocks
  ca_next ca_cur ca_loops ca_excs ca_blocks : bst.

Ltac bsimp := autorewrite with bst in *.
Ltac ulia := autorewrite with bst; lia.

(* ---- exposing the [let]s of one step of the builder: sub-call results become variables with an equation,
        everything else is inlined ---- *)
Lemma peel {A B} (a : A) (f : A -> B) (Q : B -> Prop) : (forall x, x = a -> Q (f x)) -> Q (let x := a in f x).
Proof. intros H. exact (H a eq_refl). Qed.

Ltac is_sub a :=
  lazymatch a with
  | process_block _ _ => idtac | process_block' _ _ => idtac
  | process_stmt _ _ => idtac | process_stmt' _ _ => idtac
  | process_elif _ _ _ _ => idtac | process_elif' _ _ _ _ => idtac
  | process_handlers _ _ _ _ => idtac | process_handlers' _ _ _ _ => idtac
  | process_cases _ _ _ _ => idtac | process_cases' _ _ _ _ => idtac
  end.

Ltac peel_step sfx :=
  lazymatch goal with
  | |- context [let (a, b) := new_block ?s in _] => rewrite (new_block_eq s); cbv beta iota
  | |- context [let x := ?a in @?f x] =>
      let t := constr:(let x := a in f x) in
      let t' := eval cbv beta in t in
      pattern t';
      lazymatch goal with |- ?Q _ =>
        let nm := fresh x sfx in let eq := fresh "E" x sfx in
        apply (peel a f Q); intros nm eq; cbv beta;
        tryif is_sub a then idtac else subst nm
      end
  end.
Ltac peel_all sfx := repeat peel_step sfx.
Ltac open_stmt := cbn beta iota delta [process_stmt] fix match; peel_all ident:(u).
Ltac open_stmt' := cbn beta iota delta [process_stmt'] fix match; peel_all ident:(p).

Lemma frame_finish A s s0 sf c :
  mid (eq (cur s)) s s0 -> mid A s0 sf -> (forall u, A u -> u = cur s \/ next s <= u) ->
  loops sf = loops s -> excs sf = excs s -> next s <= c -> c < next s0 -> ~ A c -> noout s0 c ->
  frame s (set_cur sf c).
Proof.
  intros M0 Mf HA Hl He Hc1 Hc2 HnA No. pose proof (m_next _ _ _ Mf) as Hn. split.
  - apply mid_set_cur. apply (mid_transA _ A s s0); try assumption.
    intros u Hu. destruct (HA u Hu) as [->|Hlu]; [left; reflexivity|right; exact Hlu].
  - exact Hl.
  - exact He.
  - cbn [set_cur cur next]. lia.
  - right. split; [exact Hc1|]. apply (noout_edges_eq sf); [reflexivity|]. apply (noout_mid A s0); assumption.
Qed.

(* the part all forms of [if] share: condition block, then-block, merge block, then-body *)
Definition if_s0 (s : st) (k e : N) : st := nb (nb (add_stmt s (cur s) (mk k e KOther))).
Definition if_s4 (s : st) (k e : N) : st := connect (if_s0 s k e) (cur s) (next s) ECondTrue.
Definition if_A (s : st) (u : N) : Prop := u = cur s \/ u = next s.

Lemma if_prefix s k e body : wf s -> F_block body ->
  let s0 := if_s0 s k e in
  let s5 := process_block (set_cur (if_s4 s k e) (next s)) body in
  mid (eq (cur s)) s s0 /\ wf s0 /\ (forall p, next s <= p -> noout s0 p) /\
  mid (if_A s) s0 s5 /\ loops s5 = loops s /\ excs s5 = excs s /\ cur s5 < next s5 /\ N.succ (N.succ (next s)) <= next s5 /\
  (cur s5 = next s \/ N.succ (N.succ (next s)) <= cur s5) /\ noout s5 (cur s5) /\
  s5 = process_block' (set_cur (if_s4 s k e) (next s)) body.
Proof.
  intros W Fb s0 s5. pose proof (wf_cur _ W) as Wc.
  assert (M0 : mid (eq (cur s)) s s0) by (repeat apply mid_nb; apply mid_add_stmt, mid_refl; exact W).
  assert (W0 : wf s0).
  { apply (wf_same _ _ _ M0 W); [unfold s0, if_s0; ulia|reflexivity|reflexivity|apply (noout_edges_eq s); [reflexivity|apply W]]. }
  assert (No0 : forall p, next s <= p -> noout s0 p) by (intros p Hp; apply (noout_edges_eq s); [reflexivity|apply noout_fresh_wf; assumption]).
  assert (M4 : mid (if_A s) s0 (if_s4 s k e)).
  { apply mid_connect; [apply mid_refl, W0|left; left; reflexivity|unfold s0, if_s0; ulia|unfold s0, if_s0; ulia]. }
  assert (W4 : wf (set_cur (if_s4 s k e) (next s))).
  { apply (wf_same (if_A s) s0); [apply mid_set_cur; exact M4|exact W0|unfold if_s4, if_s0; ulia|reflexivity|reflexivity|].
    apply noout_connect; [apply No0; ulia|ulia]. }
  destruct (frame_sub (if_A s) s0 (set_cur (if_s4 s k e) (next s)) body (mid_set_cur _ _ _ _ M4) Fb W4) as (M5 & L5 & E5 & C5 & N5 & K5 & No5 & Np5 & Q5);
    [left; right; reflexivity|]. fold s5 in M5, L5, E5, C5, N5, K5, No5, Np5, Q5.
  unfold if_s4, if_s0 in L5, E5, N5, K5. autorewrite with bst in L5, E5, N5, K5.
  repeat (split; [assumption|]). exact Q5.
Qed.

Lemma if_A_ok s u : if_A s u -> u = cur s \/ next s <= u.
Proof. intros [->| ->]; [left; reflexivity|right; lia]. Qed.

Lemma F_if_nil_none k body : F_block body -> F_stmt (If k body ANil ONone).
Proof.
  intros Fb s W. pose (e := end_stmt (If k body ANil ONone)).
  open_stmt. open_stmt'. bsimp.
  pose proof (wf_cur _ W) as Wc.
  assert (E5 : s5u = process_block (set_cur (if_s4 s k e) (next s)) body) by exact Es5u.
  assert (E5' : s5p = process_block' (set_cur (if_s4 s k e) (next s)) body) by exact Es5p.
  destruct (if_prefix s k e body W Fb) as (M0 & W0 & No0 & M5 & L5 & X5 & C5 & N5 & K5 & No5 & Q5).
  rewrite <- E5 in M5, L5, X5, C5, N5, K5, No5, Q5. rewrite <- E5' in Q5. clear E5' Es5p Es5u E5. subst s5p.
  set (merge := N.succ (next s)) in *.
  assert (X7 : connect_unless_exit (connect s5u (cur s) merge ECondFalse) (cur s5u) merge ENormal
               = connect (connect s5u (cur s) merge ECondFalse) (cur s5u) merge ENormal).
  { apply cue_noout. apply noout_connect; [exact No5|]. unfold merge in *; lia. }
  rewrite X7. split; [|reflexivity].
  apply (frame_finish (if_A s) s (if_s0 s k e)); [exact M0| |apply if_A_ok|exact L5|exact X5|unfold merge; lia|unfold if_s0, merge; ulia
    |unfold if_A, merge; lia|apply No0; unfold merge; lia].
  apply mid_connect; [apply mid_connect; [exact M5|left; left; reflexivity|lia|unfold merge in *; lia]| |ulia|unfold merge in *; ulia].
  destruct K5 as [->|K5]; [left; right; reflexivity|right; unfold if_s0; ulia].
Qed.

Ltac if_pre s k e body W Fb s5u s5p Es5u Es5p :=
  let E5 := fresh "E5" in let E5' := fresh "E5'" in
  assert (E5 : s5u = process_block (set_cur (if_s4 s k e) (next s)) body) by exact Es5u;
  assert (E5' : s5p = process_block' (set_cur (if_s4 s k e) (next s)) body) by exact Es5p;
  destruct (if_prefix s k e body W Fb) as (M0 & W0 & No0 & M5 & L5 & X5 & C5 & N5 & K5 & No5 & Q5);
  rewrite <- E5 in M5, L5, X5, C5, N5, K5, No5, Q5; rewrite <- E5' in Q5; clear E5' Es5p Es5u E5; subst s5p.

Lemma F_if_nil_some k body eb : F_block body -> F_block eb -> F_stmt (If k body ANil (OSome eb)).
Proof.
  intros Fb Fe s W. pose (e := end_stmt (If k body ANil (OSome eb))).
  open_stmt. open_stmt'. bsimp.
  pose proof (wf_cur _ W) as Wc.
  if_pre s k e body W Fb s5u s5p Es5u Es5p.
  set (s7 := connect (nb s5u) (cur s) (next s5u) ECondFalse) in *.
  assert (M7 : mid (if_A s) (if_s0 s k e) s7) by (apply mid_connect; [apply mid_nb; exact M5|left; left; reflexivity|ulia|ulia]).
  assert (W7 : wf (set_cur s7 (next s5u))).
  { apply (wf_same (if_A s) (if_s0 s k e)); [apply mid_set_cur; exact M7|exact W0|unfold s7; ulia|exact L5|exact X5|].
    apply noout_connect; [|ulia]. apply (noout_edges_eq s5u); [reflexivity|]. apply noout_fresh; [apply M5|ulia]. }
  destruct (frame_sub (if_A s) (if_s0 s k e) (set_cur s7 (next s5u)) eb (mid_set_cur _ _ _ _ M7) Fe W7)
    as (M8 & L8 & X8 & C8 & N8 & K8 & No8 & Np8 & Q8); [right; unfold if_s0; ulia|].
  rewrite <- Es8u in M8, L8, X8, C8, N8, K8, No8, Np8, Q8. rewrite <- Es8p in Q8. clear Es8u Es8p. subst s8p.
  unfold s7 in L8, X8, N8, K8. autorewrite with bst in L8, X8, N8, K8.
  assert (Nt8 : noout s8u (cur s5u)).
  { apply Np8; [apply noout_connect; [exact No5|lia]|unfold s7; ulia|ulia]. }
  rewrite (cue_noout s8u (cur s5u) _ ENormal Nt8). autorewrite with bst.
  rewrite cue_noout by (apply noout_connect; [exact No8|lia]).
  split; [|reflexivity].
  apply (frame_finish (if_A s) s (if_s0 s k e)); [exact M0| |apply if_A_ok|autorewrite with bst; congruence|autorewrite with bst; congruence|lia|unfold if_s0; ulia
    |unfold if_A; lia|apply No0; lia].
  apply mid_connect; [apply mid_connect; [exact M8| |lia|lia]| |ulia|ulia].
  - destruct K5 as [->|K5]; [left; right; reflexivity|right; unfold if_s0; ulia].
  - right. unfold if_s0. ulia.
Qed.

Lemma noout_fresh_b s p : wfb s -> next s <= p -> noout s p.
Proof. intros W Hp. apply noout_fresh; [apply W|exact Hp]. Qed.

(* a sub-block processed from a block [c] that is fresh or pending: what the callers need *)
Lemma sub_block A s0 s c b :
  mid A s0 s -> wfb s0 -> loops s = loops s0 -> excs s = excs s0 -> F_block b ->
  c < next s -> noout s c -> (A c \/ next s0 <= c) ->
  let s' := process_block (set_cur s c) b in
  mid A s0 s' /\ loops s' = loops s0 /\ excs s' = excs s0 /\ cur s' < next s' /\ next s <= next s' /\
  (cur s' = c \/ next s <= cur s') /\ noout s' (cur s') /\
  (forall p, noout s p -> p < next s -> p <> c -> noout s' p) /\
  s' = process_block' (set_cur s c) b.
Proof.
  intros M Wb Hl He Fb Hc No Ha s'.
  assert (W : wf (set_cur s c)) by (apply wfb_wf; [apply (wfb_mid A s0); assumption|exact Hc|exact No]).
  destruct (frame_sub A s0 (set_cur s c) b (mid_set_cur _ _ _ _ M) Fb W Ha) as (M' & L' & E' & C' & N' & K' & No' & Np' & Q').
  fold s' in M', L', E', C', N', K', No', Np', Q'. autorewrite with bst in L', E', N', K', Np'.
  repeat (split; [first [assumption|congruence]|]). exact Q'.
Qed.

(* the final else of an elif chain *)
Lemma kelse_spec els merge t c :
  F_oblock els -> wfb t -> c < next t -> merge < next t ->
  let t' := kelse_of els merge t c in
  mid (eq c) t t' /\ loops t' = loops t /\ excs t' = excs t /\ t' = kelse_of' els merge t c.
Proof.
  intros Fe Wt Hc Hm. destruct els as [|eb]; cbn [kelse_of kelse_of'].
  - split; [|repeat split]. apply mid_connect; [apply mid_refl_b; exact Wt|left; reflexivity|exact Hc|exact Hm].
  - rewrite !new_block_eq. cbv beta iota. peel_all ident:(u). bsimp.
    set (t2 := connect (nb t) c (next t) ECondFalse) in *.
    assert (M2 : mid (eq c) t t2) by (apply mid_connect; [apply mid_nb, mid_refl_b; exact Wt|left; reflexivity|ulia|ulia]).
    destruct (sub_block (eq c) t t2 (next t) eb M2 Wt eq_refl eq_refl Fe) as (M3 & L3 & E3 & C3 & N3 & K3 & No3 & Np3 & Q3).
    { unfold t2; ulia. }
    { apply noout_connect; [|lia]. apply (noout_edges_eq t); [reflexivity|]. apply noout_fresh_b; [exact Wt|lia]. }
    { right; lia. }
    rewrite <- Q3. set (t3 := process_block (set_cur t2 (next t)) eb) in *.
    unfold t2 in N3, K3. autorewrite with bst in N3, K3.
    rewrite (cue_noout _ _ _ _ No3). split; [|repeat split; assumption].
    apply mid_connect; [exact M3|right; lia|exact C3|lia].
Qed.

Lemma F_elif_cons k1 b1 rest : F_block b1 -> F_elif rest -> F_elif (ACons k1 b1 rest).
Proof.
  intros Fb Fr els merge s Fe W Hm _. cbv zeta.
  cbn beta iota delta [process_elif process_elif'] fix match. peel_all ident:(u). bsimp.
  pose proof (wf_cur _ W) as Wc. pose proof (wf_wfb _ W) as Wb.
  set (s3 := connect (nb (add_stmt s (cur s) (mk 0 0 KOther))) (cur s) (next s) ECondTrue) in *.
  assert (M3 : mid (eq (cur s)) s s3) by (apply mid_connect; [apply mid_nb, mid_add_stmt, mid_refl; exact W|left; reflexivity|ulia|ulia]).
  destruct (sub_block (eq (cur s)) s s3 (next s) b1 M3 Wb eq_refl eq_refl Fb) as (M4 & L4 & E4 & C4 & N4 & K4 & No4 & Np4 & Q4).
  { unfold s3; ulia. }
  { apply noout_connect; [|lia]. apply (noout_edges_eq s); [reflexivity|]. apply noout_fresh_b; [exact Wb|lia]. }
  { right; lia. }
  rewrite <- Es4u in M4, L4, E4, C4, N4, K4, No4, Np4, Q4. rewrite <- Es4u0 in Q4. clear Es4u Es4u0. subst s4u0.
  unfold s3 in N4, K4. autorewrite with bst in N4, K4.
  assert (Wb4 : wfb s4u) by (apply (wfb_mid _ _ _ M4 Wb); assumption).
  set (s5 := match rest with
             | ANil => kelse_of els merge s4u (cur s)
             | ACons _ _ _ => process_elif (set_cur (connect (nb s4u) (cur s) (next s4u) ECondFalse) (next s4u)) rest (kelse_of els merge) merge
             end).
  assert (H5 : mid (eq (cur s)) s4u s5 /\ loops s5 = loops s4u /\ excs s5 = excs s4u /\
               s5 = match rest with
                    | ANil => kelse_of' els merge s4u (cur s)
                    | ACons _ _ _ => process_elif' (set_cur (connect (nb s4u) (cur s) (next s4u) ECondFalse) (next s4u)) rest (kelse_of' els merge) merge
                    end).
  { unfold s5. destruct rest as [|k2 b2 rest'].
    - apply kelse_spec; [exact Fe|exact Wb4|lia|lia].
    - set (t2 := connect (nb s4u) (cur s) (next s4u) ECondFalse).
      assert (M2 : mid (eq (cur s)) s4u t2) by (apply mid_connect; [apply mid_nb, mid_refl_b; exact Wb4|left; reflexivity|ulia|ulia]).
      assert (W2 : wf (set_cur t2 (next s4u))).
      { apply wfb_wf; [apply (wfb_mid _ _ _ M2 Wb4); reflexivity|unfold t2; ulia|].
        apply noout_connect; [|lia]. apply (noout_edges_eq s4u); [reflexivity|]. apply noout_fresh_b; [exact Wb4|lia]. }
      destruct (Fr els merge (set_cur t2 (next s4u)) Fe W2) as (M5 & L5 & E5 & C5 & Q5); [unfold t2; ulia|discriminate|].
      split; [|split; [exact L5|split; [exact E5|exact Q5]]].
      apply (mid_transA _ (eq (next s4u)) s4u (set_cur t2 (next s4u))); [apply mid_set_cur; exact M2|exact M5|].
      intros u <-. right. lia. }
  destruct H5 as (M5 & L5 & E5 & Q5). rewrite <- Q5. clearbody s5.
  assert (No5 : noout s5 (cur s4u)).
  { apply (noout_mid (eq (cur s)) s4u); [exact No4|exact M5|lia|exact C4]. }
  rewrite (cue_noout _ _ _ _ No5).
  pose proof (m_next _ _ _ M5) as N5.
  split; [|split; [|split; [|split]]]; try reflexivity; try congruence.
  apply mid_set_cur, mid_connect; [|right; lia|lia|lia].
  apply (mid_transA _ (eq (cur s)) s s4u); [exact M4|exact M5|]. intros u <-. left. reflexivity.
Qed.

Lemma F_if_elif k body k1 b1 rest els :
  F_block body -> F_elif (ACons k1 b1 rest) -> F_oblock els -> F_stmt (If k body (ACons k1 b1 rest) els).
Proof.
  intros Fb Fa Fe s W. pose (e := end_stmt (If k body (ACons k1 b1 rest) els)).
  open_stmt. open_stmt'. bsimp.
  pose proof (wf_cur _ W) as Wc.
  if_pre s k e body W Fb s5u s5p Es5u Es5p.
  set (merge := N.succ (next s)) in *.
  set (s7 := connect (nb s5u) (cur s) (next s5u) ECondFalse) in *.
  change (s8u = process_elif (set_cur s7 (next s5u)) (ACons k1 b1 rest) (kelse_of els merge) merge) in Es8u.
  change (s8p = process_elif' (set_cur s7 (next s5u)) (ACons k1 b1 rest) (kelse_of' els merge) merge) in Es8p.
  assert (M7 : mid (if_A s) (if_s0 s k e) s7) by (apply mid_connect; [apply mid_nb; exact M5|left; left; reflexivity|ulia|ulia]).
  assert (W7 : wf (set_cur s7 (next s5u))).
  { apply (wf_same (if_A s) (if_s0 s k e)); [apply mid_set_cur; exact M7|exact W0|unfold s7; ulia|exact L5|exact X5|].
    apply noout_connect; [|ulia]. apply (noout_edges_eq s5u); [reflexivity|]. apply noout_fresh; [apply M5|ulia]. }
  destruct (Fa els merge (set_cur s7 (next s5u)) Fe W7) as (M8 & L8 & X8 & C8 & Q8); [unfold s7, merge in *; ulia|discriminate|].
  rewrite <- Es8u in M8, L8, X8, C8, Q8. rewrite <- Es8p in Q8. clear Es8u Es8p. subst s8p.
  unfold s7 in L8, X8. autorewrite with bst in L8, X8.
  assert (M8' : mid (if_A s) (if_s0 s k e) s8u).
  { apply (mid_transA _ (eq (next s5u)) (if_s0 s k e) (set_cur s7 (next s5u))); [apply mid_set_cur; exact M7|exact M8|].
    intros u <-. right. unfold if_s0, merge in *. ulia. }
  assert (Nt8 : noout s8u (cur s5u)).
  { apply (noout_mid (eq (next s5u)) (set_cur s7 (next s5u))); [apply noout_connect; [exact No5|unfold merge in *; lia]|exact M8|lia|unfold s7; ulia]. }
  rewrite (cue_noout _ _ _ _ Nt8). split; [|reflexivity].
  pose proof (m_next _ _ _ M8) as N8. unfold s7 in N8. autorewrite with bst in N8.
  apply (frame_finish (if_A s) s (if_s0 s k e)); [exact M0| |apply if_A_ok|autorewrite with bst; congruence|autorewrite with bst; congruence
    |unfold merge; lia|unfold if_s0, merge; ulia|unfold if_A, merge; lia|apply No0; unfold merge; lia].
  apply mid_connect; [exact M8'| |lia|unfold merge in *; lia].
  destruct K5 as [->|K5]; [left; right; reflexivity|right; unfold if_s0, merge in *; ulia].
Qed.

(* ---- loops: header, body, exit (and else) blocks, the loop context, the body ---- *)
Definition loop_s6 (s : st) (k e : N) (hasel : bool) : st :=
  let t := nb (nb (add_stmt (connect (nb s) (cur s) (next s) ENormal) (next s) (mk k e KOther))) in
  if hasel then nb t else t.
Definition loop_ctx (s : st) : loopctx :=
  {| l_header := next s; l_exit := N.succ (N.succ (next s)); l_excdepth := length (excs s) |}.
Definition loop_s9 (s : st) (k e : N) (hasel : bool) : st :=
  connect (connect (set_loops (loop_s6 s k e hasel) (loop_ctx s :: loops s)) (next s) (N.succ (next s)) ECondTrue)
          (next s) (if hasel then N.succ (N.succ (N.succ (next s))) else N.succ (N.succ (next s))) ECondFalse.
Definition loop_B (s : st) (u : N) : Prop :=
  u = next s \/ u = N.succ (next s) \/ u = N.succ (N.succ (N.succ (next s))).

Lemma loop_s6_proj s k e hasel :
  next (loop_s6 s k e hasel) = (if hasel then N.succ (N.succ (N.succ (N.succ (next s)))) else N.succ (N.succ (N.succ (next s)))) /\
  cur (loop_s6 s k e hasel) = cur s /\ loops (loop_s6 s k e hasel) = loops s /\ excs (loop_s6 s k e hasel) = excs s /\
  edges (loop_s6 s k e hasel) = edges s ++ [(cur s, next s, ENormal)].
Proof. destruct hasel; repeat split. Qed.

Lemma loop_prefix s k e hasel body : wf s -> F_block body ->
  let s6 := loop_s6 s k e hasel in
  let s10 := process_block (set_cur (loop_s9 s k e hasel) (N.succ (next s))) body in
  mid (eq (cur s)) s s6 /\ wfb s6 /\ (forall p, next s <= p -> noout s6 p) /\
  mid (loop_B s) s6 s10 /\ loops s10 = loop_ctx s :: loops s /\ excs s10 = excs s /\ cur s10 < next s10 /\
  next s6 <= next s10 /\ (cur s10 = N.succ (next s) \/ next s6 <= cur s10) /\ noout s10 (cur s10) /\
  (forall p, next s <= p -> p < next s6 -> p <> next s -> p <> N.succ (next s) -> noout s10 p) /\
  s10 = process_block' (set_cur (loop_s9 s k e hasel) (N.succ (next s))) body.
Proof.
  intros W Fb s6 s10. pose proof (wf_cur _ W) as Wc. pose proof (wf_wfb _ W) as Wb.
  destruct (loop_s6_proj s k e hasel) as (P1 & P2 & P3 & P4 & P5). fold s6 in P1, P2, P3, P4, P5.
  assert (M6 : mid (eq (cur s)) s s6).
  { unfold s6, loop_s6. cbv zeta.
    assert (M : mid (eq (cur s)) s (nb (nb (add_stmt (connect (nb s) (cur s) (next s) ENormal) (next s) (mk k e KOther))))).
    { repeat apply mid_nb. apply mid_add_stmt. apply mid_connect; [apply mid_nb, mid_refl; exact W|left; reflexivity|ulia|ulia]. }
    destruct hasel; [apply mid_nb|]; exact M. }
  assert (Wb6 : wfb s6) by (apply (wfb_mid _ _ _ M6 Wb); assumption).
  assert (No6 : forall p, next s <= p -> noout s6 p).
  { intros p Hp u v t Hin. rewrite P5 in Hin. apply in_app_or in Hin. destruct Hin as [Hin|[Heq|[]]].
    - pose proof (wf_bnd _ W u v t Hin). lia.
    - inversion Heq; subst. lia. }
  assert (Hn6 : N.succ (N.succ (N.succ (next s))) <= next s6) by (rewrite P1; destruct hasel; lia).
  assert (M9 : mid (loop_B s) s6 (loop_s9 s k e hasel)).
  { unfold loop_s9. apply mid_connect; [apply mid_connect; [apply mid_set_loops, mid_refl_b; exact Wb6| | |]| | |];
      autorewrite with bst; fold s6; try (left; left; reflexivity); try lia. destruct hasel; lia. }
  assert (W9 : wf (set_cur (loop_s9 s k e hasel) (N.succ (next s)))).
  { apply (wf_intro (loop_B s) s6); [apply mid_set_cur; exact M9|apply Wb6| | | |]; unfold loop_s9; autorewrite with bst; fold s6.
    - lia.
    - rewrite P4. eapply fin_lt_mono; [apply W|lia].
    - rewrite P4. intros l [<-|Hl].
      + cbn [loop_ctx l_header l_exit l_excdepth]. repeat split; lia.
      + destruct (wf_loops _ W l Hl) as (H1 & H2 & H3). repeat split; lia.
    - repeat apply noout_connect; try lia. apply (noout_edges_eq s6); [reflexivity|]. apply No6. lia. }
  destruct (frame_sub (loop_B s) s6 (set_cur (loop_s9 s k e hasel) (N.succ (next s))) body (mid_set_cur _ _ _ _ M9) Fb W9)
    as (M10 & L10 & E10 & C10 & N10 & K10 & No10 & Np10 & Q10); [left; right; left; reflexivity|].
  fold s10 in M10, L10, E10, C10, N10, K10, No10, Np10, Q10.
  unfold loop_s9 in L10, E10, N10, K10. autorewrite with bst in L10, E10, N10, K10. fold s6 in L10, E10, N10, K10.
  rewrite P4 in E10.
  repeat (split; [assumption|]). split; [|exact Q10].
  intros p Hp1 Hp2 Hp3 Hp4. apply Np10.
  - unfold loop_s9. repeat apply noout_connect; try lia. apply (noout_edges_eq s6); [reflexivity|]. apply No6. exact Hp1.
  - unfold loop_s9. autorewrite with bst. fold s6. exact Hp2.
  - autorewrite with bst. exact Hp4.
Qed.

Lemma loop_B_ok s u : loop_B s u -> u = cur s \/ next s <= u.
Proof. intros [->|[->| ->]]; right; lia. Qed.

Ltac loop_pre s k e hasel body W Fb s10u s10p Es10u Es10p :=
  let E5 := fresh "E5" in let E5' := fresh "E5'" in
  assert (E5 : s10u = process_block (set_cur (loop_s9 s k e hasel) (N.succ (next s))) body) by exact Es10u;
  assert (E5' : s10p = process_block' (set_cur (loop_s9 s k e hasel) (N.succ (next s))) body) by exact Es10p;
  destruct (loop_prefix s k e hasel body W Fb) as (M6 & Wb6 & No6 & M10 & L10 & X10 & C10 & N10 & K10 & No10 & Np10 & Q10);
  destruct (loop_s6_proj s k e hasel) as (P1 & P2 & P3 & P4 & P5);
  rewrite <- E5 in M10, L10, X10, C10, N10, K10, No10, Np10, Q10; rewrite <- E5' in Q10; clear E5' Es10p Es10u E5; subst s10p.

Lemma F_while_none k body : F_block body -> F_stmt (While k body ONone).
Proof.
  intros Fb s W. pose (e := end_stmt (While k body ONone)). open_stmt. open_stmt'. bsimp.
  pose proof (wf_cur _ W) as Wc.
  loop_pre s k e false body W Fb s10u s10p Es10u Es10p. rewrite P1 in N10, K10, Np10.
  rewrite L10. cbn [tl].
  rewrite (cue_noout _ _ _ _ No10). split; [|reflexivity].
  apply (frame_finish (loop_B s) s (loop_s6 s k e false)); [exact M6| |apply loop_B_ok|reflexivity|autorewrite with bst; exact X10
    |lia|rewrite P1; lia|unfold loop_B; lia|apply No6; lia].
  apply mid_set_loops, mid_connect; [exact M10| |exact C10|lia].
  destruct K10 as [->|K10]; [left; right; left; reflexivity|right; rewrite P1; exact K10].
Qed.

Lemma F_while_some k body eb : F_block body -> F_block eb -> F_stmt (While k body (OSome eb)).
Proof.
  intros Fb Fe s W. pose (e := end_stmt (While k body (OSome eb))). open_stmt. open_stmt'. bsimp.
  pose proof (wf_cur _ W) as Wc.
  loop_pre s k e true body W Fb s10u s10p Es10u Es10p. rewrite P1 in N10, K10, Np10.
  rewrite L10 in *. cbn [tl] in *.
  rewrite (cue_noout _ _ _ _ No10) in *.
  set (elseb := N.succ (N.succ (N.succ (next s)))) in *.
  set (s12 := set_loops (connect s10u (cur s10u) (next s) ELoop) (loops s)) in *.
  assert (M12 : mid (loop_B s) (loop_s6 s k e true) s12).
  { apply mid_set_loops, mid_connect; [exact M10| |exact C10|lia].
    destruct K10 as [->|K10]; [left; right; left; reflexivity|right; rewrite P1; exact K10]. }
  destruct (sub_block (loop_B s) (loop_s6 s k e true) s12 elseb eb M12 Wb6) as (M13 & L13 & X13 & C13 & N13 & K13 & No13 & Np13 & Q13).
  { rewrite P3. reflexivity. }
  { rewrite P4. unfold s12. autorewrite with bst. exact X10. }
  { exact Fe. }
  { unfold s12, elseb. autorewrite with bst. lia. }
  { apply (noout_edges_eq (connect s10u (cur s10u) (next s) ELoop)); [reflexivity|]. apply noout_connect; [|unfold elseb; lia].
    apply Np10; unfold elseb; lia. }
  { left. right. right. reflexivity. }
  rewrite <- Et1u in M13, L13, X13, C13, N13, K13, No13, Np13, Q13. rewrite <- Et1p in Q13. clear Et1u Et1p. subst t1p.
  unfold s12 in N13, K13. autorewrite with bst in N13, K13.
  rewrite (cue_noout _ _ _ _ No13). split; [|reflexivity].
  apply (frame_finish (loop_B s) s (loop_s6 s k e true)); [exact M6| |apply loop_B_ok|autorewrite with bst; congruence|autorewrite with bst; congruence
    |lia|rewrite P1; lia|unfold loop_B; lia|apply No6; lia].
  apply mid_connect; [exact M13| |exact C13|lia].
  destruct K13 as [->|K13]; [left; right; right; reflexivity|right; rewrite P1; unfold elseb in *; lia].
Qed.

Lemma F_for_none k body : F_block body -> F_stmt (For k body ONone).
Proof.
  intros Fb s W. pose (e := end_stmt (For k body ONone)). open_stmt. open_stmt'. bsimp.
  pose proof (wf_cur _ W) as Wc.
  loop_pre s k e false body W Fb s10u s10p Es10u Es10p. rewrite P1 in N10, K10, Np10.
  rewrite L10. cbn [tl].
  rewrite (cue_noout _ _ _ _ No10). split; [|reflexivity].
  apply (frame_finish (loop_B s) s (loop_s6 s k e false)); [exact M6| |apply loop_B_ok|reflexivity|autorewrite with bst; exact X10
    |lia|rewrite P1; lia|unfold loop_B; lia|apply No6; lia].
  apply mid_set_loops, mid_connect; [exact M10| |exact C10|lia].
  destruct K10 as [->|K10]; [left; right; left; reflexivity|right; rewrite P1; exact K10].
Qed.

Lemma F_for_some k body eb : F_block body -> F_block eb -> F_stmt (For k body (OSome eb)).
Proof.
  intros Fb Fe s W. pose (e := end_stmt (For k body (OSome eb))). open_stmt. open_stmt'. bsimp.
  pose proof (wf_cur _ W) as Wc.
  loop_pre s k e true body W Fb s10u s10p Es10u Es10p. rewrite P1 in N10, K10, Np10.
  rewrite L10 in *. cbn [tl] in *.
  rewrite (cue_noout _ _ _ _ No10) in *.
  set (elseb := N.succ (N.succ (N.succ (next s)))) in *.
  set (s12 := set_loops (connect s10u (cur s10u) (next s) ELoop) (loops s)) in *.
  assert (M12 : mid (loop_B s) (loop_s6 s k e true) s12).
  { apply mid_set_loops, mid_connect; [exact M10| |exact C10|lia].
    destruct K10 as [->|K10]; [left; right; left; reflexivity|right; rewrite P1; exact K10]. }
  destruct (sub_block (loop_B s) (loop_s6 s k e true) s12 elseb eb M12 Wb6) as (M13 & L13 & X13 & C13 & N13 & K13 & No13 & Np13 & Q13).
  { rewrite P3. reflexivity. }
  { rewrite P4. unfold s12. autorewrite with bst. exact X10. }
  { exact Fe. }
  { unfold s12, elseb. autorewrite with bst. lia. }
  { apply (noout_edges_eq (connect s10u (cur s10u) (next s) ELoop)); [reflexivity|]. apply noout_connect; [|unfold elseb; lia].
    apply Np10; unfold elseb; lia. }
  { left. right. right. reflexivity. }
  rewrite <- Et1u in M13, L13, X13, C13, N13, K13, No13, Np13, Q13. rewrite <- Et1p in Q13. clear Et1u Et1p. subst t1p.
  unfold s12 in N13, K13. autorewrite with bst in N13, K13.
  rewrite (cue_noout _ _ _ _ No13). split; [|reflexivity].
  apply (frame_finish (loop_B s) s (loop_s6 s k e true)); [exact M6| |apply loop_B_ok|autorewrite with bst; congruence|autorewrite with bst; congruence
    |lia|rewrite P1; lia|unfold loop_B; lia|apply No6; lia].
  apply mid_connect; [exact M13| |exact C13|lia].
  destruct K13 as [->|K13]; [left; right; right; reflexivity|right; rewrite P1; unfold elseb in *; lia].
Qed.


(* entering a statement that starts with a fresh block: [cur -> next s] is the only new edge *)
Lemma noout_entry s t0 :
  wf s -> edges t0 = edges s ++ [(cur s, next s, ENormal)] -> forall p, next s <= p -> noout t0 p.
Proof.
  intros W E p Hp u v t Hin. rewrite E in Hin. apply in_app_or in Hin. destruct Hin as [Hin|[Heq|[]]].
  - pose proof (wf_bnd _ W u v t Hin). lia.
  - inversion Heq; subst. pose proof (wf_cur _ W). lia.
Qed.

Lemma F_with k body : F_block body -> F_stmt (With k body).
Proof.
  intros Fb s W. open_stmt. open_stmt'. bsimp.
  pose proof (wf_cur _ W) as Wc. pose proof (wf_wfb _ W) as Wb.
  set (t0 := nb (nb (nb (add_stmt (connect (nb s) (cur s) (next s) ENormal) (next s) (mk k (end_stmt (With k body)) KOther))))) in *.
  set (B := fun u => u = next s \/ u = N.succ (next s) \/ u = N.succ (N.succ (next s))).
  assert (M0 : mid (eq (cur s)) s t0).
  { repeat apply mid_nb. apply mid_add_stmt. apply mid_connect; [apply mid_nb, mid_refl; exact W|left; reflexivity|ulia|ulia]. }
  assert (Wb0 : wfb t0) by (apply (wfb_mid _ _ _ M0 Wb); reflexivity).
  assert (No0 : forall p, next s <= p -> noout t0 p) by (apply noout_entry; [exact W|reflexivity]).
  assert (Hn0 : next t0 = N.succ (N.succ (N.succ (N.succ (next s))))) by reflexivity.
  set (s7 := connect t0 (next s) (N.succ (next s)) ENormal) in *.
  assert (M7 : mid B t0 s7) by (apply mid_connect; [apply mid_refl_b; exact Wb0|left; left; reflexivity|lia|lia]).
  destruct (sub_block B t0 s7 (N.succ (next s)) body M7 Wb0 eq_refl eq_refl Fb) as (M8 & L8 & X8 & C8 & N8 & K8 & No8 & Np8 & Q8).
  { unfold s7. autorewrite with bst. lia. }
  { apply noout_connect; [apply No0; lia|lia]. }
  { left. right. left. reflexivity. }
  rewrite <- Es8u in M8, L8, X8, C8, N8, K8, No8, Np8, Q8. rewrite <- Es8p in Q8. clear Es8u Es8p. subst s8p.
  unfold s7 in N8, K8. autorewrite with bst in N8, K8. rewrite Hn0 in N8, K8.
  rewrite (cue_noout _ _ _ _ No8). split; [|reflexivity].
  apply (frame_finish B s t0); [exact M0| | |autorewrite with bst; exact L8|autorewrite with bst; exact X8|lia|lia|unfold B; lia|apply No0; lia].
  - apply mid_connect; [apply mid_connect; [apply mid_connect; [exact M8| |exact C8|lia]| |ulia|ulia]| |ulia|ulia].
    + destruct K8 as [->|K8]; [left; right; left; reflexivity|right; lia].
    + left. left. reflexivity.
    + left. right. right. reflexivity.
  - intros u [->|[->| ->]]; right; lia.
Qed.

Lemma F_class k nm body : F_block body -> F_stmt (Class k nm body).
Proof.
  intros Fb s W. open_stmt. open_stmt'. bsimp.
  pose proof (wf_cur _ W) as Wc. pose proof (wf_wfb _ W) as Wb.
  set (t0 := add_stmt (set_cur (connect (nb s) (cur s) (next s) ENormal) (next s)) (next s) (mk k (end_stmt (Class k nm body)) KOther)).
  assert (M0 : mid (eq (cur s)) s t0).
  { apply mid_add_stmt, mid_set_cur. apply mid_connect; [apply mid_nb, mid_refl; exact W|left; reflexivity|ulia|ulia]. }
  assert (W0 : wf t0).
  { apply (wf_same _ _ _ M0 W); [unfold t0; ulia|reflexivity|reflexivity|]. apply (noout_entry s); [exact W|reflexivity|]. unfold t0. ulia. }
  destruct (Fb t0 W0) as (F & Q). split; [|exact Q].
  pose proof F as [M' L' E' C' K']. split.
  - apply (mid_trans _ s t0); [exact M0|exact M'|right; unfold t0; ulia].
  - exact L'.
  - exact E'.
  - exact C'.
  - right. pose proof (wf_frame _ _ W0 F) as W'. split; [|apply W'].
    unfold t0 in *. destruct K' as [(K1 & _)|(K1 & _)]; [rewrite K1; ulia|autorewrite with bst in K1; lia].
Qed.

Lemma F_cases_nil : F_cases ANil.
Proof. intros s mb merge Wb Hm Hg. cbn. split; [apply mid_refl_b; exact Wb|repeat split]. Qed.

Lemma F_cases_cons k b r : F_block b -> F_cases r -> F_cases (ACons k b r).
Proof.
  intros Fb Fr s mb merge Wb Hm Hg. cbv zeta.
  cbn beta iota delta [process_cases process_cases'] fix match. peel_all ident:(u). bsimp.
  set (t2 := add_stmt (connect (nb s) mb (next s) ECondTrue) (next s) (mk k (N.max k (end_block b)) KOther)) in *.
  change (s4u = process_block (set_cur t2 (next s)) b) in Es4u.
  change (s4u0 = process_block' (set_cur t2 (next s)) b) in Es4u0.
  assert (M2 : mid (eq mb) s t2) by (apply mid_add_stmt, mid_connect; [apply mid_nb, mid_refl_b; exact Wb|left; reflexivity|ulia|ulia]).
  destruct (sub_block (eq mb) s t2 (next s) b M2 Wb eq_refl eq_refl Fb) as (M4 & L4 & X4 & C4 & N4 & K4 & No4 & Np4 & Q4).
  { unfold t2. autorewrite with bst. lia. }
  { apply (noout_edges_eq (connect (nb s) mb (next s) ECondTrue)); [reflexivity|]. apply noout_connect; [|lia].
    apply (noout_edges_eq s); [reflexivity|]. apply noout_fresh_b; [exact Wb|lia]. }
  { right. lia. }
  rewrite <- Es4u in M4, L4, X4, C4, N4, K4, No4, Np4, Q4. rewrite <- Es4u0 in Q4. clear Es4u Es4u0. subst s4u0.
  unfold t2 in N4, K4. autorewrite with bst in N4, K4.
  rewrite (cue_noout _ _ _ _ No4).
  set (s5 := connect s4u (cur s4u) merge ENormal).
  assert (M5 : mid (eq mb) s s5) by (apply mid_connect; [exact M4|right; lia|exact C4|lia]).
  destruct (Fr s5 mb merge) as (M6 & L6 & X6 & Q6); [apply (wfb_mid _ _ _ M5 Wb); assumption|unfold s5; ulia|unfold s5; ulia|].
  split; [|split; [|split]].
  - apply (mid_transA _ (eq mb) s s5); [exact M5|exact M6|]. intros u <-. left. reflexivity.
  - rewrite L6. exact L4.
  - rewrite X6. exact X4.
  - exact Q6.
Qed.

Lemma F_match_nil k : F_stmt (Match k ANil).
Proof.
  intros s W. open_stmt. open_stmt'. bsimp. split; [|reflexivity].
  pose proof (wf_cur _ W) as Wc. pose proof (wf_wfb _ W) as Wb.
  set (t0 := nb (add_stmt (connect (nb s) (cur s) (next s) ENormal) (next s) (mk k (end_stmt (Match k ANil)) KOther))).
  assert (M0 : mid (eq (cur s)) s t0).
  { apply mid_nb, mid_add_stmt, mid_connect; [apply mid_nb, mid_refl; exact W|left; reflexivity|ulia|ulia]. }
  apply (frame_finish (eq (next s)) s t0); [exact M0| | |reflexivity|reflexivity|lia|unfold t0; ulia|lia|].
  - apply mid_connect; [apply mid_refl_b, (wfb_mid _ _ _ M0 Wb); reflexivity|left; reflexivity|unfold t0; ulia|unfold t0; ulia].
  - intros u <-. right. lia.
  - apply (noout_entry s); [exact W|reflexivity|lia].
Qed.

Lemma F_match_cons k k1 b1 r : F_cases (ACons k1 b1 r) -> F_stmt (Match k (ACons k1 b1 r)).
Proof.
  intros Fc s W. open_stmt. open_stmt'. bsimp.
  pose proof (wf_cur _ W) as Wc. pose proof (wf_wfb _ W) as Wb.
  set (t0 := nb (add_stmt (connect (nb s) (cur s) (next s) ENormal) (next s) (mk k (end_stmt (Match k (ACons k1 b1 r))) KOther))) in *.
  assert (M0 : mid (eq (cur s)) s t0).
  { apply mid_nb, mid_add_stmt, mid_connect; [apply mid_nb, mid_refl; exact W|left; reflexivity|ulia|ulia]. }
  assert (Wb0 : wfb t0) by (apply (wfb_mid _ _ _ M0 Wb); reflexivity).
  destruct (Fc t0 (next s) (N.succ (next s)) Wb0) as (M1 & L1 & X1 & Q1); [unfold t0; ulia|unfold t0; ulia|].
  rewrite <- Etu in M1, L1, X1, Q1. rewrite <- Etp in Q1. clear Etu Etp. subst tp. split; [|reflexivity].
  pose proof (m_next _ _ _ M1) as N1. unfold t0 in N1. autorewrite with bst in N1.
  apply (frame_finish (eq (next s)) s t0); [exact M0| | |autorewrite with bst; exact L1|autorewrite with bst; exact X1|lia|unfold t0; ulia|lia|].
  - apply mid_connect; [exact M1|left; reflexivity|lia|lia].
  - intros u <-. right. lia.
  - apply (noout_entry s); [exact W|reflexivity|lia].
Qed.

Ltac nbs := repeat match goal with |- context [new_block ?t] => rewrite (new_block_eq t); cbv beta iota end.

Lemma comp_clauses_spec k cl : forall s prev, wfb s -> prev < next s ->
  let r := comp_clauses s k cl prev in
  mid (eq prev) s (snd r) /\ loops (snd r) = loops s /\ excs (snd r) = excs s /\ cur (snd r) = cur s /\
  (fst r = prev \/ next s <= fst r) /\ fst r < next (snd r).
Proof.
  induction cl as [|nifs cl IH]; intros s prev Wb Hp.
  - cbn. split; [apply mid_refl_b; exact Wb|]. repeat split; [left; reflexivity|exact Hp].
  - cbn [comp_clauses]. nbs. cbv zeta.
    set (s5 := connect (nb (add_stmt (connect (nb s) prev (next s) ENormal) (next s) (mk k k KOther))) (next s) (N.succ (next s)) ECondTrue).
    assert (M5 : mid (eq prev) s s5).
    { apply mid_connect; [apply mid_nb, mid_add_stmt, mid_connect; [apply mid_nb, mid_refl_b; exact Wb|left; reflexivity|ulia|ulia]|right; lia|ulia|ulia]. }
    destruct (Nat.ltb 0 nifs).
    + autorewrite with bst.
      match goal with |- context [comp_clauses ?t k cl (next s)] => set (s6 := t) end.
      assert (M6 : mid (eq prev) s s6).
      { unfold s6. unfold s5 in M5. autorewrite with bst.
        apply mid_connect; [apply mid_add_stmt, mid_connect; [apply mid_connect; [apply mid_nb, mid_add_stmt, mid_connect; [apply mid_nb; exact M5| | |]| | |]| | |]| | |];
          autorewrite with bst; try (right; lia); try lia. }
      destruct (IH s6 (next s)) as (I1 & I2 & I3 & I4 & I5 & I6); [apply (wfb_mid _ _ _ M6 Wb); reflexivity|unfold s6; ulia|].
      assert (N6 : next s6 = N.succ (N.succ (N.succ (N.succ (next s))))) by (unfold s6; ulia).
      split; [|repeat split; try assumption].
      * apply (mid_transA _ (eq (next s)) s s6); [exact M6|exact I1|]. intros u <-. right. lia.
      * right. destruct I5 as [-> | I5]; lia.
    + autorewrite with bst.
      match goal with |- context [comp_clauses ?t k cl (next s)] => set (s6 := t) end.
      assert (M6 : mid (eq prev) s s6).
      { unfold s6. unfold s5 in M5.
        apply mid_connect; [apply mid_connect; [apply mid_nb, mid_add_stmt; exact M5| | |]| | |];
          autorewrite with bst; try (right; lia); try lia. }
      destruct (IH s6 (next s)) as (I1 & I2 & I3 & I4 & I5 & I6); [apply (wfb_mid _ _ _ M6 Wb); reflexivity|unfold s6; ulia|].
      assert (N6 : next s6 = N.succ (N.succ (N.succ (next s)))) by (unfold s6; ulia).
      split; [|repeat split; try assumption].
      * apply (mid_transA _ (eq (next s)) s s6); [exact M6|exact I1|]. intros u <-. right. lia.
      * right. destruct I5 as [-> | I5]; lia.
Qed.

Lemma F_comp k cl : F_stmt (Comp k cl).
Proof.
  intros s W. split; [|reflexivity]. cbn [process_stmt]. unfold process_comp.
  nbs. cbv zeta. autorewrite with bst.
  pose proof (wf_cur _ W) as Wc. pose proof (wf_wfb _ W) as Wb.
  set (t0 := nb (add_stmt (connect (nb s) (cur s) (next s) ENormal) (next s) (mk k k KOther))).
  assert (M0 : mid (eq (cur s)) s t0).
  { apply mid_nb, mid_add_stmt, mid_connect; [apply mid_nb, mid_refl; exact W|left; reflexivity|ulia|ulia]. }
  assert (Wb0 : wfb t0) by (apply (wfb_mid _ _ _ M0 Wb); reflexivity).
  destruct (comp_clauses_spec k cl t0 (next s) Wb0) as (I1 & I2 & I3 & I4 & I5 & I6); [unfold t0; ulia|].
  destruct (comp_clauses t0 k cl (next s)) as [last s5]. cbn [fst snd] in *.
  pose proof (m_next _ _ _ I1) as N5. assert (N0 : next t0 = N.succ (N.succ (next s))) by reflexivity.
  match goal with |- frame s (add_stmt (set_cur ?t ?c) _ _) => set (s6 := t) end.
  assert (M6 : mid (eq (next s)) t0 s6).
  { unfold s6. destruct (N.eqb last (next s)) eqn:El.
    - apply mid_connect; [exact I1|left; reflexivity|lia|lia].
    - apply N.eqb_neq in El. apply mid_connect; [exact I1|right; lia|lia|lia]. }
  assert (L6 : loops s6 = loops s) by (unfold s6; destruct (N.eqb last (next s)); autorewrite with bst; exact I2).
  assert (X6 : excs s6 = excs s) by (unfold s6; destruct (N.eqb last (next s)); autorewrite with bst; exact I3).
  pose proof (m_next _ _ _ M6) as N6.
  split.
  - apply mid_add_stmt, mid_set_cur. apply (mid_transA _ (eq (next s)) s t0); [exact M0|exact M6|]. intros u <-. right. lia.
  - exact L6.
  - exact X6.
  - autorewrite with bst. lia.
  - right. autorewrite with bst. split; [lia|]. apply (noout_edges_eq s6); [reflexivity|].
    apply (noout_mid (eq (next s)) t0); [apply (noout_entry s); [exact W|reflexivity|lia]|exact M6|lia|lia].
Qed.

Lemma F_block_nil : F_block BNil.
Proof. intros s W. split; [apply frame_refl; exact W|reflexivity]. Qed.

Lemma F_block_cons x b : F_stmt x -> F_block b -> F_block (BCons x b).
Proof.
  intros Fx Fb s W. destruct (Fx s W) as (F1 & Q1). pose proof (wf_frame _ _ W F1) as W1.
  destruct (Fb _ W1) as (F2 & Q2). cbn [process_block process_block']. split.
  - eapply frame_trans; eauto.
  - rewrite Q2, Q1. reflexivity.
Qed.

Lemma new_blocks_spec n : forall s, wfb s ->
  let r := new_blocks s n in
  next (snd r) = next s + N.of_nat n /\ cur (snd r) = cur s /\ loops (snd r) = loops s /\ excs (snd r) = excs s /\
  edges (snd r) = edges s /\ (forall A, mid A s (snd r)) /\ NoDup (fst r) /\
  (forall h, In h (fst r) <-> next s <= h < next s + N.of_nat n).
Proof.
  induction n as [|n IH]; intros s Wb.
  - cbn. split; [lia|]. do 4 (split; [reflexivity|]). split; [intro A; apply mid_refl_b; exact Wb|]. split; [constructor|]. intro h. lia.
  - cbn [new_blocks]. rewrite new_block_eq.
    assert (Wn : wfb (nb s)) by (apply (wfb_mid (eq 0) s); [apply mid_nb, mid_refl_b; exact Wb|exact Wb|reflexivity|reflexivity]).
    specialize (IH (nb s) Wn). destruct (new_blocks (nb s) n) as [l s2]. cbn [fst snd] in *.
    destruct IH as (I1 & I2 & I3 & I4 & I5 & I6 & I7 & I8). autorewrite with bst in *.
    split; [lia|]. do 4 (split; [assumption|]). split; [|split].
    + intro A. apply (mid_transA A A s (nb s)); [apply mid_nb, mid_refl_b; exact Wb|apply I6|]. intros u Hu. left. exact Hu.
    + constructor; [|exact I7]. intro Hin. apply I8 in Hin. lia.
    + intro h. split.
      * intros [<-|Hin]; [lia|]. apply I8 in Hin. lia.
      * intros (H1 & H2). destruct (N.eq_dec h (next s)) as [->|Hne]; [left; reflexivity|right; apply I8; lia].
Qed.


Lemma cau_proj s a l t :
  next (connect_all_unless s a l t) = next s /\ cur (connect_all_unless s a l t) = cur s /\
  loops (connect_all_unless s a l t) = loops s /\ excs (connect_all_unless s a l t) = excs s /\
  blocks (connect_all_unless s a l t) = blocks s.
Proof.
  revert s. induction l as [|x r IH]; intro s; [repeat split|]. cbn [connect_all_unless].
  destruct (IH (connect_unless s a x t)) as (H1 & H2 & H3 & H4 & H5). autorewrite with bst in *. repeat split; assumption.
Qed.

Lemma fin_prop_spec t4 f :
  wfb t4 -> f < next t4 ->
  let t' := fin_prop t4 f in
  mid (eq f) t4 t' /\ next t' = next t4 /\ cur t' = cur t4 /\ loops t' = loops t4 /\ excs t' = excs t4.
Proof.
  intros Wb Hf. unfold fin_prop. cbv zeta.
  pose proof (wb_two _ Wb) as H2.
  assert (Hout : forall x, In x (tl (excs t4)) -> In x (excs t4)) by (intros x Hx; destruct (excs t4); [destruct Hx|right; exact Hx]).
  assert (Hff : forall xs o, first_finally xs = Some o -> (forall x, In x xs -> In x (excs t4)) -> o < next t4).
  { intros xs o Ho Hxs. destruct (first_finally_in _ _ Ho) as (x & Hx & Hfx). destruct (wb_fin _ Wb x (Hxs x Hx)) as (Hlt & _). apply Hlt. exact Hfx. }
  set (t5 := match first_finally (tl (excs t4)) with
             | Some o => connect_unless t4 f o EReturn
             | None => connect_unless t4 f exit_id EReturn
             end).
  assert (H5 : mid (eq f) t4 t5 /\ next t5 = next t4 /\ cur t5 = cur t4 /\ loops t5 = loops t4 /\ excs t5 = excs t4).
  { unfold t5. destruct (first_finally (tl (excs t4))) as [o|] eqn:Eo; autorewrite with bst; (split; [|repeat split]).
    - apply mid_connect_unless; [apply mid_refl_b; exact Wb|left; reflexivity|exact Hf|exact (Hff _ o Eo Hout)].
    - apply mid_connect_unless; [apply mid_refl_b; exact Wb|left; reflexivity|exact Hf|unfold exit_id; lia]. }
  destruct H5 as (M5 & N5 & C5 & L5 & X5).
  match goal with |- context [connect_unless ?t f _ EException] => set (t6 := t) end.
  assert (H6 : mid (eq f) t4 t6 /\ next t6 = next t4 /\ cur t6 = cur t4 /\ loops t6 = loops t4 /\ excs t6 = excs t4).
  { unfold t6. rewrite L5. destruct (loops t4) as [|l ls] eqn:El; [split; [assumption|repeat split; assumption]|].
    destruct (wb_loops _ Wb l) as (Hl1 & Hl2 & _); [rewrite El; left; reflexivity|].
    destruct (Nat.leb _ _); [|split; [assumption|repeat split; assumption]].
    destruct (first_finally (firstn _ _)) as [o|] eqn:Eo; autorewrite with bst; (split; [|split; [assumption|repeat split; assumption]]).
    - assert (Ho : o < next t4) by (apply (Hff _ o Eo); intros x Hx; apply Hout; eapply firstn_in; exact Hx).
      apply mid_connect_unless; [apply mid_connect_unless; [exact M5|left; reflexivity|lia|lia]|left; reflexivity|ulia|ulia].
    - apply mid_connect_unless; [apply mid_connect_unless; [exact M5|left; reflexivity|lia|lia]|left; reflexivity|ulia|ulia]. }
  destruct H6 as (M6 & N6 & C6 & L6 & X6). clearbody t6. clear t5 M5 N5 C5 L5 X5.
  destruct (first_finally (tl (excs t4))) as [o|] eqn:Eo.
  - autorewrite with bst. split; [|split; [assumption|repeat split; assumption]].
    apply mid_connect_unless; [exact M6|left; reflexivity|lia|rewrite N6; exact (Hff _ o Eo Hout)].
  - destruct (tl (excs t4)) as [|oc ocs] eqn:Et.
    + autorewrite with bst. split; [|split; [assumption|repeat split; assumption]].
      apply mid_connect_unless; [exact M6|left; reflexivity|lia|unfold exit_id; lia].
    + destruct (cau_proj t6 f (x_handlers oc) EException) as (P1 & P2 & P3 & P4 & _).
      split; [|repeat split; congruence].
      apply mid_connect_all_unless; [exact M6|left; reflexivity|lia|].
      intros b Hb. rewrite N6. destruct (wb_fin _ Wb oc) as (_ & Hh); [apply Hout; try rewrite Et; left; reflexivity|]. apply Hh. exact Hb.
Qed.

Lemma F_handlers_nil : F_handlers ANil.
Proof. intros s hbs nxt Wb ND Hh Hn. cbn. split; [apply mid_refl_b; exact Wb|repeat split]. Qed.

Lemma F_handlers_cons k b r : F_block b -> F_handlers r -> F_handlers (ACons k b r).
Proof.
  intros Fb Fr s hbs nxt Wb ND Hh Hn. destruct hbs as [|hb hbr].
  { cbn. split; [apply mid_refl_b; exact Wb|repeat split]. }
  cbv zeta. cbn beta iota delta [process_handlers process_handlers'] fix match. peel_all ident:(u). bsimp.
  set (X := mk k (N.max k (end_block b)) KOther) in *.
  change (s2u = process_block (set_cur (add_stmt s hb X) hb) b) in Es2u.
  change (s2u0 = process_block' (set_cur (add_stmt s hb X) hb) b) in Es2u0.
  destruct (Hh hb (or_introl eq_refl)) as (Hb1 & Hb2).
  assert (M1 : mid (fun u => In u (hb :: hbr)) s (add_stmt s hb X)) by (apply mid_add_stmt, mid_refl_b; exact Wb).
  destruct (sub_block _ s _ hb b M1 Wb eq_refl eq_refl Fb) as (M2 & L2 & X2 & C2 & N2 & K2 & No2 & Np2 & Q2).
  { exact Hb1. }
  { apply (noout_edges_eq s); [reflexivity|exact Hb2]. }
  { left. left. reflexivity. }
  rewrite <- Es2u in M2, L2, X2, C2, N2, K2, No2, Np2, Q2. rewrite <- Es2u0 in Q2. clear Es2u Es2u0. subst s2u0.
  autorewrite with bst in N2, K2, Np2.
  rewrite (cue_noout _ _ _ _ No2).
  set (s3 := connect s2u (cur s2u) nxt ENormal).
  assert (M3 : mid (fun u => In u (hb :: hbr)) s s3).
  { apply mid_connect; [exact M2| |exact C2|lia]. destruct K2 as [->|K2]; [left; left; reflexivity|right; exact K2]. }
  inversion ND as [|? ? Hnin ND']; subst.
  destruct (Fr s3 hbr nxt) as (M4 & L4 & X4 & Q4).
  - apply (wfb_mid _ _ _ M3 Wb); assumption.
  - exact ND'.
  - intros h Hin. destruct (Hh h (or_intror Hin)) as (H1 & H2). split; [unfold s3; ulia|].
    apply noout_connect.
    + apply Np2; [apply (noout_edges_eq s); [reflexivity|exact H2]|exact H1|]. intros ->. exact (Hnin Hin).
    + destruct K2 as [->|K2]; [intros ->; exact (Hnin Hin)|lia].
  - unfold s3. ulia.
  - split; [|split; [|split]].
    + apply (mid_transA _ (fun u => In u hbr) s s3); [exact M3|exact M4|]. intros u Hu. left. right. exact Hu.
    + rewrite L4. exact L2.
    + rewrite X4. exact X2.
    + exact Q4.
Qed.

Lemma noout_connect_all s p a l t : noout s p -> a <> p -> noout (connect_all s a l t) p.
Proof.
  revert s. induction l as [|x r IH]; intros s No Hne; [exact No|]. cbn [connect_all]. apply IH; [|exact Hne].
  apply noout_connect; assumption.
Qed.

Definition try_B (tryb : N) (hbs : list N) (u : N) : Prop := u = tryb \/ In u hbs.

(* try body, its normal exit, the exception edges to the handlers, the handlers *)
Lemma try_body_spec t7 tryb hbs nat afe body handlers s8 s11 s8p s11p :
  wfb t7 -> tryb < next t7 -> noout t7 tryb -> NoDup hbs ->
  (forall h, In h hbs -> h < next t7 /\ noout t7 h /\ h <> tryb) -> nat < next t7 -> afe < next t7 ->
  F_block body -> F_handlers handlers ->
  s8 = process_block (set_cur t7 tryb) body ->
  s11 = process_handlers (connect_all (connect_unless_exit s8 (cur s8) nat ENormal) tryb hbs EException) handlers hbs afe ->
  s8p = process_block' (set_cur t7 tryb) body ->
  s11p = process_handlers' (connect_all (connect s8p (cur s8p) nat ENormal) tryb hbs EException) handlers hbs afe ->
  mid (try_B tryb hbs) t7 s11 /\ loops s11 = loops t7 /\ excs s11 = excs t7 /\ s11 = s11p.
Proof.
  intros Wb Ht Not ND Hh Hnat Hafe Fb Fh E8 E11 E8p E11p.
  destruct (sub_block (try_B tryb hbs) t7 t7 tryb body (mid_refl_b _ _ Wb) Wb eq_refl eq_refl Fb Ht Not) as (M8 & L8 & X8 & C8 & N8 & K8 & No8 & Np8 & Q8).
  { left. left. reflexivity. }
  rewrite <- E8 in M8, L8, X8, C8, N8, K8, No8, Np8, Q8. rewrite <- E8p in Q8. clear E8 E8p. subst s8p.
  rewrite (cue_noout _ _ _ _ No8) in E11.
  set (s10 := connect_all (connect s8 (cur s8) nat ENormal) tryb hbs EException) in *.
  assert (M10 : mid (try_B tryb hbs) t7 s10).
  { apply mid_connect_all; [apply mid_connect; [exact M8| |exact C8|lia]|left; left; reflexivity|ulia|].
    - destruct K8 as [->|K8]; [left; left; reflexivity|right; exact K8].
    - intros h Hin. destruct (Hh h Hin) as (H1 & _). ulia. }
  assert (N10 : next s10 = next s8) by (unfold s10; ulia).
  destruct (Fh s10 hbs afe) as (M11 & L11 & X11 & Q11).
  - apply (wfb_mid _ _ _ M10 Wb); unfold s10; autorewrite with bst; assumption.
  - exact ND.
  - intros h Hin. destruct (Hh h Hin) as (H1 & H2 & H3). split; [lia|].
    apply noout_connect_all; [|congruence]. apply noout_connect.
    + apply Np8; assumption.
    + destruct K8 as [->|K8]; [congruence|lia].
  - lia.
  - rewrite <- E11 in M11, L11, X11, Q11. rewrite <- E11p in Q11. split; [|split; [|split]].
    + apply (mid_transA _ (fun u => In u hbs) t7 s10); [exact M10|exact M11|]. intros u Hu. left. right. exact Hu.
    + rewrite L11. unfold s10. autorewrite with bst. exact L8.
    + rewrite X11. unfold s10. autorewrite with bst. exact X8.
    + exact Q11.
Qed.

Ltac open_try :=
  cbn beta iota delta [process_stmt process_stmt'] fix match; peel_all ident:(u);
  match goal with |- context [new_blocks ?t ?n] =>
    let hbs := fresh "hbs" in let s6 := fresh "s6" in let Enb := fresh "Enb" in
    destruct (new_blocks t n) as [hbs s6] eqn:Enb end;
  cbv beta iota; peel_all ident:(u).

Definition try_B' (s : st) (u : N) : Prop := next s <= u /\ u <> N.succ (next s).

Lemma try_setup s t5 n finb hbs s6 :
  wf s -> mid (eq (cur s)) s t5 -> edges t5 = edges s ++ [(cur s, next s, ENormal)] -> loops t5 = loops s -> excs t5 = excs s ->
  N.succ (next s) < next t5 -> (forall f, finb = Some f -> f < next t5) -> new_blocks t5 n = (hbs, s6) ->
  let ctx := {| x_finally := finb; x_handlers := hbs; x_processing := false |} in
  let t7 := set_excs s6 (ctx :: excs s6) in
  mid (eq (cur s)) s t7 /\ wfb t7 /\ next t7 = next t5 + N.of_nat n /\ loops t7 = loops s /\ excs t7 = ctx :: excs s /\
  (forall p, next s <= p -> noout t7 p) /\ NoDup hbs /\ (forall h, In h hbs <-> next t5 <= h < next t7).
Proof.
  intros W M5 E5 L5 X5 H5 Hf Enb ctx t7. pose proof (wf_wfb _ W) as Wb.
  assert (Wb5 : wfb t5) by (apply (wfb_mid _ _ _ M5 Wb); assumption).
  pose proof (new_blocks_spec n t5 Wb5) as Hs. rewrite Enb in Hs. cbn [fst snd] in Hs.
  destruct Hs as (I1 & I2 & I3 & I4 & I5 & I6 & I7 & I8).
  assert (M7 : mid (eq (cur s)) s t7).
  { apply mid_set_excs. apply (mid_transA _ (eq (cur s)) s t5); [exact M5|apply I6|]. intros u <-. left. reflexivity. }
  assert (N7 : next t7 = next t5 + N.of_nat n) by exact I1.
  assert (X7 : excs t7 = ctx :: excs s) by (unfold t7; autorewrite with bst; rewrite I4, X5; reflexivity).
  pose proof (m_next _ _ _ M5) as Hn5.
  split; [exact M7|]. split; [|split; [exact N7|split; [|split; [exact X7|split; [|split; [exact I7|]]]]]].
  - split.
    + pose proof (wb_two _ Wb). lia.
    + apply M7.
    + apply M7.
    + rewrite X7. intros x [<-|Hx].
      * cbn [x_finally x_handlers ctx]. split; [intros f Hfe; specialize (Hf f Hfe); lia|]. intros h Hh. apply I8 in Hh. lia.
      * destruct (wb_fin _ Wb x Hx) as (H1 & H2). split; intros; [specialize (H1 _ H)|specialize (H2 _ H)]; lia.
    + rewrite X7. unfold t7. autorewrite with bst. rewrite I3, L5. intros l Hl.
      destruct (wb_loops _ Wb l Hl) as (H1 & H2 & H3). cbn [length]. repeat split; lia.
  - unfold t7. autorewrite with bst. rewrite I3. exact L5.
  - intros p Hp. apply (noout_edges_eq t5); [unfold t7; autorewrite with bst; exact I5|]. apply (noout_entry s); assumption.
  - intro h. rewrite N7. apply I8.
Qed.

Lemma try_B_weaken s t5 t7 hbs sf :
  N.succ (next s) < next t5 -> (forall h, In h hbs <-> next t5 <= h < next t7) ->
  mid (try_B (next s) hbs) t7 sf -> mid (try_B' s) t7 sf.
Proof.
  intros H5 Hh M. apply (mid_weaken (try_B (next s) hbs)); [|exact M].
  intros u [->|Hin]; left; unfold try_B'; [lia|]. apply Hh in Hin. lia.
Qed.

(* leaving the try statement: pop the exception context, continue in the exit block *)
Lemma try_finish s t7 sf x :
  wf s -> mid (eq (cur s)) s t7 -> (forall p, next s <= p -> noout t7 p) -> N.succ (next s) < next t7 ->
  mid (try_B' s) t7 sf -> loops sf = loops s -> excs sf = x :: excs s ->
  frame s (set_cur (set_excs sf (tl (excs sf))) (N.succ (next s))).
Proof.
  intros W M7 No7 H7 Mf Lf Xf. rewrite Xf. cbn [tl].
  apply (frame_finish (try_B' s) s t7); [exact M7|apply mid_set_excs; exact Mf| |exact Lf|reflexivity|lia|lia| |apply No7; lia].
  - intros u (Hu & _). right. exact Hu.
  - unfold try_B'. lia.
Qed.

Lemma F_try_nn k body hs : F_block body -> F_handlers hs -> F_stmt (Try k body hs ONone ONone).
Proof.
  intros Fb Fh s W. open_try. bsimp.
  pose proof (wf_cur _ W) as Wc.
  set (t5 := nb (connect (nb s) (cur s) (next s) ENormal)) in *.
  assert (M5 : mid (eq (cur s)) s t5) by (apply mid_nb, mid_connect; [apply mid_nb, mid_refl; exact W|left; reflexivity|ulia|ulia]).
  destruct (try_setup s t5 (arms_length hs) None hbs s6 W M5 eq_refl eq_refl eq_refl) as (M7 & Wb7 & N7 & L7 & X7 & No7 & ND & Hh); [unfold t5; ulia|discriminate|exact Enb|].
  assert (N5 : next t5 = N.succ (N.succ (next s))) by reflexivity.
  set (t7 := set_excs s6 ({| x_finally := None; x_handlers := hbs; x_processing := false |} :: excs s6)) in *.
  destruct (try_body_spec t7 (next s) hbs (N.succ (next s)) (N.succ (next s)) body hs s8u s11u s8u0 s11u0 Wb7) as (M11 & L11 & X11 & Q11);
    try assumption; try lia.
  { apply No7. lia. }
  { intros h Hin. apply Hh in Hin. split; [lia|split; [apply No7; lia|lia]]. }
  rewrite <- Q11. split; [|reflexivity].
  eapply (try_finish s t7 s11u); [exact W|exact M7|exact No7|lia| |congruence|rewrite X11; exact X7].
  apply (try_B_weaken s t5 t7 hbs); [lia|exact Hh|exact M11].
Qed.

Lemma try_else_spec s t7 s11 elseb afe eb t1 t1p :
  wfb t7 -> mid (try_B' s) t7 s11 -> loops s11 = loops t7 -> excs s11 = excs t7 ->
  next s <= elseb -> elseb < next t7 -> elseb <> N.succ (next s) -> noout s11 elseb -> afe < next t7 -> F_block eb ->
  t1 = process_block (set_cur s11 elseb) eb -> t1p = process_block' (set_cur s11 elseb) eb ->
  let s12 := connect_unless_exit t1 (cur t1) afe ENormal in
  mid (try_B' s) t7 s12 /\ loops s12 = loops t7 /\ excs s12 = excs t7 /\ t1 = t1p /\ s12 = connect t1 (cur t1) afe ENormal /\
  (forall p, noout s11 p -> p < next s11 -> p <> elseb -> noout s12 p).
Proof.
  intros Wb M11 L11 X11 He1 He2 He3 Noe Hafe Fe E1 E1p s12.
  pose proof (m_next _ _ _ M11) as N11.
  destruct (sub_block (try_B' s) t7 s11 elseb eb M11 Wb L11 X11 Fe) as (M1 & L1 & X1 & C1 & N1 & K1 & No1 & Np1 & Q1);
    [lia|exact Noe|left; split; assumption|].
  rewrite <- E1 in M1, L1, X1, C1, N1, K1, No1, Np1, Q1. rewrite <- E1p in Q1. clear E1 E1p. subst t1p.
  unfold s12. rewrite (cue_noout _ _ _ _ No1). autorewrite with bst.
  split; [|split; [exact L1|split; [exact X1|split; [reflexivity|split; [reflexivity|]]]]].
  - apply mid_connect; [exact M1| |exact C1|lia]. destruct K1 as [->|K1]; [left; split; assumption|right; lia].
  - intros p Hp1 Hp2 Hp3. apply noout_connect; [apply Np1; assumption|]. destruct K1 as [->|K1]; [congruence|lia].
Qed.

Lemma set_processing_eq t p x r :
  excs t = x :: r ->
  set_processing t p = set_excs t ({| x_finally := x_finally x; x_handlers := x_handlers x; x_processing := p |} :: r).
Proof. intro E. unfold set_processing. rewrite E. reflexivity. Qed.

Lemma wfb_set_proc t p x r :
  wfb t -> excs t = x :: r ->
  wfb (set_excs t ({| x_finally := x_finally x; x_handlers := x_handlers x; x_processing := p |} :: r)).
Proof.
  intros [W1 W2 W3 W4 W5] E. split; autorewrite with bst; try assumption.
  - intros y [<-|Hy]; cbn [x_finally x_handlers]; apply W4; rewrite E; [left; reflexivity|right; exact Hy].
  - rewrite E in W5. exact W5.
Qed.

Lemma try_fin_spec s t7 s12 f hbs fb t2 t2p :
  wfb t7 -> mid (try_B' s) t7 s12 -> loops s12 = loops t7 ->
  excs s12 = {| x_finally := Some f; x_handlers := hbs; x_processing := false |} :: excs s ->
  excs t7 = {| x_finally := Some f; x_handlers := hbs; x_processing := false |} :: excs s ->
  next s <= f -> f < next t7 -> f <> N.succ (next s) -> noout s12 f -> N.succ (next s) < next t7 -> F_block fb ->
  t2 = process_block (set_processing (set_cur s12 f) true) fb ->
  t2p = process_block' (set_processing (set_cur s12 f) true) fb ->
  let t3 := set_processing t2 false in
  let s13 := fin_prop (connect_unless_exit t3 (cur t3) (N.succ (next s)) ENormal) f in
  mid (try_B' s) t7 s13 /\ loops s13 = loops t7 /\
  excs s13 = {| x_finally := Some f; x_handlers := hbs; x_processing := false |} :: excs s /\ t2 = t2p /\
  s13 = fin_prop (connect t3 (cur t3) (N.succ (next s)) ENormal) f.
Proof.
  intros Wb M12 L12 X12 X7 Hf1 Hf2 Hf3 Nof Hex Ff E2 E2p t3 s13.
  pose proof (m_next _ _ _ M12) as N12.
  set (ctxt := {| x_finally := Some f; x_handlers := hbs; x_processing := true |}).
  assert (Esp : set_processing (set_cur s12 f) true = set_cur (set_excs s12 (ctxt :: excs s)) f).
  { rewrite (set_processing_eq (set_cur s12 f) true _ _ X12). reflexivity. }
  rewrite Esp in E2, E2p.
  set (t1 := set_excs s12 (ctxt :: excs s)) in *.
  assert (Wb12 : wfb s12) by (apply (wfb_mid _ _ _ M12 Wb); [exact L12|congruence]).
  assert (Wb1 : wfb t1) by (apply (wfb_set_proc s12 true _ _ Wb12 X12)).
  destruct (sub_block (eq f) t1 t1 f fb (mid_refl_b _ _ Wb1) Wb1 eq_refl eq_refl Ff) as (M2 & L2 & X2 & C2 & N2 & K2 & No2 & Np2 & Q2);
    [unfold t1; ulia|apply (noout_edges_eq s12); [reflexivity|exact Nof]|left; reflexivity|].
  rewrite <- E2 in M2, L2, X2, C2, N2, K2, No2, Np2, Q2. rewrite <- E2p in Q2. clear E2 E2p. subst t2p.
  unfold t1 in L2, X2, N2, K2. autorewrite with bst in L2, X2, N2, K2.
  assert (E3 : t3 = set_excs t2 ({| x_finally := Some f; x_handlers := hbs; x_processing := false |} :: excs s)).
  { unfold t3. rewrite (set_processing_eq _ false _ _ X2). reflexivity. }
  fold t3 in s13 |- *. clearbody t3. subst t3.
  set (t3 := set_excs t2 ({| x_finally := Some f; x_handlers := hbs; x_processing := false |} :: excs s)) in *.
  assert (M3 : mid (try_B' s) t7 t3).
  { apply mid_set_excs. apply (mid_transA _ (eq f) t7 t1); [apply mid_set_excs; exact M12|exact M2|]. intros u <-. left. split; assumption. }
  assert (No3 : noout t3 (cur t3)) by (apply (noout_edges_eq t2); [reflexivity|exact No2]).
  unfold s13. rewrite (cue_noout _ _ _ _ No3).
  set (t4 := connect t3 (cur t3) (N.succ (next s)) ENormal).
  assert (M4 : mid (try_B' s) t7 t4).
  { apply mid_connect; [exact M3| |unfold t3; ulia|unfold t3; ulia].
    unfold t3. autorewrite with bst. destruct K2 as [->|K2]; [left; split; assumption|right; lia]. }
  assert (Wb4 : wfb t4).
  { assert (Wb2 : wfb t2) by (apply (wfb_mid _ _ _ M2 Wb1); unfold t1; autorewrite with bst; assumption).
    pose proof (wfb_set_proc t2 false _ _ Wb2 X2) as Wb3.
    apply (wfb_mid (eq (cur t3)) t3); [apply mid_connect; [apply mid_refl_b; exact Wb3|left; reflexivity|unfold t3; ulia|unfold t3; ulia]|exact Wb3|reflexivity|reflexivity]. }
  destruct (fin_prop_spec t4 f Wb4) as (M5 & N5 & C5 & L5 & X5); [unfold t4, t3; ulia|].
  split; [|split; [|split; [|split; reflexivity]]].
  - apply (mid_transA _ (eq f) t7 t4); [exact M4|exact M5|]. intros u <-. left. split; assumption.
  - rewrite L5. unfold t4, t3. autorewrite with bst. congruence.
  - rewrite X5. reflexivity.
Qed.

Lemma F_try_sn k body hs eb : F_block body -> F_handlers hs -> F_block eb -> F_stmt (Try k body hs (OSome eb) ONone).
Proof.
  intros Fb Fh Fe s W. open_try. bsimp.
  pose proof (wf_cur _ W) as Wc.
  set (t5 := nb (nb (connect (nb s) (cur s) (next s) ENormal))) in *.
  assert (M5 : mid (eq (cur s)) s t5) by (repeat apply mid_nb; apply mid_connect; [apply mid_nb, mid_refl; exact W|left; reflexivity|ulia|ulia]).
  destruct (try_setup s t5 (arms_length hs) None hbs s6 W M5 eq_refl eq_refl eq_refl) as (M7 & Wb7 & N7 & L7 & X7 & No7 & ND & Hh); [unfold t5; ulia|discriminate|exact Enb|].
  assert (N5 : next t5 = N.succ (N.succ (N.succ (next s)))) by reflexivity.
  set (t7 := set_excs s6 ({| x_finally := None; x_handlers := hbs; x_processing := false |} :: excs s6)) in *.
  destruct (try_body_spec t7 (next s) hbs (N.succ (N.succ (next s))) (N.succ (next s)) body hs s8u s11u s8u0 s11u0 Wb7) as (M11 & L11 & X11 & Q11);
    try assumption; try lia.
  { apply No7. lia. }
  { intros h Hin. apply Hh in Hin. split; [lia|split; [apply No7; lia|lia]]. }
  rewrite <- Q11 in *. clear Q11 Es11u0.
  assert (M11' : mid (try_B' s) t7 s11u) by (apply (try_B_weaken s t5 t7 hbs); [lia|exact Hh|exact M11]).
  destruct (try_else_spec s t7 s11u (N.succ (N.succ (next s))) (N.succ (next s)) eb t1u t1u0 Wb7 M11' L11 X11) as (M12 & L12 & X12 & Q1 & Q12 & _);
    try assumption; try lia.
  { apply (noout_mid (try_B (next s) hbs) t7); [apply No7; lia|exact M11| |lia]. intros [H|H]; [lia|]. apply Hh in H. lia. }
  clear Et1u0. subst t1u0. rewrite Q12 in *. split; [|reflexivity].
  eapply (try_finish s t7 (connect t1u (cur t1u) (N.succ (next s)) ENormal)); [exact W|exact M7|exact No7|lia|exact M12|congruence|rewrite X12; exact X7].
Qed.


Lemma fin_prop_unfold t4 f :
  (let outer := tl (excs t4) in
  let next_outer := first_finally outer in
  let t5 := match next_outer with
            | Some o => connect_unless t4 f o EReturn
            | None => connect_unless t4 f exit_id EReturn
            end in
  let t6 := match loops t5 with
            | l :: _ =>
                if Nat.leb (l_excdepth l) (length (excs t5) - 1) then
                  let next_loop := first_finally (firstn (length outer - l_excdepth l) outer) in
                  match next_loop with
                  | Some o => connect_unless (connect_unless t5 f o EBreak) f o EContinue
                  | None => connect_unless (connect_unless t5 f (l_exit l) EBreak) f (l_header l) EContinue
                  end
                else t5
            | [] => t5
            end in
  match next_outer with
  | Some o => connect_unless t6 f o EException
  | None => match outer with
            | oc :: _ => connect_all_unless t6 f (x_handlers oc) EException
            | [] => connect_unless t6 f exit_id EException
            end
  end) = fin_prop t4 f.
Proof. reflexivity. Qed.

Ltac peel_step_fin sfx fblk :=
  lazymatch goal with
  | |- context [let (a, b) := new_block ?s in _] => rewrite (new_block_eq s); cbv beta iota
  | |- context [let x := ?a in @?f x] =>
      let t := constr:(let x := a in f x) in
      let t' := eval cbv beta in t in
      lazymatch a with
      | tl (excs ?t4) => lazymatch t' with context [connect_unless t4 ?ff _ EReturn] => rewrite (fin_prop_unfold t4 ff) end
      | _ =>
        pattern t';
        lazymatch goal with |- ?Q _ =>
          let nm := fresh x sfx in let eq := fresh "E" x sfx in
          apply (peel a f Q); intros nm eq; cbv beta;
          tryif is_sub a then idtac else subst nm
        end
      end
  end.
Ltac open_try_fin fblk :=
  cbn beta iota delta [process_stmt process_stmt'] fix match; peel_all ident:(u);
  match goal with |- context [new_blocks ?t ?n] =>
    let hbs := fresh "hbs" in let s6 := fresh "s6" in let Enb := fresh "Enb" in
    destruct (new_blocks t n) as [hbs s6] eqn:Enb end;
  cbv beta iota; repeat peel_step_fin ident:(u) fblk.

(* as [peel_step_fin], but a [let] nested in the bound term of another [let] is exposed first *)
Ltac with_let T sfx k :=
  lazymatch T with
  | context [let x := ?a in @?f x] =>
      lazymatch a with
      | context [let y := _ in _] => with_let a sfx k
      | _ => let nm := fresh x sfx in let eq := fresh "E" x sfx in k a f nm eq
      end
  end.
Ltac peel_step_fin2 sfx fblk :=
  lazymatch goal with
  | |- context [let (a, b) := new_block ?s in _] => rewrite (new_block_eq s); cbv beta iota
  | |- ?G =>
      with_let G sfx ltac:(fun a f nm eq =>
        let t := constr:(let x := a in f x) in
        let t' := eval cbv beta in t in
        lazymatch a with
        | tl (excs ?t4) => lazymatch t' with context [connect_unless t4 ?ff _ EReturn] => rewrite (fin_prop_unfold t4 ff) end
        | _ =>
          pattern t';
          lazymatch goal with |- ?Q _ =>
            apply (peel a f Q); intros nm eq; cbv beta;
            tryif is_sub a then idtac else subst nm
          end
        end)
  end.
Ltac open_try_fin2 fblk :=
  cbn beta iota delta [process_stmt process_stmt'] fix match; peel_all ident:(u);
  match goal with |- context [new_blocks ?t ?n] =>
    let hbs := fresh "hbs" in let s6 := fresh "s6" in let Enb := fresh "Enb" in
    destruct (new_blocks t n) as [hbs s6] eqn:Enb end;
  cbv beta iota; repeat peel_step_fin2 ident:(u) fblk.

