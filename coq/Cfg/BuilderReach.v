(* Reachability in the graph-level model as an inductive relation over the edge list, and the correctness of the
   fuelled depth-first walk [Builder.reachable]: a block is visited iff a path of edges leads to it from ENTRY.
   (The fuel [S (|edges| + |blocks|)] is always enough: every step strictly decreases
   [|stack| + number of edges whose source is not visited yet].) *)
From Coq Require Import NArith List Bool Arith Lia.
From PV Require Import Py.PyAST Cfg.Builder.
Import ListNotations.

Notation edge := (N * N * ety)%type (only parsing).

Inductive reach (E : list edge) : N -> Prop :=
| reach_entry : reach E entry_id
| reach_step u v t : reach E u -> In (u, v, t) E -> reach E v.

Lemma reach_mono E E' b : incl E E' -> reach E b -> reach E' b.
Proof. intros I R. induction R as [|u v t R IH Hin]; [constructor|]. eapply reach_step; [exact IH|apply I; exact Hin]. Qed.

(* a set of blocks containing ENTRY and closed under the edges contains every reachable block *)
Lemma reach_closed (E : list edge) (P : N -> Prop) :
  P entry_id -> (forall u v t, In (u, v, t) E -> P u -> P v) -> forall b, reach E b -> P b.
Proof. intros P0 Pc b R. induction R as [|u v t R IH Hin]; [exact P0|]. eapply Pc; eauto. Qed.

Definition succs_e (E : list edge) (b : N) : list N :=
  map (fun e : edge => match e with (_, t, _) => t end) (filter (fun e : edge => match e with (f, _, _) => N.eqb f b end) E).

Lemma succs_is s b : succs s b = succs_e (edges s) b.
Proof. reflexivity. Qed.

Lemma in_succs E b v : In v (succs_e E b) <-> exists t, In (b, v, t) E.
Proof.
  unfold succs_e. rewrite in_map_iff. split.
  - intros ([[f t'] ty] & Hv & Hin). apply filter_In in Hin. destruct Hin as (Hin & Hf).
    apply N.eqb_eq in Hf. subst. exists ty. exact Hin.
  - intros (t & Hin). exists (b, v, t). split; [reflexivity|]. apply filter_In. split; [exact Hin|apply N.eqb_refl].
Qed.

Definition memb (b : N) (l : list N) : bool := existsb (N.eqb b) l.

Lemma memb_In b l : memb b l = true <-> In b l.
Proof.
  unfold memb. rewrite existsb_exists. split.
  - intros (x & Hx & E). apply N.eqb_eq in E. subst. exact Hx.
  - intros H. exists b. split; [exact H|apply N.eqb_refl].
Qed.

(* edges whose source is not visited yet *)
Definition pending (E : list edge) (vis : list N) : list edge :=
  filter (fun e : edge => match e with (f, _, _) => negb (memb f vis) end) E.

Lemma pending_visit E vis b :
  memb b vis = false ->
  length (pending E vis) = length (succs_e E b) + length (pending E (b :: vis)).
Proof.
  intro Hb. unfold pending, succs_e. rewrite map_length.
  induction E as [|[[f t] ty] E IH]; [reflexivity|].
  cbn [filter]. change (memb f (b :: vis)) with (N.eqb f b || memb f vis).
  destruct (N.eqb f b) eqn:Efb.
  - apply N.eqb_eq in Efb. subst f. rewrite Hb. cbn [negb orb length]. rewrite IH. reflexivity.
  - cbn [orb]. destruct (memb f vis); cbn [negb length]; rewrite IH; lia.
Qed.

Lemma filter_len_le {A} (f : A -> bool) l : length (filter f l) <= length l.
Proof. induction l as [|a l IH]; simpl; [lia|]. destruct (f a); simpl; lia. Qed.

Section Dfs.
Variable s : st.
Let E := edges s.

(* invariant of the walk *)
Definition dfs_inv (stack vis : list N) : Prop :=
  (forall b, In b stack \/ In b vis -> reach E b) /\
  (In entry_id stack \/ In entry_id vis) /\
  (forall u v t, In u vis -> In (u, v, t) E -> In v stack \/ In v vis).

Lemma dfs_correct fuel : forall stack vis,
  length stack + length (pending E vis) <= fuel ->
  dfs_inv stack vis ->
  dfs_inv [] (dfs fuel s stack vis).
Proof.
  induction fuel as [|f IH]; intros stack vis Hm Hinv.
  - assert (stack = []) by (destruct stack; [reflexivity|simpl in Hm; lia]). subst. exact Hinv.
  - destruct stack as [|b r]; [exact Hinv|]. cbn [dfs].
    fold (memb b vis). destruct (memb b vis) eqn:Hb.
    + apply IH; [simpl in Hm; lia|].
      destruct Hinv as (I1 & I2 & I3). apply memb_In in Hb. split; [|split].
      * intros c [Hc|Hc]; apply I1; [left; right; exact Hc|right; exact Hc].
      * destruct I2 as [[<-|I2]|I2]; auto.
      * intros u v t Hu He. destruct (I3 u v t Hu He) as [[<-|Hv]|Hv]; auto.
    + apply IH.
      * rewrite app_length. rewrite succs_is. fold E.
        pose proof (pending_visit E vis b Hb) as Hp. simpl in Hm. lia.
      * destruct Hinv as (I1 & I2 & I3). split; [|split].
        -- intros c [Hc|[<-|Hc]].
           ++ apply in_app_or in Hc. destruct Hc as [Hc|Hc].
              ** rewrite succs_is in Hc. apply in_succs in Hc. destruct Hc as (t & Hc).
                 eapply reach_step; [|exact Hc]. apply I1. left. left. reflexivity.
              ** apply I1. left. right. exact Hc.
           ++ apply I1. left. left. reflexivity.
           ++ apply I1. right. exact Hc.
        -- destruct I2 as [[<-|I2]|I2]; [right; left; reflexivity|left; apply in_or_app; right; exact I2|right; right; exact I2].
        -- intros u v t [<-|Hu] He.
           ++ left. apply in_or_app. left. rewrite succs_is. apply in_succs. exists t. exact He.
           ++ destruct (I3 u v t Hu He) as [[<-|Hv]|Hv].
              ** right. left. reflexivity.
              ** left. apply in_or_app. right. exact Hv.
              ** right. right. exact Hv.
Qed.

Theorem reachable_spec b : is_reach (reachable s) b = true <-> reach (edges s) b.
Proof.
  assert (Hinv : dfs_inv [] (reachable s)).
  { unfold reachable. apply dfs_correct.
    - cbn [length]. unfold pending, E.
      pose proof (filter_len_le (fun e : edge => match e with (f, _, _) => negb (memb f []) end) (edges s)) as HH. lia.
    - split; [|split].
      + intros c [[<-|[]]|[]]. constructor.
      + left. left. reflexivity.
      + intros u v t []. }
  destruct Hinv as (I1 & I2 & I3). change (is_reach (reachable s) b) with (memb b (reachable s)). rewrite memb_In. split.
  - intro H. apply I1. right. exact H.
  - intro R. apply (reach_closed E (fun c => In c (reachable s))).
    + destruct I2 as [[]|I2]. exact I2.
    + intros u v t He Hu. destruct (I3 u v t Hu He) as [[]|Hv]. exact Hv.
    + exact R.
Qed.
End Dfs.
