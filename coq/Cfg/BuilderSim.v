(* Simulation between the graph builder (Cfg/Builder.v, in the guard-free form process_stmt' of Cfg/BuilderFrame.v)
   and the compositional abstraction Cfg/Flow.v: definitions and basic lemmas.

   A labelling [lam : N -> bool] predicts which blocks the depth-first walk will reach.  For every statement the
   labelling is extended to the blocks the statement creates ([agree]); the new edges never leave the set of blocks
   labelled true (soundness: [closed]); every block labelled true is reached from ENTRY in any graph that contains
   the edges built so far (completeness: [reach]); the statements are put into blocks labelled with their Flow mark. *)
From Coq Require Import NArith List Bool Arith Lia ZifyBool ZifyNat ZifyN.
From PV Require Import Py.PyAST Cfg.Flow Cfg.FlowSpec Cfg.FlowComplete Cfg.Builder Cfg.BuilderReach Cfg.BuilderFrame Cfg.BuilderBounded.
Import ListNotations.
Local Open Scope N_scope.

Definition lam := N -> bool.
Definition agree (n : N) (l l' : lam) : Prop := forall b, b < n -> l' b = l b.
Definition upd (l : lam) (b : N) (v : bool) : lam := fun x => if N.eqb x b then v else l x.
Definition closed (l : lam) (E : list (N * N * ety)) : Prop := forall u v t, In (u, v, t) E -> l u = true -> l v = true.

Lemma agree_refl n l : agree n l l.
Proof. intros b _. reflexivity. Qed.
Lemma agree_trans n m l1 l2 l3 : agree n l1 l2 -> agree m l2 l3 -> n <= m -> agree n l1 l3.
Proof. intros A B H b Hb. rewrite (B b) by lia. apply A. exact Hb. Qed.
Lemma agree_le n m l l' : agree m l l' -> n <= m -> agree n l l'.
Proof. intros A H b Hb. apply A. lia. Qed.
Lemma agree_upd n l b v : n <= b -> agree n l (upd l b v).
Proof. intros H x Hx. unfold upd. destruct (N.eqb x b) eqn:E; [apply N.eqb_eq in E; lia|reflexivity]. Qed.
Lemma upd_same l b v : upd l b v b = v.
Proof. unfold upd. rewrite N.eqb_refl. reflexivity. Qed.
Lemma upd_other l b v x : x <> b -> upd l b v x = l x.
Proof. intro H. unfold upd. destruct (N.eqb x b) eqn:E; [apply N.eqb_eq in E; contradiction|reflexivity]. Qed.

Lemma closed_nil l : closed l [].
Proof. intros u v t []. Qed.
Lemma closed_snoc l E a b t : closed l (E ++ [(a, b, t)]) <-> closed l E /\ (l a = true -> l b = true).
Proof.
  split.
  - intro C. split.
    + intros u v t' Hin. apply (C u v t'). apply in_or_app. left. exact Hin.
    + apply (C a b t). apply in_or_app. right. left. reflexivity.
  - intros (C & H) u v t' Hin. apply in_app_or in Hin. destruct Hin as [Hin|[Heq|[]]]; [eapply C; exact Hin|].
    inversion Heq; subst. exact H.
Qed.
Lemma closed_agree n l l' E :
  closed l E -> (forall u v t, In (u, v, t) E -> u < n /\ v < n) -> agree n l l' -> closed l' E.
Proof. intros C B A u v t Hin. destruct (B u v t Hin) as (Hu & Hv). rewrite (A u Hu), (A v Hv). eapply C; exact Hin. Qed.

(* ---- the edges complexity.go counts: one ECondTrue edge per condition block, every exception edge ---- *)
Definition counted (t : ety) : bool := match t with ECondTrue | EException => true | _ => false end.
Definition cw (l : lam) (e : N * N * ety) : nat :=
  match e with (u, _, t) => if counted t then (if l u then 1%nat else 0%nat) else 0%nat end.
Definition cntE (l : lam) (E : list (N * N * ety)) : nat := list_sum (map (cw l) E).

Lemma cntE_nil l : cntE l [] = 0%nat.
Proof. reflexivity. Qed.
Lemma cntE_app l E E' : cntE l (E ++ E') = (cntE l E + cntE l E')%nat.
Proof. unfold cntE. rewrite map_app, list_sum_app. reflexivity. Qed.
Lemma cntE_snoc l E a b t :
  cntE l (E ++ [(a, b, t)]) = (cntE l E + (if counted t then (if l a then 1 else 0) else 0))%nat.
Proof. rewrite cntE_app. f_equal. unfold cntE. cbn [map list_sum cw]. apply Nat.add_0_r. Qed.
Lemma cntE_agree n l l' E :
  (forall u v t, In (u, v, t) E -> u < n /\ v < n) -> agree n l l' -> cntE l' E = cntE l E.
Proof.
  intros B A. unfold cntE. f_equal. apply map_ext_in. intros [[u v] t] Hin. cbn [cw].
  destruct (B u v t Hin) as (Hu & _). rewrite (A u Hu). reflexivity.
Qed.
Lemma cntE_map_const l a t tgts :
  cntE l (map (fun x => (a, x, t)) tgts) = (if counted t then (if l a then length tgts else 0) else 0)%nat.
Proof.
  induction tgts as [|x r IH]; [cbn; destruct (counted t); [destruct (l a)|]; reflexivity|].
  change (map (fun x0 => (a, x0, t)) (x :: r)) with ([(a, x, t)] ++ map (fun x0 => (a, x0, t)) r).
  rewrite cntE_app, IH. unfold cntE. cbn [map list_sum cw length]. destruct (counted t); [destruct (l a)|]; reflexivity.
Qed.

(* ---- statements in blocks ---- *)
Definition placed (s : st) (k e b : N) : Prop :=
  exists l x, In (b, l) (blocks s) /\ In x l /\ b_start x = k /\ b_end x = e.

Lemma in_add_to bs b x c l :
  In (c, l) (add_to bs b x) -> In (c, l) bs \/ (c = b /\ exists l0, In (b, l0) bs /\ l = l0 ++ [x]).
Proof.
  induction bs as [|[k0 l0] r IH]; cbn [add_to]; [intros []|]. destruct (N.eqb k0 b) eqn:E.
  - apply N.eqb_eq in E. subst k0. intros [H|H].
    + inversion H; subst. right. split; [reflexivity|]. exists l0. split; [left; reflexivity|reflexivity].
    + left. right. exact H.
  - intros [H|H]; [left; left; exact H|]. destruct (IH H) as [H'|(-> & l1 & H1 & ->)]; [left; right; exact H'|].
    right. split; [reflexivity|]. exists l1. split; [right; exact H1|reflexivity].
Qed.

Lemma add_to_in bs b x c l : In (c, l) bs -> exists l', In (c, l') (add_to bs b x) /\ incl l l'.
Proof.
  induction bs as [|[k0 l0] r IH]; [intros []|]. cbn [add_to]. destruct (N.eqb k0 b) eqn:E.
  - intros [H|H].
    + inversion H; subst. exists (l ++ [x]). split; [left; reflexivity|apply incl_appl, incl_refl].
    + exists l. split; [right; exact H|apply incl_refl].
  - intros [H|H].
    + exists l. split; [left; exact H|apply incl_refl].
    + destruct (IH H) as (l' & H1 & H2). exists l'. split; [right; exact H1|exact H2].
Qed.

Lemma add_to_new bs b x : In b (map fst bs) -> exists l, In (b, l ++ [x]) (add_to bs b x).
Proof.
  induction bs as [|[k0 l0] r IH]; [intros []|]. cbn [add_to map fst]. destruct (N.eqb k0 b) eqn:E.
  - intros _. apply N.eqb_eq in E. subst. exists l0. left. reflexivity.
  - intros [H|H]; [apply N.eqb_neq in E; contradiction|]. destruct (IH H) as (l & Hl). exists l. right. exact Hl.
Qed.

Lemma placed_add_stmt_inv s b x k e c :
  placed (add_stmt s b x) k e c -> placed s k e c \/ (c = b /\ k = b_start x /\ e = b_end x).
Proof.
  intros (l & y & Hin & Hy & Hk & He). cbn [add_stmt blocks] in Hin. apply in_add_to in Hin.
  destruct Hin as [Hin|(-> & l0 & Hin & ->)].
  - left. exists l, y. repeat split; assumption.
  - apply in_app_or in Hy. destruct Hy as [Hy|[<-|[]]].
    + left. exists l0, y. repeat split; assumption.
    + right. repeat split; congruence.
Qed.
Lemma placed_add_stmt_mono s b x k e c : placed s k e c -> placed (add_stmt s b x) k e c.
Proof.
  intros (l & y & Hin & Hy & Hk & He). destruct (add_to_in _ b x _ _ Hin) as (l' & H1 & H2).
  exists l', y. repeat split; try assumption. apply H2. exact Hy.
Qed.
Lemma placed_add_stmt_new s b x : haskey s b -> placed (add_stmt s b x) (b_start x) (b_end x) b.
Proof.
  intro Hk. destruct (add_to_new (blocks s) b x Hk) as (l & Hl). exists (l ++ [x]), x.
  repeat split; [exact Hl|apply in_or_app; right; left; reflexivity].
Qed.
Lemma placed_blocks_eq s s' k e c : blocks s' = blocks s -> placed s' k e c <-> placed s k e c.
Proof. intro E. unfold placed. rewrite E. reflexivity. Qed.
Lemma placed_nb s k e c : placed (nb s) k e c <-> placed s k e c.
Proof.
  unfold placed. cbn [nb new_block snd blocks]. split; intros (l & y & Hin & Hy & H).
  - destruct Hin as [Hin|Hin]; [inversion Hin; subst; destruct Hy|]. exists l, y. repeat split; tauto.
  - exists l, y. split; [right; exact Hin|tauto].
Qed.

(* ---- reachability helpers ---- *)
Lemma reach_edge E u v t : incl [(u, v, t)] E -> reach E u -> reach E v.
Proof. intros I R. eapply reach_step; [exact R|apply I; left; reflexivity]. Qed.

(* ---- Flow: with a dead entry nothing is live ---- *)
Lemma flow_dead_stmt x : rn (flow_stmt false x) = false /\ rk (flow_stmt false x) = false.
Proof. destruct dead_in as (H & _). destruct (H x) as (H1 & H2 & _). split; assumption. Qed.
Lemma flow_dead_block b : rn (flow_block false b) = false /\ rk (flow_block false b) = false.
Proof. destruct dead_in as (_ & H & _). destruct (H b) as (H1 & H2 & _). split; assumption. Qed.
Lemma flow_dead_arms a : rn (flow_arms false a) = false /\ rk (flow_arms false a) = false.
Proof. destruct dead_in as (_ & _ & H & _). destruct (H a) as (H1 & H2 & _). split; assumption. Qed.

Lemma rn_block_le L b : rn (flow_block L b) = true -> L = true.
Proof. destruct L; [reflexivity|]. rewrite (proj1 (flow_dead_block b)). discriminate. Qed.
Lemma rk_block_le L b : rk (flow_block L b) = true -> L = true.
Proof. destruct L; [reflexivity|]. rewrite (proj2 (flow_dead_block b)). discriminate. Qed.
Lemma rn_stmt_le L x : rn (flow_stmt L x) = true -> L = true.
Proof. destruct L; [reflexivity|]. rewrite (proj1 (flow_dead_stmt x)). discriminate. Qed.
Lemma rk_stmt_le L x : rk (flow_stmt L x) = true -> L = true.
Proof. destruct L; [reflexivity|]. rewrite (proj2 (flow_dead_stmt x)). discriminate. Qed.
Lemma rn_arms_le L a : rn (flow_arms L a) = true -> L = true.
Proof. destruct L; [reflexivity|]. rewrite (proj1 (flow_dead_arms a)). discriminate. Qed.
Lemma rk_arms_le L a : rk (flow_arms L a) = true -> L = true.
Proof. destruct L; [reflexivity|]. rewrite (proj2 (flow_dead_arms a)). discriminate. Qed.

(* ---- invariant of the builder state and the (light) frame of one statement ---- *)
Record inv (s : st) : Prop := {
  i_wfb : wfb s;
  i_cur : cur s < next s;
  i_klt : forall b, haskey s b -> b < next s;
  i_fincur : forall x f, In x (excs s) -> x_processing x = false -> x_finally x = Some f -> f <> cur s
}.

Definition anyb (_ : N) : Prop := True.

Record lframe (s s' : st) : Prop := {
  lf_mid : mid anyb s s';
  lf_loops : loops s' = loops s;
  lf_excs : excs s' = excs s;
  lf_cur : cur s' = cur s \/ next s <= cur s';
  lf_curlt : cur s' < next s';
  lf_klt : forall b, haskey s' b -> b < next s'
}.

Lemma inv_lframe s s' : inv s -> lframe s s' -> inv s'.
Proof.
  intros [Wb Hc Hk Hf] [M Hl He Hcu Hcl Hkl]. pose proof (m_next _ _ _ M) as Hn. split.
  - apply (wfb_mid _ _ _ M Wb); assumption.
  - exact Hcl.
  - exact Hkl.
  - rewrite He. intros x f Hx Hp Hfx. destruct Hcu as [->|Hcu]; [apply (Hf x f); assumption|].
    destruct (wb_fin _ Wb x Hx) as (H1 & _). specialize (H1 f Hfx). lia.
Qed.

Lemma lframe_refl s : inv s -> lframe s s.
Proof. intros [Wb Hc Hk Hf]. split; [apply mid_refl_b; exact Wb|reflexivity|reflexivity|left; reflexivity|exact Hc|exact Hk]. Qed.

Lemma lframe_trans s s' s'' : lframe s s' -> lframe s' s'' -> lframe s s''.
Proof.
  intros [M1 L1 E1 C1 D1 K1] [M2 L2 E2 C2 D2 K2]. pose proof (m_next _ _ _ M1). split.
  - apply (mid_transA _ anyb s s'); [exact M1|exact M2|]. intros u _. left. exact I.
  - congruence.
  - congruence.
  - destruct C2 as [->|C2]; [exact C1|right; lia].
  - exact D2.
  - exact K2.
Qed.

Lemma lframe_incl s s' : lframe s s' -> incl (edges s) (edges s').
Proof. intros F. destruct (m_edges _ _ _ (lf_mid _ _ F)) as (D & E & _). rewrite E. apply incl_appl, incl_refl. Qed.

(* ---- the context of a statement ---- *)
Definition ctx_ok (l : lam) (s : st) : Prop :=
  l exit_id = true /\
  (forall x f, In x (excs s) -> x_finally x = Some f -> l f = true) /\
  (forall x h, In x (excs s) -> In h (x_handlers x) -> l h = true) /\
  (forall lp, In lp (loops s) -> l (l_header lp) = true).
Definition brk_ok (l : lam) (s : st) : Prop := forall lp, hd_error (loops s) = Some lp -> l (l_exit lp) = true.

(* where a break goes *)
Definition brk_t (s : st) : option N :=
  match loops s with
  | [] => None
  | lp :: _ => Some (match jump_target (in_loop_frames s lp) with Some f => f | None => l_exit lp end)
  end.
(* no finally block of the innermost loop is being processed *)
Definition noproc (s : st) : Prop :=
  match loops s with
  | [] => True
  | lp :: _ => forall y, In y (in_loop_frames s lp) -> x_finally y <> None -> x_processing y = false
  end.
(* [f] is the finally block every jump out of the current statement is routed to *)
Definition Cfin (f : N) (s : st) : Prop :=
  exists pre X rest, excs s = pre ++ X :: rest /\ (forall y, In y pre -> x_finally y = None) /\
    x_finally X = Some f /\ x_processing X = false /\
    (forall lp, hd_error (loops s) = Some lp -> (l_excdepth lp <= length rest)%nat).

(* statement headers with their last line *)
Fixpoint spans_stmt (s : stmt) {struct s} : list (N * N) :=
  match s with
  | Simple k | Pass k | Return k | Raise k | Break k | Continue k | Comp k _ | Def k _ _ => [(k, end_stmt s)]
  | If k b a e => (k, end_stmt s) :: spans_block b ++ spans_elif a ++ spans_oblock e
  | While k b e | For k b e => (k, end_stmt s) :: spans_block b ++ spans_oblock e
  | Try _ b h e f => spans_block b ++ spans_arms h ++ spans_oblock e ++ spans_oblock f
  | With k b => (k, end_stmt s) :: spans_block b
  | Match k c => (k, end_stmt s) :: spans_arms c
  | Class k _ b => (k, end_stmt s) :: spans_block b
  end
with spans_block (b : block) {struct b} : list (N * N) :=
  match b with BNil => [] | BCons s b' => spans_stmt s ++ spans_block b' end
with spans_arms (a : arms) {struct a} : list (N * N) :=
  match a with ANil => [] | ACons k b a' => (k, N.max k (end_block b)) :: spans_block b ++ spans_arms a' end
with spans_elif (a : arms) {struct a} : list (N * N) :=
  match a with ANil => [] | ACons _ b a' => spans_block b ++ spans_elif a' end
with spans_oblock (o : oblock) {struct o} : list (N * N) :=
  match o with ONone => [] | OSome b => spans_block b end.

(* ---- the specification ---- *)
Definition S_out (s : st) (l : lam) (L : bool) (r : res) (s' : st) (elifs : list N) (spans : list (N * N)) (c3 : bool) : Prop :=
  exists l', agree (next s) l l' /\ lframe s s' /\ l' (cur s') = rn r /\
    ((L = true -> ctx_ok l s) -> (rk r = true -> brk_ok l s) -> closed l (edges s) -> closed l' (edges s')) /\
    (forall E, incl (edges s') E -> (L = true -> reach E (cur s)) ->
       (forall b, next s <= b -> b < next s' -> l' b = true -> reach E b) /\
       (rk r = true -> noproc s -> forall t, brk_t s = Some t -> reach E t) /\
       (L = true -> rn r = false -> forall f, Cfin f s -> reach E f)) /\
    (forall k e b, placed s' k e b -> placed s k e b \/ (k = 0 /\ e = 0) \/ (In (k, l' b) (rmarks r) /\ In (k, e) spans)) /\
    (forall k m, In (k, m) (rmarks r) -> In k elifs \/ exists e b, placed s' k e b /\ l' b = m) /\
    (forall k e b, placed s k e b -> placed s' k e b) /\
    (* on the construct list of C03: the counted edges out of blocks labelled reachable = Flow's decision count *)
    (c3 = true -> cntE l' (edges s') = (cntE l (edges s) + rcx r)%nat).

Definition S_stmt (x : stmt) : Prop := forall s l inl,
  inv s -> lok_stmt inl x = true -> (inl = true -> loops s <> []) ->
  S_out s l (l (cur s)) (flow_stmt (l (cur s)) x) (process_stmt' s x) (elif_stmt x) (spans_stmt x) (c03_stmt x).
Definition S_block (b : block) : Prop := forall s l inl,
  inv s -> lok_block inl b = true -> (inl = true -> loops s <> []) ->
  S_out s l (l (cur s)) (flow_block (l (cur s)) b) (process_block' s b) (elif_block b) (spans_block b) (c03_block b).
Definition S_oblock (o : oblock) : Prop := match o with OSome b => S_block b | ONone => True end.

(* ---- the context predicates only depend on the stacks ---- *)
Lemma brk_t_eq s s' : loops s' = loops s -> excs s' = excs s -> brk_t s' = brk_t s.
Proof. intros L E. unfold brk_t, in_loop_frames. rewrite L, E. reflexivity. Qed.
Lemma noproc_eq s s' : loops s' = loops s -> excs s' = excs s -> noproc s -> noproc s'.
Proof. intros L E. unfold noproc, in_loop_frames. rewrite L, E. exact (fun H => H). Qed.
Lemma Cfin_eq f s s' : loops s' = loops s -> excs s' = excs s -> Cfin f s -> Cfin f s'.
Proof. intros L E. unfold Cfin. rewrite L, E. exact (fun H => H). Qed.

Lemma ctx_ok_agree l l' s s' :
  ctx_ok l s -> inv s -> agree (next s) l l' -> loops s' = loops s -> excs s' = excs s -> ctx_ok l' s'.
Proof.
  intros (C1 & C2 & C3 & C4) I A L E. pose proof (i_wfb _ I) as Wb. pose proof (wb_two _ Wb) as H2.
  unfold ctx_ok. rewrite L, E. repeat split.
  - rewrite (A exit_id) by (unfold exit_id; lia). exact C1.
  - intros x f Hx Hf. destruct (wb_fin _ Wb x Hx) as (H & _). rewrite (A f) by (apply H; exact Hf). eapply C2; eauto.
  - intros x h Hx Hh. destruct (wb_fin _ Wb x Hx) as (_ & H). rewrite (A h) by (apply H; exact Hh). eapply C3; eauto.
  - intros lp Hlp. destruct (wb_loops _ Wb lp Hlp) as (H & _). rewrite (A _ H). apply C4. exact Hlp.
Qed.

Lemma brk_ok_agree l l' s s' :
  brk_ok l s -> inv s -> agree (next s) l l' -> loops s' = loops s -> brk_ok l' s'.
Proof.
  intros B I A L lp Hlp. rewrite L in Hlp. pose proof (i_wfb _ I) as Wb.
  assert (Hin : In lp (loops s)) by (destruct (loops s); [discriminate|inversion Hlp; left; reflexivity]).
  destruct (wb_loops _ Wb lp Hin) as (_ & H & _). rewrite (A _ H). apply B. exact Hlp.
Qed.

Lemma closed_ext l l' s : closed l (edges s) -> inv s -> agree (next s) l l' -> closed l' (edges s).
Proof. intros C I A. apply (closed_agree (next s) l); [exact C|apply (wb_bnd _ (i_wfb _ I))|exact A]. Qed.

(* a statement that only adds itself to the current block *)
Lemma S_add s l k e elifs spans c3 :
  inv s -> In (k, e) spans ->
  S_out s l (l (cur s)) {| rn := l (cur s); rk := false; rmarks := [(k, l (cur s))]; rcx := 0 |}
        (add_stmt s (cur s) (mk k e KOther)) elifs spans c3.
Proof.
  intros I Hsp. exists l. split; [apply agree_refl|]. split; [|split; [reflexivity|split; [|split; [|split; [|split; [|split]]]]]].
  - destruct (lframe_refl s I) as [M L E C D K]. split; try assumption. apply mid_add_stmt. exact M.
    intros b Hb. apply K. unfold haskey in *. cbn [add_stmt blocks] in Hb. rewrite add_to_keys in Hb. exact Hb.
  - intros _ _ C. exact C.
  - intros E HE HR. cbn [rn rk]. autorewrite with bst. split; [intros b H1 H2; lia|]. split; [discriminate|].
    intros H1 H2. congruence.
  - intros k' e' b Hp. apply placed_add_stmt_inv in Hp. destruct Hp as [Hp|(-> & -> & ->)]; [left; exact Hp|].
    right. right. cbn. split; [left; reflexivity|exact Hsp].
  - intros k' m [Heq|[]]. inversion Heq; subst. right. exists e, (cur s). split; [|reflexivity].
    apply (placed_add_stmt_new s (cur s) (mk k' e KOther)). apply (wb_keys _ (i_wfb _ I)). apply (i_cur _ I).
  - intros k' e' b. apply placed_add_stmt_mono.
  - intros _. cbn [rcx add_stmt edges]. rewrite Nat.add_0_r. reflexivity.
Qed.

Lemma S_block_nil : S_block BNil.
Proof.
  intros s l inl I _ _. exists l. split; [apply agree_refl|]. split; [apply lframe_refl; exact I|]. split; [reflexivity|].
  split; [intros _ _ C; exact C|]. split; [|split; [|split; [|split]]].
  - intros E HE HR. cbn. split; [intros b H1 H2; lia|]. split; [discriminate|]. intros H1 H2. congruence.
  - intros k e b Hp. left. exact Hp.
  - intros k m [].
  - intros k e b Hp. exact Hp.
  - intros _. cbn [process_block' flow_block rcx]. rewrite Nat.add_0_r. reflexivity.
Qed.

Lemma S_block_cons x b : S_stmt x -> S_block b -> S_block (BCons x b).
Proof.
  intros Sx Sb s l inl I Hlok Hinl. cbn [lok_block] in Hlok. apply andb_true_iff in Hlok. destruct Hlok as (Hl1 & Hl2).
  cbn [process_block' flow_block elif_block spans_block].
  destruct (Sx s l inl I Hl1 Hinl) as (l1 & A1 & F1 & C1 & So1 & Co1 & D1a & D1b & D1c & Cn1).
  set (s1 := process_stmt' s x) in *. set (L := l (cur s)) in *. set (r1 := flow_stmt L x) in *.
  pose proof (inv_lframe _ _ I F1) as I1.
  assert (Hinl1 : inl = true -> loops s1 <> []) by (rewrite (lf_loops _ _ F1); exact Hinl).
  destruct (Sb s1 l1 inl I1 Hl2 Hinl1) as (l2 & A2 & F2 & C2 & So2 & Co2 & D2a & D2b & D2c & Cn2).
  rewrite C1 in *. set (s2 := process_block' s1 b) in *. set (r2 := flow_block (rn r1) b) in *.
  pose proof (m_next _ _ _ (lf_mid _ _ F1)) as N1. pose proof (m_next _ _ _ (lf_mid _ _ F2)) as N2.
  exists l2. split; [eapply agree_trans; eauto|]. split; [eapply lframe_trans; eauto|]. split; [exact C2|].
  cbn [rn rk rmarks rcx].
  assert (HL1 : rn r1 = true -> L = true) by (apply rn_stmt_le).
  split; [|split; [|split; [|split; [|split]]]].
  - intros Hc Hb Cl. apply So2.
    + intro H1. apply (ctx_ok_agree l l1 s s1); [apply Hc; apply HL1; exact H1|exact I|exact A1|apply F1|apply F1].
    + intro H2. apply (brk_ok_agree l l1 s s1); [apply Hb; rewrite H2; apply orb_true_r|exact I|exact A1|apply F1].
    + apply So1; [exact Hc| |exact Cl]. intro H1. apply Hb. rewrite H1. reflexivity.
  - intros E HE HR.
    assert (HE1 : incl (edges s1) E) by (eapply incl_tran; [apply (lframe_incl _ _ F2)|exact HE]).
    destruct (Co1 E HE1 HR) as (P4a & P2a & P3a).
    assert (HR1 : rn r1 = true -> reach E (cur s1)).
    { intro H1. destruct (lf_cur _ _ F1) as [->|Hc]; [apply HR, HL1, H1|]. apply P4a; [exact Hc|apply F1|]. rewrite C1. exact H1. }
    destruct (Co2 E HE HR1) as (P4b & P2b & P3b).
    split; [|split].
    + intros c Hc1 Hc2 Hc3. destruct (N.lt_ge_cases c (next s1)) as [Hlt|Hge].
      * apply P4a; [exact Hc1|exact Hlt|]. rewrite <- (A2 c Hlt). exact Hc3.
      * apply P4b; assumption.
    + intros Hk Hnp t Ht. apply orb_true_iff in Hk. destruct Hk as [Hk|Hk].
      * apply (P2a Hk Hnp t Ht).
      * apply (P2b Hk); [apply (noproc_eq s); [apply F1|apply F1|exact Hnp]|]. rewrite (brk_t_eq s s1); [exact Ht|apply F1|apply F1].
    + intros HLt Hn f Hf. destruct (rn r1) eqn:E1.
      * apply (P3b eq_refl Hn f). apply (Cfin_eq f s); [apply F1|apply F1|exact Hf].
      * apply (P3a HLt eq_refl f Hf).
  - intros k e c Hp. destruct (D2a k e c Hp) as [Hp1|[Hk|(Hm & Hs)]].
    + destruct (D1a k e c Hp1) as [Hp0|[Hk|(Hm & Hs)]]; [left; exact Hp0|right; left; exact Hk|].
      right. right. split; [|apply in_or_app; left; exact Hs]. apply in_or_app. left.
      assert (Hc : c < next s1).
      { apply (i_klt _ I1). destruct Hp1 as (lst & y & Hin & _). unfold haskey. apply in_map_iff. exists (c, lst). split; [reflexivity|exact Hin]. }
      rewrite (A2 c Hc). exact Hm.
    + right. left. exact Hk.
    + right. right. split; apply in_or_app; right; assumption.
  - intros k m Hin. apply in_app_or in Hin. destruct Hin as [Hin|Hin].
    + destruct (D1b k m Hin) as [He|(e & c & Hp & Hm)]; [left; apply in_or_app; left; exact He|].
      right. exists e, c. split; [apply D2c; exact Hp|].
      assert (Hc : c < next s1).
      { apply (i_klt _ I1). destruct Hp as (lst & y & Hin' & _). unfold haskey. apply in_map_iff. exists (c, lst). split; [reflexivity|exact Hin']. }
      rewrite (A2 c Hc). exact Hm.
    + destruct (D2b k m Hin) as [He|H]; [left; apply in_or_app; right; exact He|right; exact H].
  - intros k e c Hp. apply D2c, D1c. exact Hp.
  - intro H3. cbn [c03_block] in H3. apply andb_true_iff in H3. destruct H3 as (H3a & H3b).
    rewrite (Cn2 H3b), (Cn1 H3a). symmetry. apply Nat.add_assoc.
Qed.

(* ---- [placed] through the primitives (rewrite database [plc]) ---- *)
Lemma placed_connect s a b t k e c : placed (connect s a b t) k e c <-> placed s k e c.
Proof. apply placed_blocks_eq. reflexivity. Qed.
Lemma placed_set_cur s a k e c : placed (set_cur s a) k e c <-> placed s k e c.
Proof. apply placed_blocks_eq. reflexivity. Qed.
Lemma placed_set_loops s a k e c : placed (set_loops s a) k e c <-> placed s k e c.
Proof. apply placed_blocks_eq. reflexivity. Qed.
Lemma placed_set_excs s a k e c : placed (set_excs s a) k e c <-> placed s k e c.
Proof. apply placed_blocks_eq. reflexivity. Qed.
Lemma placed_connect_all s a l t k e c : placed (connect_all s a l t) k e c <-> placed s k e c.
Proof. apply placed_blocks_eq. apply ca_blocks. Qed.
Lemma placed_connect_unless s a b t k e c : placed (connect_unless s a b t) k e c <-> placed s k e c.
Proof. apply placed_blocks_eq. apply cu_blocks. Qed.
Lemma placed_set_processing s p k e c : placed (set_processing s p) k e c <-> placed s k e c.
Proof. apply placed_blocks_eq. unfold set_processing. destruct (excs s); reflexivity. Qed.
Global Hint Rewrite placed_connect placed_set_cur placed_set_loops placed_set_excs placed_connect_all
  placed_connect_unless placed_set_processing placed_nb : plc.

Lemma placed_lt s k e c : inv s -> placed s k e c -> c < next s.
Proof.
  intros I (lst & y & Hin & _). apply (i_klt _ I). unfold haskey. apply in_map_iff. exists (c, lst). split; [reflexivity|exact Hin].
Qed.

(* ---- jump targets when a finally block is pending ---- *)
Lemma return_target_Cfin c pre X rest f :
  (forall y, In y pre -> x_finally y = None) -> x_finally X = Some f -> f <> c ->
  return_target c (pre ++ X :: rest) = Some f.
Proof.
  intros Hpre HX Hne. induction pre as [|y pre IH]; cbn [app return_target].
  - rewrite HX. destruct (N.eqb f c) eqn:E; [apply N.eqb_eq in E; contradiction|reflexivity].
  - rewrite (Hpre y (or_introl eq_refl)). apply IH. intros z Hz. apply Hpre. right. exact Hz.
Qed.

Lemma raise_target_Cfin pre X rest f fb0 :
  (forall y, In y pre -> x_finally y = None) -> x_finally X = Some f -> x_processing X = false ->
  fst (raise_target (pre ++ X :: rest) fb0) = Some f.
Proof.
  intros Hpre HX HP. revert fb0. induction pre as [|y pre IH]; intro fb0; cbn [app raise_target].
  - rewrite HP, HX. reflexivity.
  - destruct (x_processing y); [apply IH; intros z Hz; apply Hpre; right; exact Hz|].
    rewrite (Hpre y (or_introl eq_refl)). apply IH. intros z Hz. apply Hpre. right. exact Hz.
Qed.

Lemma jump_target_Cfin n pre X rest f :
  (forall y, In y pre -> x_finally y = None) -> x_finally X = Some f -> x_processing X = false ->
  (length pre < n)%nat -> jump_target (firstn n (pre ++ X :: rest)) = Some f.
Proof.
  intros Hpre HX HP. revert n. induction pre as [|y pre IH]; intros n Hn.
  - destruct n as [|n]; [cbn in Hn; lia|]. cbn [app firstn jump_target]. rewrite HP, HX. reflexivity.
  - destruct n as [|n]; [cbn in Hn; lia|]. cbn [app firstn jump_target].
    assert (IH' : jump_target (firstn n (pre ++ X :: rest)) = Some f).
    { apply IH; [intros z Hz; apply Hpre; right; exact Hz|cbn in Hn; lia]. }
    destruct (x_processing y); [exact IH'|]. rewrite (Hpre y (or_introl eq_refl)). exact IH'.
Qed.

Lemma brk_t_Cfin s f lp ls : loops s = lp :: ls -> Cfin f s -> jump_target (in_loop_frames s lp) = Some f.
Proof.
  intros El (pre & X & rest & Ex & Hpre & HX & HP & Hd). unfold in_loop_frames. rewrite Ex.
  apply jump_target_Cfin; try assumption. specialize (Hd lp). rewrite El in Hd. specialize (Hd eq_refl).
  rewrite app_length. cbn [length]. lia.
Qed.

(* ---- a statement that jumps: its own line in the current block, edges to [tgts], a fresh current block ---- *)
Lemma S_jump s l k kd s2 tgts elifs spans rkv cxv c3 :
  inv s -> In (k, k) spans ->
  next s2 = next s -> cur s2 = cur s -> loops s2 = loops s -> excs s2 = excs s -> blocks s2 = blocks (add_stmt s (cur s) (mk k k kd)) ->
  mid anyb s s2 ->
  (forall u v t, In (u, v, t) (edges s2) -> In (u, v, t) (edges s) \/ (u = cur s /\ In v tgts)) ->
  (forall v, In v tgts -> exists t, In (cur s, v, t) (edges s2)) ->
  let L := l (cur s) in
  ((L = true -> ctx_ok l s) -> (rkv = true -> brk_ok l s) -> L = true -> forall v, In v tgts -> l v = true) ->
  (rkv = true -> L = true) ->
  (rkv = true -> noproc s -> forall t, brk_t s = Some t -> In t tgts) ->
  (L = true -> forall f, Cfin f s -> In f tgts) ->
  (c3 = true -> cntE l (edges s2) = (cntE l (edges s) + cxv)%nat) ->
  S_out s l L {| rn := false; rk := rkv; rmarks := [(k, L)]; rcx := cxv |} (after_terminator s2) elifs spans c3.
Proof.
  intros I Hsp N2 C2 L2 X2 B2 M2 HD1 HD2 L Hsound Hrk Hbrk Hfin Hcnt.
  pose proof (i_wfb _ I) as Wb. pose proof (i_cur _ I) as Hc.
  unfold after_terminator. rewrite new_block_eq.
  exists (upd l (next s) false).
  assert (A : agree (next s) l (upd l (next s) false)) by (apply agree_upd; lia).
  split; [exact A|]. split; [|split; [|split; [|split; [|split; [|split; [|split]]]]]].
  - split.
    + apply mid_set_cur, mid_nb. exact M2.
    + autorewrite with bst. exact L2.
    + autorewrite with bst. exact X2.
    + right. autorewrite with bst. lia.
    + autorewrite with bst. lia.
    + intros b Hb. unfold haskey in Hb. autorewrite with bst in Hb. rewrite B2 in Hb. cbn [map fst] in Hb.
      autorewrite with bst. destruct Hb as [<-|Hb]; [lia|]. cbn [add_stmt blocks] in Hb. rewrite add_to_keys in Hb.
      pose proof (i_klt _ I b Hb). lia.
  - autorewrite with bst. rewrite N2. apply upd_same.
  - intros Hctx Hb Cl. autorewrite with bst. intros u v t Hin Hu. destruct (HD1 u v t Hin) as [Hin'|(-> & Hv)].
    + destruct (wb_bnd _ Wb u v t Hin') as (H1 & H2). rewrite (A v H2). rewrite (A u H1) in Hu. eapply Cl; eauto.
    + rewrite (A _ Hc) in Hu. assert (Hlv : l v = true) by (apply Hsound; assumption).
      destruct (m_bnd _ _ _ M2 (cur s) v t Hin) as (_ & Hlt). rewrite upd_other by lia. exact Hlv.
  - intros E HE HR. autorewrite with bst in HE. cbn [rn rk]. autorewrite with bst. rewrite N2.
    assert (Hedge : forall v, In v tgts -> L = true -> reach E v).
    { intros v Hv HL. destruct (HD2 v Hv) as (t & Hin). eapply reach_step; [apply HR; exact HL|]. apply HE. exact Hin. }
    split; [|split].
    + intros b H1 H2 H3. assert (b = next s) by lia. subst b. rewrite upd_same in H3. discriminate.
    + intros Hk Hnp t Ht. apply Hedge; [apply (Hbrk Hk Hnp t Ht)|apply Hrk; exact Hk].
    + intros HL _ f Hf. apply Hedge; [apply (Hfin HL f Hf)|exact HL].
  - intros k' e' b Hp. autorewrite with plc in Hp. rewrite (placed_blocks_eq _ _ _ _ _ B2) in Hp.
    apply placed_add_stmt_inv in Hp. destruct Hp as [Hp|(-> & -> & ->)]; [left; exact Hp|].
    right. right. cbn [rmarks b_start b_end mk]. split; [|exact Hsp]. left. rewrite (A _ Hc). reflexivity.
  - intros k' m [Heq|[]]. inversion Heq; subst. right. exists k', (cur s). split; [|apply (A _ Hc)].
    autorewrite with plc. rewrite (placed_blocks_eq _ _ _ _ _ B2).
    apply (placed_add_stmt_new s (cur s) (mk k' k' kd)). apply (wb_keys _ Wb). exact Hc.
  - intros k' e' b Hp. autorewrite with plc. rewrite (placed_blocks_eq _ _ _ _ _ B2). apply placed_add_stmt_mono. exact Hp.
  - intro H3. autorewrite with bst. cbn [rcx]. rewrite <- (Hcnt H3). apply (cntE_agree (next s)); [|exact A].
    rewrite <- N2. apply (m_bnd _ _ _ M2).
Qed.

Lemma edges_connect_all s a l t : edges (connect_all s a l t) = edges s ++ map (fun x => (a, x, t)) l.
Proof.
  revert s. induction l as [|x r IH]; intro s; cbn [connect_all map]; [rewrite app_nil_r; reflexivity|].
  rewrite IH. cbn [connect edges]. rewrite <- app_assoc. reflexivity.
Qed.

(* a jump with the edges [cur -> tgts] *)
Lemma S_jump_all s l k kd tgts ety0 elifs spans rkv cxv c3 :
  inv s -> In (k, k) spans -> (forall v, In v tgts -> v < next s) ->
  let s2 := connect_all (add_stmt s (cur s) (mk k k kd)) (cur s) tgts ety0 in
  let L := l (cur s) in
  ((L = true -> ctx_ok l s) -> (rkv = true -> brk_ok l s) -> L = true -> forall v, In v tgts -> l v = true) ->
  (rkv = true -> L = true) ->
  (rkv = true -> noproc s -> forall t, brk_t s = Some t -> In t tgts) ->
  (L = true -> forall f, Cfin f s -> In f tgts) ->
  (c3 = true -> counted ety0 = false /\ cxv = 0%nat) ->
  S_out s l L {| rn := false; rk := rkv; rmarks := [(k, L)]; rcx := cxv |} (after_terminator s2) elifs spans c3.
Proof.
  intros I Hsp Hlt s2 L H1 H2 H3 H4 H5. pose proof (i_cur _ I) as Hc.
  apply (S_jump s l k kd s2 tgts); try assumption; unfold s2; autorewrite with bst; try reflexivity.
  - apply mid_connect_all; [apply mid_add_stmt, mid_refl_b, I|left; exact Logic.I|exact Hc|exact Hlt].
  - intros u v t Hin. rewrite edges_connect_all in Hin. apply in_app_or in Hin. destruct Hin as [Hin|Hin]; [left; exact Hin|].
    apply in_map_iff in Hin. destruct Hin as (x & Heq & Hx). inversion Heq; subst. right. split; [reflexivity|exact Hx].
  - intros v Hv. exists ety0. rewrite edges_connect_all. apply in_or_app. right. apply in_map_iff. exists v. split; [reflexivity|exact Hv].
  - intro Hc3. destruct (H5 Hc3) as (Hct & ->). rewrite edges_connect_all, cntE_app, cntE_map_const, Hct. reflexivity.
Qed.

Lemma connect_as_all s a b t : connect s a b t = connect_all s a [b] t.
Proof. reflexivity. Qed.

Lemma S_return k : S_stmt (Return k).
Proof.
  intros s l inl I _ _. cbn [process_stmt' flow_stmt elif_stmt spans_stmt end_stmt]. autorewrite with bst.
  pose proof (i_wfb _ I) as Wb. pose proof (wb_two _ Wb) as H2.
  set (tgt := match return_target (cur s) (excs s) with Some f => f | None => exit_id end).
  assert (E : match return_target (cur s) (excs s) with
              | Some f => connect (add_stmt s (cur s) (mk k k KReturn)) (cur s) f EReturn
              | None => connect (add_stmt s (cur s) (mk k k KReturn)) (cur s) exit_id EReturn
              end = connect_all (add_stmt s (cur s) (mk k k KReturn)) (cur s) [tgt] EReturn).
  { unfold tgt. destruct (return_target _ _); reflexivity. }
  rewrite E. apply S_jump_all; try assumption; try (left; reflexivity).
  - intros v [<-|[]]. unfold tgt. destruct (return_target _ _) as [f|] eqn:Er; [|unfold exit_id; lia].
    destruct (return_target_in _ _ _ Er) as (x & Hx & Hf). destruct (wb_fin _ Wb x Hx) as (H & _). apply H. exact Hf.
  - intros Hctx _ HL v [<-|[]]. destruct (Hctx HL) as (C1 & C2 & _). unfold tgt.
    destruct (return_target _ _) as [f|] eqn:Er; [|exact C1].
    destruct (return_target_in _ _ _ Er) as (x & Hx & Hf). eapply C2; eauto.
  - discriminate.
  - discriminate.
  - intros HL f (pre & X & rest & Ex & Hpre & HX & HP & _). left. unfold tgt. rewrite Ex.
    rewrite (return_target_Cfin (cur s) pre X rest f Hpre HX); [reflexivity|].
    apply (i_fincur _ I X f); [rewrite Ex; apply in_or_app; right; left; reflexivity|exact HP|exact HX].
  - intros _. split; reflexivity.
Qed.

Lemma S_raise k : S_stmt (Raise k).
Proof.
  intros s l inl I _ _. cbn [process_stmt' flow_stmt elif_stmt spans_stmt end_stmt]. autorewrite with bst.
  pose proof (i_wfb _ I) as Wb. pose proof (wb_two _ Wb) as H2.
  set (tgts := match raise_target (excs s) None with
               | (Some f, _) => [f]
               | (None, Some fb) => match x_handlers fb with [] => [exit_id] | hs => hs end
               | (None, None) => [exit_id]
               end).
  match goal with |- S_out _ _ _ _ (after_terminator ?X) _ _ _ =>
    replace X with (connect_all (add_stmt s (cur s) (mk k k KRaise)) (cur s) tgts EException) end.
  2:{ unfold tgts. destruct (raise_target _ _) as [[f|] [fb|]]; try reflexivity. destruct (x_handlers fb); reflexivity. }
  destruct (raise_target_in (excs s) None) as (R1 & R2).
  assert (Htg : forall v, In v tgts -> v = exit_id \/ (exists x, In x (excs s) /\ (x_finally x = Some v \/ In v (x_handlers x)))).
  { intros v Hv. unfold tgts in Hv. destruct (raise_target (excs s) None) as [[f|] [fb|]] eqn:Er; cbn [fst snd] in R1, R2.
    - destruct Hv as [<-|[]]. destruct (R1 _ eq_refl) as (x & Hx & Hf). right. exists x. split; [exact Hx|left; exact Hf].
    - destruct Hv as [<-|[]]. destruct (R1 _ eq_refl) as (x & Hx & Hf). right. exists x. split; [exact Hx|left; exact Hf].
    - destruct (R2 _ eq_refl) as [R|R]; [discriminate|]. destruct (x_handlers fb) as [|h hs] eqn:Eh.
      + destruct Hv as [<-|[]]. left. reflexivity.
      + right. exists fb. split; [exact R|right; rewrite Eh; exact Hv].
    - destruct Hv as [<-|[]]. left. reflexivity. }
  apply S_jump_all; try assumption; try (left; reflexivity).
  - intros v Hv. destruct (Htg v Hv) as [->|(x & Hx & [Hf|Hh])]; [unfold exit_id; lia| |].
    + destruct (wb_fin _ Wb x Hx) as (H & _). apply H. exact Hf.
    + destruct (wb_fin _ Wb x Hx) as (_ & H). apply H. exact Hh.
  - intros Hctx _ HL v Hv. destruct (Hctx HL) as (C1 & C2 & C3 & _).
    destruct (Htg v Hv) as [->|(x & Hx & [Hf|Hh])]; [exact C1|eapply C2; eauto|eapply C3; eauto].
  - discriminate.
  - discriminate.
  - intros HL f (pre & X & rest & Ex & Hpre & HX & HP & _). unfold tgts.
    pose proof (raise_target_Cfin pre X rest f None Hpre HX HP) as Hr. rewrite <- Ex in Hr.
    destruct (raise_target (excs s) None) as [[g|] fb]; cbn [fst] in Hr; [inversion Hr; left; reflexivity|discriminate].
  - discriminate.
Qed.

Lemma S_break k : S_stmt (Break k).
Proof.
  intros s l inl I Hlok Hinl. cbn [lok_stmt] in Hlok. specialize (Hinl Hlok).
  cbn [process_stmt' flow_stmt elif_stmt spans_stmt end_stmt]. autorewrite with bst.
  pose proof (i_wfb _ I) as Wb.
  destruct (loops s) as [|lp ls] eqn:El; [contradiction|].
  destruct (wb_loops _ Wb lp) as (Hl1 & Hl2 & Hl3); [rewrite El; left; reflexivity|].
  set (tgt := match jump_target (in_loop_frames s lp) with Some f => f | None => l_exit lp end).
  match goal with |- S_out _ _ _ _ (after_terminator ?X) _ _ _ =>
    replace X with (connect_all (add_stmt s (cur s) (mk k k KBreak)) (cur s) [tgt] EBreak) end.
  2:{ unfold tgt, in_loop_frames. autorewrite with bst. destruct (jump_target _); reflexivity. }
  apply S_jump_all; try assumption; try (left; reflexivity).
  - intros v [<-|[]]. unfold tgt. destruct (jump_target _) as [f|] eqn:Ej; [|exact Hl2].
    destruct (jump_target_in _ _ Ej) as (x & Hx & Hf). apply in_loop_frames_in in Hx.
    destruct (wb_fin _ Wb x Hx) as (H & _). apply H. exact Hf.
  - intros Hctx Hb HL v [<-|[]]. unfold tgt. destruct (jump_target _) as [f|] eqn:Ej.
    + destruct (jump_target_in _ _ Ej) as (x & Hx & Hf). apply in_loop_frames_in in Hx.
      destruct (Hctx HL) as (_ & C2 & _). eapply C2; eauto.
    + apply (Hb HL). rewrite El. reflexivity.
  - exact (fun H => H).
  - intros _ _ t Ht. unfold brk_t in Ht. rewrite El in Ht. inversion Ht. left. reflexivity.
  - intros HL f Hf. left. unfold tgt. rewrite (brk_t_Cfin s f lp ls El Hf). reflexivity.
  - intros _. split; reflexivity.
Qed.

Lemma S_continue k : S_stmt (Continue k).
Proof.
  intros s l inl I Hlok Hinl. cbn [lok_stmt] in Hlok. specialize (Hinl Hlok).
  cbn [process_stmt' flow_stmt elif_stmt spans_stmt end_stmt]. autorewrite with bst.
  pose proof (i_wfb _ I) as Wb.
  destruct (loops s) as [|lp ls] eqn:El; [contradiction|].
  destruct (wb_loops _ Wb lp) as (Hl1 & Hl2 & Hl3); [rewrite El; left; reflexivity|].
  set (tgt := match jump_target (in_loop_frames s lp) with Some f => f | None => l_header lp end).
  match goal with |- S_out _ _ _ _ (after_terminator ?X) _ _ _ =>
    replace X with (connect_all (add_stmt s (cur s) (mk k k KContinue)) (cur s) [tgt] EContinue) end.
  2:{ unfold tgt, in_loop_frames. autorewrite with bst. destruct (jump_target _); reflexivity. }
  apply S_jump_all; try assumption; try (left; reflexivity).
  - intros v [<-|[]]. unfold tgt. destruct (jump_target _) as [f|] eqn:Ej; [|exact Hl1].
    destruct (jump_target_in _ _ Ej) as (x & Hx & Hf). apply in_loop_frames_in in Hx.
    destruct (wb_fin _ Wb x Hx) as (H & _). apply H. exact Hf.
  - intros Hctx Hb HL v [<-|[]]. destruct (Hctx HL) as (_ & C2 & _ & C4). unfold tgt. destruct (jump_target _) as [f|] eqn:Ej.
    + destruct (jump_target_in _ _ Ej) as (x & Hx & Hf). apply in_loop_frames_in in Hx. eapply C2; eauto.
    + apply C4. rewrite El. left. reflexivity.
  - discriminate.
  - discriminate.
  - intros HL f Hf. left. unfold tgt. rewrite (brk_t_Cfin s f lp ls El Hf). reflexivity.
  - intros _. split; reflexivity.
Qed.

Lemma S_simple_like x k : (forall s, process_stmt' s x = add_stmt s (cur s) (mk k (end_stmt x) KOther)) ->
  (forall L, flow_stmt L x = {| rn := L; rk := false; rmarks := [(k, L)]; rcx := 0 |}) ->
  In (k, end_stmt x) (spans_stmt x) -> S_stmt x.
Proof. intros E1 E2 Hs s l inl I _ _. rewrite E1, E2. apply S_add; assumption. Qed.

(* [lia] on the arithmetic hypotheses only (the simulation hypotheses are large) *)
Ltac keep_arith :=
  repeat match goal with
  | H : ?T |- _ =>
      lazymatch T with
      | (_ < _)%N => fail | (_ <= _)%N => fail | (_ < _)%nat => fail | (_ <= _)%nat => fail
      | @eq N _ _ => fail | @eq nat _ _ => fail | (_ <> _) => fail | (_ \/ _) => fail | (_ /\ _) => fail
      | _ => clear H
      end
  end.
Ltac flia := keep_arith; lia.
Ltac uflia := autorewrite with bst; flia.
(* counting: expose the edge list as appends of single edges *)
Ltac cnt_norm := autorewrite with bst; rewrite ?cntE_snoc; cbn [counted rcx].
Ltac cnt_fin :=
  unfold gate; cbn [arms_length rcx];
  repeat match goal with x := _ : res |- _ => progress unfold x end;
  repeat match goal with x := _ : option res |- _ => progress unfold x end;
  repeat match goal with x := _ : bool |- _ => progress unfold x end;
  repeat match goal with |- context [if ?b then _ else _] => destruct b end; flia.
Ltac c03_split H :=
  cbn [c03_stmt c03_block c03_arms c03_oblock] in H; rewrite ?andb_true_r in H;
  repeat match type of H with
  | (_ && _ = true) => let H' := fresh H in apply andb_true_iff in H; destruct H as (H & H')
  end.

(* ---- keys of the block table stay below [next] ---- *)
Definition klt (s : st) : Prop := forall b, haskey s b -> b < next s.
Lemma klt_nb s : klt s -> klt (nb s).
Proof. intros K b Hb. unfold haskey in Hb. autorewrite with bst in *. cbn [map fst] in Hb. destruct Hb as [<-|Hb]; [flia|]. specialize (K b Hb). flia. Qed.
Lemma klt_eq s s' : map fst (blocks s') = map fst (blocks s) -> next s <= next s' -> klt s -> klt s'.
Proof. intros E N K b Hb. unfold haskey in Hb. rewrite E in Hb. specialize (K b Hb). flia. Qed.
Lemma klt_add_stmt s b x : klt s -> klt (add_stmt s b x).
Proof. apply klt_eq; [cbn [add_stmt blocks]; apply add_to_keys|reflexivity]. Qed.
Lemma klt_connect s a b t : klt s -> klt (connect s a b t).
Proof. apply klt_eq; reflexivity. Qed.
Lemma klt_set_cur s a : klt s -> klt (set_cur s a).
Proof. apply klt_eq; reflexivity. Qed.
Lemma klt_set_loops s a : klt s -> klt (set_loops s a).
Proof. apply klt_eq; reflexivity. Qed.
Lemma klt_set_excs s a : klt s -> klt (set_excs s a).
Proof. apply klt_eq; reflexivity. Qed.
Lemma klt_connect_all s a l t : klt s -> klt (connect_all s a l t).
Proof. apply klt_eq; [rewrite ca_blocks; reflexivity|rewrite ca_next; reflexivity]. Qed.
Lemma klt_connect_unless s a b t : klt s -> klt (connect_unless s a b t).
Proof. apply klt_eq; [rewrite cu_blocks; reflexivity|rewrite cu_next; reflexivity]. Qed.

(* a state reached by primitives only, about to process a sub-block from a fresh block [c] *)
Lemma inv_fresh s t c :
  inv s -> mid anyb s t -> loops t = loops s -> excs t = excs s -> klt t -> next s <= c -> c < next t ->
  inv (set_cur t c).
Proof.
  intros I M L E K H1 H2. pose proof (i_wfb _ I) as Wb. split.
  - apply (wfb_mid anyb s); [apply mid_set_cur; exact M|exact Wb|exact L|exact E].
  - exact H2.
  - exact K.
  - autorewrite with bst. rewrite E. intros x f Hx _ Hf. destruct (wb_fin _ Wb x Hx) as (H & _). specialize (H f Hf). flia.
Qed.

Lemma lframe_mid s t c' :
  mid anyb s t -> loops t = loops s -> excs t = excs s -> klt t -> next s <= c' -> c' < next t -> lframe s (set_cur t c').
Proof. intros M L E K H1 H2. split; [apply mid_set_cur; exact M|exact L|exact E|right; exact H1|exact H2|exact K]. Qed.

Ltac lev :=
  repeat match goal with
  | |- context [upd _ ?b _ ?b] => rewrite upd_same
  | |- context [upd ?l ?b ?v ?x] => rewrite (upd_other l b v x) by flia
  | A : agree ?n ?l ?l' |- context [?l' ?x] => rewrite (A x) by flia
  end.
Ltac lev_in H :=
  repeat match type of H with
  | context [upd _ ?b _ ?b] => rewrite upd_same in H
  | context [upd ?l ?b ?v ?x] => rewrite (upd_other l b v x) in H by flia
  | context [?l' ?x] => match goal with A : agree ?n ?l l' |- _ => rewrite (A x) in H by flia end
  end.

(* a sub-block processed from the fresh block [c] of a state [t] reached from [s] by primitives *)
Definition B_out (s t : st) (c : N) (l l1 : lam) (b : block) (s' : st) (l2 : lam) : Prop :=
  let Lc := l1 c in let rb := flow_block Lc b in
  agree (next t) l1 l2 /\ lframe (set_cur t c) s' /\ l2 (cur s') = rn rb /\ next t <= next s' /\ inv s' /\
  ((Lc = true -> ctx_ok l s) -> (rk rb = true -> brk_ok l s) -> closed l1 (edges t) -> closed l2 (edges s')) /\
  (forall E, incl (edges s') E -> (Lc = true -> reach E c) ->
     (forall b0, next t <= b0 -> b0 < next s' -> l2 b0 = true -> reach E b0) /\
     (rn rb = true -> reach E (cur s')) /\
     (rk rb = true -> noproc s -> forall t0, brk_t s = Some t0 -> reach E t0) /\
     (Lc = true -> rn rb = false -> forall f, Cfin f s -> reach E f)) /\
  (forall k e b0, placed s' k e b0 -> placed t k e b0 \/ (k = 0 /\ e = 0) \/ (In (k, l2 b0) (rmarks rb) /\ In (k, e) (spans_block b))) /\
  (forall k m, In (k, m) (rmarks rb) -> In k (elif_block b) \/ exists e b0, placed s' k e b0 /\ l2 b0 = m) /\
  (forall k e b0, placed t k e b0 -> placed s' k e b0) /\
  (c03_block b = true -> cntE l2 (edges s') = (cntE l1 (edges t) + rcx rb)%nat).

Lemma S_branch s t c l l1 inl b :
  S_block b -> inv s -> mid anyb s t -> loops t = loops s -> excs t = excs s -> klt t -> next s <= c -> c < next t ->
  agree (next s) l l1 -> lok_block inl b = true -> (inl = true -> loops s <> []) ->
  exists l2, B_out s t c l l1 b (process_block' (set_cur t c) b) l2.
Proof.
  intros Sb I M Lt Xt K H1 H2 A1 Hlok Hinl.
  assert (It : inv (set_cur t c)) by (apply (inv_fresh s); assumption).
  destruct (Sb (set_cur t c) l1 inl It Hlok) as (l2 & A2 & F & C & So & Co & Da & Db & Dc & Cn); [autorewrite with bst; rewrite Lt; exact Hinl|].
  autorewrite with bst in *. exists l2. unfold B_out. cbv zeta.
  pose proof (m_next _ _ _ (lf_mid _ _ F)) as N'. autorewrite with bst in N'.
  split; [exact A2|]. split; [exact F|]. split; [exact C|]. split; [exact N'|]. split; [exact (inv_lframe _ _ It F)|]. split; [|split; [|split; [|split; [|split]]]].
  - intros Hctx Hb Cl. apply So; [| |exact Cl].
    + intro HL. apply (ctx_ok_agree l l1 s); [apply Hctx; exact HL|exact I|exact A1|exact Lt|exact Xt].
    + intro Hk. apply (brk_ok_agree l l1 s); [apply Hb; exact Hk|exact I|exact A1|exact Lt].
  - intros E HE HR. destruct (Co E HE HR) as (P4 & P2 & P3). split; [exact P4|]. split; [|split].
    + intro Hn. destruct (lf_cur _ _ F) as [Hcu|Hcu]; autorewrite with bst in Hcu.
      * rewrite Hcu. apply HR. apply (rn_block_le _ _ Hn).
      * apply P4; [exact Hcu|apply F|]. rewrite C. exact Hn.
    + intros Hk Hnp t0 Ht0. apply (P2 Hk).
      * apply (noproc_eq s); [exact Lt|exact Xt|exact Hnp].
      * rewrite (brk_t_eq s); [exact Ht0|exact Lt|exact Xt].
    + intros HL Hn f Hf. apply (P3 HL Hn f). apply (Cfin_eq f s); [exact Lt|exact Xt|exact Hf].
  - exact Da.
  - exact Db.
  - exact Dc.
  - exact Cn.
Qed.

Lemma S_if_nil_none k body : S_block body -> S_stmt (If k body ANil ONone).
Proof.
  intros Sb s l inl I Hlok Hinl. cbn [lok_stmt lok_arms lok_oblock] in Hlok. rewrite !andb_true_r in Hlok.
  set (L := l (cur s)).
  cbn beta iota delta [process_stmt'] fix match. peel_all ident:(p). bsimp.
  pose proof (i_wfb _ I) as Wb. pose proof (i_cur _ I) as Hc. pose proof (wb_two _ Wb) as H2.
  set (e := end_stmt (If k body ANil ONone)) in *.
  set (s4 := connect (nb (nb (add_stmt s (cur s) (mk k e KOther)))) (cur s) (next s) ECondTrue) in *.
  set (rb := flow_block L body).
  set (l1 := upd (upd l (next s) L) (N.succ (next s)) (rn rb || L)).
  assert (M4 : mid anyb s s4).
  { apply mid_connect; [repeat apply mid_nb; apply mid_add_stmt, mid_refl_b; exact Wb|left; exact Logic.I|unfold s4; uflia|unfold s4; uflia]. }
  assert (K4 : klt s4) by (apply klt_connect; repeat apply klt_nb; apply klt_add_stmt; exact (i_klt _ I)).
  assert (N4 : next s4 = N.succ (N.succ (next s))) by reflexivity.
  assert (I4 : inv (set_cur s4 (next s))) by (apply (inv_fresh s); try assumption; try reflexivity; flia).
  assert (A1 : agree (next s) l l1).
  { intros b Hb. unfold l1. lev. reflexivity. }
  destruct (Sb (set_cur s4 (next s)) l1 inl I4 Hlok) as (l2 & A2 & F5 & C5 & So5 & Co5 & Da & Db & Dc & Cn); [exact Hinl|].
  rewrite <- Es5p in *. autorewrite with bst in *.
  assert (Hl1t : l1 (next s) = L) by (unfold l1; lev; reflexivity).
  rewrite Hl1t in *. fold rb in C5, So5, Co5, Da, Db.
  pose proof (m_next _ _ _ (lf_mid _ _ F5)) as N5. autorewrite with bst in N5. rewrite N4 in *.
  exists l2. split; [eapply agree_trans; [exact A1|exact A2|flia]|].
  cbn [flow_stmt flow_arms flow_oblock opt_n rn rk rmarks]. fold L rb. rewrite !orb_false_r, !app_nil_r.
  split; [|split; [|split; [|split; [|split; [|split; [|split]]]]]].
  - apply lframe_mid; autorewrite with bst; try (flia).
    + apply mid_connect; [apply mid_connect; [|left; exact Logic.I|uflia|uflia]|left; exact Logic.I|autorewrite with bst; apply F5|uflia].
      apply (mid_transA _ anyb s (set_cur s4 (next s))); [apply mid_set_cur; exact M4|apply F5|intros; left; exact Logic.I].
    + rewrite (lf_loops _ _ F5). reflexivity.
    + rewrite (lf_excs _ _ F5). reflexivity.
    + apply klt_connect, klt_connect. exact (lf_klt _ _ F5).
  - autorewrite with bst. unfold l1 in *. lev. reflexivity.
  - intros Hctx Hb Cl. autorewrite with bst. rewrite !closed_snoc. split; [split|].
    + apply So5.
      * intro HL. apply (ctx_ok_agree l l1 s); [apply Hctx; exact HL|exact I|exact A1|reflexivity|reflexivity].
      * intro Hk. apply (brk_ok_agree l l1 s); [apply Hb; exact Hk|exact I|exact A1|reflexivity].
      * unfold s4. autorewrite with bst. rewrite closed_snoc. split; [apply (closed_ext l); assumption|].
        unfold l1 in *. lev. exact (fun H => H).
    + unfold l1 in *. lev. intro HL. fold L in HL. rewrite HL. apply orb_true_r.
    + rewrite C5. unfold l1 in *. lev. intro HL. rewrite HL. reflexivity.
  - intros E HE HR. autorewrite with bst in HE.
    assert (HE5 : incl (edges s5p) E) by (intros x Hx; apply HE; apply in_or_app; left; apply in_or_app; left; exact Hx).
    assert (HRt : L = true -> reach E (next s)).
    { intro HL. eapply reach_step; [apply HR; exact HL|]. apply HE5. apply (lframe_incl _ _ F5). unfold s4. autorewrite with bst.
      apply in_or_app. right. left. reflexivity. }
    destruct (Co5 E HE5 HRt) as (P4 & P2 & P3). autorewrite with bst.
    split; [|split].
    + intros b Hb1 Hb2 Hb3. destruct (N.lt_ge_cases b (N.succ (N.succ (next s)))) as [Hlt|Hge].
      * assert (b = (next s) \/ b = (N.succ (next s))) as [->| ->] by (flia).
        -- apply HRt. unfold l1 in *. lev_in Hb3. exact Hb3.
        -- unfold l1 in *. lev_in Hb3. apply orb_true_iff in Hb3.
           assert (HL : L = true) by (destruct Hb3 as [Hb3|Hb3]; [apply (rn_block_le _ _ Hb3)|exact Hb3]).
           eapply reach_step; [apply HR; exact HL|]. apply HE. apply in_or_app. left. apply in_or_app. right. left. reflexivity.
      * apply P4; [flia|flia|exact Hb3].
    + intros Hk Hnp t Ht. apply (P2 Hk); [exact Hnp|]. exact Ht.
    + intros HL Hn. rewrite HL, orb_true_r in Hn. discriminate.
  - intros k' e' b Hp. autorewrite with plc in Hp. destruct (Da k' e' b Hp) as [Hp0|[Hk|(Hm & Hs)]].
    + unfold s4 in Hp0. autorewrite with plc in Hp0. apply placed_add_stmt_inv in Hp0.
      destruct Hp0 as [Hp0|(-> & -> & ->)]; [left; exact Hp0|]. right. right. cbn [mk b_start b_end]. split; [left|left; reflexivity].
      unfold l1 in *. lev. reflexivity.
    + right. left. exact Hk.
    + right. right. split; [right; exact Hm|right; apply in_or_app; left; exact Hs].
  - intros k' m [Heq|Hin].
    + inversion Heq; subst. right. exists e, (cur s). split.
      * autorewrite with plc. apply Dc. unfold s4. autorewrite with plc.
        apply (placed_add_stmt_new s (cur s) (mk k' e KOther)). apply (wb_keys _ Wb). exact Hc.
      * unfold l1 in *. lev. reflexivity.
    + destruct (Db k' m Hin) as [He|(e' & b & Hp & Hm)]; [left; cbn [elif_stmt map_arms_ids elif_arms elif_oblock]; rewrite !app_nil_r; exact He|].
      right. exists e', b. split; [autorewrite with plc; exact Hp|exact Hm].
  - intros k' e' b Hp. autorewrite with plc. apply Dc. unfold s4. autorewrite with plc. apply placed_add_stmt_mono. exact Hp.
  - intro H3. c03_split H3. cnt_norm. rewrite (Cn H3). unfold s4. cnt_norm.
    rewrite (cntE_agree (next s) l l1 _ (wb_bnd _ Wb) A1). unfold l1. lev. fold L. fold rb.
    cnt_fin.
Qed.

Lemma S_if_nil_some k body eb : S_block body -> S_block eb -> S_stmt (If k body ANil (OSome eb)).
Proof.
  intros Sb Se s l inl I Hlok Hinl. cbn [lok_stmt lok_arms lok_oblock] in Hlok. rewrite !andb_true_r in Hlok.
  apply andb_true_iff in Hlok. destruct Hlok as (Hlok1 & Hlok2).
  set (L := l (cur s)).
  cbn beta iota delta [process_stmt'] fix match. peel_all ident:(p). bsimp.
  pose proof (i_wfb _ I) as Wb. pose proof (i_cur _ I) as Hc. pose proof (wb_two _ Wb) as H2.
  set (e := end_stmt (If k body ANil (OSome eb))) in *.
  set (s4 := connect (nb (nb (add_stmt s (cur s) (mk k e KOther)))) (cur s) (next s) ECondTrue) in *.
  set (rb := flow_block L body). set (re := flow_block L eb).
  set (l1 := upd (upd l (next s) L) (N.succ (next s)) (rn rb || rn re)).
  assert (M4 : mid anyb s s4).
  { apply mid_connect; [repeat apply mid_nb; apply mid_add_stmt, mid_refl_b; exact Wb|left; exact Logic.I|unfold s4; uflia|unfold s4; uflia]. }
  assert (K4 : klt s4) by (apply klt_connect; repeat apply klt_nb; apply klt_add_stmt; exact (i_klt _ I)).
  assert (N4 : next s4 = N.succ (N.succ (next s))) by reflexivity.
  assert (A1 : agree (next s) l l1) by (intros b Hb; unfold l1; lev; reflexivity).
  destruct (S_branch s s4 (next s) l l1 inl body Sb I M4 eq_refl eq_refl K4) as (l2 & B5); try assumption; try flia.
  rewrite <- Es5p in B5. destruct B5 as (A2 & F5 & C5 & N5 & I5 & So5 & Co5 & Da5 & Db5 & Dc5 & Cn5).
  assert (Hl1t : l1 (next s) = L) by (unfold l1; lev; reflexivity).
  rewrite Hl1t in *. fold rb in C5, So5, Co5, Da5, Db5. rewrite N4 in *.
  set (s7 := connect (nb s5p) (cur s) (next s5p) ECondFalse) in *.
  set (l3 := upd l2 (next s5p) L).
  assert (M7 : mid anyb s s7).
  { apply mid_connect; [apply mid_nb|left; exact Logic.I|uflia|uflia].
    apply (mid_transA _ anyb s (set_cur s4 (next s))); [apply mid_set_cur; exact M4|apply F5|intros; left; exact Logic.I]. }
  assert (K7 : klt s7) by (apply klt_connect, klt_nb; exact (lf_klt _ _ F5)).
  assert (N7 : next s7 = N.succ (next s5p)) by reflexivity.
  assert (A3 : agree (next s) l l3).
  { intros b Hb. unfold l3. lev. unfold l1. lev. reflexivity. }
  destruct (S_branch s s7 (next s5p) l l3 inl eb Se I M7) as (l4 & B8); try assumption; try flia.
  { unfold s7. autorewrite with bst. apply F5. }
  { unfold s7. autorewrite with bst. apply F5. }
  rewrite <- Es8p in B8. destruct B8 as (A4 & F8 & C8 & N8 & I8 & So8 & Co8 & Da8 & Db8 & Dc8 & Cn8).
  assert (Hl3e : l3 (next s5p) = L) by (unfold l3; lev; reflexivity).
  rewrite Hl3e in *. fold re in C8, So8, Co8, Da8, Db8. rewrite N7 in *.
  pose proof (lf_curlt _ _ F5) as Hc5. pose proof (lf_curlt _ _ F8) as Hc8.
  assert (Hcu5 : next s <= cur s5p) by (destruct (lf_cur _ _ F5) as [H|H]; autorewrite with bst in H; flia).
  exists l4. split; [intros b Hb; lev; unfold l3; lev; unfold l1; lev; reflexivity|].
  cbn [flow_stmt flow_arms flow_oblock opt_n rn rk rmarks]. fold L rb re. rewrite !orb_false_r, !app_nil_l.
  split; [|split; [|split; [|split; [|split; [|split; [|split]]]]]].
  - apply lframe_mid; autorewrite with bst; try flia.
    + apply mid_connect; [apply mid_connect; [|left; exact Logic.I|uflia|uflia]|left; exact Logic.I|uflia|uflia].
      apply (mid_transA _ anyb s (set_cur s7 (next s5p))); [apply mid_set_cur; exact M7|apply F8|intros; left; exact Logic.I].
    + rewrite (lf_loops _ _ F8). unfold s7. autorewrite with bst. rewrite (lf_loops _ _ F5). reflexivity.
    + rewrite (lf_excs _ _ F8). unfold s7. autorewrite with bst. rewrite (lf_excs _ _ F5). reflexivity.
    + apply klt_connect, klt_connect. exact (lf_klt _ _ F8).
  - autorewrite with bst. lev. unfold l3. lev. unfold l1. lev. reflexivity.
  - intros Hctx Hb Cl. autorewrite with bst. rewrite !closed_snoc. split; [split|].
    + apply So8.
      * exact Hctx.
      * intro Hk. apply Hb. rewrite Hk. apply orb_true_r.
      * unfold s7. autorewrite with bst. rewrite closed_snoc. split.
        -- apply (closed_agree (next s5p) l2); [|apply (wb_bnd _ (i_wfb _ I5))|unfold l3; apply agree_upd; flia].
           apply So5; [exact Hctx|intro Hk; apply Hb; rewrite Hk; reflexivity|].
           unfold s4. autorewrite with bst. rewrite closed_snoc. split; [apply (closed_ext l); assumption|].
           unfold l1. lev. exact (fun H => H).
        -- unfold l3. lev. unfold l1. lev. exact (fun H => H).
    + lev. unfold l3. lev. rewrite C5. unfold l1. lev. intro H. rewrite H. reflexivity.
    + rewrite C8. lev. unfold l3. lev. unfold l1. lev. intro H. rewrite H. apply orb_true_r.
  - intros E HE HR. autorewrite with bst in HE.
    assert (HE8 : incl (edges s8p) E) by (intros x Hx; apply HE; apply in_or_app; left; apply in_or_app; left; exact Hx).
    assert (HE7 : incl (edges s7) E) by (eapply incl_tran; [apply (lframe_incl _ _ F8)|exact HE8]).
    assert (HE5 : incl (edges s5p) E) by (intros x Hx; apply HE7; unfold s7; autorewrite with bst; apply in_or_app; left; exact Hx).
    assert (HRt : L = true -> reach E (next s)).
    { intro HL. eapply reach_step; [apply HR; exact HL|]. apply HE5. apply (lframe_incl _ _ F5). unfold s4. autorewrite with bst.
      apply in_or_app. right. left. reflexivity. }
    assert (HRe : L = true -> reach E (next s5p)).
    { intro HL. eapply reach_step; [apply HR; exact HL|]. apply HE7. unfold s7. autorewrite with bst. apply in_or_app. right. left. reflexivity. }
    destruct (Co5 E HE5 HRt) as (P4a & P1a & P2a & P3a). destruct (Co8 E HE8 HRe) as (P4b & P1b & P2b & P3b).
    autorewrite with bst. split; [|split].
    + intros b Hb1 Hb2 Hb3. destruct (N.lt_ge_cases b (N.succ (N.succ (next s)))) as [Hlt|Hge].
      * assert (b = next s \/ b = N.succ (next s)) as [->| ->] by flia.
        -- apply HRt. lev_in Hb3. unfold l3 in Hb3. lev_in Hb3. unfold l1 in Hb3. lev_in Hb3. exact Hb3.
        -- lev_in Hb3. unfold l3 in Hb3. lev_in Hb3. unfold l1 in Hb3. lev_in Hb3. apply orb_true_iff in Hb3. destruct Hb3 as [Hb3|Hb3].
           ++ eapply reach_step; [apply P1a; exact Hb3|]. apply HE. apply in_or_app. left. apply in_or_app. right. left. reflexivity.
           ++ eapply reach_step; [apply P1b; exact Hb3|]. apply HE. apply in_or_app. right. left. reflexivity.
      * destruct (N.lt_ge_cases b (next s5p)) as [Hlt5|Hge5].
        -- apply P4a; [exact Hge|exact Hlt5|]. lev_in Hb3. unfold l3 in Hb3. lev_in Hb3. exact Hb3.
        -- destruct (N.eq_dec b (next s5p)) as [->|Hne].
           ++ apply HRe. lev_in Hb3. unfold l3 in Hb3. lev_in Hb3. exact Hb3.
           ++ apply P4b; [flia|exact Hb2|exact Hb3].
    + intros Hk Hnp t Ht. apply orb_true_iff in Hk. destruct Hk as [Hk|Hk]; [apply (P2a Hk Hnp t Ht)|apply (P2b Hk Hnp t Ht)].
    + intros HL Hn f Hf. apply orb_false_iff in Hn. destruct Hn as (Hn1 & Hn2). apply (P3a HL Hn1 f Hf).
  - intros k' e' b Hp. autorewrite with plc in Hp. destruct (Da8 k' e' b Hp) as [Hp0|[Hk|(Hm & Hs)]].
    + unfold s7 in Hp0. autorewrite with plc in Hp0. destruct (Da5 k' e' b Hp0) as [Hp1|[Hk|(Hm & Hs)]].
      * unfold s4 in Hp1. autorewrite with plc in Hp1. apply placed_add_stmt_inv in Hp1.
        destruct Hp1 as [Hp1|(-> & -> & ->)]; [left; exact Hp1|]. right. right. cbn [mk b_start b_end]. split; [left|left; reflexivity].
        lev. unfold l3. lev. unfold l1. lev. reflexivity.
      * right. left. exact Hk.
      * right. right. split; [right; apply in_or_app; left|right; apply in_or_app; left; exact Hs].
        assert (Hb : b < next s5p) by (apply (placed_lt s5p k' e'); [apply I5|exact Hp0]).
        lev. unfold l3. lev. exact Hm.
    + right. left. exact Hk.
    + right. right. split; [right; apply in_or_app; right; exact Hm|right; apply in_or_app; right; rewrite app_nil_l; exact Hs].
  - intros k' m [Heq|Hin].
    + inversion Heq; subst. right. exists e, (cur s). split.
      * autorewrite with plc. apply Dc8. unfold s7. autorewrite with plc. apply Dc5. unfold s4. autorewrite with plc.
        apply (placed_add_stmt_new s (cur s) (mk k' e KOther)). apply (wb_keys _ Wb). exact Hc.
      * lev. unfold l3. lev. unfold l1. lev. reflexivity.
    + cbn [elif_stmt map_arms_ids elif_arms elif_oblock]. rewrite !app_nil_l. apply in_app_or in Hin. destruct Hin as [Hin|Hin].
      * destruct (Db5 k' m Hin) as [He|(e' & b & Hp & Hm)]; [left; apply in_or_app; left; exact He|].
        right. exists e', b. split; [autorewrite with plc; apply Dc8; unfold s7; autorewrite with plc; exact Hp|].
        assert (Hb : b < next s5p) by (apply (placed_lt s5p k' e'); [apply I5|exact Hp]).
        lev. unfold l3. lev. exact Hm.
      * destruct (Db8 k' m Hin) as [He|(e' & b & Hp & Hm)]; [left; apply in_or_app; right; exact He|].
        right. exists e', b. split; [autorewrite with plc; exact Hp|exact Hm].
  - intros k' e' b Hp. autorewrite with plc. apply Dc8. unfold s7. autorewrite with plc. apply Dc5. unfold s4. autorewrite with plc.
    apply placed_add_stmt_mono. exact Hp.
  - intro H3. c03_split H3. cnt_norm. rewrite (Cn8 H0). unfold s7. cnt_norm.
    rewrite (cntE_agree (next s5p) l2 l3); [|apply (wb_bnd _ (i_wfb _ I5))|unfold l3; apply agree_upd; flia].
    rewrite (Cn5 H3). unfold s4. cnt_norm. rewrite (cntE_agree (next s) l l1 _ (wb_bnd _ Wb) A1).
    unfold l1. lev. fold L. cnt_fin.
Qed.

Definition okk (o : option res) : bool := match o with Some r => rk r | None => false end.
Definition onm (o : option res) : list (N * bool) := match o with Some r => rmarks r | None => [] end.
Definition ocx (o : option res) : nat := match o with Some r => rcx r | None => 0%nat end.

(* the final else of an elif chain: [c] is the last condition block, [t] the state after its then-body *)
Definition K_out (t : st) (c merge : N) (l : lam) (L : bool) (els : oblock) (t' : st) (l' : lam) : Prop :=
  let re := flow_oblock L els in
  agree (next t) l l' /\ mid anyb t t' /\ loops t' = loops t /\ excs t' = excs t /\ klt t' /\ next t <= next t' /\
  ((L = true -> ctx_ok l t) -> (okk re = true -> brk_ok l t) -> (opt_n L re = true -> l merge = true) ->
     closed l (edges t) -> closed l' (edges t')) /\
  (forall E, incl (edges t') E -> (L = true -> reach E c) ->
     (forall b0, next t <= b0 -> b0 < next t' -> l' b0 = true -> reach E b0) /\
     (opt_n L re = true -> reach E merge) /\
     (okk re = true -> noproc t -> forall t0, brk_t t = Some t0 -> reach E t0)) /\
  (forall k e b0, placed t' k e b0 -> placed t k e b0 \/ (k = 0 /\ e = 0) \/ (In (k, l' b0) (onm re) /\ In (k, e) (spans_oblock els))) /\
  (forall k m, In (k, m) (onm re) -> In k (elif_oblock els) \/ exists e b0, placed t' k e b0 /\ l' b0 = m) /\
  (forall k e b0, placed t k e b0 -> placed t' k e b0) /\
  (c03_oblock els = true -> cntE l' (edges t') = (cntE l (edges t) + ocx re)%nat).

Lemma S_kelse els merge t c l inl :
  S_oblock els -> inv t -> c < next t -> merge < next t -> lok_oblock inl els = true -> (inl = true -> loops t <> []) ->
  exists l', K_out t c merge l (l c) els (kelse_of' els merge t c) l'.
Proof.
  intros Se It Hc Hm Hlok Hinl. pose proof (i_wfb _ It) as Wb. set (L := l c).
  destruct els as [|eb]; cbn [kelse_of' flow_oblock].
  - exists l. unfold K_out. cbn [flow_oblock okk onm opt_n spans_oblock elif_oblock]. autorewrite with bst.
    split; [apply agree_refl|]. split; [apply mid_connect; [apply mid_refl_b; exact Wb|left; exact Logic.I|exact Hc|exact Hm]|].
    split; [reflexivity|]. split; [reflexivity|]. split; [apply klt_connect; exact (i_klt _ It)|]. split; [flia|].
    split; [|split; [|split; [|split; [|split]]]].
    + intros _ _ Hmg Cl. rewrite closed_snoc. split; [exact Cl|exact Hmg].
    + intros E HE HR. split; [intros b0 H1 H2; flia|]. split; [|discriminate].
      intro HL. eapply reach_step; [apply HR; exact HL|]. apply HE. apply in_or_app. right. left. reflexivity.
    + intros k e b0 Hp. autorewrite with plc in Hp. left. exact Hp.
    + intros k m [].
    + intros k e b0 Hp. autorewrite with plc. exact Hp.
    + intros _. cnt_norm. cbn [ocx]. flia.
  - rewrite new_block_eq. cbv beta iota zeta. cbn [S_oblock lok_oblock] in Se, Hlok.
    set (t2 := connect (nb t) c (next t) ECondFalse).
    set (l1 := upd l (next t) L).
    assert (M2 : mid anyb t t2) by (apply mid_connect; [apply mid_nb, mid_refl_b; exact Wb|left; exact Logic.I|uflia|uflia]).
    assert (K2 : klt t2) by (apply klt_connect, klt_nb; exact (i_klt _ It)).
    assert (A1 : agree (next t) l l1) by (apply agree_upd; flia).
    destruct (S_branch t t2 (next t) l l1 inl eb Se It M2 eq_refl eq_refl K2) as (l2 & B3); try assumption; try flia; [unfold t2; uflia|].
    set (t3 := process_block' (set_cur t2 (next t)) eb) in *.
    destruct B3 as (A2 & F3 & C3 & N3 & I3 & So3 & Co3 & Da3 & Db3 & Dc3 & Cn3).
    assert (Hl1 : l1 (next t) = L) by (unfold l1; lev; reflexivity). rewrite Hl1 in *.
    set (re := flow_block L eb) in *.
    assert (N2 : next t2 = N.succ (next t)) by reflexivity. rewrite N2 in *.
    pose proof (lf_curlt _ _ F3) as Hc3.
    exists l2. unfold K_out. cbn [flow_oblock okk onm opt_n spans_oblock elif_oblock]. fold re. autorewrite with bst.
    split; [intros b Hb; lev; unfold l1; lev; reflexivity|].
    split; [|split; [|split; [|split; [|split; [|split; [|split; [|split; [|split; [|split]]]]]]]]].
    + apply mid_connect; [|left; exact Logic.I|exact Hc3|flia].
      apply (mid_transA _ anyb t (set_cur t2 (next t))); [apply mid_set_cur; exact M2|apply F3|intros; left; exact Logic.I].
    + rewrite (lf_loops _ _ F3). reflexivity.
    + rewrite (lf_excs _ _ F3). reflexivity.
    + apply klt_connect. exact (lf_klt _ _ F3).
    + flia.
    + intros Hctx Hb Hmg Cl. rewrite closed_snoc. split.
      * apply So3; [exact Hctx|exact Hb|]. unfold t2. autorewrite with bst. rewrite closed_snoc. split; [apply (closed_ext l); assumption|].
        unfold l1. lev. exact (fun H => H).
      * rewrite C3. lev. unfold l1. lev. exact Hmg.
    + intros E HE HR.
      assert (HE3 : incl (edges t3) E) by (intros x Hx; apply HE; apply in_or_app; left; exact Hx).
      assert (HRe : L = true -> reach E (next t)).
      { intro HL. eapply reach_step; [apply HR; exact HL|]. apply HE3. apply (lframe_incl _ _ F3). unfold t2. autorewrite with bst.
        apply in_or_app. right. left. reflexivity. }
      destruct (Co3 E HE3 HRe) as (P4 & P1 & P2 & P3). split; [|split].
      * intros b0 H1 H2 H3. destruct (N.eq_dec b0 (next t)) as [->|Hne].
        -- apply HRe. lev_in H3. unfold l1 in H3. lev_in H3. exact H3.
        -- apply P4; [flia|exact H2|exact H3].
      * intro Hn. eapply reach_step; [apply P1; exact Hn|]. apply HE. apply in_or_app. right. left. reflexivity.
      * exact P2.
    + intros k e b0 Hp. autorewrite with plc in Hp. destruct (Da3 k e b0 Hp) as [Hp0|[Hk|Hm']]; [|right; left; exact Hk|right; right; exact Hm'].
      unfold t2 in Hp0. autorewrite with plc in Hp0. left. exact Hp0.
    + intros k m Hin. destruct (Db3 k m Hin) as [He|(e & b0 & Hp & Hm')]; [left; exact He|]. right. exists e, b0.
      split; [autorewrite with plc; exact Hp|exact Hm'].
    + intros k e b0 Hp. autorewrite with plc. apply Dc3. unfold t2. autorewrite with plc. exact Hp.
    + intro H3. cbn [c03_oblock] in H3. cnt_norm. rewrite (Cn3 H3). unfold t2. cnt_norm.
      rewrite (cntE_agree (next t) l l1 _ (wb_bnd _ Wb) A1). cbn [ocx]. cnt_fin.
Qed.

(* an elif chain processed from the block [cur s] (labelled [L]), with the final else [els], joining at [merge] *)
Definition E_out (s : st) (merge : N) (l : lam) (L : bool) (a : arms) (els : oblock) (s' : st) (l' : lam) : Prop :=
  let ra := flow_arms L a in let re := flow_oblock L els in
  agree (next s) l l' /\ mid anyb s s' /\ loops s' = loops s /\ excs s' = excs s /\ klt s' /\ next s <= next s' /\ cur s' = merge /\
  ((L = true -> ctx_ok l s) -> (rk ra || okk re = true -> brk_ok l s) -> (rn ra || opt_n L re = true -> l merge = true) ->
     closed l (edges s) -> closed l' (edges s')) /\
  (forall E, incl (edges s') E -> (L = true -> reach E (cur s)) ->
     (forall b0, next s <= b0 -> b0 < next s' -> l' b0 = true -> reach E b0) /\
     (rn ra || opt_n L re = true -> reach E merge) /\
     (rk ra || okk re = true -> noproc s -> forall t0, brk_t s = Some t0 -> reach E t0)) /\
  (forall k e b0, placed s' k e b0 -> placed s k e b0 \/ (k = 0 /\ e = 0) \/
     (In (k, l' b0) (rmarks ra ++ onm re) /\ In (k, e) (spans_elif a ++ spans_oblock els))) /\
  (forall k m, In (k, m) (rmarks ra ++ onm re) ->
     In k (map_arms_ids a ++ elif_arms a ++ elif_oblock els) \/ exists e b0, placed s' k e b0 /\ l' b0 = m) /\
  (forall k e b0, placed s k e b0 -> placed s' k e b0) /\
  (c03_arms a = true -> c03_oblock els = true ->
     cntE l' (edges s') = (cntE l (edges s) + gate L (arms_length a) + rcx ra + ocx re)%nat).

Definition S_elif (a : arms) : Prop := forall els merge s l inl,
  S_oblock els -> inv s -> merge < next s -> a <> ANil ->
  lok_arms inl a = true -> lok_oblock inl els = true -> (inl = true -> loops s <> []) ->
  exists l', E_out s merge l (l (cur s)) a els (process_elif' s a (kelse_of' els merge) merge) l'.

Lemma S_elif_cons k1 b1 rest : S_block b1 -> S_elif rest -> S_elif (ACons k1 b1 rest).
Proof.
  intros Sb Sr els merge s l inl Se I Hm _ Hlok Hloke Hinl.
  cbn [lok_arms] in Hlok. apply andb_true_iff in Hlok. destruct Hlok as (Hlok1 & Hlok2).
  set (L := l (cur s)).
  cbn beta iota delta [process_elif'] fix match. peel_all ident:(p). bsimp.
  pose proof (i_wfb _ I) as Wb. pose proof (i_cur _ I) as Hc. pose proof (wb_two _ Wb) as H2.
  set (s3 := connect (nb (add_stmt s (cur s) (mk 0 0 KOther))) (cur s) (next s) ECondTrue) in *.
  set (r1 := flow_block L b1). set (r2 := flow_arms L rest). set (re := flow_oblock L els).
  set (l1 := upd l (next s) L).
  assert (M3 : mid anyb s s3).
  { apply mid_connect; [apply mid_nb, mid_add_stmt, mid_refl_b; exact Wb|left; exact Logic.I|unfold s3; uflia|unfold s3; uflia]. }
  assert (K3 : klt s3) by (apply klt_connect, klt_nb, klt_add_stmt; exact (i_klt _ I)).
  assert (N3 : next s3 = N.succ (next s)) by reflexivity.
  assert (A1 : agree (next s) l l1) by (apply agree_upd; flia).
  destruct (S_branch s s3 (next s) l l1 inl b1 Sb I M3 eq_refl eq_refl K3) as (l2 & B4); try assumption; try flia.
  rewrite <- Es4p in B4. destruct B4 as (A2 & F4 & C4 & N4 & I4 & So4 & Co4 & Da4 & Db4 & Dc4 & Cn4).
  assert (Hl1 : l1 (next s) = L) by (unfold l1; lev; reflexivity). rewrite Hl1 in *. fold r1 in C4, So4, Co4, Da4, Db4.
  rewrite N3 in *.
  pose proof (lf_curlt _ _ F4) as Hc4.
  assert (Hcu4 : next s <= cur s4p) by (destruct (lf_cur _ _ F4) as [H|H]; autorewrite with bst in H; flia).
  assert (M4 : mid anyb s s4p).
  { apply (mid_transA _ anyb s (set_cur s3 (next s))); [apply mid_set_cur; exact M3|apply F4|intros; left; exact Logic.I]. }
  assert (L4 : loops s4p = loops s) by (rewrite (lf_loops _ _ F4); reflexivity).
  assert (X4 : excs s4p = excs s) by (rewrite (lf_excs _ _ F4); reflexivity).
  (* the rest of the chain, as one step from s4p *)
  set (s5 := match rest with
             | ANil => kelse_of' els merge s4p (cur s)
             | ACons _ _ _ => process_elif' (set_cur (connect (nb s4p) (cur s) (next s4p) ECondFalse) (next s4p)) rest (kelse_of' els merge) merge
             end).
  assert (H5 : exists l3, agree (next s4p) l2 l3 /\ mid anyb s4p s5 /\ loops s5 = loops s /\ excs s5 = excs s /\ klt s5 /\ next s4p <= next s5 /\
     ((L = true -> ctx_ok l s) -> (rk r2 || okk re = true -> brk_ok l s) -> (rn r2 || opt_n L re = true -> l merge = true) ->
        closed l2 (edges s4p) -> closed l3 (edges s5)) /\
     (forall E, incl (edges s5) E -> (L = true -> reach E (cur s)) ->
        (forall b0, next s4p <= b0 -> b0 < next s5 -> l3 b0 = true -> reach E b0) /\
        (rn r2 || opt_n L re = true -> reach E merge) /\
        (rk r2 || okk re = true -> noproc s -> forall t0, brk_t s = Some t0 -> reach E t0)) /\
     (forall k e b0, placed s5 k e b0 -> placed s4p k e b0 \/ (k = 0 /\ e = 0) \/
        (In (k, l3 b0) (rmarks r2 ++ onm re) /\ In (k, e) (spans_elif rest ++ spans_oblock els))) /\
     (forall k m, In (k, m) (rmarks r2 ++ onm re) ->
        In k (map_arms_ids rest ++ elif_arms rest ++ elif_oblock els) \/ exists e b0, placed s5 k e b0 /\ l3 b0 = m) /\
     (forall k e b0, placed s4p k e b0 -> placed s5 k e b0) /\
     (c03_arms rest = true -> c03_oblock els = true ->
        cntE l3 (edges s5) = (cntE l2 (edges s4p) + gate L (arms_length rest) + rcx r2 + ocx re)%nat)).
  { assert (Hlc : l2 (cur s) = L) by (lev; unfold l1; lev; reflexivity).
    assert (Hlm : l2 merge = l merge) by (lev; unfold l1; lev; reflexivity).
    assert (Ag2 : agree (next s) l l2) by (intros b Hb; lev; unfold l1; lev; reflexivity).
    unfold s5. destruct rest as [|k2 b2 rest'].
    - destruct (S_kelse els merge s4p (cur s) l2 inl Se I4) as (l3 & K); try assumption; try flia; [rewrite L4; exact Hinl|].
      rewrite Hlc in K. destruct K as (A3 & M5 & L5 & X5 & K5 & N5 & So5 & Co5 & Da5 & Db5 & Dc5 & Cn5).
      exists l3. unfold r2. cbn [flow_arms rn rk rmarks spans_elif map_arms_ids elif_arms]. fold re. cbn [orb app].
      split; [exact A3|]. split; [exact M5|]. split; [congruence|]. split; [congruence|]. split; [exact K5|]. split; [exact N5|].
      split; [|split; [|split; [|split; [|split]]]].
      + intros Hctx Hb Hmg Cl. apply So5; [| | |exact Cl].
        * intro HL. apply (ctx_ok_agree l l2 s); [apply Hctx; exact HL|exact I|exact Ag2|exact L4|exact X4].
        * intro Hk. apply (brk_ok_agree l l2 s); [apply Hb; exact Hk|exact I|exact Ag2|exact L4].
        * intro Ho. rewrite Hlm. apply Hmg. exact Ho.
      + intros E HE HR. destruct (Co5 E HE HR) as (P4 & P1 & P2). split; [exact P4|]. split; [exact P1|].
        intros Hk Hnp t0 Ht0. apply (P2 Hk); [apply (noproc_eq s); assumption|rewrite (brk_t_eq s); assumption].
      + exact Da5.
      + exact Db5.
      + exact Dc5.
      + intros _ H3. rewrite (Cn5 H3). fold re. cbn [arms_length]. cnt_fin.
    - set (t2 := connect (nb s4p) (cur s) (next s4p) ECondFalse).
      set (l2' := upd l2 (next s4p) L).
      assert (M2 : mid anyb s4p t2) by (apply mid_connect; [apply mid_nb, mid_refl_b; exact (i_wfb _ I4)|left; exact Logic.I|uflia|uflia]).
      assert (It2 : inv (set_cur t2 (next s4p))).
      { apply (inv_fresh s4p); try assumption; try reflexivity; [apply klt_connect, klt_nb; exact (i_klt _ I4)|unfold t2; uflia]. }
      destruct (Sr els merge (set_cur t2 (next s4p)) l2' inl Se It2) as (l3 & EO); try assumption; try discriminate.
      { unfold t2. uflia. }
      { unfold t2. autorewrite with bst. rewrite L4. exact Hinl. }
      autorewrite with bst in EO. unfold l2' in EO at 2. rewrite upd_same in EO.
      destruct EO as (A3 & M5 & L5 & X5 & K5 & N5 & C5 & So5 & Co5 & Da5 & Db5 & Dc5 & Cn5).
      autorewrite with bst in *. fold r2 re in So5, Co5, Da5, Db5.
      assert (Nt2 : next t2 = N.succ (next s4p)) by reflexivity. rewrite Nt2 in *.
      exists l3. split; [intros b Hb; lev; unfold l2'; lev; reflexivity|].
      split; [apply (mid_transA _ anyb s4p (set_cur t2 (next s4p))); [apply mid_set_cur; exact M2|exact M5|intros; left; exact Logic.I]|].
      split; [rewrite L5; unfold t2; autorewrite with bst; exact L4|]. split; [rewrite X5; unfold t2; autorewrite with bst; exact X4|].
      split; [exact K5|]. split; [flia|]. split; [|split; [|split; [|split; [|split]]]].
      + intros Hctx Hb Hmg Cl. apply So5.
        * intro HL. apply (ctx_ok_agree l l2' s); [apply Hctx; exact HL|exact I| |unfold t2; autorewrite with bst; exact L4|unfold t2; autorewrite with bst; exact X4].
          intros b Hb'. unfold l2'. lev. unfold l1. lev. reflexivity.
        * intro Hk. apply (brk_ok_agree l l2' s); [apply Hb; exact Hk|exact I| |unfold t2; autorewrite with bst; exact L4].
          intros b Hb'. unfold l2'. lev. unfold l1. lev. reflexivity.
        * intro Ho. unfold l2'. lev. unfold l1. lev. apply Hmg. exact Ho.
        * unfold t2. autorewrite with bst. rewrite closed_snoc. split.
          -- apply (closed_agree (next s4p) l2); [exact Cl|apply (wb_bnd _ (i_wfb _ I4))|unfold l2'; apply agree_upd; flia].
          -- unfold l2'. lev. unfold l1. lev. exact (fun H => H).
      + intros E HE HR.
        assert (HRe : L = true -> reach E (next s4p)).
        { intro HL. eapply reach_step; [apply HR; exact HL|]. apply HE. destruct (m_edges _ _ _ M5) as (D & ED & _). rewrite ED.
          apply in_or_app. left. unfold t2. autorewrite with bst. apply in_or_app. right. left. reflexivity. }
        destruct (Co5 E HE HRe) as (P4 & P1 & P2). split; [|split].
        * intros b0 H1 H2' H3. destruct (N.eq_dec b0 (next s4p)) as [->|Hne].
          -- apply HRe. lev_in H3. unfold l2' in H3. lev_in H3. exact H3.
          -- apply P4; [flia|exact H2'|exact H3].
        * exact P1.
        * intros Hk Hnp t0 Ht0. apply (P2 Hk).
          -- apply (noproc_eq s); [unfold t2; autorewrite with bst; exact L4|unfold t2; autorewrite with bst; exact X4|exact Hnp].
          -- rewrite (brk_t_eq s); [exact Ht0|unfold t2; autorewrite with bst; exact L4|unfold t2; autorewrite with bst; exact X4].
      + intros k e b0 Hp. destruct (Da5 k e b0 Hp) as [Hp0|[Hk|Hm']]; [|right; left; exact Hk|right; right; exact Hm'].
        unfold t2 in Hp0. autorewrite with plc in Hp0. left. exact Hp0.
      + exact Db5.
      + intros k e b0 Hp. apply Dc5. unfold t2. autorewrite with plc. exact Hp.
      + intros H3 H4. rewrite (Cn5 H3 H4). unfold t2. cnt_norm.
        rewrite (cntE_agree (next s4p) l2 l2'); [|apply (wb_bnd _ (i_wfb _ I4))|unfold l2'; apply agree_upd; flia].
        fold r2 re. cnt_fin. }
  destruct H5 as (l3 & A3 & M5 & L5 & X5 & K5 & N5 & So5 & Co5 & Da5 & Db5 & Dc5 & Cn5).
  fold s5. clearbody s5.
  exists l3. unfold E_out. cbn [flow_arms rn rk rmarks spans_elif map_arms_ids elif_arms]. fold L r1 r2 re. autorewrite with bst.
  split; [intros b Hb; lev; unfold l1; lev; reflexivity|].
  split; [|split; [|split; [|split; [|split; [|split; [reflexivity|split; [|split; [|split; [|split; [|split]]]]]]]]]].
  - apply mid_set_cur, mid_connect; [|left; exact Logic.I|flia|flia].
    apply (mid_transA _ anyb s s4p); [exact M4|exact M5|intros; left; exact Logic.I].
  - exact L5.
  - exact X5.
  - apply klt_set_cur, klt_connect. exact K5.
  - flia.
  - intros Hctx Hb Hmg Cl. rewrite closed_snoc. split.
    + apply So5; [exact Hctx| | |].
      * intro Hk. apply Hb. rewrite <- orb_assoc. rewrite Hk. apply orb_true_r.
      * intro Ho. apply Hmg. rewrite <- orb_assoc. rewrite Ho. apply orb_true_r.
      * apply So4; [exact Hctx| |].
        -- intro Hk. apply Hb. rewrite Hk. reflexivity.
        -- unfold s3. autorewrite with bst. rewrite closed_snoc. split; [apply (closed_ext l); assumption|].
           unfold l1. lev. exact (fun H => H).
    + lev. rewrite C4. unfold l1. lev. intro Hn. apply Hmg. rewrite Hn. reflexivity.
  - intros E HE HR.
    assert (HE5 : incl (edges s5) E) by (intros x Hx; apply HE; apply in_or_app; left; exact Hx).
    assert (HE4 : incl (edges s4p) E).
    { destruct (m_edges _ _ _ M5) as (D & ED & _). intros x Hx. apply HE5. rewrite ED. apply in_or_app. left. exact Hx. }
    assert (HRt : L = true -> reach E (next s)).
    { intro HL. eapply reach_step; [apply HR; exact HL|]. apply HE4. apply (lframe_incl _ _ F4). unfold s3. autorewrite with bst.
      apply in_or_app. right. left. reflexivity. }
    destruct (Co4 E HE4 HRt) as (P4a & P1a & P2a & P3a). destruct (Co5 E HE5 HR) as (P4b & P1b & P2b).
    split; [|split].
    + intros b0 H1 H2' H3. destruct (N.eq_dec b0 (next s)) as [->|Hne].
      * apply HRt. lev_in H3. unfold l1 in H3. lev_in H3. exact H3.
      * destruct (N.lt_ge_cases b0 (next s4p)) as [Hlt|Hge].
        -- apply P4a; [flia|exact Hlt|]. lev_in H3. exact H3.
        -- apply P4b; [exact Hge|exact H2'|exact H3].
    + intro Hn. rewrite <- orb_assoc in Hn. apply orb_true_iff in Hn. destruct Hn as [Hn|Hn].
      * eapply reach_step; [apply P1a; exact Hn|]. apply HE. apply in_or_app. right. left. reflexivity.
      * apply P1b. exact Hn.
    + intros Hk Hnp t0 Ht0. rewrite <- orb_assoc in Hk. apply orb_true_iff in Hk. destruct Hk as [Hk|Hk].
      * apply (P2a Hk Hnp t0 Ht0).
      * apply (P2b Hk Hnp t0 Ht0).
  - intros k e b0 Hp. autorewrite with plc in Hp. destruct (Da5 k e b0 Hp) as [Hp0|[Hk|(Hm' & Hs)]].
    + destruct (Da4 k e b0 Hp0) as [Hp1|[Hk|(Hm' & Hs)]].
      * unfold s3 in Hp1. autorewrite with plc in Hp1. apply placed_add_stmt_inv in Hp1.
        destruct Hp1 as [Hp1|(-> & -> & ->)]; [left; exact Hp1|right; left; split; reflexivity].
      * right. left. exact Hk.
      * right. right. split; [right; apply in_or_app; left|apply in_or_app; left; apply in_or_app; left; exact Hs].
        assert (Hb0 : b0 < next s4p) by (apply (placed_lt s4p k e); assumption).
        apply in_or_app. left. lev. exact Hm'.
    + right. left. exact Hk.
    + right. right. split.
      * right. rewrite <- app_assoc. apply in_or_app. right. exact Hm'.
      * rewrite <- app_assoc. apply in_or_app. right. exact Hs.
  - intros k m [Heq|Hin].
    + inversion Heq; subst. left. left. reflexivity.
    + rewrite <- app_assoc in Hin. apply in_app_or in Hin. destruct Hin as [Hin|Hin].
      * destruct (Db4 k m Hin) as [He|(e & b0 & Hp & Hm')].
        -- left. right. apply in_or_app. right. apply in_or_app. left. apply in_or_app. left. exact He.
        -- right. exists e, b0. split; [autorewrite with plc; apply Dc5; exact Hp|].
           assert (Hb0 : b0 < next s4p) by (apply (placed_lt s4p k e); assumption). lev. exact Hm'.
      * destruct (Db5 k m Hin) as [He|(e & b0 & Hp & Hm')].
        -- left. right. apply in_app_or in He. destruct He as [He|He]; [apply in_or_app; left; exact He|].
           apply in_or_app. right. apply in_app_or in He. destruct He as [He|He].
           ++ apply in_or_app. left. apply in_or_app. right. exact He.
           ++ apply in_or_app. right. exact He.
        -- right. exists e, b0. split; [autorewrite with plc; exact Hp|exact Hm'].
  - intros k e b0 Hp. autorewrite with plc. apply Dc5, Dc4. unfold s3. autorewrite with plc. apply placed_add_stmt_mono. exact Hp.
  - intros H3 H4. cbn [c03_arms] in H3. apply andb_true_iff in H3. destruct H3 as (H3a & H3b).
    cnt_norm. rewrite (Cn5 H3b H4), (Cn4 H3a). unfold s3. cnt_norm.
    rewrite (cntE_agree (next s) l l1 _ (wb_bnd _ Wb) A1). unfold l1. lev. fold L. cbn [arms_length]. cnt_fin.
Qed.

Lemma S_if_elif k body k1 b1 rest els :
  S_block body -> S_elif (ACons k1 b1 rest) -> S_oblock els -> S_stmt (If k body (ACons k1 b1 rest) els).
Proof.
  intros Sb Sa Se s l inl I Hlok Hinl. cbn [lok_stmt] in Hlok.
  apply andb_true_iff in Hlok. destruct Hlok as (Hlok & Hlok3). apply andb_true_iff in Hlok. destruct Hlok as (Hlok1 & Hlok2).
  set (L := l (cur s)).
  cbn beta iota delta [process_stmt'] fix match. peel_all ident:(p). bsimp. set (a := ACons k1 b1 rest) in *.
  pose proof (i_wfb _ I) as Wb. pose proof (i_cur _ I) as Hc. pose proof (wb_two _ Wb) as H2.
  set (e := end_stmt (If k body a els)) in *.
  set (s4 := connect (nb (nb (add_stmt s (cur s) (mk k e KOther)))) (cur s) (next s) ECondTrue) in *.
  set (rb := flow_block L body). set (ra := flow_arms L a). set (re := flow_oblock L els).
  set (l1 := upd (upd l (next s) L) (N.succ (next s)) (rn rb || rn ra || opt_n L re)).
  assert (M4 : mid anyb s s4).
  { apply mid_connect; [repeat apply mid_nb; apply mid_add_stmt, mid_refl_b; exact Wb|left; exact Logic.I|unfold s4; uflia|unfold s4; uflia]. }
  assert (K4 : klt s4) by (apply klt_connect; repeat apply klt_nb; apply klt_add_stmt; exact (i_klt _ I)).
  assert (N4 : next s4 = N.succ (N.succ (next s))) by reflexivity.
  assert (A1 : agree (next s) l l1) by (intros b Hb; unfold l1; lev; reflexivity).
  destruct (S_branch s s4 (next s) l l1 inl body Sb I M4 eq_refl eq_refl K4) as (l2 & B5); try assumption; try flia.
  rewrite <- Es5p in B5. destruct B5 as (A2 & F5 & C5 & N5 & I5 & So5 & Co5 & Da5 & Db5 & Dc5 & Cn5).
  assert (Hl1t : l1 (next s) = L) by (unfold l1; lev; reflexivity).
  rewrite Hl1t in *. fold rb in C5, So5, Co5, Da5, Db5. rewrite N4 in *.
  set (s7 := connect (nb s5p) (cur s) (next s5p) ECondFalse) in *.
  set (l3 := upd l2 (next s5p) L).
  assert (M7 : mid anyb s s7).
  { apply mid_connect; [apply mid_nb|left; exact Logic.I|uflia|uflia].
    apply (mid_transA _ anyb s (set_cur s4 (next s))); [apply mid_set_cur; exact M4|apply F5|intros; left; exact Logic.I]. }
  assert (K7 : klt s7) by (apply klt_connect, klt_nb; exact (lf_klt _ _ F5)).
  assert (N7 : next s7 = N.succ (next s5p)) by reflexivity.
  assert (L7 : loops s7 = loops s) by (unfold s7; autorewrite with bst; apply F5).
  assert (X7 : excs s7 = excs s) by (unfold s7; autorewrite with bst; apply F5).
  assert (A3 : agree (next s) l l3) by (intros b Hb; unfold l3; lev; unfold l1; lev; reflexivity).
  assert (I7 : inv (set_cur s7 (next s5p))) by (apply (inv_fresh s); try assumption; flia).
  change (s8p = process_elif' (set_cur s7 (next s5p)) a (kelse_of' els (N.succ (next s))) (N.succ (next s))) in Es8p.
  destruct (Sa els (N.succ (next s)) (set_cur s7 (next s5p)) l3 inl Se I7) as (l4 & EO); try assumption; try discriminate.
  { autorewrite with bst. flia. }
  { autorewrite with bst. rewrite L7. exact Hinl. }
  rewrite <- Es8p in EO. autorewrite with bst in EO. unfold l3 in EO at 2. rewrite upd_same in EO.
  destruct EO as (A4 & M8 & L8 & X8 & K8 & N8 & C8 & So8 & Co8 & Da8 & Db8 & Dc8 & Cn8).
  autorewrite with bst in *. fold ra re in So8, Co8, Da8, Db8. rewrite N7 in *.
  pose proof (lf_curlt _ _ F5) as Hc5.
  assert (Hcu5 : next s <= cur s5p) by (destruct (lf_cur _ _ F5) as [H|H]; autorewrite with bst in H; flia).
  exists l4. split; [intros b Hb; lev; unfold l3; lev; unfold l1; lev; reflexivity|].
  change (flow_stmt L (If k body a els)) with
    {| rn := rn rb || rn ra || opt_n L re; rk := rk rb || rk ra || okk re;
       rmarks := (k, L) :: rmarks rb ++ rmarks ra ++ onm re;
       rcx := rcx (flow_stmt L (If k body a els)) |}.
  cbn [rn rk rmarks].
  split; [|split; [|split; [|split; [|split; [|split; [|split]]]]]].
  - apply lframe_mid; autorewrite with bst; try flia.
    + apply mid_connect; [|left; exact Logic.I|uflia|uflia].
      apply (mid_transA _ anyb s (set_cur s7 (next s5p))); [apply mid_set_cur; exact M7|exact M8|intros; left; exact Logic.I].
    + rewrite L8. exact L7.
    + rewrite X8. exact X7.
    + apply klt_connect. exact K8.
  - autorewrite with bst. lev. unfold l3. lev. unfold l1. lev. reflexivity.
  - intros Hctx Hb Cl. autorewrite with bst. rewrite closed_snoc. split.
    + apply So8.
      * intro HL. apply (ctx_ok_agree l l3 s); [apply Hctx; exact HL|exact I|exact A3|exact L7|exact X7].
      * intro Hk. apply (brk_ok_agree l l3 s); [apply Hb; rewrite <- orb_assoc, Hk; apply orb_true_r|exact I|exact A3|exact L7].
      * intro Hn. unfold l3. lev. unfold l1. lev. rewrite <- orb_assoc, Hn. apply orb_true_r.
      * unfold s7. autorewrite with bst. rewrite closed_snoc. split.
        -- apply (closed_agree (next s5p) l2); [|apply (wb_bnd _ (i_wfb _ I5))|unfold l3; apply agree_upd; flia].
           apply So5; [exact Hctx|intro Hk; apply Hb; rewrite Hk; reflexivity|].
           unfold s4. autorewrite with bst. rewrite closed_snoc. split; [apply (closed_ext l); assumption|].
           unfold l1. lev. exact (fun H => H).
        -- unfold l3. lev. unfold l1. lev. exact (fun H => H).
    + lev. unfold l3. lev. rewrite C5. unfold l1. lev. intro H. rewrite H. reflexivity.
  - intros E HE HR. autorewrite with bst in HE.
    assert (HE8 : incl (edges s8p) E) by (intros x Hx; apply HE; apply in_or_app; left; exact Hx).
    assert (HE7 : incl (edges s7) E).
    { destruct (m_edges _ _ _ M8) as (D & ED & _). intros x Hx. apply HE8. rewrite ED. apply in_or_app. left. exact Hx. }
    assert (HE5 : incl (edges s5p) E) by (intros x Hx; apply HE7; unfold s7; autorewrite with bst; apply in_or_app; left; exact Hx).
    assert (HRt : L = true -> reach E (next s)).
    { intro HL. eapply reach_step; [apply HR; exact HL|]. apply HE5. apply (lframe_incl _ _ F5). unfold s4. autorewrite with bst.
      apply in_or_app. right. left. reflexivity. }
    assert (HRe : L = true -> reach E (next s5p)).
    { intro HL. eapply reach_step; [apply HR; exact HL|]. apply HE7. unfold s7. autorewrite with bst. apply in_or_app. right. left. reflexivity. }
    destruct (Co5 E HE5 HRt) as (P4a & P1a & P2a & P3a). destruct (Co8 E HE8 HRe) as (P4b & P1b & P2b).
    autorewrite with bst. split; [|split].
    + intros b Hb1 Hb2 Hb3. destruct (N.lt_ge_cases b (N.succ (N.succ (next s)))) as [Hlt|Hge].
      * assert (b = next s \/ b = N.succ (next s)) as [->| ->] by flia.
        -- apply HRt. lev_in Hb3. unfold l3 in Hb3. lev_in Hb3. unfold l1 in Hb3. lev_in Hb3. exact Hb3.
        -- lev_in Hb3. unfold l3 in Hb3. lev_in Hb3. unfold l1 in Hb3. lev_in Hb3.
           rewrite <- orb_assoc in Hb3. apply orb_true_iff in Hb3. destruct Hb3 as [Hb3|Hb3].
           ++ eapply reach_step; [apply P1a; exact Hb3|]. apply HE. apply in_or_app. right. left. reflexivity.
           ++ apply P1b. exact Hb3.
      * destruct (N.lt_ge_cases b (next s5p)) as [Hlt5|Hge5].
        -- apply P4a; [exact Hge|exact Hlt5|]. lev_in Hb3. unfold l3 in Hb3. lev_in Hb3. exact Hb3.
        -- destruct (N.eq_dec b (next s5p)) as [->|Hne].
           ++ apply HRe. lev_in Hb3. unfold l3 in Hb3. lev_in Hb3. exact Hb3.
           ++ apply P4b; [flia|exact Hb2|exact Hb3].
    + intros Hk Hnp t Ht. rewrite <- orb_assoc in Hk. apply orb_true_iff in Hk. destruct Hk as [Hk|Hk]; [apply (P2a Hk Hnp t Ht)|].
      apply (P2b Hk); [apply (noproc_eq s); assumption|rewrite (brk_t_eq s); assumption].
    + intros HL Hn f Hf. apply orb_false_iff in Hn. destruct Hn as (Hn & _). apply orb_false_iff in Hn. destruct Hn as (Hn1 & _).
      apply (P3a HL Hn1 f Hf).
  - intros k' e' b Hp. autorewrite with plc in Hp. destruct (Da8 k' e' b Hp) as [Hp0|[Hk|(Hm & Hs)]].
    + unfold s7 in Hp0. autorewrite with plc in Hp0. destruct (Da5 k' e' b Hp0) as [Hp1|[Hk|(Hm & Hs)]].
      * unfold s4 in Hp1. autorewrite with plc in Hp1. apply placed_add_stmt_inv in Hp1.
        destruct Hp1 as [Hp1|(-> & -> & ->)]; [left; exact Hp1|]. right. right. cbn [mk b_start b_end]. split; [left|left; reflexivity].
        lev. unfold l3. lev. unfold l1. lev. reflexivity.
      * right. left. exact Hk.
      * right. right. split; [right; apply in_or_app; left|right; apply in_or_app; left; exact Hs].
        assert (Hb : b < next s5p) by (apply (placed_lt s5p k' e'); assumption).
        lev. unfold l3. lev. exact Hm.
    + right. left. exact Hk.
    + right. right. split; [right; apply in_or_app; right; exact Hm|right; apply in_or_app; right; exact Hs].
  - intros k' m [Heq|Hin].
    + inversion Heq; subst. right. exists e, (cur s). split.
      * autorewrite with plc. apply Dc8. unfold s7. autorewrite with plc. apply Dc5. unfold s4. autorewrite with plc.
        apply (placed_add_stmt_new s (cur s) (mk k' e KOther)). apply (wb_keys _ Wb). exact Hc.
      * lev. unfold l3. lev. unfold l1. lev. reflexivity.
    + cbn [elif_stmt]. apply in_app_or in Hin. destruct Hin as [Hin|Hin].
      * destruct (Db5 k' m Hin) as [He|(e' & b & Hp & Hm)]; [left; apply in_or_app; left; exact He|].
        right. exists e', b. split; [autorewrite with plc; apply Dc8; unfold s7; autorewrite with plc; exact Hp|].
        assert (Hb : b < next s5p) by (apply (placed_lt s5p k' e'); assumption).
        lev. unfold l3. lev. exact Hm.
      * destruct (Db8 k' m Hin) as [He|(e' & b & Hp & Hm)]; [left; apply in_or_app; right; exact He|].
        right. exists e', b. split; [autorewrite with plc; exact Hp|exact Hm].
  - intros k' e' b Hp. autorewrite with plc. apply Dc8. unfold s7. autorewrite with plc. apply Dc5. unfold s4. autorewrite with plc.
    apply placed_add_stmt_mono. exact Hp.
  - intro H3. cbn [c03_stmt] in H3. apply andb_true_iff in H3. destruct H3 as (H3 & H3c).
    apply andb_true_iff in H3. destruct H3 as (H3a & H3b).
    cnt_norm. rewrite (Cn8 H3b H3c). unfold s7. cnt_norm.
    rewrite (cntE_agree (next s5p) l2 l3); [|apply (wb_bnd _ (i_wfb _ I5))|unfold l3; apply agree_upd; flia].
    rewrite (Cn5 H3a). unfold s4. cnt_norm. rewrite (cntE_agree (next s) l l1 _ (wb_bnd _ Wb) A1).
    unfold l1. lev. fold L. cbn [flow_stmt rcx]. fold rb ra re. fold (ocx re). cnt_fin.
Qed.

(* ---- loops: the body, processed with the loop context pushed ---- *)
Definition LP_out (s : st) (k e : N) (hasel : bool) (l l1 : lam) (body : block) (s10 : st) (l2 : lam) : Prop :=
  let L := l (cur s) in let rb := flow_block L body in
  let s9 := loop_s9 s k e hasel in let bodyb := N.succ (next s) in let exitb := N.succ (N.succ (next s)) in
  agree (next s9) l1 l2 /\ lframe (set_cur s9 bodyb) s10 /\ l2 (cur s10) = rn rb /\ inv s10 /\
  loops s10 = loop_ctx s :: loops s /\ excs s10 = excs s /\ next s9 <= next s10 /\ (cur s10 = bodyb \/ next s9 <= cur s10) /\
  ((L = true -> ctx_ok l s) -> closed l1 (edges s9) -> closed l2 (edges s10)) /\
  (forall E, incl (edges s10) E -> (L = true -> reach E bodyb) ->
     (forall b0, next s9 <= b0 -> b0 < next s10 -> l2 b0 = true -> reach E b0) /\
     (rn rb = true -> reach E (cur s10)) /\ (rk rb = true -> reach E exitb)) /\
  (forall k' e' b0, placed s10 k' e' b0 -> placed s9 k' e' b0 \/ (k' = 0 /\ e' = 0) \/ (In (k', l2 b0) (rmarks rb) /\ In (k', e') (spans_block body))) /\
  (forall k' m, In (k', m) (rmarks rb) -> In k' (elif_block body) \/ exists e' b0, placed s10 k' e' b0 /\ l2 b0 = m) /\
  (forall k' e' b0, placed s9 k' e' b0 -> placed s10 k' e' b0) /\
  (c03_block body = true -> cntE l2 (edges s10) = (cntE l1 (edges s9) + rcx rb)%nat).

Lemma loop_s9_facts s k e hasel : inv s ->
  let s9 := loop_s9 s k e hasel in
  mid anyb s s9 /\ klt s9 /\ next s9 = next (loop_s6 s k e hasel) /\ cur s9 = cur s /\ loops s9 = loop_ctx s :: loops s /\ excs s9 = excs s /\
  edges s9 = ((edges s ++ [(cur s, next s, ENormal)]) ++ [(next s, N.succ (next s), ECondTrue)]) ++
             [(next s, (if hasel then N.succ (N.succ (N.succ (next s))) else N.succ (N.succ (next s))), ECondFalse)] /\
  (forall k' e' b0, placed s9 k' e' b0 <-> placed (add_stmt (nb s) (next s) (mk k e KOther)) k' e' b0).
Proof.
  intros I s9. pose proof (i_wfb _ I) as Wb. pose proof (i_cur _ I) as Hc.
  destruct (loop_s6_proj s k e hasel) as (P1 & P2 & P3 & P4 & P5).
  assert (M6 : mid anyb s (loop_s6 s k e hasel)).
  { unfold loop_s6. cbv zeta.
    assert (M : mid anyb s (nb (nb (add_stmt (connect (nb s) (cur s) (next s) ENormal) (next s) (mk k e KOther))))).
    { repeat apply mid_nb. apply mid_add_stmt. apply mid_connect; [apply mid_nb, mid_refl_b; exact Wb|left; exact Logic.I|uflia|uflia]. }
    destruct hasel; [apply mid_nb|]; exact M. }
  assert (K6 : klt (loop_s6 s k e hasel)).
  { unfold loop_s6. cbv zeta.
    assert (K : klt (nb (nb (add_stmt (connect (nb s) (cur s) (next s) ENormal) (next s) (mk k e KOther))))).
    { repeat apply klt_nb. apply klt_add_stmt, klt_connect, klt_nb. exact (i_klt _ I). }
    destruct hasel; [apply klt_nb|]; exact K. }
  split; [|split; [|split; [|split; [|split; [|split; [|split]]]]]].
  - unfold s9, loop_s9. apply mid_connect; [apply mid_connect; [apply mid_set_loops; exact M6| | |]| | |];
      autorewrite with bst; try (left; exact Logic.I); rewrite P1; destruct hasel; flia.
  - unfold s9, loop_s9. apply klt_connect, klt_connect, klt_set_loops. exact K6.
  - reflexivity.
  - unfold s9, loop_s9. autorewrite with bst. exact P2.
  - reflexivity.
  - unfold s9, loop_s9. autorewrite with bst. exact P4.
  - unfold s9, loop_s9. autorewrite with bst. rewrite P5. reflexivity.
  - intros k' e' b0. unfold s9, loop_s9. autorewrite with plc. unfold loop_s6. cbv zeta.
    destruct hasel; autorewrite with plc; apply placed_blocks_eq; reflexivity.
Qed.

Lemma S_loop_body s k e hasel l l1 body :
  S_block body -> inv s -> lok_block true body = true ->
  agree (next s) l l1 -> l1 (next s) = l (cur s) -> l1 (N.succ (next s)) = l (cur s) ->
  (rk (flow_block (l (cur s)) body) = true -> l1 (N.succ (N.succ (next s))) = true) ->
  exists l2, LP_out s k e hasel l l1 body (process_block' (set_cur (loop_s9 s k e hasel) (N.succ (next s))) body) l2.
Proof.
  intros Sb I Hlok A1 Hh Hbb Hex. set (L := l (cur s)) in *. set (rb := flow_block L body) in *.
  pose proof (i_wfb _ I) as Wb. pose proof (i_cur _ I) as Hc. pose proof (wb_two _ Wb) as H2.
  destruct (loop_s9_facts s k e hasel I) as (M9 & K9 & N9 & C9 & L9 & X9 & E9 & _).
  destruct (loop_s6_proj s k e hasel) as (P1 & _). rewrite P1 in N9.
  set (s9 := loop_s9 s k e hasel) in *.
  assert (Hn9 : N.succ (N.succ (N.succ (next s))) <= next s9) by (rewrite N9; destruct hasel; flia).
  assert (I9 : inv (set_cur s9 (N.succ (next s)))).
  { split.
    - split.
      + pose proof (m_next _ _ _ M9). autorewrite with bst. flia.
      + apply M9.
      + apply M9.
      + autorewrite with bst. rewrite X9. eapply fin_lt_mono; [apply Wb|flia].
      + autorewrite with bst. rewrite L9, X9. intros lp [<-|Hlp].
        * cbn [loop_ctx l_header l_exit l_excdepth]. repeat split; flia.
        * destruct (wb_loops _ Wb lp Hlp) as (Q1 & Q2 & Q3). repeat split; flia.
    - autorewrite with bst. flia.
    - exact K9.
    - autorewrite with bst. rewrite X9. intros x f Hx _ Hf. destruct (wb_fin _ Wb x Hx) as (Q & _). specialize (Q f Hf). flia. }
  destruct (Sb (set_cur s9 (N.succ (next s))) l1 true I9 Hlok) as (l2 & A2 & F & C & So & Co & Da & Db & Dc & Cn).
  { intros _. autorewrite with bst. rewrite L9. discriminate. }
  autorewrite with bst in *. rewrite Hbb in *. fold rb in C, So, Co, Da, Db.
  pose proof (m_next _ _ _ (lf_mid _ _ F)) as N10. autorewrite with bst in N10.
  exists l2. unfold LP_out. cbv zeta. fold L rb s9.
  split; [exact A2|]. split; [exact F|]. split; [exact C|]. split; [exact (inv_lframe _ _ I9 F)|].
  split; [rewrite (lf_loops _ _ F); autorewrite with bst; exact L9|]. split; [rewrite (lf_excs _ _ F); autorewrite with bst; exact X9|].
  split; [exact N10|]. split; [destruct (lf_cur _ _ F) as [Q|Q]; autorewrite with bst in Q; [left; exact Q|right; exact Q]|].
  split; [|split; [|split; [exact Da|split; [exact Db|split; [exact Dc|exact Cn]]]]].
  - intros Hctx Cl. apply So; [| |exact Cl].
    + intro HL. destruct (Hctx HL) as (Q1 & Q2 & Q3 & Q4). unfold ctx_ok. autorewrite with bst. rewrite L9, X9. repeat split.
      * rewrite (A1 exit_id) by (unfold exit_id; flia). exact Q1.
      * intros x f Hx Hf. destruct (wb_fin _ Wb x Hx) as (Q & _). rewrite (A1 f) by (apply Q; exact Hf). eapply Q2; eauto.
      * intros x h Hx Hh'. destruct (wb_fin _ Wb x Hx) as (_ & Q). rewrite (A1 h) by (apply Q; exact Hh'). eapply Q3; eauto.
      * intros lp [<-|Hlp]; [cbn [loop_ctx l_header]; rewrite Hh; exact HL|].
        destruct (wb_loops _ Wb lp Hlp) as (Q & _). rewrite (A1 _ Q). apply Q4. exact Hlp.
    + intros Hk lp Hlp. autorewrite with bst in Hlp. rewrite L9 in Hlp. cbn in Hlp. inversion Hlp; subst lp.
      cbn [loop_ctx l_exit]. apply Hex. exact Hk.
  - intros E HE HR. destruct (Co E HE HR) as (P4 & P2 & P3). split; [exact P4|]. split.
    + intro Hn. destruct (lf_cur _ _ F) as [Q|Q]; autorewrite with bst in Q.
      * rewrite Q. apply HR. apply (rn_block_le _ _ Hn).
      * apply P4; [exact Q|apply F|]. rewrite C. exact Hn.
    + intro Hk. apply (P2 Hk).
      * unfold noproc. autorewrite with bst. rewrite L9. unfold in_loop_frames. autorewrite with bst. rewrite X9.
        cbn [loop_ctx l_excdepth]. rewrite Nat.sub_diag. intros y [].
      * unfold brk_t. autorewrite with bst. rewrite L9. unfold in_loop_frames. autorewrite with bst. rewrite X9.
        cbn [loop_ctx l_excdepth l_exit]. rewrite Nat.sub_diag. reflexivity.
Qed.

Lemma S_while_none k body : S_block body -> S_stmt (While k body ONone).
Proof.
  intros Sb s l inl I Hlok Hinl. cbn [lok_stmt lok_oblock] in Hlok. rewrite andb_true_r in Hlok.
  set (L := l (cur s)).
  cbn beta iota delta [process_stmt'] fix match. peel_all ident:(p). bsimp.
  pose proof (i_wfb _ I) as Wb. pose proof (i_cur _ I) as Hc. pose proof (wb_two _ Wb) as H2.
  set (e := end_stmt (While k body ONone)) in *.
  change (s10p = process_block' (set_cur (loop_s9 s k e false) (N.succ (next s))) body) in Es10p.
  set (rb := flow_block L body).
  set (l1 := upd (upd (upd l (next s) L) (N.succ (next s)) L) (N.succ (N.succ (next s))) (L || rk rb)).
  assert (A1 : agree (next s) l l1) by (intros b Hb; unfold l1; lev; reflexivity).
  destruct (S_loop_body s k e false l l1 body Sb I Hlok A1) as (l2 & LP).
  { unfold l1; lev; reflexivity. }
  { unfold l1; lev; reflexivity. }
  { intro Hk. unfold l1. lev. unfold rb, L. rewrite Hk. apply orb_true_r. }
  rewrite <- Es10p in LP. destruct LP as (A2 & F & C & I10 & L10 & X10 & N10 & K10 & So & Co & Da & Db & Dc & Cn).
  destruct (loop_s9_facts s k e false I) as (M9 & K9 & N9 & C9 & L9 & X9 & E9 & P9).
  destruct (loop_s6_proj s k e false) as (P1 & _). rewrite P1 in N9. fold L rb in C, So, Co, Da, Db.
  set (s9 := loop_s9 s k e false) in *. rewrite N9 in *.
  pose proof (lf_curlt _ _ F) as Hc10.
  rewrite L10. cbn [tl].
  exists l2. split; [intros b Hb; lev; unfold l1; lev; reflexivity|].
  cbn [flow_stmt flow_oblock opt_n rn rk rmarks]. fold L rb. rewrite app_nil_r.
  split; [|split; [|split; [|split; [|split; [|split; [|split]]]]]].
  - apply lframe_mid; autorewrite with bst; try flia.
    + apply mid_set_loops, mid_connect; [|left; exact Logic.I|exact Hc10|flia].
      apply (mid_transA _ anyb s (set_cur s9 (N.succ (next s)))); [apply mid_set_cur; exact M9|apply F|intros; left; exact Logic.I].
    + reflexivity.
    + exact X10.
    + apply klt_set_loops, klt_connect. exact (lf_klt _ _ F).
  - autorewrite with bst. lev. unfold l1. lev. reflexivity.
  - intros Hctx Hb Cl. autorewrite with bst. rewrite closed_snoc. split.
    + apply So; [exact Hctx|]. rewrite E9. rewrite !closed_snoc. split; [split; [split|]|].
      * apply (closed_ext l); assumption.
      * unfold l1. lev. exact (fun H => H).
      * unfold l1. lev. exact (fun H => H).
      * unfold l1. lev. fold L. intro H. rewrite H. reflexivity.
    + rewrite C. lev. unfold l1. lev. apply rn_block_le.
  - intros E HE HR. autorewrite with bst in HE.
    assert (HE10 : incl (edges s10p) E) by (intros x Hx; apply HE; apply in_or_app; left; exact Hx).
    assert (HE9 : incl (edges s9) E) by (eapply incl_tran; [apply (lframe_incl _ _ F)|exact HE10]).
    rewrite E9 in HE9.
    assert (HRh : L = true -> reach E (next s)).
    { intro HL. eapply reach_step; [apply HR; exact HL|]. apply HE9. apply in_or_app. left. apply in_or_app. left. apply in_or_app. right. left. reflexivity. }
    assert (HRb : L = true -> reach E (N.succ (next s))).
    { intro HL. eapply reach_step; [apply HRh; exact HL|]. apply HE9. apply in_or_app. left. apply in_or_app. right. left. reflexivity. }
    destruct (Co E HE10 HRb) as (P4 & P1' & P2).
    autorewrite with bst. split; [|split].
    + intros b Hb1 Hb2 Hb3. destruct (N.lt_ge_cases b (N.succ (N.succ (N.succ (next s))))) as [Hlt|Hge].
      * assert (b = next s \/ b = N.succ (next s) \/ b = N.succ (N.succ (next s))) as [->|[->| ->]] by flia.
        -- apply HRh. lev_in Hb3. unfold l1 in Hb3. lev_in Hb3. exact Hb3.
        -- apply HRb. lev_in Hb3. unfold l1 in Hb3. lev_in Hb3. exact Hb3.
        -- lev_in Hb3. unfold l1 in Hb3. lev_in Hb3. fold L rb in Hb3. apply orb_true_iff in Hb3. destruct Hb3 as [Hb3|Hb3].
           ++ eapply reach_step; [apply HRh; exact Hb3|]. apply HE9. apply in_or_app. right. left. reflexivity.
           ++ apply P2. exact Hb3.
      * apply P4; [exact Hge|exact Hb2|exact Hb3].
    + discriminate.
    + intros HL Hn. rewrite HL in Hn. discriminate.
  - intros k' e' b Hp. autorewrite with plc in Hp. destruct (Da k' e' b Hp) as [Hp0|[Hk|(Hm & Hs)]].
    + apply P9 in Hp0. apply placed_add_stmt_inv in Hp0. destruct Hp0 as [Hp0|(-> & -> & ->)].
      * left. autorewrite with plc in Hp0. exact Hp0.
      * right. right. cbn [mk b_start b_end]. split; [left|left; reflexivity]. lev. unfold l1. lev. reflexivity.
    + right. left. exact Hk.
    + right. right. split; [right; exact Hm|right; rewrite app_nil_r; exact Hs].
  - intros k' m [Heq|Hin].
    + inversion Heq; subst. right. exists e, (next s). split.
      * autorewrite with plc. apply Dc. apply P9. apply (placed_add_stmt_new (nb s) (next s) (mk k' e KOther)). left. reflexivity.
      * lev. unfold l1. lev. reflexivity.
    + destruct (Db k' m Hin) as [He|(e' & b & Hp & Hm)]; [left; cbn [elif_stmt elif_oblock]; rewrite app_nil_r; exact He|].
      right. exists e', b. split; [autorewrite with plc; exact Hp|exact Hm].
  - intros k' e' b Hp. autorewrite with plc. apply Dc. apply P9. apply placed_add_stmt_mono. autorewrite with plc. exact Hp.
  - intro H3. c03_split H3. cnt_norm. rewrite (Cn H3), E9. cnt_norm.
    rewrite (cntE_agree (next s) l l1 _ (wb_bnd _ Wb) A1). unfold l1. lev. fold L. cnt_fin.
Qed.

Lemma S_for_none k body : S_block body -> S_stmt (For k body ONone).
Proof.
  intros Sb s l inl I Hlok Hinl. cbn [lok_stmt lok_oblock] in Hlok. rewrite andb_true_r in Hlok.
  set (L := l (cur s)).
  cbn beta iota delta [process_stmt'] fix match. peel_all ident:(p). bsimp.
  pose proof (i_wfb _ I) as Wb. pose proof (i_cur _ I) as Hc. pose proof (wb_two _ Wb) as H2.
  set (e := end_stmt (For k body ONone)) in *.
  change (s10p = process_block' (set_cur (loop_s9 s k e false) (N.succ (next s))) body) in Es10p.
  set (rb := flow_block L body).
  set (l1 := upd (upd (upd l (next s) L) (N.succ (next s)) L) (N.succ (N.succ (next s))) (L || rk rb)).
  assert (A1 : agree (next s) l l1) by (intros b Hb; unfold l1; lev; reflexivity).
  destruct (S_loop_body s k e false l l1 body Sb I Hlok A1) as (l2 & LP).
  { unfold l1; lev; reflexivity. }
  { unfold l1; lev; reflexivity. }
  { intro Hk. unfold l1. lev. unfold rb, L. rewrite Hk. apply orb_true_r. }
  rewrite <- Es10p in LP. destruct LP as (A2 & F & C & I10 & L10 & X10 & N10 & K10 & So & Co & Da & Db & Dc & Cn).
  destruct (loop_s9_facts s k e false I) as (M9 & K9 & N9 & C9 & L9 & X9 & E9 & P9).
  destruct (loop_s6_proj s k e false) as (P1 & _). rewrite P1 in N9. fold L rb in C, So, Co, Da, Db.
  set (s9 := loop_s9 s k e false) in *. rewrite N9 in *.
  pose proof (lf_curlt _ _ F) as Hc10.
  rewrite L10. cbn [tl].
  exists l2. split; [intros b Hb; lev; unfold l1; lev; reflexivity|].
  cbn [flow_stmt flow_oblock opt_n rn rk rmarks]. fold L rb. rewrite app_nil_r.
  split; [|split; [|split; [|split; [|split; [|split; [|split]]]]]].
  - apply lframe_mid; autorewrite with bst; try flia.
    + apply mid_set_loops, mid_connect; [|left; exact Logic.I|exact Hc10|flia].
      apply (mid_transA _ anyb s (set_cur s9 (N.succ (next s)))); [apply mid_set_cur; exact M9|apply F|intros; left; exact Logic.I].
    + reflexivity.
    + exact X10.
    + apply klt_set_loops, klt_connect. exact (lf_klt _ _ F).
  - autorewrite with bst. lev. unfold l1. lev. reflexivity.
  - intros Hctx Hb Cl. autorewrite with bst. rewrite closed_snoc. split.
    + apply So; [exact Hctx|]. rewrite E9. rewrite !closed_snoc. split; [split; [split|]|].
      * apply (closed_ext l); assumption.
      * unfold l1. lev. exact (fun H => H).
      * unfold l1. lev. exact (fun H => H).
      * unfold l1. lev. fold L. intro H. rewrite H. reflexivity.
    + rewrite C. lev. unfold l1. lev. apply rn_block_le.
  - intros E HE HR. autorewrite with bst in HE.
    assert (HE10 : incl (edges s10p) E) by (intros x Hx; apply HE; apply in_or_app; left; exact Hx).
    assert (HE9 : incl (edges s9) E) by (eapply incl_tran; [apply (lframe_incl _ _ F)|exact HE10]).
    rewrite E9 in HE9.
    assert (HRh : L = true -> reach E (next s)).
    { intro HL. eapply reach_step; [apply HR; exact HL|]. apply HE9. apply in_or_app. left. apply in_or_app. left. apply in_or_app. right. left. reflexivity. }
    assert (HRb : L = true -> reach E (N.succ (next s))).
    { intro HL. eapply reach_step; [apply HRh; exact HL|]. apply HE9. apply in_or_app. left. apply in_or_app. right. left. reflexivity. }
    destruct (Co E HE10 HRb) as (P4 & P1' & P2).
    autorewrite with bst. split; [|split].
    + intros b Hb1 Hb2 Hb3. destruct (N.lt_ge_cases b (N.succ (N.succ (N.succ (next s))))) as [Hlt|Hge].
      * assert (b = next s \/ b = N.succ (next s) \/ b = N.succ (N.succ (next s))) as [->|[->| ->]] by flia.
        -- apply HRh. lev_in Hb3. unfold l1 in Hb3. lev_in Hb3. exact Hb3.
        -- apply HRb. lev_in Hb3. unfold l1 in Hb3. lev_in Hb3. exact Hb3.
        -- lev_in Hb3. unfold l1 in Hb3. lev_in Hb3. fold L rb in Hb3. apply orb_true_iff in Hb3. destruct Hb3 as [Hb3|Hb3].
           ++ eapply reach_step; [apply HRh; exact Hb3|]. apply HE9. apply in_or_app. right. left. reflexivity.
           ++ apply P2. exact Hb3.
      * apply P4; [exact Hge|exact Hb2|exact Hb3].
    + discriminate.
    + intros HL Hn. rewrite HL in Hn. discriminate.
  - intros k' e' b Hp. autorewrite with plc in Hp. destruct (Da k' e' b Hp) as [Hp0|[Hk|(Hm & Hs)]].
    + apply P9 in Hp0. apply placed_add_stmt_inv in Hp0. destruct Hp0 as [Hp0|(-> & -> & ->)].
      * left. autorewrite with plc in Hp0. exact Hp0.
      * right. right. cbn [mk b_start b_end]. split; [left|left; reflexivity]. lev. unfold l1. lev. reflexivity.
    + right. left. exact Hk.
    + right. right. split; [right; exact Hm|right; rewrite app_nil_r; exact Hs].
  - intros k' m [Heq|Hin].
    + inversion Heq; subst. right. exists e, (next s). split.
      * autorewrite with plc. apply Dc. apply P9. apply (placed_add_stmt_new (nb s) (next s) (mk k' e KOther)). left. reflexivity.
      * lev. unfold l1. lev. reflexivity.
    + destruct (Db k' m Hin) as [He|(e' & b & Hp & Hm)]; [left; cbn [elif_stmt elif_oblock]; rewrite app_nil_r; exact He|].
      right. exists e', b. split; [autorewrite with plc; exact Hp|exact Hm].
  - intros k' e' b Hp. autorewrite with plc. apply Dc. apply P9. apply placed_add_stmt_mono. autorewrite with plc. exact Hp.
  - intro H3. c03_split H3. cnt_norm. rewrite (Cn H3), E9. cnt_norm.
    rewrite (cntE_agree (next s) l l1 _ (wb_bnd _ Wb) A1). unfold l1. lev. fold L. cnt_fin.
Qed.


Lemma S_while_some k body eb : S_block body -> S_block eb -> S_stmt (While k body (OSome eb)).
Proof.
  intros Sb Se s l inl I Hlok Hinl. cbn [lok_stmt lok_oblock] in Hlok. apply andb_true_iff in Hlok. destruct Hlok as (Hlok & Hloke).
  set (L := l (cur s)).
  cbn beta iota delta [process_stmt'] fix match. peel_all ident:(p). bsimp.
  pose proof (i_wfb _ I) as Wb. pose proof (i_cur _ I) as Hc. pose proof (wb_two _ Wb) as H2.
  set (e := end_stmt (While k body (OSome eb))) in *.
  change (s10p = process_block' (set_cur (loop_s9 s k e true) (N.succ (next s))) body) in Es10p.
  set (rb := flow_block L body). set (re := flow_block L eb).
  set (elseb := N.succ (N.succ (N.succ (next s)))) in *.
  set (l1 := upd (upd (upd (upd l (next s) L) (N.succ (next s)) L) (N.succ (N.succ (next s))) (rn re || rk rb)) elseb L).
  assert (A1 : agree (next s) l l1) by (intros b Hb; unfold l1, elseb; lev; reflexivity).
  destruct (S_loop_body s k e true l l1 body Sb I Hlok A1) as (l2 & LP).
  { unfold l1, elseb; lev; reflexivity. }
  { unfold l1, elseb; lev; reflexivity. }
  { intro Hk. unfold l1, elseb. lev. unfold rb, L. rewrite Hk. apply orb_true_r. }
  rewrite <- Es10p in LP. destruct LP as (A2 & F & C & I10 & L10 & X10 & N10 & K10 & So & Co & Da & Db & Dc & Cn).
  destruct (loop_s9_facts s k e true I) as (M9 & K9 & N9 & C9 & L9 & X9 & E9 & P9).
  destruct (loop_s6_proj s k e true) as (P1 & _). rewrite P1 in N9. fold L rb in C, So, Co, Da, Db.
  set (s9 := loop_s9 s k e true) in *. rewrite N9 in *.
  pose proof (lf_curlt _ _ F) as Hc10.
  rewrite L10 in *. cbn [tl] in *.
  set (s12 := set_loops (connect s10p (cur s10p) (next s) ELoop) (loops s)) in *.
  assert (M12 : mid anyb s s12).
  { apply mid_set_loops, mid_connect; [|left; exact Logic.I|exact Hc10|flia].
    apply (mid_transA _ anyb s (set_cur s9 (N.succ (next s)))); [apply mid_set_cur; exact M9|apply F|intros; left; exact Logic.I]. }
  assert (K12 : klt s12) by (apply klt_set_loops, klt_connect; exact (lf_klt _ _ F)).
  assert (N12 : next s12 = next s10p) by reflexivity.
  assert (Ag2 : agree (next s) l l2) by (intros b Hb; lev; unfold l1, elseb; lev; reflexivity).
  destruct (S_branch s s12 elseb l l2 inl eb Se I M12 eq_refl X10 K12) as (l3 & B); try assumption; try (unfold elseb; flia).
  rewrite <- Et1p in B. destruct B as (A3 & F1 & C1 & N1 & I1 & So1 & Co1 & Da1 & Db1 & Dc1 & Cn1).
  assert (Hle : l2 elseb = L) by (lev; unfold l1, elseb; lev; reflexivity).
  rewrite Hle in *. fold re in C1, So1, Co1, Da1, Db1. rewrite N12 in *.
  pose proof (lf_curlt _ _ F1) as Hc1.
  exists l3. split; [intros b Hb; lev; unfold l1, elseb; lev; reflexivity|].
  cbn [flow_stmt flow_oblock opt_n rn rk rmarks]. fold L rb re.
  split; [|split; [|split; [|split; [|split; [|split; [|split]]]]]].
  - apply lframe_mid; autorewrite with bst; try flia.
    + apply mid_connect; [|left; exact Logic.I|exact Hc1|flia].
      apply (mid_transA _ anyb s (set_cur s12 elseb)); [apply mid_set_cur; exact M12|apply F1|intros; left; exact Logic.I].
    + rewrite (lf_loops _ _ F1). reflexivity.
    + rewrite (lf_excs _ _ F1). autorewrite with bst. exact X10.
    + apply klt_connect. exact (lf_klt _ _ F1).
  - autorewrite with bst. lev. unfold l1, elseb. lev. reflexivity.
  - intros Hctx Hb Cl. autorewrite with bst. rewrite closed_snoc. split.
    + apply So1; [exact Hctx|exact Hb|]. unfold s12. autorewrite with bst. rewrite closed_snoc. split.
      * apply So; [exact Hctx|]. rewrite E9. rewrite !closed_snoc. split; [split; [split|]|].
        -- apply (closed_ext l); assumption.
        -- unfold l1, elseb. lev. exact (fun H => H).
        -- unfold l1, elseb. lev. exact (fun H => H).
        -- unfold l1, elseb. lev. exact (fun H => H).
      * rewrite C. lev. unfold l1, elseb. lev. apply rn_block_le.
    + rewrite C1. lev. unfold l1, elseb. lev. intro H. rewrite H. reflexivity.
  - intros E HE HR. autorewrite with bst in HE.
    assert (HE1 : incl (edges t1p) E) by (intros x Hx; apply HE; apply in_or_app; left; exact Hx).
    assert (HE12 : incl (edges s12) E) by (eapply incl_tran; [apply (lframe_incl _ _ F1)|exact HE1]).
    assert (HE10 : incl (edges s10p) E) by (intros x Hx; apply HE12; unfold s12; autorewrite with bst; apply in_or_app; left; exact Hx).
    assert (HE9 : incl (edges s9) E) by (eapply incl_tran; [apply (lframe_incl _ _ F)|exact HE10]).
    rewrite E9 in HE9.
    assert (HRh : L = true -> reach E (next s)).
    { intro HL. eapply reach_step; [apply HR; exact HL|]. apply HE9. apply in_or_app. left. apply in_or_app. left. apply in_or_app. right. left. reflexivity. }
    assert (HRb : L = true -> reach E (N.succ (next s))).
    { intro HL. eapply reach_step; [apply HRh; exact HL|]. apply HE9. apply in_or_app. left. apply in_or_app. right. left. reflexivity. }
    assert (HRe : L = true -> reach E elseb).
    { intro HL. eapply reach_step; [apply HRh; exact HL|]. apply HE9. apply in_or_app. right. left. reflexivity. }
    destruct (Co E HE10 HRb) as (P4 & P1' & P2). destruct (Co1 E HE1 HRe) as (P4e & P1e & P2e & P3e).
    autorewrite with bst. split; [|split].
    + intros b Hb1 Hb2 Hb3. destruct (N.lt_ge_cases b (N.succ elseb)) as [Hlt|Hge].
      * assert (b = next s \/ b = N.succ (next s) \/ b = N.succ (N.succ (next s)) \/ b = elseb) as [->|[->|[->| ->]]] by (unfold elseb in *; flia).
        -- apply HRh. lev_in Hb3. unfold l1, elseb in Hb3. lev_in Hb3. exact Hb3.
        -- apply HRb. lev_in Hb3. unfold l1, elseb in Hb3. lev_in Hb3. exact Hb3.
        -- lev_in Hb3. unfold l1, elseb in Hb3. lev_in Hb3. apply orb_true_iff in Hb3. destruct Hb3 as [Hb3|Hb3].
           ++ eapply reach_step; [apply P1e; exact Hb3|]. apply HE. apply in_or_app. right. left. reflexivity.
           ++ apply P2. exact Hb3.
        -- apply HRe. rewrite (A3 elseb) in Hb3 by (unfold elseb; flia). rewrite Hle in Hb3. exact Hb3.
      * destruct (N.lt_ge_cases b (next s10p)) as [Hlt'|Hge'].
        -- apply P4; [unfold elseb in Hge; flia|exact Hlt'|]. lev_in Hb3. exact Hb3.
        -- apply P4e; [exact Hge'|exact Hb2|exact Hb3].
    + exact P2e.
    + intros HL Hn. apply orb_false_iff in Hn. destruct Hn as (Hn & _). exact (P3e HL Hn).
  - intros k' e' b Hp. autorewrite with plc in Hp. destruct (Da1 k' e' b Hp) as [Hp0|[Hk|(Hm & Hs)]].
    + unfold s12 in Hp0. autorewrite with plc in Hp0. destruct (Da k' e' b Hp0) as [Hp1|[Hk|(Hm & Hs)]].
      * apply P9 in Hp1. apply placed_add_stmt_inv in Hp1. destruct Hp1 as [Hp1|(-> & -> & ->)].
        -- left. autorewrite with plc in Hp1. exact Hp1.
        -- right. right. cbn [mk b_start b_end]. split; [left|left; reflexivity]. lev. unfold l1, elseb. lev. reflexivity.
      * right. left. exact Hk.
      * right. right. split; [right; apply in_or_app; left|right; apply in_or_app; left; exact Hs].
        assert (Hb : b < next s10p) by (apply (placed_lt s10p k' e'); assumption). lev. exact Hm.
    + right. left. exact Hk.
    + right. right. split; [right; apply in_or_app; right; exact Hm|right; apply in_or_app; right; exact Hs].
  - intros k' m [Heq|Hin].
    + inversion Heq; subst. right. exists e, (next s). split.
      * autorewrite with plc. apply Dc1. unfold s12. autorewrite with plc. apply Dc. apply P9.
        apply (placed_add_stmt_new (nb s) (next s) (mk k' e KOther)). left. reflexivity.
      * lev. unfold l1, elseb. lev. reflexivity.
    + cbn [elif_stmt elif_oblock]. apply in_app_or in Hin. destruct Hin as [Hin|Hin].
      * destruct (Db k' m Hin) as [He|(e' & b & Hp & Hm)]; [left; apply in_or_app; left; exact He|].
        right. exists e', b. split; [autorewrite with plc; apply Dc1; unfold s12; autorewrite with plc; exact Hp|].
        assert (Hb : b < next s10p) by (apply (placed_lt s10p k' e'); assumption). lev. exact Hm.
      * destruct (Db1 k' m Hin) as [He|(e' & b & Hp & Hm)]; [left; apply in_or_app; right; exact He|].
        right. exists e', b. split; [autorewrite with plc; exact Hp|exact Hm].
  - intros k' e' b Hp. autorewrite with plc. apply Dc1. unfold s12. autorewrite with plc. apply Dc. apply P9.
    apply placed_add_stmt_mono. autorewrite with plc. exact Hp.
  - intro H3. c03_split H3. cnt_norm. rewrite (Cn1 H0). unfold s12. cnt_norm. rewrite (Cn H3), E9. cnt_norm.
    rewrite (cntE_agree (next s) l l1 _ (wb_bnd _ Wb) A1). unfold l1, elseb. lev. fold L. cnt_fin.
Qed.

Lemma S_for_some k body eb : S_block body -> S_block eb -> S_stmt (For k body (OSome eb)).
Proof.
  intros Sb Se s l inl I Hlok Hinl. cbn [lok_stmt lok_oblock] in Hlok. apply andb_true_iff in Hlok. destruct Hlok as (Hlok & Hloke).
  set (L := l (cur s)).
  cbn beta iota delta [process_stmt'] fix match. peel_all ident:(p). bsimp.
  pose proof (i_wfb _ I) as Wb. pose proof (i_cur _ I) as Hc. pose proof (wb_two _ Wb) as H2.
  set (e := end_stmt (For k body (OSome eb))) in *.
  change (s10p = process_block' (set_cur (loop_s9 s k e true) (N.succ (next s))) body) in Es10p.
  set (rb := flow_block L body). set (re := flow_block L eb).
  set (elseb := N.succ (N.succ (N.succ (next s)))) in *.
  set (l1 := upd (upd (upd (upd l (next s) L) (N.succ (next s)) L) (N.succ (N.succ (next s))) (rn re || rk rb)) elseb L).
  assert (A1 : agree (next s) l l1) by (intros b Hb; unfold l1, elseb; lev; reflexivity).
  destruct (S_loop_body s k e true l l1 body Sb I Hlok A1) as (l2 & LP).
  { unfold l1, elseb; lev; reflexivity. }
  { unfold l1, elseb; lev; reflexivity. }
  { intro Hk. unfold l1, elseb. lev. unfold rb, L. rewrite Hk. apply orb_true_r. }
  rewrite <- Es10p in LP. destruct LP as (A2 & F & C & I10 & L10 & X10 & N10 & K10 & So & Co & Da & Db & Dc & Cn).
  destruct (loop_s9_facts s k e true I) as (M9 & K9 & N9 & C9 & L9 & X9 & E9 & P9).
  destruct (loop_s6_proj s k e true) as (P1 & _). rewrite P1 in N9. fold L rb in C, So, Co, Da, Db.
  set (s9 := loop_s9 s k e true) in *. rewrite N9 in *.
  pose proof (lf_curlt _ _ F) as Hc10.
  rewrite L10 in *. cbn [tl] in *.
  set (s12 := set_loops (connect s10p (cur s10p) (next s) ELoop) (loops s)) in *.
  assert (M12 : mid anyb s s12).
  { apply mid_set_loops, mid_connect; [|left; exact Logic.I|exact Hc10|flia].
    apply (mid_transA _ anyb s (set_cur s9 (N.succ (next s)))); [apply mid_set_cur; exact M9|apply F|intros; left; exact Logic.I]. }
  assert (K12 : klt s12) by (apply klt_set_loops, klt_connect; exact (lf_klt _ _ F)).
  assert (N12 : next s12 = next s10p) by reflexivity.
  assert (Ag2 : agree (next s) l l2) by (intros b Hb; lev; unfold l1, elseb; lev; reflexivity).
  destruct (S_branch s s12 elseb l l2 inl eb Se I M12 eq_refl X10 K12) as (l3 & B); try assumption; try (unfold elseb; flia).
  rewrite <- Et1p in B. destruct B as (A3 & F1 & C1 & N1 & I1 & So1 & Co1 & Da1 & Db1 & Dc1 & Cn1).
  assert (Hle : l2 elseb = L) by (lev; unfold l1, elseb; lev; reflexivity).
  rewrite Hle in *. fold re in C1, So1, Co1, Da1, Db1. rewrite N12 in *.
  pose proof (lf_curlt _ _ F1) as Hc1.
  exists l3. split; [intros b Hb; lev; unfold l1, elseb; lev; reflexivity|].
  cbn [flow_stmt flow_oblock opt_n rn rk rmarks]. fold L rb re.
  split; [|split; [|split; [|split; [|split; [|split; [|split]]]]]].
  - apply lframe_mid; autorewrite with bst; try flia.
    + apply mid_connect; [|left; exact Logic.I|exact Hc1|flia].
      apply (mid_transA _ anyb s (set_cur s12 elseb)); [apply mid_set_cur; exact M12|apply F1|intros; left; exact Logic.I].
    + rewrite (lf_loops _ _ F1). reflexivity.
    + rewrite (lf_excs _ _ F1). autorewrite with bst. exact X10.
    + apply klt_connect. exact (lf_klt _ _ F1).
  - autorewrite with bst. lev. unfold l1, elseb. lev. reflexivity.
  - intros Hctx Hb Cl. autorewrite with bst. rewrite closed_snoc. split.
    + apply So1; [exact Hctx|exact Hb|]. unfold s12. autorewrite with bst. rewrite closed_snoc. split.
      * apply So; [exact Hctx|]. rewrite E9. rewrite !closed_snoc. split; [split; [split|]|].
        -- apply (closed_ext l); assumption.
        -- unfold l1, elseb. lev. exact (fun H => H).
        -- unfold l1, elseb. lev. exact (fun H => H).
        -- unfold l1, elseb. lev. exact (fun H => H).
      * rewrite C. lev. unfold l1, elseb. lev. apply rn_block_le.
    + rewrite C1. lev. unfold l1, elseb. lev. intro H. rewrite H. reflexivity.
  - intros E HE HR. autorewrite with bst in HE.
    assert (HE1 : incl (edges t1p) E) by (intros x Hx; apply HE; apply in_or_app; left; exact Hx).
    assert (HE12 : incl (edges s12) E) by (eapply incl_tran; [apply (lframe_incl _ _ F1)|exact HE1]).
    assert (HE10 : incl (edges s10p) E) by (intros x Hx; apply HE12; unfold s12; autorewrite with bst; apply in_or_app; left; exact Hx).
    assert (HE9 : incl (edges s9) E) by (eapply incl_tran; [apply (lframe_incl _ _ F)|exact HE10]).
    rewrite E9 in HE9.
    assert (HRh : L = true -> reach E (next s)).
    { intro HL. eapply reach_step; [apply HR; exact HL|]. apply HE9. apply in_or_app. left. apply in_or_app. left. apply in_or_app. right. left. reflexivity. }
    assert (HRb : L = true -> reach E (N.succ (next s))).
    { intro HL. eapply reach_step; [apply HRh; exact HL|]. apply HE9. apply in_or_app. left. apply in_or_app. right. left. reflexivity. }
    assert (HRe : L = true -> reach E elseb).
    { intro HL. eapply reach_step; [apply HRh; exact HL|]. apply HE9. apply in_or_app. right. left. reflexivity. }
    destruct (Co E HE10 HRb) as (P4 & P1' & P2). destruct (Co1 E HE1 HRe) as (P4e & P1e & P2e & P3e).
    autorewrite with bst. split; [|split].
    + intros b Hb1 Hb2 Hb3. destruct (N.lt_ge_cases b (N.succ elseb)) as [Hlt|Hge].
      * assert (b = next s \/ b = N.succ (next s) \/ b = N.succ (N.succ (next s)) \/ b = elseb) as [->|[->|[->| ->]]] by (unfold elseb in *; flia).
        -- apply HRh. lev_in Hb3. unfold l1, elseb in Hb3. lev_in Hb3. exact Hb3.
        -- apply HRb. lev_in Hb3. unfold l1, elseb in Hb3. lev_in Hb3. exact Hb3.
        -- lev_in Hb3. unfold l1, elseb in Hb3. lev_in Hb3. apply orb_true_iff in Hb3. destruct Hb3 as [Hb3|Hb3].
           ++ eapply reach_step; [apply P1e; exact Hb3|]. apply HE. apply in_or_app. right. left. reflexivity.
           ++ apply P2. exact Hb3.
        -- apply HRe. rewrite (A3 elseb) in Hb3 by (unfold elseb; flia). rewrite Hle in Hb3. exact Hb3.
      * destruct (N.lt_ge_cases b (next s10p)) as [Hlt'|Hge'].
        -- apply P4; [unfold elseb in Hge; flia|exact Hlt'|]. lev_in Hb3. exact Hb3.
        -- apply P4e; [exact Hge'|exact Hb2|exact Hb3].
    + exact P2e.
    + intros HL Hn. apply orb_false_iff in Hn. destruct Hn as (Hn & _). exact (P3e HL Hn).
  - intros k' e' b Hp. autorewrite with plc in Hp. destruct (Da1 k' e' b Hp) as [Hp0|[Hk|(Hm & Hs)]].
    + unfold s12 in Hp0. autorewrite with plc in Hp0. destruct (Da k' e' b Hp0) as [Hp1|[Hk|(Hm & Hs)]].
      * apply P9 in Hp1. apply placed_add_stmt_inv in Hp1. destruct Hp1 as [Hp1|(-> & -> & ->)].
        -- left. autorewrite with plc in Hp1. exact Hp1.
        -- right. right. cbn [mk b_start b_end]. split; [left|left; reflexivity]. lev. unfold l1, elseb. lev. reflexivity.
      * right. left. exact Hk.
      * right. right. split; [right; apply in_or_app; left|right; apply in_or_app; left; exact Hs].
        assert (Hb : b < next s10p) by (apply (placed_lt s10p k' e'); assumption). lev. exact Hm.
    + right. left. exact Hk.
    + right. right. split; [right; apply in_or_app; right; exact Hm|right; apply in_or_app; right; exact Hs].
  - intros k' m [Heq|Hin].
    + inversion Heq; subst. right. exists e, (next s). split.
      * autorewrite with plc. apply Dc1. unfold s12. autorewrite with plc. apply Dc. apply P9.
        apply (placed_add_stmt_new (nb s) (next s) (mk k' e KOther)). left. reflexivity.
      * lev. unfold l1, elseb. lev. reflexivity.
    + cbn [elif_stmt elif_oblock]. apply in_app_or in Hin. destruct Hin as [Hin|Hin].
      * destruct (Db k' m Hin) as [He|(e' & b & Hp & Hm)]; [left; apply in_or_app; left; exact He|].
        right. exists e', b. split; [autorewrite with plc; apply Dc1; unfold s12; autorewrite with plc; exact Hp|].
        assert (Hb : b < next s10p) by (apply (placed_lt s10p k' e'); assumption). lev. exact Hm.
      * destruct (Db1 k' m Hin) as [He|(e' & b & Hp & Hm)]; [left; apply in_or_app; right; exact He|].
        right. exists e', b. split; [autorewrite with plc; exact Hp|exact Hm].
  - intros k' e' b Hp. autorewrite with plc. apply Dc1. unfold s12. autorewrite with plc. apply Dc. apply P9.
    apply placed_add_stmt_mono. autorewrite with plc. exact Hp.
  - intro H3. c03_split H3. cnt_norm. rewrite (Cn1 H0). unfold s12. cnt_norm. rewrite (Cn H3), E9. cnt_norm.
    rewrite (cntE_agree (next s) l l1 _ (wb_bnd _ Wb) A1). unfold l1, elseb. lev. fold L. cnt_fin.
Qed.


(* [S_branch] for a block [c] that is not necessarily fresh: the invariant of the start state is given *)
Lemma S_branch0 s t c l l1 inl b :
  S_block b -> inv s -> inv (set_cur t c) -> loops t = loops s -> excs t = excs s ->
  agree (next s) l l1 -> lok_block inl b = true -> (inl = true -> loops s <> []) ->
  exists l2, B_out s t c l l1 b (process_block' (set_cur t c) b) l2.
Proof.
  intros Sb I It Lt Xt A1 Hlok Hinl.
  destruct (Sb (set_cur t c) l1 inl It Hlok) as (l2 & A2 & F & C & So & Co & Da & Db & Dc & Cn); [autorewrite with bst; rewrite Lt; exact Hinl|].
  autorewrite with bst in *. exists l2. unfold B_out. cbv zeta.
  pose proof (m_next _ _ _ (lf_mid _ _ F)) as N'. autorewrite with bst in N'.
  split; [exact A2|]. split; [exact F|]. split; [exact C|]. split; [exact N'|]. split; [exact (inv_lframe _ _ It F)|]. split; [|split; [|split; [|split; [|split]]]].
  - intros Hctx Hb Cl. apply So; [| |exact Cl].
    + intro HL. apply (ctx_ok_agree l l1 s); [apply Hctx; exact HL|exact I|exact A1|exact Lt|exact Xt].
    + intro Hk. apply (brk_ok_agree l l1 s); [apply Hb; exact Hk|exact I|exact A1|exact Lt].
  - intros E HE HR. destruct (Co E HE HR) as (P4 & P2 & P3). split; [exact P4|]. split; [|split].
    + intro Hn. destruct (lf_cur _ _ F) as [Hcu|Hcu]; autorewrite with bst in Hcu.
      * rewrite Hcu. apply HR. apply (rn_block_le _ _ Hn).
      * apply P4; [exact Hcu|apply F|]. rewrite C. exact Hn.
    + intros Hk Hnp t0 Ht0. apply (P2 Hk).
      * apply (noproc_eq s); [exact Lt|exact Xt|exact Hnp].
      * rewrite (brk_t_eq s); [exact Ht0|exact Lt|exact Xt].
    + intros HL Hn f Hf. apply (P3 HL Hn f). apply (Cfin_eq f s); [exact Lt|exact Xt|exact Hf].
  - exact Da.
  - exact Db.
  - exact Dc.
  - exact Cn.
Qed.

Lemma S_with k body : S_block body -> S_stmt (With k body).
Proof.
  intros Sb s l inl I Hlok Hinl. cbn [lok_stmt] in Hlok.
  set (L := l (cur s)).
  cbn beta iota delta [process_stmt'] fix match. peel_all ident:(p). bsimp.
  pose proof (i_wfb _ I) as Wb. pose proof (i_cur _ I) as Hc. pose proof (wb_two _ Wb) as H2.
  set (e := end_stmt (With k body)) in *.
  set (s7 := connect (nb (nb (nb (add_stmt (connect (nb s) (cur s) (next s) ENormal) (next s) (mk k e KOther))))) (next s) (N.succ (next s)) ENormal) in *.
  set (rb := flow_block L body).
  set (l1 := upd (upd (upd (upd l (next s) L) (N.succ (next s)) L) (N.succ (N.succ (next s))) L) (N.succ (N.succ (N.succ (next s)))) L).
  assert (M7 : mid anyb s s7).
  { apply mid_connect; [repeat apply mid_nb; apply mid_add_stmt, mid_connect; [apply mid_nb, mid_refl_b; exact Wb|left; exact Logic.I|uflia|uflia]
                       |left; exact Logic.I|unfold s7; uflia|unfold s7; uflia]. }
  assert (K7 : klt s7) by (apply klt_connect; repeat apply klt_nb; apply klt_add_stmt, klt_connect, klt_nb; exact (i_klt _ I)).
  assert (N7 : next s7 = N.succ (N.succ (N.succ (N.succ (next s))))) by reflexivity.
  assert (A1 : agree (next s) l l1) by (intros b Hb; unfold l1; lev; reflexivity).
  destruct (S_branch s s7 (N.succ (next s)) l l1 inl body Sb I M7 eq_refl eq_refl K7) as (l2 & B); try assumption; try flia.
  rewrite <- Es8p in B. destruct B as (A2 & F & C & N8 & I8 & So & Co & Da & Db & Dc & _).
  assert (Hlb : l1 (N.succ (next s)) = L) by (unfold l1; lev; reflexivity). rewrite Hlb in *. fold rb in C, So, Co, Da, Db.
  rewrite N7 in *. pose proof (lf_curlt _ _ F) as Hc8.
  exists l2. split; [intros b Hb; lev; unfold l1; lev; reflexivity|].
  cbn [flow_stmt rn rk rmarks]. fold L rb.
  split; [|split; [|split; [|split; [|split; [|split; [|split]]]]]].
  - apply lframe_mid; autorewrite with bst; try flia.
    + apply mid_connect; [apply mid_connect; [apply mid_connect|..]|..]; try (left; exact Logic.I); try uflia.
      apply (mid_transA _ anyb s (set_cur s7 (N.succ (next s)))); [apply mid_set_cur; exact M7|apply F|intros; left; exact Logic.I].
    + rewrite (lf_loops _ _ F). reflexivity.
    + rewrite (lf_excs _ _ F). reflexivity.
    + repeat apply klt_connect. exact (lf_klt _ _ F).
  - autorewrite with bst. lev. unfold l1. lev. reflexivity.
  - intros Hctx Hb Cl. autorewrite with bst. rewrite !closed_snoc. split; [split; [split|]|].
    + apply So; [exact Hctx|exact Hb|]. unfold s7. autorewrite with bst. rewrite !closed_snoc. split; [split|].
      * apply (closed_ext l); assumption.
      * unfold l1. lev. exact (fun H => H).
      * unfold l1. lev. exact (fun H => H).
    + rewrite C. lev. unfold l1. lev. apply rn_block_le.
    + lev. unfold l1. lev. exact (fun H => H).
    + lev. unfold l1. lev. exact (fun H => H).
  - intros E HE HR. autorewrite with bst in HE.
    assert (HE8 : incl (edges s8p) E) by (intros x Hx; apply HE; do 3 (apply in_or_app; left); exact Hx).
    assert (HE7 : incl (edges s7) E) by (eapply incl_tran; [apply (lframe_incl _ _ F)|exact HE8]).
    unfold s7 in HE7. autorewrite with bst in HE7.
    assert (HRs : L = true -> reach E (next s)).
    { intro HL. eapply reach_step; [apply HR; exact HL|]. apply HE7. apply in_or_app. left. apply in_or_app. right. left. reflexivity. }
    assert (HRb : L = true -> reach E (N.succ (next s))).
    { intro HL. eapply reach_step; [apply HRs; exact HL|]. apply HE7. apply in_or_app. right. left. reflexivity. }
    assert (HRt : L = true -> reach E (N.succ (N.succ (next s)))).
    { intro HL. eapply reach_step; [apply HRs; exact HL|]. apply HE. apply in_or_app. left. apply in_or_app. right. left. reflexivity. }
    assert (HRx : L = true -> reach E (N.succ (N.succ (N.succ (next s))))).
    { intro HL. eapply reach_step; [apply HRt; exact HL|]. apply HE. apply in_or_app. right. left. reflexivity. }
    destruct (Co E HE8 HRb) as (P4 & P1 & P2 & P3). autorewrite with bst. split; [|split].
    + intros b Hb1 Hb2 Hb3. destruct (N.lt_ge_cases b (N.succ (N.succ (N.succ (N.succ (next s)))))) as [Hlt|Hge].
      * assert (HL : L = true) by (lev_in Hb3; unfold l1 in Hb3;
          assert (b = next s \/ b = N.succ (next s) \/ b = N.succ (N.succ (next s)) \/ b = N.succ (N.succ (N.succ (next s)))) as [->|[->|[->| ->]]] by flia;
          lev_in Hb3; exact Hb3).
        assert (b = next s \/ b = N.succ (next s) \/ b = N.succ (N.succ (next s)) \/ b = N.succ (N.succ (N.succ (next s)))) as [->|[->|[->| ->]]] by flia; auto.
      * apply P4; [exact Hge|exact Hb2|exact Hb3].
    + exact P2.
    + intros HL Hn. rewrite HL in Hn. discriminate.
  - intros k' e' b Hp. autorewrite with plc in Hp. destruct (Da k' e' b Hp) as [Hp0|[Hk|(Hm & Hs)]].
    + unfold s7 in Hp0. autorewrite with plc in Hp0. apply placed_add_stmt_inv in Hp0. destruct Hp0 as [Hp0|(-> & -> & ->)].
      * left. autorewrite with plc in Hp0. exact Hp0.
      * right. right. cbn [mk b_start b_end]. split; [left|left; reflexivity]. lev. unfold l1. lev. reflexivity.
    + right. left. exact Hk.
    + right. right. split; [right; exact Hm|right; exact Hs].
  - intros k' m [Heq|Hin].
    + inversion Heq; subst. right. exists e, (next s). split.
      * autorewrite with plc. apply Dc. unfold s7. autorewrite with plc.
        apply (placed_add_stmt_new (connect (nb s) (cur s) (next s) ENormal) (next s) (mk k' e KOther)). left. reflexivity.
      * lev. unfold l1. lev. reflexivity.
    + destruct (Db k' m Hin) as [He|(e' & b & Hp & Hm)]; [left; exact He|].
      right. exists e', b. split; [autorewrite with plc; exact Hp|exact Hm].
  - intros k' e' b Hp. autorewrite with plc. apply Dc. unfold s7. autorewrite with plc.
    apply placed_add_stmt_mono. autorewrite with plc. exact Hp.
  - discriminate.
Qed.

Lemma S_class k nm body : S_block body -> S_stmt (Class k nm body).
Proof.
  intros Sb s l inl I Hlok Hinl. cbn [lok_stmt] in Hlok.
  set (L := l (cur s)).
  cbn beta iota delta [process_stmt'] fix match. peel_all ident:(p). bsimp.
  pose proof (i_wfb _ I) as Wb. pose proof (i_cur _ I) as Hc. pose proof (wb_two _ Wb) as H2.
  set (e := end_stmt (Class k nm body)) in *.
  set (t := add_stmt (connect (nb s) (cur s) (next s) ENormal) (next s) (mk k e KOther)).
  change (add_stmt (set_cur (connect (nb s) (cur s) (next s) ENormal) (next s)) (next s) (mk k e KOther)) with (set_cur t (next s)).
  set (rb := flow_block L body).
  set (l1 := upd l (next s) L).
  assert (Mt : mid anyb s t).
  { apply mid_add_stmt, mid_connect; [apply mid_nb, mid_refl_b; exact Wb|left; exact Logic.I|uflia|uflia]. }
  assert (Kt : klt t) by (apply klt_add_stmt, klt_connect, klt_nb; exact (i_klt _ I)).
  assert (Nt : next t = N.succ (next s)) by reflexivity.
  assert (A1 : agree (next s) l l1) by (apply agree_upd; flia).
  destruct (S_branch s t (next s) l l1 false body Sb I Mt eq_refl eq_refl Kt) as (l2 & B); try assumption; try flia; try discriminate.
  set (s' := process_block' (set_cur t (next s)) body) in *.
  destruct B as (A2 & F & C & N' & I' & So & Co & Da & Db & Dc & Cn).
  assert (Hlb : l1 (next s) = L) by (unfold l1; lev; reflexivity). rewrite Hlb in *. fold rb in C, So, Co, Da, Db.
  rewrite Nt in *.
  exists l2. split; [intros b Hb; lev; unfold l1; lev; reflexivity|].
  cbn [flow_stmt rn rk rmarks]. fold L rb.
  split; [|split; [|split; [|split; [|split; [|split; [|split]]]]]].
  - destruct F as [Fm Fl Fx Fc Fcl Fk]. autorewrite with bst in *. split; try assumption.
    + apply (mid_transA _ anyb s (set_cur t (next s))); [apply mid_set_cur; exact Mt|exact Fm|intros; left; exact Logic.I].
    + right. destruct Fc as [->|Fc]; flia.
  - exact C.
  - intros Hctx Hb Cl. apply So; [exact Hctx|exact Hb|]. unfold t. autorewrite with bst. rewrite closed_snoc. split.
    + apply (closed_ext l); assumption.
    + unfold l1. lev. exact (fun H => H).
  - intros E HE HR.
    assert (HRc : L = true -> reach E (next s)).
    { intro HL. eapply reach_step; [apply HR; exact HL|]. apply HE. apply (lframe_incl _ _ F). unfold t. autorewrite with bst.
      apply in_or_app. right. left. reflexivity. }
    destruct (Co E HE HRc) as (P4 & P1 & P2 & P3). split; [|split; [exact P2|exact P3]].
    intros b Hb1 Hb2 Hb3. destruct (N.eq_dec b (next s)) as [->|Hne].
    + apply HRc. lev_in Hb3. unfold l1 in Hb3. lev_in Hb3. exact Hb3.
    + apply P4; [flia|exact Hb2|exact Hb3].
  - intros k' e' b Hp. destruct (Da k' e' b Hp) as [Hp0|[Hk|(Hm & Hs)]].
    + unfold t in Hp0. apply placed_add_stmt_inv in Hp0. destruct Hp0 as [Hp0|(-> & -> & ->)].
      * left. autorewrite with plc in Hp0. exact Hp0.
      * right. right. cbn [mk b_start b_end]. split; [left|left; reflexivity]. lev. unfold l1. lev. reflexivity.
    + right. left. exact Hk.
    + right. right. split; [right; exact Hm|right; exact Hs].
  - intros k' m [Heq|Hin].
    + inversion Heq; subst. right. exists e, (next s). split.
      * apply Dc. autorewrite with plc. unfold t.
        apply (placed_add_stmt_new (connect (nb s) (cur s) (next s) ENormal) (next s) (mk k' e KOther)). left. reflexivity.
      * lev. unfold l1. lev. reflexivity.
    + destruct (Db k' m Hin) as [He|H]; [left; exact He|right; exact H].
  - intros k' e' b Hp. apply Dc. autorewrite with plc. unfold t. apply placed_add_stmt_mono. autorewrite with plc. exact Hp.
  - intro H3. c03_split H3. rewrite (Cn H3). unfold t. cnt_norm.
    rewrite (cntE_agree (next s) l l1 _ (wb_bnd _ Wb) A1). cbn [flow_stmt rcx]. cnt_fin.
Qed.

Lemma inv_connect s a b t : inv s -> a < next s -> b < next s -> inv (connect s a b t).
Proof.
  intros I Ha Hb. pose proof (i_wfb _ I) as Wb. split.
  - apply (wfb_mid anyb s); [apply mid_connect; [apply mid_refl_b; exact Wb|left; exact Logic.I|exact Ha|exact Hb]|exact Wb|reflexivity|reflexivity].
  - exact (i_cur _ I).
  - exact (i_klt _ I).
  - exact (i_fincur _ I).
Qed.

(* ---- match cases: every case block hangs off the match block [mb] ---- *)
Definition C_out (s : st) (mb merge : N) (l : lam) (L : bool) (a : arms) (s' : st) (l' : lam) : Prop :=
  let ra := flow_arms L a in
  agree (next s) l l' /\ mid anyb s s' /\ loops s' = loops s /\ excs s' = excs s /\ klt s' /\ next s <= next s' /\
  ((L = true -> ctx_ok l s) -> (rk ra = true -> brk_ok l s) -> (rn ra = true -> l merge = true) ->
     closed l (edges s) -> closed l' (edges s')) /\
  (forall E, incl (edges s') E -> (L = true -> reach E mb) ->
     (forall b0, next s <= b0 -> b0 < next s' -> l' b0 = true -> reach E b0) /\
     (rk ra = true -> noproc s -> forall t0, brk_t s = Some t0 -> reach E t0)) /\
  (forall k e b0, placed s' k e b0 -> placed s k e b0 \/ (k = 0 /\ e = 0) \/ (In (k, l' b0) (rmarks ra) /\ In (k, e) (spans_arms a))) /\
  (forall k m, In (k, m) (rmarks ra) -> In k (elif_arms a) \/ exists e b0, placed s' k e b0 /\ l' b0 = m) /\
  (forall k e b0, placed s k e b0 -> placed s' k e b0).

Definition S_cases (a : arms) : Prop := forall s mb merge l inl,
  inv s -> mb < next s -> merge < next s -> lok_arms inl a = true -> (inl = true -> loops s <> []) ->
  exists l', C_out s mb merge l (l mb) a (process_cases' s a mb merge) l'.

Lemma S_cases_nil : S_cases ANil.
Proof.
  intros s mb merge l inl I Hmb Hm _ _. exists l. unfold C_out. cbn.
  split; [apply agree_refl|]. split; [apply mid_refl_b, I|]. split; [reflexivity|]. split; [reflexivity|].
  split; [exact (i_klt _ I)|]. split; [flia|]. split; [intros _ _ _ C; exact C|]. split; [|split; [|split]].
  - intros E HE HR. split; [intros b0 H1 H2; flia|discriminate].
  - intros k e b0 Hp. left. exact Hp.
  - intros k m [].
  - intros k e b0 Hp. exact Hp.
Qed.

Lemma S_cases_cons k b r : S_block b -> S_cases r -> S_cases (ACons k b r).
Proof.
  intros Sb Sr s mb merge l inl I Hmb Hm Hlok Hinl. cbn [lok_arms] in Hlok. apply andb_true_iff in Hlok. destruct Hlok as (Hlok1 & Hlok2).
  set (L := l mb).
  cbn beta iota delta [process_cases'] fix match. peel_all ident:(p). bsimp.
  pose proof (i_wfb _ I) as Wb. pose proof (i_cur _ I) as Hc. pose proof (wb_two _ Wb) as H2.
  set (X := mk k (N.max k (end_block b)) KOther) in *.
  set (t := add_stmt (connect (nb s) mb (next s) ECondTrue) (next s) X).
  change (s4p = process_block' (set_cur t (next s)) b) in Es4p.
  set (r1 := flow_block L b). set (r2 := flow_arms L r).
  set (l1 := upd l (next s) L).
  assert (Mt : mid anyb s t).
  { apply mid_add_stmt, mid_connect; [apply mid_nb, mid_refl_b; exact Wb|left; exact Logic.I|uflia|uflia]. }
  assert (Kt : klt t) by (apply klt_add_stmt, klt_connect, klt_nb; exact (i_klt _ I)).
  assert (Nt : next t = N.succ (next s)) by reflexivity.
  assert (A1 : agree (next s) l l1) by (apply agree_upd; flia).
  destruct (S_branch s t (next s) l l1 inl b Sb I Mt eq_refl eq_refl Kt) as (l2 & B); try assumption; try flia.
  rewrite <- Es4p in B. destruct B as (A2 & F & C & N4 & I4 & So & Co & Da & Db & Dc & _).
  assert (Hlb : l1 (next s) = L) by (unfold l1; lev; reflexivity). rewrite Hlb in *. fold r1 in C, So, Co, Da, Db.
  rewrite Nt in *. pose proof (lf_curlt _ _ F) as Hc4.
  set (s5 := connect s4p (cur s4p) merge ENormal) in *.
  assert (I5 : inv s5) by (apply inv_connect; [exact I4|exact Hc4|flia]).
  assert (L5 : loops s5 = loops s) by (unfold s5; autorewrite with bst; rewrite (lf_loops _ _ F); reflexivity).
  assert (X5 : excs s5 = excs s) by (unfold s5; autorewrite with bst; rewrite (lf_excs _ _ F); reflexivity).
  destruct (Sr s5 mb merge l2 inl I5) as (l3 & CO); try assumption; try (unfold s5; uflia); [rewrite L5; exact Hinl|].
  assert (Hl2mb : l2 mb = L) by (lev; unfold l1; lev; reflexivity). rewrite Hl2mb in CO. fold r2 in CO.
  set (s' := process_cases' s5 r mb merge) in *.
  destruct CO as (A3 & M' & L' & X' & K' & N' & So' & Co' & Da' & Db' & Dc'). fold r2 in So', Co', Da', Db'.
  assert (N5 : next s5 = next s4p) by reflexivity. rewrite N5 in *.
  assert (Ag2 : agree (next s) l l2) by (intros b0 Hb0; lev; unfold l1; lev; reflexivity).
  exists l3. unfold C_out. cbn [flow_arms rn rk rmarks spans_arms elif_arms]. fold L r1 r2 X.
  split; [intros b0 Hb0; lev; unfold l1; lev; reflexivity|].
  split; [|split; [congruence|split; [congruence|split; [exact K'|split; [flia|split; [|split; [|split; [|split]]]]]]]].
  - apply (mid_transA _ anyb s s5); [|exact M'|intros; left; exact Logic.I].
    apply mid_connect; [|left; exact Logic.I|exact Hc4|flia].
    apply (mid_transA _ anyb s (set_cur t (next s))); [apply mid_set_cur; exact Mt|apply F|intros; left; exact Logic.I].
  - intros Hctx Hb Hmg Cl. apply So'.
    + intro HL. apply (ctx_ok_agree l l2 s); [apply Hctx; exact HL|exact I|exact Ag2|exact L5|exact X5].
    + intro Hk. apply (brk_ok_agree l l2 s); [apply Hb; rewrite Hk; apply orb_true_r|exact I|exact Ag2|exact L5].
    + intro Hn. lev. unfold l1. lev. apply Hmg. rewrite Hn. apply orb_true_r.
    + unfold s5. autorewrite with bst. rewrite closed_snoc. split.
      * apply So; [exact Hctx|intro Hk; apply Hb; rewrite Hk; reflexivity|].
        unfold t. autorewrite with bst. rewrite closed_snoc. split; [apply (closed_ext l); assumption|].
        unfold l1. lev. exact (fun H => H).
      * rewrite C. lev. unfold l1. lev. intro Hn. apply Hmg. rewrite Hn. reflexivity.
  - intros E HE HR.
    assert (HE5 : incl (edges s5) E).
    { destruct (m_edges _ _ _ M') as (D & ED & _). intros x Hx. apply HE. rewrite ED. apply in_or_app. left. exact Hx. }
    assert (HE4 : incl (edges s4p) E) by (intros x Hx; apply HE5; unfold s5; autorewrite with bst; apply in_or_app; left; exact Hx).
    assert (HRc : L = true -> reach E (next s)).
    { intro HL. eapply reach_step; [apply HR; exact HL|]. apply HE4. apply (lframe_incl _ _ F). unfold t. autorewrite with bst.
      apply in_or_app. right. left. reflexivity. }
    destruct (Co E HE4 HRc) as (P4 & P1 & P2 & P3). destruct (Co' E HE HR) as (P4' & P2').
    split.
    + intros b0 H1 H2' H3. destruct (N.eq_dec b0 (next s)) as [->|Hne].
      * apply HRc. lev_in H3. unfold l1 in H3. lev_in H3. exact H3.
      * destruct (N.lt_ge_cases b0 (next s4p)) as [Hlt|Hge].
        -- apply P4; [flia|exact Hlt|]. lev_in H3. exact H3.
        -- apply P4'; [exact Hge|exact H2'|exact H3].
    + intros Hk Hnp t0 Ht0. apply orb_true_iff in Hk. destruct Hk as [Hk|Hk]; [apply (P2 Hk Hnp t0 Ht0)|].
      apply (P2' Hk); [apply (noproc_eq s); assumption|rewrite (brk_t_eq s); assumption].
  - intros k' e' b0 Hp. destruct (Da' k' e' b0 Hp) as [Hp0|[Hk|(Hm' & Hs)]].
    + unfold s5 in Hp0. autorewrite with plc in Hp0. destruct (Da k' e' b0 Hp0) as [Hp1|[Hk|(Hm' & Hs)]].
      * unfold t in Hp1. apply placed_add_stmt_inv in Hp1. destruct Hp1 as [Hp1|(-> & -> & ->)].
        -- left. autorewrite with plc in Hp1. exact Hp1.
        -- right. right. cbn [X mk b_start b_end]. split; [left|left; reflexivity]. lev. unfold l1. lev. reflexivity.
      * right. left. exact Hk.
      * right. right. split; [right; apply in_or_app; left|right; apply in_or_app; left; exact Hs].
        assert (Hb0 : b0 < next s4p) by (apply (placed_lt s4p k' e'); assumption). lev. exact Hm'.
    + right. left. exact Hk.
    + right. right. split; [right; apply in_or_app; right; exact Hm'|right; apply in_or_app; right; exact Hs].
  - intros k' m [Heq|Hin].
    + inversion Heq; subst. right. exists (N.max k' (end_block b)), (next s). split.
      * apply Dc'. unfold s5. autorewrite with plc. apply Dc. autorewrite with plc. unfold t.
        apply (placed_add_stmt_new (connect (nb s) mb (next s) ECondTrue) (next s) X). left. reflexivity.
      * lev. unfold l1. lev. reflexivity.
    + apply in_app_or in Hin. destruct Hin as [Hin|Hin].
      * destruct (Db k' m Hin) as [He|(e' & b0 & Hp & Hm')]; [left; apply in_or_app; left; exact He|].
        right. exists e', b0. split; [apply Dc'; unfold s5; autorewrite with plc; exact Hp|].
        assert (Hb0 : b0 < next s4p) by (apply (placed_lt s4p k' e'); assumption). lev. exact Hm'.
      * destruct (Db' k' m Hin) as [He|H]; [left; apply in_or_app; right; exact He|right; exact H].
  - intros k' e' b0 Hp. apply Dc'. unfold s5. autorewrite with plc. apply Dc. autorewrite with plc. unfold t.
    apply placed_add_stmt_mono. autorewrite with plc. exact Hp.
Qed.

Lemma S_match k cases : S_cases cases -> S_stmt (Match k cases).
Proof.
  intros Sc s l inl I Hlok Hinl. cbn [lok_stmt] in Hlok.
  set (L := l (cur s)).
  pose proof (i_wfb _ I) as Wb. pose proof (i_cur _ I) as Hc. pose proof (wb_two _ Wb) as H2.
  set (e := end_stmt (Match k cases)).
  set (t := nb (add_stmt (connect (nb s) (cur s) (next s) ENormal) (next s) (mk k e KOther))).
  set (ety0 := match cases with ANil => ENormal | _ => ECondFalse end).
  assert (Es : process_stmt' s (Match k cases) =
               set_cur (connect (process_cases' t cases (next s) (N.succ (next s))) (next s) (N.succ (next s)) ety0) (N.succ (next s))).
  { unfold ety0, t, e. destruct cases; reflexivity. }
  rewrite Es. clear Es.
  set (ra := flow_arms L cases).
  set (l1 := upd (upd l (next s) L) (N.succ (next s)) L).
  assert (Mt : mid anyb s t).
  { apply mid_nb, mid_add_stmt, mid_connect; [apply mid_nb, mid_refl_b; exact Wb|left; exact Logic.I|uflia|uflia]. }
  assert (Kt : klt t) by (apply klt_nb, klt_add_stmt, klt_connect, klt_nb; exact (i_klt _ I)).
  assert (Nt : next t = N.succ (N.succ (next s))) by reflexivity.
  assert (A1 : agree (next s) l l1) by (intros b Hb; unfold l1; lev; reflexivity).
  assert (It : inv t).
  { split; [apply (wfb_mid anyb s); [exact Mt|exact Wb|reflexivity|reflexivity]|unfold t; uflia|exact Kt|exact (i_fincur _ I)]. }
  destruct (Sc t (next s) (N.succ (next s)) l1 inl It) as (l2 & CO); try assumption; try (rewrite Nt; flia).
  assert (Hlm : l1 (next s) = L) by (unfold l1; lev; reflexivity). rewrite Hlm in CO. fold ra in CO.
  set (s' := process_cases' t cases (next s) (N.succ (next s))) in *.
  destruct CO as (A2 & M' & L' & X' & K' & N' & So' & Co' & Da' & Db' & Dc'). fold ra in So', Co', Da', Db'.
  rewrite Nt in *.
  exists l2. split; [intros b Hb; lev; unfold l1; lev; reflexivity|].
  cbn [flow_stmt rn rk rmarks]. fold L ra.
  split; [|split; [|split; [|split; [|split; [|split; [|split]]]]]].
  - apply lframe_mid; autorewrite with bst; try flia.
    + apply mid_connect; [|left; exact Logic.I|flia|flia].
      apply (mid_transA _ anyb s t); [exact Mt|exact M'|intros; left; exact Logic.I].
    + exact L'.
    + exact X'.
    + apply klt_connect. exact K'.
  - autorewrite with bst. lev. unfold l1. lev. reflexivity.
  - intros Hctx Hb Cl. autorewrite with bst. rewrite closed_snoc. split.
    + apply So'.
      * intro HL. apply (ctx_ok_agree l l1 s); [apply Hctx; exact HL|exact I|exact A1|reflexivity|reflexivity].
      * intro Hk. apply (brk_ok_agree l l1 s); [apply Hb; exact Hk|exact I|exact A1|reflexivity].
      * intro Hn. unfold l1. lev. apply (rn_arms_le _ _ Hn).
      * unfold t. autorewrite with bst. rewrite closed_snoc. split; [apply (closed_ext l); assumption|].
        unfold l1. lev. exact (fun H => H).
    + lev. unfold l1. lev. exact (fun H => H).
  - intros E HE HR. autorewrite with bst in HE.
    assert (HE' : incl (edges s') E) by (intros x Hx; apply HE; apply in_or_app; left; exact Hx).
    assert (HRm : L = true -> reach E (next s)).
    { intro HL. eapply reach_step; [apply HR; exact HL|]. apply HE'. destruct (m_edges _ _ _ M') as (D & ED & _). rewrite ED.
      apply in_or_app. left. unfold t. autorewrite with bst. apply in_or_app. right. left. reflexivity. }
    destruct (Co' E HE' HRm) as (P4 & P2). autorewrite with bst. split; [|split].
    + intros b Hb1 Hb2 Hb3. destruct (N.lt_ge_cases b (N.succ (N.succ (next s)))) as [Hlt|Hge].
      * assert (b = next s \/ b = N.succ (next s)) as [->| ->] by flia.
        -- apply HRm. lev_in Hb3. unfold l1 in Hb3. lev_in Hb3. exact Hb3.
        -- lev_in Hb3. unfold l1 in Hb3. lev_in Hb3. eapply reach_step; [apply HRm; exact Hb3|]. apply HE. apply in_or_app. right. left. reflexivity.
      * apply P4; [exact Hge|exact Hb2|exact Hb3].
    + intros Hk Hnp t0 Ht0. apply (P2 Hk); [apply (noproc_eq s); [reflexivity|reflexivity|exact Hnp]|rewrite (brk_t_eq s); [exact Ht0|reflexivity|reflexivity]].
    + intros HL Hn. rewrite HL in Hn. discriminate.
  - intros k' e' b Hp. autorewrite with plc in Hp. destruct (Da' k' e' b Hp) as [Hp0|[Hk|(Hm & Hs)]].
    + unfold t in Hp0. autorewrite with plc in Hp0. apply placed_add_stmt_inv in Hp0. destruct Hp0 as [Hp0|(-> & -> & ->)].
      * left. autorewrite with plc in Hp0. exact Hp0.
      * right. right. cbn [mk b_start b_end]. split; [left|left; reflexivity]. lev. unfold l1. lev. reflexivity.
    + right. left. exact Hk.
    + right. right. split; [right; exact Hm|right; exact Hs].
  - intros k' m [Heq|Hin].
    + inversion Heq; subst. right. exists e, (next s). split.
      * autorewrite with plc. apply Dc'. unfold t. autorewrite with plc.
        apply (placed_add_stmt_new (connect (nb s) (cur s) (next s) ENormal) (next s) (mk k' e KOther)). left. reflexivity.
      * lev. unfold l1. lev. reflexivity.
    + destruct (Db' k' m Hin) as [He|(e' & b & Hp & Hm)]; [left; exact He|].
      right. exists e', b. split; [autorewrite with plc; exact Hp|exact Hm].
  - intros k' e' b Hp. autorewrite with plc. apply Dc'. unfold t. autorewrite with plc.
    apply placed_add_stmt_mono. autorewrite with plc. exact Hp.
  - discriminate.
Qed.

(* ---- comprehensions: every block of the comprehension is reachable iff the statement is ---- *)
Definition CC_out (s : st) (k prev : N) (s' : st) (last : N) : Prop :=
  mid anyb s s' /\ klt s' /\ cur s' = cur s /\ loops s' = loops s /\ excs s' = excs s /\
  (last = prev \/ next s <= last) /\ last < next s' /\
  (forall u v t, In (u, v, t) (edges s') -> In (u, v, t) (edges s) \/ ((u = prev \/ next s <= u) /\ next s <= v)) /\
  (forall E, incl (edges s') E -> reach E prev -> (forall b, next s <= b -> b < next s' -> reach E b) /\ reach E last) /\
  (forall k' e' b, placed s' k' e' b -> placed s k' e' b \/ (k' = k /\ e' = k /\ next s <= b)) /\
  (forall k' e' b, placed s k' e' b -> placed s' k' e' b).

Lemma in_snoc {A} (x : A) l y : In x (l ++ [y]) <-> In x l \/ x = y.
Proof. split; [intro H; apply in_app_or in H; destruct H as [H|[H|[]]]; auto|intros [H|H]; apply in_or_app; [left; exact H|right; left; auto]]. Qed.

Lemma comp_clauses_sim k cl : forall s prev, wfb s -> klt s -> prev < next s ->
  CC_out s k prev (snd (comp_clauses s k cl prev)) (fst (comp_clauses s k cl prev)).
Proof.
  induction cl as [|nifs cl IH]; intros s prev Wb K Hp.
  - cbn. unfold CC_out. split; [apply mid_refl_b; exact Wb|]. split; [exact K|]. do 3 (split; [reflexivity|]).
    split; [left; reflexivity|]. split; [exact Hp|]. split; [intros u v t Hin; left; exact Hin|].
    split; [intros E HE HR; split; [intros b H1 H2; flia|exact HR]|]. split; [intros k' e' b H; left; exact H|intros k' e' b H; exact H].
  - cbn [comp_clauses]. nbs. cbv zeta.
    set (X := mk k k KOther).
    set (s5 := connect (nb (add_stmt (connect (nb s) prev (next s) ENormal) (next s) X)) (next s) (N.succ (next s)) ECondTrue).
    set (s6 := if Nat.ltb 0 nifs
               then connect (add_stmt (connect (connect (nb (add_stmt (connect (nb s5) (N.succ (next s)) (next s5) ENormal) (next s5) X))
                                   (next s5) (N.succ (next s5)) ECondTrue) (next s5) (next s) ECondFalse) (N.succ (next s5)) X)
                            (N.succ (next s5)) (next s) ELoop
               else connect (connect (nb (add_stmt s5 (N.succ (next s)) X)) (N.succ (next s)) (next s5) ENormal) (next s5) (next s) ELoop).
    assert (E6 : comp_clauses s6 k cl (next s) = comp_clauses s6 k cl (next s)) by reflexivity.
    match goal with |- CC_out _ _ _ (snd (comp_clauses ?t _ _ _)) _ => replace t with s6 by (unfold s6, s5; destruct (Nat.ltb 0 nifs); reflexivity) end.
    assert (N5 : next s5 = N.succ (N.succ (next s))) by reflexivity.
    assert (H6 : mid anyb s s6 /\ klt s6 /\ cur s6 = cur s /\ loops s6 = loops s /\ excs s6 = excs s /\
                 N.succ (N.succ (N.succ (next s))) <= next s6 /\
                 (forall u v t, In (u, v, t) (edges s6) -> In (u, v, t) (edges s) \/ ((u = prev \/ next s <= u) /\ next s <= v)) /\
                 (forall E, incl (edges s6) E -> reach E prev -> (forall b, next s <= b -> b < next s6 -> reach E b)) /\
                 (forall k' e' b, placed s6 k' e' b -> placed s k' e' b \/ (k' = k /\ e' = k /\ next s <= b)) /\
                 (forall k' e' b, placed s k' e' b -> placed s6 k' e' b)).
    { assert (M5 : mid anyb s s5).
      { apply mid_connect; [apply mid_nb, mid_add_stmt, mid_connect; [apply mid_nb, mid_refl_b; exact Wb|left; exact Logic.I|uflia|uflia]|left; exact Logic.I|uflia|uflia]. }
      assert (K5 : klt s5) by (apply klt_connect, klt_nb, klt_add_stmt, klt_connect, klt_nb; exact K).
      unfold s6. destruct (Nat.ltb 0 nifs).
      - split; [|split; [|split; [reflexivity|split; [reflexivity|split; [reflexivity|split; [rewrite N5; autorewrite with bst; flia|split; [|split; [|split]]]]]]]].
        + repeat first [apply mid_connect; [|left; exact Logic.I|rewrite ?N5; uflia|rewrite ?N5; uflia] | apply mid_add_stmt | apply mid_nb]. first [exact M5|apply mid_refl_b; exact Wb].
        + repeat first [apply klt_connect | apply klt_add_stmt | apply klt_nb]. first [exact K5|exact K].
        + intros u v t Hin. rewrite ?N5 in Hin. unfold s5 in Hin. autorewrite with bst in Hin. rewrite !in_snoc in Hin.
          destruct Hin as [[[[[[Hin|Hin]|Hin]|Hin]|Hin]|Hin]|Hin]; [left; exact Hin|..]; inversion Hin; subst; right; flia.
        + intros E HE HR b H1 H2'. rewrite ?N5 in HE, H2'. unfold s5 in HE, H2'. autorewrite with bst in HE, H2'.
          assert (Hh : reach E (next s)) by (eapply reach_step; [exact HR|apply HE; rewrite !in_snoc; do 5 left; right; reflexivity]).
          assert (Hb : reach E (N.succ (next s))) by (eapply reach_step; [exact Hh|apply HE; rewrite !in_snoc; do 4 left; right; reflexivity]).
          assert (Hf : reach E (N.succ (N.succ (next s)))) by (eapply reach_step; [exact Hb|apply HE; rewrite !in_snoc; do 3 left; right; reflexivity]).
          assert (Ha : reach E (N.succ (N.succ (N.succ (next s))))) by (eapply reach_step; [exact Hf|apply HE; rewrite !in_snoc; do 2 left; right; reflexivity]).
          assert (b = next s \/ b = N.succ (next s) \/ b = N.succ (N.succ (next s)) \/ b = N.succ (N.succ (N.succ (next s)))) as [->|[->|[->| ->]]] by flia; assumption.
        + intros k' e' b Hpl. rewrite ?N5 in Hpl. unfold s5 in Hpl. autorewrite with plc in Hpl.
          apply placed_add_stmt_inv in Hpl. destruct Hpl as [Hpl|(-> & -> & ->)]; [|right; cbn; repeat split; flia].
          autorewrite with plc in Hpl. apply placed_add_stmt_inv in Hpl. destruct Hpl as [Hpl|(-> & -> & ->)]; [|right; cbn; repeat split; flia].
          autorewrite with plc in Hpl. apply placed_add_stmt_inv in Hpl. destruct Hpl as [Hpl|(-> & -> & ->)]; [|right; cbn; repeat split; flia].
          autorewrite with plc in Hpl. left. exact Hpl.
        + intros k' e' b Hpl. rewrite ?N5. unfold s5. autorewrite with plc. apply placed_add_stmt_mono. autorewrite with plc.
          apply placed_add_stmt_mono. autorewrite with plc. apply placed_add_stmt_mono. autorewrite with plc. exact Hpl.
      - split; [|split; [|split; [reflexivity|split; [reflexivity|split; [reflexivity|split; [rewrite N5; autorewrite with bst; flia|split; [|split; [|split]]]]]]]].
        + repeat first [apply mid_connect; [|left; exact Logic.I|rewrite ?N5; uflia|rewrite ?N5; uflia] | apply mid_add_stmt | apply mid_nb]. first [exact M5|apply mid_refl_b; exact Wb].
        + repeat first [apply klt_connect | apply klt_add_stmt | apply klt_nb]. first [exact K5|exact K].
        + intros u v t Hin. rewrite ?N5 in Hin. unfold s5 in Hin. autorewrite with bst in Hin. rewrite !in_snoc in Hin.
          destruct Hin as [[[[Hin|Hin]|Hin]|Hin]|Hin]; [left; exact Hin|..]; inversion Hin; subst; right; flia.
        + intros E HE HR b H1 H2'. rewrite ?N5 in HE, H2'. unfold s5 in HE, H2'. autorewrite with bst in HE, H2'.
          assert (Hh : reach E (next s)) by (eapply reach_step; [exact HR|apply HE; rewrite !in_snoc; do 3 left; right; reflexivity]).
          assert (Hb : reach E (N.succ (next s))) by (eapply reach_step; [exact Hh|apply HE; rewrite !in_snoc; do 2 left; right; reflexivity]).
          assert (Ha : reach E (N.succ (N.succ (next s)))) by (eapply reach_step; [exact Hb|apply HE; rewrite !in_snoc; left; right; reflexivity]).
          assert (b = next s \/ b = N.succ (next s) \/ b = N.succ (N.succ (next s))) as [->|[->| ->]] by flia; assumption.
        + intros k' e' b Hpl. rewrite ?N5 in Hpl. unfold s5 in Hpl. autorewrite with plc in Hpl.
          apply placed_add_stmt_inv in Hpl. destruct Hpl as [Hpl|(-> & -> & ->)]; [|right; cbn; repeat split; flia].
          autorewrite with plc in Hpl. apply placed_add_stmt_inv in Hpl. destruct Hpl as [Hpl|(-> & -> & ->)]; [|right; cbn; repeat split; flia].
          autorewrite with plc in Hpl. left. exact Hpl.
        + intros k' e' b Hpl. rewrite ?N5. unfold s5. autorewrite with plc. apply placed_add_stmt_mono. autorewrite with plc.
          apply placed_add_stmt_mono. autorewrite with plc. exact Hpl. }
    destruct H6 as (M6 & K6 & C6 & L6 & X6 & N6 & Ed6 & Re6 & Pa6 & Pm6). clearbody s6.
    pose proof (m_next _ _ _ M6) as Hn6.
    destruct (IH s6 (next s)) as (M' & K' & C' & L' & X' & La' & Ll' & Ed' & Re' & Pa' & Pm'); [apply (wfb_mid anyb s); assumption|exact K6|flia|].
    set (r := comp_clauses s6 k cl (next s)) in *.
    pose proof (m_next _ _ _ M') as Hn'.
    unfold CC_out. split; [apply (mid_transA _ anyb s s6); [exact M6|exact M'|intros; left; exact Logic.I]|].
    split; [exact K'|]. split; [congruence|]. split; [congruence|]. split; [congruence|].
    split; [right; destruct La' as [->|La']; flia|]. split; [exact Ll'|]. split; [|split; [|split]].
    + intros u v t Hin. destruct (Ed' u v t Hin) as [Hin'|([Hu|Hu] & Hv)]; [apply Ed6; exact Hin'|right; flia|right; flia].
    + intros E HE HR.
      assert (HE6 : incl (edges s6) E). { destruct (m_edges _ _ _ M') as (D & ED & _). intros x Hx. apply HE. rewrite ED. apply in_or_app. left. exact Hx. }
      pose proof (Re6 E HE6 HR) as R6. destruct (Re' E HE (R6 (next s) ltac:(flia) ltac:(flia))) as (R' & Rl).
      split; [|exact Rl]. intros b H1 H2'. destruct (N.lt_ge_cases b (next s6)) as [Hlt|Hge]; [apply R6; assumption|apply R'; assumption].
    + intros k' e' b Hpl. destruct (Pa' k' e' b Hpl) as [Hpl'|(-> & -> & Hb)]; [apply Pa6; exact Hpl'|right; repeat split; flia].
    + intros k' e' b Hpl. apply Pm', Pm6. exact Hpl.
Qed.

(* the counted edges of the clauses: one ECondTrue edge per header and per filter block, all labelled like [prev] *)
Lemma comp_clauses_cnt k cl : forall s prev (l0 : lam) (L0 : bool),
  (forall b, next s <= b -> l0 b = L0) ->
  cntE l0 (edges (snd (comp_clauses s k cl prev))) = (cntE l0 (edges s) + gate L0 (comp_cx cl))%nat.
Proof.
  induction cl as [|nifs cl IH]; intros s prev l0 L0 Hnew.
  - cbn. unfold gate. destruct L0; flia.
  - cbn [comp_clauses comp_cx fold_right]. fold (comp_cx cl). nbs. cbv zeta.
    destruct (Nat.ltb 0 nifs); nbs; cbv zeta.
    + rewrite (IH _ _ l0 L0) by (intros b Hb; apply Hnew; autorewrite with bst in Hb; flia).
      cnt_norm. rewrite !Hnew by flia. unfold gate. destruct L0; flia.
    + rewrite (IH _ _ l0 L0) by (intros b Hb; apply Hnew; autorewrite with bst in Hb; flia).
      cnt_norm. rewrite !Hnew by flia. unfold gate. destruct L0; flia.
Qed.

Lemma S_comp k cl : S_stmt (Comp k cl).
Proof.
  intros s l inl I _ _. set (L := l (cur s)).
  cbn [process_stmt' flow_stmt elif_stmt spans_stmt end_stmt]. unfold process_comp. nbs. cbv zeta. autorewrite with bst.
  pose proof (i_wfb _ I) as Wb. pose proof (i_cur _ I) as Hc. pose proof (wb_two _ Wb) as H2.
  set (X := mk k k KOther).
  set (s4 := nb (add_stmt (connect (nb s) (cur s) (next s) ENormal) (next s) X)).
  assert (M4 : mid anyb s s4).
  { apply mid_nb, mid_add_stmt, mid_connect; [apply mid_nb, mid_refl_b; exact Wb|left; exact Logic.I|uflia|uflia]. }
  assert (K4 : klt s4) by (apply klt_nb, klt_add_stmt, klt_connect, klt_nb; exact (i_klt _ I)).
  assert (N4 : next s4 = N.succ (N.succ (next s))) by reflexivity.
  destruct (comp_clauses_sim k cl s4 (next s)) as (M5 & K5 & C5 & L5 & X5 & La & Ll & Ed & Re & Pa & Pm);
    [apply (wfb_mid anyb s); [exact M4|exact Wb|reflexivity|reflexivity]|exact K4|rewrite N4; flia|].
  pose proof (comp_clauses_cnt k cl s4 (next s)) as Cc.
  destruct (comp_clauses s4 k cl (next s)) as [last s5]. cbn [fst snd] in *. rewrite N4 in *.
  pose proof (m_next _ _ _ M5) as N5. rewrite N4 in N5.
  set (src := if N.eqb last (next s) then next s else last).
  set (ety0 := if N.eqb last (next s) then ENormal else ECondFalse).
  match goal with |- S_out _ _ _ _ (add_stmt (set_cur ?t _) _ _) _ _ _ => replace t with (connect s5 src (N.succ (next s)) ety0) by (unfold src, ety0; destruct (N.eqb last (next s)); reflexivity) end.
  assert (Hsrc : next s <= src /\ src < next s5 /\ (src = next s \/ src = last)).
  { unfold src. destruct (N.eqb last (next s)) eqn:El; [apply N.eqb_eq in El|apply N.eqb_neq in El]; repeat split; try flia; auto. }
  destruct Hsrc as (Hs1 & Hs2 & Hs3).
  set (l' := fun b => if N.ltb b (next s) then l b else L).
  assert (A : agree (next s) l l') by (intros b Hb; unfold l'; destruct (N.ltb_spec b (next s)); [reflexivity|flia]).
  assert (Hfr : forall b, next s <= b -> l' b = L) by (intros b Hb; unfold l'; destruct (N.ltb_spec b (next s)); [flia|reflexivity]).
  exists l'. split; [exact A|].
  split; [|split; [|split; [|split; [|split; [|split; [|split]]]]]].
  - split; autorewrite with bst.
    + apply mid_add_stmt, mid_set_cur, mid_connect; [|left; exact Logic.I|exact Hs2|flia].
      apply (mid_transA _ anyb s s4); [exact M4|exact M5|intros; left; exact Logic.I].
    + rewrite L5. reflexivity.
    + rewrite X5. reflexivity.
    + right. flia.
    + flia.
    + apply klt_add_stmt, klt_set_cur, klt_connect. exact K5.
  - autorewrite with bst. apply Hfr. flia.
  - intros Hctx Hb Cl. autorewrite with bst. rewrite closed_snoc. split.
    + intros u v t Hin Hu. destruct (Ed u v t Hin) as [Hin'|(Hu' & Hv)].
      * unfold s4 in Hin'. autorewrite with bst in Hin'. apply in_snoc in Hin'. destruct Hin' as [Hin'|Hin'].
        -- destruct (wb_bnd _ Wb u v t Hin') as (Q1 & Q2). rewrite (A u Q1) in Hu. rewrite (A v Q2). eapply Cl; eauto.
        -- inversion Hin'; subst. rewrite (A _ Hc) in Hu. rewrite Hfr by flia. exact Hu.
      * rewrite (Hfr v) by flia. rewrite (Hfr u) in Hu by (destruct Hu' as [->|Hu']; flia). exact Hu.
    + rewrite !Hfr by flia. exact (fun H => H).
  - intros E HE HR. autorewrite with bst in HE. cbn [rn rk]. autorewrite with bst.
    assert (HE5 : incl (edges s5) E) by (intros x Hx; apply HE; apply in_or_app; left; exact Hx).
    split; [|split; [discriminate|intros HL Hn; rewrite HL in Hn; discriminate]].
    intros b Hb1 Hb2 Hb3. rewrite (Hfr b Hb1) in Hb3.
    assert (Hini : reach E (next s)).
    { eapply reach_step; [apply HR; exact Hb3|]. apply HE5. destruct (m_edges _ _ _ M5) as (D & ED & _). rewrite ED.
      apply in_or_app. left. unfold s4. autorewrite with bst. apply in_or_app. right. left. reflexivity. }
    destruct (Re E HE5 Hini) as (R & Rl).
    destruct (N.eq_dec b (next s)) as [->|Hn1]; [exact Hini|].
    destruct (N.eq_dec b (N.succ (next s))) as [->|Hn2].
    + eapply reach_step; [|apply HE; apply in_or_app; right; left; reflexivity].
      destruct Hs3 as [->| ->]; [exact Hini|exact Rl].
    + apply R; flia.
  - intros k' e' b Hp. apply placed_add_stmt_inv in Hp. destruct Hp as [Hp|(-> & -> & ->)].
    + autorewrite with plc in Hp. destruct (Pa k' e' b Hp) as [Hp'|(-> & -> & Hb)].
      * unfold s4 in Hp'. autorewrite with plc in Hp'. apply placed_add_stmt_inv in Hp'. destruct Hp' as [Hp'|(-> & -> & ->)].
        -- left. autorewrite with plc in Hp'. exact Hp'.
        -- right. right. cbn. rewrite Hfr by flia. split; left; reflexivity.
      * right. right. cbn. rewrite Hfr by flia. split; left; reflexivity.
    + right. right. cbn. rewrite Hfr by flia. split; left; reflexivity.
  - intros k' m [Heq|[]]. inversion Heq; subst. right. exists k', (N.succ (next s)). split; [|apply Hfr; flia].
    apply (placed_add_stmt_new (set_cur (connect s5 src (N.succ (next s)) ety0) (N.succ (next s))) (N.succ (next s)) X).
    unfold haskey. autorewrite with bst. apply (m_keys _ _ _ M5). flia.
  - intros k' e' b Hp. apply placed_add_stmt_mono. autorewrite with plc. apply Pm. unfold s4. autorewrite with plc.
    apply placed_add_stmt_mono. autorewrite with plc. exact Hp.
  - intros _. assert (Hety : counted ety0 = false) by (unfold ety0; destruct (N.eqb last (next s)); reflexivity).
    autorewrite with bst. rewrite cntE_snoc, Hety. rewrite (Cc l' L) by (intros b Hb; apply Hfr; flia).
    unfold s4. cnt_norm. rewrite (cntE_agree (next s) l l' _ (wb_bnd _ Wb) A). cnt_fin.
Qed.

(* ---- exception handlers: block [hb_i] (labelled [L], created by the try statement) holds handler [i] ---- *)
Definition H_out (s : st) (hbs : list N) (nxt : N) (l : lam) (L : bool) (a : arms) (s' : st) (l' : lam) : Prop :=
  let ra := flow_arms L a in
  agree (next s) l l' /\ mid anyb s s' /\ loops s' = loops s /\ excs s' = excs s /\ klt s' /\ next s <= next s' /\
  (cur s' < next s') /\
  ((L = true -> ctx_ok l s) -> (rk ra = true -> brk_ok l s) -> (rn ra = true -> l nxt = true) ->
     closed l (edges s) -> closed l' (edges s')) /\
  (forall E, incl (edges s') E -> (forall h, In h hbs -> L = true -> reach E h) ->
     (forall b0, next s <= b0 -> b0 < next s' -> l' b0 = true -> reach E b0) /\
     (rn ra = true -> reach E nxt) /\
     (rk ra = true -> noproc s -> forall t0, brk_t s = Some t0 -> reach E t0)) /\
  (forall k e b0, placed s' k e b0 -> placed s k e b0 \/ (k = 0 /\ e = 0) \/ (In (k, l' b0) (rmarks ra) /\ In (k, e) (spans_arms a))) /\
  (forall k m, In (k, m) (rmarks ra) -> In k (elif_arms a) \/ exists e b0, placed s' k e b0 /\ l' b0 = m) /\
  (forall k e b0, placed s k e b0 -> placed s' k e b0) /\
  (c03_arms a = true -> cntE l' (edges s') = (cntE l (edges s) + rcx ra)%nat).

Definition S_handlers (a : arms) : Prop := forall s hbs nxt l L inl,
  inv s -> length hbs = arms_length a ->
  (forall h, In h hbs -> h < next s /\ l h = L /\
     forall x f, In x (excs s) -> x_processing x = false -> x_finally x = Some f -> f <> h) ->
  nxt < next s -> lok_arms inl a = true -> (inl = true -> loops s <> []) ->
  exists l', H_out s hbs nxt l L a (process_handlers' s a hbs nxt) l'.

Lemma S_handlers_nil : S_handlers ANil.
Proof.
  intros s hbs nxt l L inl I _ _ Hn _ _. exists l. unfold H_out. cbn.
  split; [apply agree_refl|]. split; [apply mid_refl_b, I|]. split; [reflexivity|]. split; [reflexivity|].
  split; [exact (i_klt _ I)|]. split; [flia|]. split; [exact (i_cur _ I)|]. split; [intros _ _ _ C; exact C|]. split; [|split; [|split; [|split]]].
  - intros E HE HR. split; [intros b0 H1 H2; flia|]. split; discriminate.
  - intros k e b0 Hp. left. exact Hp.
  - intros k m [].
  - intros k e b0 Hp. exact Hp.
  - intros _. flia.
Qed.

Lemma S_handlers_cons k b r : S_block b -> S_handlers r -> S_handlers (ACons k b r).
Proof.
  intros Sb Sr s hbs nxt l L inl I Hlen Hh Hnx Hlok Hinl. cbn [lok_arms] in Hlok. apply andb_true_iff in Hlok. destruct Hlok as (Hlok1 & Hlok2).
  destruct hbs as [|hb hbr]; [discriminate|]. cbn [length arms_length] in Hlen. injection Hlen as Hlen.
  destruct (Hh hb (or_introl eq_refl)) as (Hb1 & Hb2 & Hb3).
  cbn beta iota delta [process_handlers'] fix match. peel_all ident:(p). bsimp.
  pose proof (i_wfb _ I) as Wb. pose proof (i_cur _ I) as Hc. pose proof (wb_two _ Wb) as H2.
  set (X := mk k (N.max k (end_block b)) KOther) in *.
  set (t := add_stmt s hb X).
  change (s2p = process_block' (set_cur t hb) b) in Es2p.
  set (r1 := flow_block L b). set (r2 := flow_arms L r).
  assert (Mt : mid anyb s t) by (apply mid_add_stmt, mid_refl_b; exact Wb).
  assert (Kt : klt t) by (apply klt_add_stmt; exact (i_klt _ I)).
  assert (It : inv (set_cur t hb)).
  { split; [apply (wfb_mid anyb s); [apply mid_set_cur; exact Mt|exact Wb|reflexivity|reflexivity]|exact Hb1|exact Kt|exact Hb3]. }
  destruct (S_branch0 s t hb l l inl b Sb I It eq_refl eq_refl (agree_refl _ _) Hlok1 Hinl) as (l2 & B).
  rewrite <- Es2p in B. destruct B as (A2 & F & C & N2 & I2 & So & Co & Da & Db & Dc & Cn).
  rewrite Hb2 in C, So, Co, Da, Db, Cn. fold r1 in C, So, Co, Da, Db.
  assert (Nt : next t = next s) by reflexivity. rewrite Nt in *.
  pose proof (lf_curlt _ _ F) as Hc2.
  set (s3 := connect s2p (cur s2p) nxt ENormal) in *.
  assert (I3 : inv s3) by (apply inv_connect; [exact I2|exact Hc2|flia]).
  assert (L3 : loops s3 = loops s) by (unfold s3; autorewrite with bst; rewrite (lf_loops _ _ F); reflexivity).
  assert (X3 : excs s3 = excs s) by (unfold s3; autorewrite with bst; rewrite (lf_excs _ _ F); reflexivity).
  assert (N3 : next s3 = next s2p) by reflexivity.
  destruct (Sr s3 hbr nxt l2 L inl I3 Hlen) as (l3 & HO); try assumption; try (rewrite N3; flia); [|rewrite L3; exact Hinl|].
  { intros h Hin. destruct (Hh h (or_intror Hin)) as (Q1 & Q2 & Q3). rewrite N3. split; [flia|]. split; [rewrite (A2 h Q1); exact Q2|].
    rewrite X3. exact Q3. }
  set (s' := process_handlers' s3 r hbr nxt) in *.
  destruct HO as (A3 & M' & L' & X' & K' & N' & C' & So' & Co' & Da' & Db' & Dc' & Cn'). fold r2 in So', Co', Da', Db'.
  rewrite N3 in *.
  exists l3. unfold H_out. cbn [flow_arms rn rk rmarks spans_arms elif_arms]. fold r1 r2 X.
  split; [intros b0 Hb0; lev; reflexivity|].
  split; [|split; [congruence|split; [congruence|split; [exact K'|split; [flia|split; [exact C'|split; [|split; [|split; [|split; [|split]]]]]]]]]].
  - apply (mid_transA _ anyb s s3); [|exact M'|intros; left; exact Logic.I].
    apply mid_connect; [|left; exact Logic.I|exact Hc2|flia].
    apply (mid_transA _ anyb s (set_cur t hb)); [apply mid_set_cur; exact Mt|apply F|intros; left; exact Logic.I].
  - intros Hctx Hb Hmg Cl. apply So'.
    + intro HL. apply (ctx_ok_agree l l2 s); [apply Hctx; exact HL|exact I|exact A2|exact L3|exact X3].
    + intro Hk. apply (brk_ok_agree l l2 s); [apply Hb; rewrite Hk; apply orb_true_r|exact I|exact A2|exact L3].
    + intro Hn. lev. apply Hmg. rewrite Hn. apply orb_true_r.
    + unfold s3. autorewrite with bst. rewrite closed_snoc. split.
      * apply So; [exact Hctx|intro Hk; apply Hb; rewrite Hk; reflexivity|]. exact Cl.
      * rewrite C. lev. intro Hn. apply Hmg. rewrite Hn. reflexivity.
  - intros E HE HR.
    assert (HE3 : incl (edges s3) E).
    { destruct (m_edges _ _ _ M') as (D & ED & _). intros x Hx. apply HE. rewrite ED. apply in_or_app. left. exact Hx. }
    assert (HE2 : incl (edges s2p) E) by (intros x Hx; apply HE3; unfold s3; autorewrite with bst; apply in_or_app; left; exact Hx).
    destruct (Co E HE2 (HR hb (or_introl eq_refl))) as (P4 & P1 & P2 & P3).
    destruct (Co' E HE (fun h Hin => HR h (or_intror Hin))) as (P4' & P1' & P2').
    split; [|split].
    + intros b0 H1 H2' H3. destruct (N.lt_ge_cases b0 (next s2p)) as [Hlt|Hge].
      * apply P4; [exact H1|exact Hlt|]. lev_in H3. exact H3.
      * apply P4'; [exact Hge|exact H2'|exact H3].
    + intro Hn. apply orb_true_iff in Hn. destruct Hn as [Hn|Hn]; [|apply P1'; exact Hn].
      eapply reach_step; [apply P1; exact Hn|]. apply HE3. unfold s3. autorewrite with bst. apply in_or_app. right. left. reflexivity.
    + intros Hk Hnp t0 Ht0. apply orb_true_iff in Hk. destruct Hk as [Hk|Hk]; [apply (P2 Hk Hnp t0 Ht0)|].
      apply (P2' Hk); [apply (noproc_eq s); assumption|rewrite (brk_t_eq s); assumption].
  - intros k' e' b0 Hp. destruct (Da' k' e' b0 Hp) as [Hp0|[Hk|(Hm' & Hs)]].
    + unfold s3 in Hp0. autorewrite with plc in Hp0. destruct (Da k' e' b0 Hp0) as [Hp1|[Hk|(Hm' & Hs)]].
      * unfold t in Hp1. apply placed_add_stmt_inv in Hp1. destruct Hp1 as [Hp1|(-> & -> & ->)]; [left; exact Hp1|].
        right. right. cbn [X mk b_start b_end]. split; [left|left; reflexivity]. lev. rewrite Hb2. reflexivity.
      * right. left. exact Hk.
      * right. right. split; [right; apply in_or_app; left|right; apply in_or_app; left; exact Hs].
        assert (Hb0 : b0 < next s2p) by (apply (placed_lt s2p k' e'); assumption). lev. exact Hm'.
    + right. left. exact Hk.
    + right. right. split; [right; apply in_or_app; right; exact Hm'|right; apply in_or_app; right; exact Hs].
  - intros k' m [Heq|Hin].
    + inversion Heq; subst k' m. right. exists (N.max k (end_block b)), hb. split.
      * apply Dc'. unfold s3. autorewrite with plc. apply Dc. autorewrite with plc. unfold t.
        apply (placed_add_stmt_new s hb X). apply (wb_keys _ Wb). exact Hb1.
      * lev. exact Hb2.
    + apply in_app_or in Hin. destruct Hin as [Hin|Hin].
      * destruct (Db k' m Hin) as [He|(e' & b0 & Hp & Hm')]; [left; apply in_or_app; left; exact He|].
        right. exists e', b0. split; [apply Dc'; unfold s3; autorewrite with plc; exact Hp|].
        assert (Hb0 : b0 < next s2p) by (apply (placed_lt s2p k' e'); assumption). lev. exact Hm'.
      * destruct (Db' k' m Hin) as [He|H]; [left; apply in_or_app; right; exact He|right; exact H].
  - intros k' e' b0 Hp. apply Dc'. unfold s3. autorewrite with plc. apply Dc. autorewrite with plc. unfold t.
    apply placed_add_stmt_mono. exact Hp.
  - intro H3. c03_split H3. rewrite (Cn' H0). unfold s3. cnt_norm. rewrite (Cn H3). unfold t. cnt_norm. cnt_fin.
Qed.

(* ---- the propagation edges of a finally block ---- *)
Lemma cu_in s a b t e : In e (edges (connect_unless s a b t)) -> In e (edges s) \/ e = (a, b, t).
Proof.
  unfold connect_unless. destruct (has_successor s a b); [left; assumption|]. cbn [connect edges]. intro H.
  apply in_app_or in H. destruct H as [H|[H|[]]]; [left; exact H|right; symmetry; exact H].
Qed.
Lemma cu_incl s a b t : incl (edges s) (edges (connect_unless s a b t)).
Proof. unfold connect_unless. destruct (has_successor s a b); [apply incl_refl|]. cbn [connect edges]. apply incl_appl, incl_refl. Qed.
Lemma cu_has s a b t : exists t', In (a, b, t') (edges (connect_unless s a b t)).
Proof.
  unfold connect_unless. destruct (has_successor s a b) eqn:E.
  - unfold has_successor in E. apply existsb_exists in E. destruct E as ([[f v] ty] & Hin & Hb).
    apply andb_true_iff in Hb. destruct Hb as (Hf & Hv). apply N.eqb_eq in Hf. apply N.eqb_eq in Hv. subst. exists ty. exact Hin.
  - exists t. cbn [connect edges]. apply in_or_app. right. left. reflexivity.
Qed.
Lemma cau_in s a l t e : In e (edges (connect_all_unless s a l t)) -> In e (edges s) \/ exists b, In b l /\ e = (a, b, t).
Proof.
  revert s. induction l as [|x r IH]; intros s H; [left; exact H|]. cbn [connect_all_unless] in H.
  destruct (IH _ H) as [H'|(b & Hb & ->)].
  - destruct (cu_in _ _ _ _ _ H') as [H''| ->]; [left; exact H''|right; exists x; split; [left; reflexivity|reflexivity]].
  - right. exists b. split; [right; exact Hb|reflexivity].
Qed.
Lemma cau_incl s a l t : incl (edges s) (edges (connect_all_unless s a l t)).
Proof.
  revert s. induction l as [|x r IH]; intro s; [apply incl_refl|]. cbn [connect_all_unless].
  eapply incl_tran; [apply cu_incl|apply IH].
Qed.

(* the blocks a finally block may propagate to *)
Definition fin_tgt (t4 : st) (v : N) : Prop :=
  v = exit_id \/
  (exists x, In x (tl (excs t4)) /\ (x_finally x = Some v \/ In v (x_handlers x))) \/
  (exists lp, hd_error (loops t4) = Some lp /\ (v = l_exit lp \/ v = l_header lp)).

Lemma fin_prop_edges t4 f :
  let t' := fin_prop t4 f in
  (forall u v t, In (u, v, t) (edges t') -> In (u, v, t) (edges t4) \/ (u = f /\ fin_tgt t4 v)) /\
  incl (edges t4) (edges t') /\
  (exists ty, In (f, match first_finally (tl (excs t4)) with Some o => o | None => exit_id end, ty) (edges t')) /\
  (forall lp, hd_error (loops t4) = Some lp -> (l_excdepth lp <= length (excs t4) - 1)%nat ->
     exists ty, In (f, match first_finally (firstn (length (tl (excs t4)) - l_excdepth lp) (tl (excs t4))) with
                       | Some o => o | None => l_exit lp end, ty) (edges t')).
Proof.
  unfold fin_prop. cbv zeta.
  set (outer := tl (excs t4)).
  set (ro := match first_finally outer with Some o => o | None => exit_id end).
  set (t5 := match first_finally outer with
             | Some o => connect_unless t4 f o EReturn
             | None => connect_unless t4 f exit_id EReturn
             end).
  assert (E5 : t5 = connect_unless t4 f ro EReturn) by (unfold t5, ro; destruct (first_finally outer); reflexivity).
  assert (Hro : fin_tgt t4 ro).
  { unfold ro. destruct (first_finally outer) as [o|] eqn:Eo; [|left; reflexivity].
    destruct (first_finally_in _ _ Eo) as (x & Hx & Hf). right. left. exists x. split; [exact Hx|left; exact Hf]. }
  assert (L5 : loops t5 = loops t4) by (rewrite E5; apply cu_loops).
  assert (X5 : excs t5 = excs t4) by (rewrite E5; apply cu_excs).
  match goal with |- context [connect_unless ?t f _ EException] => set (t6 := t) end.
  assert (H6 : (forall u v t, In (u, v, t) (edges t6) -> In (u, v, t) (edges t4) \/ (u = f /\ fin_tgt t4 v)) /\
               incl (edges t5) (edges t6) /\
               (forall lp, hd_error (loops t4) = Some lp -> (l_excdepth lp <= length (excs t4) - 1)%nat ->
                 exists ty, In (f, match first_finally (firstn (length outer - l_excdepth lp) outer) with
                                   | Some o => o | None => l_exit lp end, ty) (edges t6))).
  { assert (B5 : forall u v t, In (u, v, t) (edges t5) -> In (u, v, t) (edges t4) \/ (u = f /\ fin_tgt t4 v)).
    { intros u v t Hin. rewrite E5 in Hin. destruct (cu_in _ _ _ _ _ Hin) as [H|H]; [left; exact H|]. inversion H; subst. right. split; [reflexivity|exact Hro]. }
    unfold t6. rewrite L5, X5. destruct (loops t4) as [|lp ls] eqn:El.
    - split; [exact B5|]. split; [apply incl_refl|]. intros lp Hlp. discriminate.
    - destruct (Nat.leb (l_excdepth lp) (length (excs t4) - 1)) eqn:Ele.
      + set (bo := match first_finally (firstn (length outer - l_excdepth lp) outer) with Some o => o | None => l_exit lp end).
        set (co := match first_finally (firstn (length outer - l_excdepth lp) outer) with Some o => o | None => l_header lp end).
        assert (E6 : match first_finally (firstn (length outer - l_excdepth lp) outer) with
                     | Some o => connect_unless (connect_unless t5 f o EBreak) f o EContinue
                     | None => connect_unless (connect_unless t5 f (l_exit lp) EBreak) f (l_header lp) EContinue
                     end = connect_unless (connect_unless t5 f bo EBreak) f co EContinue).
        { unfold bo, co. destruct (first_finally (firstn (length outer - l_excdepth lp) outer)); reflexivity. }
        rewrite E6.
        assert (Hbo : fin_tgt t4 bo /\ fin_tgt t4 co).
        { unfold bo, co. destruct (first_finally (firstn (length outer - l_excdepth lp) outer)) as [o|] eqn:Eo.
          - destruct (first_finally_in _ _ Eo) as (x & Hx & Hf). apply firstn_in in Hx.
            split; right; left; exists x; (split; [exact Hx|left; exact Hf]).
          - split; right; right; exists lp; rewrite El; (split; [reflexivity|]); [left|right]; reflexivity. }
        split; [|split].
        * intros u v t Hin. destruct (cu_in _ _ _ _ _ Hin) as [H|H]; [|inversion H; subst; right; split; [reflexivity|apply Hbo]].
          destruct (cu_in _ _ _ _ _ H) as [H'|H']; [apply B5; exact H'|inversion H'; subst; right; split; [reflexivity|apply Hbo]].
        * eapply incl_tran; [apply cu_incl|apply cu_incl].
        * intros lp' Hlp' _. cbn in Hlp'. inversion Hlp'; subst lp'. fold bo.
          destruct (cu_has t5 f bo EBreak) as (ty & Hty). exists ty. apply cu_incl. exact Hty.
      + split; [exact B5|]. split; [apply incl_refl|]. intros lp' Hlp' Hle. cbn in Hlp'. inversion Hlp'; subst lp'.
        apply Nat.leb_gt in Ele. lia. }
  destruct H6 as (B6 & I6 & K6). clearbody t6.
  assert (Hret : exists ty, In (f, ro, ty) (edges t6)).
  { destruct (cu_has t4 f ro EReturn) as (ty & Hty). exists ty. apply I6. rewrite E5. exact Hty. }
  assert (I46 : incl (edges t4) (edges t6)) by (eapply incl_tran; [|exact I6]; rewrite E5; apply cu_incl).
  match goal with |- (forall u v t, In (u, v, t) (edges ?X) -> _) /\ _ => set (tf := X) end.
  assert (Hf : (forall u v t, In (u, v, t) (edges tf) -> In (u, v, t) (edges t6) \/ (u = f /\ fin_tgt t4 v)) /\ incl (edges t6) (edges tf)).
  { unfold tf. destruct (first_finally outer) as [o|] eqn:Eo.
    - split; [|apply cu_incl]. intros u v t Hin. destruct (cu_in _ _ _ _ _ Hin) as [H|H]; [left; exact H|]. inversion H; subst. right. split; [reflexivity|].
      destruct (first_finally_in _ _ Eo) as (x & Hx & Hfx). right. left. exists x. split; [exact Hx|left; exact Hfx].
    - destruct outer as [|oc ocs] eqn:Eou.
      + split; [|apply cu_incl]. intros u v t Hin. destruct (cu_in _ _ _ _ _ Hin) as [H|H]; [left; exact H|]. inversion H; subst. right. split; [reflexivity|left; reflexivity].
      + split; [|apply cau_incl]. intros u v t Hin. destruct (cau_in _ _ _ _ _ Hin) as [H|(b & Hb & H)]; [left; exact H|]. inversion H; subst. right. split; [reflexivity|].
        right. left. exists oc. split; [change (In oc outer); rewrite Eou; left; reflexivity|right; exact Hb]. }
  destruct Hf as (Bf & If). clearbody tf.
  split; [|split; [|split]].
  - intros u v t Hin. destruct (Bf u v t Hin) as [H|H]; [apply B6; exact H|right; exact H].
  - eapply incl_tran; [exact I46|exact If].
  - destruct Hret as (ty & Hty). exists ty. apply If. exact Hty.
  - intros lp Hlp Hle. destruct (K6 lp Hlp Hle) as (ty & Hty). exists ty. apply If. exact Hty.
Qed.

Lemma new_blocks_klt n : forall s, klt s -> klt (snd (new_blocks s n)) /\ length (fst (new_blocks s n)) = n.
Proof.
  induction n as [|n IH]; intros s K; [split; [exact K|reflexivity]|]. cbn [new_blocks]. rewrite new_block_eq.
  destruct (IH (nb s) (klt_nb _ K)) as (H1 & H2). destruct (new_blocks (nb s) n) as [l s2]. cbn [fst snd length] in *.
  split; [exact H1|congruence].
Qed.

(* ---- try: the body and the handlers, with the exception context [ctx] pushed ---- *)
Definition TB_out (s t7 : st) (tryb nat afe : N) (hbs : list N) (l l1 : lam) (body : block) (hs : arms) (s11 : st) (l3 : lam) : Prop :=
  let L := l (cur s) in let rb := flow_block L body in let rh := flow_arms L hs in
  agree (next t7) l1 l3 /\ mid anyb t7 s11 /\ loops s11 = loops t7 /\ excs s11 = excs t7 /\ klt s11 /\ cur s11 < next s11 /\
  next t7 <= next s11 /\
  ((L = true -> ctx_ok l s) -> (rk rb || rk rh = true -> brk_ok l s) -> closed l1 (edges t7) -> closed l3 (edges s11)) /\
  (forall E, incl (edges s11) E -> (L = true -> reach E tryb) ->
     (forall b0, next t7 <= b0 -> b0 < next s11 -> l3 b0 = true -> reach E b0) /\
     (rn rb = true -> reach E nat) /\ (rn rh = true -> reach E afe) /\ (forall h, In h hbs -> L = true -> reach E h) /\
     (rk rb || rk rh = true -> noproc t7 -> forall t0, brk_t t7 = Some t0 -> reach E t0) /\
     (L = true -> rn rb = false -> forall g, Cfin g t7 -> reach E g)) /\
  (forall k e b0, placed s11 k e b0 -> placed t7 k e b0 \/ (k = 0 /\ e = 0) \/
     (In (k, l3 b0) (rmarks rb ++ rmarks rh) /\ In (k, e) (spans_block body ++ spans_arms hs))) /\
  (forall k m, In (k, m) (rmarks rb ++ rmarks rh) -> In k (elif_block body ++ elif_arms hs) \/ exists e b0, placed s11 k e b0 /\ l3 b0 = m) /\
  (forall k e b0, placed t7 k e b0 -> placed s11 k e b0) /\
  (c03_block body = true -> c03_arms hs = true ->
     cntE l3 (edges s11) = (cntE l1 (edges t7) + gate L (arms_length hs) + rcx rb + rcx rh)%nat).

Lemma S_try_body s t7 tryb nat afe hbs finb l l1 inl body hs :
  S_block body -> S_handlers hs -> inv s ->
  mid anyb s t7 -> wfb t7 -> klt t7 -> loops t7 = loops s ->
  excs t7 = {| x_finally := finb; x_handlers := hbs; x_processing := false |} :: excs s ->
  next s <= tryb -> tryb < next t7 -> nat < next t7 -> afe < next t7 -> length hbs = arms_length hs ->
  (forall h, In h hbs -> next s <= h /\ h < next t7 /\ h <> tryb) ->
  (forall f, finb = Some f -> next s <= f /\ f < next t7 /\ f <> tryb /\ ~ In f hbs) ->
  agree (next s) l l1 -> l1 tryb = l (cur s) -> (forall h, In h hbs -> l1 h = l (cur s)) -> (forall f, finb = Some f -> l1 f = l (cur s)) ->
  (rn (flow_block (l (cur s)) body) = true -> l1 nat = true) -> (rn (flow_arms (l (cur s)) hs) = true -> l1 afe = true) ->
  lok_block inl body = true -> lok_arms inl hs = true -> (inl = true -> loops s <> []) ->
  exists l3, TB_out s t7 tryb nat afe hbs l l1 body hs
    (process_handlers' (connect_all (connect (process_block' (set_cur t7 tryb) body)
        (cur (process_block' (set_cur t7 tryb) body)) nat ENormal) tryb hbs EException) hs hbs afe) l3.
Proof.
  intros Sb Sh I M7 Wb7 K7 L7 X7 Ht1 Ht2 Hnat Hafe Hlen Hhb Hfb A1 Hlt Hlh Hlf Hln Hla Hlok1 Hlok2 Hinl.
  set (L := l (cur s)) in *. set (rb := flow_block L body) in *. set (rh := flow_arms L hs) in *.
  pose proof (i_wfb _ I) as Wb. pose proof (m_next _ _ _ M7) as N7.
  set (ctx := {| x_finally := finb; x_handlers := hbs; x_processing := false |}) in *.
  assert (I7 : inv (set_cur t7 tryb)).
  { split; [apply (wfb_mid anyb t7); [apply mid_set_cur, mid_refl_b; exact Wb7|exact Wb7|reflexivity|reflexivity]|exact Ht2|exact K7|].
    autorewrite with bst. rewrite X7. intros x f [<-|Hx] Hp Hf.
    - cbn [ctx x_finally] in Hf. destruct (Hfb f Hf) as (_ & _ & Q & _). exact Q.
    - destruct (wb_fin _ Wb x Hx) as (Q & _). specialize (Q f Hf). flia. }
  assert (Hctx7 : forall l0, agree (next s) l l0 -> l0 tryb = L -> (forall h, In h hbs -> l0 h = L) -> (forall f, finb = Some f -> l0 f = L) ->
                  forall t, loops t = loops t7 -> excs t = excs t7 -> L = true -> ctx_ok l s -> ctx_ok l0 t).
  { intros l0 A0 _ Hh0 Hf0 t Lt Xt HL (Q1 & Q2 & Q3 & Q4). unfold ctx_ok. rewrite Lt, Xt, L7, X7. repeat split.
    - rewrite (A0 exit_id) by (pose proof (wb_two _ Wb); unfold exit_id; flia). exact Q1.
    - intros x f [<-|Hx] Hf; [cbn [ctx x_finally] in Hf; rewrite (Hf0 f Hf); exact HL|].
      destruct (wb_fin _ Wb x Hx) as (Q & _). rewrite (A0 f) by (apply Q; exact Hf). eapply Q2; eauto.
    - intros x h [<-|Hx] Hh'; [cbn [ctx x_handlers] in Hh'; rewrite (Hh0 h Hh'); exact HL|].
      destruct (wb_fin _ Wb x Hx) as (_ & Q). rewrite (A0 h) by (apply Q; exact Hh'). eapply Q3; eauto.
    - intros lp Hlp. destruct (wb_loops _ Wb lp Hlp) as (Q & _). rewrite (A0 _ Q). apply Q4. exact Hlp. }
  destruct (Sb (set_cur t7 tryb) l1 inl I7 Hlok1) as (l2 & A2 & F8 & C8 & So8 & Co8 & Da8 & Db8 & Dc8 & Cn8).
  { autorewrite with bst. rewrite L7. exact Hinl. }
  autorewrite with bst in *. rewrite Hlt in *. fold rb in C8, So8, Co8, Da8, Db8.
  set (s8 := process_block' (set_cur t7 tryb) body) in *.
  pose proof (inv_lframe _ _ I7 F8) as I8. pose proof (lf_curlt _ _ F8) as Hc8.
  pose proof (m_next _ _ _ (lf_mid _ _ F8)) as N8. autorewrite with bst in N8.
  assert (L8 : loops s8 = loops t7) by (rewrite (lf_loops _ _ F8); reflexivity).
  assert (X8 : excs s8 = excs t7) by (rewrite (lf_excs _ _ F8); reflexivity).
  set (s10 := connect_all (connect s8 (cur s8) nat ENormal) tryb hbs EException).
  assert (M10 : mid anyb t7 s10).
  { apply mid_connect_all; [apply mid_connect; [|left; exact Logic.I|exact Hc8|flia]|left; exact Logic.I|uflia|].
    - apply (mid_transA _ anyb t7 (set_cur t7 tryb)); [apply mid_set_cur, mid_refl_b; exact Wb7|apply F8|intros; left; exact Logic.I].
    - intros h Hh'. destruct (Hhb h Hh') as (_ & Q & _). uflia. }
  assert (N10 : next s10 = next s8) by (unfold s10; uflia).
  assert (L10 : loops s10 = loops t7) by (unfold s10; autorewrite with bst; exact L8).
  assert (X10 : excs s10 = excs t7) by (unfold s10; autorewrite with bst; exact X8).
  assert (E10 : edges s10 = (edges s8 ++ [(cur s8, nat, ENormal)]) ++ map (fun x => (tryb, x, EException)) hbs).
  { unfold s10. rewrite edges_connect_all. reflexivity. }
  assert (I10 : inv s10).
  { split; [apply (wfb_mid anyb t7); [exact M10|exact Wb7|exact L10|exact X10]|unfold s10; autorewrite with bst; flia
           |unfold s10; apply klt_connect_all, klt_connect; exact (lf_klt _ _ F8)|].
    rewrite X10. unfold s10. autorewrite with bst. intros x f Hx Hp Hf. pose proof (i_fincur _ I8 x f) as Q. rewrite X8 in Q. exact (Q Hx Hp Hf). }
  destruct (Sh s10 hbs afe l2 L inl I10 Hlen) as (l3 & HO); try assumption; try (rewrite N10; flia).
  { intros h Hh'. destruct (Hhb h Hh') as (Q1 & Q2 & Q3). rewrite N10. split; [flia|]. split; [rewrite (A2 h Q2); apply Hlh; exact Hh'|].
    rewrite X10, X7. intros x f [<-|Hx] Hp Hf.
    - cbn [ctx x_finally] in Hf. destruct (Hfb f Hf) as (_ & _ & _ & Q). intros ->. exact (Q Hh').
    - destruct (wb_fin _ Wb x Hx) as (Q & _). specialize (Q f Hf). flia. }
  { rewrite L10, L7. exact Hinl. }
  fold rh in HO. set (s11 := process_handlers' s10 hs hbs afe) in *.
  destruct HO as (A3 & M11 & L11 & X11 & K11 & N11 & C11 & So11 & Co11 & Da11 & Db11 & Dc11 & Cn11). fold rh in So11, Co11, Da11, Db11.
  rewrite N10 in *.
  assert (Ag2 : agree (next s) l l2) by (intros b0 Hb0; rewrite (A2 b0) by flia; apply A1; exact Hb0).
  exists l3. unfold TB_out. cbv zeta. fold L rb rh.
  split; [intros b0 Hb0; rewrite (A3 b0) by flia; apply A2; exact Hb0|].
  split; [apply (mid_transA _ anyb t7 s10); [exact M10|exact M11|intros; left; exact Logic.I]|].
  split; [congruence|]. split; [congruence|]. split; [exact K11|]. split; [exact C11|]. split; [flia|].
  split; [|split; [|split; [|split; [|split]]]].
  - intros Hctx Hb Cl. apply So11.
    + intro HL. apply (Hctx7 l2); try assumption.
      * rewrite (A2 tryb Ht2). exact Hlt.
      * intros h Hh'. destruct (Hhb h Hh') as (_ & Q & _). rewrite (A2 h Q). apply Hlh. exact Hh'.
      * intros f Hf. destruct (Hfb f Hf) as (_ & Q & _). rewrite (A2 f Q). apply Hlf. exact Hf.
      * apply Hctx. exact HL.
    + intros Hk lp Hlp. rewrite L10, L7 in Hlp.
      assert (Hin : In lp (loops s)) by (destruct (loops s); [discriminate|inversion Hlp; left; reflexivity]).
      destruct (wb_loops _ Wb lp Hin) as (_ & Q & _). rewrite (Ag2 _ Q). apply Hb; [rewrite Hk; apply orb_true_r|exact Hlp].
    + intro Hn. rewrite (A2 afe Hafe). apply Hla. exact Hn.
    + rewrite E10. intros u v t Hin Hu. apply in_app_or in Hin. destruct Hin as [Hin|Hin].
      * revert u v t Hin Hu. fold (closed l2 (edges s8 ++ [(cur s8, nat, ENormal)])). rewrite closed_snoc. split.
        -- apply So8; [| |exact Cl].
           ++ intro HL. apply (Hctx7 l1); try assumption; [reflexivity|reflexivity|apply Hctx; exact HL].
           ++ intros Hk lp Hlp. autorewrite with bst in Hlp. rewrite L7 in Hlp.
              assert (Hin : In lp (loops s)) by (destruct (loops s); [discriminate|inversion Hlp; left; reflexivity]).
              destruct (wb_loops _ Wb lp Hin) as (_ & Q & _). rewrite (A1 _ Q). apply Hb; [rewrite Hk; reflexivity|exact Hlp].
        -- rewrite C8, (A2 nat Hnat). exact Hln.
      * apply in_map_iff in Hin. destruct Hin as (h & Heq & Hh'). injection Heq as <- <- <-. destruct (Hhb h Hh') as (_ & Q & _).
        rewrite (A2 h Q), (Hlh h Hh'). rewrite (A2 tryb Ht2), Hlt in Hu. exact Hu.
  - intros E HE HR.
    assert (HE10 : incl (edges s10) E).
    { destruct (m_edges _ _ _ M11) as (D & ED & _). intros x Hx. apply HE. rewrite ED. apply in_or_app. left. exact Hx. }
    assert (HE8 : incl (edges s8) E) by (intros x Hx; apply HE10; rewrite E10; apply in_or_app; left; apply in_or_app; left; exact Hx).
    destruct (Co8 E HE8 HR) as (P4 & P2 & P3).
    assert (P1 : rn rb = true -> reach E (cur s8)).
    { intro Hn. destruct (lf_cur _ _ F8) as [Q|Q]; autorewrite with bst in Q.
      - rewrite Q. apply HR. apply (rn_block_le _ _ Hn).
      - apply P4; [exact Q|exact Hc8|]. rewrite C8. exact Hn. }
    assert (HRh : forall h, In h hbs -> L = true -> reach E h).
    { intros h Hh' HL. eapply reach_step; [apply HR; exact HL|]. apply HE10. rewrite E10. apply in_or_app. right.
      apply in_map_iff. exists h. split; [reflexivity|exact Hh']. }
    destruct (Co11 E HE HRh) as (P4' & P1' & P2').
    split; [|split; [|split; [|split; [exact HRh|split]]]].
    + intros b0 H1 H2 H3. destruct (N.lt_ge_cases b0 (next s8)) as [Hlt'|Hge].
      * apply P4; [exact H1|exact Hlt'|]. rewrite <- (A3 b0) by flia. exact H3.
      * apply P4'; [exact Hge|exact H2|exact H3].
    + intro Hn. eapply reach_step; [apply P1; exact Hn|]. apply HE10. rewrite E10. apply in_or_app. left. apply in_or_app. right. left. reflexivity.
    + exact P1'.
    + intros Hk Hnp t0 Ht0. apply orb_true_iff in Hk. destruct Hk as [Hk|Hk].
      * apply (P2 Hk); [unfold noproc, in_loop_frames in *; autorewrite with bst; exact Hnp|unfold brk_t, in_loop_frames in *; autorewrite with bst; exact Ht0].
      * apply (P2' Hk); [apply (noproc_eq t7); assumption|rewrite (brk_t_eq t7); assumption].
    + intros HL Hn g Hg. apply (P3 HL Hn g). unfold Cfin in *. autorewrite with bst. exact Hg.
  - intros k e b0 Hp. destruct (Da11 k e b0 Hp) as [Hp0|[Hk|(Hm & Hs)]].
    + unfold s10 in Hp0. autorewrite with plc in Hp0. destruct (Da8 k e b0 Hp0) as [Hp1|[Hk|(Hm & Hs)]].
      * left. autorewrite with plc in Hp1. exact Hp1.
      * right. left. exact Hk.
      * right. right. split; [apply in_or_app; left|apply in_or_app; left; exact Hs].
        assert (Hb0 : b0 < next s8) by (apply (placed_lt s8 k e); assumption). rewrite (A3 b0 Hb0). exact Hm.
    + right. left. exact Hk.
    + right. right. split; apply in_or_app; right; assumption.
  - intros k m Hin. apply in_app_or in Hin. destruct Hin as [Hin|Hin].
    + destruct (Db8 k m Hin) as [He|(e & b0 & Hp & Hm)]; [left; apply in_or_app; left; exact He|].
      right. exists e, b0. split; [apply Dc11; unfold s10; autorewrite with plc; exact Hp|].
      assert (Hb0 : b0 < next s8) by (apply (placed_lt s8 k e); assumption). rewrite (A3 b0 Hb0). exact Hm.
    + destruct (Db11 k m Hin) as [He|H]; [left; apply in_or_app; right; exact He|right; exact H].
  - intros k e b0 Hp. apply Dc11. unfold s10. autorewrite with plc. apply Dc8. autorewrite with plc. exact Hp.
  - intros H3 H4. rewrite (Cn11 H4), E10, cntE_app, cntE_snoc, cntE_map_const. cbn [counted].
    rewrite (Cn8 H3), (A2 tryb Ht2), Hlt, Hlen. cnt_fin.
Qed.

Lemma new_blocks_blocks n : forall s k e b, placed (snd (new_blocks s n)) k e b <-> placed s k e b.
Proof.
  induction n as [|n IH]; intros s k e b; [reflexivity|]. cbn [new_blocks]. rewrite new_block_eq.
  specialize (IH (nb s) k e b). destruct (new_blocks (nb s) n) as [l s2]. cbn [snd] in *. rewrite IH. apply placed_nb.
Qed.

(* the state of a try statement after its blocks are created and its exception context is pushed *)
Lemma try_setup_sim s t5 n finb hbs s6 :
  inv s -> mid anyb s t5 -> klt t5 -> edges t5 = edges s ++ [(cur s, next s, ENormal)] -> loops t5 = loops s -> excs t5 = excs s ->
  (forall k e b, placed t5 k e b <-> placed s k e b) ->
  N.succ (next s) < next t5 -> (forall f, finb = Some f -> f < next t5) -> new_blocks t5 n = (hbs, s6) ->
  let ctx := {| x_finally := finb; x_handlers := hbs; x_processing := false |} in
  let t7 := set_excs s6 (ctx :: excs s6) in
  mid anyb s t7 /\ wfb t7 /\ klt t7 /\ next t7 = next t5 + N.of_nat n /\ loops t7 = loops s /\ excs t7 = ctx :: excs s /\
  edges t7 = edges s ++ [(cur s, next s, ENormal)] /\ length hbs = n /\ (forall h, In h hbs <-> next t5 <= h < next t7) /\
  (forall k e b, placed t7 k e b <-> placed s k e b).
Proof.
  intros I M5 K5 E5 L5 X5 P5 H5 Hf Enb ctx t7. pose proof (i_wfb _ I) as Wb.
  assert (Wb5 : wfb t5) by (apply (wfb_mid _ _ _ M5 Wb); assumption).
  pose proof (new_blocks_spec n t5 Wb5) as Hs. destruct (new_blocks_klt n t5 K5) as (K6 & Hlen).
  pose proof (new_blocks_blocks n t5) as Pb. rewrite Enb in Hs, K6, Hlen, Pb. cbn [fst snd] in Hs, K6, Hlen, Pb.
  destruct Hs as (I1 & I2 & I3 & I4 & I5 & I6 & I7 & I8).
  assert (M7 : mid anyb s t7).
  { apply mid_set_excs. apply (mid_transA _ anyb s t5); [exact M5|apply I6|intros; left; exact Logic.I]. }
  assert (N7 : next t7 = next t5 + N.of_nat n) by exact I1.
  assert (X7 : excs t7 = ctx :: excs s) by (unfold t7; autorewrite with bst; rewrite I4, X5; reflexivity).
  pose proof (m_next _ _ _ M5) as Hn5.
  split; [exact M7|]. split; [|split; [apply klt_set_excs; exact K6|split; [exact N7|split; [|split; [exact X7|split; [|split; [exact Hlen|split]]]]]]].
  - split.
    + pose proof (wb_two _ Wb). lia.
    + apply M7.
    + apply M7.
    + rewrite X7. intros x [<-|Hx].
      * cbn [x_finally x_handlers ctx]. split; [intros f Hfe; specialize (Hf f Hfe); lia|]. intros h Hh. apply I8 in Hh. lia.
      * destruct (wb_fin _ Wb x Hx) as (Q1 & Q2). split; intros; [specialize (Q1 _ H)|specialize (Q2 _ H)]; lia.
    + rewrite X7. unfold t7. autorewrite with bst. rewrite I3, L5. intros lp Hlp.
      destruct (wb_loops _ Wb lp Hlp) as (Q1 & Q2 & Q3). cbn [length]. repeat split; lia.
  - unfold t7. autorewrite with bst. rewrite I3. exact L5.
  - unfold t7. autorewrite with bst. rewrite I5. exact E5.
  - intro h. rewrite N7. apply I8.
  - intros k e b. unfold t7. autorewrite with plc. rewrite Pb. apply P5.
Qed.

(* pushing a (non-processing) exception context *)
Lemma in_loop_push s t7 ctx lp :
  excs t7 = ctx :: excs s -> (l_excdepth lp <= length (excs s))%nat ->
  in_loop_frames t7 lp = ctx :: in_loop_frames s lp.
Proof.
  intros X Hd. unfold in_loop_frames. rewrite X. cbn [length].
  replace (S (length (excs s)) - l_excdepth lp)%nat with (S (length (excs s) - l_excdepth lp)) by lia. reflexivity.
Qed.

Lemma push_noproc s t7 finb hbs :
  wfb s -> loops t7 = loops s -> excs t7 = {| x_finally := finb; x_handlers := hbs; x_processing := false |} :: excs s ->
  noproc s -> noproc t7.
Proof.
  intros Wb L X Hn. unfold noproc in *. rewrite L. destruct (loops s) as [|lp ls] eqn:El; [exact Logic.I|].
  destruct (wb_loops _ Wb lp) as (_ & _ & Hd); [rewrite El; left; reflexivity|].
  rewrite (in_loop_push s t7 _ lp X Hd). intros y [<-|Hy] Hf; [reflexivity|apply Hn; assumption].
Qed.

Lemma push_brk_none s t7 hbs :
  wfb s -> loops t7 = loops s -> excs t7 = {| x_finally := None; x_handlers := hbs; x_processing := false |} :: excs s ->
  brk_t t7 = brk_t s.
Proof.
  intros Wb L X. unfold brk_t. rewrite L. destruct (loops s) as [|lp ls] eqn:El; [reflexivity|].
  destruct (wb_loops _ Wb lp) as (_ & _ & Hd); [rewrite El; left; reflexivity|].
  rewrite (in_loop_push s t7 _ lp X Hd). reflexivity.
Qed.

Lemma push_brk_some s t7 f hbs :
  wfb s -> loops t7 = loops s -> excs t7 = {| x_finally := Some f; x_handlers := hbs; x_processing := false |} :: excs s ->
  loops s <> [] -> brk_t t7 = Some f.
Proof.
  intros Wb L X Hne. unfold brk_t. rewrite L. destruct (loops s) as [|lp ls] eqn:El; [contradiction|].
  destruct (wb_loops _ Wb lp) as (_ & _ & Hd); [rewrite El; left; reflexivity|].
  rewrite (in_loop_push s t7 _ lp X Hd). reflexivity.
Qed.

Lemma push_Cfin_none s t7 hbs g :
  loops t7 = loops s -> excs t7 = {| x_finally := None; x_handlers := hbs; x_processing := false |} :: excs s ->
  Cfin g s -> Cfin g t7.
Proof.
  intros L X (pre & Y & rest & Ex & Hpre & HY & HP & Hd). exists ({| x_finally := None; x_handlers := hbs; x_processing := false |} :: pre), Y, rest.
  rewrite X, Ex, L. split; [reflexivity|]. split; [|split; [exact HY|split; [exact HP|exact Hd]]].
  intros y [<-|Hy]; [reflexivity|apply Hpre; exact Hy].
Qed.

Lemma push_Cfin_some s t7 hbs f :
  wfb s -> loops t7 = loops s -> excs t7 = {| x_finally := Some f; x_handlers := hbs; x_processing := false |} :: excs s ->
  Cfin f t7.
Proof.
  intros Wb L X. exists [], {| x_finally := Some f; x_handlers := hbs; x_processing := false |}, (excs s).
  rewrite X, L. split; [reflexivity|]. split; [intros y []|]. split; [reflexivity|]. split; [reflexivity|].
  intros lp Hlp. assert (Hin : In lp (loops s)) by (destruct (loops s); [discriminate|inversion Hlp; left; reflexivity]).
  apply (wb_loops _ Wb lp Hin).
Qed.

Ltac open_try' :=
  cbn beta iota delta [process_stmt'] fix match; peel_all ident:(p);
  match goal with |- context [new_blocks ?t ?n] =>
    let hbs := fresh "hbs" in let s6 := fresh "s6" in let Enb := fresh "Enb" in
    destruct (new_blocks t n) as [hbs s6] eqn:Enb end;
  cbv beta iota; peel_all ident:(p).

(* labelling of the blocks a try statement creates: everything [L] except the exit block *)
Definition try_lab (s : st) (l : lam) (L X : bool) : lam :=
  fun b => if N.ltb b (next s) then l b else if N.eqb b (N.succ (next s)) then X else L.
Lemma try_lab_old s l L X b : b < next s -> try_lab s l L X b = l b.
Proof. intro H. unfold try_lab. destruct (N.ltb_spec b (next s)); [reflexivity|lia]. Qed.
Lemma try_lab_exit s l L X : try_lab s l L X (N.succ (next s)) = X.
Proof. unfold try_lab. destruct (N.ltb_spec (N.succ (next s)) (next s)); [lia|]. rewrite N.eqb_refl. reflexivity. Qed.
Lemma try_lab_new s l L X b : next s <= b -> b <> N.succ (next s) -> try_lab s l L X b = L.
Proof.
  intros H1 H2. unfold try_lab. destruct (N.ltb_spec b (next s)); [lia|]. destruct (N.eqb_spec b (N.succ (next s))); [contradiction|reflexivity].
Qed.

Lemma S_try_nn k body hs : S_block body -> S_handlers hs -> S_stmt (Try k body hs ONone ONone).
Proof.
  intros Sb Sh s l inl I Hlok Hinl. cbn [lok_stmt lok_oblock] in Hlok. rewrite !andb_true_r in Hlok.
  apply andb_true_iff in Hlok. destruct Hlok as (Hlok1 & Hlok2).
  set (L := l (cur s)).
  open_try'. bsimp.
  pose proof (i_wfb _ I) as Wb. pose proof (i_cur _ I) as Hc. pose proof (wb_two _ Wb) as H2.
  set (t5 := nb (connect (nb s) (cur s) (next s) ENormal)) in *.
  assert (M5 : mid anyb s t5) by (apply mid_nb, mid_connect; [apply mid_nb, mid_refl_b; exact Wb|left; exact Logic.I|uflia|uflia]).
  assert (K5 : klt t5) by (apply klt_nb, klt_connect, klt_nb; exact (i_klt _ I)).
  assert (N5 : next t5 = N.succ (N.succ (next s))) by reflexivity.
  destruct (try_setup_sim s t5 (arms_length hs) None hbs s6 I M5 K5 eq_refl eq_refl eq_refl) as (M7 & Wb7 & K7 & N7 & L7 & X7 & E7 & Hlen & Hh & P7);
    [intros k' e' b; unfold t5; autorewrite with plc; reflexivity|rewrite N5; flia|discriminate|exact Enb|].
  set (t7 := set_excs s6 ({| x_finally := None; x_handlers := hbs; x_processing := false |} :: excs s6)) in *.
  rewrite N5 in *.
  set (rb := flow_block L body). set (rh := flow_arms L hs).
  set (l1 := try_lab s l L (rn rb || rn rh)).
  assert (A1 : agree (next s) l l1) by (intros b Hb; apply try_lab_old; exact Hb).
  subst s8p.
  destruct (S_try_body s t7 (next s) (N.succ (next s)) (N.succ (next s)) hbs None l l1 inl body hs Sb Sh I M7 Wb7 K7 L7 X7) as (l3 & TB);
    try assumption; try flia; try discriminate.
  { intros h Hh'. apply Hh in Hh'. flia. }
  { unfold l1. apply try_lab_new; flia. }
  { intros h Hh'. apply Hh in Hh'. unfold l1. apply try_lab_new; flia. }
  { intro Hn. unfold l1. rewrite try_lab_exit. unfold rb, L. rewrite Hn. reflexivity. }
  { intro Hn. unfold l1. rewrite try_lab_exit. unfold rh, L. rewrite Hn. apply orb_true_r. }
  rewrite <- Es11p in TB.
  destruct TB as (A3 & M11 & L11 & X11 & K11 & C11 & N11 & So & Co & Da & Db & Dc & Cn). fold L rb rh in So, Co, Da, Db.
  rewrite X11, X7. cbn [tl].
  exists l3. split; [intros b Hb; rewrite (A3 b) by flia; apply A1; exact Hb|].
  cbn [flow_stmt flow_oblock opt_n rn rk rmarks spans_stmt spans_oblock elif_stmt elif_oblock]. fold L rb rh. rewrite !orb_false_r, !app_nil_r.
  split; [|split; [|split; [|split; [|split; [|split; [|split]]]]]].
  - apply lframe_mid; autorewrite with bst; try flia.
    + apply mid_set_excs. apply (mid_transA _ anyb s t7); [exact M7|exact M11|intros; left; exact Logic.I].
    + rewrite L11. exact L7.
    + reflexivity.
    + apply klt_set_excs. exact K11.
  - autorewrite with bst. rewrite (A3 (N.succ (next s))) by flia. unfold l1. apply try_lab_exit.
  - intros Hctx Hb Cl. autorewrite with bst. apply So; [exact Hctx|exact Hb|]. rewrite E7, closed_snoc. split.
    + apply (closed_ext l); assumption.
    + unfold l1. rewrite try_lab_old by exact Hc. rewrite try_lab_new by flia. exact (fun H => H).
  - intros E HE HR. autorewrite with bst in HE.
    assert (HRt : L = true -> reach E (next s)).
    { intro HL. eapply reach_step; [apply HR; exact HL|]. apply HE. destruct (m_edges _ _ _ M11) as (D & ED & _). rewrite ED, E7.
      apply in_or_app. left. apply in_or_app. right. left. reflexivity. }
    destruct (Co E HE HRt) as (P4 & P1 & P1h & PH & P2 & P3). autorewrite with bst. split; [|split].
    + intros b Hb1 Hb2 Hb3. destruct (N.lt_ge_cases b (next t7)) as [Hlt|Hge]; [|apply P4; assumption].
      rewrite (A3 b Hlt) in Hb3. destruct (N.eq_dec b (N.succ (next s))) as [->|Hne].
      * unfold l1 in Hb3. rewrite try_lab_exit in Hb3. apply orb_true_iff in Hb3. destruct Hb3 as [Hb3|Hb3]; [apply P1|apply P1h]; exact Hb3.
      * unfold l1 in Hb3. rewrite try_lab_new in Hb3 by assumption.
        destruct (N.eq_dec b (next s)) as [->|Hne']; [apply HRt; exact Hb3|].
        apply PH; [apply Hh; flia|exact Hb3].
    + intros Hk Hnp t0 Ht0. apply (P2 Hk); [apply (push_noproc s t7 None hbs); assumption|rewrite (push_brk_none s t7 hbs); assumption].
    + intros HL Hn g Hg. apply orb_false_iff in Hn. destruct Hn as (Hn & _). apply (P3 HL Hn g). apply (push_Cfin_none s t7 hbs); assumption.
  - intros k' e' b Hp. autorewrite with plc in Hp. destruct (Da k' e' b Hp) as [Hp0|[Hk|Hm]]; [left; apply P7; exact Hp0|right; left; exact Hk|right; right; exact Hm].
  - intros k' m Hin. destruct (Db k' m Hin) as [He|(e' & b & Hp & Hm)].
    + left. exact He.
    + right. exists e', b. split; [autorewrite with plc; exact Hp|exact Hm].
  - intros k' e' b Hp. autorewrite with plc. apply Dc. apply P7. exact Hp.
  - intro H3. cbn [c03_stmt c03_oblock] in H3. rewrite !andb_true_r in H3. apply andb_true_iff in H3. destruct H3 as (H3b & H3h).
    autorewrite with bst. rewrite (Cn H3b H3h), E7. cnt_norm. rewrite (cntE_agree (next s) l l1 _ (wb_bnd _ Wb) A1). cnt_fin.
Qed.

Lemma ctx_push_ok s l l0 t finb hbs p :
  inv s -> agree (next s) l l0 -> (forall h, In h hbs -> l0 h = true) -> (forall f, finb = Some f -> l0 f = true) ->
  loops t = loops s -> excs t = {| x_finally := finb; x_handlers := hbs; x_processing := p |} :: excs s ->
  ctx_ok l s -> ctx_ok l0 t.
Proof.
  intros I A0 Hh0 Hf0 Lt Xt (Q1 & Q2 & Q3 & Q4). pose proof (i_wfb _ I) as Wb. unfold ctx_ok. rewrite Lt, Xt. repeat split.
  - rewrite (A0 exit_id) by (pose proof (wb_two _ Wb); unfold exit_id; lia). exact Q1.
  - intros x f [<-|Hx] Hf; [cbn [x_finally] in Hf; exact (Hf0 f Hf)|].
    destruct (wb_fin _ Wb x Hx) as (Q & _). rewrite (A0 f) by (apply Q; exact Hf). eapply Q2; eauto.
  - intros x h [<-|Hx] Hh'; [cbn [x_handlers] in Hh'; exact (Hh0 h Hh')|].
    destruct (wb_fin _ Wb x Hx) as (_ & Q). rewrite (A0 h) by (apply Q; exact Hh'). eapply Q3; eauto.
  - intros lp Hlp. destruct (wb_loops _ Wb lp Hlp) as (Q & _). rewrite (A0 _ Q). apply Q4. exact Hlp.
Qed.

Lemma brk_push_ok s l l0 t : inv s -> agree (next s) l l0 -> loops t = loops s -> brk_ok l s -> brk_ok l0 t.
Proof.
  intros I A0 Lt B lp Hlp. rewrite Lt in Hlp.
  assert (Hin : In lp (loops s)) by (destruct (loops s); [discriminate|inversion Hlp; left; reflexivity]).
  destruct (wb_loops _ (i_wfb _ I) lp Hin) as (_ & Q & _). rewrite (A0 _ Q). apply B. exact Hlp.
Qed.

Lemma first_finally_noproc xs : (forall y, In y xs -> x_finally y <> None -> x_processing y = false) -> first_finally xs = jump_target xs.
Proof.
  induction xs as [|x r IH]; intro H; [reflexivity|]. cbn [first_finally jump_target].
  assert (IH' : first_finally r = jump_target r) by (apply IH; intros y Hy; apply H; right; exact Hy).
  destruct (x_finally x) as [f|] eqn:Ef.
  - rewrite (H x (or_introl eq_refl)) by (rewrite Ef; discriminate). reflexivity.
  - destruct (x_processing x); exact IH'.
Qed.

Lemma first_finally_Cfin pre X rest f : (forall y, In y pre -> x_finally y = None) -> x_finally X = Some f -> first_finally (pre ++ X :: rest) = Some f.
Proof.
  intros Hpre HX. induction pre as [|y pre IH]; cbn [app first_finally]; [rewrite HX; reflexivity|].
  rewrite (Hpre y (or_introl eq_refl)). apply IH. intros z Hz. apply Hpre. right. exact Hz.
Qed.

Lemma fin_prop_blocks t4 f : blocks (fin_prop t4 f) = blocks t4.
Proof.
  unfold fin_prop. cbv zeta.
  set (t5 := match first_finally (tl (excs t4)) with
             | Some o => connect_unless t4 f o EReturn
             | None => connect_unless t4 f exit_id EReturn
             end).
  assert (B5 : blocks t5 = blocks t4) by (unfold t5; destruct (first_finally _); apply cu_blocks).
  match goal with |- context [connect_unless ?t f _ EException] => set (t6 := t) end.
  assert (B6 : blocks t6 = blocks t4).
  { unfold t6. destruct (loops t5); [exact B5|]. destruct (Nat.leb _ _); [|exact B5].
    destruct (first_finally (firstn _ _)); rewrite !cu_blocks; exact B5. }
  clearbody t6. destruct (first_finally (tl (excs t4))).
  - rewrite cu_blocks. exact B6.
  - destruct (tl (excs t4)); [rewrite cu_blocks; exact B6|]. destruct (cau_proj t6 f (x_handlers e) EException) as (_ & _ & _ & _ & Q).
    rewrite Q. exact B6.
Qed.

(* ---- try: the finally block, its body and its propagation edges ---- *)
Definition TF_out (s s12 : st) (f : N) (hbs : list N) (l l2 : lam) (fb : block) (sF : st) (l3 : lam) : Prop :=
  let L := l (cur s) in let rf := flow_block L fb in let exitb := N.succ (next s) in
  agree (next s12) l2 l3 /\ mid anyb s12 sF /\ loops sF = loops s /\
  excs sF = {| x_finally := Some f; x_handlers := hbs; x_processing := false |} :: excs s /\ klt sF /\ next s12 <= next sF /\
  ((L = true -> ctx_ok l s) -> (L = true -> brk_ok l s) -> closed l2 (edges s12) -> closed l3 (edges sF)) /\
  (forall E, incl (edges sF) E -> (L = true -> reach E f) ->
     (forall b0, next s12 <= b0 -> b0 < next sF -> l3 b0 = true -> reach E b0) /\
     (rn rf = true -> reach E exitb) /\
     (L = true -> noproc s -> forall t0, brk_t s = Some t0 -> reach E t0) /\
     (L = true -> forall g, Cfin g s -> reach E g)) /\
  (forall k e b0, placed sF k e b0 -> placed s12 k e b0 \/ (k = 0 /\ e = 0) \/ (In (k, l3 b0) (rmarks rf) /\ In (k, e) (spans_block fb))) /\
  (forall k m, In (k, m) (rmarks rf) -> In k (elif_block fb) \/ exists e b0, placed sF k e b0 /\ l3 b0 = m) /\
  (forall k e b0, placed s12 k e b0 -> placed sF k e b0).

Lemma S_try_fin s s12 f hbs l l2 inl fb :
  S_block fb -> inv s -> mid anyb s s12 -> klt s12 -> loops s12 = loops s ->
  excs s12 = {| x_finally := Some f; x_handlers := hbs; x_processing := false |} :: excs s ->
  next s <= f -> f < next s12 -> f <> N.succ (next s) -> N.succ (next s) < next s12 -> (forall h, In h hbs -> h < next s12) ->
  agree (next s) l l2 -> l2 f = l (cur s) -> (forall h, In h hbs -> l2 h = l (cur s)) ->
  l2 (N.succ (next s)) = rn (flow_block (l (cur s)) fb) ->
  lok_block inl fb = true -> (inl = true -> loops s <> []) ->
  let t2 := process_block' (set_processing (set_cur s12 f) true) fb in
  let t3 := set_processing t2 false in
  exists l3, TF_out s s12 f hbs l l2 fb (fin_prop (connect t3 (cur t3) (N.succ (next s)) ENormal) f) l3.
Proof.
  intros Sf I M12 K12 L12 X12 Hf1 Hf2 Hf3 Hex Hhb A2 Hlf Hlh Hlx Hlok Hinl.
  set (L := l (cur s)) in *. set (rf := flow_block L fb) in *. set (exitb := N.succ (next s)) in *.
  pose proof (i_wfb _ I) as Wb. pose proof (m_next _ _ _ M12) as N12.
  set (ctxF := {| x_finally := Some f; x_handlers := hbs; x_processing := false |}) in *.
  set (ctxT := {| x_finally := Some f; x_handlers := hbs; x_processing := true |}).
  assert (Esp : set_processing (set_cur s12 f) true = set_cur (set_excs s12 (ctxT :: excs s)) f).
  { rewrite (set_processing_eq (set_cur s12 f) true _ _ X12). reflexivity. }
  rewrite Esp. set (t1 := set_excs s12 (ctxT :: excs s)).
  assert (Wb12 : wfb s12).
  { split; [pose proof (wb_two _ Wb); flia|apply M12|apply M12| |].
    - rewrite X12. intros x [<-|Hx]; [cbn [ctxF x_finally x_handlers]; split; [intros g Hg; inversion Hg; subst; exact Hf2|exact Hhb]|].
      destruct (wb_fin _ Wb x Hx) as (Q1 & Q2). split; intros; [specialize (Q1 _ H)|specialize (Q2 _ H)]; flia.
    - rewrite X12, L12. intros lp Hlp. destruct (wb_loops _ Wb lp Hlp) as (Q1 & Q2 & Q3). cbn [length]. repeat split; flia. }
  assert (It1 : inv (set_cur t1 f)).
  { split; [|exact Hf2|apply klt_set_cur, klt_set_excs; exact K12|].
    - pose proof (wfb_set_proc s12 true _ _ Wb12 X12) as Q. cbn [ctxF x_finally x_handlers] in Q.
      apply (wfb_mid anyb t1); [apply mid_set_cur, mid_refl_b; exact Q|exact Q|reflexivity|reflexivity].
    - unfold t1. autorewrite with bst. intros x g [<-|Hx] Hp Hg; [discriminate|].
      destruct (wb_fin _ Wb x Hx) as (Q & _). specialize (Q g Hg). flia. }
  destruct (Sf (set_cur t1 f) l2 inl It1 Hlok) as (l3 & A3 & F & C & So & Co & Da & Db & Dc).
  { unfold t1. autorewrite with bst. rewrite L12. exact Hinl. }
  autorewrite with bst in *. rewrite Hlf in *. fold rf in C, So, Co, Da, Db.
  intros t2 t3. fold t1 in t2. fold t2 in A3, F, C, So, Co, Da, Db, Dc.
  assert (Nt1 : next t1 = next s12) by reflexivity. rewrite Nt1 in *.
  pose proof (inv_lframe _ _ It1 F) as I2. pose proof (lf_curlt _ _ F) as Hc2.
  pose proof (m_next _ _ _ (lf_mid _ _ F)) as N2. unfold t1 in N2. autorewrite with bst in N2.
  assert (L2 : loops t2 = loops s) by (rewrite (lf_loops _ _ F); unfold t1; autorewrite with bst; exact L12).
  assert (X2 : excs t2 = ctxT :: excs s) by (rewrite (lf_excs _ _ F); reflexivity).
  assert (E3 : t3 = set_excs t2 (ctxF :: excs s)).
  { unfold t3. rewrite (set_processing_eq t2 false _ _ X2). reflexivity. }
  rewrite E3. clear E3 t3. set (t3 := set_excs t2 (ctxF :: excs s)).
  set (t4 := connect t3 (cur t3) exitb ENormal).
  assert (M2 : mid anyb s12 t2).
  { apply (mid_transA _ anyb s12 (set_cur t1 f)); [apply mid_set_cur, mid_set_excs, mid_refl_b; exact Wb12|apply F|intros; left; exact Logic.I]. }
  assert (M4 : mid anyb s12 t4).
  { apply mid_connect; [apply mid_set_excs; exact M2|left; exact Logic.I|unfold t3; autorewrite with bst; exact Hc2|unfold t3; autorewrite with bst; flia]. }
  assert (Wb4 : wfb t4).
  { pose proof (wfb_set_proc t2 false _ _ (i_wfb _ I2) X2) as Q. cbn [ctxT x_finally x_handlers] in Q.
    apply (wfb_mid anyb t3); [apply mid_connect; [apply mid_refl_b; exact Q|left; exact Logic.I|unfold t3; autorewrite with bst; exact Hc2|unfold t3; autorewrite with bst; flia]
                             |exact Q|reflexivity|reflexivity]. }
  assert (N4 : next t4 = next t2) by reflexivity.
  destruct (fin_prop_spec t4 f Wb4) as (M5 & N5 & C5 & L5 & X5); [rewrite N4; flia|].
  destruct (fin_prop_edges t4 f) as (Ed & Inc & Ret & Brk).
  set (sF := fin_prop t4 f) in *.
  assert (X4 : excs t4 = ctxF :: excs s) by reflexivity.
  assert (L4 : loops t4 = loops s) by (unfold t4, t3; autorewrite with bst; exact L2).
  exists l3. unfold TF_out. cbv zeta. fold L rf exitb ctxF.
  split; [exact A3|]. split; [apply (mid_transA _ anyb s12 t4); [exact M4|apply (mid_weaken (eq f)); [intros; left; exact Logic.I|exact M5]|intros; left; exact Logic.I]|].
  split; [rewrite L5; exact L4|]. split; [rewrite X5; exact X4|].
  split; [|split; [rewrite N5, N4; flia|split; [|split; [|split; [|split]]]]].
  - apply (klt_eq t4); [unfold sF; rewrite fin_prop_blocks; reflexivity|rewrite N5; apply N.le_refl|].
    unfold t4, t3. apply klt_connect, klt_set_excs. exact (lf_klt _ _ F).
  - intros Hctx Hbk Cl u v ty Hin Hu. destruct (Ed u v ty Hin) as [Hin'|(-> & Ht)].
    + clear Hin. revert u v ty Hin' Hu. fold (closed l3 (edges t4)). unfold t4. autorewrite with bst. rewrite closed_snoc. split.
      * apply So; [| |exact Cl].
        -- intro HL. apply (ctx_push_ok s l l2 (set_cur t1 f) (Some f) hbs true I A2); [| |unfold t1; autorewrite with bst; exact L12|reflexivity|apply Hctx; exact HL].
           ++ intros h Hh. rewrite (Hlh h Hh). exact HL.
           ++ intros g Hg. inversion Hg; subst. rewrite Hlf. exact HL.
        -- intro Hk. apply (brk_push_ok s l l2); [exact I|exact A2|unfold t1; autorewrite with bst; exact L12|apply Hbk; apply (rk_block_le _ _ Hk)].
      * unfold t3. autorewrite with bst. rewrite C. rewrite (A3 exitb) by (unfold exitb; flia). rewrite Hlx. exact (fun H => H).
    + rewrite (A3 f Hf2), Hlf in Hu. destruct (Hctx Hu) as (Q1 & Q2 & Q3 & Q4). pose proof (Hbk Hu) as Qb.
      assert (Hv : v < next s /\ l v = true).
      { destruct Ht as [->|[(x & Hx & [Hxf|Hxh])|(lp & Hlp & [-> | ->])]].
        - split; [pose proof (wb_two _ Wb); unfold exit_id; flia|exact Q1].
        - rewrite X4 in Hx. cbn [tl] in Hx. destruct (wb_fin _ Wb x Hx) as (R & _). split; [apply R; exact Hxf|eapply Q2; eauto].
        - rewrite X4 in Hx. cbn [tl] in Hx. destruct (wb_fin _ Wb x Hx) as (_ & R). split; [apply R; exact Hxh|eapply Q3; eauto].
        - rewrite L4 in Hlp. assert (Hin2 : In lp (loops s)) by (destruct (loops s); [discriminate|inversion Hlp; left; reflexivity]).
          destruct (wb_loops _ Wb lp Hin2) as (_ & R & _). split; [exact R|apply Qb; exact Hlp].
        - rewrite L4 in Hlp. assert (Hin2 : In lp (loops s)) by (destruct (loops s); [discriminate|inversion Hlp; left; reflexivity]).
          destruct (wb_loops _ Wb lp Hin2) as (R & _). split; [exact R|apply Q4; exact Hin2]. }
      destruct Hv as (Hv1 & Hv2). rewrite (A3 v) by flia. rewrite (A2 v Hv1). exact Hv2.
  - intros E HE HR.
    assert (HE4 : incl (edges t4) E) by (eapply incl_tran; [exact Inc|exact HE]).
    assert (HE2 : incl (edges t2) E) by (intros x Hx; apply HE4; unfold t4, t3; autorewrite with bst; apply in_or_app; left; exact Hx).
    destruct (Co E HE2 HR) as (P4 & P2 & P3).
    assert (P1 : rn rf = true -> reach E (cur t2)).
    { intro Hn. destruct (lf_cur _ _ F) as [Q|Q]; autorewrite with bst in Q.
      - rewrite Q. apply HR. apply (rn_block_le _ _ Hn).
      - apply P4; [unfold t1 in Q; autorewrite with bst in Q; exact Q|exact Hc2|]. rewrite C. exact Hn. }
    rewrite N5, N4. split; [exact P4|]. split; [|split].
    + intro Hn. eapply reach_step; [apply P1; exact Hn|]. apply HE4. unfold t4, t3. autorewrite with bst. apply in_or_app. right. left. reflexivity.
    + intros HL Hnp t0 Ht0. unfold brk_t in Ht0. destruct (loops s) as [|lp ls] eqn:El; [discriminate|]. inversion Ht0; subst t0.
      destruct (wb_loops _ Wb lp) as (_ & _ & Hd); [try rewrite El; left; reflexivity|].
      destruct (Brk lp) as (ty & Hty); [rewrite L4; reflexivity|rewrite X4; cbn [length]; flia|].
      rewrite X4 in Hty. cbn [tl] in Hty. fold (in_loop_frames s lp) in Hty.
      unfold noproc in Hnp. rewrite El in Hnp. rewrite (first_finally_noproc _ Hnp) in Hty.
      eapply reach_step; [apply HR; exact HL|]. apply HE. exact Hty.
    + intros HL g (pre & Y & rest & Ex & Hpre & HY & _). destruct Ret as (ty & Hty). rewrite X4 in Hty. cbn [tl] in Hty.
      rewrite Ex, (first_finally_Cfin pre Y rest g Hpre HY) in Hty. eapply reach_step; [apply HR; exact HL|]. apply HE. exact Hty.
  - intros k e b0 Hp. rewrite (placed_blocks_eq t4 sF) in Hp by apply fin_prop_blocks. unfold t4, t3 in Hp. autorewrite with plc in Hp.
    destruct (Da k e b0 Hp) as [Hp0|[Hk|Hm]]; [left; unfold t1 in Hp0; autorewrite with plc in Hp0; exact Hp0|right; left; exact Hk|right; right; exact Hm].
  - intros k m Hin. destruct (Db k m Hin) as [He|(e & b0 & Hp & Hm)]; [left; exact He|]. right. exists e, b0. split; [|exact Hm].
    rewrite (placed_blocks_eq t4 sF) by apply fin_prop_blocks. unfold t4, t3. autorewrite with plc. exact Hp.
  - intros k e b0 Hp. rewrite (placed_blocks_eq t4 sF) by apply fin_prop_blocks. unfold t4, t3. autorewrite with plc. apply Dc.
    unfold t1. autorewrite with plc. exact Hp.
Qed.

Lemma S_try_ns k body hs fb : S_block body -> S_handlers hs -> S_block fb -> S_stmt (Try k body hs ONone (OSome fb)).
Proof.
  intros Sb Sh Sf s l inl I Hlok Hinl. cbn [lok_stmt lok_oblock] in Hlok. rewrite !andb_true_r in Hlok.
  apply andb_true_iff in Hlok. destruct Hlok as (Hlok & Hlok3). apply andb_true_iff in Hlok. destruct Hlok as (Hlok1 & Hlok2).
  set (L := l (cur s)).
  open_try'. bsimp.
  pose proof (i_wfb _ I) as Wb. pose proof (i_cur _ I) as Hc. pose proof (wb_two _ Wb) as H2.
  set (f := N.succ (N.succ (next s))) in *.
  set (t5 := nb (nb (connect (nb s) (cur s) (next s) ENormal))) in *.
  assert (M5 : mid anyb s t5) by (apply mid_nb, mid_nb, mid_connect; [apply mid_nb, mid_refl_b; exact Wb|left; exact Logic.I|uflia|uflia]).
  assert (K5 : klt t5) by (apply klt_nb, klt_nb, klt_connect, klt_nb; exact (i_klt _ I)).
  assert (N5 : next t5 = N.succ (N.succ (N.succ (next s)))) by reflexivity.
  destruct (try_setup_sim s t5 (arms_length hs) (Some f) hbs s6 I M5 K5 eq_refl eq_refl eq_refl) as (M7 & Wb7 & K7 & N7 & L7 & X7 & E7 & Hlen & Hh & P7);
    [intros k' e' b; unfold t5; autorewrite with plc; reflexivity|rewrite N5; flia|intros g Hg; inversion Hg; subst g; rewrite N5; unfold f; flia|exact Enb|].
  set (t7 := set_excs s6 ({| x_finally := Some f; x_handlers := hbs; x_processing := false |} :: excs s6)) in *.
  rewrite N5 in *.
  set (rb := flow_block L body). set (rh := flow_arms L hs). set (rf := flow_block L fb).
  set (l1 := try_lab s l L (rn rf)).
  assert (A1 : agree (next s) l l1) by (intros b Hb; apply try_lab_old; exact Hb).
  subst s8p.
  destruct (S_try_body s t7 (next s) f f hbs (Some f) l l1 inl body hs Sb Sh I M7 Wb7 K7 L7 X7) as (l3 & TB);
    try assumption; try (unfold f; flia).
  { intros h Hh'. apply Hh in Hh'. flia. }
  { intros g Hg. inversion Hg; subst g. unfold f. repeat split; try flia. intro Hin. apply Hh in Hin. flia. }
  { unfold l1. apply try_lab_new; flia. }
  { intros h Hh'. apply Hh in Hh'. unfold l1. apply try_lab_new; flia. }
  { intros g Hg. inversion Hg; subst g. unfold l1. apply try_lab_new; unfold f; flia. }
  { intro Hn. unfold l1. rewrite try_lab_new by (unfold f; flia). apply (rn_block_le _ _ Hn). }
  { intro Hn. unfold l1. rewrite try_lab_new by (unfold f; flia). apply (rn_arms_le _ _ Hn). }
  rewrite <- Es11p in TB.
  destruct TB as (A3 & M11 & L11 & X11 & K11 & C11 & N11 & So & Co & Da & Db & Dc & Cn). fold L rb rh in So, Co, Da, Db.
  assert (M11' : mid anyb s s11p) by (apply (mid_transA _ anyb s t7); [exact M7|exact M11|intros; left; exact Logic.I]).
  destruct (S_try_fin s s11p f hbs l l3 inl fb Sf I M11' K11) as (l4 & TF); try assumption; try (unfold f; flia).
  { rewrite L11. exact L7. }
  { rewrite X11. exact X7. }
  { intros h Hh'. apply Hh in Hh'. flia. }
  { intros b Hb. rewrite (A3 b) by flia. apply A1. exact Hb. }
  { rewrite (A3 f) by (unfold f; flia). unfold l1. apply try_lab_new; unfold f; flia. }
  { intros h Hh'. apply Hh in Hh'. rewrite (A3 h) by flia. unfold l1. apply try_lab_new; flia. }
  { rewrite (A3 (N.succ (next s))) by flia. unfold l1. apply try_lab_exit. }
  cbv zeta in TF. rewrite <- Et2p in TF.
  set (sF := fin_prop (connect (set_processing t2p false) (cur (set_processing t2p false)) (N.succ (next s)) ENormal) f) in *.
  destruct TF as (A4 & MF & LF & XF & KF & NF & SoF & CoF & DaF & DbF & DcF). fold L rf in SoF, CoF, DaF, DbF.
  rewrite XF. cbn [tl].
  exists l4. split; [intros b Hb; rewrite (A4 b) by flia; rewrite (A3 b) by flia; apply A1; exact Hb|].
  cbn [flow_stmt flow_oblock opt_n rn rk rmarks spans_stmt spans_oblock elif_stmt elif_oblock]. fold L rb rh rf. rewrite !app_nil_l.
  split; [|split; [|split; [|split; [|split; [|split; [|split]]]]]].
  - apply lframe_mid; autorewrite with bst; try flia.
    + apply mid_set_excs. apply (mid_transA _ anyb s s11p); [exact M11'|exact MF|intros; left; exact Logic.I].
    + exact LF.
    + reflexivity.
    + apply klt_set_excs. exact KF.
  - autorewrite with bst. rewrite (A4 (N.succ (next s))) by flia. rewrite (A3 (N.succ (next s))) by flia. unfold l1. apply try_lab_exit.
  - intros Hctx Hb Cl. autorewrite with bst. apply SoF; [exact Hctx|exact Hb|]. apply So; [exact Hctx| |].
    + intro Hk. apply Hb. apply orb_true_iff in Hk. destruct Hk as [Hk|Hk]; [apply (rk_block_le _ _ Hk)|apply (rk_arms_le _ _ Hk)].
    + rewrite E7, closed_snoc. split; [apply (closed_ext l); assumption|].
      unfold l1. rewrite try_lab_old by exact Hc. rewrite try_lab_new by flia. exact (fun H => H).
  - intros E HE HR. autorewrite with bst in HE.
    assert (HE11 : incl (edges s11p) E).
    { destruct (m_edges _ _ _ MF) as (D & ED & _). intros x Hx. apply HE. rewrite ED. apply in_or_app. left. exact Hx. }
    assert (HRt : L = true -> reach E (next s)).
    { intro HL. eapply reach_step; [apply HR; exact HL|]. apply HE11. destruct (m_edges _ _ _ M11) as (D & ED & _). rewrite ED, E7.
      apply in_or_app. left. apply in_or_app. right. left. reflexivity. }
    destruct (Co E HE11 HRt) as (P4 & P1 & P1h & PH & P2 & P3).
    assert (HRf : L = true -> reach E f).
    { intro HL. destruct (rn rb) eqn:Erb; [apply P1; reflexivity|]. apply (P3 HL eq_refl f). apply (push_Cfin_some s t7 hbs f); assumption. }
    destruct (CoF E HE HRf) as (P4F & P1F & P2F & P3F).
    autorewrite with bst. split; [|split].
    + intros b Hb1 Hb2 Hb3. destruct (N.lt_ge_cases b (next s11p)) as [Hlt11|Hge11]; [|apply P4F; assumption].
      rewrite (A4 b Hlt11) in Hb3.
      destruct (N.lt_ge_cases b (next t7)) as [Hlt|Hge]; [|apply P4; assumption].
      rewrite (A3 b Hlt) in Hb3. destruct (N.eq_dec b (N.succ (next s))) as [->|Hne].
      * unfold l1 in Hb3. rewrite try_lab_exit in Hb3. apply P1F. exact Hb3.
      * unfold l1 in Hb3. rewrite try_lab_new in Hb3 by assumption.
        destruct (N.eq_dec b (next s)) as [->|Hne']; [apply HRt; exact Hb3|].
        destruct (N.eq_dec b f) as [->|Hne'']; [apply HRf; exact Hb3|].
        apply PH; [apply Hh; unfold f in *; flia|exact Hb3].
    + exact P2F.
    + intros HL _ g Hg. apply (P3F HL g Hg).
  - intros k' e' b Hp. autorewrite with plc in Hp. destruct (DaF k' e' b Hp) as [Hp0|[Hk|(Hm & Hs)]].
    + destruct (Da k' e' b Hp0) as [Hp1|[Hk|(Hm & Hs)]]; [left; apply P7; exact Hp1|right; left; exact Hk|].
      right. right. split; [|rewrite app_assoc; apply in_or_app; left; exact Hs].
      assert (Hb : b < next s11p).
      { destruct Hp0 as (lst & y & Hin & _). apply K11. unfold haskey. apply in_map_iff. exists (b, lst). split; [reflexivity|exact Hin]. }
      rewrite (A4 b Hb). rewrite app_assoc. apply in_or_app. left. exact Hm.
    + right. left. exact Hk.
    + right. right. split; [rewrite app_assoc; apply in_or_app; right; exact Hm|rewrite app_assoc; apply in_or_app; right; exact Hs].
  - intros k' m Hin. rewrite app_assoc in Hin. apply in_app_or in Hin. destruct Hin as [Hin|Hin].
    + destruct (Db k' m Hin) as [He|(e' & b & Hp & Hm)]; [left; rewrite app_assoc; apply in_or_app; left; exact He|].
      right. exists e', b. split; [autorewrite with plc; apply DcF; exact Hp|].
      assert (Hb : b < next s11p).
      { destruct Hp as (lst & y & Hin' & _). apply K11. unfold haskey. apply in_map_iff. exists (b, lst). split; [reflexivity|exact Hin']. }
      rewrite (A4 b Hb). exact Hm.
    + destruct (DbF k' m Hin) as [He|(e' & b & Hp & Hm)]; [left; rewrite app_assoc; apply in_or_app; right; exact He|].
      right. exists e', b. split; [autorewrite with plc; exact Hp|exact Hm].
  - intros k' e' b Hp. autorewrite with plc. apply DcF, Dc. apply P7. exact Hp.
  - intro H3. cbn [c03_stmt] in H3. rewrite andb_false_r in H3. discriminate.
Qed.

(* ---- try: the else block (entered when the body ends normally) ---- *)
Definition TE_out (s s11 : st) (elseb afe : N) (Le : bool) (l l3 : lam) (eb : block) (s12 : st) (l4 : lam) : Prop :=
  let re := flow_block Le eb in
  agree (next s11) l3 l4 /\ mid anyb s11 s12 /\ loops s12 = loops s11 /\ excs s12 = excs s11 /\ klt s12 /\ next s11 <= next s12 /\
  ((Le = true -> ctx_ok l s) -> (rk re = true -> brk_ok l s) -> (rn re = true -> l3 afe = true) -> closed l3 (edges s11) -> closed l4 (edges s12)) /\
  (forall E, incl (edges s12) E -> (Le = true -> reach E elseb) ->
     (forall b0, next s11 <= b0 -> b0 < next s12 -> l4 b0 = true -> reach E b0) /\
     (rn re = true -> reach E afe) /\
     (rk re = true -> noproc s11 -> forall t0, brk_t s11 = Some t0 -> reach E t0) /\
     (Le = true -> rn re = false -> forall g, Cfin g s11 -> reach E g)) /\
  (forall k e b0, placed s12 k e b0 -> placed s11 k e b0 \/ (k = 0 /\ e = 0) \/ (In (k, l4 b0) (rmarks re) /\ In (k, e) (spans_block eb))) /\
  (forall k m, In (k, m) (rmarks re) -> In k (elif_block eb) \/ exists e b0, placed s12 k e b0 /\ l4 b0 = m) /\
  (forall k e b0, placed s11 k e b0 -> placed s12 k e b0) /\
  (c03_block eb = true -> cntE l4 (edges s12) = (cntE l3 (edges s11) + rcx re)%nat).

Lemma S_try_else s s11 elseb afe finb hbs l l3 inl eb :
  S_block eb -> inv s -> mid anyb s s11 -> klt s11 -> loops s11 = loops s ->
  excs s11 = {| x_finally := finb; x_handlers := hbs; x_processing := false |} :: excs s ->
  next s <= elseb -> elseb < next s11 -> afe < next s11 -> (forall h, In h hbs -> h < next s11) ->
  (forall f, finb = Some f -> f < next s11 /\ f <> elseb) ->
  agree (next s) l l3 -> (l3 elseb = true -> (forall h, In h hbs -> l3 h = true) /\ (forall f, finb = Some f -> l3 f = true)) ->
  lok_block inl eb = true -> (inl = true -> loops s <> []) ->
  let t1 := process_block' (set_cur s11 elseb) eb in
  exists l4, TE_out s s11 elseb afe (l3 elseb) l l3 eb (connect t1 (cur t1) afe ENormal) l4.
Proof.
  intros Se I M11 K11 L11 X11 He1 He2 Hafe Hhb Hfb A3 Hlab Hlok Hinl.
  set (Le := l3 elseb) in *. set (re := flow_block Le eb).
  pose proof (i_wfb _ I) as Wb. pose proof (m_next _ _ _ M11) as N11.
  assert (Wb11 : wfb s11).
  { split; [pose proof (wb_two _ Wb); flia|apply M11|apply M11| |].
    - rewrite X11. intros x [<-|Hx]; [cbn [x_finally x_handlers]; split; [intros g Hg; apply (Hfb g Hg)|exact Hhb]|].
      destruct (wb_fin _ Wb x Hx) as (Q1 & Q2). split; intros; [specialize (Q1 _ H)|specialize (Q2 _ H)]; flia.
    - rewrite X11, L11. intros lp Hlp. destruct (wb_loops _ Wb lp Hlp) as (Q1 & Q2 & Q3). cbn [length]. repeat split; flia. }
  assert (I11 : inv (set_cur s11 elseb)).
  { split; [apply (wfb_mid anyb s11); [apply mid_set_cur, mid_refl_b; exact Wb11|exact Wb11|reflexivity|reflexivity]|exact He2|exact K11|].
    autorewrite with bst. rewrite X11. intros x g [<-|Hx] Hp Hg; [cbn [x_finally] in Hg; apply (Hfb g Hg)|].
    destruct (wb_fin _ Wb x Hx) as (Q & _). specialize (Q g Hg). flia. }
  destruct (Se (set_cur s11 elseb) l3 inl I11 Hlok) as (l4 & A4 & F & C & So & Co & Da & Db & Dc & Cn).
  { autorewrite with bst. rewrite L11. exact Hinl. }
  autorewrite with bst in *. fold Le re in C, So, Co, Da, Db.
  intro t1. fold t1 in A4, F, C, So, Co, Da, Db, Dc, Cn.
  pose proof (lf_curlt _ _ F) as Hc1. pose proof (m_next _ _ _ (lf_mid _ _ F)) as N1. autorewrite with bst in N1.
  exists l4. unfold TE_out. cbv zeta. fold Le re. autorewrite with bst.
  split; [exact A4|]. split; [|split; [rewrite (lf_loops _ _ F); reflexivity|split; [rewrite (lf_excs _ _ F); reflexivity|split; [apply klt_connect; exact (lf_klt _ _ F)|split; [exact N1|]]]]].
  { apply mid_connect; [|left; exact Logic.I|exact Hc1|flia].
    apply (mid_transA _ anyb s11 (set_cur s11 elseb)); [apply mid_set_cur, mid_refl_b; exact Wb11|apply F|intros; left; exact Logic.I]. }
  split; [|split; [|split; [|split; [|split]]]].
  - intros Hctx Hb Hmg Cl. rewrite closed_snoc. split.
    + apply So; [| |exact Cl].
      * intro HL. destruct (Hlab HL) as (Q1 & Q2). apply (ctx_push_ok s l l3 (set_cur s11 elseb) finb hbs false I A3 Q1 Q2); [exact L11|exact X11|apply Hctx; exact HL].
      * intro Hk. apply (brk_push_ok s l l3); [exact I|exact A3|exact L11|apply Hb; exact Hk].
    + rewrite C. rewrite (A4 afe Hafe). exact Hmg.
  - intros E HE HR.
    assert (HE1 : incl (edges t1) E) by (intros x Hx; apply HE; apply in_or_app; left; exact Hx).
    destruct (Co E HE1 HR) as (P4 & P2 & P3).
    assert (P1 : rn re = true -> reach E (cur t1)).
    { intro Hn. destruct (lf_cur _ _ F) as [Q|Q]; autorewrite with bst in Q.
      - rewrite Q. apply HR. apply (rn_block_le _ _ Hn).
      - apply P4; [exact Q|exact Hc1|]. rewrite C. exact Hn. }
    split; [exact P4|]. split; [|split].
    + intro Hn. eapply reach_step; [apply P1; exact Hn|]. apply HE. apply in_or_app. right. left. reflexivity.
    + intros Hk Hnp t0 Ht0. apply (P2 Hk); [unfold noproc, in_loop_frames in *; autorewrite with bst; exact Hnp|unfold brk_t, in_loop_frames in *; autorewrite with bst; exact Ht0].
    + intros HL Hn g Hg. apply (P3 HL Hn g). unfold Cfin in *. autorewrite with bst. exact Hg.
  - intros k e b0 Hp. autorewrite with plc in Hp. destruct (Da k e b0 Hp) as [Hp0|[Hk|Hm]]; [left; autorewrite with plc in Hp0; exact Hp0|right; left; exact Hk|right; right; exact Hm].
  - intros k m Hin. destruct (Db k m Hin) as [He|(e & b0 & Hp & Hm)]; [left; exact He|]. right. exists e, b0. split; [autorewrite with plc; exact Hp|exact Hm].
  - intros k e b0 Hp. autorewrite with plc. apply Dc. autorewrite with plc. exact Hp.
  - intro H3. cnt_norm. rewrite (Cn H3). fold Le re. cnt_fin.
Qed.

Lemma S_try_sn k body hs eb : S_block body -> S_handlers hs -> S_block eb -> S_stmt (Try k body hs (OSome eb) ONone).
Proof.
  intros Sb Sh Se s l inl I Hlok Hinl. cbn [lok_stmt lok_oblock] in Hlok. rewrite !andb_true_r in Hlok.
  apply andb_true_iff in Hlok. destruct Hlok as (Hlok & Hlok3). apply andb_true_iff in Hlok. destruct Hlok as (Hlok1 & Hlok2).
  set (L := l (cur s)).
  open_try'. bsimp.
  pose proof (i_wfb _ I) as Wb. pose proof (i_cur _ I) as Hc. pose proof (wb_two _ Wb) as H2.
  set (elseb := N.succ (N.succ (next s))) in *.
  set (t5 := nb (nb (connect (nb s) (cur s) (next s) ENormal))) in *.
  assert (M5 : mid anyb s t5) by (apply mid_nb, mid_nb, mid_connect; [apply mid_nb, mid_refl_b; exact Wb|left; exact Logic.I|uflia|uflia]).
  assert (K5 : klt t5) by (apply klt_nb, klt_nb, klt_connect, klt_nb; exact (i_klt _ I)).
  assert (N5 : next t5 = N.succ (N.succ (N.succ (next s)))) by reflexivity.
  destruct (try_setup_sim s t5 (arms_length hs) None hbs s6 I M5 K5 eq_refl eq_refl eq_refl) as (M7 & Wb7 & K7 & N7 & L7 & X7 & E7 & Hlen & Hh & P7);
    [intros k' e' b; unfold t5; autorewrite with plc; reflexivity|rewrite N5; flia|discriminate|exact Enb|].
  set (t7 := set_excs s6 ({| x_finally := None; x_handlers := hbs; x_processing := false |} :: excs s6)) in *.
  rewrite N5 in *.
  set (rb := flow_block L body). set (rh := flow_arms L hs). set (re := flow_block (rn rb) eb).
  set (l1 := upd (try_lab s l L (rn re || rn rh)) elseb (rn rb)).
  assert (A1 : agree (next s) l l1).
  { intros b Hb. unfold l1. rewrite upd_other by (unfold elseb; flia). apply try_lab_old. exact Hb. }
  assert (Hl1n : forall b, next s <= b -> b <> N.succ (next s) -> b <> elseb -> l1 b = L).
  { intros b Q1 Q2 Q3. unfold l1. rewrite upd_other by exact Q3. apply try_lab_new; assumption. }
  assert (Hl1x : l1 (N.succ (next s)) = rn re || rn rh).
  { unfold l1. rewrite upd_other by (unfold elseb; flia). apply try_lab_exit. }
  assert (Hl1e : l1 elseb = rn rb) by (unfold l1; apply upd_same).
  subst s8p.
  destruct (S_try_body s t7 (next s) elseb (N.succ (next s)) hbs None l l1 inl body hs Sb Sh I M7 Wb7 K7 L7 X7) as (l3 & TB);
    try assumption; try (unfold elseb; flia); try discriminate.
  { intros h Hh'. apply Hh in Hh'. flia. }
  { apply Hl1n; unfold elseb; flia. }
  { intros h Hh'. apply Hh in Hh'. apply Hl1n; unfold elseb; flia. }
  { intro Hn. rewrite Hl1e. exact Hn. }
  { intro Hn. rewrite Hl1x. fold L rh. unfold rh, L. rewrite Hn. apply orb_true_r. }
  rewrite <- Es11p in TB.
  destruct TB as (A3 & M11 & L11 & X11 & K11 & C11 & N11 & So & Co & Da & Db & Dc & Cn). fold L rb rh in So, Co, Da, Db.
  assert (M11' : mid anyb s s11p) by (apply (mid_transA _ anyb s t7); [exact M7|exact M11|intros; left; exact Logic.I]).
  assert (Hl3e : l3 elseb = rn rb) by (rewrite (A3 elseb) by (unfold elseb; flia); exact Hl1e).
  destruct (S_try_else s s11p elseb (N.succ (next s)) None hbs l l3 inl eb Se I M11' K11) as (l4 & TE); try assumption; try (unfold elseb; flia); try discriminate.
  { rewrite L11. exact L7. }
  { rewrite X11. exact X7. }
  { intros h Hh'. apply Hh in Hh'. flia. }
  { intros b Hb. rewrite (A3 b) by flia. apply A1. exact Hb. }
  { rewrite Hl3e. intro Hn. split; [|discriminate]. intros h Hh'. apply Hh in Hh'. rewrite (A3 h) by flia.
    rewrite Hl1n by (unfold elseb; flia). apply (rn_block_le _ _ Hn). }
  cbv zeta in TE. rewrite <- Et1p in TE. rewrite Hl3e in TE.
  set (s12 := connect t1p (cur t1p) (N.succ (next s)) ENormal) in *.
  destruct TE as (A4 & M12 & L12 & X12 & K12 & N12 & SoE & CoE & DaE & DbE & DcE & CnE). fold re in SoE, CoE, DaE, DbE.
  assert (Xt1 : excs t1p = excs t7) by (rewrite <- X11; exact X12). rewrite Xt1, X7. cbn [tl].
  exists l4. split; [intros b Hb; rewrite (A4 b) by flia; rewrite (A3 b) by flia; apply A1; exact Hb|].
  cbn [flow_stmt flow_oblock opt_n rn rk rmarks spans_stmt spans_oblock elif_stmt elif_oblock]. fold L rb rh re. rewrite !app_nil_r.
  split; [|split; [|split; [|split; [|split; [|split; [|split]]]]]].
  - apply lframe_mid; autorewrite with bst; try flia.
    + apply mid_set_excs. apply (mid_transA _ anyb s s11p); [exact M11'|exact M12|intros; left; exact Logic.I].
    + rewrite L12, L11. exact L7.
    + reflexivity.
    + apply klt_set_excs. exact K12.
  - autorewrite with bst. rewrite (A4 (N.succ (next s))) by flia. rewrite (A3 (N.succ (next s))) by flia. exact Hl1x.
  - intros Hctx Hb Cl. autorewrite with bst. apply SoE.
    + intro Hn. apply Hctx. apply (rn_block_le _ _ Hn).
    + intro Hk. apply Hb. rewrite Hk. apply orb_true_r.
    + intro Hn. rewrite (A3 (N.succ (next s))) by flia. rewrite Hl1x, Hn. reflexivity.
    + apply So; [exact Hctx| |].
      * intro Hk. apply Hb. rewrite Hk. reflexivity.
      * rewrite E7, closed_snoc. split; [apply (closed_ext l); assumption|].
        rewrite (A1 _ Hc). rewrite Hl1n by (unfold elseb; flia). exact (fun H => H).
  - intros E HE HR. autorewrite with bst in HE.
    assert (HE11 : incl (edges s11p) E).
    { destruct (m_edges _ _ _ M12) as (D & ED & _). intros x Hx. apply HE. rewrite ED. apply in_or_app. left. exact Hx. }
    assert (HRt : L = true -> reach E (next s)).
    { intro HL. eapply reach_step; [apply HR; exact HL|]. apply HE11. destruct (m_edges _ _ _ M11) as (D & ED & _). rewrite ED, E7.
      apply in_or_app. left. apply in_or_app. right. left. reflexivity. }
    destruct (Co E HE11 HRt) as (P4 & P1 & P1h & PH & P2 & P3).
    destruct (CoE E HE P1) as (P4E & P1E & P2E & P3E).
    autorewrite with bst. split; [|split].
    + intros b Hb1 Hb2 Hb3. destruct (N.lt_ge_cases b (next s11p)) as [Hlt11|Hge11]; [|apply P4E; assumption].
      rewrite (A4 b Hlt11) in Hb3.
      destruct (N.lt_ge_cases b (next t7)) as [Hlt|Hge]; [|apply P4; assumption].
      rewrite (A3 b Hlt) in Hb3. destruct (N.eq_dec b (N.succ (next s))) as [->|Hne].
      * rewrite Hl1x in Hb3. apply orb_true_iff in Hb3. destruct Hb3 as [Hb3|Hb3]; [apply P1E|apply P1h]; exact Hb3.
      * destruct (N.eq_dec b elseb) as [->|Hne2]; [rewrite Hl1e in Hb3; apply P1; exact Hb3|].
        rewrite Hl1n in Hb3 by assumption.
        destruct (N.eq_dec b (next s)) as [->|Hne']; [apply HRt; exact Hb3|].
        apply PH; [apply Hh; unfold elseb in *; flia|exact Hb3].
    + intros Hk Hnp t0 Ht0. apply orb_true_iff in Hk. destruct Hk as [Hk|Hk].
      * apply (P2 Hk); [apply (push_noproc s t7 None hbs); assumption|rewrite (push_brk_none s t7 hbs); assumption].
      * apply (P2E Hk); [apply (noproc_eq t7); [exact L11|exact X11|apply (push_noproc s t7 None hbs); assumption]|].
        rewrite (brk_t_eq t7 s11p L11 X11). rewrite (push_brk_none s t7 hbs); assumption.
    + intros HL Hn g Hg. apply orb_false_iff in Hn. destruct Hn as (Hn & _).
      assert (Hg7 : Cfin g t7) by (apply (push_Cfin_none s t7 hbs); assumption).
      destruct (rn rb) eqn:Erb.
      * apply (P3E eq_refl Hn g). apply (Cfin_eq g t7); assumption.
      * apply (P3 HL eq_refl g Hg7).
  - intros k' e' b Hp. autorewrite with plc in Hp. destruct (DaE k' e' b Hp) as [Hp0|[Hk|(Hm & Hs)]].
    + destruct (Da k' e' b Hp0) as [Hp1|[Hk|(Hm & Hs)]]; [left; apply P7; exact Hp1|right; left; exact Hk|].
      right. right. split; [|rewrite app_assoc; apply in_or_app; left; exact Hs].
      assert (Hb : b < next s11p).
      { destruct Hp0 as (lst & y & Hin & _). apply K11. unfold haskey. apply in_map_iff. exists (b, lst). split; [reflexivity|exact Hin]. }
      rewrite (A4 b Hb). rewrite app_assoc. apply in_or_app. left. exact Hm.
    + right. left. exact Hk.
    + right. right. split; [rewrite app_assoc; apply in_or_app; right; exact Hm|rewrite app_assoc; apply in_or_app; right; exact Hs].
  - intros k' m Hin. rewrite app_assoc in Hin. apply in_app_or in Hin. destruct Hin as [Hin|Hin].
    + destruct (Db k' m Hin) as [He|(e' & b & Hp & Hm)]; [left; rewrite app_assoc; apply in_or_app; left; exact He|].
      right. exists e', b. split; [autorewrite with plc; apply DcE; exact Hp|].
      assert (Hb : b < next s11p).
      { destruct Hp as (lst & y & Hin' & _). apply K11. unfold haskey. apply in_map_iff. exists (b, lst). split; [reflexivity|exact Hin']. }
      rewrite (A4 b Hb). exact Hm.
    + destruct (DbE k' m Hin) as [He|(e' & b & Hp & Hm)]; [left; rewrite app_assoc; apply in_or_app; right; exact He|].
      right. exists e', b. split; [autorewrite with plc; exact Hp|exact Hm].
  - intros k' e' b Hp. autorewrite with plc. apply DcE, Dc. apply P7. exact Hp.
  - intro H3. cbn [c03_stmt c03_oblock] in H3. rewrite andb_true_r in H3. apply andb_true_iff in H3. destruct H3 as (H3 & H3e).
    apply andb_true_iff in H3. destruct H3 as (H3b & H3h).
    autorewrite with bst. rewrite (CnE H3e), (Cn H3b H3h), E7. cnt_norm. rewrite (cntE_agree (next s) l l1 _ (wb_bnd _ Wb) A1). cnt_fin.
Qed.

Ltac fl2 := repeat match goal with x := _ : N |- _ => progress unfold x in * end; flia.
Lemma S_try_ss k body hs eb fb : S_block body -> S_handlers hs -> S_block eb -> S_block fb -> S_stmt (Try k body hs (OSome eb) (OSome fb)).
Proof.
  intros Sb Sh Se Sf s l inl I Hlok Hinl. cbn [lok_stmt lok_oblock] in Hlok.
  apply andb_true_iff in Hlok. destruct Hlok as (Hlok & Hlok4). apply andb_true_iff in Hlok. destruct Hlok as (Hlok & Hlok3).
  apply andb_true_iff in Hlok. destruct Hlok as (Hlok1 & Hlok2).
  set (L := l (cur s)).
  cbn beta iota delta [process_stmt'] fix match. peel_all ident:(p).
  match goal with |- context [new_blocks ?t ?n] => destruct (new_blocks t n) as [hbs s6] eqn:Enb end.
  cbv beta iota. repeat peel_step_fin2 ident:(p) (N.succ (N.succ (next s))). bsimp.
  pose proof (i_wfb _ I) as Wb. pose proof (i_cur _ I) as Hc. pose proof (wb_two _ Wb) as H2.
  set (f := N.succ (N.succ (next s))) in *. set (elseb := N.succ f) in *.
  set (t5 := nb (nb (nb (connect (nb s) (cur s) (next s) ENormal)))) in *.
  assert (M5 : mid anyb s t5) by (apply mid_nb, mid_nb, mid_nb, mid_connect; [apply mid_nb, mid_refl_b; exact Wb|left; exact Logic.I|uflia|uflia]).
  assert (K5 : klt t5) by (apply klt_nb, klt_nb, klt_nb, klt_connect, klt_nb; exact (i_klt _ I)).
  assert (N5 : next t5 = N.succ (N.succ (N.succ (N.succ (next s))))) by reflexivity.
  destruct (try_setup_sim s t5 (arms_length hs) (Some f) hbs s6 I M5 K5 eq_refl eq_refl eq_refl) as (M7 & Wb7 & K7 & N7 & L7 & X7 & E7 & Hlen & Hh & P7);
    [intros k' e' b; unfold t5; autorewrite with plc; reflexivity|rewrite N5; flia|intros g Hg; inversion Hg; subst g; rewrite N5; unfold f; flia|exact Enb|].
  set (t7 := set_excs s6 ({| x_finally := Some f; x_handlers := hbs; x_processing := false |} :: excs s6)) in *.
  rewrite N5 in *.
  set (rb := flow_block L body). set (rh := flow_arms L hs). set (re := flow_block (rn rb) eb). set (rf := flow_block L fb).
  set (l1 := upd (try_lab s l L (rn rf)) elseb (rn rb)).
  assert (A1 : agree (next s) l l1).
  { intros b Hb. unfold l1. rewrite upd_other by fl2. apply try_lab_old. exact Hb. }
  assert (Hl1n : forall b, next s <= b -> b <> N.succ (next s) -> b <> elseb -> l1 b = L).
  { intros b Q1 Q2 Q3. unfold l1. rewrite upd_other by exact Q3. apply try_lab_new; assumption. }
  assert (Hl1x : l1 (N.succ (next s)) = rn rf).
  { unfold l1. rewrite upd_other by fl2. apply try_lab_exit. }
  assert (Hl1e : l1 elseb = rn rb) by (unfold l1; apply upd_same).
  subst s8p.
  destruct (S_try_body s t7 (next s) elseb f hbs (Some f) l l1 inl body hs Sb Sh I M7 Wb7 K7 L7 X7) as (l3 & TB);
    try assumption; try fl2.
  { intros h Hh'. apply Hh in Hh'. flia. }
  { intros g Hg. inversion Hg; subst g. repeat split; try fl2. intro Hin. apply Hh in Hin. flia. }
  { apply Hl1n; fl2. }
  { intros h Hh'. apply Hh in Hh'. apply Hl1n; fl2. }
  { intros g Hg. inversion Hg; subst g. apply Hl1n; fl2. }
  { intro Hn. rewrite Hl1e. exact Hn. }
  { intro Hn. rewrite Hl1n by fl2. apply (rn_arms_le _ _ Hn). }
  rewrite <- Es11p in TB.
  destruct TB as (A3 & M11 & L11 & X11 & K11 & C11 & N11 & So & Co & Da & Db & Dc & Cn). fold L rb rh in So, Co, Da, Db.
  assert (M11' : mid anyb s s11p) by (apply (mid_transA _ anyb s t7); [exact M7|exact M11|intros; left; exact Logic.I]).
  assert (Hl3e : l3 elseb = rn rb) by (rewrite (A3 elseb) by fl2; exact Hl1e).
  assert (Hl3n : forall b, next s <= b -> b < next t7 -> b <> N.succ (next s) -> b <> elseb -> l3 b = L).
  { intros b Q1 Q2 Q3 Q4. rewrite (A3 b Q2). apply Hl1n; assumption. }
  destruct (S_try_else s s11p elseb f (Some f) hbs l l3 inl eb Se I M11' K11) as (l4 & TE); try assumption; try fl2.
  { rewrite L11. exact L7. }
  { rewrite X11. exact X7. }
  { intros h Hh'. apply Hh in Hh'. flia. }
  { intros g Hg. inversion Hg; subst g. split; fl2. }
  { intros b Hb. rewrite (A3 b) by flia. apply A1. exact Hb. }
  { rewrite Hl3e. intro Hn. pose proof (rn_block_le _ _ Hn) as HL. split.
    - intros h Hh'. apply Hh in Hh'. rewrite Hl3n by fl2. exact HL.
    - intros g Hg. inversion Hg; subst g. rewrite Hl3n by fl2. exact HL. }
  cbv zeta in TE. rewrite <- Et1p in TE. rewrite Hl3e in TE.
  set (s12 := connect t1p (cur t1p) f ENormal) in *.
  destruct TE as (A4 & M12 & L12 & X12 & K12 & N12 & SoE & CoE & DaE & DbE & DcE & CnE). fold re in SoE, CoE, DaE, DbE.
  assert (M12' : mid anyb s s12) by (apply (mid_transA _ anyb s s11p); [exact M11'|exact M12|intros; left; exact Logic.I]).
  assert (N12' : next s12 = next t1p) by reflexivity.
  destruct (S_try_fin s s12 f hbs l l4 inl fb Sf I M12' K12) as (l5 & TF); try assumption; try fl2.
  { rewrite L12, L11. exact L7. }
  { rewrite X12, X11. exact X7. }
  { intros h Hh'. apply Hh in Hh'. flia. }
  { intros b Hb. rewrite (A4 b) by flia. rewrite (A3 b) by flia. apply A1. exact Hb. }
  { rewrite (A4 f) by fl2. apply Hl3n; fl2. }
  { intros h Hh'. apply Hh in Hh'. rewrite (A4 h) by flia. apply Hl3n; fl2. }
  { rewrite (A4 (N.succ (next s))) by flia. rewrite (A3 (N.succ (next s))) by flia. exact Hl1x. }
  cbv zeta in TF.
  rewrite <- Et2p in TF.
  set (sF := fin_prop (connect (set_processing t2p false) (cur (set_processing t2p false)) (N.succ (next s)) ENormal) f) in *.
  destruct TF as (A5 & MF & LF & XF & KF & NF & SoF & CoF & DaF & DbF & DcF). fold L rf in SoF, CoF, DaF, DbF.
  rewrite XF. cbn [tl].
  exists l5. split; [intros b Hb; rewrite (A5 b) by flia; rewrite (A4 b) by flia; rewrite (A3 b) by flia; apply A1; exact Hb|].
  cbn [flow_stmt flow_oblock opt_n rn rk rmarks spans_stmt spans_oblock elif_stmt elif_oblock]. fold L rb rh re rf.
  split; [|split; [|split; [|split; [|split; [|split; [|split]]]]]].
  - apply lframe_mid; autorewrite with bst; try flia.
    + apply mid_set_excs. apply (mid_transA _ anyb s s12); [exact M12'|exact MF|intros; left; exact Logic.I].
    + exact LF.
    + reflexivity.
    + apply klt_set_excs. exact KF.
  - autorewrite with bst. rewrite (A5 (N.succ (next s))) by flia. rewrite (A4 (N.succ (next s))) by flia. rewrite (A3 (N.succ (next s))) by flia. exact Hl1x.
  - intros Hctx Hb Cl. autorewrite with bst. apply SoF; [exact Hctx|exact Hb|]. apply SoE.
    + intro Hn. apply Hctx. apply (rn_block_le _ _ Hn).
    + intro Hk. apply Hb. apply (rn_block_le L body). apply (rk_block_le _ _ Hk).
    + intro Hn. rewrite Hl3n by fl2. apply (rn_block_le L body). apply (rn_block_le _ _ Hn).
    + apply So; [exact Hctx| |].
      * intro Hk. apply Hb. apply orb_true_iff in Hk. destruct Hk as [Hk|Hk]; [apply (rk_block_le _ _ Hk)|apply (rk_arms_le _ _ Hk)].
      * rewrite E7, closed_snoc. split; [apply (closed_ext l); assumption|].
        rewrite (A1 _ Hc). rewrite Hl1n by fl2. exact (fun H => H).
  - intros E HE HR. autorewrite with bst in HE.
    assert (HE12 : incl (edges s12) E).
    { destruct (m_edges _ _ _ MF) as (D & ED & _). intros x Hx. apply HE. rewrite ED. apply in_or_app. left. exact Hx. }
    assert (HE11 : incl (edges s11p) E).
    { destruct (m_edges _ _ _ M12) as (D & ED & _). intros x Hx. apply HE12. rewrite ED. apply in_or_app. left. exact Hx. }
    assert (HRt : L = true -> reach E (next s)).
    { intro HL. eapply reach_step; [apply HR; exact HL|]. apply HE11. destruct (m_edges _ _ _ M11) as (D & ED & _). rewrite ED, E7.
      apply in_or_app. left. apply in_or_app. right. left. reflexivity. }
    destruct (Co E HE11 HRt) as (P4 & P1 & P1h & PH & P2 & P3).
    destruct (CoE E HE12 P1) as (P4E & P1E & P2E & P3E).
    assert (HRf : L = true -> reach E f).
    { intro HL. assert (Hf7 : Cfin f t7) by (apply (push_Cfin_some s t7 hbs f); assumption).
      destruct (rn rb) eqn:Erb; [|apply (P3 HL eq_refl f Hf7)].
      destruct (rn re) eqn:Ere; [apply P1E; reflexivity|]. apply (P3E eq_refl eq_refl f). apply (Cfin_eq f t7); assumption. }
    destruct (CoF E HE HRf) as (P4F & P1F & P2F & P3F).
    autorewrite with bst. split; [|split].
    + intros b Hb1 Hb2 Hb3. destruct (N.lt_ge_cases b (next s12)) as [Hlt12|Hge12]; [|apply P4F; assumption].
      rewrite (A5 b Hlt12) in Hb3.
      destruct (N.lt_ge_cases b (next s11p)) as [Hlt11|Hge11]; [|apply P4E; assumption].
      rewrite (A4 b Hlt11) in Hb3.
      destruct (N.lt_ge_cases b (next t7)) as [Hlt|Hge]; [|apply P4; assumption].
      rewrite (A3 b Hlt) in Hb3. destruct (N.eq_dec b (N.succ (next s))) as [->|Hne].
      * rewrite Hl1x in Hb3. apply P1F. exact Hb3.
      * destruct (N.eq_dec b elseb) as [->|Hne2]; [rewrite Hl1e in Hb3; apply P1; exact Hb3|].
        rewrite Hl1n in Hb3 by assumption.
        destruct (N.eq_dec b (next s)) as [->|Hne']; [apply HRt; exact Hb3|].
        destruct (N.eq_dec b f) as [->|Hne'']; [apply HRf; exact Hb3|].
        apply PH; [apply Hh; unfold elseb, f in *; flia|exact Hb3].
    + exact P2F.
    + intros HL _ g Hg. apply (P3F HL g Hg).
  - intros k' e' b Hp. autorewrite with plc in Hp. destruct (DaF k' e' b Hp) as [Hp0|[Hk|(Hm & Hs)]].
    + destruct (DaE k' e' b Hp0) as [Hp1|[Hk|(Hm & Hs)]].
      * destruct (Da k' e' b Hp1) as [Hp2|[Hk|(Hm & Hs)]]; [left; apply P7; exact Hp2|right; left; exact Hk|].
        right. right. split; [|rewrite app_assoc; apply in_or_app; left; exact Hs].
        assert (Hb : b < next s11p).
        { destruct Hp1 as (lst & y & Hin & _). apply K11. unfold haskey. apply in_map_iff. exists (b, lst). split; [reflexivity|exact Hin]. }
        rewrite (A5 b) by flia. rewrite (A4 b Hb). rewrite app_assoc. apply in_or_app. left. exact Hm.
      * right. left. exact Hk.
      * right. right.
        assert (Hb : b < next s12).
        { destruct Hp0 as (lst & y & Hin & _). apply K12. unfold haskey. apply in_map_iff. exists (b, lst). split; [reflexivity|exact Hin]. }
        split; [rewrite (A5 b Hb)|]; do 2 (apply in_or_app; right); apply in_or_app; left; assumption.
    + right. left. exact Hk.
    + right. right. split; do 3 (apply in_or_app; right); assumption.
  - intros k' m Hin. rewrite app_assoc in Hin. apply in_app_or in Hin. destruct Hin as [Hin|Hin].
    + destruct (Db k' m Hin) as [He|(e' & b & Hp & Hm)]; [left; rewrite app_assoc; apply in_or_app; left; exact He|].
      right. exists e', b. split; [autorewrite with plc; apply DcF, DcE; exact Hp|].
      assert (Hb : b < next s11p).
      { destruct Hp as (lst & y & Hin' & _). apply K11. unfold haskey. apply in_map_iff. exists (b, lst). split; [reflexivity|exact Hin']. }
      rewrite (A5 b) by flia. rewrite (A4 b Hb). exact Hm.
    + apply in_app_or in Hin. destruct Hin as [Hin|Hin].
      * destruct (DbE k' m Hin) as [He|(e' & b & Hp & Hm)]; [left; do 2 (apply in_or_app; right); apply in_or_app; left; exact He|].
        right. exists e', b. split; [autorewrite with plc; apply DcF; exact Hp|].
        assert (Hb : b < next s12).
        { destruct Hp as (lst & y & Hin' & _). apply K12. unfold haskey. apply in_map_iff. exists (b, lst). split; [reflexivity|exact Hin']. }
        rewrite (A5 b Hb). exact Hm.
      * destruct (DbF k' m Hin) as [He|(e' & b & Hp & Hm)]; [left; do 3 (apply in_or_app; right); exact He|].
        right. exists e', b. split; [autorewrite with plc; exact Hp|exact Hm].
  - intros k' e' b Hp. autorewrite with plc. apply DcF, DcE, Dc. apply P7. exact Hp.
  - intro H3. cbn [c03_stmt] in H3. rewrite andb_false_r in H3. discriminate.
Qed.

Definition S_arms (a : arms) : Prop := S_elif a /\ S_handlers a /\ S_cases a.

Lemma S_elif_nil : S_elif ANil.
Proof. intros els merge s l inl _ _ _ H. exfalso. apply H. reflexivity. Qed.

Theorem S_all :
  (forall x, S_stmt x) /\ (forall b, S_block b) /\ (forall a, S_arms a) /\ (forall o, S_oblock o).
Proof.
  apply ast_mutind.
  - intro k. apply (S_simple_like (Simple k) k); [reflexivity|reflexivity|left; reflexivity].
  - intro k. apply (S_simple_like (Pass k) k); [reflexivity|reflexivity|left; reflexivity].
  - exact S_return.
  - exact S_raise.
  - exact S_break.
  - exact S_continue.
  - intros k body Sb elifs Sa els Se. destruct elifs as [|k1 b1 rest].
    + destruct els as [|eb]; [apply S_if_nil_none; exact Sb|apply S_if_nil_some; [exact Sb|exact Se]].
    + apply S_if_elif; [exact Sb|apply Sa|exact Se].
  - intros k body Sb els Se. destruct els as [|eb]; [apply S_while_none; exact Sb|apply S_while_some; [exact Sb|exact Se]].
  - intros k body Sb els Se. destruct els as [|eb]; [apply S_for_none; exact Sb|apply S_for_some; [exact Sb|exact Se]].
  - intros k body Sb hs Sh els Se fin Sf. destruct Sh as (_ & Sh & _).
    destruct els as [|eb]; destruct fin as [|fb].
    + apply S_try_nn; assumption.
    + apply S_try_ns; assumption.
    + apply S_try_sn; assumption.
    + apply S_try_ss; assumption.
  - intros k body Sb. apply S_with; exact Sb.
  - intros k cases Sc. apply S_match. apply Sc.
  - intros k cl. apply S_comp.
  - intros k nm body _. apply (S_simple_like (Def k nm body) k); [reflexivity|reflexivity|left; reflexivity].
  - intros k nm body Sb. apply S_class; exact Sb.
  - exact S_block_nil.
  - intros x Sx b Sb. apply S_block_cons; assumption.
  - split; [exact S_elif_nil|split; [exact S_handlers_nil|exact S_cases_nil]].
  - intros k b Sb a (Sa1 & Sa2 & Sa3). split; [apply S_elif_cons; assumption|split; [apply S_handlers_cons; assumption|apply S_cases_cons; assumption]].
  - exact Logic.I.
  - intros b Sb. exact Sb.
Qed.
