(* Renumbered bodies (ids = source-order "line numbers"): the ids between the header of a statement and its last line
   are exactly the ids nested in it, and if Flow marks the header dead it marks all of them dead. *)
From Coq Require Import NArith List Bool Arith Lia ZifyBool ZifyNat ZifyN.
From PV Require Import Py.PyAST Cfg.Flow Cfg.FlowSpec Cfg.FlowComplete Cfg.Builder Cfg.BuilderBounded Cfg.BuilderSim.
Import ListNotations.
Local Open Scope N_scope.

Definition RC (n n' : N) (M : list (N * bool)) (S : list (N * N)) : Prop :=
  (forall k m, In (k, m) M -> n <= k /\ k < n') /\
  (forall k e, In (k, e) S -> n <= k /\ k <= e /\ e < n') /\
  (forall k e, In (k, e) S -> In (k, false) M -> forall k' m', In (k', m') M -> k <= k' -> k' <= e -> m' = false).

Lemma RC_nil n n' : RC n n' [] [].
Proof. repeat split; intros; contradiction. Qed.

Lemma RC_weaken n n' a a' M S : RC n n' M S -> a <= n -> n' <= a' -> RC a a' M S.
Proof.
  intros (H1 & H2 & H3) Ha Ha'. split; [|split; [|exact H3]].
  - intros k m Hin. specialize (H1 k m Hin). lia.
  - intros k e Hin. specialize (H2 k e Hin). lia.
Qed.

Lemma RC_app n a n' M1 S1 M2 S2 : RC n a M1 S1 -> RC a n' M2 S2 -> n <= a -> a <= n' -> RC n n' (M1 ++ M2) (S1 ++ S2).
Proof.
  intros (A1 & A2 & A3) (B1 & B2 & B3) H1 H2. split; [|split].
  - intros k m Hin. apply in_app_or in Hin. destruct Hin as [Hin|Hin]; [specialize (A1 k m Hin)|specialize (B1 k m Hin)]; lia.
  - intros k e Hin. apply in_app_or in Hin. destruct Hin as [Hin|Hin]; [specialize (A2 k e Hin)|specialize (B2 k e Hin)]; lia.
  - intros k e Hs Hm k' m' Hin Hk1 Hk2. apply in_app_or in Hs. destruct Hs as [Hs|Hs].
    + destruct (A2 k e Hs) as (Q1 & Q2 & Q3).
      assert (Hm1 : In (k, false) M1) by (apply in_app_or in Hm; destruct Hm as [Hm|Hm]; [exact Hm|specialize (B1 _ _ Hm); lia]).
      assert (Hin1 : In (k', m') M1) by (apply in_app_or in Hin; destruct Hin as [Hin|Hin]; [exact Hin|specialize (B1 _ _ Hin); lia]).
      exact (A3 k e Hs Hm1 k' m' Hin1 Hk1 Hk2).
    + destruct (B2 k e Hs) as (Q1 & Q2 & Q3).
      assert (Hm2 : In (k, false) M2) by (apply in_app_or in Hm; destruct Hm as [Hm|Hm]; [specialize (A1 _ _ Hm); lia|exact Hm]).
      assert (Hin2 : In (k', m') M2) by (apply in_app_or in Hin; destruct Hin as [Hin|Hin]; [specialize (A1 _ _ Hin); lia|exact Hin]).
      exact (B3 k e Hs Hm2 k' m' Hin2 Hk1 Hk2).
Qed.

(* a header [n] with its own mark but no span of its own (elif tests) *)
Lemma RC_mark n n' L M S : RC (N.succ n) n' M S -> n < n' -> RC n n' ((n, L) :: M) S.
Proof.
  intros (A1 & A2 & A3) Hn. split; [|split].
  - intros k m [Heq|Hin]; [inversion Heq; subst; lia|specialize (A1 k m Hin); lia].
  - intros k e Hin. specialize (A2 k e Hin). lia.
  - intros k e Hs Hm k' m' Hin Hk1 Hk2. destruct (A2 k e Hs) as (Q1 & Q2 & Q3).
    assert (Hm1 : In (k, false) M) by (destruct Hm as [Heq|Hm]; [inversion Heq; subst; lia|exact Hm]).
    assert (Hin1 : In (k', m') M) by (destruct Hin as [Heq|Hin]; [inversion Heq; subst; lia|exact Hin]).
    exact (A3 k e Hs Hm1 k' m' Hin1 Hk1 Hk2).
Qed.

(* a header [n] with span [n .. e] *)
Lemma RC_hdr n n' e L M S : RC (N.succ n) n' M S -> n <= e -> e < n' -> (L = false -> all_false M) -> RC n n' ((n, L) :: M) ((n, e) :: S).
Proof.
  intros R He1 He2 Hd. destruct (RC_mark n n' L M S R ltac:(lia)) as (A1 & A2 & A3). destruct R as (R1 & R2 & R3). split; [exact A1|split].
  - intros k e' [Heq|Hin]; [inversion Heq; subst; lia|apply A2; exact Hin].
  - intros k e' [Heq|Hs] Hm k' m' Hin Hk1 Hk2; [|exact (A3 k e' Hs Hm k' m' Hin Hk1 Hk2)].
    inversion Heq; subst k e'. assert (HL : L = false).
    { destruct Hm as [Hm|Hm]; [inversion Hm; reflexivity|specialize (R1 _ _ Hm); lia]. }
    destruct Hin as [Hin|Hin]; [inversion Hin; subst; reflexivity|]. apply (Hd HL (k', m') Hin).
Qed.

Lemma dead_marks_stmt x : all_false (rmarks (flow_stmt false x)).
Proof. destruct dead_in as (H & _). apply H. Qed.
Lemma dead_marks_block b : all_false (rmarks (flow_block false b)).
Proof. destruct dead_in as (_ & H & _). apply H. Qed.
Lemma dead_marks_arms a : all_false (rmarks (flow_arms false a)).
Proof. destruct dead_in as (_ & _ & H & _). apply H. Qed.
Lemma dead_marks_oblock o : all_false (onm (flow_oblock false o)).
Proof. destruct dead_in as (_ & _ & _ & H). specialize (H o). destruct (flow_oblock false o); [apply H|intros p []]. Qed.

Definition P_stmt (x0 : stmt) : Prop := forall n L, 1 <= n ->
  let p := rn_stmt n x0 in
  n < snd p /\ n <= end_stmt (fst p) /\ end_stmt (fst p) < snd p /\ RC n (snd p) (rmarks (flow_stmt L (fst p))) (spans_stmt (fst p)).
Definition P_block (b0 : block) : Prop := forall n L, 1 <= n ->
  let p := rn_block n b0 in
  n <= snd p /\ end_block (fst p) < snd p /\ RC n (snd p) (rmarks (flow_block L (fst p))) (spans_block (fst p)).
Definition P_arms (a0 : arms) : Prop := forall n L, 1 <= n ->
  let p := rn_arms n a0 in
  n <= snd p /\ end_arms (fst p) < snd p /\ RC n (snd p) (rmarks (flow_arms L (fst p))) (spans_arms (fst p)) /\
  RC n (snd p) (rmarks (flow_arms L (fst p))) (spans_elif (fst p)).
Definition P_oblock (o0 : oblock) : Prop := forall n L, 1 <= n ->
  let p := rn_oblock n o0 in
  n <= snd p /\ end_oblock (fst p) < snd p /\ RC n (snd p) (onm (flow_oblock L (fst p))) (spans_oblock (fst p)).

Lemma P_leaf x0 k' : (forall n, rn_stmt n x0 = (k' n, N.succ n)) ->
  (forall n L, exists m, rmarks (flow_stmt L (k' n)) = [(n, m)]) -> (forall n, spans_stmt (k' n) = [(n, n)]) -> (forall n, end_stmt (k' n) = n) -> P_stmt x0.
Proof.
  intros E1 E2 E3 E4 n L Hn. cbv zeta. rewrite E1. cbn [fst snd]. rewrite E4, E3. destruct (E2 n L) as (m & ->).
  split; [lia|]. split; [lia|]. split; [lia|]. split; [|split].
  - intros k m0 [Heq|[]]. inversion Heq; subst. lia.
  - intros k e [Heq|[]]. inversion Heq; subst. lia.
  - intros k e [Heq|[]] Hm k0 m0 [Heq0|[]] _ _. inversion Heq; inversion Heq0; subst. destruct Hm as [Hm|[]]. inversion Hm. reflexivity.
Qed.

Ltac rn_open :=
  repeat match goal with
  | |- context [rn_block ?n ?b] =>
      let I := fresh "IB" in
      match goal with H : P_block b |- _ => pose proof (fun L => H n L) as I end;
      cbv zeta in I; destruct (rn_block n b) as [? ?]; cbn [fst snd] in I
  | |- context [rn_arms ?n ?a] =>
      let I := fresh "IA" in
      match goal with H : P_arms a |- _ => pose proof (fun L => H n L) as I end;
      cbv zeta in I; destruct (rn_arms n a) as [? ?]; cbn [fst snd] in I
  | |- context [rn_oblock ?n ?o] =>
      let I := fresh "IO" in
      match goal with H : P_oblock o |- _ => pose proof (fun L => H n L) as I end;
      cbv zeta in I; destruct (rn_oblock n o) as [? ?]; cbn [fst snd] in I
  | |- context [rn_stmt ?n ?s] =>
      let I := fresh "IS" in
      match goal with H : P_stmt s |- _ => pose proof (fun L => H n L) as I end;
      cbv zeta in I; destruct (rn_stmt n s) as [? ?]; cbn [fst snd] in I
  end.

Theorem ranges_flow :
  (forall x, P_stmt x) /\ (forall b, P_block b) /\ (forall a, P_arms a) /\ (forall o, P_oblock o).
Proof.
  apply ast_mutind.
  - intro k. apply (P_leaf (Simple k) Simple); intros; try reflexivity. eexists; reflexivity.
  - intro k. apply (P_leaf (Pass k) Pass); intros; try reflexivity. eexists; reflexivity.
  - intro k. apply (P_leaf (Return k) Return); intros; try reflexivity. eexists; reflexivity.
  - intro k. apply (P_leaf (Raise k) Raise); intros; try reflexivity. eexists; reflexivity.
  - intro k. apply (P_leaf (Break k) Break); intros; try reflexivity. eexists; reflexivity.
  - intro k. apply (P_leaf (Continue k) Continue); intros; try reflexivity. eexists; reflexivity.
  - (* If *) intros k b Hb a Ha o Ho n L Hn. cbv zeta. cbn [rn_stmt]. rn_open. cbn [fst snd].
    destruct (IB L ltac:(lia)) as (B1 & B2 & B3). destruct (IA L ltac:(lia)) as (A1 & A2 & _ & A3). destruct (IO L ltac:(lia)) as (O1 & O2 & O3).
    cbn [end_stmt]. split; [lia|]. split; [lia|]. split; [lia|].
    change (rmarks (flow_stmt L (If n b0 a0 o0))) with ((n, L) :: rmarks (flow_block L b0) ++ rmarks (flow_arms L a0) ++ onm (flow_oblock L o0)).
    cbn [spans_stmt]. apply RC_hdr; [|cbn [end_stmt]; lia|cbn [end_stmt]; lia|].
    + apply (RC_app _ n0); [exact B3| |lia|lia]. apply (RC_app _ n1); [exact A3|exact O3|lia|lia].
    + intros ->. apply all_false_app; [apply dead_marks_block|apply all_false_app; [apply dead_marks_arms|apply dead_marks_oblock]].
  - (* While *) intros k b Hb o Ho n L Hn. cbv zeta. cbn [rn_stmt]. rn_open. cbn [fst snd].
    destruct (IB L ltac:(lia)) as (B1 & B2 & B3). destruct (IO L ltac:(lia)) as (O1 & O2 & O3).
    cbn [end_stmt]. split; [lia|]. split; [lia|]. split; [lia|].
    change (rmarks (flow_stmt L (While n b0 o0))) with ((n, L) :: rmarks (flow_block L b0) ++ onm (flow_oblock L o0)).
    cbn [spans_stmt]. apply RC_hdr; [|cbn [end_stmt]; lia|cbn [end_stmt]; lia|].
    + apply (RC_app _ n0); [exact B3|exact O3|lia|lia].
    + intros ->. apply all_false_app; [apply dead_marks_block|apply dead_marks_oblock].
  - (* For *) intros k b Hb o Ho n L Hn. cbv zeta. cbn [rn_stmt]. rn_open. cbn [fst snd].
    destruct (IB L ltac:(lia)) as (B1 & B2 & B3). destruct (IO L ltac:(lia)) as (O1 & O2 & O3).
    cbn [end_stmt]. split; [lia|]. split; [lia|]. split; [lia|].
    change (rmarks (flow_stmt L (For n b0 o0))) with ((n, L) :: rmarks (flow_block L b0) ++ onm (flow_oblock L o0)).
    cbn [spans_stmt]. apply RC_hdr; [|cbn [end_stmt]; lia|cbn [end_stmt]; lia|].
    + apply (RC_app _ n0); [exact B3|exact O3|lia|lia].
    + intros ->. apply all_false_app; [apply dead_marks_block|apply dead_marks_oblock].
  - (* Try *) intros k b Hb a Ha o Ho f Hf n L Hn. cbv zeta. cbn [rn_stmt]. rn_open. cbn [fst snd].
    destruct (IB L ltac:(lia)) as (B1 & B2 & B3). destruct (IA L ltac:(lia)) as (A1 & A2 & A3 & _).
    destruct (IO (rn (flow_block L b0)) ltac:(lia)) as (O1 & O2 & O3). destruct (IO0 L ltac:(lia)) as (F1 & F2 & F3).
    cbn [end_stmt]. split; [lia|]. split; [lia|]. split; [lia|].
    change (rmarks (flow_stmt L (Try n b0 a0 o0 o1))) with
      (rmarks (flow_block L b0) ++ rmarks (flow_arms L a0) ++ onm (flow_oblock (rn (flow_block L b0)) o0) ++ onm (flow_oblock L o1)).
    cbn [spans_stmt]. apply (RC_weaken (N.succ n) n3); [|lia|lia].
    apply (RC_app _ n0); [exact B3| |lia|lia]. apply (RC_app _ n1); [exact A3| |lia|lia]. apply (RC_app _ n2); [exact O3|exact F3|lia|lia].
  - (* With *) intros k b Hb n L Hn. cbv zeta. cbn [rn_stmt]. rn_open. cbn [fst snd].
    destruct (IB L ltac:(lia)) as (B1 & B2 & B3).
    cbn [end_stmt]. split; [lia|]. split; [lia|]. split; [lia|].
    change (rmarks (flow_stmt L (With n b0))) with ((n, L) :: rmarks (flow_block L b0)).
    cbn [spans_stmt]. apply RC_hdr; [exact B3|cbn [end_stmt]; lia|cbn [end_stmt]; lia|]. intros ->. apply dead_marks_block.
  - (* Match *) intros k a Ha n L Hn. cbv zeta. cbn [rn_stmt]. rn_open. cbn [fst snd].
    destruct (IA L ltac:(lia)) as (A1 & A2 & A3 & _).
    cbn [end_stmt]. split; [lia|]. split; [lia|]. split; [lia|].
    change (rmarks (flow_stmt L (Match n a0))) with ((n, L) :: rmarks (flow_arms L a0)).
    cbn [spans_stmt]. apply RC_hdr; [exact A3|cbn [end_stmt]; lia|cbn [end_stmt]; lia|]. intros ->. apply dead_marks_arms.
  - intros k cl. apply (P_leaf (Comp k cl) (fun n => Comp n cl)); intros; try reflexivity. eexists; reflexivity.
  - (* Def *) intros k nm b Hb n L Hn. cbv zeta. cbn [rn_stmt]. rn_open. cbn [fst snd].
    destruct (IB L ltac:(lia)) as (B1 & B2 & B3).
    cbn [end_stmt flow_stmt rmarks spans_stmt]. split; [lia|]. split; [lia|]. split; [lia|].
    apply (RC_hdr n n0 _ L [] []); [apply RC_nil|lia|lia|]. intros _ p [].
  - (* Class *) intros k nm b Hb n L Hn. cbv zeta. cbn [rn_stmt]. rn_open. cbn [fst snd].
    destruct (IB L ltac:(lia)) as (B1 & B2 & B3).
    cbn [end_stmt]. split; [lia|]. split; [lia|]. split; [lia|].
    change (rmarks (flow_stmt L (Class n nm b0))) with ((n, L) :: rmarks (flow_block L b0)).
    cbn [spans_stmt]. apply RC_hdr; [exact B3|cbn [end_stmt]; lia|cbn [end_stmt]; lia|]. intros ->. apply dead_marks_block.
  - (* BNil *) intros n L Hn. cbn. split; [lia|]. split; [lia|apply RC_nil].
  - (* BCons *) intros x Hx b Hb n L Hn. cbv zeta. cbn [rn_block]. rn_open. cbn [fst snd].
    destruct (IS L Hn) as (S1 & S2 & S3 & S4). destruct (IB (rn (flow_stmt L s)) ltac:(lia)) as (B1 & B2 & B3).
    cbn [end_block flow_block rmarks spans_block]. split; [lia|]. split; [lia|].
    apply (RC_app _ n0); [exact S4|exact B3|lia|lia].
  - (* ANil *) intros n L Hn. cbn. split; [lia|]. split; [lia|]. split; apply RC_nil.
  - (* ACons *) intros k b Hb a Ha n L Hn. cbv zeta. cbn [rn_arms]. rn_open. cbn [fst snd].
    destruct (IB L ltac:(lia)) as (B1 & B2 & B3). destruct (IA L ltac:(lia)) as (A1 & A2 & A3 & A4).
    cbn [end_arms]. split; [lia|]. split; [lia|].
    change (rmarks (flow_arms L (ACons n b0 a0))) with (((n, L) :: rmarks (flow_block L b0)) ++ rmarks (flow_arms L a0)).
    cbn [spans_arms spans_elif]. split.
    + change ((n, N.max n (end_block b0)) :: spans_block b0 ++ spans_arms a0) with (((n, N.max n (end_block b0)) :: spans_block b0) ++ spans_arms a0).
      apply (RC_app _ n0); [|exact A3|lia|lia]. apply RC_hdr; [exact B3|lia|lia|]. intros ->. apply dead_marks_block.
    + apply (RC_app _ n0); [|exact A4|lia|lia]. apply RC_mark; [exact B3|lia].
  - (* ONone *) intros n L Hn. cbn. split; [lia|]. split; [lia|apply RC_nil].
  - (* OSome *) intros b Hb n L Hn. cbv zeta. cbn [rn_oblock]. rn_open. cbn [fst snd].
    destruct (IB L Hn) as (B1 & B2 & B3). cbn [end_oblock flow_oblock onm spans_oblock]. split; [lia|]. split; [lia|exact B3].
Qed.
