(* Specifications for C02 (structurally unreachable statements), C03 (McCabe count) and C04 (definitions),
   written independently of the flow analysis. *)
From Coq Require Import NArith List Bool.
From PV Require Import Py.PyAST.
Import ListNotations.

(* ---- marker ids of the statements of one function (nested defs excluded), in source order ---- *)
Fixpoint ids_stmt (s : stmt) {struct s} : list N :=
  match s with
  | Simple k | Pass k | Return k | Raise k | Break k | Continue k | Comp k _ | Def k _ _ => [k]
  | If k body elifs els => k :: ids_block body ++ ids_arms elifs ++ ids_oblock els
  | While k body els | For k body els => k :: ids_block body ++ ids_oblock els
  | Try _ body handlers els fin => ids_block body ++ ids_arms handlers ++ ids_oblock els ++ ids_oblock fin
  | With k body => k :: ids_block body
  | Match k cases => k :: ids_arms cases
  | Class k _ body => k :: ids_block body
  end
with ids_block (b : block) {struct b} : list N :=
  match b with BNil => [] | BCons s b' => ids_stmt s ++ ids_block b' end
with ids_arms (a : arms) {struct a} : list N :=
  match a with ANil => [] | ACons k b a' => k :: ids_block b ++ ids_arms a' end
with ids_oblock (o : oblock) {struct o} : list N :=
  match o with ONone => [] | OSome b => ids_block b end.

(* ---- C02: a statement list "ends that way" ---- *)
Fixpoint stmt_term (s : stmt) {struct s} : bool :=
  match s with
  | Return _ | Raise _ | Break _ | Continue _ => true
  | If _ body elifs (OSome e) => block_term body && arms_term elifs && block_term e
  | _ => false
  end
with block_term (b : block) {struct b} : bool :=
  match b with BNil => false | BCons s b' => stmt_term s || block_term b' end
with arms_term (a : arms) {struct a} : bool :=
  match a with ANil => true | ACons _ b a' => block_term b && arms_term a' end.

(* every statement that follows a terminating statement in the same list (with everything nested in it),
   at every nesting level of the function *)
Fixpoint must_dead_stmt (s : stmt) {struct s} : list N :=
  match s with
  | If _ body elifs els => must_dead_block body ++ must_dead_arms elifs ++ must_dead_oblock els
  | While _ body els | For _ body els => must_dead_block body ++ must_dead_oblock els
  | Try _ body handlers els fin =>
      must_dead_block body ++ must_dead_arms handlers ++ must_dead_oblock els ++ must_dead_oblock fin
  | With _ body => must_dead_block body
  | Match _ cases => must_dead_arms cases
  | Class _ _ body => must_dead_block body
  | _ => []
  end
with must_dead_block (b : block) {struct b} : list N :=
  match b with
  | BNil => []
  | BCons s b' => must_dead_stmt s ++ (if stmt_term s then ids_block b' else must_dead_block b')
  end
with must_dead_arms (a : arms) {struct a} : list N :=
  match a with ANil => [] | ACons _ b a' => must_dead_block b ++ must_dead_arms a' end
with must_dead_oblock (o : oblock) {struct o} : list N :=
  match o with ONone => [] | OSome b => must_dead_block b end.

(* ---- C03: decision points (id, weight) of one function ---- *)
(* "each for or if clause of a statement-level comprehension contributes exactly one": a comprehension is given by the
   number of [if] clauses that follow each of its [for] clauses; every for clause counts 1 and EVERY if clause counts 1.
   (This is the property's reading.  The code counts at most one [if] per [for] clause - Flow.comp_cx - which is finding F8;
   the difference is stated exactly by FlowMcCabe.surplus_ifs / Props C03_mccabe_up_to_extra_ifs.) *)
Definition comp_weight (clauses : list nat) : nat :=
  fold_right (fun nifs acc => 1 + nifs + acc) 0 clauses.

Fixpoint dec_stmt (s : stmt) {struct s} : list (N * nat) :=
  match s with
  | Simple _ | Pass _ | Return _ | Raise _ | Break _ | Continue _ | Def _ _ _ => []
  | Comp k cl => [(k, comp_weight cl)]
  | If k body elifs els => (k, 1) :: dec_block body ++ dec_elifs elifs ++ dec_oblock els
  | While k body els | For k body els => (k, 1) :: dec_block body ++ dec_oblock els
  | Try _ body handlers els fin => dec_block body ++ dec_elifs handlers ++ dec_oblock els ++ dec_oblock fin
  | With _ body => dec_block body
  | Match _ cases => dec_cases cases
  | Class _ _ body => dec_block body
  end
with dec_block (b : block) {struct b} : list (N * nat) :=
  match b with BNil => [] | BCons s b' => dec_stmt s ++ dec_block b' end
with dec_elifs (a : arms) {struct a} : list (N * nat) :=      (* elif tests and except handlers: one each *)
  match a with ANil => [] | ACons k b a' => (k, 1) :: dec_block b ++ dec_elifs a' end
with dec_cases (a : arms) {struct a} : list (N * nat) :=
  match a with ANil => [] | ACons _ b a' => dec_block b ++ dec_cases a' end
with dec_oblock (o : oblock) {struct o} : list (N * nat) :=
  match o with ONone => [] | OSome b => dec_block b end.

(* the constructs C03 quantifies over: no with / match / raise / finally *)
Fixpoint c03_stmt (s : stmt) {struct s} : bool :=
  match s with
  | Simple _ | Pass _ | Return _ | Break _ | Continue _ | Comp _ _ | Def _ _ _ => true
  | Raise _ | With _ _ | Match _ _ => false
  | If _ body elifs els => c03_block body && c03_arms elifs && c03_oblock els
  | While _ body els | For _ body els => c03_block body && c03_oblock els
  | Try _ body handlers els fin => c03_block body && c03_arms handlers && c03_oblock els && match fin with ONone => true | _ => false end
  | Class _ _ body => c03_block body
  end
with c03_block (b : block) {struct b} : bool :=
  match b with BNil => true | BCons s b' => c03_stmt s && c03_block b' end
with c03_arms (a : arms) {struct a} : bool :=
  match a with ANil => true | ACons _ b a' => c03_block b && c03_arms a' end
with c03_oblock (o : oblock) {struct o} : bool :=
  match o with ONone => true | OSome b => c03_block b end.

(* McCabe number given the set of statements reported dead *)
Definition mccabe (dead : list N) (body : block) : nat :=
  S (fold_right (fun d acc => (if existsb (N.eqb (fst d)) dead then 0 else snd d) + acc) 0 (dec_block body)).

(* risk level from thresholds (service/complexity_service.go:283-291 / config.AssessRiskLevel) *)
Inductive risk := Low | Medium | High.
Definition risk_of (c lo med : nat) : risk :=
  if Nat.leb c lo then Low else if Nat.leb c med then Medium else High.
