(* Unfolding of [process_stmt] on try/else/finally, in continuation-passing form (see BuilderTryNS.v; the kernel needs
   about a minute for the one conversion of this file). *)
From Coq Require Import NArith List Bool Arith Lia.
From PV Require Import Py.PyAST Cfg.Builder Cfg.BuilderReach Cfg.BuilderFrame.
Import ListNotations.
Local Open Scope N_scope.

Definition try_ss_hyp (s : st) (body : block) (hs : arms) (eb fb : block) (K : st -> Prop) : Prop :=
  forall hbs s6 s8 s11 t1 t2,
    new_blocks (nb (nb (nb (connect (nb s) (cur s) (next s) ENormal)))) (arms_length hs) = (hbs, s6) ->
    let f := N.succ (N.succ (next s)) in
    let elseb := N.succ (N.succ (N.succ (next s))) in
    let exitb := N.succ (next s) in
    let t7 := set_excs s6 ({| x_finally := Some f; x_handlers := hbs; x_processing := false |} :: excs s6) in
    s8 = process_block (set_cur t7 (next s)) body ->
    s11 = process_handlers (connect_all (connect_unless_exit s8 (cur s8) elseb ENormal) (next s) hbs EException) hs hbs f ->
    t1 = process_block (set_cur s11 elseb) eb ->
    t2 = process_block (set_processing (set_cur (connect_unless_exit t1 (cur t1) f ENormal) f) true) fb ->
    let t3 := set_processing t2 false in
    let s13 := fin_prop (connect_unless_exit t3 (cur t3) exitb ENormal) f in
    K (set_cur (set_excs s13 (tl (excs s13))) exitb).

Lemma try_ss_open s k body hs eb fb (K : st -> Prop) :
  try_ss_hyp s body hs eb fb K -> K (process_stmt s (Try k body hs (OSome eb) (OSome fb))).
Proof.
  intro H. cbn beta iota delta [process_stmt] fix match. peel_all ident:(u).
  match goal with |- context [new_blocks ?t ?n] =>
    let hbs := fresh "hbs" in let s6 := fresh "s6" in let Enb := fresh "Enb" in
    destruct (new_blocks t n) as [hbs s6] eqn:Enb end.
  cbv beta iota. repeat peel_step_fin2 ident:(u) (N.succ (N.succ (next s))).
  eapply (H hbs s6 s8u s11u t1u t2u); [exact Enb|exact Es8u|exact Es11u|exact Et1u|exact Et2u].
Qed.
