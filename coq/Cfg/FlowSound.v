(* C01: soundness of the reachability abstraction w.r.t. the CPython control-flow semantics:
   every statement whose marker executes in some run is marked reachable. *)
From Coq Require Import NArith List Bool Lia.
From PV Require Import Py.PyAST Py.PySem Py.PySemEq Cfg.Flow.
Import ListNotations.

Definition ok_marks (m : list (N * bool)) (t : list N) : Prop := forall k, In k t -> In (k, true) m.

Definition ok (r : res) (out : outcome) (t : list N) : Prop :=
  ok_marks (rmarks r) t /\ (out = ONormal -> rn r = true) /\ (out = OBrk -> rk r = true).

Definition on (o : option res) : list (N * bool) := match o with Some r => rmarks r | None => [] end.
Definition ok' (o : option res) : bool := match o with Some r => rk r | None => false end.

Lemma ok_marks_incl m m' t : incl m m' -> ok_marks m t -> ok_marks m' t.
Proof. intros I H k Hk. apply I. auto. Qed.
Lemma ok_marks_cons_t m k t : In (k, true) m -> ok_marks m t -> ok_marks m (k :: t).
Proof. intros H1 H2 x [<-|Hx]; auto. Qed.
Lemma ok_marks_tapp m t1 t2 : ok_marks m t1 -> ok_marks m t2 -> ok_marks m (t1 ++ t2).
Proof. intros H1 H2 k Hk. apply in_app_or in Hk. destruct Hk; auto. Qed.
Lemma ok_marks_nil m : ok_marks m [].
Proof. intros k []. Qed.

Ltac inv H := inversion H; subst; clear H.

(* list membership / inclusion in concatenations *)
Ltac in_tauto := simpl; repeat rewrite in_app_iff; simpl; tauto.
Ltac incl_tauto := let x := fresh "x" in let Hx := fresh "Hx" in
  intros x Hx; simpl in *; repeat rewrite in_app_iff in *; simpl in *; tauto.

Ltac marks :=
  repeat match goal with
  | |- ok_marks _ [] => apply ok_marks_nil
  | |- ok_marks _ (_ :: _) => apply ok_marks_cons_t; [ in_tauto | ]
  | |- ok_marks _ (_ ++ _) => apply ok_marks_tapp
  | H : ok_marks ?m ?t |- ok_marks ?m' ?t => apply (ok_marks_incl m m'); [ incl_tauto | exact H ]
  end.

Ltac use_eqs :=
  repeat match goal with
  | H : ?a = ?a -> _ |- _ => specialize (H eq_refl)
  | H : ?x = ?c -> _, E : ?x = ?c |- _ => specialize (H E)
  end.

Ltac bools := use_eqs; try discriminate; simpl in *;
  repeat match goal with H : _ = true |- _ => rewrite H end;
  repeat rewrite orb_true_r; simpl; try reflexivity;
  repeat rewrite orb_true_iff in *; try tauto.

Ltac fin := unfold ok, ok', opt_n, on in *; simpl in *;
  repeat match goal with |- _ /\ _ => split end;
  [ marks | .. ]; intros; bools.

(* what each executor guarantees, given that the statement is reached with L = true *)
Definition P_stmt (f : nat) := forall o s out o' t, exec_stmt f o s = (out, o', t) -> ok (flow_stmt true s) out t.
Definition P_block (f : nat) := forall o b out o' t, exec_block f o b = (out, o', t) -> ok (flow_block true b) out t.
Definition P_elifs (f : nat) := forall o a els out o' t, exec_elifs f o a els = (out, o', t) ->
  ok_marks (rmarks (flow_arms true a) ++ on (flow_oblock true els)) t /\
  (out = ONormal -> rn (flow_arms true a) || opt_n true (flow_oblock true els) = true) /\
  (out = OBrk -> rk (flow_arms true a) || ok' (flow_oblock true els) = true).
Definition P_while (f : nat) := forall o k body els out o' t, exec_while f o k body els = (out, o', t) ->
  ok (flow_stmt true (While k body els)) out t.
Definition P_for (f : nat) := forall o (k : N) body els out o' t, exec_for f o body els = (out, o', t) ->
  ok_marks (rmarks (flow_block true body) ++ on (flow_oblock true els)) t /\
  (out = ONormal -> opt_n true (flow_oblock true els) || rk (flow_block true body) = true) /\
  (out = OBrk -> ok' (flow_oblock true els) = true).
Definition P_handlers (f : nat) := forall o a out o' t, exec_handlers f o a = (out, o', t) ->
  ok (flow_arms true a) out t.
Definition P_cases (f : nat) := forall o a out o' t, exec_cases f o a = (out, o', t) ->
  ok_marks (rmarks (flow_arms true a)) t /\ (out = OBrk -> rk (flow_arms true a) = true).

Section Step.
Variable f : nat.
Hypothesis IHs : P_stmt f.
Hypothesis IHb : P_block f.
Hypothesis IHe : P_elifs f.
Hypothesis IHw : P_while f.
Hypothesis IHf : P_for f.
Hypothesis IHh : P_handlers f.
Hypothesis IHc : P_cases f.

Ltac use_IH :=
  repeat match goal with
  | E : exec_stmt f _ _ = _ |- _ => apply IHs in E; destruct E as (? & ? & ?)
  | E : exec_block f _ _ = _ |- _ => apply IHb in E; destruct E as (? & ? & ?)
  | E : exec_elifs f _ _ _ = _ |- _ => apply IHe in E; destruct E as (? & ? & ?)
  | E : exec_while f _ _ _ _ = _ |- _ => apply IHw in E; destruct E as (? & ? & ?)
  | E : exec_handlers f _ _ = _ |- _ => apply IHh in E; destruct E as (? & ? & ?)
  | E : exec_cases f _ _ = _ |- _ => apply IHc in E; destruct E as (? & ?)
  end.

Lemma step_block : P_block (S f).
Proof.
  red. intros o b out o' t H. rewrite exec_block_S in H. destruct b as [|s b'].
  - inv H. fin.
  - destruct (exec_stmt f o s) as [[out1 o1] t1] eqn:E1.
    destruct out1; try solve [ inv H; use_IH; fin ].
    destruct (exec_block f o1 b') as [[out2 o2] t2] eqn:E2. inv H. use_IH.
    unfold ok in *. simpl. use_eqs.
    match goal with H : rn (flow_stmt true s) = true |- _ => rewrite H in * end. fin.
Qed.

Lemma step_elifs : P_elifs (S f).
Proof.
  red. intros o a els out o' t H. rewrite exec_elifs_S in H. destruct a as [|k b a'].
  - destruct els as [|e]; [ inv H; fin | use_IH; fin ].
  - destruct (next o) as [c o1]. destruct (is_raise c); [ inv H; fin | ].
    destruct (is_true c).
    + destruct (exec_block f o1 b) as [[out2 o2] t2] eqn:E2. inv H. use_IH. fin.
    + destruct (exec_elifs f o1 a' els) as [[out2 o2] t2] eqn:E2. inv H. use_IH. fin.
Qed.

Lemma step_while : P_while (S f).
Proof.
  red. intros o k body els out o' t H. rewrite exec_while_S in H.
  destruct (next o) as [c o1]. destruct (is_raise c); [ inv H; fin | ].
  destruct (is_true c).
  - destruct (exec_block f o1 body) as [[out2 o2] t2] eqn:E2.
    destruct out2; try solve [ inv H; use_IH; fin ].
    + destruct (exec_while f o2 k body els) as [[out3 o3] t3] eqn:E3. inv H. use_IH. fin.
    + destruct (exec_while f o2 k body els) as [[out3 o3] t3] eqn:E3. inv H. use_IH. fin.
  - destruct els as [|e]; [ inv H; fin | ].
    destruct (exec_block f o1 e) as [[out2 o2] t2] eqn:E2. inv H. use_IH. fin.
Qed.

Lemma step_for : P_for (S f).
Proof.
  red. intros o k body els out o' t H. rewrite exec_for_S in H.
  destruct (next o) as [c o1]. destruct (is_raise c); [ inv H; fin | ].
  destruct (is_true c).
  - destruct (exec_block f o1 body) as [[out2 o2] t2] eqn:E2.
    destruct out2; try solve [ inv H; use_IH; fin ].
    + destruct (exec_for f o2 body els) as [[out3 o3] t3] eqn:E3. inv H. apply (IHf _ k) in E3. destruct E3 as (? & ? & ?). use_IH. fin.
    + destruct (exec_for f o2 body els) as [[out3 o3] t3] eqn:E3. inv H. apply (IHf _ k) in E3. destruct E3 as (? & ? & ?). use_IH. fin.
  - destruct els as [|e]; [ inv H; fin | use_IH; fin ].
Qed.

Lemma step_handlers : P_handlers (S f).
Proof.
  red. intros o a out o' t H. rewrite exec_handlers_S in H. destruct a as [|k b a'].
  - inv H. fin.
  - destruct (next o) as [c o1]. destruct (is_match c).
    + destruct (exec_block f o1 b) as [[out2 o2] t2] eqn:E2. inv H. use_IH. fin.
    + destruct (exec_handlers f o1 a') as [[out2 o2] t2] eqn:E2. inv H. use_IH. fin.
Qed.

Lemma step_cases : P_cases (S f).
Proof.
  red. intros o a out o' t H. rewrite exec_cases_S in H. destruct a as [|k b a'].
  - inv H. fin.
  - destruct (next o) as [c o1]. destruct (is_true c).
    + destruct (exec_block f o1 b) as [[out2 o2] t2] eqn:E2. inv H. use_IH. fin.
    + destruct (exec_cases f o1 a') as [[out2 o2] t2] eqn:E2. inv H. use_IH. fin.
Qed.

Lemma step_stmt : P_stmt (S f).
Proof.
  red. intros o s out o' t H. rewrite exec_stmt_S in H. destruct s.
  - (* Simple *) unfold mark_may_raise in H. destruct (next o) as [c o1]. inv H. destruct (is_raise c); fin.
  - (* Pass *) inv H. fin.
  - (* Return *) destruct (next o) as [c o1]. inv H. destruct (is_raise c); fin.
  - inv H. fin.
  - inv H. fin.
  - inv H. fin.
  - (* If *) destruct (next o) as [c o1]. destruct (is_raise c); [ inv H; fin | ].
    destruct (is_true c).
    + destruct (exec_block f o1 body) as [[out2 o2] t2] eqn:E2. inv H. use_IH. fin.
    + destruct (exec_elifs f o1 elifs els) as [[out2 o2] t2] eqn:E2. inv H. use_IH.
      unfold ok, ok', opt_n, on in *; simpl in *; destruct (flow_oblock true els) eqn:Eo; fin.
  - (* While *) apply IHw in H. exact H.
  - (* For *) destruct (next o) as [c o1]. destruct (is_raise c); [ inv H; fin | ].
    destruct (exec_for f o1 body els) as [[out2 o2] t2] eqn:E2. inv H. apply (IHf _ k) in E2. destruct E2 as (? & ? & ?).
    unfold ok, ok', opt_n, on in *; simpl in *; destruct (flow_oblock true els) eqn:Eo; fin.
  - (* Try *)
    destruct (exec_block f o body) as [[out1 o1] t1] eqn:E1. use_IH.
    assert (Mid : forall pend o2 t2,
      match out1 with
      | OExc => exec_handlers f o1 handlers
      | ONormal => match els with ONone => (ONormal, o1, []) | OSome e => exec_block f o1 e end
      | _ => (out1, o1, [])
      end = (pend, o2, t2) ->
      ok_marks (rmarks (flow_arms true handlers) ++ on (flow_oblock (rn (flow_block true body)) els)) t2 /\
      (pend = ONormal -> opt_n (rn (flow_block true body)) (flow_oblock (rn (flow_block true body)) els)
                          || rn (flow_arms true handlers) = true) /\
      (pend = OBrk -> rk (flow_block true body) || rk (flow_arms true handlers)
                       || ok' (flow_oblock (rn (flow_block true body)) els) = true)).
    { intros pend o2 t2 HM. destruct out1; try solve [ inv HM; fin ].
      - use_eqs. match goal with H : rn (flow_block true body) = true |- _ => rewrite H in * end.
        destruct els as [|e]; [ inv HM; fin | use_IH; fin ].
      - use_IH. fin. }
    destruct (match out1 with
      | OExc => exec_handlers f o1 handlers
      | ONormal => match els with ONone => (ONormal, o1, []) | OSome e => exec_block f o1 e end
      | _ => (out1, o1, [])
      end) as [[pend o2] t2] eqn:EM.
    specialize (Mid _ _ _ eq_refl). destruct Mid as (M2 & N2 & K2).
    destruct fin as [|fb].
    + inv H. unfold ok, ok', opt_n, on in *; simpl in *; destruct (flow_oblock (rn (flow_block true body)) els) eqn:Eo; fin.
    + destruct pend;
      try solve [ destruct (exec_block f o2 fb) as [[outf o3] t3] eqn:E3; inv H; use_IH;
                  unfold ok, ok', opt_n, on in *; simpl in *; destruct (flow_oblock (rn (flow_block true body)) els) eqn:Eo; destruct outf; fin ].
  - (* With *) destruct (next o) as [c o1]. destruct (is_raise c); [ inv H; fin | ].
    destruct (exec_block f o1 body) as [[out2 o2] t2] eqn:E2.
    destruct out2; try solve [ inv H; use_IH; fin ].
    destruct (next o2) as [c2 o3]. inv H. use_IH. destruct (is_true c2); fin.
  - (* Match *) destruct (next o) as [c o1]. destruct (is_raise c); [ inv H; fin | ].
    destruct (exec_cases f o1 cases) as [[out2 o2] t2] eqn:E2. inv H. use_IH. fin.
  - (* Comp *) unfold mark_may_raise in H. destruct (next o) as [c o1]. inv H. destruct (is_raise c); fin.
  - (* Def *) unfold mark_may_raise in H. destruct (next o) as [c o1]. inv H. destruct (is_raise c); fin.
  - (* Class *) destruct (next o) as [c o1]. destruct (is_raise c); [ inv H; fin | ].
    destruct (exec_block f o1 body) as [[out2 o2] t2] eqn:E2. inv H. use_IH. fin.
Qed.
End Step.

Definition P_all (f : nat) := P_stmt f /\ P_block f /\ P_elifs f /\ P_while f /\ P_for f /\ P_handlers f /\ P_cases f.

Lemma P_all_0 : P_all 0.
Proof.
  unfold P_all, P_stmt, P_block, P_elifs, P_while, P_for, P_handlers, P_cases.
  refine (conj _ (conj _ (conj _ (conj _ (conj _ (conj _ _)))))); intros; simpl in *;
  match goal with H : (_, _, _) = (_, _, _) |- _ => inv H end; fin.
Qed.

Theorem P_all_any f : P_all f.
Proof.
  induction f as [|f (IHs & IHb & IHe & IHw & IHf & IHh & IHc)]; [apply P_all_0 | ].
  unfold P_all.
  refine (conj _ (conj _ (conj _ (conj _ (conj _ (conj _ _)))))).
  - apply step_stmt; assumption.
  - apply step_block; assumption.
  - apply step_elifs; assumption.
  - apply step_while; assumption.
  - apply step_for; assumption.
  - apply step_handlers; assumption.
  - apply step_cases; assumption.
Qed.

(* every executed statement of a function body is marked reachable, for every oracle and fuel *)
Theorem flow_sound body fuel o out t :
  run fuel o body = (out, t) -> forall k, In k t -> In (k, true) (fn_marks body).
Proof.
  unfold run. destruct (exec_block fuel o body) as [[out' o'] t'] eqn:E. intros H. inv H.
  destruct (P_all_any fuel) as (_ & Pb & _). apply Pb in E. destruct E as (M & _). exact M.
Qed.

(* ---- statement-level form used by the property: an executed statement is never among the dead ones ---- *)
Lemma nodup_fst_unique (m : list (N * bool)) k a b :
  NoDup (map fst m) -> In (k, a) m -> In (k, b) m -> a = b.
Proof.
  induction m as [|[k' c] m IH]; simpl; intros ND Ha Hb; [contradiction|].
  inversion ND as [|? ? Hn ND']; subst.
  destruct Ha as [Ha|Ha]; destruct Hb as [Hb|Hb].
  - congruence.
  - inversion Ha; subst. exfalso. apply Hn. change k with (fst (k, b)). apply in_map. exact Hb.
  - inversion Hb; subst. exfalso. apply Hn. change k with (fst (k, a)). apply in_map. exact Ha.
  - eauto.
Qed.

Theorem executed_not_dead body fuel o out t :
  NoDup (map fst (fn_marks body)) ->
  run fuel o body = (out, t) -> forall k, In k t -> ~ In k (dead_ids body).
Proof.
  intros ND R k Hk Hd. pose proof (flow_sound body fuel o out t R k Hk) as Hl.
  unfold dead_ids in Hd. apply in_map_iff in Hd. destruct Hd as ([k' b] & Hf & Hin). simpl in Hf. subst k'.
  apply filter_In in Hin. destruct Hin as (Hin & Hb). simpl in Hb.
  assert (b = true) by (eapply nodup_fst_unique; eauto). subst b. discriminate.
Qed.
