(* Graph-level model of internal/analyzer/cfg_builder.go (current tree) for one function body:
   blocks, statements per block, typed edges, the loop and exception stacks — one Gallina function per Go function —
   then reachability.go (depth-first walk from ENTRY), dead_code.go (one finding per unreachable non-empty block:
   first statement start line .. last statement end line) and complexity.go (blocks with a conditional out-edge +
   exception edges, over the walk, + 1).
   This is the finer model; Cfg/Flow.v is the abstraction the C01-C03 theorems are proved on.  The two are compared on
   every generated function (harness) and exhaustively on small programs (Cfg/BuilderBounded.v). *)
From Coq Require Import NArith List Bool.
From PV Require Import Py.PyAST.
Import ListNotations.

Inductive ety := ENormal | ECondTrue | ECondFalse | EException | ELoop | EBreak | EContinue | EReturn.
Inductive skind := KReturn | KRaise | KBreak | KContinue | KOther.

Record bstmt := { b_start : N; b_end : N; b_kind : skind }.
Record loopctx := { l_header : N; l_exit : N; l_excdepth : nat }.
Record excctx := { x_finally : option N; x_handlers : list N; x_processing : bool }.

Record st := {
  next : N;                          (* cfg.nextBlockID *)
  cur : N;                           (* b.currentBlock *)
  blocks : list (N * list bstmt);    (* statements of each block, in order; newest block first *)
  edges : list (N * N * ety);        (* in insertion order *)
  loops : list loopctx;              (* loopStack, innermost first *)
  excs : list excctx                 (* exceptionStack, innermost first *)
}.

Definition entry_id : N := 0.
Definition exit_id : N := 1.

Definition init : st :=
  {| next := 2; cur := entry_id; blocks := [(exit_id, []); (entry_id, [])]; edges := []; loops := []; excs := [] |}.

Definition new_block (s : st) : N * st :=
  (next s, {| next := N.succ (next s); cur := cur s; blocks := (next s, []) :: blocks s; edges := edges s;
              loops := loops s; excs := excs s |}).

Definition set_cur (s : st) (b : N) : st :=
  {| next := next s; cur := b; blocks := blocks s; edges := edges s; loops := loops s; excs := excs s |}.

Definition connect (s : st) (from to : N) (t : ety) : st :=
  {| next := next s; cur := cur s; blocks := blocks s; edges := edges s ++ [(from, to, t)]; loops := loops s; excs := excs s |}.

Fixpoint add_to (bs : list (N * list bstmt)) (b : N) (x : bstmt) : list (N * list bstmt) :=
  match bs with
  | [] => []
  | (k, l) :: r => if N.eqb k b then (k, l ++ [x]) :: r else (k, l) :: add_to r b x
  end.

Definition add_stmt (s : st) (b : N) (x : bstmt) : st :=
  {| next := next s; cur := cur s; blocks := add_to (blocks s) b x; edges := edges s; loops := loops s; excs := excs s |}.

Definition set_loops (s : st) (l : list loopctx) : st :=
  {| next := next s; cur := cur s; blocks := blocks s; edges := edges s; loops := l; excs := excs s |}.
Definition set_excs (s : st) (l : list excctx) : st :=
  {| next := next s; cur := cur s; blocks := blocks s; edges := edges s; loops := loops s; excs := l |}.

Definition has_successor (s : st) (from to : N) : bool :=
  existsb (fun e => match e with (f, t, _) => N.eqb f from && N.eqb t to end) (edges s).

Definition connect_unless_exit (s : st) (from to : N) (t : ety) : st :=
  if has_successor s from exit_id then s else connect s from to t.
Definition connect_unless (s : st) (from to : N) (t : ety) : st :=
  if has_successor s from to then s else connect s from to t.

(* last line of a statement as tree-sitter reports it: the last line of anything nested in it *)
Fixpoint end_stmt (s : stmt) {struct s} : N :=
  match s with
  | Simple k | Pass k | Return k | Raise k | Break k | Continue k | Comp k _ => k
  | If k b a e => N.max k (N.max (end_block b) (N.max (end_arms a) (end_oblock e)))
  | While k b e | For k b e => N.max k (N.max (end_block b) (end_oblock e))
  | Try k b h e f => N.max k (N.max (end_block b) (N.max (end_arms h) (N.max (end_oblock e) (end_oblock f))))
  | With k b => N.max k (end_block b)
  | Match k c => N.max k (end_arms c)
  | Def k _ b | Class k _ b => N.max k (end_block b)
  end
with end_block (b : block) {struct b} : N :=
  match b with BNil => 0 | BCons s b' => N.max (end_stmt s) (end_block b') end
with end_arms (a : arms) {struct a} : N :=
  match a with ANil => 0 | ACons k b a' => N.max k (N.max (end_block b) (end_arms a')) end
with end_oblock (o : oblock) {struct o} : N :=
  match o with ONone => 0 | OSome b => end_block b end.

Definition mk (k e : N) (kd : skind) : bstmt := {| b_start := k; b_end := e; b_kind := kd |}.

(* return: innermost frame whose finally block exists and is not the current block (cfg_builder.go:343-349) *)
Fixpoint return_target (cur : N) (xs : list excctx) : option N :=
  match xs with
  | [] => None
  | x :: r => match x_finally x with
              | Some f => if N.eqb f cur then return_target cur r else Some f
              | None => return_target cur r
              end
  end.

(* break/continue: innermost non-processing frame with a finally block, among the frames inside the loop *)
Fixpoint jump_target (xs : list excctx) : option N :=
  match xs with
  | [] => None
  | x :: r => if x_processing x then jump_target r
              else match x_finally x with Some f => Some f | None => jump_target r end
  end.

(* raise: (finally target, fallback frame = first non-processing frame) *)
Fixpoint raise_target (xs : list excctx) (fallback : option excctx) : option N * option excctx :=
  match xs with
  | [] => (None, fallback)
  | x :: r => if x_processing x then raise_target r fallback
              else let fb := match fallback with None => Some x | Some _ => fallback end in
                   match x_finally x with Some f => (Some f, fb) | None => raise_target r fb end
  end.

Definition in_loop_frames (s : st) (l : loopctx) : list excctx :=
  firstn (length (excs s) - l_excdepth l) (excs s).

Fixpoint first_finally (xs : list excctx) : option N :=
  match xs with [] => None | x :: r => match x_finally x with Some f => Some f | None => first_finally r end end.

Definition after_terminator (s : st) : st := let (u, s1) := new_block s in set_cur s1 u.

Fixpoint connect_all (s : st) (from : N) (tos : list N) (t : ety) : st :=
  match tos with [] => s | x :: r => connect_all (connect s from x t) from r t end.
Fixpoint connect_all_unless (s : st) (from : N) (tos : list N) (t : ety) : st :=
  match tos with [] => s | x :: r => connect_all_unless (connect_unless s from x t) from r t end.

Fixpoint new_blocks (s : st) (n : nat) : list N * st :=
  match n with O => ([], s) | S m => let (b, s1) := new_block s in let (l, s2) := new_blocks s1 m in (b :: l, s2) end.

Definition set_processing (s : st) (p : bool) : st :=
  match excs s with
  | [] => s
  | x :: r => set_excs s ({| x_finally := x_finally x; x_handlers := x_handlers x; x_processing := p |} :: r)
  end.

(* processComprehension (cfg_builder.go:1272-1367) for the printed form: every clause has an iterable,
   a clause with at least one `if` has a filter test; the element value is a statement of the body/append block *)
Fixpoint comp_clauses (s : st) (k : N) (cl : list nat) (prev : N) : N * st :=
  match cl with
  | [] => (prev, s)
  | nifs :: r =>
      let (header, s1) := new_block s in
      let s2 := connect s1 prev header ENormal in
      let s3 := add_stmt s2 header (mk k k KOther) in
      let (body, s4) := new_block s3 in
      let s5 := connect s4 header body ECondTrue in
      let s6 :=
        if Nat.ltb 0 nifs then
          let (filter, a1) := new_block s5 in
          let a2 := connect a1 body filter ENormal in
          let a3 := add_stmt a2 filter (mk k k KOther) in
          let (app, a4) := new_block a3 in
          let a5 := connect a4 filter app ECondTrue in
          let a6 := connect a5 filter header ECondFalse in
          let a7 := add_stmt a6 app (mk k k KOther) in
          connect a7 app header ELoop
        else
          let a1 := add_stmt s5 body (mk k k KOther) in
          let (app, a2) := new_block a1 in
          let a3 := connect a2 body app ENormal in
          connect a3 app header ELoop in
      comp_clauses s6 k r header
  end.

Definition process_comp (s : st) (k : N) (cl : list nat) : st :=
  let (ini, s1) := new_block s in
  let s2 := connect s1 (cur s) ini ENormal in
  let s3 := add_stmt s2 ini (mk k k KOther) in
  let (ex, s4) := new_block s3 in
  let (last, s5) := comp_clauses s4 k cl ini in
  let s6 := if N.eqb last ini then connect s5 ini ex ENormal else connect s5 last ex ECondFalse in
  let s7 := set_cur s6 ex in
  add_stmt s7 ex (mk k k KOther).      (* the assignment statement itself, after the comprehension *)

Fixpoint process_stmt (s : st) (x : stmt) {struct x} : st :=
  match x with
  | Simple k | Pass k | Def k _ _ => add_stmt s (cur s) (mk k (end_stmt x) KOther)
  | Comp k cl => process_comp s k cl
  | Return k =>
      let s1 := add_stmt s (cur s) (mk k k KReturn) in
      let s2 := match return_target (cur s1) (excs s1) with
                | Some f => connect s1 (cur s1) f EReturn
                | None => connect s1 (cur s1) exit_id EReturn
                end in
      after_terminator s2
  | Raise k =>
      let s1 := add_stmt s (cur s) (mk k k KRaise) in
      let s2 := match raise_target (excs s1) None with
                | (Some f, _) => connect s1 (cur s1) f EException
                | (None, Some fb) => match x_handlers fb with
                                     | [] => connect s1 (cur s1) exit_id EException
                                     | hs => connect_all s1 (cur s1) hs EException
                                     end
                | (None, None) => connect s1 (cur s1) exit_id EException
                end in
      after_terminator s2
  | Break k =>
      let s1 := add_stmt s (cur s) (mk k k KBreak) in
      match loops s1 with
      | [] => s1                                    (* "break statement outside of loop": no edge, no new block *)
      | l :: _ =>
          let s2 := match jump_target (in_loop_frames s1 l) with
                    | Some f => connect s1 (cur s1) f EBreak
                    | None => connect s1 (cur s1) (l_exit l) EBreak
                    end in
          after_terminator s2
      end
  | Continue k =>
      let s1 := add_stmt s (cur s) (mk k k KContinue) in
      match loops s1 with
      | [] => s1
      | l :: _ =>
          let s2 := match jump_target (in_loop_frames s1 l) with
                    | Some f => connect s1 (cur s1) f EContinue
                    | None => connect s1 (cur s1) (l_header l) EContinue
                    end in
          after_terminator s2
      end
  | If k body elifs els =>
      let cond := cur s in
      let s1 := add_stmt s cond (mk k (end_stmt x) KOther) in
      let (thenb, s2) := new_block s1 in
      let (merge, s3) := new_block s2 in
      let s4 := connect s3 cond thenb ECondTrue in
      let s5 := process_block (set_cur s4 thenb) body in
      let then_end := cur s5 in
      match elifs with
      | ACons _ _ _ =>
          let (elifb, s6) := new_block s5 in
          let s7 := connect s6 cond elifb ECondFalse in
          let kelse := fun (t : st) (c : N) =>
            match els with
            | OSome e =>
                let (elseb, t1) := new_block t in
                let t2 := connect t1 c elseb ECondFalse in
                let t3 := process_block (set_cur t2 elseb) e in
                connect_unless_exit t3 (cur t3) merge ENormal
            | ONone => connect t c merge ECondFalse
            end in
          let s8 := process_elif (set_cur s7 elifb) elifs kelse merge in
          let s9 := connect_unless_exit s8 then_end merge ENormal in
          set_cur s9 merge
      | ANil =>
          match els with
          | OSome e =>
              let (elseb, s6) := new_block s5 in
              let s7 := connect s6 cond elseb ECondFalse in
              let s8 := process_block (set_cur s7 elseb) e in
              let s9 := connect_unless_exit s8 then_end merge ENormal in
              let s10 := connect_unless_exit s9 (cur s9) merge ENormal in
              set_cur s10 merge
          | ONone =>
              let s6 := connect s5 cond merge ECondFalse in
              let s7 := connect_unless_exit s6 then_end merge ENormal in
              set_cur s7 merge
          end
      end
  | While k body els | For k body els =>
      let (header, s1) := new_block s in
      let s2 := connect s1 (cur s) header ENormal in
      let s3 := add_stmt s2 header (mk k (end_stmt x) KOther) in
      let (bodyb, s4) := new_block s3 in
      let (exitb, s5) := new_block s4 in
      let '(elseb, s6) := match els with
                          | OSome _ => let (e, t) := new_block s5 in (Some e, t)
                          | ONone => (None, s5)
                          end in
      let l := {| l_header := header; l_exit := exitb; l_excdepth := length (excs s6) |} in
      let s7 := set_loops s6 (l :: loops s6) in
      let s8 := connect s7 header bodyb ECondTrue in
      let s9 := match elseb with Some e => connect s8 header e ECondFalse | None => connect s8 header exitb ECondFalse end in
      let s10 := process_block (set_cur s9 bodyb) body in
      let s11 := connect_unless_exit s10 (cur s10) header ELoop in
      let s12 := set_loops s11 (tl (loops s11)) in
      let s13 := match elseb, els with
                 | Some e, OSome eb =>
                     let t1 := process_block (set_cur s12 e) eb in
                     connect_unless_exit t1 (cur t1) exitb ENormal
                 | _, _ => s12
                 end in
      set_cur s13 exitb
  | Try _ body handlers els fin =>
      let (tryb, s1) := new_block s in
      let s2 := connect s1 (cur s) tryb ENormal in
      let (exitb, s3) := new_block s2 in
      let '(finb, s4) := match fin with OSome _ => let (f, t) := new_block s3 in (Some f, t) | ONone => (None, s3) end in
      let '(elseb, s5) := match els with OSome _ => let (e, t) := new_block s4 in (Some e, t) | ONone => (None, s4) end in
      let (hbs, s6) := new_blocks s5 (arms_length handlers) in
      let ctx := {| x_finally := finb; x_handlers := hbs; x_processing := false |} in
      let s7 := set_excs s6 (ctx :: excs s6) in
      let s8 := process_block (set_cur s7 tryb) body in
      let try_end := cur s8 in
      let after_fin_or_exit := match finb with Some f => f | None => exitb end in
      let next_after_try := match elseb with Some e => e | None => after_fin_or_exit end in
      let s9 := connect_unless_exit s8 try_end next_after_try ENormal in
      let s10 := connect_all s9 tryb hbs EException in
      let s11 := process_handlers s10 handlers hbs after_fin_or_exit in
      let s12 := match elseb, els with
                 | Some e, OSome eb =>
                     let t1 := process_block (set_cur s11 e) eb in
                     connect_unless_exit t1 (cur t1) after_fin_or_exit ENormal
                 | _, _ => s11
                 end in
      let s13 :=
        match finb, fin with
        | Some f, OSome fb =>
            let t1 := set_processing (set_cur s12 f) true in
            let t2 := process_block t1 fb in
            let t3 := set_processing t2 false in
            let t4 := connect_unless_exit t3 (cur t3) exitb ENormal in
            let outer := tl (excs t4) in
            let next_outer := first_finally outer in
            (* return propagation *)
            let t5 := match next_outer with
                      | Some o => connect_unless t4 f o EReturn
                      | None => connect_unless t4 f exit_id EReturn
                      end in
            (* break / continue propagation: only when this try is inside the innermost loop *)
            let t6 := match loops t5 with
                      | l :: _ =>
                          if Nat.leb (l_excdepth l) (length (excs t5) - 1) then
                            let next_loop := first_finally (firstn (length outer - l_excdepth l) outer) in
                            match next_loop with
                            | Some o => connect_unless (connect_unless t5 f o EBreak) f o EContinue
                            | None => connect_unless (connect_unless t5 f (l_exit l) EBreak) f (l_header l) EContinue
                            end
                          else t5
                      | [] => t5
                      end in
            (* exception propagation *)
            match next_outer with
            | Some o => connect_unless t6 f o EException
            | None => match outer with
                      | oc :: _ => connect_all_unless t6 f (x_handlers oc) EException
                      | [] => connect_unless t6 f exit_id EException
                      end
            end
        | _, _ => s12
        end in
      set_cur (set_excs s13 (tl (excs s13))) exitb
  | With k body =>
      let (setup, s1) := new_block s in
      let s2 := connect s1 (cur s) setup ENormal in
      let s3 := add_stmt s2 setup (mk k (end_stmt x) KOther) in
      let (bodyb, s4) := new_block s3 in
      let (tear, s5) := new_block s4 in
      let (exitb, s6) := new_block s5 in
      let s7 := connect s6 setup bodyb ENormal in
      let s8 := process_block (set_cur s7 bodyb) body in
      let s9 := connect_unless_exit s8 (cur s8) tear ENormal in
      let s10 := connect s9 setup tear EException in
      let s11 := connect s10 tear exitb ENormal in
      set_cur s11 exitb
  | Match k cases =>
      let (mb, s1) := new_block s in
      let s2 := connect s1 (cur s) mb ENormal in
      let s3 := add_stmt s2 mb (mk k (end_stmt x) KOther) in
      let (merge, s4) := new_block s3 in
      let s5 := match cases with
                | ANil => connect s4 mb merge ENormal
                | _ => let t := process_cases s4 cases mb merge in connect t mb merge ECondFalse
                end in
      set_cur s5 merge
  | Class k _ body =>
      (* buildClass: class_body block, the class node as a statement, body inline (methods are Def statements) *)
      let (cb, s1) := new_block s in
      let s2 := connect s1 (cur s) cb ENormal in
      let s3 := add_stmt (set_cur s2 cb) cb (mk k (end_stmt x) KOther) in
      process_block s3 body
  end
with process_block (s : st) (b : block) {struct b} : st :=
  match b with BNil => s | BCons x b' => process_block (process_stmt s x) b' end
with process_elif (s : st) (a : arms) (kelse : st -> N -> st) (merge : N) {struct a} : st :=
  (* processIfStatementElif: the current block is the elif block; the converted If node has no location *)
  match a with
  | ANil => s
  | ACons _ body rest =>
      let cond := cur s in
      let s1 := add_stmt s cond (mk 0 0 KOther) in
      let (thenb, s2) := new_block s1 in
      let s3 := connect s2 cond thenb ECondTrue in
      let s4 := process_block (set_cur s3 thenb) body in
      let then_end := cur s4 in
      let s5 :=
        match rest with
        | ACons _ _ _ =>
            let (elifb, t1) := new_block s4 in
            let t2 := connect t1 cond elifb ECondFalse in
            process_elif (set_cur t2 elifb) rest kelse merge
        | ANil => kelse s4 cond
        end in
      let s6 := connect_unless_exit s5 then_end merge ENormal in
      set_cur s6 merge
  end
with process_handlers (s : st) (hs : arms) (hbs : list N) (nxt : N) {struct hs} : st :=
  match hs, hbs with
  | ACons k b r, hb :: hbr =>
      let s1 := add_stmt (set_cur s hb) hb (mk k (N.max k (end_block b)) KOther) in
      let s2 := process_block s1 b in
      let s3 := connect_unless_exit s2 (cur s2) nxt ENormal in
      process_handlers s3 r hbr nxt
  | _, _ => s
  end
with process_cases (s : st) (cs : arms) (mb merge : N) {struct cs} : st :=
  match cs with
  | ANil => s
  | ACons k b r =>
      let (cb, s1) := new_block s in
      let s2 := connect s1 mb cb ECondTrue in
      let s3 := add_stmt (set_cur s2 cb) cb (mk k (N.max k (end_block b)) KOther) in
      let s4 := process_block s3 b in
      let s5 := connect_unless_exit s4 (cur s4) merge ENormal in
      process_cases s5 r mb merge
  end.

(* Build for a function definition: ENTRY -> func_body; body; current -> EXIT unless already connected *)
Definition build (body : block) : st :=
  let (fb, s1) := new_block init in
  let s2 := connect s1 entry_id fb ENormal in
  let s3 := process_block (set_cur s2 fb) body in
  if N.eqb (cur s3) exit_id || has_successor s3 (cur s3) exit_id then s3 else connect s3 (cur s3) exit_id ENormal.

(* ---- reachability: depth-first walk from ENTRY (cfg.go Walk / reachability.go) ---- *)
Definition succs (s : st) (b : N) : list N :=
  map (fun e => match e with (_, t, _) => t end) (filter (fun e => match e with (f, _, _) => N.eqb f b end) (edges s)).

Fixpoint dfs (fuel : nat) (s : st) (stack visited : list N) : list N :=
  match fuel with
  | O => visited
  | S f =>
      match stack with
      | [] => visited
      | b :: r => if existsb (N.eqb b) visited then dfs f s r visited
                  else dfs f s (succs s b ++ r) (b :: visited)
      end
  end.

Definition reachable (s : st) : list N :=
  dfs (S (length (edges s) + length (blocks s))) s [entry_id] [].

Definition is_reach (r : list N) (b : N) : bool := existsb (N.eqb b) r.

(* dead_code.go: one finding per unreachable block that holds statements *)
Definition dead_ranges (s : st) : list (N * N) :=
  let r := reachable s in
  flat_map (fun bl => match bl with
                      | (b, x :: xs) => if is_reach r b then [] else [(b_start x, b_end (last xs x))]
                      | (_, []) => []
                      end) (rev (blocks s)).

(* complexity.go: distinct reachable blocks with a conditional out-edge + exception edges out of reachable blocks + 1 *)
Definition complexity_g (s : st) : nat :=
  let r := reachable s in
  let cond_blocks := filter (fun b => existsb (fun e => match e with
                                                        | (f, _, ECondTrue) | (f, _, ECondFalse) => N.eqb f b
                                                        | _ => false end) (edges s)) r in
  let exc_edges := filter (fun e => match e with (f, _, EException) => is_reach r f | _ => false end) (edges s) in
  S (length cond_blocks + length exc_edges).

(* statement-level view of the dead blocks: start lines of the statements of unreachable blocks *)
Definition dead_stmt_lines (s : st) : list N :=
  let r := reachable s in
  flat_map (fun bl => if is_reach r (fst bl) then [] else map b_start (snd bl)) (rev (blocks s)).
