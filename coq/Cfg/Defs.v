(* C04: the per-definition registry of BuildAll (cfg_builder.go:69-70, 153-194, 250-285): a map from the dotted
   qualified name to the CFG, filled while walking the module. *)
From Coq Require Import NArith List Bool Permutation.
From PV Require Import Py.PyAST Cfg.Flow.
Import ListNotations.

Definition qname := list N.
Definition qeqb (a b : qname) : bool := if list_eq_dec N.eq_dec a b then true else false.

(* functionCFGs[fullName] = cfg : a later definition with the same qualified name replaces the earlier one *)
Fixpoint reg_insert (r : list (qname * N)) (q : qname) (k : N) : list (qname * N) :=
  match r with
  | [] => [(q, k)]
  | (q', k') :: r' => if qeqb q q' then (q, k) :: r' else (q', k') :: reg_insert r' q k
  end.
Definition registry (m : block) : list (qname * N) :=
  fold_left (fun r d => match d with (q, k, _) => reg_insert r q k end) (module_defs m) [].

(* spec: every def statement of the module, at any depth, with its dotted name (enclosing defs and classes) *)
Fixpoint all_defs_stmt (scope : qname) (s : stmt) {struct s} : list (qname * N) :=
  match s with
  | Def k name body => (scope ++ [name], k) :: all_defs_block (scope ++ [name]) body
  | Class _ name body => all_defs_block (scope ++ [name]) body
  | If _ body elifs els => all_defs_block scope body ++ all_defs_arms scope elifs ++ all_defs_oblock scope els
  | While _ body els | For _ body els => all_defs_block scope body ++ all_defs_oblock scope els
  | Try _ body handlers els fin =>
      all_defs_block scope body ++ all_defs_arms scope handlers ++ all_defs_oblock scope els ++ all_defs_oblock scope fin
  | With _ body => all_defs_block scope body
  | Match _ cases => all_defs_arms scope cases
  | _ => []
  end
with all_defs_block (scope : qname) (b : block) {struct b} : list (qname * N) :=
  match b with BNil => [] | BCons s b' => all_defs_stmt scope s ++ all_defs_block scope b' end
with all_defs_arms (scope : qname) (a : arms) {struct a} : list (qname * N) :=
  match a with ANil => [] | ACons _ b a' => all_defs_block scope b ++ all_defs_arms scope a' end
with all_defs_oblock (scope : qname) (o : oblock) {struct o} : list (qname * N) :=
  match o with ONone => [] | OSome b => all_defs_block scope b end.

Definition all_defs (m : block) : list (qname * N) := all_defs_block [] m.

Lemma qeqb_true a b : qeqb a b = true <-> a = b.
Proof. unfold qeqb. destruct (list_eq_dec N.eq_dec a b); split; intros; congruence. Qed.

Lemma defs_proj :
  (forall s sc, map (fun d => (fst (fst d), snd (fst d))) (defs_stmt sc s) = all_defs_stmt sc s) /\
  (forall b sc, map (fun d => (fst (fst d), snd (fst d))) (defs_block sc b) = all_defs_block sc b) /\
  (forall a sc, map (fun d => (fst (fst d), snd (fst d))) (defs_arms sc a) = all_defs_arms sc a) /\
  (forall o sc, map (fun d => (fst (fst d), snd (fst d))) (defs_oblock sc o) = all_defs_oblock sc o).
Proof.
  apply ast_mutind; intros; simpl; repeat rewrite map_app;
  repeat match goal with H : forall sc, _ = _ |- _ => rewrite H end; reflexivity.
Qed.

(* inserting a fresh name appends *)
Lemma reg_insert_fresh r q k : ~ In q (map fst r) -> reg_insert r q k = r ++ [(q, k)].
Proof.
  induction r as [|[q' k'] r IH]; simpl; intro H; [reflexivity|].
  destruct (qeqb q q') eqn:E.
  - apply qeqb_true in E. subst. exfalso. apply H. left. reflexivity.
  - rewrite IH; [reflexivity|]. intro C. apply H. right. exact C.
Qed.

Lemma registry_nodup_gen (ds : list (qname * N * block)) acc :
  NoDup (map fst acc ++ map (fun d => fst (fst d)) ds) ->
  fold_left (fun r d => match d with (q, k, _) => reg_insert r q k end) ds acc
  = acc ++ map (fun d => (fst (fst d), snd (fst d))) ds.
Proof.
  revert acc. induction ds as [|[[q k] b] ds IH]; intros acc ND; simpl.
  - rewrite app_nil_r. reflexivity.
  - simpl in ND. rewrite reg_insert_fresh.
    + rewrite IH.
      * rewrite <- app_assoc. reflexivity.
      * rewrite map_app. simpl. rewrite <- app_assoc. simpl. exact ND.
    + apply NoDup_remove_2 in ND. intro C. apply ND. apply in_or_app. left. exact C.
Qed.

(* with unique qualified names the registry holds every definition exactly once, in source order *)
Theorem registry_all_defs m :
  NoDup (map fst (all_defs m)) -> registry m = all_defs m.
Proof.
  intro ND. unfold registry, all_defs. destruct defs_proj as (_ & Hb & _).
  rewrite registry_nodup_gen.
  - simpl. apply Hb.
  - simpl. unfold all_defs in ND. rewrite <- (Hb m []) in ND. rewrite map_map in ND. simpl in ND. exact ND.
Qed.

(* ---- classes: lcom.go collectClasses walks the whole AST and reports the bare class name ---- *)
Fixpoint classes_stmt (scope : qname) (s : stmt) {struct s} : list (qname * N * N) :=   (* dotted name, bare name, line *)
  match s with
  | Def _ name body => classes_block (scope ++ [name]) body
  | Class k name body => (scope ++ [name], name, k) :: classes_block (scope ++ [name]) body
  | If _ body elifs els => classes_block scope body ++ classes_arms scope elifs ++ classes_oblock scope els
  | While _ body els | For _ body els => classes_block scope body ++ classes_oblock scope els
  | Try _ body handlers els fin =>
      classes_block scope body ++ classes_arms scope handlers ++ classes_oblock scope els ++ classes_oblock scope fin
  | With _ body => classes_block scope body
  | Match _ cases => classes_arms scope cases
  | _ => []
  end
with classes_block (scope : qname) (b : block) {struct b} : list (qname * N * N) :=
  match b with BNil => [] | BCons s b' => classes_stmt scope s ++ classes_block scope b' end
with classes_arms (scope : qname) (a : arms) {struct a} : list (qname * N * N) :=
  match a with ANil => [] | ACons _ b a' => classes_block scope b ++ classes_arms scope a' end
with classes_oblock (scope : qname) (o : oblock) {struct o} : list (qname * N * N) :=
  match o with ONone => [] | OSome b => classes_block scope b end.

(* spec rows: dotted name and line; model rows (lcom.Classes): bare name and line *)
Definition all_classes (m : block) : list (qname * N) := map (fun c => (fst (fst c), snd c)) (classes_block [] m).
Definition lcom_class_rows (m : block) : list (qname * N) := map (fun c => ([snd (fst c)], snd c)) (classes_block [] m).

Theorem class_rows_lines m : map snd (lcom_class_rows m) = map snd (all_classes m).
Proof. unfold lcom_class_rows, all_classes. rewrite !map_map. reflexivity. Qed.

Definition top_level_classes_only (m : block) : Prop :=
  forall c, In c (classes_block [] m) -> fst (fst c) = [snd (fst c)].

Theorem class_rows_names_partial m : top_level_classes_only m -> lcom_class_rows m = all_classes m.
Proof.
  unfold top_level_classes_only, lcom_class_rows, all_classes. intro H.
  apply map_ext_in. intros c Hc. rewrite (H c Hc). reflexivity.
Qed.

(* F20: a nested class is reported under its bare name *)
Theorem class_rows_names_refuted :
  exists m, lcom_class_rows m <> all_classes m.
Proof.
  exists (BCons (Class 2 1 (BCons (Class 3 2 (BCons (Pass 4) BNil)) BNil)) BNil).
  vm_compute. discriminate.
Qed.

(* F3b: two definitions with one qualified name: the registry keeps one row *)
Theorem registry_same_name_refuted :
  exists m, registry m <> all_defs m.
Proof.
  exists (BCons (Def 2 1 (BCons (Pass 3) BNil)) (BCons (Def 5 1 (BCons (Pass 6) BNil)) BNil)).
  vm_compute. discriminate.
Qed.
